(** * Where the order of ClassShexer's stages is irrelevant.

    /repo's [ClassShexer.shex_classes] removes the empty shapes BEFORE the
    constraints are merged since commit a3b99df ([Model.ShexingFix.shex_f]); it
    used to remove them AFTER the merge ([Model.Shexing.shex]).
    [ShexingFix.shex_cur] selects by the generated flag
    [Gen.Consts.c_clean_before_merge].  The two orders differ only through what
    [_clean_empty_shapes] does when it finds an empty shape (old order: TypeError
    next to a disjunction, deletion of the constraints that reference the removed
    shape, statements re-listed as direct ++ inverse; new order: the references
    disappear before the merge, which falls back to the node kinds, and the final
    sort is kept).  So:

    - Part 1, the stage: if remove_empty_shapes is off, or no class of the
      profile is empty at the threshold ([no_empty_class], a boolean), both orders
      are [map_err shex_class] ([stage_order_irrelevant]);
    - Part 2, the runs as "prefix, front, stage" for one and for two documents,
      the computable domain [order_dom] / [order_dom2] and the equality on it
      ([run_shapes_cur_eq], [run_shexc_cur_eq], [run_shapes2_eq_old]);
    - Part 3, ONE document: the front guarantees the domain.  With
      remove_empty_shapes the profiler has already dropped every class without
      features that is not one of the "original labels", a class with features
      has an instance, and every instance of a class has the class among the
      values of the instantiation property, so the typing entry of the class has
      count = class size and passes every threshold <= 1
      ([front_no_empty_class]; [class_mode_order_irrelevant], [_shexc], and the
      instances for binary64 and the exact rationals);
    - Part 4, the boundary is real ([..._refuted], by computation, stated under
      [c_clean_before_merge = true]): a requested target class whose IRI starts
      with "@" and has no instance is its own label, survives the profiler and
      reaches the stage as an empty shape: statement order ([order_at_class_order_refuted])
      and TypeError ([order_at_class_typeerror_refuted]) differ; with two
      documents a class WITH instances can be empty at a threshold <= 1
      ([order_two_documents_refuted]: namespaces_to_ignore covering the
      instantiation property). *)
From Coq Require Import List Ascii String ZArith NArith Bool Lia.
From Shexer Require Import Lib.PyStr Lib.Dict Lib.Bin64 Gen.Consts Spec.Rdf Model.Tracker Model.Profiler
  Model.Tokens Model.Freq Model.FreqInst Model.Shexing Model.ShexingFix Model.SerialShexc Model.Run Model.NsFilter
  Model.Run2 Model.RunCur Spec.Counts
  Proofs.DictLemmas Proofs.ProfileChar Proofs.ShexBasics Proofs.ShexLemmas Proofs.ShexKeys Proofs.FreqLaws
  Proofs.Bin64Round Proofs.EndToEnd Proofs.EndToEnd2 Proofs.ShexingFixProofs Proofs.RunWitness.
Import ListNotations.

(** ** Part 1. the stage *)

Section Stage.
  Variable fa : FreqAlg.
  Variable cfg : scfg.

  (** no class of the profile is without candidates at the threshold *)
  Definition no_empty_class (thr : F fa) (C : ccounts) (P : cprofile) : bool :=
    forallb (fun ce => negb (class_empty fa cfg thr C ce)) P.

  Lemma no_empty_class_In thr C P ce :
    no_empty_class thr C P = true -> In ce P -> class_empty fa cfg thr C ce = false.
  Proof.
    unfold no_empty_class. intros H Hce. rewrite forallb_forall in H. apply negb_true_iff. exact (H ce Hce).
  Qed.

  Lemma gone_names_no_empty thr C P : no_empty_class thr C P = true -> gone_names fa cfg thr C P = [].
  Proof.
    intros H. unfold gone_names.
    assert (E : filter (class_empty fa cfg thr C) P = []).
    { induction P as [|ce P' IH]; [reflexivity|]. cbn [filter].
      rewrite (no_empty_class_In thr C (ce :: P') ce H (or_introl eq_refl)). apply IH.
      unfold no_empty_class in *. cbn [forallb] in H. apply andb_true_iff in H. apply H. }
    rewrite E. reflexivity.
  Qed.

  (** [shex_class] does not read [x_remove_empty] *)
  Lemma shex_class_keep_cfg thr C ce : shex_class fa (keep_cfg cfg) thr C ce = shex_class fa cfg thr C ce.
  Proof. reflexivity. Qed.

  (** a class with a candidate keeps a statement; a class without has none *)
  Lemma class_nonempty_shape thr C ce sh :
    class_empty fa cfg thr C ce = false -> shex_class fa cfg thr C ce = inl sh -> sh_stmts sh <> [].
  Proof.
    intros He Hs. apply (nonempty_class fa cfg thr C ce sh He). intros inv p vc.
    apply (shex_class_keys fa (keep_cfg cfg) thr C ce sh). exact Hs.
  Qed.

  Lemma class_empty_shape thr C ce :
    class_empty fa cfg thr C ce = true ->
    shex_class fa cfg thr C ce =
    inl {| sh_name := shape_name (x_shapes_ns cfg) (fst ce); sh_class := fst ce; sh_n := cnt_in C (fst ce); sh_stmts := [] |}.
  Proof.
    unfold class_empty, class_candidates, cnt_in. intros He. unfold shex_class. cbv zeta.
    destruct (base_statements fa thr match dget C (fst ce) with Some n => n | None => 0%N end false (c_direct (snd ce)) ++
              (if x_inverse cfg
               then base_statements fa thr match dget C (fst ce) with Some n => n | None => 0%N end true (c_inverse (snd ce))
               else [])) as [|s l]; [|discriminate He].
    reflexivity.
  Qed.

  (** both orders are the per-class map when nothing is empty *)
  Lemma shex_when_no_empty thr P C :
    no_empty_class thr C P = true -> shex fa cfg thr P C = map_err (shex_class fa cfg thr C) P.
  Proof.
    intros H. unfold shex. destruct (map_err (shex_class fa cfg thr C) P) as [l|e] eqn:E; [|reflexivity].
    destruct (x_remove_empty cfg); [|reflexivity]. apply clean_shapes_id.
    apply ShexBasics.map_err_Forall2 in E. apply Forall_forall. intros sh Hsh.
    destruct (ShexBasics.Forall2_In_r _ _ _ _ E Hsh) as [ce [Hce Hs]].
    exact (class_nonempty_shape thr C ce sh (no_empty_class_In thr C P ce H Hce) Hs).
  Qed.

  Lemma shex_f_when_no_empty thr P C :
    no_empty_class thr C P = true -> shex_f fa cfg thr P C = map_err (shex_class fa cfg thr C) P.
  Proof.
    intros H. unfold shex_f.
    assert (E : merged_profile fa cfg thr C P = P).
    { unfold merged_profile. destruct (x_remove_empty cfg); [|reflexivity].
      cbn [clean_thr]. rewrite (gone_names_no_empty thr C P H). reflexivity. }
    rewrite E. unfold shex. cbn [x_remove_empty keep_cfg].
    change (map_err (shex_class fa (keep_cfg cfg) thr C) P) with (map_err (shex_class fa cfg thr C) P).
    destruct (map_err (shex_class fa cfg thr C) P); reflexivity.
  Qed.

  Lemma shex_f_keep thr P C : x_remove_empty cfg = false -> shex_f fa cfg thr P C = shex fa cfg thr P C.
  Proof.
    intros H. unfold shex_f. rewrite (merged_keep fa cfg thr C P H). unfold shex. cbn [x_remove_empty keep_cfg].
    rewrite H. change (map_err (shex_class fa (keep_cfg cfg) thr C) P) with (map_err (shex_class fa cfg thr C) P).
    reflexivity.
  Qed.

  Theorem shex_f_order_irrelevant thr P C :
    x_remove_empty cfg = false \/ no_empty_class thr C P = true ->
    shex_f fa cfg thr P C = shex fa cfg thr P C.
  Proof.
    intros [H|H]; [exact (shex_f_keep thr P C H)|].
    rewrite (shex_f_when_no_empty thr P C H), (shex_when_no_empty thr P C H). reflexivity.
  Qed.

  (** the stage as the code has it = the stage in the old order *)
  Theorem stage_order_irrelevant thr P C :
    x_remove_empty cfg = false \/ no_empty_class thr C P = true ->
    shex_cur fa cfg thr P C = shex fa cfg thr P C.
  Proof. intros H. unfold shex_cur. destruct c_clean_before_merge; [exact (shex_f_order_irrelevant thr P C H) | reflexivity]. Qed.

  Corollary shex_cur_keep thr P C : x_remove_empty cfg = false -> shex_cur fa cfg thr P C = shex fa cfg thr P C.
  Proof. intros H. apply stage_order_irrelevant. left. exact H. Qed.

  Corollary shex_cur_when_no_empty thr P C :
    no_empty_class thr C P = true -> shex_cur fa cfg thr P C = map_err (shex_class fa cfg thr C) P.
  Proof.
    intros H. rewrite (stage_order_irrelevant thr P C (or_intror H)). exact (shex_when_no_empty thr P C H).
  Qed.

  (** [no_empty_class] read on the shapes before the shape-level cleaning *)
  Lemma no_empty_class_raw thr P C l :
    map_err (shex_class fa cfg thr C) P = inl l ->
    (no_empty_class thr C P = true <-> Forall (fun sh => sh_stmts sh <> []) l).
  Proof.
    intros E. apply ShexBasics.map_err_Forall2 in E. split.
    - intros H. apply Forall_forall. intros sh Hsh.
      destruct (ShexBasics.Forall2_In_r _ _ _ _ E Hsh) as [ce [Hce Hs]].
      exact (class_nonempty_shape thr C ce sh (no_empty_class_In thr C P ce H Hce) Hs).
    - intros H. unfold no_empty_class. induction E as [|ce sh P' l' Hs _ IH]; [reflexivity|].
      inversion H as [|? ? Hne Hl]; subst. cbn [forallb]. rewrite (IH Hl), andb_true_r.
      destruct (class_empty fa cfg thr C ce) eqn:He; [|reflexivity]. exfalso. apply Hne.
      rewrite (class_empty_shape thr C ce He) in Hs. injection Hs as <-. reflexivity.
  Qed.
End Stage.

(** ** Part 2. the runs *)

(** tracker on [gi], profiler on [gf] *)
Definition front2 (c : rcfg) (gi gf : graph) : (cprofile * ccounts) + rerr :=
  match track (r_tau c) (tmode_of c) (r_cap c) gi with
  | inr _ => inr REAttr
  | inl ins =>
    match profile (pcfg_of c) ins gf with
    | inr PEAttr => inr REAttr
    | inr PEType => inr REType
    | inl (P, C, _) => inl (P, C)
    end
  end.

Lemma front2_same c g : front2 c g g = front c g.
Proof. reflexivity. Qed.

Lemma front2_inl c gi gf P C :
  front2 c gi gf = inl (P, C) ->
  exists ins ID, track (r_tau c) (tmode_of c) (r_cap c) gi = inl ins /\
                 profile (pcfg_of c) ins gf = inl (P, C, ID).
Proof.
  unfold front2. destruct (track _ _ _ gi) as [ins|e]; [|discriminate].
  destruct (profile (pcfg_of c) ins gf) as [[[P' C'] ID]|[|]] eqn:E; try discriminate.
  intros H; injection H as <- <-. eauto.
Qed.

Lemma run_shapes2_front fa c thr gi gf :
  run_shapes2 fa c thr gi gf =
  match full_ns c with
  | None => inr RERandom
  | Some ns =>
    match front2 c gi gf with
    | inr e => inr e
    | inl (P, C) =>
      match shex_cur fa (scfg_of c ns) thr P C with
      | inr e => inr (rerr_of_s e)
      | inl s => inl (ns, s)
      end
    end
  end.
Proof.
  unfold run_shapes2, front2, tmode_of. destruct (full_ns c) as [ns|]; [|reflexivity].
  destruct (track _ _ _ gi) as [ins|e]; [|reflexivity].
  destruct (profile (pcfg_of c) ins gf) as [[[P C] ID]|[|]]; reflexivity.
Qed.

Lemma run_shapes_cur_is_run_shapes2 fa c thr g : run_shapes_cur fa c thr g = run_shapes2 fa c thr g g.
Proof. reflexivity. Qed.

Lemma run_shexc_cur_is_run_shexc2 fa c thr g : run_shexc_cur fa c thr g = run_shexc2 fa c thr g g.
Proof. reflexivity. Qed.

Lemma run_shapes_cur_front fa c thr g :
  run_shapes_cur fa c thr g =
  match full_ns c with
  | None => inr RERandom
  | Some ns =>
    match front c g with
    | inr e => inr e
    | inl (P, C) =>
      match shex_cur fa (scfg_of c ns) thr P C with
      | inr e => inr (rerr_of_s e)
      | inl s => inl (ns, s)
      end
    end
  end.
Proof. rewrite run_shapes_cur_is_run_shapes2, run_shapes2_front, front2_same. reflexivity. Qed.

(** the two-document run in the OLD order (not a model of the code any more:
    kept here to state where the order matters) *)
Definition run_shapes2_old (fa : FreqAlg) (c : rcfg) (thr : F fa) (gi gf : graph) : (nsdict * list shape) + rerr :=
  match full_ns c with
  | None => inr RERandom
  | Some ns =>
    match front2 c gi gf with
    | inr e => inr e
    | inl (P, C) =>
      match shex fa (scfg_of c ns) thr P C with
      | inr e => inr (rerr_of_s e)
      | inl s => inl (ns, s)
      end
    end
  end.

Definition run_shexc2_old (fa : FreqAlg) (c : rcfg) (thr : F fa) (gi gf : graph) : str + rerr :=
  match run_shapes2_old fa c thr gi gf with
  | inr e => inr e
  | inl (ns, shapes) =>
    match render {| z_ns := ns; z_tau := r_tau c; z_disable_comments := r_disable_comments c;
                    z_mode := r_mode c |} shapes with
    | Some t => inl t
    | None => inr REValue
    end
  end.

Lemma run_shapes2_old_same fa c thr g : run_shapes2_old fa c thr g g = run_shapes fa c thr g.
Proof. unfold run_shapes2_old. rewrite front2_same, run_shapes_front. reflexivity. Qed.

Lemma run_shexc2_old_same fa c thr g : run_shexc2_old fa c thr g g = run_shexc fa c thr g.
Proof. unfold run_shexc2_old, run_shexc. rewrite run_shapes2_old_same. reflexivity. Qed.

(** the domain, computed from the input: remove_empty_shapes off, or the front
    fails, or no class of the profile it delivers is empty at the threshold *)
Definition order_dom2 (fa : FreqAlg) (c : rcfg) (thr : F fa) (gi gf : graph) : bool :=
  negb (r_remove_empty c) ||
  match full_ns c with
  | None => true
  | Some ns =>
    match front2 c gi gf with
    | inr _ => true
    | inl (P, C) => no_empty_class fa (scfg_of c ns) thr C P
    end
  end.

Definition order_dom (fa : FreqAlg) (c : rcfg) (thr : F fa) (g : graph) : bool := order_dom2 fa c thr g g.

Theorem run_shapes2_eq_old fa c thr gi gf :
  order_dom2 fa c thr gi gf = true -> run_shapes2 fa c thr gi gf = run_shapes2_old fa c thr gi gf.
Proof.
  unfold order_dom2. intros H. rewrite run_shapes2_front. unfold run_shapes2_old.
  destruct (full_ns c) as [ns|]; [|reflexivity]. destruct (front2 c gi gf) as [[P C]|e]; [|reflexivity].
  rewrite (stage_order_irrelevant fa (scfg_of c ns) thr P C); [reflexivity|].
  cbn [x_remove_empty scfg_of]. destruct (r_remove_empty c); [right; exact H | left; reflexivity].
Qed.

Theorem run_shexc2_eq_old fa c thr gi gf :
  order_dom2 fa c thr gi gf = true -> run_shexc2 fa c thr gi gf = run_shexc2_old fa c thr gi gf.
Proof. intros H. unfold run_shexc2, run_shexc2_old. rewrite (run_shapes2_eq_old fa c thr gi gf H). reflexivity. Qed.

Theorem run_shapes_cur_eq fa c thr g :
  order_dom fa c thr g = true -> run_shapes_cur fa c thr g = run_shapes fa c thr g.
Proof.
  intros H. rewrite run_shapes_cur_is_run_shapes2, (run_shapes2_eq_old fa c thr g g H). apply run_shapes2_old_same.
Qed.

Theorem run_shexc_cur_eq fa c thr g :
  order_dom fa c thr g = true -> run_shexc_cur fa c thr g = run_shexc fa c thr g.
Proof. intros H. unfold run_shexc_cur, run_shexc. rewrite (run_shapes_cur_eq fa c thr g H). reflexivity. Qed.

Lemma order_dom_keep fa c thr g : r_remove_empty c = false -> order_dom fa c thr g = true.
Proof. unfold order_dom, order_dom2. intros ->. reflexivity. Qed.

Lemma order_dom2_keep fa c thr gi gf : r_remove_empty c = false -> order_dom2 fa c thr gi gf = true.
Proof. unfold order_dom2. intros ->. reflexivity. Qed.

(** ** Part 3. one document: the front guarantees the domain *)

Section OneDocument.
  Variable fa : FreqAlg.
  Variables (okN : N -> Prop) (okF : F fa -> Prop).
  Hypothesis L : FreqLaws fa okN okF.

  (** a class of the profile that has an instance has a candidate: its typing
      entry, whose count is the class size *)
  Lemma typing_class_not_empty c g ns ins P C ID thr cl e :
    track (r_tau c) (tmode_of c) (r_cap c) g = inl ins ->
    profile (pcfg_of c) ins g = inl (P, C, ID) ->
    In (cl, e) P -> (0 < class_count ins cl)%N -> okN (class_count ins cl) ->
    okF thr -> fle fa thr (fone fa) = true ->
    class_empty fa (scfg_of c ns) thr C (cl, e) = false.
  Proof.
    intros Ht Hp Hce Hpos HokN HokF Hle.
    destruct (track_insts_ok _ _ _ _ _ Ht) as [ND _].
    pose proof (track_classes _ _ _ _ _ Ht) as Hall.
    destruct (profile_final_char (pcfg_of c) ins g P C ID ND Hp) as (_ & _ & (ks & Hks & _) & _ & HC & _).
    assert (Hk : In cl (dkeys P)) by (apply in_map_iff; exists (cl, e); auto).
    assert (Hcl : In cl (class_keys (targets_of (pcfg_of c)) ins)).
    { rewrite Hks in Hk. apply filter_In in Hk. apply Hk. }
    destruct (profile_final_complete (pcfg_of c) ins g P C ID ND Hp cl e Hce (r_tau c) cl (fun _ => Hk)) as [Hcomp _].
    cbn [p_tau pcfg_of] in Hcomp. specialize (Hcomp (CKn 1)).
    rewrite (occ_typing (r_tau c) g ins cl Hall) in Hcomp.
    destruct (Hcomp Hpos) as (m & cd & H1 & H2 & H3).
    assert (Hin : In (base_stmt false (r_tau c) cl (CKn 1) (class_count ins cl))
                     (base_statements fa thr (cnt_in C cl) false (c_direct e))).
    { apply base_statements_spec. exists (r_tau c), cl, (CKn 1), (class_count ins cl).
      split; [exists m, cd; auto|]. split; [|reflexivity].
      unfold cnt_in. rewrite (HC cl Hcl). apply (fle_ratio_self fa okN okF L); assumption. }
    unfold class_empty, class_candidates. cbn [fst snd].
    destruct (base_statements fa thr (cnt_in C cl) false (c_direct e)) as [|s l]; [destruct Hin|]. reflexivity.
  Qed.

  (** with remove_empty_shapes, every class the front delivers has a candidate *)
  Theorem front_no_empty_class c thr g ns P C :
    r_remove_empty c = true -> r_targets c = None \/ class_iris_ok c g = true ->
    okF thr -> fle fa thr (fone fa) = true ->
    (forall n, (0 < n <= N.of_nat (List.length g))%N -> okN n) ->
    front c g = inl (P, C) -> no_empty_class fa (scfg_of c ns) thr C P = true.
  Proof.
    intros Hre Hcls HokF Hle HokN Hf. destruct (front_inl c g P C Hf) as (ins & ID & Ht & Hp).
    unfold no_empty_class. apply forallb_forall. intros [cl e] Hce. apply negb_true_iff.
    assert (Hlab : ~ In cl (orig_labels (pcfg_of c))).
    { destruct Hcls as [Hnone|Hok].
      - unfold orig_labels. cbn [p_targets p_map_labels pcfg_of]. rewrite Hnone. intros [].
      - exact (class_key_not_label c g ins P C ID Hok Ht Hp (cl, e) Hce). }
    pose proof (kept_class_has_instance c g ins P C ID Hre Ht Hp cl e Hce Hlab) as Hpos.
    apply (typing_class_not_empty c g ns ins P C ID thr cl e Ht Hp Hce Hpos); try assumption.
    apply HokN. split; [exact Hpos|]. exact (class_count_le_graph _ _ _ _ _ cl Ht).
  Qed.

  Theorem order_dom_derived c thr g :
    r_remove_empty c = false \/
    ((r_targets c = None \/ class_iris_ok c g = true) /\ okF thr /\ fle fa thr (fone fa) = true /\
     (forall n, (0 < n <= N.of_nat (List.length g))%N -> okN n)) ->
    order_dom fa c thr g = true.
  Proof.
    intros [Hre|(Hcls & HokF & Hle & HokN)]; [exact (order_dom_keep fa c thr g Hre)|].
    unfold order_dom, order_dom2. destruct (r_remove_empty c) eqn:Hre; [|reflexivity]. cbn [negb orb].
    destruct (full_ns c) as [ns|]; [|reflexivity]. rewrite front2_same.
    destruct (front c g) as [[P C]|e] eqn:Hf; [|reflexivity].
    exact (front_no_empty_class c thr g ns P C Hre Hcls HokF Hle HokN Hf).
  Qed.

  (** the class-mode pipeline with the CURRENT stage equals the modelled one *)
  Theorem class_mode_order_irrelevant c thr g :
    r_remove_empty c = false \/
    ((r_targets c = None \/ class_iris_ok c g = true) /\ okF thr /\ fle fa thr (fone fa) = true /\
     (forall n, (0 < n <= N.of_nat (List.length g))%N -> okN n)) ->
    run_shapes_cur fa c thr g = run_shapes fa c thr g.
  Proof. intros H. apply run_shapes_cur_eq. exact (order_dom_derived c thr g H). Qed.

  Theorem class_mode_order_irrelevant_shexc c thr g :
    r_remove_empty c = false \/
    ((r_targets c = None \/ class_iris_ok c g = true) /\ okF thr /\ fle fa thr (fone fa) = true /\
     (forall n, (0 < n <= N.of_nat (List.length g))%N -> okN n)) ->
    run_shexc_cur fa c thr g = run_shexc fa c thr g.
  Proof. intros H. apply run_shexc_cur_eq. exact (order_dom_derived c thr g H). Qed.
End OneDocument.

(** *** the two frequency algebras; the side conditions as one boolean *)

Definition wf_fracb (x : frac) : bool := (0 <=? fst x)%Z && (0 <? snd x)%Z.

Lemma wf_fracb_spec x : wf_fracb x = true -> wf_frac x.
Proof. unfold wf_fracb, wf_frac. intros H. apply andb_true_iff in H. destruct H as [A B]. split; [apply Z.leb_le, A | apply Z.ltb_lt, B]. Qed.

Definition targets_none (c : rcfg) : bool := match r_targets c with None => true | Some _ => false end.

(** remove_empty_shapes off, or: a well-formed threshold <= 1 (the Shaper
    rejects the others: [_check_aceptance_threshold]) and no class IRI starting
    with '%' / "@" (none needed in all_classes mode); for binary64 fewer than
    2^53 triples *)
Definition class_order_dom_q (c : rcfg) (thr : F QAlg) (g : graph) : bool :=
  negb (r_remove_empty c) ||
  ((targets_none c || class_iris_ok c g) && wf_fracb thr && fle QAlg thr (fone QAlg)).

Definition class_order_dom_b (c : rcfg) (thr : F BAlg) (g : graph) : bool :=
  negb (r_remove_empty c) ||
  ((targets_none c || class_iris_ok c g) && wf_fracb thr && fle BAlg thr (fone BAlg) &&
   (N.of_nat (List.length g) <? 2 ^ 53)%N).

Theorem class_mode_order_irrelevant_exact c thr g :
  class_order_dom_q c thr g = true ->
  run_shapes_cur QAlg c thr g = run_shapes QAlg c thr g /\ run_shexc_cur QAlg c thr g = run_shexc QAlg c thr g.
Proof.
  unfold class_order_dom_q, targets_none. intros H.
  assert (D : r_remove_empty c = false \/
              ((r_targets c = None \/ class_iris_ok c g = true) /\ wf_frac thr /\ fle QAlg thr (fone QAlg) = true /\
               (forall n, (0 < n <= N.of_nat (List.length g))%N -> (0 < n)%N))).
  { apply orb_true_iff in H. destruct H as [H|H]; [left; apply negb_true_iff, H|]. right.
    apply andb_true_iff in H. destruct H as [H H3]. apply andb_true_iff in H. destruct H as [H1 H2].
    split; [|split; [apply wf_fracb_spec, H2 | split; [exact H3 | intros n Hn; apply Hn]]].
    apply orb_true_iff in H1. destruct H1 as [H1|H1]; [left | right; exact H1].
    destruct (r_targets c); [discriminate | reflexivity]. }
  split.
  - exact (class_mode_order_irrelevant QAlg (fun d => 0 < d)%N wf_frac QAlg_laws c thr g D).
  - exact (class_mode_order_irrelevant_shexc QAlg (fun d => 0 < d)%N wf_frac QAlg_laws c thr g D).
Qed.

Theorem class_mode_order_irrelevant_b64 c thr g :
  class_order_dom_b c thr g = true ->
  run_shapes_cur BAlg c thr g = run_shapes BAlg c thr g /\ run_shexc_cur BAlg c thr g = run_shexc BAlg c thr g.
Proof.
  unfold class_order_dom_b, targets_none. intros H.
  assert (D : r_remove_empty c = false \/
              ((r_targets c = None \/ class_iris_ok c g = true) /\ wf_frac thr /\ fle BAlg thr (fone BAlg) = true /\
               (forall n, (0 < n <= N.of_nat (List.length g))%N -> okN53 n))).
  { apply orb_true_iff in H. destruct H as [H|H]; [left; apply negb_true_iff, H|]. right.
    apply andb_true_iff in H. destruct H as [H H4]. apply andb_true_iff in H. destruct H as [H H3].
    apply andb_true_iff in H. destruct H as [H1 H2].
    split; [|split; [apply wf_fracb_spec, H2 | split; [exact H3 | apply okN53_of_graph, N.ltb_lt, H4]]].
    apply orb_true_iff in H1. destruct H1 as [H1|H1]; [left | right; exact H1].
    destruct (r_targets c); [discriminate | reflexivity]. }
  split.
  - exact (class_mode_order_irrelevant BAlg okN53 wf_frac BAlg_laws c thr g D).
  - exact (class_mode_order_irrelevant_shexc BAlg okN53 wf_frac BAlg_laws c thr g D).
Qed.

(** the binary64 instance with its side conditions as propositions (the form
    the end-to-end theorems of Props/C02, C12, C14 use) *)
Theorem run_shapes_cur_eq_valid c thr g :
  class_iris_ok c g = true -> wf_frac thr -> fle BAlg thr (fone BAlg) = true ->
  (N.of_nat (List.length g) < 2 ^ 53)%N ->
  run_shapes_cur BAlg c thr g = run_shapes BAlg c thr g.
Proof.
  intros Hc Hw Hle Hg. apply (class_mode_order_irrelevant BAlg okN53 wf_frac BAlg_laws c thr g). right.
  split; [right; exact Hc|]. split; [exact Hw|]. split; [exact Hle | exact (okN53_of_graph g Hg)].
Qed.

Theorem run_shapes_cur_eq_all_classes c thr g :
  r_targets c = None -> wf_frac thr -> fle BAlg thr (fone BAlg) = true ->
  (N.of_nat (List.length g) < 2 ^ 53)%N ->
  run_shapes_cur BAlg c thr g = run_shapes BAlg c thr g.
Proof.
  intros Hc Hw Hle Hg. apply (class_mode_order_irrelevant BAlg okN53 wf_frac BAlg_laws c thr g). right.
  split; [left; exact Hc|]. split; [exact Hw|]. split; [exact Hle | exact (okN53_of_graph g Hg)].
Qed.

Theorem run_shapes_cur_eq_keep fa c thr g :
  r_remove_empty c = false -> run_shapes_cur fa c thr g = run_shapes fa c thr g.
Proof. intros H. apply run_shapes_cur_eq. exact (order_dom_keep fa c thr g H). Qed.

Theorem run_shexc_cur_eq_keep fa c thr g :
  r_remove_empty c = false -> run_shexc_cur fa c thr g = run_shexc fa c thr g.
Proof. intros H. apply run_shexc_cur_eq. exact (order_dom_keep fa c thr g H). Qed.

Theorem run_shexc_cur_eq_valid c thr g :
  class_iris_ok c g = true -> wf_frac thr -> fle BAlg thr (fone BAlg) = true ->
  (N.of_nat (List.length g) < 2 ^ 53)%N ->
  run_shexc_cur BAlg c thr g = run_shexc BAlg c thr g.
Proof.
  intros Hc Hw Hle Hg. unfold run_shexc_cur, run_shexc. rewrite (run_shapes_cur_eq_valid c thr g Hc Hw Hle Hg). reflexivity.
Qed.

(** ** Part 4. the boundary is real *)

Definition ord_cfg (targets : option (list str)) (inv dor red : bool) : rcfg :=
  {| r_tau := tau; r_targets := targets; r_ns := []; r_shapes_ns := c_SHAPES_DEFAULT_NAMESPACE; r_cap := (-1)%Z;
     r_inverse := inv; r_remove_empty := true; r_discard_useless := true; r_keep_less_specific := true;
     r_all_compliant := true; r_disable_or := dor; r_allow_redundant_or := red; r_allow_opt := true;
     r_disable_exact := false; r_disable_comments := false; r_mode := FAbs |}.

(** *** one document, a requested target class that is its own shape label
    ("@E": [shape_name] leaves it alone) and has no instance: the profiler keeps
    it ("original target"), the stage finds an empty shape *)

(** (i) inverse_paths: C has [^q] at 2/2 and [p] at 1/2; the old order re-lists
    the statements as direct ++ inverse after removing "@E", the new one keeps
    the order of the final sort *)
Definition at_g_order : graph :=
  [ty "a" "C"; ty "b" "C"; ty "d" "D"; lnk "a" "p" (iri "d"); lnk "d" "q" (iri "a"); lnk "d" "q" (iri "b")].
Definition at_cfg_order : rcfg := ord_cfg (Some [ex "C"; ex "D"; Str "@E"]) true true false.

Lemma order_at_class_order_refuted :
  c_clean_before_merge = true ->
  exists c thr g,
    r_remove_empty c = true /\ class_iris_ok c g = false /\ wf_frac thr /\ fle BAlg thr (fone BAlg) = true /\
    order_dom BAlg c thr g = false /\
    (exists t1 t2, run_shexc_cur BAlg c thr g = inl t1 /\ run_shexc BAlg c thr g = inl t2 /\ t1 <> t2) /\
    run_shapes_cur BAlg c thr g <> run_shapes BAlg c thr g.
Proof.
  intros E; first [ vm_compute in E; discriminate E |
    exists at_cfg_order, thr0, at_g_order;
    split; [reflexivity|]; split; [vm_compute; reflexivity|];
    split; [vm_compute; split; [discriminate | reflexivity]|]; split; [vm_compute; reflexivity|];
    split; [vm_compute; reflexivity|];
    split; [do 2 eexists; split; [vm_compute; reflexivity|]; split; [vm_compute; reflexivity|]; discriminate
           | vm_compute; discriminate] ].
Qed.

(** (ii) disjunctions enabled: [p] of C is [@:D1 OR @:D2]; the old order raises
    TypeError when it prunes next to the empty shape "@E", the new one succeeds *)
Definition at_g_or : graph := [ty "a" "C"; ty "o" "D1"; ty "o" "D2"; lnk "a" "p" (iri "o")].
Definition at_cfg_or : rcfg := ord_cfg (Some [ex "C"; ex "D1"; ex "D2"; Str "@E"]) false false true.

Lemma order_at_class_typeerror_refuted :
  c_clean_before_merge = true ->
  exists c thr g,
    r_remove_empty c = true /\ class_iris_ok c g = false /\ wf_frac thr /\ fle BAlg thr (fone BAlg) = true /\
    run_shexc BAlg c thr g = inr REType /\ exists t, run_shexc_cur BAlg c thr g = inl t.
Proof.
  intros E; first [ vm_compute in E; discriminate E |
    exists at_cfg_or, thr0, at_g_or;
    split; [reflexivity|]; split; [vm_compute; reflexivity|];
    split; [vm_compute; split; [discriminate | reflexivity]|]; split; [vm_compute; reflexivity|];
    split; [vm_compute; reflexivity | eexists; vm_compute; reflexivity] ].
Qed.

(** *** two documents: namespaces_to_ignore covering the instantiation
    property.  C has two instances and [p] on one of them: with the typing
    triples gone from the feature pass, C is empty at threshold 4/5 although it
    has instances, and D references it.  The old order deletes D's constraint
    (and then D), the new one falls back to the node kind. *)
Definition ign_rdf : list str := [Str "http://www.w3.org/1999/02/22-rdf-syntax-ns#"].
Definition ign_g : graph := [ty "a" "C"; ty "b" "C"; ty "d" "D"; lnk "a" "p" (iri "d"); lnk "d" "q" (iri "a")].
Definition ign_cfg : rcfg := ord_cfg None false true false.
Definition thr45 : F BAlg := b_ratio 4 5.

Lemma order_two_documents_refuted :
  c_clean_before_merge = true ->
  exists c ign thr g,
    child_of_ns ign (r_tau c) = true /\ r_targets c = None /\ class_iris_ok c g = true /\
    wf_frac thr /\ fle BAlg thr (fone BAlg) = true /\
    order_dom2 BAlg c thr g (filter_ns ign g) = false /\
    exists t1 t2, run_shexc_ign BAlg c ign thr g = inl t1 /\
                  run_shexc2_old BAlg c thr g (filter_ns ign g) = inl t2 /\ t1 <> t2.
Proof.
  intros E; first [ vm_compute in E; discriminate E |
    exists ign_cfg, ign_rdf, thr45, ign_g;
    split; [vm_compute; reflexivity|]; split; [reflexivity|]; split; [vm_compute; reflexivity|];
    split; [vm_compute; split; [discriminate | reflexivity]|]; split; [vm_compute; reflexivity|];
    split; [vm_compute; reflexivity|];
    do 2 eexists; split; [vm_compute; reflexivity|]; split; [vm_compute; reflexivity|]; discriminate ].
Qed.

(** the same inputs are inside the domain as soon as the order cannot matter:
    non-vacuity of Part 3 on a run where a requested target class has no instance *)
Definition nv_cfg : rcfg := ord_cfg (Some [ex "C"; ex "C1"; ex "C2"; ex "Missing"]) true true false.

Example class_mode_order_irrelevant_nonvacuous :
  r_remove_empty nv_cfg = true /\ In (ex "Missing") (match r_targets nv_cfg with Some l => l | None => [] end) /\
  class_order_dom_b nv_cfg thr0 g_reftie_1 = true /\
  exists ns shapes,
    run_shapes_cur BAlg nv_cfg thr0 g_reftie_1 = inl (ns, shapes) /\
    run_shapes BAlg nv_cfg thr0 g_reftie_1 = inl (ns, shapes) /\
    map sh_class shapes = [ex "C"; ex "C1"; ex "C2"].
Proof.
  split; [reflexivity|]. split; [cbn; tauto|]. split; [vm_compute; reflexivity|].
  do 2 eexists. split; [vm_compute; reflexivity|]. split; vm_compute; reflexivity.
Qed.

(** the boolean side conditions imply the computed domain *)
Lemma class_order_dom_b_sound c thr g : class_order_dom_b c thr g = true -> order_dom BAlg c thr g = true.
Proof.
  unfold class_order_dom_b, targets_none. intros H.
  apply (order_dom_derived BAlg okN53 wf_frac BAlg_laws c thr g).
  apply orb_true_iff in H. destruct H as [H|H]; [left; apply negb_true_iff, H|]. right.
  apply andb_true_iff in H. destruct H as [H H4]. apply andb_true_iff in H. destruct H as [H H3].
  apply andb_true_iff in H. destruct H as [H1 H2].
  split; [|split; [apply wf_fracb_spec, H2 | split; [exact H3 | apply okN53_of_graph, N.ltb_lt, H4]]].
  apply orb_true_iff in H1. destruct H1 as [H1|H1]; [left | right; exact H1].
  destruct (r_targets c); [discriminate | reflexivity].
Qed.

Lemma class_order_dom_q_sound c thr g : class_order_dom_q c thr g = true -> order_dom QAlg c thr g = true.
Proof.
  unfold class_order_dom_q, targets_none. intros H.
  apply (order_dom_derived QAlg (fun d => 0 < d)%N wf_frac QAlg_laws c thr g).
  apply orb_true_iff in H. destruct H as [H|H]; [left; apply negb_true_iff, H|]. right.
  apply andb_true_iff in H. destruct H as [H H3]. apply andb_true_iff in H. destruct H as [H1 H2].
  split; [|split; [apply wf_fracb_spec, H2 | split; [exact H3 | intros n Hn; apply Hn]]].
  apply orb_true_iff in H1. destruct H1 as [H1|H1]; [left | right; exact H1].
  destruct (r_targets c); [discriminate | reflexivity].
Qed.

(** ** Part 5. how the end-to-end theorems stated for [run_shapes] transfer to
    [run_shapes_cur]: rewrite with the equality on the domain the theorem
    already has (its own hypotheses imply [order_dom]), then apply it *)

(** C02, remove_empty_shapes off (any algebra, any threshold, any graph) *)
Corollary cur_keys_iff_occ fa c thr g ns shapes :
  r_remove_empty c = false -> run_shapes_cur fa c thr g = inl (ns, shapes) ->
  exists I, track (r_tau c) (mode_of c) (r_cap c) g = inl I /\
    map sh_class shapes = class_keys (targets_of (pcfg_of c)) I /\
    forall sh, In sh shapes ->
      sh_n sh = class_count I (sh_class sh) /\
      (forall inv p vc, In (inv, p, vc) (map (skey (scfg_of c ns)) (sh_stmts sh)) <->
                        key_passes_occ fa c thr I g (sh_class sh) inv p vc) /\
      (no_nonliteral_datatype g -> NoDup (map (skey (scfg_of c ns)) (sh_stmts sh))).
Proof.
  intros Hre H. rewrite (run_shapes_cur_eq_keep fa c thr g Hre) in H.
  exact (e2e_keys_iff_occ fa c thr g ns shapes Hre H).
Qed.

(** C12, any setting of remove_empty_shapes *)
Corollary cur_run_keys_monotone_valid c thr1 thr2 g ns1 s1 ns2 s2 :
  class_iris_ok c g = true -> wf_frac thr1 -> wf_frac thr2 ->
  fle BAlg thr1 thr2 = true -> fle BAlg thr2 (fone BAlg) = true ->
  (N.of_nat (List.length g) < 2 ^ 53)%N ->
  run_shapes_cur BAlg c thr1 g = inl (ns1, s1) -> run_shapes_cur BAlg c thr2 g = inl (ns2, s2) ->
  ns1 = ns2 /\ Forall2 (keys_shrink (scfg_of c ns1)) s1 s2.
Proof.
  intros Hcls W1 W2 Hle Hle2 Hg R1 R2.
  assert (Hle1 : fle BAlg thr1 (fone BAlg) = true).
  { apply (fle_trans _ _ _ BAlg_laws thr1 thr2 (fone BAlg)); auto. apply (fone_ok _ _ _ BAlg_laws). }
  rewrite (run_shapes_cur_eq_valid c thr1 g Hcls W1 Hle1 Hg) in R1.
  rewrite (run_shapes_cur_eq_valid c thr2 g Hcls W2 Hle2 Hg) in R2.
  exact (run_keys_monotone_valid c thr1 thr2 g ns1 s1 ns2 s2 Hcls W1 W2 Hle Hle2 Hg R1 R2).
Qed.

(** C14, any setting of remove_empty_shapes *)
Corollary cur_run_direct_unchanged_valid c thr g ns st :
  class_iris_ok c g = true -> wf_frac thr -> fle BAlg thr (fone BAlg) = true ->
  (N.of_nat (List.length g) < 2 ^ 53)%N ->
  run_shapes_cur BAlg (rwith_inverse true c) thr g = inl (ns, st) ->
  exists sf, run_shapes_cur BAlg (rwith_inverse false c) thr g = inl (ns, sf) /\ Forall2 direct_part st sf.
Proof.
  intros Hcls Hw Hle Hg H.
  rewrite (run_shapes_cur_eq_valid (rwith_inverse true c) thr g Hcls Hw Hle Hg) in H.
  rewrite (run_shapes_cur_eq_valid (rwith_inverse false c) thr g Hcls Hw Hle Hg).
  exact (run_direct_unchanged_valid c thr g ns st Hcls Hw Hle Hg H).
Qed.
