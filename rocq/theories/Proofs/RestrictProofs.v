(** * Proofs for C16: instances_cap = restriction of the typing triples;
      namespaces_to_ignore = deletion of child predicates from the feature pass. *)
From Coq Require Import List Ascii String ZArith NArith Bool Lia Arith Permutation.
From Shexer Require Import Lib.PyStr Lib.Dict Gen.Consts Spec.Rdf Spec.Restrict Model.Tracker Model.Profiler
     Model.Freq Model.Shexing Model.SerialShexc Model.Run Model.NsFilter Model.Run2 Model.RunCur.
Import ListNotations.

(** ** generic list facts *)

Lemma filter_all_true {A} (f : A -> bool) l : (forall x, In x l -> f x = true) -> filter f l = l.
Proof.
  induction l as [|a l IH]; cbn; intros H; [reflexivity|].
  rewrite (H a (or_introl eq_refl)). f_equal. apply IH. intros x Hx. apply H. right; exact Hx.
Qed.

Lemma NoDup_map_inj {A B} (f : A -> B) l :
  NoDup l -> (forall x y, In x l -> In y l -> f x = f y -> x = y) -> NoDup (map f l).
Proof.
  induction 1 as [|a l Ha Hl IH]; cbn; intros Hinj; constructor.
  - intros Hin. apply in_map_iff in Hin. destruct Hin as [y [Hy Hyl]].
    assert (y = a) by (apply Hinj; auto). subst. contradiction.
  - apply IH. intros x y Hx Hy. apply Hinj; auto.
Qed.

Lemma NoDup_filter {A} (f : A -> bool) l : NoDup l -> NoDup (filter f l).
Proof.
  induction 1 as [|a l Ha Hl IH]; cbn; [constructor|].
  destruct (f a); [constructor; [rewrite filter_In; tauto | exact IH] | exact IH].
Qed.

Lemma In_firstn {A} (x : A) n l : In x (firstn n l) -> In x l.
Proof.
  revert l; induction n as [|n IH]; intros l; cbn; [intros []|].
  destruct l as [|a l]; [intros [] | intros [H|H]; [left; exact H | right; apply IH; exact H]].
Qed.

Lemma filter_length_le' {A} (f : A -> bool) l : List.length (filter f l) <= List.length l.
Proof. induction l as [|a l IH]; cbn; [lia|]. destruct (f a); cbn; lia. Qed.

Lemma NoDup_snoc {A} (l : list A) k : NoDup l -> ~ In k l -> NoDup (l ++ [k]).
Proof.
  induction 1 as [|a l Ha Hl IH]; cbn; intros Hk.
  - constructor; [intros [] | constructor].
  - constructor.
    + rewrite in_app_iff. cbn. intros [H|[H|[]]]; [contradiction | subst; apply Hk; auto].
    + apply IH. intros H. apply Hk. auto.
Qed.

(** ** dictionaries *)

Lemma dget_dset {V} (d : dict V) k v k' :
  dget (dset d k v) k' = if str_eqb k' k then Some v else dget d k'.
Proof.
  induction d as [|[k0 v0] d IH]; cbn.
  - reflexivity.
  - destruct (str_eqb k k0) eqn:E; cbn.
    + apply str_eqb_eq in E. subst k0. destruct (str_eqb k' k); reflexivity.
    + rewrite IH. destruct (str_eqb k' k0) eqn:E0; [|reflexivity].
      apply str_eqb_eq in E0. subst k0.
      destruct (str_eqb k' k) eqn:E1; [|reflexivity].
      apply str_eqb_eq in E1. subst k'. rewrite str_eqb_refl in E. discriminate.
Qed.

Lemma dkeys_dset {V} (d : dict V) k v :
  dkeys (dset d k v) = if dmem d k then dkeys d else dkeys d ++ [k].
Proof.
  unfold dmem, dkeys. induction d as [|[k0 v0] d IH]; cbn; [reflexivity|].
  destruct (str_eqb k k0) eqn:E; cbn; [reflexivity|].
  rewrite IH. destruct (dget d k); reflexivity.
Qed.

Lemma dget_None_keys {V} (d : dict V) k : dget d k = None <-> ~ In k (dkeys d).
Proof.
  unfold dkeys. induction d as [|[k0 v0] d IH]; cbn; [tauto|].
  destruct (str_eqb k k0) eqn:E.
  - apply str_eqb_eq in E. subst. split; [discriminate | intros H; exfalso; apply H; auto].
  - apply str_eqb_neq in E. rewrite IH. split; [intros H [H1|H1]; [congruence | tauto] | tauto].
Qed.

Lemma NoDup_dkeys_dset {V} (d : dict V) k v : NoDup (dkeys d) -> NoDup (dkeys (dset d k v)).
Proof.
  intros H. rewrite dkeys_dset. unfold dmem. destruct (dget d k) eqn:E; [exact H|].
  apply dget_None_keys in E. apply NoDup_snoc; assumption.
Qed.

Lemma dget_In {V} (d : dict V) k v : dget d k = Some v -> In (k, v) d.
Proof.
  induction d as [|[k0 v0] d IH]; cbn; [discriminate|].
  destruct (str_eqb k k0) eqn:E.
  - apply str_eqb_eq in E. subst. intros H; inversion H; auto.
  - intros H. right. apply IH; exact H.
Qed.

Lemma In_dget {V} (d : dict V) k v : NoDup (dkeys d) -> In (k, v) d -> dget d k = Some v.
Proof.
  unfold dkeys. induction d as [|[k0 v0] d IH]; cbn; [tauto|].
  intros Hnd [H|H].
  - inversion H; subst. rewrite str_eqb_refl. reflexivity.
  - inversion Hnd; subst. destruct (str_eqb k k0) eqn:E.
    + apply str_eqb_eq in E. subst. exfalso. apply H2. apply in_map_iff. exists (k0, v). auto.
    + apply IH; assumption.
Qed.

(** ** the instances dictionary of a list of memberships *)

Definition add_pair (d : insts) (m : str * str) : insts :=
  dupd d (fst m) [] (fun cs => cs ++ [snd m]).

Definition build (ms : list (str * str)) (d : insts) : insts := fold_left add_pair ms d.

Definition cls (d : insts) (i : str) : list str :=
  match dget d i with Some cs => cs | None => [] end.

Lemma cls_add_pair d m i :
  cls (add_pair d m) i = if str_eqb i (fst m) then cls d i ++ [snd m] else cls d i.
Proof.
  unfold cls, add_pair, dupd. destruct (dget d (fst m)) eqn:E; rewrite dget_dset;
    destruct (str_eqb i (fst m)) eqn:E1; try reflexivity;
    apply str_eqb_eq in E1; subst i; rewrite E; reflexivity.
Qed.

Lemma cls_build ms : forall d i,
  cls (build ms d) i = cls d i ++ map snd (filter (fun m => str_eqb (fst m) i) ms).
Proof.
  induction ms as [|m ms IH]; intros d i; cbn.
  - rewrite app_nil_r. reflexivity.
  - unfold build in IH. rewrite IH, cls_add_pair.
    destruct (str_eqb i (fst m)) eqn:E.
    + apply str_eqb_eq in E. subst i. rewrite str_eqb_refl. cbn. rewrite <- app_assoc. reflexivity.
    + destruct (str_eqb (fst m) i) eqn:E'; [|reflexivity].
      apply str_eqb_eq in E'. subst i. rewrite str_eqb_refl in E. discriminate.
Qed.

Lemma NoDup_keys_add_pair d m : NoDup (dkeys d) -> NoDup (dkeys (add_pair d m)).
Proof. unfold add_pair, dupd. destruct (dget d (fst m)); apply NoDup_dkeys_dset. Qed.

Lemma NoDup_keys_build ms : forall d, NoDup (dkeys d) -> NoDup (dkeys (build ms d)).
Proof.
  induction ms as [|m ms IH]; intros d H; cbn; [exact H|].
  apply IH. apply NoDup_keys_add_pair. exact H.
Qed.

(** membership in the dictionary built from a list of pairs *)
Lemma cls_build_In ms i c : In c (cls (build ms []) i) <-> In (i, c) ms.
Proof.
  rewrite cls_build. unfold cls at 1. cbn. rewrite in_map_iff. split.
  - intros [[i' c'] [H1 H2]]. cbn in H1. subst c'. apply filter_In in H2. destruct H2 as [H2 H3].
    cbn in H3. apply str_eqb_eq in H3. subst. exact H2.
  - intros H. exists (i, c). split; [reflexivity|]. apply filter_In. split; [exact H|]. cbn. apply str_eqb_refl.
Qed.

Lemma inst_of_In (I : insts) c i : NoDup (dkeys I) -> (In i (inst_of I c) <-> In c (cls I i)).
Proof.
  intros Hnd. unfold inst_of. rewrite in_map_iff. split.
  - intros [[i' cs] [H1 H2]]. cbn in H1. subst i'. apply filter_In in H2. destruct H2 as [H2 H3].
    cbn in H3. unfold cls. rewrite (In_dget I i cs Hnd H2). apply mem_str_In. exact H3.
  - unfold cls. destruct (dget I i) eqn:E; [|intros []].
    intros H. exists (i, l). split; [reflexivity|]. apply filter_In. split; [apply dget_In; exact E|].
    cbn. apply mem_str_In. exact H.
Qed.

Lemma NoDup_inst_of (I : insts) c : NoDup (dkeys I) -> NoDup (inst_of I c).
Proof.
  unfold inst_of, dkeys. induction I as [|[i cs] I IH]; cbn; intros H; [constructor|].
  inversion H; subst. destruct (mem_str c cs); cbn.
  - constructor; [|apply IH; assumption].
    intros Hin. apply H2. apply in_map_iff in Hin. destruct Hin as [x [Hx1 Hx2]].
    apply filter_In in Hx2. apply in_map_iff. exists x. tauto.
  - apply IH; assumption.
Qed.

(** ** the cap as a filter on memberships *)

Definition bump (cnt : str -> nat) (c : str) : str -> nat :=
  fun x => if str_eqb x c then S (cnt c) else cnt x.

Fixpoint cap_filter (k : nat) (cnt : str -> nat) (ms : list (str * str)) : list (str * str) :=
  match ms with
  | [] => []
  | m :: ms' => if Nat.ltb (cnt (snd m)) k then m :: cap_filter k (bump cnt (snd m)) ms'
                else cap_filter k cnt ms'
  end.

Lemma cap_filter_ext k ms : forall cnt cnt', (forall x, cnt x = cnt' x) -> cap_filter k cnt ms = cap_filter k cnt' ms.
Proof.
  induction ms as [|m ms IH]; intros cnt cnt' H; cbn [cap_filter]; [reflexivity|].
  rewrite <- (H (snd m)). destruct (Nat.ltb (cnt (snd m)) k).
  - f_equal. apply IH. intros x. unfold bump. rewrite !H. reflexivity.
  - apply IH. exact H.
Qed.

Lemma cap_filter_full k ms : forall cnt, (forall m, In m ms -> k <= cnt (snd m)) -> cap_filter k cnt ms = [].
Proof.
  induction ms as [|m ms IH]; intros cnt H; cbn [cap_filter]; [reflexivity|].
  assert (E : Nat.ltb (cnt (snd m)) k = false) by (apply Nat.ltb_ge; apply H; left; reflexivity).
  rewrite E. apply IH. intros x Hx. apply H. right; exact Hx.
Qed.

Lemma subjects_of_cons c m ms :
  subjects_of c (m :: ms) = if str_eqb (snd m) c then fst m :: subjects_of c ms else subjects_of c ms.
Proof. unfold subjects_of. cbn. destruct (str_eqb (snd m) c); reflexivity. Qed.

(** a cap never reached changes nothing (no NoDup needed) *)
Lemma cap_filter_id k ms : forall cnt,
  (forall c, cnt c + List.length (subjects_of c ms) <= k) -> cap_filter k cnt ms = ms.
Proof.
  induction ms as [|m ms IH]; intros cnt H; cbn [cap_filter]; [reflexivity|].
  pose proof (H (snd m)) as H0. rewrite subjects_of_cons, str_eqb_refl in H0. cbn in H0.
  assert (E : Nat.ltb (cnt (snd m)) k = true) by (apply Nat.ltb_lt; lia).
  rewrite E. f_equal. apply IH. intros c. specialize (H c). rewrite subjects_of_cons in H. unfold bump.
  destruct (str_eqb (snd m) c) eqn:E1.
  - apply str_eqb_eq in E1. subst c. rewrite str_eqb_refl. cbn in H. lia.
  - destruct (str_eqb c (snd m)) eqn:E2; [|exact H].
    apply str_eqb_eq in E2. subst c. rewrite str_eqb_refl in E1. discriminate.
Qed.

(** the cap keeps exactly the memberships (i, c) with i among the first
    [k - cnt c] subjects of c *)
Lemma cap_filter_firstn k ms : NoDup ms -> forall cnt,
  cap_filter k cnt ms =
  filter (fun m => mem_str (fst m) (firstn (k - cnt (snd m)) (subjects_of (snd m) ms))) ms.
Proof.
  induction 1 as [|[i c] ms Hni Hnd IH]; intros cnt; [reflexivity|].
  cbn [cap_filter filter snd fst]. rewrite subjects_of_cons. cbn [snd fst]. rewrite str_eqb_refl.
  destruct (Nat.ltb (cnt c) k) eqn:E.
  - apply Nat.ltb_lt in E. destruct (k - cnt c) as [|n'] eqn:En; [lia|].
    cbn [firstn mem_str]. rewrite str_eqb_refl. cbn [orb]. f_equal.
    rewrite IH. apply filter_ext_in. intros [j c'] Hj. cbn [fst snd].
    rewrite subjects_of_cons. cbn [fst snd]. unfold bump.
    destruct (str_eqb c c') eqn:E1.
    + apply str_eqb_eq in E1. subst c'. rewrite str_eqb_refl.
      replace (k - S (cnt c)) with n' by lia. rewrite En. cbn [firstn mem_str].
      destruct (str_eqb j i) eqn:E2; [|reflexivity].
      apply str_eqb_eq in E2. subst j. contradiction.
    + destruct (str_eqb c' c) eqn:E2; [|reflexivity].
      apply str_eqb_eq in E2. subst c'. rewrite str_eqb_refl in E1. discriminate.
  - apply Nat.ltb_ge in E. replace (k - cnt c) with 0 by lia. cbn [firstn mem_str].
    rewrite IH. apply filter_ext_in. intros [j c'] Hj. cbn [fst snd].
    rewrite subjects_of_cons. cbn [fst snd].
    destruct (str_eqb c c') eqn:E1; [|reflexivity].
    apply str_eqb_eq in E1. subst c'. replace (k - cnt c) with 0 by lia. reflexivity.
Qed.

(** ** memberships *)

Definition scope_of (m : tmode) : scope :=
  match m with TAll => None | TClasses l => Some l end.

Lemma in_memberships tau sc g mm :
  In mm (memberships tau sc g) <-> exists t, In t g /\ typing_pair tau sc t = Some mm.
Proof.
  induction g as [|t g IH]; cbn.
  - split; [intros [] | intros [t [[] _]]].
  - destruct (typing_pair tau sc t) eqn:E; cbn; rewrite IH; split.
    + intros [H|[t' [H1 H2]]]; [subst; exists t; auto | exists t'; auto].
    + intros [t' [[H1|H1] H2]]; [subst; left; congruence | right; exists t'; auto].
    + intros [t' [H1 H2]]. exists t'; auto.
    + intros [t' [[H1|H1] H2]]; [subst; congruence | exists t'; auto].
Qed.

Lemma memberships_filter tau sc (P : str * str -> bool) g :
  memberships tau sc (filter (fun t => match typing_pair tau sc t with None => true | Some m => P m end) g)
  = filter P (memberships tau sc g).
Proof.
  induction g as [|t g IH]; cbn; [reflexivity|].
  destruct (typing_pair tau sc t) eqn:E; cbn.
  - destruct (P p); cbn; rewrite ?E, IH; reflexivity.
  - rewrite E. exact IH.
Qed.

Lemma memberships_scope tau l g mm : In mm (memberships tau (Some l) g) -> In (snd mm) l.
Proof.
  intros H. apply in_memberships in H. destruct H as [t [_ H]]. unfold typing_pair in H.
  destruct (to t) as [o|]; [|discriminate].
  destruct (str_eqb (tp t) tau && in_scope (Some l) o) eqn:E; [|discriminate].
  inversion H; subst. cbn. apply andb_true_iff in E. destruct E as [_ E]. cbn in E.
  apply andb_true_iff in E. apply mem_str_In. tauto.
Qed.

(** a duplicate-free graph whose node strings identify its nodes states every membership once *)
Lemma memberships_NoDup tau sc g : NoDup g -> ids_faithful g -> NoDup (memberships tau sc g).
Proof.
  intros Hnd Hf. induction Hnd as [|t g Ht Hg IH]; cbn; [constructor|].
  assert (Hf' : ids_faithful g).
  { intros n n' [t1 [H1 H1']] [t2 [H2 H2']]. apply Hf; [exists t1 | exists t2]; cbn; auto. }
  destruct (typing_pair tau sc t) eqn:E; [|apply IH; exact Hf'].
  constructor; [|apply IH; exact Hf'].
  intros Hin. apply in_memberships in Hin. destruct Hin as [t' [Ht' E']].
  apply Ht. replace t with t'; [exact Ht'|].
  unfold typing_pair in E, E'. destruct t as [s1 p1 o1], t' as [s2 p2 o2]. cbn in *.
  destruct o1 as [o1|]; [|discriminate]. destruct o2 as [o2|]; [|discriminate].
  destruct (str_eqb p1 tau && in_scope sc o1) eqn:E1; [|discriminate].
  destruct (str_eqb p2 tau && in_scope sc o2) eqn:E2; [|discriminate].
  apply andb_true_iff in E1. destruct E1 as [E1 _]. apply str_eqb_eq in E1.
  apply andb_true_iff in E2. destruct E2 as [E2 _]. apply str_eqb_eq in E2.
  inversion E; inversion E'; subst.
  assert (s2 = s1).
  { apply Hf; [exists (T s2 tau (ON o2)) | exists (T s1 tau (ON o1)) | congruence]; cbn; auto. }
  assert (o2 = o1).
  { apply Hf; [exists (T s2 tau (ON o2)) | exists (T s1 tau (ON o1)) | congruence]; cbn; auto. }
  subst. reflexivity.
Qed.

Lemma NoDup_subjects_of c ms : NoDup ms -> NoDup (subjects_of c ms).
Proof.
  intros H. unfold subjects_of. apply NoDup_map_inj; [apply NoDup_filter; exact H|].
  intros [i1 c1] [i2 c2] H1 H2 E. cbn in E. subst i2.
  apply filter_In in H1. apply filter_In in H2. cbn in H1, H2.
  destruct H1 as [_ H1]. destruct H2 as [_ H2]. apply str_eqb_eq in H1. apply str_eqb_eq in H2. congruence.
Qed.

Lemma first_k_NoDup tau sc k g c : NoDup (memberships tau sc g) ->
  first_k_instances tau sc k g c = firstn k (class_subjects tau sc g c).
Proof.
  intros H. unfold first_k_instances. rewrite nodup_fixed_point; [reflexivity|].
  apply NoDup_subjects_of. exact H.
Qed.

(** ** one step of the trackers in terms of [typing_pair] *)

Definition getc (d : dict nat) (c : str) : nat :=
  match dget d c with Some n => n | None => 0 end.

Definition st_bump (cap : nat) (st : capst) (c : str) : capst :=
  let n := S (getc (cc st) c) in
  {| cc := dset (cc st) c n; completed := if Nat.eqb n cap then S (completed st) else completed st |}.

Lemma getc_st_bump cap st c x : getc (cc (st_bump cap st c)) x = bump (getc (cc st)) c x.
Proof. unfold st_bump, getc, bump. cbn. rewrite dget_dset. destruct (str_eqb x c); reflexivity. Qed.

(** a typing triple with a literal object raises AttributeError exactly in
    all_classes_mode (with target classes the wrapped strategy rejects it
    before anything dereferences [.iri]), with or without a cap *)
Definition lit_err (tau : str) (m : tmode) (t : triple) : bool :=
  str_eqb (tp t) tau && negb (is_node (to t)) && match m with TAll => true | TClasses _ => false end.

Definition bad (tau : str) (m : tmode) (g : graph) : bool := existsb (lit_err tau m) g.

Lemma bad_TClasses tau l g : bad tau (TClasses l) g = false.
Proof.
  unfold bad. induction g as [|t g IH]; cbn [existsb]; [reflexivity|].
  rewrite IH. unfold lit_err. rewrite andb_false_r. reflexivity.
Qed.

Lemma bad_spec tau m g :
  bad tau m g = true <-> m = TAll /\ exists t, In t g /\ tp t = tau /\ is_node (to t) = false.
Proof.
  unfold bad. rewrite existsb_exists. split.
  - intros [t [Ht H]]. unfold lit_err in H. apply andb_true_iff in H. destruct H as [H Hm].
    apply andb_true_iff in H. destruct H as [H1 H2]. apply str_eqb_eq in H1. apply negb_true_iff in H2.
    split; [destruct m; [reflexivity | discriminate] | exists t; auto].
  - intros [-> [t [Ht [H1 H2]]]]. exists t. split; [exact Ht|]. unfold lit_err.
    rewrite (proj2 (str_eqb_eq _ _) H1), H2. reflexivity.
Qed.

Lemma track_cap_step tau m cap nt t g d st : 0 < cap ->
  track_cap tau m cap nt (t :: g) d st =
  match typing_pair tau (scope_of m) t with
  | Some mm =>
    if Nat.ltb (getc (cc st) (snd mm)) cap then
      let st' := st_bump cap st (snd mm) in
      let d' := add_pair d mm in
      match nt with
      | Some n => if Nat.eqb (completed st') n then inl d' else track_cap tau m cap nt g d' st'
      | None => track_cap tau m cap nt g d' st'
      end
    else track_cap tau m cap nt g d st
  | None => if lit_err tau m t then inr TEAttr else track_cap tau m cap nt g d st
  end.
Proof.
  intros Hcap. cbn [track_cap]. unfold cap_allows, relevant, typing_pair, lit_err, st_bump, add_pair, getc.
  assert (L0 : Nat.ltb 0 cap = true) by (apply Nat.ltb_lt; exact Hcap).
  destruct (str_eqb (tp t) tau); cbn [negb andb]; [|destruct (to t); reflexivity].
  destruct (to t) as [[k c]|]; cbn [nid nk fst snd is_node negb andb]; [|destruct m; reflexivity].
  destruct m as [|l]; cbn [scope_of in_scope nid nk nkind_eqb andb fst snd].
  - destruct (dget (cc st) c) as [n|]; cbn beta iota; [destruct (Nat.ltb n cap)|rewrite L0]; destruct nt; reflexivity.
  - destruct k; cbn [nkind_eqb andb]; [|reflexivity].
    destruct (mem_str c l); cbn [fst snd]; [|reflexivity].
    destruct (dget (cc st) c) as [n|]; cbn beta iota; [destruct (Nat.ltb n cap)|rewrite ?L0]; destruct nt; reflexivity.
Qed.

Lemma track_plain_step tau m t g d :
  track_plain tau m (t :: g) d =
  match typing_pair tau (scope_of m) t with
  | Some mm => track_plain tau m g (add_pair d mm)
  | None => if lit_err tau m t then inr TEAttr else track_plain tau m g d
  end.
Proof.
  cbn [track_plain]. unfold relevant, typing_pair, annotate, add_pair, lit_err.
  destruct (str_eqb (tp t) tau); cbn [andb]; [|destruct (to t); reflexivity].
  destruct m as [|l]; cbn [scope_of in_scope].
  - destruct (to t); reflexivity.
  - destruct (to t) as [[k c]|]; [|reflexivity]. cbn [nid nk is_node negb andb].
    destruct k; cbn [nkind_eqb andb]; [destruct (mem_str c l)|]; reflexivity.
Qed.

Lemma typing_pair_not_tau tau sc t : str_eqb (tp t) tau = false -> typing_pair tau sc t = None.
Proof. intros H. unfold typing_pair. rewrite H. destruct (to t); reflexivity. Qed.

Lemma typing_pair_literal tau sc t : is_node (to t) = false -> typing_pair tau sc t = None.
Proof. unfold typing_pair. destruct (to t); [discriminate | reflexivity]. Qed.

Lemma lit_err_no_pair tau m sc t : lit_err tau m t = true -> typing_pair tau sc t = None.
Proof.
  unfold lit_err. intros H. apply andb_true_iff in H. destruct H as [H _]. apply andb_true_iff in H.
  destruct H as [_ H]. apply negb_true_iff in H. apply typing_pair_literal. exact H.
Qed.

Lemma pair_no_lit_err tau m sc t mm : typing_pair tau sc t = Some mm -> lit_err tau m t = false.
Proof.
  intros H. destruct (lit_err tau m t) eqn:E; [|reflexivity].
  rewrite (lit_err_no_pair _ _ sc _ E) in H. discriminate.
Qed.

(** ** the early stop of pure target_classes mode *)

(** [completed] counts distinct target classes whose counter equals the cap *)
Definition stop_inv (l : list str) (cap : nat) (st : capst) : Prop :=
  exists done, NoDup done /\ List.length done = completed st /\
               forall c, In c done -> In c l /\ getc (cc st) c = cap.

Definition nt_ok (m : tmode) (cap : nat) (nt : option nat) (st : capst) : Prop :=
  match nt with
  | None => True
  | Some n => exists l, m = TClasses l /\ n = List.length l /\ stop_inv l cap st
  end.

Lemma stop_inv_bump l cap st c :
  In c l -> getc (cc st) c < cap -> stop_inv l cap st -> stop_inv l cap (st_bump cap st c).
Proof.
  intros Hc Hlt [done [Hnd [Hlen Hall]]].
  assert (Hnc : ~ In c done) by (intros H; apply Hall in H; lia).
  assert (Hother : forall x, In x done -> getc (cc (st_bump cap st c)) x = cap).
  { intros x Hx. rewrite getc_st_bump. unfold bump. destruct (str_eqb x c) eqn:E.
    - apply str_eqb_eq in E. subst. contradiction.
    - apply Hall. exact Hx. }
  destruct (Nat.eqb (S (getc (cc st) c)) cap) eqn:E.
  - exists (c :: done). split; [constructor; assumption|]. split.
    + unfold st_bump. cbn [completed]. rewrite E. cbn [List.length]. rewrite Hlen. reflexivity.
    + intros x [Hx|Hx].
      * subst x. split; [exact Hc|]. rewrite getc_st_bump. unfold bump. rewrite str_eqb_refl.
        apply Nat.eqb_eq. exact E.
      * split; [apply Hall; exact Hx | apply Hother; exact Hx].
  - exists done. split; [exact Hnd|]. split.
    + unfold st_bump. cbn [completed]. rewrite E. exact Hlen.
    + intros x Hx. split; [apply Hall; exact Hx | apply Hother; exact Hx].
Qed.

(** when [completed] reaches the number of target classes every target class is full *)
Lemma stop_all_full l cap st :
  stop_inv l cap st -> completed st = List.length l -> forall c, In c l -> getc (cc st) c = cap.
Proof.
  intros [done [Hnd [Hlen Hall]]] Hfull c Hc.
  assert (Hincl : incl l done).
  { apply NoDup_length_incl; [exact Hnd | lia | intros x Hx; apply Hall; exact Hx]. }
  apply Hall. apply Hincl. exact Hc.
Qed.

Lemma build_cons mm ms d : build (mm :: ms) d = build ms (add_pair d mm).
Proof. reflexivity. Qed.

(** ** what the trackers return *)

(** the capped tracker: AttributeError iff [bad], otherwise the dictionary of
    the memberships the cap keeps -- with or without the early stop *)
Lemma track_cap_eq tau m cap nt : 0 < cap -> forall g d st,
  nt_ok m cap nt st ->
  track_cap tau m cap nt g d st =
  if bad tau m g then inr TEAttr
  else inl (build (cap_filter cap (getc (cc st)) (memberships tau (scope_of m) g)) d).
Proof.
  intros Hcap. induction g as [|t g IH]; intros d st Hok; [reflexivity|].
  rewrite track_cap_step by exact Hcap. unfold bad. cbn [memberships existsb]. fold (bad tau m g).
  destruct (typing_pair tau (scope_of m) t) as [mm|] eqn:Etp.
  2:{ destruct (lit_err tau m t); [reflexivity | apply IH; exact Hok]. }
  rewrite (pair_no_lit_err _ m _ _ _ Etp). cbn [orb cap_filter].
  destruct (Nat.ltb (getc (cc st) (snd mm)) cap) eqn:Elt; [|apply IH; exact Hok].
  rewrite build_cons. cbn zeta.
  rewrite (cap_filter_ext cap _ _ (getc (cc (st_bump cap st (snd mm))))) by (intros x; symmetry; apply getc_st_bump).
  destruct nt as [n|]; [|apply IH; constructor].
  destruct Hok as [l [Hm [Hn Hinv]]]. subst m n. cbn [scope_of] in *.
  assert (Hin : In (snd mm) l).
  { apply (memberships_scope tau l [t]). cbn. rewrite Etp. left; reflexivity. }
  assert (Hinv' : stop_inv l cap (st_bump cap st (snd mm))).
  { apply stop_inv_bump; [exact Hin | apply Nat.ltb_lt; exact Elt | exact Hinv]. }
  destruct (Nat.eqb (completed (st_bump cap st (snd mm))) (List.length l)) eqn:Estop.
  - rewrite bad_TClasses. rewrite cap_filter_full; [reflexivity|].
    intros x Hx. apply memberships_scope in Hx. apply Nat.eqb_eq in Estop.
    rewrite (stop_all_full l cap _ Hinv' Estop _ Hx). lia.
  - apply IH. exists l. auto.
Qed.

Lemma track_plain_eq tau m : forall g d,
  track_plain tau m g d =
  if bad tau m g then inr TEAttr else inl (build (memberships tau (scope_of m) g) d).
Proof.
  induction g as [|t g IH]; intros d; [reflexivity|].
  rewrite track_plain_step. unfold bad. cbn [memberships existsb]. fold (bad tau m g).
  destruct (typing_pair tau (scope_of m) t) as [mm|] eqn:Etp.
  - rewrite (pair_no_lit_err _ m _ _ _ Etp). cbn [orb]. rewrite build_cons. apply IH.
  - destruct (lit_err tau m t); [reflexivity | apply IH].
Qed.

Lemma track_cap_char tau m cap nt : 0 < cap -> forall g d st I,
  nt_ok m cap nt st ->
  track_cap tau m cap nt g d st = inl I ->
  I = build (cap_filter cap (getc (cc st)) (memberships tau (scope_of m) g)) d.
Proof.
  intros Hcap g d st I Hok H. rewrite (track_cap_eq _ _ _ _ Hcap _ _ _ Hok) in H.
  destruct (bad tau m g); [discriminate | congruence].
Qed.

Lemma track_plain_char tau m : forall g d I,
  track_plain tau m g d = inl I -> I = build (memberships tau (scope_of m) g) d.
Proof. intros g d I H. rewrite track_plain_eq in H. destruct (bad tau m g); [discriminate | congruence]. Qed.

(** the early stop skips only triples the non-stopping variant would reject: no hypothesis *)
Lemma track_cap_stop_eq tau l cap g : 0 < cap ->
  track_cap tau (TClasses l) cap (Some (List.length l)) g [] {| cc := []; completed := 0 |}
  = track_cap tau (TClasses l) cap None g [] {| cc := []; completed := 0 |}.
Proof.
  intros Hcap. rewrite !track_cap_eq; [reflexivity | exact Hcap | constructor | exact Hcap |].
  exists l. split; [reflexivity|]. split; [reflexivity|]. exists []. cbn. split; [constructor|].
  split; [reflexivity | intros c []].
Qed.

(** ** [track] *)

Definition st0 : capst := {| cc := []; completed := 0 |}.

Definition nt_of (m : tmode) : option nat :=
  match m with TClasses l => Some (List.length l) | TAll => None end.

Lemma nt_ok_init m cap : nt_ok m cap (nt_of m) st0.
Proof.
  destruct m as [|l]; cbn; [constructor|].
  exists l. split; [reflexivity|]. split; [reflexivity|].
  exists []. cbn. split; [constructor|]. split; [reflexivity | intros c []].
Qed.

Lemma track_pos tau m k g : (0 < k)%Z ->
  track tau m k g = track_cap tau m (Z.to_nat k) (nt_of m) g [] st0.
Proof. intros H. unfold track. destruct (Z.leb_spec k 0); [lia | reflexivity]. Qed.

Lemma track_nonpos tau m k g : (k <= 0)%Z -> track tau m k g = track_plain tau m g [].
Proof. intros H. unfold track. destruct (Z.leb_spec k 0); [reflexivity | lia]. Qed.

(** the default of [Shaper(instances_cap=...)] means "no cap" *)
Lemma default_no_cap tau m g : track tau m dflt_instances_cap g = track_plain tau m g [].
Proof. apply track_nonpos. unfold dflt_instances_cap. lia. Qed.

(** [track] in one equation, for every cap *)
Lemma track_eq tau m k g :
  track tau m k g =
  if bad tau m g then inr TEAttr
  else inl (build (if (k <=? 0)%Z then memberships tau (scope_of m) g
                   else cap_filter (Z.to_nat k) (fun _ => 0) (memberships tau (scope_of m) g)) []).
Proof.
  destruct (Z.leb_spec k 0).
  - rewrite track_nonpos by assumption. apply track_plain_eq.
  - rewrite track_pos by assumption. rewrite track_cap_eq; [|lia | apply nt_ok_init].
    destruct (bad tau m g); [reflexivity|].
    rewrite (cap_filter_ext _ _ _ (fun _ => 0)) by (intros x; reflexivity). reflexivity.
Qed.

(** it raises (always AttributeError) exactly when, in all_classes_mode, some
    typing triple has a literal object: the same with and without a cap *)
Lemma track_err_iff tau m k g e :
  track tau m k g = inr e <->
  e = TEAttr /\ m = TAll /\ exists t, In t g /\ tp t = tau /\ is_node (to t) = false.
Proof.
  rewrite track_eq. rewrite <- bad_spec. destruct (bad tau m g); split.
  - intros H. injection H as <-. auto.
  - intros [-> _]. reflexivity.
  - discriminate.
  - intros [_ H]. discriminate.
Qed.

(** the memberships the cap keeps, as the Spec states them *)
Definition kept (tau : str) (sc : scope) (k : nat) (g : graph) (mm : str * str) : bool :=
  mem_str (fst mm) (first_k_instances tau sc k g (snd mm)).

Lemma cap_filter_kept tau sc k g : NoDup (memberships tau sc g) ->
  cap_filter k (fun _ => 0) (memberships tau sc g) = filter (kept tau sc k g) (memberships tau sc g).
Proof.
  intros Hnd. rewrite cap_filter_firstn by exact Hnd. apply filter_ext. intros mm.
  unfold kept. rewrite first_k_NoDup by exact Hnd. rewrite Nat.sub_0_r. reflexivity.
Qed.

Lemma getc_st0 x : getc (cc st0) x = 0.
Proof. reflexivity. Qed.

(** (cap1, core) with a cap the tracker returns the dictionary of the kept memberships *)
Lemma track_cap_is_build tau m k g I : (0 < k)%Z -> NoDup (memberships tau (scope_of m) g) ->
  track tau m k g = inl I ->
  I = build (filter (kept tau (scope_of m) (Z.to_nat k) g) (memberships tau (scope_of m) g)) [].
Proof.
  intros Hk Hnd H. rewrite track_pos in H by exact Hk.
  apply track_cap_char in H; [|lia | apply nt_ok_init].
  rewrite (cap_filter_ext _ _ _ (fun _ => 0)) in H by (intros x; reflexivity).
  rewrite cap_filter_kept in H by exact Hnd. exact H.
Qed.

Lemma In_kept_filter tau sc k g i c : NoDup (memberships tau sc g) ->
  In (i, c) (filter (kept tau sc k g) (memberships tau sc g)) <-> In i (first_k_instances tau sc k g c).
Proof.
  intros Hnd. rewrite filter_In. unfold kept. cbn [fst snd]. rewrite mem_str_In. split; [tauto|].
  intros H. split; [|exact H]. rewrite first_k_NoDup in H by exact Hnd.
  apply In_firstn in H. unfold class_subjects, subjects_of in H. apply in_map_iff in H.
  destruct H as [[i' c'] [H1 H2]]. cbn in H1. subst i'. apply filter_In in H2. cbn in H2.
  destruct H2 as [H2 H3]. apply str_eqb_eq in H3. subst c'. exact H2.
Qed.

Lemma firstn_NoDup {A} n (l : list A) : NoDup l -> NoDup (firstn n l).
Proof.
  revert l; induction n as [|n IH]; intros l H; cbn; [constructor|].
  destruct l as [|a l]; [constructor|]. inversion H; subst. constructor; [|apply IH; assumption].
  intros Hin. apply In_firstn in Hin. contradiction.
Qed.

(** (cap1) the instances listed for every class are exactly its first k *)
Lemma cap_firstn tau m k g I : (0 < k)%Z -> NoDup (memberships tau (scope_of m) g) ->
  track tau m k g = inl I ->
  forall c,
    (forall i, In c (cls I i) <-> In i (first_k_instances tau (scope_of m) (Z.to_nat k) g c)) /\
    Permutation (inst_of I c) (first_k_instances tau (scope_of m) (Z.to_nat k) g c) /\
    List.length (inst_of I c) = Nat.min (Z.to_nat k) (List.length (class_subjects tau (scope_of m) g c)).
Proof.
  intros Hk Hnd H c. pose proof (track_cap_is_build _ _ _ _ _ Hk Hnd H) as HI.
  assert (Hkeys : NoDup (dkeys I)) by (rewrite HI; apply NoDup_keys_build; constructor).
  assert (Hmem : forall i, In c (cls I i) <-> In i (first_k_instances tau (scope_of m) (Z.to_nat k) g c)).
  { intros i. rewrite HI at 1. rewrite cls_build_In. apply In_kept_filter. exact Hnd. }
  assert (Hperm : Permutation (inst_of I c) (first_k_instances tau (scope_of m) (Z.to_nat k) g c)).
  { apply NoDup_Permutation.
    - apply NoDup_inst_of. exact Hkeys.
    - rewrite first_k_NoDup by exact Hnd. apply firstn_NoDup. apply NoDup_subjects_of. exact Hnd.
    - intros i. rewrite inst_of_In by exact Hkeys. apply Hmem. }
  split; [exact Hmem|]. split; [exact Hperm|].
  rewrite (Permutation_length Hperm). rewrite first_k_NoDup by exact Hnd. apply firstn_length.
Qed.

Lemma existsb_filter_keep {A} (f k : A -> bool) l :
  (forall x, f x = true -> k x = true) -> existsb f (filter k l) = existsb f l.
Proof.
  intros H. induction l as [|a l IH]; cbn; [reflexivity|].
  destruct (k a) eqn:E; cbn; rewrite IH; [reflexivity|].
  destruct (f a) eqn:F; [rewrite (H a F) in E; discriminate | reflexivity].
Qed.

Lemma bad_restrict tau m k g : bad tau m (restrict_typing tau (scope_of m) k g) = bad tau m g.
Proof.
  unfold bad, restrict_typing. apply existsb_filter_keep. intros t Ht.
  unfold keep_typing. rewrite (lit_err_no_pair _ _ (scope_of m) _ Ht). reflexivity.
Qed.

(** (cap2) cap k on the document = no cap on the restricted document; no
    hypothesis on literals: both sides raise in the same cases *)
Lemma cap_is_restriction tau m k g z : (0 < k)%Z -> (z <= 0)%Z ->
  NoDup (memberships tau (scope_of m) g) ->
  track tau m k g = track tau m z (restrict_typing tau (scope_of m) (Z.to_nat k) g).
Proof.
  intros Hk Hz Hnd. rewrite !track_eq, bad_restrict.
  destruct (bad tau m g); [reflexivity|]. f_equal. f_equal.
  destruct (Z.leb_spec k 0); [lia|]. destruct (Z.leb_spec z 0); [|lia].
  rewrite cap_filter_kept by exact Hnd.
  unfold restrict_typing, keep_typing. symmetry.
  apply (memberships_filter tau (scope_of m) (kept tau (scope_of m) (Z.to_nat k) g)).
Qed.

(** (cap3) a cap not smaller than any class changes nothing (no hypothesis on the graph at all) *)
Lemma cap_large_id tau m k g z : (0 < k)%Z -> (z <= 0)%Z ->
  (forall c, List.length (class_subjects tau (scope_of m) g c) <= Z.to_nat k) ->
  track tau m k g = track tau m z g.
Proof.
  intros Hk Hz Hbig. rewrite !track_eq. destruct (bad tau m g); [reflexivity|]. f_equal. f_equal.
  destruct (Z.leb_spec k 0); [lia|]. destruct (Z.leb_spec z 0); [|lia].
  apply cap_filter_id. intros c. apply Hbig.
Qed.

Lemma cap_large_is_default tau m k g : (0 < k)%Z ->
  (forall c, List.length (class_subjects tau (scope_of m) g c) <= Z.to_nat k) ->
  track tau m k g = track tau m dflt_instances_cap g.
Proof. intros Hk Hbig. apply cap_large_id; [exact Hk | unfold dflt_instances_cap; lia | exact Hbig]. Qed.

(** the two target modes: early stop or not, same result *)
Lemma cap_stop_irrelevant tau l k g : (0 < k)%Z ->
  track tau (TClasses l) k g = track_cap tau (TClasses l) (Z.to_nat k) None g [] st0.
Proof. intros Hk. rewrite track_pos by exact Hk. apply track_cap_stop_eq. lia. Qed.

(** ** composition with the rest of the pipeline *)

Definition with_cap (c : rcfg) (z : Z) : rcfg :=
  {| r_tau := r_tau c; r_targets := r_targets c; r_ns := r_ns c; r_shapes_ns := r_shapes_ns c; r_cap := z;
     r_inverse := r_inverse c; r_remove_empty := r_remove_empty c; r_discard_useless := r_discard_useless c;
     r_keep_less_specific := r_keep_less_specific c; r_all_compliant := r_all_compliant c;
     r_disable_or := r_disable_or c; r_allow_redundant_or := r_allow_redundant_or c; r_allow_opt := r_allow_opt c;
     r_disable_exact := r_disable_exact c; r_disable_comments := r_disable_comments c; r_mode := r_mode c |}.

Definition mode_of_cfg (c : rcfg) : tmode :=
  match r_targets c with Some l => TClasses l | None => TAll end.

Lemma scope_of_mode_of_cfg c : scope_of (mode_of_cfg c) = r_targets c.
Proof. unfold mode_of_cfg. destruct (r_targets c); reflexivity. Qed.

Section RunComp.
  Variable fa : FreqAlg.

  (** the two-document run on one document is the one-document run with the
      shexing stage in the order the code has ([RunCur]); it is [Run.run_shapes]
      where Proofs/OrderIrrelevant.v shows the order to be irrelevant *)
  Lemma run_shapes_is_run_shapes2 c thr g : run_shapes_cur fa c thr g = run_shapes2 fa c thr g g.
  Proof. reflexivity. Qed.

  Lemma run_shexc_is_run_shexc2 c thr g : run_shexc_cur fa c thr g = run_shexc2 fa c thr g g.
  Proof. reflexivity. Qed.

  (** only the tracker looks at [r_cap] and only the tracker reads [g_inst] *)
  Lemma run_shexc2_track c c' thr gi gi' gf :
    c' = with_cap c (r_cap c') ->
    track (r_tau c) (mode_of_cfg c) (r_cap c) gi = track (r_tau c') (mode_of_cfg c') (r_cap c') gi' ->
    run_shexc2 fa c thr gi gf = run_shexc2 fa c' thr gi' gf.
  Proof.
    intros Hc Ht. unfold run_shexc2, run_shapes2. unfold mode_of_cfg in Ht. rewrite Ht.
    rewrite Hc. destruct c; reflexivity.
  Qed.

  (** the same for the one-document run in the modelled (old) order *)
  Lemma run_shexc_track c c' thr g g' :
    c' = with_cap c (r_cap c') ->
    track (r_tau c) (mode_of_cfg c) (r_cap c) g = track (r_tau c') (mode_of_cfg c') (r_cap c') g' ->
    (forall ins, profile (pcfg_of c) ins g = profile (pcfg_of c) ins g') ->
    run_shexc fa c thr g = run_shexc fa c' thr g'.
  Proof.
    intros Hc Ht Hp. unfold run_shexc, run_shapes. unfold mode_of_cfg in Ht. rewrite Ht.
    set (z := r_cap c') in *. clearbody z. subst c'.
    change (full_ns (with_cap c z)) with (full_ns c). change (pcfg_of (with_cap c z)) with (pcfg_of c).
    destruct (full_ns c) as [ns|]; [|reflexivity].
    change (scfg_of (with_cap c z) ns) with (scfg_of c ns).
    destruct (track _ _ _ g') as [ins|e]; [|reflexivity]. rewrite (Hp ins). reflexivity.
  Qed.

  Lemma run_cap_is_restriction c thr g z : (0 < r_cap c)%Z -> (z <= 0)%Z ->
    NoDup (memberships (r_tau c) (r_targets c) g) ->
    run_shexc_cur fa c thr g =
    run_shexc2 fa (with_cap c z) thr (restrict_typing (r_tau c) (r_targets c) (Z.to_nat (r_cap c)) g) g.
  Proof.
    intros Hk Hz Hnd. rewrite run_shexc_is_run_shexc2. apply run_shexc2_track; [reflexivity|].
    cbn [with_cap r_cap r_tau]. replace (mode_of_cfg (with_cap c z)) with (mode_of_cfg c) by reflexivity.
    rewrite <- (scope_of_mode_of_cfg c) in *. apply cap_is_restriction; assumption.
  Qed.

  Lemma run_cap_large_id_cur c thr g z : (0 < r_cap c)%Z -> (z <= 0)%Z ->
    (forall x, List.length (class_subjects (r_tau c) (r_targets c) g x) <= Z.to_nat (r_cap c)) ->
    run_shexc_cur fa c thr g = run_shexc_cur fa (with_cap c z) thr g.
  Proof.
    intros Hk Hz Hbig. rewrite !run_shexc_is_run_shexc2. apply run_shexc2_track; [reflexivity|].
    cbn [with_cap r_cap r_tau]. replace (mode_of_cfg (with_cap c z)) with (mode_of_cfg c) by reflexivity.
    rewrite <- (scope_of_mode_of_cfg c) in *. apply cap_large_id; assumption.
  Qed.

  Lemma run_cap_large_id c thr g z : (0 < r_cap c)%Z -> (z <= 0)%Z ->
    (forall x, List.length (class_subjects (r_tau c) (r_targets c) g x) <= Z.to_nat (r_cap c)) ->
    run_shexc fa c thr g = run_shexc fa (with_cap c z) thr g.
  Proof.
    intros Hk Hz Hbig. apply run_shexc_track; [reflexivity| |reflexivity].
    cbn [with_cap r_cap r_tau]. replace (mode_of_cfg (with_cap c z)) with (mode_of_cfg c) by reflexivity.
    rewrite <- (scope_of_mode_of_cfg c) in *. apply cap_large_id; assumption.
  Qed.
End RunComp.

(** ** namespaces_to_ignore *)

Lemma contains_char c s : contains [c] s = true <-> In c s.
Proof.
  unfold contains. induction s as [|y s IH]; cbn.
  - split; [discriminate | intros []].
  - destruct (Ascii.eqb c y) eqn:E; cbn.
    + apply Ascii.eqb_eq in E. subst. split; auto.
    + destruct (find_nat [c] s) eqn:F; split; intros H.
      * right. apply IH. reflexivity.
      * reflexivity.
      * discriminate.
      * destruct H as [H|H]; [subst; rewrite Ascii.eqb_refl in E; discriminate | apply IH in H; discriminate].
Qed.

Lemma slice_from_app (a r : str) : slice_from (a ++ r) (len a) = r.
Proof.
  unfold slice_from, norm_idx, len. rewrite app_length.
  destruct (Z.ltb_spec (Z.of_nat (List.length a)) 0); [lia|].
  rewrite Z.min_l by lia. rewrite Nat2Z.id. clear H.
  induction a as [|x a IH]; cbn; [reflexivity | exact IH].
Qed.

Lemma child_of_one_spec ns p : child_of_one ns p = true <-> direct_child ns p.
Proof.
  unfold child_of_one, direct_child. destruct (prefixb ns p) eqn:E.
  - apply prefixb_spec in E. destruct E as [r ->]. rewrite slice_from_app.
    change c_ns_child_separators with [["/"%char]; ["#"%char]]. cbn [forallb]. rewrite andb_true_r.
    rewrite andb_true_iff, !negb_true_iff. split.
    + intros [H1 H2]. exists r. split; [reflexivity|]. split; intros H; apply contains_char in H; congruence.
    + intros [r' [H [H1 H2]]]. apply app_inv_head in H. subst r'. split.
      * destruct (contains ["/"%char] r) eqn:C; [apply contains_char in C; contradiction | reflexivity].
      * destruct (contains ["#"%char] r) eqn:C; [apply contains_char in C; contradiction | reflexivity].
  - split; [discriminate|]. intros [r [H _]].
    assert (prefixb ns p = true) by (apply prefixb_spec; exists r; exact H). congruence.
Qed.

(** the code's test is the Spec's relation *)
Lemma child_of_ns_spec ign p : child_of_ns ign p = true <-> ignored ign p.
Proof.
  unfold ignored. induction ign as [|ns ign IH]; cbn.
  - split; [discriminate | intros [ns [[] _]]].
  - destruct (child_of_one ns p) eqn:E.
    + split; [|reflexivity]. intros _. exists ns. split; [left; reflexivity | apply child_of_one_spec; exact E].
    + rewrite IH. split.
      * intros [ns' [H1 H2]]. exists ns'. auto.
      * intros [ns' [[H1|H1] H2]]; [subst; apply child_of_one_spec in H2; congruence | exists ns'; auto].
Qed.

Lemma child_of_ns_false ign p : child_of_ns ign p = false <-> ~ ignored ign p.
Proof.
  rewrite <- child_of_ns_spec. destruct (child_of_ns ign p); split; congruence.
Qed.

(** [filter_ns] deletes exactly the triples whose predicate is ignored, keeping the order *)
Lemma filter_ns_sub_sat ign g : sub_sat (fun t => ~ ignored ign (tp t)) (filter_ns ign g) g.
Proof.
  induction g as [|t g IH]; cbn; [constructor|]. unfold pass_filters.
  destruct (child_of_ns ign (tp t)) eqn:E; cbn.
  - apply ss_drop; [|exact IH]. intros H. apply H. apply child_of_ns_spec. exact E.
  - apply ss_keep; [|exact IH]. apply child_of_ns_false. exact E.
Qed.

Lemma sub_sat_unique P g g1 g2 : sub_sat P g1 g -> sub_sat P g2 g -> g1 = g2.
Proof.
  intros H1. revert g2. induction H1; intros g2 H2; inversion H2; subst; try reflexivity; try contradiction.
  - f_equal. apply IHsub_sat. assumption.
  - apply IHsub_sat. assumption.
Qed.

Lemma filter_ns_In ign g t : In t (filter_ns ign g) <-> In t g /\ ~ ignored ign (tp t).
Proof.
  induction g as [|x g IH]; cbn; [tauto|]. unfold pass_filters.
  destruct (child_of_ns ign (tp x)) eqn:E; cbn; rewrite IH.
  - apply child_of_ns_spec in E. split; [tauto|]. intros [[H|H] H1]; [subst; contradiction | tauto].
  - apply child_of_ns_false in E. split; [intros [H|H]; [subst; tauto | tauto] | tauto].
Qed.

(** a predicate one level deeper is not a direct child: it is kept *)
Lemma deeper_not_child ns r : In "/"%char r \/ In "#"%char r -> ~ direct_child ns (ns ++ r).
Proof.
  intros H [r' [E [H1 H2]]]. apply app_inv_head in E. subst r'. tauto.
Qed.

(** nested namespaces: a direct child of the inner namespace is not a child of the outer one *)
Lemma nested_inner_only ns mid local :
  In "/"%char mid \/ In "#"%char mid -> ~ In "/"%char local -> ~ In "#"%char local ->
  direct_child (ns ++ mid) (ns ++ mid ++ local) /\ ~ direct_child ns (ns ++ mid ++ local).
Proof.
  intros Hm H1 H2. split.
  - exists local. rewrite app_assoc. auto.
  - apply deeper_not_child. rewrite !in_app_iff. tauto.
Qed.

(** the instantiation property inside an ignored namespace: the feature pass
    sees no typing triple any more, the instance pass still sees them all *)
Lemma tau_ignored_no_tau_feature ign tau g t :
  ignored ign tau -> In t (filter_ns ign g) -> tp t <> tau.
Proof. intros Hi Ht E. apply filter_ns_In in Ht. subst tau. tauto. Qed.

Section RunIgn.
  Variable fa : FreqAlg.

  Lemma run_ign_is_deletion c ign thr g :
    exists g', sub_sat (fun t => ~ ignored ign (tp t)) g' g /\
               (forall g'', sub_sat (fun t => ~ ignored ign (tp t)) g'' g -> g'' = g') /\
               run_shexc_ign fa c ign thr g = run_shexc2 fa c thr g g'.
  Proof.
    exists (filter_ns ign g). split; [apply filter_ns_sub_sat|]. split; [|reflexivity].
    intros g'' H. apply (sub_sat_unique _ _ _ _ H (filter_ns_sub_sat ign g)).
  Qed.

  Lemma run_ign_nil c thr g : run_shexc_ign fa c [] thr g = run_shexc_cur fa c thr g.
  Proof.
    unfold run_shexc_ign. replace (filter_ns [] g) with g; [reflexivity|].
    induction g as [|t g IH]; cbn; [reflexivity | f_equal; exact IH].
  Qed.
End RunIgn.

(** ** graph-level corollaries (duplicate-free graphs whose node strings identify the nodes) *)

Lemma cap_firstn_graph tau m k g I : (0 < k)%Z -> NoDup g -> ids_faithful g ->
  track tau m k g = inl I ->
  forall c,
    (forall i, In c (cls I i) <-> In i (first_k_instances tau (scope_of m) (Z.to_nat k) g c)) /\
    Permutation (inst_of I c) (first_k_instances tau (scope_of m) (Z.to_nat k) g c) /\
    List.length (inst_of I c) = Nat.min (Z.to_nat k) (List.length (class_subjects tau (scope_of m) g c)).
Proof. intros Hk Hnd Hf. apply cap_firstn; [exact Hk | apply memberships_NoDup; assumption]. Qed.

Lemma cap_is_restriction_graph tau m k g z : (0 < k)%Z -> (z <= 0)%Z -> NoDup g -> ids_faithful g ->
  track tau m k g = track tau m z (restrict_typing tau (scope_of m) (Z.to_nat k) g).
Proof. intros Hk Hz Hnd Hf. apply cap_is_restriction; [exact Hk | exact Hz | apply memberships_NoDup; assumption]. Qed.

Section RunCompGraph.
  Variable fa : FreqAlg.
  Lemma run_cap_is_restriction_graph c thr g z : (0 < r_cap c)%Z -> (z <= 0)%Z ->
    NoDup g -> ids_faithful g ->
    run_shexc_cur fa c thr g =
    run_shexc2 fa (with_cap c z) thr (restrict_typing (r_tau c) (r_targets c) (Z.to_nat (r_cap c)) g) g.
  Proof. intros Hk Hz Hnd Hf. apply run_cap_is_restriction; [exact Hk | exact Hz | apply memberships_NoDup; assumption]. Qed.
End RunCompGraph.

(** [ids_faithful] holds of every graph a yielder produces: blank-node strings
    start with "_:" and IRI strings do not *)
Definition bnode_marked (n : node) : Prop :=
  nk n = KBnode <-> prefixb (Str "_:") (nid n) = true.

Lemma marked_ids_faithful g : (forall n, node_in g n -> bnode_marked n) -> ids_faithful g.
Proof.
  intros H n n' Hn Hn' E. apply H in Hn. apply H in Hn'. unfold bnode_marked in *.
  destruct n as [k i], n' as [k' i']. cbn in *. subst i'. f_equal.
  destruct k, k'; try reflexivity.
  - destruct Hn' as [Hn' _]. specialize (Hn' eq_refl). apply Hn in Hn'. discriminate.
  - destruct Hn as [Hn _]. specialize (Hn eq_refl). apply Hn' in Hn. discriminate.
Qed.

Section RunShapes.
  Variable fa : FreqAlg.

  Lemma run_shapes2_track c c' thr gi gi' gf :
    c' = with_cap c (r_cap c') ->
    track (r_tau c) (mode_of_cfg c) (r_cap c) gi = track (r_tau c') (mode_of_cfg c') (r_cap c') gi' ->
    run_shapes2 fa c thr gi gf = run_shapes2 fa c' thr gi' gf.
  Proof.
    intros Hc Ht. unfold run_shapes2. unfold mode_of_cfg in Ht. rewrite Ht.
    rewrite Hc. destruct c; reflexivity.
  Qed.

  (** the shapes (before serialisation) with the cap = the shapes of the uncapped
      extraction with the restricted document as instance source *)
  Lemma run_shapes_cap_is_restriction c thr g z : (0 < r_cap c)%Z -> (z <= 0)%Z ->
    NoDup g -> ids_faithful g ->
    run_shapes_cur fa c thr g =
    run_shapes2 fa (with_cap c z) thr (restrict_typing (r_tau c) (r_targets c) (Z.to_nat (r_cap c)) g) g.
  Proof.
    intros Hk Hz Hnd Hf. rewrite run_shapes_is_run_shapes2. apply run_shapes2_track; [reflexivity|].
    cbn [with_cap r_cap r_tau]. replace (mode_of_cfg (with_cap c z)) with (mode_of_cfg c) by reflexivity.
    rewrite <- (scope_of_mode_of_cfg c) in *. apply cap_is_restriction; try assumption.
    apply memberships_NoDup; assumption.
  Qed.
End RunShapes.
