(** * Input-level statements: model-level hypotheses of C02 / C05 replaced by
    conditions on the run's input (configuration and graph).

    B.  C02 with remove_empty_shapes on: key presence IFF the declarative
        count passes, shapes = class keys that have an instance.
    A.  C05: [profile_refs_closed], label injectivity and [C05_dom] of the
        shape list, all from a boolean predicate [c05_input_ok c g].
    C.  C02 union count for the value class "non-literal".

    Nothing of Model/, Spec/, Lib/ is changed. *)
From Coq Require Import List Ascii String ZArith NArith Bool Lia Permutation.
From Shexer Require Import Lib.PyStr Lib.Dict Lib.Bin64 Gen.Consts Spec.Rdf Model.Tracker Model.Profiler
  Model.Tokens Model.Freq Model.FreqInst Model.Shexing Model.SerialShexc Model.Run Model.Run2 Spec.Counts
  Proofs.DictLemmas Proofs.ProfileChar Proofs.ProfileOrder Proofs.ShexLemmas Proofs.ShexKeys
  Proofs.Bin64Round Proofs.FreqLaws Proofs.EndToEnd Proofs.EndToEnd2 Proofs.EndToEnd3.
Import ListNotations.
Local Open Scope N_scope.

(** ** B. C02 with remove_empty_shapes on *)

(** the tracker's dictionary: a class has a feature iff it has an instance
    (every instance carries its typing triple as a direct feature) *)
Lemma tracked_has_feat_iff c g I cls :
  track (r_tau c) (mode_of c) (r_cap c) g = inl I ->
  (has_feat (pcfg_of c) I g cls <-> 0 < class_count I cls).
Proof.
  intros HT. split.
  - intros (dir & p & k & card & _ & H).
    pose proof (occ_le_class_count dir (p_tau (pcfg_of c)) I g cls p k card). lia.
  - intros H. exists Direct, (r_tau c), cls, (CKn 1). split; [discriminate|].
    cbn [p_tau pcfg_of]. rewrite (occ_typing (r_tau c) g I cls (track_classes _ _ _ _ _ HT)). exact H.
Qed.

(** a class listed for an instance has a positive class count *)
Lemma class_key_cases targets (I : insts) cls :
  In cls (class_keys targets I) -> In cls targets \/ 0 < class_count I cls.
Proof.
  intros H. unfold class_keys in H. rewrite uniq_first_first_occ in H. apply (proj1 (In_first_occ _ _)) in H.
  apply in_app_or in H. destruct H as [H|H]; [left; exact H|]. right.
  rewrite class_count_concat. apply count_str_pos. exact H.
Qed.

(** the class keys the profile keeps, for the tracker's dictionary, when
    class keys cannot be confused with labels *)
Lemma kept_keys_have_instances c g I P C ID :
  r_remove_empty c = true -> class_iris_ok c g = true ->
  track (r_tau c) (mode_of c) (r_cap c) g = inl I ->
  profile (pcfg_of c) I g = inl (P, C, ID) ->
  (forall cls, In cls (dkeys P) <->
               In cls (class_keys (targets_of (pcfg_of c)) I) /\ 0 < class_count I cls) /\
  dkeys P = filter (fun cls => 0 <? class_count I cls) (class_keys (targets_of (pcfg_of c)) I).
Proof.
  intros Hre Hcls HT HP.
  pose proof (proj1 (track_insts_ok _ _ _ _ _ HT)) as Hn.
  destruct (profile_kept_char (pcfg_of c) I g P C ID Hn HP) as [Hk _].
  assert (Hiff : forall cls, In cls (dkeys P) <->
               In cls (class_keys (targets_of (pcfg_of c)) I) /\ 0 < class_count I cls).
  { intros cls. rewrite Hk. split.
    - intros [H1 H2]. split; [exact H1|]. destruct H2 as [H2|[H2|H2]].
      + cbn [p_remove_empty pcfg_of] in H2. congruence.
      + exfalso. assert (Hin : In cls (dkeys P)) by (apply Hk; auto).
        apply in_map_iff in Hin. destruct Hin as [[cl e] [E Hce]]. cbn [fst] in E. subst cl.
        exact (class_key_not_label c g I P C ID Hcls HT HP (cls, e) Hce H2).
      + apply (tracked_has_feat_iff c g I cls HT). exact H2.
    - intros [H1 H2]. split; [exact H1|]. right. right. apply (tracked_has_feat_iff c g I cls HT). exact H2. }
  split; [exact Hiff|].
  destruct (profile_final_char (pcfg_of c) I g P C ID Hn HP) as (_ & _ & (ks & Hks & _) & _).
  rewrite Hks. apply filter_ext_in. intros cls Hc.
  destruct (0 <? class_count I cls) eqn:E.
  - apply N.ltb_lt in E. assert (Hin : In cls (dkeys P)) by (apply Hiff; auto).
    rewrite Hks in Hin. apply filter_In in Hin. apply Hin.
  - destruct (not_in ks cls) eqn:E2; [|reflexivity]. exfalso.
    assert (Hin : In cls (dkeys P)) by (rewrite Hks; apply filter_In; auto).
    apply Hiff in Hin. destruct Hin as [_ Hin]. apply N.ltb_lt in Hin. congruence.
Qed.

(** [key_passes_occ], the type key not being a class key without instance
    (such a key -- a requested target class no node is an instance of, used
    as a datatype, or as the subject/object of a typing triple of an instance
    -- is deleted from the profile together with the class) *)
Definition live_key (c : rcfg) (I : insts) (k : str) : Prop :=
  In k (class_keys (targets_of (pcfg_of c)) I) -> 0 < class_count I k.

Theorem e2e_keys_iff_occ_remove c thr g ns shapes :
  r_remove_empty c = true -> class_iris_ok c g = true ->
  wf_frac thr -> fle BAlg thr (fone BAlg) = true -> N.of_nat (List.length g) < 2 ^ 53 ->
  run_shapes BAlg c thr g = inl (ns, shapes) ->
  exists I, track (r_tau c) (mode_of c) (r_cap c) g = inl I /\
    map sh_class shapes =
      filter (fun cls => 0 <? class_count I cls) (class_keys (targets_of (pcfg_of c)) I) /\
    (forall sh, In sh shapes ->
      sh_n sh = class_count I (sh_class sh) /\ 0 < sh_n sh /\ sh_stmts sh <> [] /\
      (forall inv p vc, In (inv, p, vc) (map (skey (scfg_of c ns)) (sh_stmts sh)) <->
                        key_passes_occ_kept BAlg c thr I g (live_key c I) (sh_class sh) inv p vc) /\
      (no_nonliteral_datatype g -> NoDup (map (skey (scfg_of c ns)) (sh_stmts sh)))) /\
    ((forall t, In t (targets_of (pcfg_of c)) -> 0 < class_count I t) ->
     forall sh, In sh shapes -> forall inv p vc,
       In (inv, p, vc) (map (skey (scfg_of c ns)) (sh_stmts sh)) <->
       key_passes_occ BAlg c thr I g (sh_class sh) inv p vc).
Proof.
  intros Hre Hcls Hw Hle Hg H.
  destruct (e2e_keys_remove BAlg c thr g ns shapes Hre H) as (I0 & HT0 & Hrem).
  pose proof (run_shapes_is_raw c thr g ns shapes Hcls Hw Hle Hg H) as Hraw.
  destruct (run_raw_keys_iff_occ BAlg c thr g ns shapes Hraw) as (I & P & C & ID & HT & HP & Hcl & Hkeys).
  assert (I0 = I) by congruence. subst I0.
  destruct (kept_keys_have_instances c g I P C ID Hre Hcls HT HP) as [Hiff Hfil].
  assert (Hlive : forall k, (In k (class_keys (targets_of (pcfg_of c)) I) -> In k (dkeys P)) <-> live_key c I k).
  { intros k. unfold live_key. split.
    - intros Hk Hin. apply (Hiff k). exact (Hk Hin).
    - intros Hk Hin. apply Hiff. split; [exact Hin | exact (Hk Hin)]. }
  assert (Hmain : forall sh, In sh shapes -> forall inv p vc,
            In (inv, p, vc) (map (skey (scfg_of c ns)) (sh_stmts sh)) <->
            key_passes_occ_kept BAlg c thr I g (live_key c I) (sh_class sh) inv p vc).
  { intros sh Hsh inv p vc. destruct (Hkeys sh Hsh) as (_ & _ & Hk). rewrite Hk.
    unfold key_passes_occ_kept. split; intros (Hi & k & ck & A & B & D & E); (split; [exact Hi|]);
      exists k, ck; (split; [exact A|]); (split; [exact B|]); (split; [exact D|]); apply Hlive; exact E. }
  exists I. split; [exact HT|]. split; [rewrite Hcl; exact Hfil|]. split.
  - intros sh Hsh. destruct (Hrem sh Hsh) as (_ & En & Hne & _ & Hnd).
    split; [exact En|]. split.
    { rewrite En. apply (Hiff (sh_class sh)). rewrite <- Hcl. apply in_map. exact Hsh. }
    split; [exact Hne|]. split; [exact (Hmain sh Hsh) | exact Hnd].
  - intros Htg sh Hsh inv p vc. rewrite (Hmain sh Hsh inv p vc).
    unfold key_passes_occ_kept, key_passes_occ. split.
    + intros (Hi & k & ck & A & B & D & _). split; [exact Hi|]. exists k, ck. auto.
    + intros (Hi & k & ck & A & B & D). split; [exact Hi|]. exists k, ck.
      split; [exact A|]. split; [exact B|]. split; [exact D|].
      intros Hin. destruct (class_key_cases _ _ _ Hin) as [Ht|Hp]; [exact (Htg k Ht) | exact Hp].
Qed.

(** all-classes mode: no target list, the IFF is that of [remove_empty = false] *)
Corollary e2e_keys_iff_occ_remove_all c thr g ns shapes :
  r_remove_empty c = true -> r_targets c = None -> class_iris_ok c g = true ->
  wf_frac thr -> fle BAlg thr (fone BAlg) = true -> N.of_nat (List.length g) < 2 ^ 53 ->
  run_shapes BAlg c thr g = inl (ns, shapes) ->
  exists I, track (r_tau c) (mode_of c) (r_cap c) g = inl I /\
    map sh_class shapes = class_keys [] I /\
    forall sh, In sh shapes ->
      sh_n sh = class_count I (sh_class sh) /\
      forall inv p vc, In (inv, p, vc) (map (skey (scfg_of c ns)) (sh_stmts sh)) <->
                       key_passes_occ BAlg c thr I g (sh_class sh) inv p vc.
Proof.
  intros Hre Hnone Hcls Hw Hle Hg H.
  destruct (e2e_keys_iff_occ_remove c thr g ns shapes Hre Hcls Hw Hle Hg H) as (I & HT & Hcl & Hsh & Hall).
  assert (Etg : targets_of (pcfg_of c) = []) by (unfold targets_of; cbn [p_targets pcfg_of]; rewrite Hnone; reflexivity).
  rewrite Etg in *. exists I. split; [exact HT|]. split.
  - rewrite Hcl. apply DictLemmas.filter_all_true. intros cls Hin. apply N.ltb_lt.
    destruct (class_key_cases _ _ _ Hin) as [[]|Hp]. exact Hp.
  - intros sh Hin. split; [apply (Hsh sh Hin)|]. apply (Hall (fun t (Ht : In t []) => match Ht with end) sh Hin).
Qed.

(** one shape per class, in both settings *)
Theorem e2e_one_shape_per_class_keep fa c (thr : F fa) g ns shapes :
  r_remove_empty c = false -> run_shapes fa c thr g = inl (ns, shapes) ->
  exists I, track (r_tau c) (mode_of c) (r_cap c) g = inl I /\
    NoDup (map sh_class shapes) /\
    map sh_class shapes = class_keys (targets_of (pcfg_of c)) I /\
    forall sh, In sh shapes -> class_count I (sh_class sh) = 0 ->
      In (sh_class sh) (targets_of (pcfg_of c)) /\ sh_n sh = 0 /\ sh_stmts sh = [].
Proof.
  intros Hre H. destruct (e2e_header fa c thr g ns shapes H) as (I0 & HT0 & _ & Hnd & _).
  destruct (e2e_keys_iff_occ fa c thr g ns shapes Hre H) as (I & HT & Hcl & Hsh).
  assert (I0 = I) by congruence. subst I0.
  exists I. split; [exact HT|]. split; [exact Hnd|]. split; [exact Hcl|].
  intros sh Hin H0. destruct (Hsh sh Hin) as (En & Hk & _).
  split; [|split; [rewrite En; exact H0|]].
  - assert (Hc : In (sh_class sh) (class_keys (targets_of (pcfg_of c)) I)) by (rewrite <- Hcl; apply in_map; exact Hin).
    destruct (class_key_cases _ _ _ Hc) as [Ht|Hp]; [exact Ht | lia].
  - destruct (sh_stmts sh) as [|st r] eqn:Es; [reflexivity|]. exfalso.
    destruct (skey (scfg_of c ns) st) as [[inv p] vc] eqn:Ek.
    assert (Hp : key_passes_occ fa c thr I g (sh_class sh) inv p vc).
    { apply Hk. rewrite <- Ek. left. reflexivity. }
    destruct Hp as (_ & k & ck & _ & Hpos & _).
    pose proof (occ_le_class_count (dir_of inv) (r_tau c) I g (sh_class sh) p k ck). lia.
Qed.

Theorem e2e_one_shape_per_class_remove c thr g ns shapes :
  r_remove_empty c = true -> class_iris_ok c g = true ->
  wf_frac thr -> fle BAlg thr (fone BAlg) = true -> N.of_nat (List.length g) < 2 ^ 53 ->
  run_shapes BAlg c thr g = inl (ns, shapes) ->
  exists I, track (r_tau c) (mode_of c) (r_cap c) g = inl I /\
    NoDup (map sh_class shapes) /\
    map sh_class shapes =
      filter (fun cls => 0 <? class_count I cls) (class_keys (targets_of (pcfg_of c)) I) /\
    forall sh, In sh shapes -> 0 < sh_n sh /\ sh_stmts sh <> [].
Proof.
  intros Hre Hcls Hw Hle Hg H. destruct (e2e_header BAlg c thr g ns shapes H) as (I0 & HT0 & _ & Hnd & _).
  destruct (e2e_keys_iff_occ_remove c thr g ns shapes Hre Hcls Hw Hle Hg H) as (I & HT & Hcl & Hsh & _).
  assert (I0 = I) by congruence. subst I0.
  exists I. split; [exact HT|]. split; [exact Hnd|]. split; [exact Hcl|].
  intros sh Hin. destruct (Hsh sh Hin) as (_ & A & B & _). auto.
Qed.

(** ** A1. the references of the profile resolve, for every graph whose
    datatypes / class IRIs do not start with the label sentinel '%' *)
From Shexer Require Import Proofs.ShexBasics Proofs.ClosureLemmas.

(** a shape-typed key contributed by a triple is a label of a class listed
    for some tracked node *)
Lemma contrib_shape_key dir tau (I : insts) t i p k :
  sentinel_free tau t = true -> In k (contrib dir tau I t i p) -> is_shape_type k = true ->
  exists id cs cl, In (id, cs) I /\ In cl cs /\ k = shape_name c_SHAPES_DEFAULT_NAMESPACE cl.
Proof.
  unfold sentinel_free. intros Hs Hk Hty. apply andb_true_iff in Hs. destruct Hs as [_ Ho].
  assert (Hlab : forall id, In k (shape_labels I id) ->
            exists id cs cl, In (id, cs) I /\ In cl cs /\ k = shape_name c_SHAPES_DEFAULT_NAMESPACE cl).
  { intros id H. unfold shape_labels, classes_of in H. destruct (dget I id) as [cs|] eqn:E; [|destruct H].
    apply in_map_iff in H. destruct H as [cl [<- Hcl]]. exists id, cs, cl.
    split; [apply dget_In; exact E|]. auto. }
  assert (Hno : forall s, no_sentinel s = true -> k = s -> False).
  { intros s Hn ->. unfold no_sentinel in Hn. unfold is_shape_type in Hty. rewrite Hty in Hn. discriminate. }
  destruct dir; cbn [contrib] in Hk.
  - destruct (str_eqb (nid (ts t)) i && str_eqb (tp t) p); [|destruct Hk].
    unfold keys_direct in Hk. destruct (to t) as [o|ct dt].
    + destruct (str_eqb (tp t) tau).
      * apply andb_true_iff in Ho. destruct Ho as [Ho _].
        destruct Hk as [Hk|Hk]; [exfalso; exact (Hno _ Ho (eq_sym Hk))|].
        destruct (_ || _); [exact (Hlab _ Hk) | destruct Hk].
      * destruct Hk as [Hk|Hk]; [|exact (Hlab _ Hk)]. exfalso.
        apply (Hno (elem_type o)); [|symmetry; exact Hk]. unfold elem_type. destruct (nk o); reflexivity.
    + destruct (str_eqb (tp t) tau); [destruct Hk|]. destruct Hk as [Hk|[]].
      exfalso. exact (Hno _ Ho (eq_sym Hk)).
  - destruct (to t) as [o|ct dt]; [|destruct Hk].
    destruct (str_eqb (nid o) i && str_eqb (tp t) p); [|destruct Hk].
    unfold keys_inverse in Hk. destruct (str_eqb (tp t) tau).
    + apply andb_true_iff in Ho. destruct Ho as [_ Ho].
      destruct Hk as [Hk|Hk]; [exfalso; exact (Hno _ Ho (eq_sym Hk))|].
      destruct (str_eqb _ _); [exact (Hlab _ Hk) | destruct Hk].
    + destruct Hk as [Hk|Hk].
      * exfalso. apply (Hno (elem_type (ts t))); [|symmetry; exact Hk].
        unfold elem_type. destruct (nk (ts t)); reflexivity.
      * destruct (nk (ts t)); [exact (Hlab _ Hk) | destruct Hk].
Qed.

Lemma occ_pos_shape_key dir tau (I : insts) G c p k card :
  forallb (sentinel_free tau) G = true -> 0 < occ dir tau I G c p k card -> is_shape_type k = true ->
  exists id cs cl, In (id, cs) I /\ In cl cs /\ k = shape_name c_SHAPES_DEFAULT_NAMESPACE cl.
Proof.
  intros Hg Hpos Hty.
  destruct (proj1 (occ_pos_iff dir tau I G c p k) (ex_intro _ card Hpos)) as (i & cs & _ & _ & Hc).
  unfold cnt in Hc. apply sumN_pos_ex in Hc. destruct Hc as [x [Hx Hx0]].
  apply in_map_iff in Hx. destruct Hx as [t [<- Ht]].
  rewrite count_in_count_str in Hx0. apply count_str_pos in Hx0.
  rewrite forallb_forall in Hg. exact (contrib_shape_key dir tau I t i p k (Hg t Ht) Hx0 Hty).
Qed.

(** every stored type key of the final profile has a positive count *)
Lemma final_key_occ cfg (I : insts) G P C ID c e p m k cd :
  NoDup (dkeys I) -> profile cfg I G = inl (P, C, ID) ->
  In (c, e) P -> In (k, cd) m ->
  (In (p, m) (c_direct e) -> exists card, 0 < occ Direct (p_tau cfg) I G c p k card) /\
  (In (p, m) (c_inverse e) -> exists card, 0 < occ Inverse (p_tau cfg) I G c p k card).
Proof.
  intros NDI HP Hce Hk. rewrite profile_result in HP.
  destruct (annotate_all (p_tau cfg) (p_inverse cfg) G (adapt I)) as [ID'|err] eqn:HA; [|discriminate].
  destruct (raw_profile cfg I ID') as [P1 C0] eqn:HR. injection HP as HP1 _ _.
  destruct (profile_counts_char cfg I G ID' P1 C0 NDI HA HR) as (_ & _ & NDP1 & _ & HB).
  pose proof (profile_entries_char cfg I G ID' P1 C0 NDI HA HR) as HE.
  pose proof (raw_profile_wf cfg I ID' P1 C0 HR) as Hwf.
  set (ks := if p_remove_empty cfg then shapes_to_remove (p_inverse cfg) (orig_labels cfg) P1 else []).
  assert (EP : P = remove_iteration ks P1).
  { unfold ks. destruct (p_remove_empty cfg); [symmetry; assumption|]. rewrite remove_iteration_nil. symmetry. assumption. }
  rewrite EP in Hce. apply In_remove_iteration in Hce. destruct Hce as [e1 [Hce1 [-> _]]].
  pose proof (In_dget_NoDup P1 c e1 NDP1 Hce1) as He1.
  destruct (HE c e1 He1) as [_ [ED [_ EI]]].
  destruct (cprofile_wf_dget P1 c e1 Hwf He1) as (_ & NEd & _ & NEi).
  assert (Hne : forall d m1, pdict_ne d -> In (p, m1) d -> In (k, cd) m1 -> exists card n, In (card, n) cd).
  { intros d m1 Hd H1 H2. unfold pdict_ne in Hd. rewrite Forall_forall in Hd. destruct (Hd _ H1) as [_ Hm].
    cbn [snd] in Hm. rewrite Forall_forall in Hm. specialize (Hm _ H2). cbn [snd] in Hm.
    destruct cd as [|[card n] r]; [congruence|]. exists card, n. left. reflexivity. }
  split.
  - intros Hp. cbn [clean_entry c_direct] in Hp.
    destruct (In_remove_keys_pdict _ _ _ _ _ _ Hp Hk) as [m1 [Hp1 [Hk1 _]]].
    destruct (Hne _ _ NEd Hp1 Hk1) as (card & n & Hc).
    destruct (ED p m1 k cd card n Hp1 Hk1 Hc) as [-> Hpos]. eauto.
  - intros Hp. cbn [clean_entry c_inverse] in Hp.
    destruct (In_remove_keys_pdict _ _ _ _ _ _ Hp Hk) as [m1 [Hp1 [Hk1 _]]].
    destruct (Hne _ _ NEi Hp1 Hk1) as (card & n & Hc).
    destruct (p_inverse cfg) eqn:Ei.
    + destruct (EI eq_refl) as [EI1 _]. destruct (EI1 p m1 k cd card n Hp1 Hk1 Hc) as [-> Hpos]. eauto.
    + destruct (HB c e1 He1) as (_ & _ & RI). rewrite RI in Hp1. destruct Hp1.
Qed.

(** a class listed for a tracked node is a class key of the final profile:
    it has an instance, hence a feature, hence the cleaning keeps it *)
Lemma listed_class_kept c g I P C ID id cs cl :
  track (r_tau c) (mode_of c) (r_cap c) g = inl I ->
  profile (pcfg_of c) I g = inl (P, C, ID) ->
  In (id, cs) I -> In cl cs -> In cl (dkeys P).
Proof.
  intros HT HP Hi Hcl.
  pose proof (proj1 (track_insts_ok _ _ _ _ _ HT)) as Hn.
  destruct (profile_kept_char (pcfg_of c) I g P C ID Hn HP) as [Hk _]. apply Hk.
  assert (Hcc : In cl (List.concat (map snd I))) by exact (In_concat_map_snd I id cs cl Hi Hcl).
  split.
  - unfold class_keys. rewrite uniq_first_first_occ. apply In_first_occ. apply in_or_app. right. exact Hcc.
  - right. right. apply (tracked_has_feat_iff c g I cl HT).
    rewrite class_count_concat. apply count_str_pos. exact Hcc.
Qed.

Theorem run_profile_refs_closed c g I P C ID :
  forallb (sentinel_free (r_tau c)) g = true ->
  track (r_tau c) (mode_of c) (r_cap c) g = inl I ->
  profile (pcfg_of c) I g = inl (P, C, ID) ->
  profile_refs_closed P.
Proof.
  intros Hfree HT HP cl e k Hce (p & m & cd & Hpm & Hk) Hty.
  pose proof (proj1 (track_insts_ok _ _ _ _ _ HT)) as Hn.
  destruct (final_key_occ (pcfg_of c) I g P C ID cl e p m k cd Hn HP Hce Hk) as [HD HI].
  assert (Hocc : exists dir card, 0 < occ dir (r_tau c) I g cl p k card).
  { destruct Hpm as [H|H]; [destruct (HD H) as [card Hc]; exists Direct, card; exact Hc
                           | destruct (HI H) as [card Hc]; exists Inverse, card; exact Hc]. }
  destruct Hocc as (dir & card & Hpos).
  destruct (occ_pos_shape_key dir (r_tau c) I g cl p k card Hfree Hpos Hty) as (id & cs & c' & Hi & Hc' & ->).
  exists c'. split; [|reflexivity]. exact (listed_class_kept c g I P C ID id cs c' HT HP Hi Hc').
Qed.

(** A1 at run level: with the default shapes namespace the references of the
    returned shapes resolve *)
Theorem run_refs_closed fa c thr g ns shapes :
  forallb (sentinel_free (r_tau c)) g = true -> r_shapes_ns c = c_SHAPES_DEFAULT_NAMESPACE ->
  run_shapes fa c thr g = inl (ns, shapes) -> refs_closed shapes.
Proof.
  intros Hfree Hns H. apply run_shapes_decompose in H. destruct H as (I & P & C & ID & _ & HT & HP & HS).
  apply (shex_refs_closed fa (scfg_of c ns) thr P C shapes); [|exact Hns|exact HS].
  exact (run_profile_refs_closed c g I P C ID Hfree HT HP).
Qed.

(** ** the input predicate of C05 *)
From Shexer Require Import Model.C05Dom Spec.ShexcGrammar Proofs.WellFormedTokens Proofs.WellFormedLex
  Proofs.WellFormedProofs.

(** the class IRIs of the input: requested target classes, then the node
    objects of the typing triples; without repetition *)
Definition typing_objects (tau : str) (g : graph) : list str :=
  flat_map (fun t => if str_eqb (tp t) tau then match to t with ON o => [nid o] | OL _ _ => [] end else []) g.

Definition input_classes (c : rcfg) (g : graph) : list str :=
  uniq_first ((match r_targets c with Some l => l | None => [] end) ++ typing_objects (r_tau c) g).

(** a class IRI: a plain IRI (IRIREF characters, holds ':', does not start
    with '%', its remainder after its namespace -- if the dictionary has one
    -- is a PN_LOCAL), does not start with "@", and the label the shape gets
    ([%<shapes-namespace + local name>]) is such an IRI too *)
Definition class_ok (c : rcfg) (ns : nsdict) (cls : str) : bool :=
  plain_ok ns cls && no_at cls && label_ok ns (shape_name (r_shapes_ns c) cls).

(** a triple: its predicate is a plain IRI; the datatype of a literal object
    is; the object of a typing triple is a class IRI and (inverse paths: the
    subject is printed as a value of the typing property) its subject's
    identifier is a plain IRI *)
Definition triple_ok (c : rcfg) (ns : nsdict) (t : triple) : bool :=
  plain_ok ns (tp t) &&
  match to t with
  | OL _ dt => plain_ok ns dt
  | ON o => if str_eqb (tp t) (r_tau c)
            then class_ok c ns (nid o) && (negb (r_inverse c) || plain_ok ns (nid (ts t)))
            else true
  end.

(** everything but the conditions under which the run is total *)
Definition c05_core_ok (c : rcfg) (g : graph) : bool :=
  str_eqb (r_shapes_ns c) c_SHAPES_DEFAULT_NAMESPACE &&
  match full_ns c with
  | None => false
  | Some ns =>
    ns_ok ns && forallb (triple_ok c ns) g &&
    forallb (class_ok c ns) (match r_targets c with Some l => l | None => [] end) &&
    nodupb (map (shape_name (r_shapes_ns c)) (input_classes c g))
  end.

Definition c05_input_ok (c : rcfg) (g : graph) : bool := valid_input c g && c05_core_ok c g.

Lemma c05_core_ok_parts c g : c05_core_ok c g = true ->
  r_shapes_ns c = c_SHAPES_DEFAULT_NAMESPACE /\
  exists ns, full_ns c = Some ns /\ ns_ok ns = true /\
    (forall t, In t g -> triple_ok c ns t = true) /\
    (forall t, In t (match r_targets c with Some l => l | None => [] end) -> class_ok c ns t = true) /\
    NoDup (map (shape_name (r_shapes_ns c)) (input_classes c g)).
Proof.
  unfold c05_core_ok. intros H. apply andb_true_iff in H. destruct H as [H2 H3]. apply str_eqb_eq in H2.
  split; [exact H2|]. destruct (full_ns c) as [ns|]; [|discriminate].
  exists ns. split; [reflexivity|].
  apply andb_true_iff in H3. destruct H3 as [H3 H7]. apply andb_true_iff in H3. destruct H3 as [H3 H6].
  apply andb_true_iff in H3. destruct H3 as [H4 H5]. rewrite forallb_forall in H5, H6.
  split; [exact H4|]. split; [exact H5|]. split; [exact H6|]. apply nodupb_NoDup. exact H7.
Qed.

Lemma c05_input_ok_parts c g : c05_input_ok c g = true ->
  valid_input c g = true /\ r_shapes_ns c = c_SHAPES_DEFAULT_NAMESPACE /\
  exists ns, full_ns c = Some ns /\ ns_ok ns = true /\
    (forall t, In t g -> triple_ok c ns t = true) /\
    (forall t, In t (match r_targets c with Some l => l | None => [] end) -> class_ok c ns t = true) /\
    NoDup (map (shape_name (r_shapes_ns c)) (input_classes c g)).
Proof.
  unfold c05_input_ok. intros H. apply andb_true_iff in H. destruct H as [H1 H2].
  split; [exact H1|]. exact (c05_core_ok_parts c g H2).
Qed.

(** every class key of the profile is a class IRI of the input *)
Lemma profile_keys_input c g I P C ID ce :
  track (r_tau c) (mode_of c) (r_cap c) g = inl I ->
  profile (pcfg_of c) I g = inl (P, C, ID) ->
  In ce P -> In (fst ce) (input_classes c g).
Proof.
  intros HT HP Hce. unfold input_classes. rewrite uniq_first_first_occ. apply In_first_occ.
  apply in_or_app.
  destruct (profile_class_keys c g I P C ID HT HP ce Hce) as [H|(t & o & Hin & Htp & Hto & Hid)]; [left; exact H|].
  right. unfold typing_objects. apply in_flat_map. exists t. split; [exact Hin|].
  rewrite Htp, str_eqb_refl, Hto. left. exact Hid.
Qed.

Lemma listed_class_input c g I id cs cl :
  track (r_tau c) (mode_of c) (r_cap c) g = inl I -> In (id, cs) I -> In cl cs ->
  exists t o, In t g /\ tp t = r_tau c /\ to t = ON o /\ nid o = cl.
Proof.
  intros HT Hi Hcl. pose proof (track_classes _ _ _ _ _ HT) as Hall. rewrite Forall_forall in Hall.
  destruct (Hall (id, cs) Hi cl Hcl) as (t & o & H1 & _ & H3 & H4 & H5). exists t, o. auto.
Qed.

(** ** A3. the labels are pairwise distinct *)
Lemma NoDup_map_inj_in {A B} (f : A -> B) l x y :
  NoDup (map f l) -> In x l -> In y l -> f x = f y -> x = y.
Proof.
  induction l as [|a l IH]; cbn; intros Hn Hx Hy E; [destruct Hx|].
  inversion Hn as [|? ? Ha Hl]; subst.
  destruct Hx as [->|Hx], Hy as [->|Hy]; auto.
  - exfalso. apply Ha. rewrite E. apply in_map. exact Hy.
  - exfalso. apply Ha. rewrite <- E. apply in_map. exact Hx.
Qed.

Theorem run_labels_NoDup fa c thr g ns shapes :
  NoDup (map (shape_name (r_shapes_ns c)) (input_classes c g)) ->
  run_shapes fa c thr g = inl (ns, shapes) -> NoDup (map sh_name shapes).
Proof.
  intros Hnd H. apply run_shapes_decompose in H. destruct H as (I & P & C & ID & _ & HT & HP & HS).
  apply (shex_labels_NoDup fa (scfg_of c ns) thr P C shapes); [| |exact HS].
  - exact (P_nodup c g I P C ID HT HP).
  - cbn [x_shapes_ns scfg_of]. intros c1 c2 H1 H2 E.
    apply in_map_iff in H1. destruct H1 as [ce1 [<- H1]]. apply in_map_iff in H2. destruct H2 as [ce2 [<- H2]].
    apply (NoDup_map_inj_in (shape_name (r_shapes_ns c)) (input_classes c g)); [exact Hnd | | | exact E].
    + exact (profile_keys_input c g I P C ID ce1 HT HP H1).
    + exact (profile_keys_input c g I P C ID ce2 HT HP H2).
Qed.

(** ** A2. an invariant of the statements through the shexing stage:
    properties are plain IRIs, every statement has a type, every type is a
    value type of the domain (a plain IRI for the typing property), every
    comment is a statement comment whose token is the rendering of such a
    type.  No hypothesis on the options (disjunctions included). *)
Section StmtInv.
  Variable fa : FreqAlg.
  Variable cfg : scfg.
  Let ns := x_ns cfg.
  Let tau := x_tau cfg.

  Definition ty_ok (p k : str) : Prop := type_ok ns k = true /\ (p = tau -> plain_ok ns k = true).

  Definition cm_dom (k : comment) : Prop :=
    match k with
    | KStmt ch _ _ tk _ => if ch then tk = [] else exists ty, type_ok ns ty = true /\ tune_token ns ty = Some tk
    | KRaw _ => False
    end.

  Definition st_dom (s : stmt) : Prop :=
    plain_ok ns (s_prop s) = true /\ s_types s <> [] /\
    (forall k, In k (s_types s) -> ty_ok (s_prop s) k) /\ Forall cm_dom (s_comments s).

  Lemma s_type_In s : s_types s <> [] -> In (s_type s) (s_types s).
  Proof. unfold s_type. destruct (s_types s); [congruence | left; reflexivity]. Qed.

  Lemma comment_of_dom x k : st_dom x -> comment_of cfg x = inl k -> cm_dom k.
  Proof.
    intros (_ & Hne & Hty & _). unfold comment_of. destruct (s_choice x).
    - intros H; injection H as <-. reflexivity.
    - destruct (tune_token (x_ns cfg) (s_type x)) as [tk|] eqn:Et; [|discriminate].
      intros H; injection H as <-. cbn. exists (s_type x). split; [|exact Et].
      apply (Hty _ (s_type_In x Hne)).
  Qed.

  Lemma comments_from_dom g ks : (forall x, In x g -> st_dom x) -> comments_from cfg g ks -> Forall cm_dom ks.
  Proof.
    intros Hg Hk. unfold comments_from in Hk. rewrite Forall_forall in *. intros k Hin.
    destruct (Hk k Hin) as [x [Hx Hc]]. exact (comment_of_dom x k (Hg x Hx) Hc).
  Qed.

  Lemma st_dom_core r s ks :
    core_eq r s -> st_dom s -> s_comments r = s_comments s ++ ks -> Forall cm_dom ks -> st_dom r.
  Proof.
    intros (_ & C2 & C3 & _) (H1 & H2 & H3 & H4) Hk Hks. unfold st_dom. rewrite C2, C3, Hk.
    split; [exact H1|]. split; [exact H2|]. split; [exact H3|]. apply Forall_app. auto.
  Qed.

  Lemma chosen_dom g r : (forall x, In x g -> st_dom x) -> chosen_from cfg g r -> st_dom r.
  Proof.
    intros Hg (s & Hs & Hc & ks & Hk & Hf).
    exact (st_dom_core r s ks Hc (Hg s Hs) Hk (comments_from_dom g ks Hg Hf)).
  Qed.

  Lemma nonliteral_type_ok : type_ok ns c_NONLITERAL_ELEM_TYPE = true.
  Proof. reflexivity. Qed.

  Lemma merge_dom p cnt g r :
    p <> tau -> (forall x, In x g -> st_dom x /\ s_prop x = p) ->
    merge_group fa cfg cnt g = inl r -> st_dom r.
  Proof.
    intros Hp Hg H. apply merge_group_spec in H. destruct H as (d0 & d1 & ks & Hd & Ho & Hc & Hk & Hf).
    assert (Hg1 : forall x, In x g -> st_dom x) by (intros x Hx; apply (Hg x Hx)).
    assert (D0 : st_dom d0 /\ s_prop d0 = p).
    { destruct Hd as [d0 Hin | b i Hb Hi _ _]; [exact (Hg d0 Hin)|].
      destruct (Hg b Hb) as [(B1 & _) B2]. split; [|exact B2]. unfold st_dom. cbn.
      split; [exact B1|]. split; [discriminate|]. split; [|constructor].
      intros k [<-|[]]. split; [exact nonliteral_type_ok|]. rewrite B2. intros E. contradiction. }
    destruct D0 as [D0 E0].
    assert (D1 : st_dom d1).
    { destruct Ho as [|tys Hlen Hin Hall]; [exact D0|]. destruct D0 as (A1 & A2 & A3 & _).
      unfold st_dom. cbn. split; [exact A1|]. split; [intros E; rewrite E in Hlen; cbn in Hlen; lia|].
      split; [|constructor]. intros k Hk'. destruct (Hall k Hk') as [->|(x & Hx & _ & _ & ->)].
      - apply A3. apply s_type_In. exact A2.
      - destruct (Hg x Hx) as [(_ & X2 & X3 & _) X4]. rewrite E0, <- X4. apply X3. apply s_type_In. exact X2. }
    exact (st_dom_core r d1 ks Hc D1 Hk (comments_from_dom g ks Hg1 Hf)).
  Qed.

  Theorem select_valid_dom cnt l out :
    Forall st_dom l -> select_valid fa cfg cnt l = inl out -> Forall st_dom out.
  Proof.
    intros Hok H. rewrite select_valid_eq in H.
    destruct (group_same fa cfg (List.length l) cnt l) as [l1|e] eqn:E1; [|discriminate].
    pose proof (group_nodes_spec fa cfg _ cnt l1 out (le_n _) H) as F.
    rewrite Forall_forall in Hok.
    assert (P1 : forall r, In r l1 -> st_dom r).
    { intros r Hr. pose proof (group_same_out fa cfg _ cnt l l1 r (le_n _) E1 Hr) as Hch.
      apply (chosen_dom _ r) in Hch; [exact Hch|]. intros x Hx. apply filter_In in Hx. apply Hok, Hx. }
    apply Forall_forall. intros r Hr. destruct (ShexLemmas.Forall2_In_r _ _ _ _ F Hr) as [a [Ha Hp]].
    apply (node_heads_In cfg) in Ha. unfold node_pick in Hp.
    destruct (node_pass cfg a) eqn:Epa; [subst r; apply P1, Ha|].
    assert (Htau : s_prop a <> tau).
    { unfold node_pass in Epa. apply orb_false_iff in Epa. destruct Epa as [Epa _]. apply str_eqb_neq. exact Epa. }
    assert (Hg : forall x, In x (node_group cfg l1 a) -> st_dom x /\ s_prop x = s_prop a).
    { intros x Hx. unfold node_group in Hx. apply filter_In in Hx. destruct Hx as [H1 H2].
      apply andb_true_iff in H2. destruct H2 as [_ H2]. apply str_eqb_eq in H2. split; [apply P1, H1 | auto]. }
    destruct (node_group cfg l1 a) as [|x [|y g]] eqn:Eg; [destruct Hp| |].
    - subst r. apply Hg. left; reflexivity.
    - exact (merge_dom (s_prop a) cnt _ r Htau Hg Hp).
  Qed.

  Lemma tune_one_dom cnt s t : st_dom s -> tune_one fa cfg cnt s = inl t -> st_dom t.
  Proof.
    intros Hs H. apply tune_one_spec in H. destruct H as [s1 [Hr ->]].
    assert (D1 : st_dom s1).
    { destruct Hr as [| |k _ _ Hk]; [exact Hs | exact Hs|].
      pose proof (comment_of_dom s k Hs Hk) as Hk'. destruct Hs as (A1 & A2 & A3 & A4).
      unfold st_dom, relaxed. cbn. split; [exact A1|]. split; [exact A2|]. split; [exact A3|].
      constructor; assumption. }
    destruct (tune_post_fields cfg s1) as (T1 & _ & T3 & _). unfold sig in T1. injection T1 as _ I2 I3 _ _.
    destruct D1 as (A1 & A2 & A3 & A4). unfold st_dom. rewrite I2, I3, T3.
    split; [exact A1|]. split; [exact A2|]. split; [exact A3|].
    destruct (x_disable_comments cfg); [constructor | exact A4].
  Qed.

  (** every (property, type key) of an entry the class contributes is in the domain *)
  Definition entries_dom (ce : str * centry) : Prop :=
    forall d p k ck n, pd_entry (class_pd cfg ce d) p k ck n -> plain_ok ns p = true /\ ty_ok p k.

  Theorem shex_class_dom thr C ce sh :
    entries_dom ce -> shex_class fa cfg thr C ce = inl sh -> Forall st_dom (sh_stmts sh).
  Proof.
    intros Hok H. destruct (shex_class_unfold fa cfg thr C ce sh H) as (vd & vi & Hd & Hi & Ht & _).
    set (cnt := cnt_of C (fst ce)) in *.
    assert (Hb : forall d, Forall st_dom (dirl d (ShexKeys.class_sorted fa cfg thr cnt ce))).
    { intros d. apply Forall_forall. intros s Hs. apply dirl_In in Hs.
      destruct Hs as (p & k & ck & n & He & _ & ->). destruct (Hok d p k ck n He) as [Hp Hk].
      unfold st_dom, base_stmt. cbn. split; [exact Hp|]. split; [discriminate|]. split; [|constructor].
      intros k0 [<-|[]]. exact Hk. }
    pose proof (select_valid_dom cnt _ vd (Hb false) Hd) as Vd.
    pose proof (select_valid_dom cnt _ vi (Hb true) Hi) as Vi.
    apply tune_spec in Ht. apply Forall_forall. intros t Hin.
    destruct (ShexLemmas.Forall2_In_r _ _ _ _ Ht Hin) as [s [Hs Hone]]. apply sort_desc_In in Hs.
    apply (tune_one_dom cnt s t); [|exact Hone]. rewrite Forall_forall in Vd, Vi.
    apply in_app_or in Hs. destruct Hs as [Hs|Hs]; [apply Vd, Hs | apply Vi, Hs].
  Qed.

  Theorem shex_dom thr P C shapes :
    (forall ce, In ce P -> entries_dom ce) -> shex fa cfg thr P C = inl shapes ->
    forall sh, In sh shapes -> Forall st_dom (sh_stmts sh).
  Proof.
    intros Hok H sh Hsh. destruct (shex_unfold fa cfg thr P C shapes H) as [shapes0 [F Hc]].
    assert (G : forall sh0, In sh0 shapes0 -> Forall st_dom (sh_stmts sh0)).
    { intros sh0 H0. destruct (ShexLemmas.Forall2_In_r _ _ _ _ F H0) as [ce [Hce Hs]].
      exact (shex_class_dom thr C ce sh0 (Hok ce Hce) Hs). }
    destruct (x_remove_empty cfg).
    - destruct (clean_shapes_sub _ _ _ Hc sh Hsh) as [sh0 [H0 (_ & _ & _ & Hincl)]].
      specialize (G sh0 H0). rewrite Forall_forall in *. intros t Ht. apply G, Hincl, Ht.
    - subst shapes0. apply G; exact Hsh.
  Qed.
End StmtInv.

(** ** the tokens [tune_token] prints for types of the domain hold no line break *)
Definition not_nl (c : ascii) : bool := negb (code c =? 10)%nat.

Lemma iri_char_not_nl c : iri_char c = true -> not_nl c = true.
Proof.
  unfold iri_char, not_nl. intros H. apply andb_true_iff in H. destruct H as [H _].
  apply Nat.ltb_lt in H. apply negb_true_iff. apply Nat.eqb_neq. lia.
Qed.

Lemma pn_char_not_nl c : pn_char c = true -> not_nl c = true.
Proof.
  unfold not_nl. intros H. destruct (code c =? 10)%nat eqn:E; [|reflexivity]. apply Nat.eqb_eq in E.
  unfold pn_char, is_alpha, is_upper, is_lower, is_digit in H. rewrite E in H. discriminate H.
Qed.

Lemma forallb_impl {A} (P Q : A -> bool) l : (forall x, P x = true -> Q x = true) -> forallb P l = true -> forallb Q l = true.
Proof. intros HPQ H. rewrite forallb_forall in *. intros x Hx. apply HPQ, H, Hx. Qed.

Lemma prefixed_not_nl ns u s :
  ns_ok ns = true -> forallb not_nl u = true -> prefixed ns u s -> forallb not_nl s = true.
Proof.
  intros Hns Hu (n & p & rest & Hin & E & _ & _ & ->).
  destruct (ns_ok_entry ns n p Hns Hin) as (_ & _ & _ & Hvp).
  assert (Hp : forallb not_nl p = true) by (apply (forallb_impl pn_char); [apply pn_char_not_nl | apply valid_prefix_pn, Hvp]).
  assert (Hr : forallb not_nl rest = true) by (rewrite E, forallb_app in Hu; apply andb_true_iff in Hu; apply Hu).
  assert (Hpc : forallb not_nl (p ++ Str ":") = true) by (rewrite forallb_app, Hp; reflexivity).
  rewrite forallb_app, Hp. cbn [andb]. change (Str ":" ++ ?x) with (":"%char :: x). cbn [forallb].
  replace (not_nl ":"%char) with true by reflexivity. cbn [andb].
  apply replace_all_class; assumption.
Qed.

Lemma plain_not_nl ns u : plain_ok ns u = true -> forallb not_nl u = true.
Proof. intros H. destruct (plain_ok_parts ns u H) as [Hi _]. exact (forallb_impl _ _ u iri_char_not_nl Hi). Qed.

Lemma corners_not_nl u : forallb not_nl u = true -> forallb not_nl (Str "<" ++ u ++ Str ">") = true.
Proof. intros H. change (Str "<" ++ u ++ Str ">") with ("<"%char :: u ++ Str ">"). cbn [forallb]. rewrite forallb_app, H. reflexivity. Qed.

Lemma tune_type_not_nl ns t s :
  ns_ok ns = true -> type_ok ns t = true -> tune_token ns t = Some s -> forallb not_nl s = true.
Proof.
  intros Hns H. pose proof (ns_ok_keys ns Hns) as Hk. unfold type_ok in H. unfold tune_token.
  destruct (prefixb c_STARTING_CHAR_FOR_SHAPE_NAME t) eqn:Ep.
  - unfold label_ok in H. destruct (strip_label t) as [u|] eqn:Es; [|discriminate].
    apply strip_label_spec in Es. subst t. pose proof (plain_not_nl ns u H) as Hu.
    destruct (prefixize_shape_name_spec ns u Hk) as [s0 [E0 Hs0]].
    change (c_STARTING_CHAR_FOR_SHAPE_NAME ++ Str "<" ++ u ++ Str ">") with (Str "%<" ++ u ++ Str ">") in E0.
    rewrite E0. intros E; injection E as <-.
    change (c_SHAPE_LINK_CHAR ++ s0) with ("@"%char :: s0). cbn [forallb]. replace (not_nl "@"%char) with true by reflexivity.
    cbn [andb]. destruct Hs0 as [[_ ->]|[_ Hp]]; [apply corners_not_nl, Hu | exact (prefixed_not_nl ns u s0 Hns Hu Hp)].
  - fold kinds. destruct (mem_str t kinds) eqn:Ek.
    + intros E; injection E as <-. apply mem_str_In in Ek. cbn in Ek. destruct Ek as [<-|[<-|[<-|[]]]]; reflexivity.
    + pose proof (plain_not_nl ns t H) as Hu. destruct (plain_ok_parts ns t H) as (_ & Hc & _ & _). rewrite Hc. cbn [negb].
      destruct (prefixize_opt ns t) as [s0|] eqn:Eo.
      * intros E; injection E as <-. exact (prefixed_not_nl ns t s0 Hns Hu (prefixize_opt_spec ns t s0 Hk Eo)).
      * intros E; injection E as <-. apply corners_not_nl, Hu.
Qed.

(** the invariant gives the boolean domain of the serialiser *)
Lemma st_dom_stmt_ok cfg z s :
  z_ns z = x_ns cfg -> z_tau z = x_tau cfg -> ns_ok (x_ns cfg) = true ->
  st_dom cfg s -> stmt_ok z s = true.
Proof.
  intros Ez Et Hns (H1 & H2 & H3 & H4). unfold stmt_ok. rewrite Ez, Et, H1. cbn [andb].
  destruct (s_types s) as [|k0 r] eqn:Ety; [congruence|]. cbn [is_nil negb andb].
  apply andb_true_iff. split.
  - destruct (str_eqb (s_prop s) (x_tau cfg)) eqn:E.
    + apply str_eqb_eq in E. apply forallb_forall. intros k Hk. exact (proj2 (H3 k Hk) E).
    + apply forallb_forall. intros k Hk. exact (proj1 (H3 k Hk)).
  - apply forallb_forall. intros k Hk. rewrite Forall_forall in H4. specialize (H4 k Hk).
    destruct k as [ch pr n tk cd|]; [|destruct H4]. cbn in H4 |- *. destruct ch.
    + subst tk. reflexivity.
    + destruct H4 as (ty & Hty & Htk). exact (tune_type_not_nl (x_ns cfg) ty tk Hns Hty Htk).
Qed.

(** ** A2. the entries of the profile are in the domain when the input is *)
Lemma class_ok_parts c ns cls : class_ok c ns cls = true ->
  plain_ok ns cls = true /\ no_at cls = true /\ label_ok ns (shape_name (r_shapes_ns c) cls) = true.
Proof.
  unfold class_ok. intros H. apply andb_true_iff in H. destruct H as [H H3].
  apply andb_true_iff in H. destruct H as [H1 H2]. auto.
Qed.

Lemma label_type_ok ns k : label_ok ns k = true -> type_ok ns k = true.
Proof.
  intros H. unfold type_ok. pose proof H as H'. unfold label_ok in H'.
  destruct (strip_label k) as [u|] eqn:Es; [|discriminate]. apply strip_label_spec in Es. subst k.
  replace (prefixb c_STARTING_CHAR_FOR_SHAPE_NAME (Str "%<" ++ u ++ Str ">")) with true by reflexivity. exact H.
Qed.

Lemma kind_type_ok ns k : In k kinds -> type_ok ns k = true.
Proof. cbn. intros [<-|[<-|[<-|[]]]]; reflexivity. Qed.

Lemma plain_not_kind ns u k : plain_ok ns u = true -> In k kinds -> u <> k.
Proof.
  intros H Hk ->. destruct (plain_ok_parts ns k H) as (_ & Hc & _).
  pose proof (colon_not_kind k Hc) as E. apply mem_str_In in Hk. congruence.
Qed.

Section EntriesDom.
  Variable c : rcfg.
  Variable ns : nsdict.
  Variable g : graph.
  Variable I : insts.
  Hypothesis Hsns : r_shapes_ns c = c_SHAPES_DEFAULT_NAMESPACE.
  Hypothesis Hlist : forall id cs cl, In (id, cs) I -> In cl cs -> class_ok c ns cl = true.

  Let cfg := scfg_of c ns.

  Lemma shape_label_ty_ok id p k : p <> r_tau c -> In k (shape_labels I id) -> ty_ok cfg p k.
  Proof.
    intros Hp H. unfold shape_labels, classes_of in H. destruct (dget I id) as [cs|] eqn:E; [|destruct H].
    apply in_map_iff in H. destruct H as [cl [<- Hcl]].
    destruct (class_ok_parts c ns cl (Hlist id cs cl (DictLemmas.dget_In _ _ _ E) Hcl)) as (_ & _ & Hl).
    rewrite Hsns in Hl. split; [exact (label_type_ok ns _ Hl)|]. intros E'. contradiction.
  Qed.

  Lemma contrib_entry_dom dir t i p k :
    triple_ok c ns t = true -> (dir = Inverse -> r_inverse c = true) ->
    In k (contrib dir (r_tau c) I t i p) ->
    plain_ok ns p = true /\ ty_ok cfg p k.
  Proof.
    unfold triple_ok. intros Ht Hinv Hk. apply andb_true_iff in Ht. destruct Ht as [Hp Ho].
    assert (Hkind : forall n : node, In (elem_type n) kinds).
    { intros n. unfold elem_type. destruct (nk n); cbn; auto. }
    assert (Hplain : forall u, plain_ok ns u = true -> ty_ok cfg p u).
    { intros u Hu. split; [exact (plain_type_ok ns u Hu) | intros _; exact Hu]. }
    destruct dir; cbn [contrib] in Hk.
    - destruct (str_eqb (nid (ts t)) i && str_eqb (tp t) p) eqn:E; [|destruct Hk].
      apply andb_true_iff in E. destruct E as [_ E]. apply str_eqb_eq in E. subst p. split; [exact Hp|].
      unfold keys_direct in Hk. destruct (to t) as [o|ct dt].
      + destruct (str_eqb (tp t) (r_tau c)) eqn:Etau.
        * apply andb_true_iff in Ho. destruct Ho as [Ho _]. destruct (class_ok_parts c ns _ Ho) as (Hpo & _).
          destruct Hk as [<-|Hk]; [exact (Hplain _ Hpo)|].
          destruct (str_eqb (nid o) c_IRI_ELEM_TYPE || str_eqb (nid o) c_BNODE_ELEM_TYPE) eqn:Eq; [|destruct Hk].
          exfalso. apply orb_true_iff in Eq. destruct Eq as [Eq|Eq]; apply str_eqb_eq in Eq;
            apply (plain_not_kind ns (nid o) _ Hpo) in Eq; [exact Eq | cbn; auto | exact Eq | cbn; auto].
        * apply str_eqb_neq in Etau. destruct Hk as [<-|Hk].
          -- split; [exact (kind_type_ok ns _ (Hkind o))|]. intros E'. contradiction.
          -- exact (shape_label_ty_ok _ _ k Etau Hk).
      + destruct (str_eqb (tp t) (r_tau c)); [destruct Hk|]. destruct Hk as [<-|[]]. exact (Hplain _ Ho).
    - destruct (to t) as [o|ct dt]; [|destruct Hk].
      destruct (str_eqb (nid o) i && str_eqb (tp t) p) eqn:E; [|destruct Hk].
      apply andb_true_iff in E. destruct E as [_ E]. apply str_eqb_eq in E. subst p. split; [exact Hp|].
      unfold keys_inverse in Hk. destruct (str_eqb (tp t) (r_tau c)) eqn:Etau.
      + apply andb_true_iff in Ho. destruct Ho as [_ Ho]. rewrite (Hinv eq_refl) in Ho. cbn in Ho.
        destruct Hk as [<-|Hk]; [exact (Hplain _ Ho)|].
        destruct (str_eqb (nid (ts t)) c_IRI_ELEM_TYPE) eqn:Eq; [|destruct Hk].
        exfalso. apply str_eqb_eq in Eq. apply (plain_not_kind ns _ _ Ho) in Eq; [exact Eq | cbn; auto].
      + apply str_eqb_neq in Etau. destruct Hk as [<-|Hk].
        * split; [exact (kind_type_ok ns _ (Hkind (ts t)))|]. intros E'. contradiction.
        * destruct (nk (ts t)); [exact (shape_label_ty_ok _ _ k Etau Hk) | destruct Hk].
  Qed.

  Lemma occ_pos_entry_dom dir cls p k card :
    (forall t, In t g -> triple_ok c ns t = true) -> (dir = Inverse -> r_inverse c = true) ->
    0 < occ dir (r_tau c) I g cls p k card -> plain_ok ns p = true /\ ty_ok cfg p k.
  Proof.
    intros Hg Hinv Hpos.
    destruct (proj1 (occ_pos_iff dir (r_tau c) I g cls p k) (ex_intro _ card Hpos)) as (i & cs & _ & _ & Hc).
    unfold cnt in Hc. apply sumN_pos_ex in Hc. destruct Hc as [x [Hx Hx0]].
    apply in_map_iff in Hx. destruct Hx as [t [<- Ht]].
    rewrite count_in_count_str in Hx0. apply count_str_pos in Hx0.
    exact (contrib_entry_dom dir t i p k (Hg t Ht) Hinv Hx0).
  Qed.
End EntriesDom.

Theorem run_entries_dom c g ns I P C ID :
  r_shapes_ns c = c_SHAPES_DEFAULT_NAMESPACE ->
  (forall t, In t g -> triple_ok c ns t = true) ->
  track (r_tau c) (mode_of c) (r_cap c) g = inl I ->
  profile (pcfg_of c) I g = inl (P, C, ID) ->
  forall ce, In ce P -> entries_dom (scfg_of c ns) ce.
Proof.
  intros Hsns Hg HT HP ce Hce d p k ck n He.
  destruct (pd_entry_occ c g ns I P C ID HT HP ce d p k ck n Hce He) as (En & Hpos & Hinv). rewrite En in Hpos.
  apply (occ_pos_entry_dom c ns g I Hsns) with (dir := dir_of d) (cls := fst ce) (card := ck); [|exact Hg| |exact Hpos].
  - intros id cs cl Hi Hcl. destruct (listed_class_input c g I id cs cl HT Hi Hcl) as (t & o & Hin & Htp & Hto & Hid).
    specialize (Hg t Hin). unfold triple_ok in Hg. rewrite Htp, str_eqb_refl, Hto, Hid in Hg.
    apply andb_true_iff in Hg. destruct Hg as [_ Hg]. apply andb_true_iff in Hg. apply Hg.
  - intros E. destruct d; [apply Hinv; reflexivity | discriminate E].
Qed.

(** ** A2 + A1 + A3 at run level, and the headline *)
Theorem run_C05_dom_core fa c thr g ns shapes :
  forallb (sentinel_free (r_tau c)) g = true -> c05_core_ok c g = true ->
  run_shapes fa c thr g = inl (ns, shapes) ->
  C05_dom (z_of c ns) shapes = true /\ WellFormedProofs.refs_closed shapes /\ NoDup (map sh_name shapes).
Proof.
  intros Hfree Hok H. destruct (c05_core_ok_parts c g Hok) as (Hsns & ns0 & Hfull & Hns & Hg & Htg & Hnd).
  pose proof H as H0. apply run_shapes_decompose in H0. destruct H0 as (I & P & C & ID & Hfull' & HT & HP & HS).
  assert (ns0 = ns) by congruence. subst ns0.
  split; [|split].
  - unfold C05_dom. cbn [z_ns z_of]. rewrite Hns. cbn [andb]. apply forallb_forall. intros sh Hsh.
    unfold shape_ok. cbn [z_ns z_of]. apply andb_true_iff. split.
    + destruct (K3 fa (scfg_of c ns) thr P C shapes HS sh Hsh) as (ce & Hce & Hn & _).
      rewrite Hn. cbn [x_shapes_ns scfg_of].
      assert (Hc : class_ok c ns (fst ce) = true).
      { destruct (profile_class_keys c g I P C ID HT HP ce Hce) as [Hin|(t & o & Hin & Htp & Hto & Hid)]; [exact (Htg _ Hin)|].
        specialize (Hg t Hin). unfold triple_ok in Hg. rewrite Htp, str_eqb_refl, Hto, Hid in Hg.
        apply andb_true_iff in Hg. destruct Hg as [_ Hg]. apply andb_true_iff in Hg. apply Hg. }
      apply (class_ok_parts c ns _ Hc).
    + apply forallb_forall. intros st Hst.
      pose proof (shex_dom fa (scfg_of c ns) thr P C shapes
                    (run_entries_dom c g ns I P C ID Hsns Hg HT HP) HS sh Hsh) as Hall.
      rewrite Forall_forall in Hall.
      apply (st_dom_stmt_ok (scfg_of c ns) (z_of c ns) st); [reflexivity | reflexivity | exact Hns | exact (Hall st Hst)].
  - exact (run_refs_closed fa c thr g ns shapes Hfree Hsns H).
  - exact (run_labels_NoDup fa c thr g ns shapes Hnd H).
Qed.

Lemma valid_input_sentinel_free c g : valid_input c g = true -> forallb (sentinel_free (r_tau c)) g = true.
Proof.
  unfold valid_input. intros Hval. apply andb_true_iff in Hval. destruct Hval as [Hval _].
  apply andb_true_iff in Hval. destruct Hval as [Hval _]. apply andb_true_iff in Hval. apply Hval.
Qed.

Theorem run_C05_dom fa c thr g ns shapes :
  c05_input_ok c g = true -> run_shapes fa c thr g = inl (ns, shapes) ->
  C05_dom (z_of c ns) shapes = true /\ WellFormedProofs.refs_closed shapes /\ NoDup (map sh_name shapes).
Proof.
  unfold c05_input_ok. intros Hok H. apply andb_true_iff in Hok. destruct Hok as [Hval Hcore].
  exact (run_C05_dom_core fa c thr g ns shapes (valid_input_sentinel_free c g Hval) Hcore H).
Qed.

Theorem run_wellformed fa c thr g :
  c05_input_ok c g = true ->
  exists text, run_shexc fa c thr g = inl text /\ recognise text = true /\ wellformed_closed text = true.
Proof.
  intros Hok. destruct (c05_input_ok_parts c g Hok) as (Hval & _).
  destruct (run_total fa c thr g Hval) as (ns & shapes & Hr).
  destruct (run_C05_dom fa c thr g ns shapes Hok Hr) as (Hd & Hrc & Hnd).
  destruct (run_wellformed_closed fa c thr g ns shapes Hr Hd Hrc Hnd) as [text [Ht Hw]].
  destruct (run_recognised fa c thr g ns shapes Hr Hd) as [text' [Ht' Hrec]].
  assert (text' = text) by congruence. subst text'. exists text. auto.
Qed.

(** binary64, thresholds <= 1, fewer than 2^53 triples: ANY setting of the
    options (disjunctions enabled together with remove_empty_shapes too: no
    shape is empty, the shape-level cleaning that could fail is the identity) *)
Definition c05_input_ok_le1 (c : rcfg) (g : graph) : bool :=
  typing_okb (r_tau c) g && forallb (sentinel_free (r_tau c)) g && c05_core_ok c g.

Lemma core_class_iris_ok c g : c05_core_ok c g = true -> class_iris_ok c g = true.
Proof.
  intros H. destruct (c05_core_ok_parts c g H) as (_ & ns & _ & _ & Hg & Htg & _).
  assert (Hc : forall cls, class_ok c ns cls = true -> no_at cls && no_sentinel cls = true).
  { intros cls Hc. destruct (class_ok_parts c ns cls Hc) as (Hp & Ha & _). rewrite Ha. cbn [andb].
    destruct (plain_ok_parts ns cls Hp) as (_ & _ & Hs & _). unfold no_sentinel. rewrite Hs. reflexivity. }
  unfold class_iris_ok. apply andb_true_iff. split; apply forallb_forall.
  - intros t Ht. specialize (Hg t Ht). unfold triple_ok in Hg. unfold class_key_ok.
    destruct (str_eqb (tp t) (r_tau c)); [|reflexivity]. cbn [negb orb].
    destruct (to t) as [o|? ?]; [|reflexivity]. apply Hc.
    apply andb_true_iff in Hg. destruct Hg as [_ Hg]. apply andb_true_iff in Hg. apply Hg.
  - intros t Ht. apply Hc, Htg, Ht.
Qed.

Theorem run_wellformed_le1 c thr g :
  c05_input_ok_le1 c g = true ->
  wf_frac thr -> fle BAlg thr (fone BAlg) = true -> N.of_nat (List.length g) < 2 ^ 53 ->
  exists text, run_shexc BAlg c thr g = inl text /\ recognise text = true /\ wellformed_closed text = true.
Proof.
  unfold c05_input_ok_le1. intros Hok Hw Hle Hg. apply andb_true_iff in Hok. destruct Hok as [Hok Hcore].
  apply andb_true_iff in Hok. destruct Hok as [Hty Hfree].
  assert (Hpf : prefix_free c = true).
  { destruct (c05_core_ok_parts c g Hcore) as (_ & ns & Hfull & _). unfold prefix_free. unfold full_ns in Hfull.
    destruct (shapes_prefix (r_ns c)); [reflexivity | discriminate]. }
  destruct (run_total_valid c thr g Hw Hle Hg) as (ns & shapes & Hr).
  { rewrite Hty, Hfree, Hpf, (core_class_iris_ok c g Hcore). reflexivity. }
  destruct (run_C05_dom_core BAlg c thr g ns shapes Hfree Hcore Hr) as (Hd & Hrc & Hnd).
  destruct (run_wellformed_closed BAlg c thr g ns shapes Hr Hd Hrc Hnd) as [text [Ht Hw']].
  destruct (run_recognised BAlg c thr g ns shapes Hr Hd) as [text' [Ht' Hrec]].
  assert (text' = text) by congruence. subst text'. exists text. auto.
Qed.

(** ** C. the value class "non-literal": union count

    [has_node_value dir g i p]: node [i] has a value of [p] that is an IRI or
    a blank node (direct: some triple [i p o] with a node object; inverse:
    some triple [s p i]).  [nonlit_count]: the number of listings of
    instances of the class with such a value -- what the property asks for. *)
Definition has_node_value (dir : direction) (g : graph) (i p : str) : bool :=
  existsb (fun t => touches dir t i && str_eqb (tp t) p && is_node (to t)) g.

Definition nonlit_count (dir : direction) (I : insts) (g : graph) (cls p : str) : N :=
  sumN (map (fun ie : str * list str =>
               if has_node_value dir g (fst ie) p then count_in cls (snd ie) else 0) I).

(** no literal carries a datatype that reads as a non-literal kind ("IRI",
    "BNode", "NONLITERAL", or a string starting with the label sentinel) *)
Definition datatypes_literal (g : graph) : Prop :=
  forall t l dt, In t g -> to t = OL l dt -> nonlit_kind dt = false.

Lemma elem_type_kind (n : node) : elem_type n = c_IRI_ELEM_TYPE \/ elem_type n = c_BNODE_ELEM_TYPE.
Proof. unfold elem_type. destruct (nk n); auto. Qed.

(** a node value is counted under its kind *)
Lemma node_value_kind dir tau I g i p :
  p <> tau -> has_node_value dir g i p = true ->
  0 < cnt dir tau I g i p c_IRI_ELEM_TYPE \/ 0 < cnt dir tau I g i p c_BNODE_ELEM_TYPE.
Proof.
  intros Hp H. unfold has_node_value in H. apply existsb_exists in H. destruct H as [t [Ht H]].
  apply andb_true_iff in H. destruct H as [H Hn]. apply andb_true_iff in H. destruct H as [Hto Hpp].
  apply str_eqb_eq in Hpp. apply str_eqb_neq in Hp.
  assert (G : forall k, (exists r, contrib dir tau I t i p = k :: r) -> 0 < cnt dir tau I g i p k).
  { intros k [r E]. apply (cnt_pos_of_In dir tau I g i p k t Ht). rewrite E. cbn [count_in]. rewrite str_eqb_refl. lia. }
  assert (E : exists n r, contrib dir tau I t i p = elem_type n :: r).
  { destruct dir; cbn [touches contrib] in *.
    - rewrite Hto, Hpp, str_eqb_refl. cbn [andb]. unfold keys_direct. destruct (to t) as [o|? ?]; [|discriminate].
      rewrite Hpp, Hp. eexists; eexists; reflexivity.
    - destruct (to t) as [o|? ?]; [|discriminate]. rewrite Hto, Hpp, str_eqb_refl. cbn [andb]. unfold keys_inverse.
      rewrite Hpp, Hp. eexists; eexists; reflexivity. }
  destruct E as (n & r & E). destruct (elem_type_kind n) as [Ek|Ek]; rewrite Ek in E; [left | right]; apply G; eauto.
Qed.

(** a key of a non-literal kind is contributed by a node value only *)
Lemma kind_node_value dir tau I g i p k :
  datatypes_literal g -> p <> tau -> nonlit_kind k = true -> 0 < cnt dir tau I g i p k ->
  has_node_value dir g i p = true.
Proof.
  intros Hd Hp Hk Hc. unfold cnt in Hc. apply sumN_pos_ex in Hc. destruct Hc as [x [Hx Hx0]].
  apply in_map_iff in Hx. destruct Hx as [t [<- Ht]]. apply In_count_in in Hx0.
  unfold has_node_value. apply existsb_exists. exists t. split; [exact Ht|]. cbn beta.
  destruct dir; cbn [touches contrib] in *.
  - destruct (str_eqb (nid (ts t)) i && str_eqb (tp t) p) eqn:E; [|destruct Hx0]. cbn [andb].
    apply andb_true_iff in E. destruct E as [_ E]. apply str_eqb_eq in E.
    destruct (to t) as [o|l dt] eqn:Eo; [reflexivity|]. exfalso. unfold keys_direct in Hx0. rewrite Eo in Hx0.
    destruct (str_eqb (tp t) tau); [destruct Hx0|]. destruct Hx0 as [<-|[]].
    rewrite (Hd t l dt Ht Eo) in Hk. discriminate.
  - destruct (to t) as [o|l dt]; [|destruct Hx0].
    destruct (str_eqb (nid o) i && str_eqb (tp t) p) eqn:E; [|destruct Hx0]. reflexivity.
Qed.

Lemma occ_plus_unfold dir tau I g cls p k :
  p <> tau ->
  occ dir tau I g cls p k CKplus =
  sumN (map (fun ie : str * list str => if 0 <? cnt dir tau I g (fst ie) p k then count_in cls (snd ie) else 0) I).
Proof.
  intros Hp. unfold occ. apply sumN_map_ext. intros ie _. unfold card_ok.
  apply str_eqb_neq in Hp. rewrite Hp, andb_true_r. reflexivity.
Qed.

(** references and kinds never exceed the union *)
Lemma occ_nonlit_le_union dir tau I g cls p k ck :
  datatypes_literal g -> p <> tau -> nonlit_kind k = true ->
  occ dir tau I g cls p k ck <= nonlit_count dir I g cls p.
Proof.
  intros Hd Hp Hk. unfold occ, nonlit_count. apply sumN_le_pointwise. intros [i cs] _. cbn [fst snd].
  destruct (card_ok tau p ck (cnt dir tau I g i p k)) eqn:E; [|lia].
  apply card_ok_pos in E. rewrite (kind_node_value dir tau I g i p k Hd Hp Hk E). lia.
Qed.

(** nestedness of the IRI-valued and the BNode-valued instances of a class *)
Definition kind_within (dir : direction) (tau : str) (I : insts) (g : graph) (cls p k1 k2 : str) : Prop :=
  forall i cs, In (i, cs) I -> In cls cs -> 0 < cnt dir tau I g i p k1 -> 0 < cnt dir tau I g i p k2.

Definition kinds_nested (dir : direction) (tau : str) (I : insts) (g : graph) (cls p : str) : Prop :=
  kind_within dir tau I g cls p c_IRI_ELEM_TYPE c_BNODE_ELEM_TYPE \/
  kind_within dir tau I g cls p c_BNODE_ELEM_TYPE c_IRI_ELEM_TYPE.

Lemma union_is_larger_kind dir tau I g cls p k1 k2 :
  datatypes_literal g -> p <> tau ->
  ((k1 = c_IRI_ELEM_TYPE /\ k2 = c_BNODE_ELEM_TYPE) \/ (k1 = c_BNODE_ELEM_TYPE /\ k2 = c_IRI_ELEM_TYPE)) ->
  kind_within dir tau I g cls p k1 k2 ->
  nonlit_count dir I g cls p = occ dir tau I g cls p k2 CKplus.
Proof.
  intros Hd Hp Hk Hw. rewrite (occ_plus_unfold dir tau I g cls p k2 Hp). unfold nonlit_count.
  apply sumN_map_ext. intros [i cs] Hin. cbn [fst snd].
  assert (Hk2 : nonlit_kind k2 = true) by (destruct Hk as [[_ ->]|[_ ->]]; reflexivity).
  destruct (0 <? cnt dir tau I g i p k2) eqn:E2.
  - apply N.ltb_lt in E2. rewrite (kind_node_value dir tau I g i p k2 Hd Hp Hk2 E2). reflexivity.
  - destruct (has_node_value dir g i p) eqn:Eh; [|reflexivity].
    rewrite count_in_count_str. apply count_str_zero. intros Hcls.
    apply N.ltb_ge in E2. destruct (node_value_kind dir tau I g i p Hp Eh) as [H|H].
    + destruct Hk as [[-> ->]|[-> ->]]; [specialize (Hw i cs Hin Hcls H); lia | lia].
    + destruct Hk as [[-> ->]|[-> ->]]; [lia | specialize (Hw i cs Hin Hcls H); lia].
Qed.

(** C02_nonliteral_nested: the largest count among the non-literal kinds is
    the number of instances with a non-literal value *)
Theorem nonliteral_max_is_union dir tau I g cls p :
  datatypes_literal g -> p <> tau -> kinds_nested dir tau I g cls p ->
  (exists k0, (k0 = c_IRI_ELEM_TYPE \/ k0 = c_BNODE_ELEM_TYPE) /\
              occ dir tau I g cls p k0 CKplus = nonlit_count dir I g cls p) /\
  (forall k ck, nonlit_kind k = true -> occ dir tau I g cls p k ck <= nonlit_count dir I g cls p).
Proof.
  intros Hd Hp Hn. split; [|intros k ck Hk; exact (occ_nonlit_le_union dir tau I g cls p k ck Hd Hp Hk)].
  destruct Hn as [Hw|Hw].
  - exists c_BNODE_ELEM_TYPE. split; [right; reflexivity|]. symmetry.
    apply (union_is_larger_kind dir tau I g cls p c_IRI_ELEM_TYPE c_BNODE_ELEM_TYPE Hd Hp); auto.
  - exists c_IRI_ELEM_TYPE. split; [left; reflexivity|]. symmetry.
    apply (union_is_larger_kind dir tau I g cls p c_BNODE_ELEM_TYPE c_IRI_ELEM_TYPE Hd Hp); auto.
Qed.

Lemma value_class_nonlit tau p k : p <> tau -> (value_class tau p [k] = VNonLit <-> nonlit_kind k = true).
Proof.
  intros Hp. apply str_eqb_neq in Hp. unfold value_class. rewrite Hp.
  destruct (nonlit_kind k); split; intros H; try reflexivity; discriminate H.
Qed.

(** the "largest count passes" form, for the non-literal value class, is
    "the union count passes" *)
Theorem key_passes_occ_max_union fa c (thr : F fa) I g cls inv p :
  datatypes_literal g -> p <> r_tau c -> kinds_nested (dir_of inv) (r_tau c) I g cls p ->
  (key_passes_occ_max fa c thr I g cls inv p VNonLit <->
   (inv = true -> r_inverse c = true) /\
   0 < nonlit_count (dir_of inv) I g cls p /\
   fle fa thr (ratio fa (nonlit_count (dir_of inv) I g cls p) (class_count I cls)) = true).
Proof.
  intros Hd Hp Hn.
  destruct (nonliteral_max_is_union (dir_of inv) (r_tau c) I g cls p Hd Hp Hn) as [(k0 & Hk0 & E0) Hle].
  assert (V0 : value_class (r_tau c) p [k0] = VNonLit).
  { apply (value_class_nonlit _ _ _ Hp). destruct Hk0 as [->| ->]; reflexivity. }
  split.
  - intros (Hi & k & ck & Hv & Hpos & Hmax & Hf). split; [exact Hi|].
    assert (E : occ (dir_of inv) (r_tau c) I g cls p k ck = nonlit_count (dir_of inv) I g cls p).
    { apply N.le_antisymm.
      - apply Hle. apply (value_class_nonlit _ _ _ Hp). exact Hv.
      - rewrite <- E0. apply Hmax. exact V0. }
    rewrite <- E. auto.
  - intros (Hi & Hpos & Hf). split; [exact Hi|]. exists k0, CKplus. rewrite E0.
    split; [exact V0|]. split; [exact Hpos|]. split; [|exact Hf].
    intros k' ck' Hv'. apply Hle. apply (value_class_nonlit _ _ _ Hp). exact Hv'.
Qed.

(** C02_keys_iff_union (binary64, empty shapes kept) *)
Theorem e2e_keys_iff_union c thr g ns shapes :
  r_remove_empty c = false -> wf_frac thr -> datatypes_literal g ->
  run_shapes BAlg c thr g = inl (ns, shapes) ->
  exists I, track (r_tau c) (mode_of c) (r_cap c) g = inl I /\
    forall sh, In sh shapes -> class_count I (sh_class sh) < 2 ^ 53 ->
    forall inv p, p <> r_tau c -> kinds_nested (dir_of inv) (r_tau c) I g (sh_class sh) p ->
      (In (inv, p, VNonLit) (map (skey (scfg_of c ns)) (sh_stmts sh)) <->
       (inv = true -> r_inverse c = true) /\
       0 < nonlit_count (dir_of inv) I g (sh_class sh) p /\
       fle BAlg thr (ratio BAlg (nonlit_count (dir_of inv) I g (sh_class sh) p) (class_count I (sh_class sh))) = true).
Proof.
  intros Hre Hw Hd H. destruct (e2e_keys_max_B c thr g ns shapes Hre Hw H) as (I & HT & HK).
  exists I. split; [exact HT|]. intros sh Hsh Hlt inv p Hp Hn.
  rewrite (HK sh Hsh Hlt inv p VNonLit). exact (key_passes_occ_max_union BAlg c thr I g (sh_class sh) inv p Hd Hp Hn).
Qed.

(** the same from [key_passes_occ] (some count passes), with the laws of the
    frequency algebra: usable with remove_empty_shapes on (part B) *)
Section UnionLaws.
  Variable fa : FreqAlg.
  Variables (okN : N -> Prop) (okF : F fa -> Prop).
  Hypothesis L : FreqLaws fa okN okF.

  Theorem key_passes_occ_union c (thr : F fa) I g cls inv p :
    okF thr -> okN (class_count I cls) ->
    datatypes_literal g -> p <> r_tau c -> kinds_nested (dir_of inv) (r_tau c) I g cls p ->
    (key_passes_occ fa c thr I g cls inv p VNonLit <->
     (inv = true -> r_inverse c = true) /\
     0 < nonlit_count (dir_of inv) I g cls p /\
     fle fa thr (ratio fa (nonlit_count (dir_of inv) I g cls p) (class_count I cls)) = true).
  Proof.
    intros Ht HN Hd Hp Hn.
    destruct (nonliteral_max_is_union (dir_of inv) (r_tau c) I g cls p Hd Hp Hn) as [(k0 & Hk0 & E0) Hle].
    split.
    - intros (Hi & k & ck & Hv & Hpos & Hf). split; [exact Hi|].
      assert (Hk : occ (dir_of inv) (r_tau c) I g cls p k ck <= nonlit_count (dir_of inv) I g cls p).
      { apply Hle. apply (value_class_nonlit _ _ _ Hp). exact Hv. }
      split; [lia|].
      apply (fle_trans _ _ _ L thr (ratio fa (occ (dir_of inv) (r_tau c) I g cls p k ck) (class_count I cls)));
        [exact Ht | apply (ratio_wf _ _ _ L); exact HN | apply (ratio_wf _ _ _ L); exact HN | exact Hf|].
      apply (ratio_mono _ _ _ L); assumption.
    - intros (Hi & Hpos & Hf). split; [exact Hi|]. exists k0, CKplus. rewrite E0.
      split; [|auto]. apply (value_class_nonlit _ _ _ Hp). destruct Hk0 as [->| ->]; reflexivity.
  Qed.
End UnionLaws.

(** remove_empty_shapes on, all-classes mode, binary64, thresholds <= 1 *)
Theorem e2e_keys_iff_union_remove c thr g ns shapes :
  r_remove_empty c = true -> r_targets c = None -> class_iris_ok c g = true ->
  wf_frac thr -> fle BAlg thr (fone BAlg) = true -> N.of_nat (List.length g) < 2 ^ 53 ->
  datatypes_literal g ->
  run_shapes BAlg c thr g = inl (ns, shapes) ->
  exists I, track (r_tau c) (mode_of c) (r_cap c) g = inl I /\
    forall sh, In sh shapes ->
    forall inv p, p <> r_tau c -> kinds_nested (dir_of inv) (r_tau c) I g (sh_class sh) p ->
      (In (inv, p, VNonLit) (map (skey (scfg_of c ns)) (sh_stmts sh)) <->
       (inv = true -> r_inverse c = true) /\
       0 < nonlit_count (dir_of inv) I g (sh_class sh) p /\
       fle BAlg thr (ratio BAlg (nonlit_count (dir_of inv) I g (sh_class sh) p) (class_count I (sh_class sh))) = true).
Proof.
  intros Hre Hnone Hcls Hw Hle Hg Hd H.
  destruct (e2e_keys_iff_occ_remove c thr g ns shapes Hre Hcls Hw Hle Hg H) as (I & HT & _ & Hsh & Hall).
  exists I. split; [exact HT|]. intros sh Hin inv p Hp Hn.
  assert (Etg : targets_of (pcfg_of c) = []) by (unfold targets_of; cbn [p_targets pcfg_of]; rewrite Hnone; reflexivity).
  rewrite Etg in Hall. rewrite (Hall (fun t (Ht : In t []) => match Ht with end) sh Hin inv p VNonLit).
  apply (key_passes_occ_union BAlg okN53 wf_frac BAlg_laws c thr I g (sh_class sh) inv p Hw); [|exact Hd|exact Hp|exact Hn].
  destruct (Hsh sh Hin) as (En & Hpos & _). rewrite En in Hpos. split; [exact Hpos|].
  pose proof (class_count_le_graph _ _ _ _ _ (sh_class sh) HT). lia.
Qed.
