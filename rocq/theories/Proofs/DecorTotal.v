(** * The shape-example line cannot make a run fail once
    [ShexSerializer._serialize_example] carries the [candidate is None] guard
    ([Gen/Consts.v: c_example_none_guard = true]; finding C17-F4 repaired).

    - every shape of [run_shapes] belongs to a class of [_class_counts]
      (Proofs/EndToEnd.v, Proofs/ProfileChar.v), and [complete_features] gives
      each of those an entry: the serialiser's [shape_example] never answers
      [False], and a [None] is answered with "no example";
    - hence with examples_mode 'shape' (no constraint examples, no stems) the
      decorated run prints whenever the plain run does: the converse of
      [Props/C17.v: C17_F4_refuted]. *)
From Coq Require Import List Ascii String ZArith NArith Bool Lia.
From Shexer Require Import Lib.PyStr Lib.Dict Gen.Consts Spec.Rdf Model.Tracker Model.Profiler
     Model.Tokens Model.Freq Model.Shexing Model.SerialShexc Model.Run Model.MinIri Model.Examples
     Model.RunDecor Model.DecorDom Spec.DecorSpec Spec.MinIriSpec Proofs.ExamplesProofs Proofs.DecorProofs.
From Shexer Require Proofs.EndToEnd Proofs.ProfileChar.
Import ListNotations.

(** ** [complete_features] gives every class of the counts an entry *)
Lemma complete_step_ent d k c : dget d c <> None -> dget (complete_step d k) c <> None.
Proof.
  intros H. unfold complete_step. destruct (str_eq_dec c k) as [-> | N].
  - destruct (dget d k) as [e|] eqn:G; [|congruence].
    destruct (e_min_iri e); [congruence|]. rewrite set_min_same. discriminate.
  - destruct (dget d k) as [e|]; [destruct (e_min_iri e); [exact H|]|]; rewrite set_min_other; assumption.
Qed.

Lemma complete_step_self d k : dget (complete_step d k) k <> None.
Proof.
  unfold complete_step. destruct (dget d k) as [e|] eqn:G.
  - destruct (e_min_iri e); [congruence|]. rewrite set_min_same. discriminate.
  - rewrite set_min_same. discriminate.
Qed.

Lemma complete_has_ent C d c : In c (dkeys C) -> dget (complete_features C d) c <> None.
Proof.
  rewrite complete_features_fold.
  assert (G : forall ks d, dget d c <> None \/ In c ks -> dget (fold_left complete_step ks d) c <> None).
  { induction ks as [|k ks IH]; intros d0 H; cbn [fold_left].
    - destruct H as [H | []]. exact H.
    - apply IH. destruct H as [H | [-> | H]].
      + left. now apply complete_step_ent.
      + left. apply complete_step_self.
      + now right. }
  intros H. apply G. now right.
Qed.

(** ** the data of a run that computes its shapes *)
Lemma run_decor_data_of_shapes fa c dmi mode thr g ns shapes :
  run_shapes fa c thr g = inl (ns, shapes) ->
  exists ins P C ID d0,
    track (r_tau c) (tmode_of c) (r_cap c) g = inl ins /\
    profile (pcfg_of c) ins g = inl (P, C, ID) /\
    shex fa (scfg_of c ns) thr P C = inl shapes /\
    profile_examples dmi mode (r_inverse c) ins g = Some d0 /\
    run_decor_data c dmi mode g =
    Some (ins, if dmi || wants_shape_examples mode then complete_features C d0 else d0).
Proof.
  intros H. apply EndToEnd.run_shapes_decompose in H. destruct H as (ins & P & C & ID & _ & HT & HP & HS).
  destruct (profile_examples_total ins g dmi mode (r_inverse c)) as [d0 E].
  exists ins, P, C, ID, d0. change (EndToEnd.mode_of c) with (tmode_of c) in HT.
  split; [exact HT|]. split; [exact HP|]. split; [exact HS|]. split; [exact E|].
  unfold run_decor_data, decor_dict. rewrite HT, HP, E. reflexivity.
Qed.

(** every printed shape's class has an entry as soon as shape examples are wanted *)
Lemma run_shape_class_known fa c dmi mode thr g ns shapes ins d :
  run_shapes fa c thr g = inl (ns, shapes) ->
  run_decor_data c dmi mode g = Some (ins, d) ->
  dmi || wants_shape_examples mode = true ->
  forall sh, In sh shapes -> dget d (sh_class sh) <> None.
Proof.
  intros Hr Hd W sh Hsh.
  destruct (run_decor_data_of_shapes fa c dmi mode thr g ns shapes Hr) as (ins' & P & C & ID & d0 & HT & HP & HS & _ & Hd').
  rewrite Hd' in Hd. rewrite W in Hd. injection Hd as <- <-.
  apply complete_has_ent.
  change (tmode_of c) with (EndToEnd.mode_of c) in HT.
  destruct (EndToEnd.composed_shape fa c g ns ins' P C ID HT HP thr shapes HS sh Hsh) as (Hk & _).
  destruct (ProfileChar.profile_final_char _ _ _ _ _ _ (EndToEnd.I_nodup c g ins' HT) HP) as (_ & _ & _ & HC & _).
  rewrite HC. exact Hk.
Qed.

(** with the guard, [_serialize_example] raises for no shape of any run *)
Theorem run_example_text_total fa c dmi mode thr g ns shapes ins d :
  c_example_none_guard = true ->
  run_shapes fa c thr g = inl (ns, shapes) ->
  run_decor_data c dmi mode g = Some (ins, d) ->
  forall sh, In sh shapes ->
    exists ex, example_text (zcfg_of c ns) {| d_dmi := dmi; d_mode := mode; d_inverse := r_inverse c |} d sh = inl ex.
Proof.
  intros G Hr Hd sh Hsh.
  destruct (in_modes mode c17d_modes_shape_example) eqn:M.
  - apply example_text_total_guard; [exact G|].
    apply (run_shape_class_known fa c dmi mode thr g ns shapes ins d Hr Hd); [|exact Hsh].
    rewrite (in_modes_shape_wants _ M). apply orb_true_r.
  - unfold example_text. cbn [d_mode]. rewrite M. eauto.
Qed.

(** ** shape examples only: the decorated run prints whenever the plain run does *)
Lemma shapes_lines_decor_shape_only z dc d shapes :
  d_dmi dc = false -> in_modes (d_mode dc) c17d_modes_cons_example = false ->
  (forall sh, In sh shapes -> exists ex, example_text z dc d sh = inl ex) ->
  forall ls, shapes_lines z shapes = Some ls -> exists ls', shapes_lines_decor z dc d shapes = inl ls'.
Proof.
  intros Hm Hc. induction shapes as [|sh shapes IH]; intros Hex ls H.
  - cbn. eauto.
  - cbn [shapes_lines] in H. cbn [shapes_lines_decor].
    destruct (shape_lines z sh [] []) as [a|] eqn:Ea; [|discriminate].
    destruct (shapes_lines z shapes) as [b|] eqn:Eb; [|discriminate].
    destruct (IH (fun s Hs => Hex s (or_intror Hs)) b eq_refl) as [b' ->].
    destruct (Hex sh (or_introl eq_refl)) as [ex Ex].
    unfold shape_lines in Ea. unfold shape_lines_decor, min_iri_text, decorate_stmts. rewrite Hm, Hc, Ex.
    destruct (prefixize_shape_name (z_ns z) (sh_name sh)); [|discriminate].
    destruct (statements_lines z (sh_n sh) (sh_stmts sh)); [|discriminate].
    eauto.
Qed.

Theorem run_shape_examples_total fa c mode thr g t :
  c_example_none_guard = true ->
  in_modes mode c17d_modes_cons_example = false ->
  run_shexc fa c thr g = inl t ->
  exists t', run_shexc_decor fa c false mode thr g = inl t'.
Proof.
  intros G Hc. unfold run_shexc, run_shexc_decor, run_shexc_decor_lines.
  destruct (run_shapes fa c thr g) as [[ns shapes]|e] eqn:Er; [|discriminate].
  destruct (run_decor_data_of_shapes fa c false mode thr g ns shapes Er) as (ins & P & C & ID & d0 & _ & _ & _ & _ & Hd).
  rewrite Hd. unfold render, render_lines, render_lines_decor.
  destruct (shapes_lines _ shapes) as [ls|] eqn:El; [|discriminate]. intros _.
  destruct (shapes_lines_decor_shape_only (zcfg_of c ns) {| d_dmi := false; d_mode := mode; d_inverse := r_inverse c |}
              (if false || wants_shape_examples mode then complete_features C d0 else d0) shapes eq_refl Hc) with (ls := ls)
    as [ls' ->]; [|exact El|eauto].
  intros sh Hsh. exact (run_example_text_total fa c false mode thr g ns shapes ins _ G Er Hd sh Hsh).
Qed.
