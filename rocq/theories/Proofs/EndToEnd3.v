(** * End-to-end, third part.

    A. C14, second half: the inverse features of a graph are the direct
       features of the graph with every non-literal, non-typing triple
       reversed ([reverse_nonliteral]), for a fixed instance dictionary.
       A1 [cnt_inverse_is_reverse], A2 [occ_inverse_is_reverse],
       A3 [profile_inverse_is_reverse] (+ order: [class_props_reverse],
       [class_type_keys_reverse], [class_cards_reverse]).
       A4 [shex_class_direct_dfilter] (filtering by property commutes with
       selection and tuning), [raw_profile_inverse_is_reverse_eq] (entries
       equal as dictionaries outside tau), [track_reverse],
       [run_inverse_is_reverse].
    B. C09, blank-node renaming: [track_rename], [cnt_rename], [occ_rename],
       [class_count_rename], [profile_rename], [e2e_keys_rename],
       [e2e_keys_rename_direct].
    C. C09 (c) complements: [e2e_keys_perm_valid] / [e2e_keys_perm_total] (no
       success hypotheses under [valid_input]); [profile_kept_char],
       [run_raw_keys_iff_occ], [run_raw_keys_perm], [e2e_keys_perm_any],
       [e2e_keys_perm_valid_any] (any setting of remove_empty_shapes).

    No definition of Model/ or Spec/ is changed; everything here is a lemma
    about them. *)
From Coq Require Import List Ascii String ZArith NArith Bool Lia Permutation.
From Shexer Require Import Lib.PyStr Lib.Dict Lib.Bin64 Gen.Consts Spec.Rdf Model.Tracker Model.Profiler
  Model.Tokens Model.Freq Model.FreqInst Model.Shexing Model.Run Model.Run2 Model.RunCur Spec.Counts
  Proofs.DictLemmas Proofs.ProfileChar Proofs.ProfileOrder Proofs.ShexLemmas Proofs.ShexKeys
  Proofs.EndToEnd.
Import ListNotations.
Local Open Scope N_scope.

(** ** A. reversing the non-literal triples *)

(** a typing triple stays; any other triple with a node object is turned
    around; a literal-object triple has no inverse and disappears *)
Definition reverse_triple (tau : str) (t : triple) : list triple :=
  if str_eqb (tp t) tau then [t]
  else match to t with
       | ON o => [T o (tp t) (ON (ts t))]
       | OL _ _ => []
       end.

Definition reverse_nonliteral (tau : str) (g : graph) : graph := flat_map (reverse_triple tau) g.

(** every subject and every node object of a non-typing triple is an IRI *)
Definition iri_triple (tau : str) (t : triple) : bool :=
  str_eqb (tp t) tau ||
  (match nk (ts t) with KIri => true | KBnode => false end &&
   match to t with ON (Node KBnode _) => false | _ => true end).

Definition iri_nodes (tau : str) (g : graph) : Prop := forall t, In t g -> iri_triple tau t = true.

Lemma iri_triple_subject tau t :
  iri_triple tau t = true -> str_eqb (tp t) tau = false -> nk (ts t) = KIri.
Proof.
  unfold iri_triple. intros H E. rewrite E in H. cbn [orb] in H. apply andb_true_iff in H.
  destruct H as [H _]. destruct (nk (ts t)); [reflexivity | discriminate H].
Qed.

(** *** A1, one triple: [keys_inverse] on (s p o) against [keys_direct] on
    (o p s) *)
Lemma keys_inverse_is_direct_reversed tau I s p o :
  str_eqb p tau = false -> nk s = KIri ->
  keys_inverse tau I (T s p (ON o)) = keys_direct tau I (T o p (ON s)).
Proof.
  intros Hp Hs. unfold keys_inverse, keys_direct. cbn [ts tp to]. rewrite Hp, Hs. reflexivity.
Qed.

(** ... and the converse: for a non-typing property they are equal ONLY IF the
    subject is an IRI or has no class in [I] (Q4) *)
Lemma keys_inverse_is_direct_reversed_iff tau I s p o :
  str_eqb p tau = false ->
  (keys_inverse tau I (T s p (ON o)) = keys_direct tau I (T o p (ON s)) <->
   nk s = KIri \/ classes_of I (nid s) = []).
Proof.
  intros Hp. unfold keys_inverse, keys_direct. cbn [ts tp to]. rewrite Hp.
  destruct (nk s) eqn:Ek.
  - split; [left; reflexivity | reflexivity].
  - unfold shape_labels. split.
    + intros H. right. injection H as H. destruct (classes_of I (nid s)); [reflexivity | discriminate H].
    + intros [H|H]; [discriminate H | rewrite H; reflexivity].
Qed.

(** the keys one triple gives to [(i, p)], list against list *)
Lemma contrib_reverse_triple tau I t i p :
  str_eqb p tau = false -> iri_triple tau t = true ->
  List.concat (map (fun t' => contrib Direct tau I t' i p) (reverse_triple tau t)) =
  contrib Inverse tau I t i p.
Proof.
  intros Hp Hi. unfold reverse_triple. destruct (str_eqb (tp t) tau) eqn:Et.
  - (* a typing triple contributes nothing to a property other than tau *)
    apply str_eqb_eq in Et.
    assert (E : str_eqb (tp t) p = false).
    { apply str_eqb_neq. intros E. rewrite Et in E. subst p. rewrite str_eqb_refl in Hp. discriminate Hp. }
    cbn [map List.concat]. rewrite app_nil_r. unfold contrib. rewrite E, andb_false_r.
    destruct (to t); [rewrite andb_false_r|]; reflexivity.
  - pose proof (iri_triple_subject tau t Hi Et) as Hs. destruct t as [s q o]. cbn [ts tp to] in *.
    destruct o as [o|l dt]; [|reflexivity].
    cbn [map List.concat]. rewrite app_nil_r. unfold contrib. cbn [ts tp to].
    destruct (str_eqb (nid o) i && str_eqb q p) eqn:E; [|reflexivity].
    apply andb_true_iff in E. destruct E as [_ E]. apply str_eqb_eq in E. subst q.
    symmetry. apply keys_inverse_is_direct_reversed; assumption.
Qed.

Lemma concat_contrib_reverse tau I g i p :
  str_eqb p tau = false -> iri_nodes tau g ->
  List.concat (map (fun t => contrib Direct tau I t i p) (reverse_nonliteral tau g)) =
  List.concat (map (fun t => contrib Inverse tau I t i p) g).
Proof.
  intros Hp. induction g as [|t g IH]; intros Hg; [reflexivity|].
  unfold reverse_nonliteral. cbn [flat_map map List.concat]. rewrite map_app, concat_app.
  rewrite (contrib_reverse_triple tau I t i p Hp (Hg t (or_introl eq_refl))).
  f_equal. apply IH. intros t' Ht'. apply Hg. right. exact Ht'.
Qed.

Lemma count_in_app k l1 l2 : count_in k (l1 ++ l2) = count_in k l1 + count_in k l2.
Proof. induction l1 as [|x l1 IH]; cbn [app count_in]; [reflexivity|]. rewrite IH. lia. Qed.

Lemma cnt_as_concat dir tau I g i p k :
  cnt dir tau I g i p k = count_in k (List.concat (map (fun t => contrib dir tau I t i p) g)).
Proof.
  induction g as [|t g IH]; [reflexivity|]. rewrite cnt_cons, IH. cbn [map List.concat].
  rewrite count_in_app. reflexivity.
Qed.

(** *** A1 *)
Theorem cnt_inverse_is_reverse tau I g i p k :
  p <> tau -> iri_nodes tau g ->
  cnt Inverse tau I g i p k = cnt Direct tau I (reverse_nonliteral tau g) i p k.
Proof.
  intros Hp Hg. apply str_eqb_neq in Hp. rewrite !cnt_as_concat.
  rewrite (concat_contrib_reverse tau I g i p Hp Hg). reflexivity.
Qed.

(** *** A2 *)
Theorem occ_inverse_is_reverse tau I g c p k card :
  p <> tau -> iri_nodes tau g ->
  occ Inverse tau I g c p k card = occ Direct tau I (reverse_nonliteral tau g) c p k card.
Proof.
  intros Hp Hg. unfold occ. apply sumN_map_ext. intros ie _.
  rewrite (cnt_inverse_is_reverse tau I g (fst ie) p k Hp Hg). reflexivity.
Qed.

(** the documented exclusion: a blank-node subject that is an instance.
    [_:b p o], [_:b] listed for class C: the incoming link of [o] carries the
    kind only, the outgoing link of [o] in the reversed graph carries the
    shape reference too *)
Definition rv_tau : str := Str "http://www.w3.org/1999/02/22-rdf-syntax-ns#type".
Definition rv_p : str := Str "http://ex.org/p".
Definition rv_C : str := Str "http://ex.org/C".
Definition rv_b : node := Node KBnode (Str "_:b").
Definition rv_o : node := Node KIri (Str "http://ex.org/o").
Definition rv_I : insts := [(nid rv_b, [rv_C]); (nid rv_o, [rv_C])].
Definition rv_g : graph := [T rv_b rv_p (ON rv_o)].

Lemma keys_inverse_is_direct_reversed_bnode_refuted :
  exists tau I s p o,
    str_eqb p tau = false /\ nk s = KBnode /\
    keys_inverse tau I (T s p (ON o)) = [c_BNODE_ELEM_TYPE] /\
    keys_direct tau I (T o p (ON s)) = [c_BNODE_ELEM_TYPE; shape_name c_SHAPES_DEFAULT_NAMESPACE rv_C] /\
    keys_inverse tau I (T s p (ON o)) <> keys_direct tau I (T o p (ON s)).
Proof.
  exists rv_tau, rv_I, rv_b, rv_p, rv_o. split; [vm_compute; reflexivity|]. split; [reflexivity|].
  split; [vm_compute; reflexivity|]. split; [vm_compute; reflexivity|]. vm_compute. discriminate.
Qed.

Lemma cnt_inverse_is_reverse_bnode_refuted :
  exists tau I g i p k,
    p <> tau /\ ~ iri_nodes tau g /\
    cnt Inverse tau I g i p k = 0 /\ cnt Direct tau I (reverse_nonliteral tau g) i p k = 1.
Proof.
  exists rv_tau, rv_I, rv_g, (nid rv_o), rv_p, (shape_name c_SHAPES_DEFAULT_NAMESPACE rv_C).
  split; [intros H; vm_compute in H; discriminate H|]. split.
  - intros H. specialize (H _ (or_introl eq_refl)). vm_compute in H. discriminate H.
  - split; vm_compute; reflexivity.
Qed.

(** *** the feature pass succeeds on the reversed graph iff on the graph *)
Lemma In_reverse_nonliteral tau g t' :
  In t' (reverse_nonliteral tau g) <-> exists t, In t g /\ In t' (reverse_triple tau t).
Proof. unfold reverse_nonliteral. apply in_flat_map. Qed.

Lemma bad_triple_reverse tau I g :
  (exists t, In t g /\ bad_triple tau I t) <->
  (exists t, In t (reverse_nonliteral tau g) /\ bad_triple tau I t).
Proof.
  split.
  - intros (t & Ht & Hb). exists t. split; [|exact Hb]. apply In_reverse_nonliteral. exists t. split; [exact Ht|].
    unfold reverse_triple. destruct Hb as (_ & E & _). rewrite E, str_eqb_refl. left; reflexivity.
  - intros (t' & Ht' & Hb). apply In_reverse_nonliteral in Ht'. destruct Ht' as (t & Ht & Hin).
    unfold reverse_triple in Hin. destruct (str_eqb (tp t) tau) eqn:Et.
    + destruct Hin as [<-|[]]. exists t. auto.
    + exfalso. destruct (to t) as [o|l dt]; [|destruct Hin]. destruct Hin as [<-|[]].
      destruct Hb as (_ & E & _). cbn [tp] in E. rewrite E, str_eqb_refl in Et. discriminate Et.
Qed.

Lemma annotate_all_ok_reverse tau inv inv' I g :
  (exists ID, annotate_all tau inv g (adapt I) = inl ID) <->
  (exists ID, annotate_all tau inv' (reverse_nonliteral tau g) (adapt I) = inl ID).
Proof.
  rewrite !annotate_all_ok_iff. split.
  - intros H t Ht Hb. destruct (proj2 (bad_triple_reverse tau I g) (ex_intro _ t (conj Ht Hb))) as (t0 & H0 & Hb0).
    apply (H t0 H0 Hb0).
  - intros H t Ht Hb. destruct (proj1 (bad_triple_reverse tau I g) (ex_intro _ t (conj Ht Hb))) as (t0 & H0 & Hb0).
    apply (H t0 H0 Hb0).
Qed.

(** *** A3: the class profile *)

Definition pcfg_inv (b : bool) (cfg : pcfg) : pcfg := set_inverse cfg b.

(** raw profiles (before the profile-level cleaning): same class keys in the
    same order, same class counts; for every class and every property other
    than the instantiation property, the inverse part of the run on [g] and
    the direct part of the run on the reversed graph hold the same number
    under every lookup, and the same entries exist *)
Theorem raw_profile_inverse_is_reverse cfg (I : insts) g ID P1 C0 ID' P1' C0' :
  NoDup (dkeys I) -> iri_nodes (p_tau cfg) g ->
  annotate_all (p_tau cfg) true g (adapt I) = inl ID ->
  raw_profile (set_inverse cfg true) I ID = (P1, C0) ->
  annotate_all (p_tau cfg) false (reverse_nonliteral (p_tau cfg) g) (adapt I) = inl ID' ->
  raw_profile (set_inverse cfg false) I ID' = (P1', C0') ->
  dkeys P1' = dkeys P1 /\ C0' = C0 /\
  forall c e, dget P1 c = Some e ->
    exists e', dget P1' c = Some e' /\
      forall p, p <> p_tau cfg ->
        (forall k card, plook (c_inverse e) p k card = plook (c_direct e') p k card) /\
        (forall k, pmem (c_inverse e) p k = pmem (c_direct e') p k).
Proof.
  intros Hn Hg HA HR HA' HR'.
  pose proof (profile_counts_char (set_inverse cfg true) I g ID P1 C0 Hn HA HR) as (K1 & K2 & K3 & K4 & K5).
  pose proof (profile_counts_char (set_inverse cfg false) I (reverse_nonliteral (p_tau cfg) g) ID' P1' C0' Hn HA' HR')
    as (K1' & K2' & K3' & K4' & K5').
  change (targets_of (set_inverse cfg true)) with (targets_of cfg) in K1.
  change (targets_of (set_inverse cfg false)) with (targets_of cfg) in K1'.
  split; [congruence|]. split.
  - unfold raw_profile in HR, HR'. change (targets_of (set_inverse cfg true)) with (targets_of cfg) in HR.
    change (targets_of (set_inverse cfg false)) with (targets_of cfg) in HR'.
    destruct (init_annotated I (init_targets (targets_of cfg))) as [P0 C00]. congruence.
  - intros c e He.
    assert (Hin : In c (dkeys P1')).
    { rewrite K1', <- K1. apply dmem_In. unfold dmem. rewrite He. reflexivity. }
    apply In_dkeys_dget in Hin. destruct Hin as [e' [He' _]]. exists e'. split; [exact He'|].
    intros p Hp. destruct (K5 c e He) as (_ & _ & D3). cbn [set_inverse p_inverse] in D3.
    destruct (K5' c e' He') as (D1' & D2' & _). cbn [set_inverse p_tau] in *.
    destruct D3 as [D3 D4]. split.
    + intros k card. rewrite D3, D1'. apply occ_inverse_is_reverse; assumption.
    + intros k. apply eq_true_iff_eq. rewrite D4, D2'. split; intros [card H]; exists card.
      * rewrite <- occ_inverse_is_reverse; assumption.
      * rewrite occ_inverse_is_reverse; assumption.
Qed.

(** the same for the result of [profile], profile-level cleaning off: the run
    on the reversed graph succeeds whenever the run with inverse paths does *)
Theorem profile_inverse_is_reverse cfg (I : insts) g P C ID :
  NoDup (dkeys I) -> iri_nodes (p_tau cfg) g -> p_remove_empty cfg = false ->
  profile (set_inverse cfg true) I g = inl (P, C, ID) ->
  exists P' ID',
    profile (set_inverse cfg false) I (reverse_nonliteral (p_tau cfg) g) = inl (P', C, ID') /\
    dkeys P' = dkeys P /\
    forall c e, dget P c = Some e ->
      exists e', dget P' c = Some e' /\
        forall p, p <> p_tau cfg ->
          (forall k card, plook (c_inverse e) p k card = plook (c_direct e') p k card) /\
          (forall k, pmem (c_inverse e) p k = pmem (c_direct e') p k).
Proof.
  intros Hn Hg Hre HP. rewrite profile_result in HP. cbn [set_inverse p_tau p_inverse p_remove_empty] in HP.
  rewrite Hre in HP.
  destruct (annotate_all (p_tau cfg) true g (adapt I)) as [ID0|] eqn:HA; [|discriminate HP].
  destruct (raw_profile (set_inverse cfg true) I ID0) as [P1 C0] eqn:HR. injection HP as <- <- <-.
  destruct (proj1 (annotate_all_ok_reverse (p_tau cfg) true false I g) (ex_intro _ _ HA)) as [ID' HA'].
  destruct (raw_profile (set_inverse cfg false) I ID') as [P1' C0'] eqn:HR'.
  destruct (raw_profile_inverse_is_reverse cfg I g ID0 P1 C0 ID' P1' C0' Hn Hg HA HR HA' HR') as (E1 & E2 & E3).
  exists P1', ID'. split; [|split; [exact E1 | exact E3]].
  rewrite profile_result. cbn [set_inverse p_tau p_inverse p_remove_empty]. rewrite Hre, HA', HR', E2. reflexivity.
Qed.

(** [iri_nodes], decided *)
Definition iri_nodesb (tau : str) (g : graph) : bool := forallb (iri_triple tau) g.

Lemma iri_nodesb_ok tau g : iri_nodesb tau g = true <-> iri_nodes tau g.
Proof. unfold iri_nodesb, iri_nodes. apply forallb_forall. Qed.

Lemma iri_nodes_unfold tau g :
  iri_nodes tau g <->
  forall t, In t g -> tp t <> tau ->
    nk (ts t) = KIri /\ forall o, to t = ON o -> nk o = KIri.
Proof.
  unfold iri_nodes, iri_triple. split.
  - intros H t Ht Hp. specialize (H t Ht). apply str_eqb_neq in Hp. rewrite Hp in H. cbn [orb] in H.
    apply andb_true_iff in H. destruct H as [H1 H2]. split.
    + destruct (nk (ts t)); [reflexivity | discriminate H1].
    + intros o Eo. rewrite Eo in H2. destruct o as [[|] id]; [reflexivity | discriminate H2].
  - intros H t Ht. destruct (str_eqb (tp t) tau) eqn:E; [reflexivity|]. cbn [orb].
    apply str_eqb_neq in E. destruct (H t Ht E) as [H1 H2]. rewrite H1. cbn [andb].
    destruct (to t) as [[[|] id]|]; try reflexivity. specialize (H2 _ eq_refl). discriminate H2.
Qed.

(** ** B. C09: renaming the blank nodes *)

(** blank-node identifiers are the strings that start with "_:" (QUIRK Q5) *)
Definition bn_pref (s : str) : bool := prefixb (Str "_:") s.

(** a renaming of blank-node labels: "_:"-strings to "_:"-strings, injectively *)
Record bn_renaming (sg : str -> str) : Prop := {
  ren_marked : forall s, bn_pref s = true -> bn_pref (sg s) = true;
  ren_inj : forall a b, bn_pref a = true -> bn_pref b = true -> sg a = sg b -> a = b }.

Section Rename.
  Variable sg : str -> str.

  (** on identifier strings: blank-node labels renamed, everything else fixed *)
  Definition rid (s : str) : str := if bn_pref s then sg s else s.

  Definition rename_node (n : node) : node :=
    match nk n with KBnode => Node KBnode (sg (nid n)) | KIri => n end.
  Definition rename_obj (o : obj) : obj :=
    match o with ON n => ON (rename_node n) | OL c d => OL c d end.
  Definition rename_triple (t : triple) : triple := T (rename_node (ts t)) (tp t) (rename_obj (to t)).
  Definition rename_graph (g : graph) : graph := map rename_triple g.
  Definition rename_insts (I : insts) : insts := map (fun ie : str * list str => (rid (fst ie), snd ie)) I.

  (** side conditions on the graph, triple by triple:
      - [marked_node]: the kind of a node can be read off its identifier
        (blank nodes start with "_:", IRIs do not) -- true of every
        yielder-produced graph, and needed because the instance dictionary is
        keyed by the bare string;
      - [class_obj_ok]: the object of a typing triple is not a blank node (a
        blank-node CLASS has a shape label computed from the label text) *)
  Definition marked_node (n : node) : bool :=
    match nk n with KBnode => bn_pref (nid n) | KIri => negb (bn_pref (nid n)) end.
  Definition marked_triple (t : triple) : bool :=
    marked_node (ts t) && match to t with ON o => marked_node o | OL _ _ => true end.
  Definition class_obj_ok (tau : str) (t : triple) : bool :=
    negb (str_eqb (tp t) tau) || match to t with ON (Node KBnode _) => false | _ => true end.
  Definition rename_ok (tau : str) (t : triple) : bool := marked_triple t && class_obj_ok tau t.
  Definition rename_dom (tau : str) (g : graph) : bool := forallb (rename_ok tau) g.

  Hypothesis Hsg : bn_renaming sg.

  Lemma rid_pref s : bn_pref (rid s) = bn_pref s.
  Proof. unfold rid. destruct (bn_pref s) eqn:E; [apply (ren_marked sg Hsg); exact E | exact E]. Qed.

  Lemma rid_inj a b : rid a = rid b -> a = b.
  Proof.
    intros H. pose proof (rid_pref a) as Pa. pose proof (rid_pref b) as Pb. rewrite H in Pa.
    unfold rid in H. destruct (bn_pref a) eqn:Ea, (bn_pref b) eqn:Eb; try congruence.
    apply (ren_inj sg Hsg); assumption.
  Qed.

  Lemma str_eqb_rid a b : str_eqb (rid a) (rid b) = str_eqb a b.
  Proof.
    destruct (str_eqb a b) eqn:E.
    - apply str_eqb_eq in E. subst. apply str_eqb_refl.
    - apply str_eqb_neq. apply str_eqb_neq in E. intros H. apply E, rid_inj, H.
  Qed.

  Lemma rid_fixed s : bn_pref s = false -> rid s = s.
  Proof. unfold rid. intros ->. reflexivity. Qed.

  Lemma nid_rename_node n : marked_node n = true -> nid (rename_node n) = rid (nid n).
  Proof.
    unfold marked_node, rename_node, rid. destruct (nk n); intros H.
    - apply negb_true_iff in H. rewrite H. reflexivity.
    - rewrite H. reflexivity.
  Qed.

  Lemma nk_rename_node n : nk (rename_node n) = nk n.
  Proof. unfold rename_node. destruct (nk n) eqn:E; [exact E | reflexivity]. Qed.

  Lemma elem_type_rename n : elem_type (rename_node n) = elem_type n.
  Proof. unfold elem_type. rewrite nk_rename_node. reflexivity. Qed.

  Lemma rename_node_iri n : nk n = KIri -> rename_node n = n.
  Proof. unfold rename_node. intros ->. reflexivity. Qed.

  (** *** the dictionary *)
  Lemma dget_rename_insts (I : insts) i : dget (rename_insts I) (rid i) = dget I i.
  Proof.
    induction I as [|[k v] I IH]; [reflexivity|]. cbn [rename_insts map dget fst snd].
    rewrite str_eqb_rid. destruct (str_eqb i k); [reflexivity | exact IH].
  Qed.

  Lemma dmem_rename_insts (I : insts) i : dmem (rename_insts I) (rid i) = dmem I i.
  Proof. unfold dmem. rewrite dget_rename_insts. reflexivity. Qed.

  Lemma classes_of_rename I i : classes_of (rename_insts I) (rid i) = classes_of I i.
  Proof. unfold classes_of. rewrite dget_rename_insts. reflexivity. Qed.

  Lemma shape_labels_rename I i : shape_labels (rename_insts I) (rid i) = shape_labels I i.
  Proof. unfold shape_labels. rewrite classes_of_rename. reflexivity. Qed.

  Lemma dset_rename_insts (I : insts) k v : rename_insts (dset I k v) = dset (rename_insts I) (rid k) v.
  Proof.
    induction I as [|[k' v'] I IH]; [reflexivity|]. cbn [rename_insts map dset fst snd].
    rewrite str_eqb_rid. destruct (str_eqb k k'); [reflexivity|].
    cbn [map fst snd]. f_equal. exact IH.
  Qed.

  Lemma dupd_rename_insts (I : insts) k dflt f :
    rename_insts (dupd I k dflt f) = dupd (rename_insts I) (rid k) dflt f.
  Proof. unfold dupd. rewrite dget_rename_insts. destruct (dget I k); apply dset_rename_insts. Qed.

  Lemma dkeys_rename_insts (I : insts) : dkeys (rename_insts I) = map rid (dkeys I).
  Proof. unfold dkeys, rename_insts. rewrite !map_map. reflexivity. Qed.

  Lemma NoDup_rename_insts (I : insts) : NoDup (dkeys I) -> NoDup (dkeys (rename_insts I)).
  Proof.
    rewrite dkeys_rename_insts. intros H. induction H as [|x l Hx _ IH]; [constructor|].
    cbn [map]. constructor; [|exact IH]. intros Hin. apply in_map_iff in Hin. destruct Hin as [y [E Hy]].
    apply rid_inj in E. subst y. contradiction.
  Qed.

  Lemma snd_rename_insts (I : insts) : map snd (rename_insts I) = map snd I.
  Proof. unfold rename_insts. rewrite map_map. reflexivity. Qed.

  Theorem class_count_rename (I : insts) c : class_count (rename_insts I) c = class_count I c.
  Proof. rewrite !class_count_concat, snd_rename_insts. reflexivity. Qed.

  Lemma class_keys_rename targets (I : insts) : class_keys targets (rename_insts I) = class_keys targets I.
  Proof. unfold class_keys. rewrite snd_rename_insts. reflexivity. Qed.

  (** *** the tracker *)
  Lemma relevant_rename tau m t : relevant tau m (rename_triple t) = relevant tau m t.
  Proof.
    unfold relevant. cbn [rename_triple tp to]. destruct m as [|l]; [reflexivity|]. f_equal.
    destruct (to t) as [[[|] id]|]; reflexivity.
  Qed.

  Lemma rename_ok_parts tau t :
    rename_ok tau t = true ->
    nid (ts (rename_triple t)) = rid (nid (ts t)) /\
    (forall o, to t = ON o -> nid (rename_node o) = rid (nid o)) /\
    (forall o, to t = ON o -> str_eqb (tp t) tau = true -> rename_node o = o /\ bn_pref (nid o) = false).
  Proof.
    unfold rename_ok, marked_triple, class_obj_ok. intros H. apply andb_true_iff in H. destruct H as [H1 H2].
    apply andb_true_iff in H1. destruct H1 as [Hs Ho]. split; [|split].
    - cbn [rename_triple ts]. apply nid_rename_node. exact Hs.
    - intros o Eo. rewrite Eo in Ho. apply nid_rename_node. exact Ho.
    - intros o Eo Et. rewrite Eo in Ho, H2. rewrite Et in H2. cbn [negb orb] in H2.
      destruct o as [[|] id]; [|discriminate H2]. split; [reflexivity|].
      unfold marked_node in Ho. cbn [nk nid] in *. apply negb_true_iff in Ho. exact Ho.
  Qed.

  Definition map_inl {A B E} (f : A -> B) (x : A + E) : B + E :=
    match x with inl a => inl (f a) | inr e => inr e end.

  Lemma track_plain_rename tau m g : forall d,
    forallb (rename_ok tau) g = true ->
    track_plain tau m (rename_graph g) (rename_insts d) = map_inl rename_insts (track_plain tau m g d).
  Proof.
    induction g as [|t g IH]; intros d Hg; [reflexivity|].
    cbn [forallb] in Hg. apply andb_true_iff in Hg. destruct Hg as [Ht Hg].
    cbn [rename_graph map track_plain]. rewrite relevant_rename. destruct (relevant tau m t) eqn:Hr.
    - unfold annotate. cbn [rename_triple to ts]. destruct (to t) as [o|l dt] eqn:Eo; [|reflexivity].
      cbn [rename_obj]. destruct (rename_ok_parts tau t Ht) as (A & _ & B).
      assert (Et : str_eqb (tp t) tau = true) by (unfold relevant in Hr; apply andb_true_iff in Hr; apply Hr).
      destruct (B o Eo Et) as [B1 _]. rewrite B1. cbn [rename_triple ts] in A. rewrite A.
      rewrite <- dupd_rename_insts. apply (IH _ Hg).
    - apply (IH _ Hg).
  Qed.

  Lemma track_cap_rename tau m cap nt g : forall d st,
    forallb (rename_ok tau) g = true ->
    track_cap tau m cap nt (rename_graph g) (rename_insts d) st =
    map_inl rename_insts (track_cap tau m cap nt g d st).
  Proof.
    induction g as [|t g IH]; intros d st Hg; [reflexivity|].
    cbn [forallb] in Hg. apply andb_true_iff in Hg. destruct Hg as [Ht Hg].
    destruct (rename_ok_parts tau t Ht) as (A & _ & B). cbn [rename_triple ts] in A.
    cbn [rename_graph map track_cap].
    assert (Ec : cap_allows tau cap st (rename_triple t) = cap_allows tau cap st t).
    { unfold cap_allows. cbn [rename_triple tp to]. destruct (str_eqb (tp t) tau) eqn:Et; [|reflexivity].
      cbn [negb]. destruct (to t) as [o|l dt] eqn:Eo; [|reflexivity]. cbn [rename_obj].
      destruct (B o eq_refl eq_refl) as [B1 _]. rewrite B1. reflexivity. }
    rewrite relevant_rename. destruct (relevant tau m t) eqn:Hr; [|apply (IH _ _ Hg)].
    rewrite Ec. destruct (cap_allows tau cap st t) as [[|]|]; [|apply (IH _ _ Hg) | reflexivity].
    assert (Et : str_eqb (tp t) tau = true) by (unfold relevant in Hr; apply andb_true_iff in Hr; apply Hr).
    cbn [rename_triple to ts]. destruct (to t) as [o|l dt] eqn:Eo; [|reflexivity]. cbn [rename_obj].
    destruct (B o eq_refl Et) as [B1 _]. rewrite B1, A, <- dupd_rename_insts.
    destruct nt as [n|].
    - match goal with |- context [if ?b then _ else _] => destruct b end; [reflexivity | apply (IH _ _ Hg)].
    - apply (IH _ _ Hg).
  Qed.

  (** the tracker commutes with the renaming, cap or not, failures included *)
  Theorem track_rename tau m cap g :
    rename_dom tau g = true ->
    track tau m cap (rename_graph g) = map_inl rename_insts (track tau m cap g).
  Proof.
    intros Hg. unfold track. destruct (cap <=? 0)%Z.
    - apply (track_plain_rename tau m g [] Hg).
    - apply (track_cap_rename tau m _ _ g [] _ Hg).
  Qed.

  (** *** the counts *)

  (** type keys under the instantiation property are node identifiers and are
      renamed with the nodes; every other type key (node kind, datatype,
      shape label) is left alone *)
  Definition rk (tau p k : str) : str := if str_eqb p tau then rid k else k.

  Lemma rk_inj tau p a b : rk tau p a = rk tau p b -> a = b.
  Proof. unfold rk. destruct (str_eqb p tau); [apply rid_inj | auto]. Qed.

  Lemma shape_name_not_bn ns c : bn_pref (shape_name ns c) = false.
  Proof.
    unfold shape_name. destruct (prefixb (Str "@") c) eqn:E1.
    - apply prefixb_spec in E1. destruct E1 as [r ->]. reflexivity.
    - destruct (prefixb (Str "<") c && suffixb (Str ">") c); reflexivity.
  Qed.

  Lemma map_rid_shape_labels I i : map rid (shape_labels I i) = shape_labels I i.
  Proof.
    unfold shape_labels. rewrite map_map. apply map_ext. intros c. apply rid_fixed, shape_name_not_bn.
  Qed.

  Lemma contrib_rename dir tau I t i p :
    rename_ok tau t = true ->
    contrib dir tau (rename_insts I) (rename_triple t) (rid i) p = map (rk tau p) (contrib dir tau I t i p).
  Proof.
    intros Ht. destruct (rename_ok_parts tau t Ht) as (A & B & D). unfold contrib. destruct dir.
    - rewrite A, str_eqb_rid. cbn [rename_triple tp].
      destruct (str_eqb (nid (ts t)) i && str_eqb (tp t) p) eqn:E; [|reflexivity].
      apply andb_true_iff in E. destruct E as [_ E]. apply str_eqb_eq in E. subst p.
      unfold keys_direct, rk. cbn [rename_triple tp to]. destruct (to t) as [o|l dt] eqn:Eo; cbn [rename_obj].
      + destruct (str_eqb (tp t) tau) eqn:Et.
        * destruct (D o eq_refl eq_refl) as [D1 D2]. rewrite D1. cbn [map]. rewrite (rid_fixed _ D2).
          f_equal. destruct (str_eqb (nid o) c_IRI_ELEM_TYPE || str_eqb (nid o) c_BNODE_ELEM_TYPE); [|reflexivity].
          rewrite map_rid_shape_labels. rewrite <- (rid_fixed _ D2) at 1. apply shape_labels_rename.
        * rewrite map_id, elem_type_rename, (B o eq_refl), shape_labels_rename. reflexivity.
      + destruct (str_eqb (tp t) tau); [reflexivity|]. rewrite map_id. reflexivity.
    - cbn [rename_triple to tp]. destruct (to t) as [o|l dt] eqn:Eo; cbn [rename_obj]; [|reflexivity].
      rewrite (B o eq_refl), str_eqb_rid.
      destruct (str_eqb (nid o) i && str_eqb (tp t) p) eqn:E; [|reflexivity].
      apply andb_true_iff in E. destruct E as [_ E]. apply str_eqb_eq in E. subst p.
      unfold keys_inverse, rk. cbn [rename_triple tp ts] in *. rewrite A, nk_rename_node.
      destruct (str_eqb (tp t) tau) eqn:Et.
      + cbn [map]. f_equal.
        assert (Es : str_eqb (rid (nid (ts t))) c_IRI_ELEM_TYPE = str_eqb (nid (ts t)) c_IRI_ELEM_TYPE).
        { rewrite <- (rid_fixed c_IRI_ELEM_TYPE) at 1 by reflexivity. apply str_eqb_rid. }
        rewrite Es. destruct (str_eqb (nid (ts t)) c_IRI_ELEM_TYPE); [|reflexivity].
        rewrite map_rid_shape_labels. apply shape_labels_rename.
      + rewrite map_id. f_equal; [apply elem_type_rename|].
        destruct (nk (ts t)); [apply shape_labels_rename | reflexivity].
  Qed.

  Lemma count_in_map_inj (f : str -> str) k l :
    (forall a b, f a = f b -> a = b) -> count_in (f k) (map f l) = count_in k l.
  Proof.
    intros Hf. induction l as [|x l IH]; [reflexivity|]. cbn [map count_in]. rewrite IH. f_equal.
    destruct (str_eqb k x) eqn:E.
    - apply str_eqb_eq in E. subst. rewrite str_eqb_refl. reflexivity.
    - apply str_eqb_neq in E. assert (E' : str_eqb (f k) (f x) = false) by (apply str_eqb_neq; intros H; apply E, Hf, H).
      rewrite E'. reflexivity.
  Qed.

  Theorem cnt_rename dir tau I g i p k :
    rename_dom tau g = true ->
    cnt dir tau (rename_insts I) (rename_graph g) (rid i) p (rk tau p k) = cnt dir tau I g i p k.
  Proof.
    unfold rename_dom. induction g as [|t g IH]; intros Hg; [reflexivity|].
    cbn [forallb] in Hg. apply andb_true_iff in Hg. destruct Hg as [Ht Hg].
    cbn [rename_graph map]. rewrite !cnt_cons. rewrite (contrib_rename dir tau I t i p Ht).
    rewrite (count_in_map_inj (rk tau p) k _ (rk_inj tau p)). f_equal. apply IH, Hg.
  Qed.

  Theorem occ_rename dir tau I g c p k card :
    rename_dom tau g = true ->
    occ dir tau (rename_insts I) (rename_graph g) c p (rk tau p k) card = occ dir tau I g c p k card.
  Proof.
    intros Hg. unfold occ, rename_insts. rewrite map_map. apply sumN_map_ext. intros [i cs] _. cbn [fst snd].
    change (map (fun ie : str * list str => (rid (fst ie), snd ie)) I) with (rename_insts I).
    rewrite (cnt_rename dir tau I g i p k Hg). reflexivity.
  Qed.

  (** a type key with a positive count in the renamed graph is a renamed key *)
  Lemma cnt_rename_pos_inv dir tau I g i p k' :
    rename_dom tau g = true ->
    0 < cnt dir tau (rename_insts I) (rename_graph g) (rid i) p k' -> exists k, k' = rk tau p k.
  Proof.
    intros Hg H. unfold cnt in H. apply sumN_pos_ex in H. destruct H as [x [Hx Hpos]].
    apply in_map_iff in Hx. destruct Hx as [t' [<- Ht']]. unfold rename_graph in Ht'.
    apply in_map_iff in Ht'. destruct Ht' as [t [<- Ht]].
    unfold rename_dom in Hg. rewrite forallb_forall in Hg.
    rewrite (contrib_rename dir tau I t i p (Hg t Ht)) in Hpos. apply In_count_in in Hpos.
    apply in_map_iff in Hpos. destruct Hpos as [k [E _]]. exists k. symmetry. exact E.
  Qed.

  Lemma occ_rename_pos_inv dir tau I g c p k' card :
    rename_dom tau g = true ->
    0 < occ dir tau (rename_insts I) (rename_graph g) c p k' card -> exists k, k' = rk tau p k.
  Proof.
    intros Hg H. assert (H' : exists card, 0 < occ dir tau (rename_insts I) (rename_graph g) c p k' card) by eauto.
    apply occ_pos_iff in H'. destruct H' as (i' & cs & Hin & _ & Hc).
    unfold rename_insts in Hin. apply in_map_iff in Hin. destruct Hin as [[i cs'] [E _]]. cbn [fst snd] in E.
    injection E as <- _. apply (cnt_rename_pos_inv dir tau I g i p k' Hg Hc).
  Qed.

  (** *** the feature pass fails on the renamed graph iff on the graph *)
  Lemma bad_triple_rename tau I t :
    rename_ok tau t = true -> (bad_triple tau (rename_insts I) (rename_triple t) <-> bad_triple tau I t).
  Proof.
    intros Ht. destruct (rename_ok_parts tau t Ht) as (A & _ & _). unfold bad_triple.
    rewrite A, dmem_rename_insts. cbn [rename_triple tp to].
    assert (E : is_node (rename_obj (to t)) = is_node (to t)) by (destruct (to t); reflexivity).
    rewrite E. tauto.
  Qed.

  Lemma annotate_all_ok_rename tau inv I g :
    rename_dom tau g = true ->
    ((exists ID, annotate_all tau inv (rename_graph g) (adapt (rename_insts I)) = inl ID) <->
     (exists ID, annotate_all tau inv g (adapt I) = inl ID)).
  Proof.
    intros Hg. unfold rename_dom in Hg. rewrite forallb_forall in Hg. rewrite !annotate_all_ok_iff. split.
    - intros H t Ht Hb. apply (H (rename_triple t)); [apply in_map; exact Ht|].
      apply bad_triple_rename; [apply Hg; exact Ht | exact Hb].
    - intros H t' Ht' Hb. unfold rename_graph in Ht'. apply in_map_iff in Ht'. destruct Ht' as [t [<- Ht]].
      apply (H t Ht). apply (bad_triple_rename tau I t (Hg t Ht)). exact Hb.
  Qed.

  (** *** the class profile, profile-level cleaning off *)
  Theorem profile_rename cfg (I : insts) g P C ID :
    NoDup (dkeys I) -> rename_dom (p_tau cfg) g = true -> p_remove_empty cfg = false ->
    profile cfg I g = inl (P, C, ID) ->
    exists P' ID',
      profile cfg (rename_insts I) (rename_graph g) = inl (P', C, ID') /\
      dkeys P' = dkeys P /\
      forall c e, dget P c = Some e ->
        exists e', dget P' c = Some e' /\
          forall p k card,
            plook (c_direct e') p (rk (p_tau cfg) p k) card = plook (c_direct e) p k card /\
            plook (c_inverse e') p (rk (p_tau cfg) p k) card = plook (c_inverse e) p k card.
  Proof.
    intros Hn Hg Hre HP. rewrite profile_result in HP. rewrite Hre in HP.
    destruct (annotate_all (p_tau cfg) (p_inverse cfg) g (adapt I)) as [ID0|] eqn:HA; [|discriminate HP].
    destruct (raw_profile cfg I ID0) as [P1 C0] eqn:HR. injection HP as <- <- <-.
    destruct (proj2 (annotate_all_ok_rename (p_tau cfg) (p_inverse cfg) I g Hg) (ex_intro _ _ HA)) as [ID' HA'].
    destruct (raw_profile cfg (rename_insts I) ID') as [P1' C0'] eqn:HR'.
    pose proof (NoDup_rename_insts I Hn) as Hn'.
    destruct (profile_counts_char cfg I g ID0 P1 C0 Hn HA HR) as (K1 & K2 & K3 & K4 & K5).
    destruct (profile_counts_char cfg (rename_insts I) (rename_graph g) ID' P1' C0' Hn' HA' HR')
      as (K1' & K2' & K3' & K4' & K5').
    rewrite class_keys_rename in K1'.
    assert (EC : C0' = C0).
    { unfold raw_profile in HR, HR'.
      destruct (init_annotated I (init_targets (targets_of cfg))) as [Pa Ca] eqn:Ea.
      destruct (init_annotated (rename_insts I) (init_targets (targets_of cfg))) as [Pb Cb] eqn:Eb.
      injection HR as _ <-. injection HR' as _ <-.
      rewrite init_annotated_fold in Ea, Eb. rewrite snd_rename_insts in Eb. congruence. }
    exists P1', ID'. split; [|split].
    - rewrite profile_result, Hre, HA', HR', EC. reflexivity.
    - congruence.
    - intros c e He.
      assert (Hin : In c (dkeys P1')).
      { rewrite K1', <- K1. apply dmem_In. unfold dmem. rewrite He. reflexivity. }
      apply In_dkeys_dget in Hin. destruct Hin as [e' [He' _]]. exists e'. split; [exact He'|].
      intros p k card. destruct (K5 c e He) as (D1 & _ & D3). destruct (K5' c e' He') as (D1' & _ & D3').
      split.
      + rewrite D1, D1'. apply occ_rename, Hg.
      + destruct (p_inverse cfg).
        * rewrite (proj1 D3), (proj1 D3'). apply occ_rename, Hg.
        * rewrite D3, D3'. reflexivity.
  Qed.
End Rename.

(** *** the keys of the shapes *)

(** value classes under the renaming: for the instantiation property the
    value class names a node (the class IRI for an outgoing link, the typed
    SUBJECT for an incoming one) and is renamed with it *)
Definition rvc (sg : str -> str) (tau p : str) (vc : vclass) : vclass :=
  if str_eqb p tau then match vc with VClass k => VClass (rid sg k) | _ => vc end else vc.

Lemma value_class_rk sg tau p k : value_class tau p [rk sg tau p k] = rvc sg tau p (value_class tau p [k]).
Proof. unfold value_class, rk, rvc. destruct (str_eqb p tau); reflexivity. Qed.

Lemma key_passes_occ_rename fa sg c thr I g cls inv p vc :
  bn_renaming sg -> rename_dom (r_tau c) g = true ->
  (key_passes_occ fa c thr I g cls inv p vc <->
   key_passes_occ fa c thr (rename_insts sg I) (rename_graph sg g) cls inv p (rvc sg (r_tau c) p vc)).
Proof.
  intros Hsg Hg. split.
  - intros (Hi & k & ck & Hv & Hp & Hf). split; [exact Hi|]. exists (rk sg (r_tau c) p k), ck.
    rewrite value_class_rk, Hv, (occ_rename sg Hsg _ _ I g cls p k ck Hg), class_count_rename. auto.
  - intros (Hi & k' & ck & Hv & Hp & Hf). split; [exact Hi|].
    destruct (occ_rename_pos_inv sg Hsg _ _ I g cls p k' ck Hg Hp) as [k ->]. exists k, ck.
    rewrite (occ_rename sg Hsg _ _ I g cls p k ck Hg), class_count_rename in *.
    split; [|auto]. rewrite value_class_rk in Hv. unfold rvc, value_class in *.
    destruct (str_eqb p (r_tau c)); [|exact Hv].
    destruct vc as [dt| |k0]; try discriminate Hv. cbn [hd] in *. injection Hv as Hv.
    apply (rid_inj sg Hsg) in Hv. subst. reflexivity.
Qed.

Lemma key_passes_occ_rename_inv fa sg c thr I g cls inv p vc' :
  bn_renaming sg -> rename_dom (r_tau c) g = true ->
  key_passes_occ fa c thr (rename_insts sg I) (rename_graph sg g) cls inv p vc' ->
  exists vc, vc' = rvc sg (r_tau c) p vc.
Proof.
  intros Hsg Hg (_ & k' & ck & Hv & Hp & _).
  destruct (occ_rename_pos_inv sg Hsg _ _ I g cls p k' ck Hg Hp) as [k ->].
  exists (value_class (r_tau c) p [k]). rewrite <- Hv. apply value_class_rk.
Qed.

(** two successful runs, on a graph and on the graph with its blank nodes
    renamed (any cap; empty shapes kept): same shapes prefix, the same shape
    classes in the same order and, class by class, the same name, the same
    header count and the same keys, those of the instantiation property
    renamed with the nodes *)
Theorem e2e_keys_rename fa sg c thr g ns shapes ns' shapes' :
  bn_renaming sg -> rename_dom (r_tau c) g = true -> r_remove_empty c = false ->
  run_shapes fa c thr g = inl (ns, shapes) -> run_shapes fa c thr (rename_graph sg g) = inl (ns', shapes') ->
  ns' = ns /\
  map sh_class shapes' = map sh_class shapes /\
  forall sh sh', In sh shapes -> In sh' shapes' -> sh_class sh = sh_class sh' ->
    sh_name sh = sh_name sh' /\ sh_n sh = sh_n sh' /\
    (forall inv p vc, In (inv, p, vc) (map (skey (scfg_of c ns)) (sh_stmts sh)) <->
                      In (inv, p, rvc sg (r_tau c) p vc) (map (skey (scfg_of c ns)) (sh_stmts sh'))) /\
    (forall inv p vc', In (inv, p, vc') (map (skey (scfg_of c ns)) (sh_stmts sh')) ->
                       exists vc, vc' = rvc sg (r_tau c) p vc).
Proof.
  intros Hsg Hg Hre H H'.
  assert (Ens : ns' = ns).
  { apply run_shapes_decompose in H, H'. destruct H as (_ & _ & _ & _ & A & _). destruct H' as (_ & _ & _ & _ & A' & _).
    congruence. }
  subst ns'. split; [reflexivity|].
  destruct (e2e_figures fa c thr g ns shapes H) as (J & HTJ & HF).
  destruct (e2e_figures fa c thr _ ns shapes' H') as (J' & HTJ' & HF').
  destruct (e2e_keys_iff_occ fa c thr g ns shapes Hre H) as (I & HT & HC & HK).
  destruct (e2e_keys_iff_occ fa c thr _ ns shapes' Hre H') as (I' & HT' & HC' & HK').
  assert (J = I) by congruence. assert (J' = I') by congruence. subst J J'.
  pose proof (track_rename sg Hsg (r_tau c) (mode_of c) (r_cap c) g Hg) as HTR. rewrite HT, HT' in HTR.
  cbn [map_inl] in HTR. injection HTR as ->.
  split; [rewrite HC, HC'; apply class_keys_rename|].
  intros sh sh' Hsh Hsh' Ecls.
  destruct (HK sh Hsh) as (En & Hk & _). destruct (HK' sh' Hsh') as (En' & Hk' & _).
  destruct (HF sh Hsh) as (_ & Enm & _). destruct (HF' sh' Hsh') as (_ & Enm' & _).
  split; [rewrite Enm, Enm', Ecls; reflexivity|].
  split; [rewrite En, En', Ecls; symmetry; apply class_count_rename|]. split.
  - intros inv p vc. rewrite Hk, Hk', Ecls. apply key_passes_occ_rename; assumption.
  - intros inv p vc' Hin. apply Hk' in Hin. apply (key_passes_occ_rename_inv fa sg c thr I g _ inv p vc' Hsg Hg Hin).
Qed.

(** without inverse paths no key names a blank node: the key sets are equal *)
Lemma direct_tau_key_not_bn tau I g cls k ck :
  rename_dom tau g = true -> 0 < occ Direct tau I g cls tau k ck -> bn_pref k = false.
Proof.
  intros Hg H. assert (H' : exists card, 0 < occ Direct tau I g cls tau k card) by eauto.
  apply occ_pos_iff in H'. destruct H' as (i & cs & _ & _ & Hc).
  unfold cnt in Hc. apply sumN_pos_ex in Hc. destruct Hc as [x [Hx Hpos]].
  apply in_map_iff in Hx. destruct Hx as [t [<- Ht]]. apply In_count_in in Hpos.
  unfold rename_dom in Hg. rewrite forallb_forall in Hg. destruct (rename_ok_parts (fun s => s) tau t (Hg t Ht)) as (_ & _ & D).
  unfold contrib in Hpos. destruct (str_eqb (nid (ts t)) i && str_eqb (tp t) tau) eqn:E; [|destruct Hpos].
  apply andb_true_iff in E. destruct E as [_ E]. unfold keys_direct in Hpos. rewrite E in Hpos.
  destruct (to t) as [o|l dt] eqn:Eo; [|destruct Hpos].
  destruct Hpos as [<-|Hin]; [apply (D o eq_refl E)|].
  destruct (str_eqb (nid o) c_IRI_ELEM_TYPE || str_eqb (nid o) c_BNODE_ELEM_TYPE); [|destruct Hin].
  unfold shape_labels in Hin. apply in_map_iff in Hin. destruct Hin as [u [<- _]]. apply shape_name_not_bn.
Qed.

Theorem e2e_keys_rename_direct fa sg c thr g ns shapes ns' shapes' :
  bn_renaming sg -> rename_dom (r_tau c) g = true -> r_remove_empty c = false -> r_inverse c = false ->
  run_shapes fa c thr g = inl (ns, shapes) -> run_shapes fa c thr (rename_graph sg g) = inl (ns', shapes') ->
  ns' = ns /\
  map sh_class shapes' = map sh_class shapes /\
  forall sh sh', In sh shapes -> In sh' shapes' -> sh_class sh = sh_class sh' ->
    sh_name sh = sh_name sh' /\ sh_n sh = sh_n sh' /\
    forall key, In key (map (skey (scfg_of c ns)) (sh_stmts sh)) <->
                In key (map (skey (scfg_of c ns)) (sh_stmts sh')).
Proof.
  intros Hsg Hg Hre Hinv H H'.
  destruct (e2e_keys_rename fa sg c thr g ns shapes ns' shapes' Hsg Hg Hre H H') as (E1 & E2 & E3).
  split; [exact E1|]. split; [exact E2|]. intros sh sh' Hsh Hsh' Ecls.
  destruct (E3 sh sh' Hsh Hsh' Ecls) as (A & B & K1 & K2). split; [exact A|]. split; [exact B|].
  destruct (e2e_keys_iff_occ fa c thr g ns shapes Hre H) as (I & HT & _ & HK).
  destruct (HK sh Hsh) as (_ & Hk & _).
  (* a key of the original run is fixed by the renaming *)
  assert (Hfix : forall inv p vc, In (inv, p, vc) (map (skey (scfg_of c ns)) (sh_stmts sh)) ->
                                  rvc sg (r_tau c) p vc = vc).
  { intros inv p vc Hin. apply Hk in Hin. destruct Hin as (Hi & k & ck & Hv & Hp & _).
    destruct inv; [specialize (Hi eq_refl); congruence|]. cbn [dir_of] in Hp.
    unfold rvc. destruct (str_eqb p (r_tau c)) eqn:Ep; [|reflexivity].
    apply str_eqb_eq in Ep. subst p. unfold value_class in Hv. rewrite str_eqb_refl in Hv. cbn [hd] in Hv. subst vc.
    rewrite (rid_fixed sg k (direct_tau_key_not_bn _ I g _ k ck Hg Hp)). reflexivity. }
  intros [[inv p] vc]. split.
  - intros Hin. rewrite <- (Hfix inv p vc Hin). apply K1. exact Hin.
  - intros Hin. destruct (K2 inv p vc Hin) as [vc0 ->]. pose proof (proj2 (K1 inv p vc0) Hin) as Hin0.
    rewrite (Hfix inv p vc0 Hin0). exact Hin0.
Qed.

Lemma rename_dom_unfold tau g :
  rename_dom tau g = true <->
  forall t, In t g ->
    marked_node (ts t) = true /\
    (forall o, to t = ON o -> marked_node o = true /\ (tp t = tau -> nk o = KIri)).
Proof.
  unfold rename_dom. rewrite forallb_forall. split; intros H t Ht; specialize (H t Ht).
  - unfold rename_ok, marked_triple, class_obj_ok in H. apply andb_true_iff in H. destruct H as [H1 H2].
    apply andb_true_iff in H1. destruct H1 as [Hs Ho]. split; [exact Hs|]. intros o Eo. rewrite Eo in *.
    split; [exact Ho|]. intros Et. rewrite Et, str_eqb_refl in H2. cbn [negb orb] in H2.
    destruct o as [[|] id]; [reflexivity | discriminate H2].
  - destruct H as [Hs Ho]. unfold rename_ok, marked_triple, class_obj_ok. rewrite Hs. cbn [andb].
    destruct (to t) as [o|l dt]; [|rewrite orb_true_r; reflexivity].
    destruct (Ho o eq_refl) as [H1 H2]. rewrite H1. cbn [andb].
    destruct (str_eqb (tp t) tau) eqn:Et; [|reflexivity]. apply str_eqb_eq in Et. specialize (H2 Et).
    destruct o as [[|] id]; [reflexivity | discriminate H2].
Qed.

(** ** A4. statement level: the statements of the properties selected by [q]
    depend only on the part of the class features under those properties *)
From Shexer Require Import Proofs.ShexBasics Proofs.InverseLemmas.

Lemma filter_comm {A} (f h : A -> bool) l : filter f (filter h l) = filter h (filter f l).
Proof.
  induction l as [|x l IH]; [reflexivity|]. cbn [filter].
  destruct (h x) eqn:Eh, (f x) eqn:Ef; cbn [filter]; rewrite ?Eh, ?Ef, IH; reflexivity.
Qed.

Lemma filter_length_le {A} (f : A -> bool) l : (List.length (filter f l) <= List.length l)%nat.
Proof. induction l as [|x l IH]; cbn [filter List.length]; [lia|]. destruct (f x); cbn [List.length]; lia. Qed.

Section PropFilter.
  Variable fa : FreqAlg.
  Variable cfg : scfg.
  Variable q : str -> bool.

  Definition qs (s : stmt) : bool := q (s_prop s).

  Lemma qs_prop a b : s_prop b = s_prop a -> qs b = qs a.
  Proof. unfold qs. intros ->. reflexivity. Qed.

  Lemma same_tokens_prop a b : same_tokens a b = true -> s_prop b = s_prop a.
  Proof. unfold same_tokens. intros H. apply andb_true_iff in H. destruct H as [H _]. apply str_eqb_eq in H. auto. Qed.

  Lemma mergeable_prop a b : mergeable_with a b = true -> s_prop b = s_prop a.
  Proof. unfold mergeable_with. intros H. apply andb_true_iff in H. destruct H as [_ H]. apply str_eqb_eq in H. auto. Qed.

  (** a group relation [R a] that stays inside one property *)
  Section Group.
    Variable R : stmt -> stmt -> bool.
    Hypothesis HR : forall a b, R a b = true -> s_prop b = s_prop a.

    Lemma group_in_q a rest : qs a = true -> filter (R a) (filter qs rest) = filter (R a) rest.
    Proof.
      intros Ha. induction rest as [|b rest IH]; [reflexivity|]. cbn [filter].
      destruct (R a b) eqn:E.
      - rewrite (qs_prop a b (HR a b E)), Ha. cbn [filter]. rewrite E, IH. reflexivity.
      - destruct (qs b); cbn [filter]; rewrite ?E; exact IH.
    Qed.

    Lemma others_in_q a rest : filter (fun b => negb (R a b)) (filter qs rest) = filter qs (filter (fun b => negb (R a b)) rest).
    Proof. apply filter_comm. Qed.

    Lemma others_out_q a rest : qs a = false -> filter qs (filter (fun b => negb (R a b)) rest) = filter qs rest.
    Proof.
      intros Ha. induction rest as [|b rest IH]; [reflexivity|]. cbn [filter].
      destruct (R a b) eqn:E; cbn [negb filter].
      - rewrite (qs_prop a b (HR a b E)), Ha. exact IH.
      - destruct (qs b); rewrite IH; reflexivity.
    Qed.

    Lemma group_Forall_prop a rest : Forall (fun s => s_prop s = s_prop a) (a :: filter (R a) rest).
    Proof.
      constructor; [reflexivity|]. apply Forall_forall. intros b Hb. apply filter_In in Hb. apply (HR a b), Hb.
    Qed.
  End Group.

  Lemma decide_best_prop cnt a g r :
    Forall (fun s => s_prop s = s_prop a) g -> decide_best fa cfg cnt g = inl r -> s_prop r = s_prop a.
  Proof. intros Hg H. apply (decide_best_inv fa cfg (fun s => s_prop s = s_prop a) (fun s k Hs => Hs) cnt g r Hg H). Qed.

  Lemma merge_group_prop cnt a g r :
    Forall (fun s => s_prop s = s_prop a) g -> merge_group fa cfg cnt g = inl r -> s_prop r = s_prop a.
  Proof.
    intros Hg H.
    apply (merge_group_inv fa cfg (fun s => s_prop s = s_prop a) (fun s k Hs => Hs) (fun b i Hb _ => Hb)
             (fun d tys g0 Hd _ _ => Hd) cnt g r Hg H).
  Qed.

  Lemma group_same_filter cnt : forall f l r f',
    (List.length l <= f)%nat -> (List.length (filter qs l) <= f')%nat ->
    group_same fa cfg f cnt l = inl r ->
    group_same fa cfg f' cnt (filter qs l) = inl (filter qs r).
  Proof.
    induction f as [|f IH]; intros l r f' Hl Hl' H.
    - destruct l; [|cbn in Hl; lia]. cbn in H. injection H as <-. destruct f'; reflexivity.
    - destruct l as [|a rest]; [cbn in H; injection H as <-; destruct f'; reflexivity|].
      cbn [group_same] in H.
      match type of H with match ?p with _ => _ end = _ => destruct p as [r0|e] eqn:E0 end; [|discriminate H].
      destruct (group_same fa cfg f cnt (filter (fun b => negb (same_tokens a b)) rest)) as [rs|e] eqn:E1; [|discriminate H].
      injection H as <-. cbn [List.length] in Hl.
      assert (Hr0 : qs r0 = qs a).
      { apply qs_prop. destruct (filter (same_tokens a) rest) as [|b grp] eqn:Eg.
        - injection E0 as <-. reflexivity.
        - apply (decide_best_prop cnt a (a :: b :: grp) r0); [|exact E0]. rewrite <- Eg. apply group_Forall_prop. apply same_tokens_prop. }
      assert (Hlo : (List.length (filter (fun b => negb (same_tokens a b)) rest) <= f)%nat).
      { pose proof (filter_length_le (fun b => negb (same_tokens a b)) rest). lia. }
      cbn [filter] in Hl' |- *. rewrite Hr0. destruct (qs a) eqn:Ea.
      + cbn [List.length] in Hl'. destruct f' as [|f']; [lia|]. cbn [group_same].
        rewrite (group_in_q same_tokens same_tokens_prop a rest Ea), E0.
        rewrite (others_in_q same_tokens a rest).
        rewrite (IH _ rs f' Hlo); [reflexivity| |exact E1].
        rewrite <- (others_in_q same_tokens a rest).
        pose proof (filter_length_le (fun b => negb (same_tokens a b)) (filter qs rest)). lia.
      + rewrite <- (others_out_q same_tokens same_tokens_prop a rest Ea) in Hl' |- *.
        apply (IH _ rs f' Hlo Hl' E1).
  Qed.

  Lemma group_nodes_filter cnt : forall f l r f',
    (List.length l <= f)%nat -> (List.length (filter qs l) <= f')%nat ->
    group_nodes fa cfg f cnt l = inl r ->
    group_nodes fa cfg f' cnt (filter qs l) = inl (filter qs r).
  Proof.
    induction f as [|f IH]; intros l r f' Hl Hl' H.
    - destruct l; [|cbn in Hl; lia]. cbn in H. injection H as <-. destruct f'; reflexivity.
    - destruct l as [|a rest]; [cbn in H; injection H as <-; destruct f'; reflexivity|].
      cbn [group_nodes] in H. cbn [List.length] in Hl.
      destruct (str_eqb (s_prop a) (x_tau cfg) || negb (is_nonliteral_type (s_type a))) eqn:Ek.
      + destruct (group_nodes fa cfg f cnt rest) as [rs|e] eqn:E1; [|discriminate H]. injection H as <-.
        cbn [filter] in Hl' |- *. destruct (qs a) eqn:Ea.
        * cbn [List.length] in Hl'. destruct f' as [|f']; [lia|]. cbn [group_nodes]. rewrite Ek.
          rewrite (IH rest rs f'); [reflexivity|lia|lia|exact E1].
        * apply (IH rest rs f'); [lia|exact Hl'|exact E1].
      + match type of H with match ?p with _ => _ end = _ => destruct p as [r0|e] eqn:E0 end; [|discriminate H].
        destruct (group_nodes fa cfg f cnt (filter (fun b => negb (mergeable_with a b)) rest)) as [rs|e] eqn:E1;
          [|discriminate H].
        injection H as <-.
        assert (Hr0 : qs r0 = qs a).
        { apply qs_prop. destruct (filter (mergeable_with a) rest) as [|b grp] eqn:Eg.
          - injection E0 as <-. reflexivity.
          - apply (merge_group_prop cnt a (a :: b :: grp) r0); [|exact E0]. rewrite <- Eg. apply group_Forall_prop. apply mergeable_prop. }
        assert (Hlo : (List.length (filter (fun b => negb (mergeable_with a b)) rest) <= f)%nat).
        { pose proof (filter_length_le (fun b => negb (mergeable_with a b)) rest). lia. }
        cbn [filter] in Hl' |- *. rewrite Hr0. destruct (qs a) eqn:Ea.
        * cbn [List.length] in Hl'. destruct f' as [|f']; [lia|]. cbn [group_nodes]. rewrite Ek.
          rewrite (group_in_q mergeable_with mergeable_prop a rest Ea), E0.
          rewrite (others_in_q mergeable_with a rest).
          rewrite (IH _ rs f' Hlo); [reflexivity| |exact E1].
          rewrite <- (others_in_q mergeable_with a rest).
          pose proof (filter_length_le (fun b => negb (mergeable_with a b)) (filter qs rest)). lia.
        * rewrite <- (others_out_q mergeable_with mergeable_prop a rest Ea) in Hl' |- *.
          apply (IH _ rs f' Hlo Hl' E1).
  Qed.

  Lemma select_valid_filter cnt l r :
    select_valid fa cfg cnt l = inl r -> select_valid fa cfg cnt (filter qs l) = inl (filter qs r).
  Proof.
    unfold select_valid. destruct l as [|a l0]; [intros H; injection H as <-; reflexivity|].
    set (l := a :: l0).
    destruct (group_same fa cfg (List.length l) cnt l) as [l1|e] eqn:E1; [|discriminate].
    intros E2.
    pose proof (group_same_filter cnt _ l l1 (List.length (filter qs l)) (le_n _) (le_n _) E1) as F1.
    pose proof (group_nodes_filter cnt _ l1 r (List.length (filter qs l1)) (le_n _) (le_n _) E2) as F2.
    destruct (filter qs l) as [|b l'] eqn:El.
    - cbn in F1. injection F1 as F1. rewrite <- F1 in F2. cbn in F2. injection F2 as <-. reflexivity.
    - rewrite F1. exact F2.
  Qed.

  Lemma base_statements_dfilter thr cnt inv pd :
    base_statements fa thr cnt inv (dfilter q pd) = filter qs (base_statements fa thr cnt inv pd).
  Proof.
    induction pd as [|[p m] pd IH]; [reflexivity|].
    assert (Ec : forall x l, base_statements fa thr cnt inv (x :: l) =
                             base_statements fa thr cnt inv [x] ++ base_statements fa thr cnt inv l).
    { intros x l. unfold base_statements. cbn [flat_map]. rewrite app_nil_r. reflexivity. }
    rewrite (Ec (p, m) pd), filter_app, <- IH. unfold dfilter. cbn [filter fst].
    assert (E : filter qs (base_statements fa thr cnt inv [(p, m)]) =
                if q p then base_statements fa thr cnt inv [(p, m)] else []).
    { destruct (q p) eqn:Eq.
      - apply InverseLemmas.filter_all_true. apply base_statements_Forall. intros. unfold qs. cbn.
        destruct H as [H|[]]. injection H as <- _. exact Eq.
      - apply InverseLemmas.filter_all_false. apply base_statements_Forall. intros. unfold qs. cbn.
        destruct H as [H|[]]. injection H as <- _. exact Eq. }
    rewrite E. destruct (q p); [|reflexivity]. rewrite <- Ec. reflexivity.
  Qed.

  Lemma relax_prop cnt x y : relax fa cfg cnt x = inl y -> qs y = qs x.
  Proof.
    unfold relax. destruct (negb _).
    - destruct (comment_of cfg x); [|discriminate]. intros H; inversion H; subst. reflexivity.
    - intros H; inversion H; subst. reflexivity.
  Qed.

  Lemma post1_prop s : qs (post1 cfg s) = qs s.
  Proof.
    unfold qs, post1, generalize_exact, drop_comments.
    destruct (x_disable_exact cfg), (x_disable_comments cfg); simpl; try reflexivity;
      destruct (s_card s) as [k| | |]; simpl; try reflexivity; destruct (N.ltb 1 k); reflexivity.
  Qed.

  (** the statements of a direct-only run, restricted to the properties [q]
      selects, are those of the run on the restricted features *)
  Theorem shex_class_direct_dfilter thr counts cls e sh :
    x_inverse cfg = false -> order_at fa (class_cnt counts (cls, e)) ->
    shex_class fa cfg thr counts (cls, e) = inl sh ->
    exists sh', shex_class fa cfg thr counts (cls, {| c_direct := dfilter q (c_direct e); c_inverse := c_inverse e |}) = inl sh' /\
                sh_stmts sh' = filter qs (sh_stmts sh).
  Proof.
    intros Hinv Hord H.
    assert (Ecfg : cfg = with_inverse false cfg) by (destruct cfg; cbn in Hinv; subst; reflexivity).
    rewrite Ecfg in H |- *.
    rewrite (shex_class_inverse_false fa cfg thr counts _ Hord) in H.
    change (class_cnt counts (cls, {| c_direct := dfilter q (c_direct e); c_inverse := c_inverse e |}))
      with (class_cnt counts (cls, e)) in *.
    rewrite (shex_class_inverse_false fa cfg thr counts (cls, {| c_direct := dfilter q (c_direct e); c_inverse := c_inverse e |}) Hord).
    change (class_cnt counts (cls, {| c_direct := dfilter q (c_direct e); c_inverse := c_inverse e |}))
      with (class_cnt counts (cls, e)).
    set (cnt := class_cnt counts (cls, e)) in *. cbn [snd c_direct] in *.
    destruct (select_valid fa cfg cnt (sort_desc fa cnt (base_statements fa thr cnt false (c_direct e)))) as [vd|er] eqn:Ev;
      [|discriminate H].
    cbn [bind_res] in H. destruct (tune fa cfg cnt vd) as [st|er] eqn:Et; [|discriminate H].
    cbn [map_res] in H. injection H as <-.
    rewrite base_statements_dfilter, <- (filter_sort_desc fa cnt Hord qs).
    rewrite (select_valid_filter cnt _ vd Ev). cbn [bind_res].
    rewrite (tune_filter fa cfg cnt qs vd st Hord post1_prop (relax_prop cnt) Et). cbn [map_res].
    eexists. split; reflexivity.
  Qed.
End PropFilter.

(** *** dictionaries are determined by their key order and their lookups *)
Lemma dict_ext {V} (d d' : dict V) :
  NoDup (dkeys d) -> dkeys d = dkeys d' -> (forall k, In k (dkeys d) -> dget d k = dget d' k) -> d = d'.
Proof.
  revert d'. induction d as [|[k v] d IH]; intros d' Hn Hk Hg.
  - destruct d'; [reflexivity | discriminate Hk].
  - destruct d' as [|[k' v'] d']; [discriminate Hk|]. cbn [dkeys map fst] in Hk. injection Hk as -> Hk.
    inversion Hn as [|? ? Hx Hn']; subst.
    pose proof (Hg k' (or_introl eq_refl)) as H0. cbn [dget] in H0. rewrite str_eqb_refl in H0. injection H0 as ->.
    f_equal. apply IH; [exact Hn' | exact Hk|].
    intros x Hx'. specialize (Hg x (or_intror Hx')). cbn [dget] in Hg.
    assert (E : str_eqb x k' = false) by (apply str_eqb_neq; intros ->; apply Hx; exact Hx').
    rewrite E in Hg. exact Hg.
Qed.

Lemma cdict_ext (d d' : cdict) :
  NoDup (ckeys d) -> ckeys d = ckeys d' -> (forall k, In k (ckeys d) -> cget d k = cget d' k) -> d = d'.
Proof.
  revert d'. induction d as [|[k v] d IH]; intros d' Hn Hk Hg.
  - destruct d'; [reflexivity | discriminate Hk].
  - destruct d' as [|[k' v'] d']; [discriminate Hk|]. cbn [ckeys map fst] in Hk. injection Hk as -> Hk.
    inversion Hn as [|? ? Hx Hn']; subst.
    pose proof (Hg k' (or_introl eq_refl)) as H0. cbn [cget] in H0. rewrite ckey_eqb_refl in H0. subst v'.
    f_equal. apply IH; [exact Hn' | exact Hk|].
    intros x Hx'. specialize (Hg x (or_intror Hx')). cbn [cget] in Hg.
    assert (E : ckey_eqb x k' = false) by (apply ckey_eqb_neq; intros ->; apply Hx; exact Hx').
    rewrite E in Hg. exact Hg.
Qed.

Definition not_tau (tau p : str) : bool := negb (str_eqb p tau).

Lemma not_tau_true tau p : not_tau tau p = true <-> p <> tau.
Proof. unfold not_tau. rewrite negb_true_iff. apply str_eqb_neq. Qed.

Lemma pdict_wf_inner (d : pdict) p m :
  pdict_wf d -> dget d p = Some m ->
  NoDup (dkeys m) /\ forall k cd, dget m k = Some cd -> NoDup (ckeys cd).
Proof.
  intros [_ H] Hg. apply dget_In in Hg. rewrite Forall_forall in H. destruct (H _ Hg) as [A B]. cbn [snd] in *.
  split; [exact A|]. intros k cd Hk. apply dget_In in Hk. rewrite Forall_forall in B. apply (B _ Hk).
Qed.

(** two well-formed class-feature dictionaries with, outside [tau], the same
    key orders at the three levels and the same numbers, have the same part
    outside [tau] *)
Lemma pdict_filter_eq tau (d d' : pdict) :
  pdict_wf d -> pdict_wf d' ->
  filter (not_tau tau) (dkeys d) = filter (not_tau tau) (dkeys d') ->
  (forall p, p <> tau -> dkeys (psub d p) = dkeys (psub d' p)) ->
  (forall p k, p <> tau -> ckeys (csub (psub d p) k) = ckeys (csub (psub d' p) k)) ->
  (forall p k card, p <> tau -> plook d p k card = plook d' p k card) ->
  dfilter (not_tau tau) d = dfilter (not_tau tau) d'.
Proof.
  intros W W' K1 K2 K3 K4. apply dict_ext.
  - rewrite dkeys_dfilter. apply List.NoDup_filter. apply W.
  - rewrite !dkeys_dfilter. exact K1.
  - intros p Hp. rewrite dkeys_dfilter in Hp. pose proof Hp as Hp'. rewrite K1 in Hp'.
    apply filter_In in Hp, Hp'. destruct Hp as [Hin Hq]. destruct Hp' as [Hin' _].
    rewrite !dget_dfilter, Hq. apply not_tau_true in Hq.
    apply In_dkeys_dget in Hin, Hin'. destruct Hin as [m [Hm _]]. destruct Hin' as [m' [Hm' _]].
    rewrite Hm, Hm'. f_equal.
    destruct (pdict_wf_inner d p m W Hm) as [N1 N2]. destruct (pdict_wf_inner d' p m' W' Hm') as [N1' N2'].
    pose proof (K2 p Hq) as Ek. unfold psub in Ek. rewrite Hm, Hm' in Ek.
    apply dict_ext; [exact N1 | exact Ek|].
    intros k Hk. pose proof Hk as Hk'. rewrite Ek in Hk'.
    apply In_dkeys_dget in Hk, Hk'. destruct Hk as [cd [Hcd _]]. destruct Hk' as [cd' [Hcd' _]].
    rewrite Hcd, Hcd'. f_equal.
    pose proof (K3 p k Hq) as Ec. unfold psub, csub in Ec. rewrite Hm, Hm', Hcd, Hcd' in Ec.
    apply cdict_ext; [apply (N2 k cd Hcd) | exact Ec|].
    intros card _. pose proof (K4 p k card Hq) as El. unfold plook in El. rewrite Hm, Hm', Hcd, Hcd' in El. exact El.
Qed.

(** *** the key orders of the inverse features are those of the direct
    features of the reversed graph *)
Lemma filter_first_occ (f : str -> bool) l : filter f (first_occ l) = first_occ (filter f l).
Proof. rewrite <- !first_occ_fold, filter_fold_add_new. reflexivity. Qed.

Lemma filter_concat {A} (f : A -> bool) ls : filter f (List.concat ls) = List.concat (map (filter f) ls).
Proof. induction ls as [|l ls IH]; [reflexivity|]. cbn [List.concat map]. rewrite filter_app, IH. reflexivity. Qed.

Lemma pseq_reverse tau g i :
  filter (not_tau tau) (map tp (filter (fun t => touches Direct t i) (reverse_nonliteral tau g))) =
  filter (not_tau tau) (map tp (filter (fun t => touches Inverse t i) g)).
Proof.
  induction g as [|t g IH]; [reflexivity|]. unfold reverse_nonliteral in *. cbn [flat_map].
  rewrite filter_app, map_app, filter_app, IH.
  assert (ER : forall (f : triple -> bool), filter f (t :: g) = (if f t then [t] else []) ++ filter f g).
  { intros f. cbn [filter]. destruct (f t); reflexivity. }
  rewrite ER, map_app, filter_app. f_equal. unfold reverse_triple.
  destruct (str_eqb (tp t) tau) eqn:Et.
  - assert (E : forall b : bool, filter (not_tau tau) (map tp (if b then [t] else [])) = []).
    { intros [|]; [|reflexivity]. cbn. unfold not_tau. rewrite Et. reflexivity. }
    rewrite E. cbn [filter]. apply E.
  - destruct t as [s p o]. cbn [tp ts to] in *. destruct o as [o|l dt]; [|reflexivity].
    cbn [filter touches ts to tp]. destruct (str_eqb (nid o) i); reflexivity.
Qed.

Lemma class_props_reverse tau I g c :
  filter (not_tau tau) (class_props Direct I (reverse_nonliteral tau g) c) =
  filter (not_tau tau) (class_props Inverse I g c).
Proof.
  unfold class_props. rewrite !uniq_first_first_occ, !filter_first_occ, !filter_concat, !map_map. f_equal. f_equal.
  apply map_ext. intros [i cs]. cbn [fst snd]. destruct (mem_str c cs); [|reflexivity].
  unfold inst_props. rewrite !uniq_first_first_occ, !filter_first_occ. f_equal. apply pseq_reverse.
Qed.

Lemma class_type_keys_reverse tau I g c p :
  p <> tau -> iri_nodes tau g ->
  class_type_keys Direct tau I (reverse_nonliteral tau g) c p = class_type_keys Inverse tau I g c p.
Proof.
  intros Hp Hg. apply str_eqb_neq in Hp. unfold class_type_keys. f_equal. f_equal. apply map_ext. intros [i cs].
  cbn [fst snd]. destruct (mem_str c cs); [|reflexivity]. unfold inst_keys. f_equal.
  apply concat_contrib_reverse; assumption.
Qed.

Lemma class_cards_reverse tau I g c p k :
  p <> tau -> iri_nodes tau g ->
  class_cards Direct tau I (reverse_nonliteral tau g) c p k = class_cards Inverse tau I g c p k.
Proof.
  intros Hp Hg. unfold class_cards. f_equal. f_equal. apply map_ext. intros [i cs]. cbn [fst snd].
  rewrite (cnt_inverse_is_reverse tau I g i p k Hp Hg). reflexivity.
Qed.

(** *** A3, strong form: outside [tau] the inverse part of the class entry of
    the run on [g] IS the direct part of the class entry of the run on the
    reversed graph (same keys in the same order, same numbers) *)
Theorem raw_profile_inverse_is_reverse_eq cfg (I : insts) g ID P1 C0 ID' P1' C0' :
  NoDup (dkeys I) -> iri_nodes (p_tau cfg) g ->
  annotate_all (p_tau cfg) true g (adapt I) = inl ID ->
  raw_profile (set_inverse cfg true) I ID = (P1, C0) ->
  annotate_all (p_tau cfg) false (reverse_nonliteral (p_tau cfg) g) (adapt I) = inl ID' ->
  raw_profile (set_inverse cfg false) I ID' = (P1', C0') ->
  forall c e e', dget P1 c = Some e -> dget P1' c = Some e' ->
    dfilter (not_tau (p_tau cfg)) (c_inverse e) = dfilter (not_tau (p_tau cfg)) (c_direct e').
Proof.
  intros Hn Hg HA HR HA' HR' c e e' He He'.
  pose proof (cprofile_wf_dget _ _ _ (raw_profile_wf _ _ _ _ _ HR) He) as (_ & _ & W & _).
  pose proof (cprofile_wf_dget _ _ _ (raw_profile_wf _ _ _ _ _ HR') He') as (W' & _).
  destruct (profile_order_char (set_inverse cfg true) I g ID P1 C0 Hn HA HR c e He) as (_ & _ & _ & O).
  destruct (O eq_refl) as (O1 & O2 & O3).
  destruct (profile_order_char (set_inverse cfg false) I _ ID' P1' C0' Hn HA' HR' c e' He') as (O1' & O2' & O3' & _).
  destruct (raw_profile_inverse_is_reverse cfg I g ID P1 C0 ID' P1' C0' Hn Hg HA HR HA' HR') as (_ & _ & E3).
  destruct (E3 c e He) as (e'' & He'' & EL). assert (e'' = e') by congruence. subst e''.
  cbn [set_inverse p_tau] in *.
  apply pdict_filter_eq; [exact W | exact W' | | | |].
  - rewrite O1, O1'. symmetry. apply class_props_reverse.
  - intros p Hp. rewrite O2, O2'. symmetry. apply class_type_keys_reverse; assumption.
  - intros p k Hp. rewrite O3, O3'. symmetry. apply class_cards_reverse; assumption.
  - intros p k card Hp. apply (proj1 (EL p Hp)).
Qed.

(** *** the tracker does not see the reversal: it reads typing triples only *)
From Shexer Require Import Proofs.EndToEnd2.

Lemma track_plain_reverse tau m g : forall d,
  track_plain tau m (reverse_nonliteral tau g) d = track_plain tau m g d.
Proof.
  induction g as [|t g IH]; intros d; [reflexivity|]. unfold reverse_nonliteral in *. cbn [flat_map].
  unfold reverse_triple. destruct (str_eqb (tp t) tau) eqn:Et.
  - cbn [app track_plain]. destruct (relevant tau m t); [|apply IH]. destruct (annotate d t); [apply IH | reflexivity].
  - cbn [track_plain]. rewrite (relevant_tp tau m t Et).
    destruct (to t) as [o|l dt]; [|apply IH]. cbn [app track_plain].
    rewrite (relevant_tp tau m (T o (tp t) (ON (ts t))) Et). apply IH.
Qed.

Lemma track_cap_reverse tau m cap nt g : forall d st,
  track_cap tau m cap nt (reverse_nonliteral tau g) d st = track_cap tau m cap nt g d st.
Proof.
  induction g as [|t g IH]; intros d st; [reflexivity|]. unfold reverse_nonliteral in *. cbn [flat_map].
  unfold reverse_triple. destruct (str_eqb (tp t) tau) eqn:Et.
  - cbn [app track_cap]. destruct (relevant tau m t); [|apply IH].
    destruct (cap_allows tau cap st t) as [[|]|]; [|apply IH | reflexivity].
    destruct (to t) as [o|l dt]; [|reflexivity].
    destruct nt as [n|]; [|apply IH].
    match goal with |- context [if ?b then _ else _] => destruct b end; [reflexivity | apply IH].
  - assert (Es : track_cap tau m cap nt (t :: g) d st = track_cap tau m cap nt g d st).
    { cbn [track_cap]. rewrite (relevant_tp tau m t Et). reflexivity. }
    rewrite Es. destruct (to t) as [o|l dt]; [|apply IH]. cbn [app track_cap].
    rewrite (relevant_tp tau m (T o (tp t) (ON (ts t))) Et). apply IH.
Qed.

Theorem track_reverse tau m cap g : track tau m cap (reverse_nonliteral tau g) = track tau m cap g.
Proof.
  unfold track. destruct (cap <=? 0)%Z; [apply track_plain_reverse | apply track_cap_reverse].
Qed.

(** hence reading the instances from [g] and the features from the reversed
    graph IS the plain run on the reversed graph (both with the shexing stage in
    the order the code has: [RunCur.run_shapes_cur]) *)
Corollary run_shapes2_reverse fa c thr g :
  run_shapes2 fa c thr g (reverse_nonliteral (r_tau c) g) = run_shapes_cur fa c thr (reverse_nonliteral (r_tau c) g).
Proof. unfold run_shapes2, run_shapes_cur. rewrite track_reverse. reflexivity. Qed.

(** *** A4 *)

(** what a shape of the run with inverse paths on [g] and the shape of the
    same class of the run without inverse paths on the reversed graph share:
    label, class, instance count, and -- for the properties other than [tau]
    -- the incoming constraints of the one are the outgoing constraints of
    the other with the direction flag set, in the same order, with the same
    cardinalities, figures and comments *)
Definition inverse_is_reverse (tau : str) (sh_t sh_r : shape) : Prop :=
  sh_name sh_t = sh_name sh_r /\ sh_class sh_t = sh_class sh_r /\ sh_n sh_t = sh_n sh_r /\
  filter (fun s => s_inv s && not_tau tau (s_prop s)) (sh_stmts sh_t) =
  map set_inv (filter (fun s => not_tau tau (s_prop s)) (sh_stmts sh_r)).

Lemma Forall2_dicts {V W} (R : V -> W -> Prop) (d : dict V) (d' : dict W) :
  NoDup (dkeys d) -> dkeys d' = dkeys d ->
  (forall k v w, dget d k = Some v -> dget d' k = Some w -> R v w) ->
  Forall2 (fun x y => fst x = fst y /\ R (snd x) (snd y)) d d'.
Proof.
  revert d'. induction d as [|[k v] d IH]; intros d' Hn Hk HR.
  - destruct d'; [constructor | discriminate Hk].
  - destruct d' as [|[k' w] d']; [discriminate Hk|]. cbn [dkeys map fst] in Hk. injection Hk as -> Hk.
    inversion Hn as [|? ? Hx Hn']; subst. constructor.
    + split; [reflexivity|]. apply (HR k v w); cbn [dget]; rewrite str_eqb_refl; reflexivity.
    + apply IH; [exact Hn' | exact Hk|]. intros x v0 w0 Hv Hw.
      assert (E : str_eqb x k = false).
      { apply str_eqb_neq. intros ->. apply Hx. apply dmem_In. unfold dmem. rewrite Hv. reflexivity. }
      apply (HR x v0 w0); cbn [dget]; rewrite E; assumption.
Qed.

Lemma class_inverse_is_reverse fa cfg thr C cls e e' sh_t sh_r :
  order_at fa (cnt_of C cls) ->
  dfilter (not_tau (x_tau cfg)) (c_inverse e) = dfilter (not_tau (x_tau cfg)) (c_direct e') ->
  shex_class fa (with_inverse true cfg) thr C (cls, e) = inl sh_t ->
  shex_class fa (with_inverse false cfg) thr C (cls, e') = inl sh_r ->
  inverse_is_reverse (x_tau cfg) sh_t sh_r.
Proof.
  intros Hord Ed Ht Hr.
  destruct (shex_class_unfold fa _ thr C _ sh_t Ht) as (_ & _ & _ & _ & _ & N1 & N2 & N3).
  destruct (shex_class_unfold fa _ thr C _ sh_r Hr) as (_ & _ & _ & _ & _ & N1' & N2' & N3').
  cbn [fst] in *. split; [rewrite N1, N1'; reflexivity|]. split; [congruence|]. split; [congruence|].
  destruct (I2_inverse_part fa cfg thr C (cls, e) sh_t Hord Ht) as (sh1 & H1 & E1).
  set (q := not_tau (x_tau cfg)).
  destruct (shex_class_direct_dfilter fa (with_inverse false cfg) q thr C cls _ sh1 eq_refl Hord H1) as (sh1' & H1' & S1).
  destruct (shex_class_direct_dfilter fa (with_inverse false cfg) q thr C cls e' sh_r eq_refl Hord Hr) as (sh2' & H2' & S2).
  cbn [swap_entry fst snd c_direct c_inverse] in H1'.
  rewrite <- (shex_class_strip fa (with_inverse false cfg) thr C
                (cls, {| c_direct := dfilter q (c_direct e'); c_inverse := c_inverse e' |}) eq_refl) in H2'.
  unfold strip_c in H2'. cbn [fst snd c_direct] in H2'. fold q in Ed. rewrite Ed in H1'.
  assert (sh1' = sh2') by congruence. subst sh2'.
  assert (ES : filter (qs q) (sh_stmts sh1) = filter (qs q) (sh_stmts sh_r)) by congruence.
  change (fun s : stmt => q (s_prop s)) with (qs q). rewrite <- ES.
  rewrite <- (filter_map_comm set_inv (qs q) (qs q) (sh_stmts sh1)) by (intros s; reflexivity).
  rewrite <- E1. unfold is_inverse, qs.
  clear. induction (sh_stmts sh_t) as [|s l IH]; [reflexivity|]. cbn [filter].
  destruct (s_inv s); cbn [andb filter]; [destruct (q (s_prop s))|]; rewrite IH; reflexivity.
Qed.

Theorem run_inverse_is_reverse fa c thr g ns st ns' sr :
  (forall n, order_at fa n) -> r_remove_empty c = false -> iri_nodes (r_tau c) g ->
  run_shapes fa (rwith_inverse true c) thr g = inl (ns, st) ->
  run_shapes fa (rwith_inverse false c) thr (reverse_nonliteral (r_tau c) g) = inl (ns', sr) ->
  ns' = ns /\ Forall2 (inverse_is_reverse (r_tau c)) st sr.
Proof.
  intros Hord Hre Hg Ht Hr.
  apply run_shapes_decompose in Ht, Hr.
  destruct Ht as (I & P & C & ID & Nt & Tt & Pt & St). destruct Hr as (I' & P' & C' & ID' & Nr & Tr & Pr & Sr).
  change (full_ns (rwith_inverse true c)) with (full_ns c) in Nt.
  change (full_ns (rwith_inverse false c)) with (full_ns c) in Nr.
  assert (ns' = ns) by congruence. subst ns'. split; [reflexivity|].
  cbn [rwith_inverse r_tau r_cap] in Tt, Tr.
  change (mode_of (rwith_inverse true c)) with (mode_of c) in Tt.
  change (mode_of (rwith_inverse false c)) with (mode_of c) in Tr.
  rewrite track_reverse in Tr. assert (I' = I) by congruence. subst I'.
  pose proof (proj1 (track_insts_ok _ _ _ _ _ Tt)) as Hn.
  change (pcfg_of (rwith_inverse true c)) with (set_inverse (pcfg_of c) true) in Pt.
  change (pcfg_of (rwith_inverse false c)) with (set_inverse (pcfg_of c) false) in Pr.
  rewrite profile_result in Pt, Pr. cbn [set_inverse p_tau p_inverse p_remove_empty pcfg_of] in Pt, Pr.
  rewrite Hre in Pt, Pr.
  destruct (annotate_all (r_tau c) true g (adapt I)) as [ID0|] eqn:HA; [|discriminate Pt].
  destruct (annotate_all (r_tau c) false (reverse_nonliteral (r_tau c) g) (adapt I)) as [ID0'|] eqn:HA'; [|discriminate Pr].
  destruct (raw_profile (set_inverse (pcfg_of c) true) I ID0) as [P1 C1] eqn:HR.
  destruct (raw_profile (set_inverse (pcfg_of c) false) I ID0') as [P1' C1'] eqn:HR'.
  injection Pt as <- <- <-. injection Pr as <- <- <-.
  destruct (raw_profile_inverse_is_reverse (pcfg_of c) I g ID0 P1 C1 ID0' P1' C1' Hn Hg HA HR HA' HR') as (EK & EC & _).
  subst C1'.
  pose proof (raw_profile_inverse_is_reverse_eq (pcfg_of c) I g ID0 P1 C1 ID0' P1' C1 Hn Hg HA HR HA' HR') as EQ.
  destruct (profile_counts_char (set_inverse (pcfg_of c) true) I g ID0 P1 C1 Hn HA HR) as (_ & _ & NP & _).
  pose proof (Forall2_dicts (fun e e' => dfilter (not_tau (r_tau c)) (c_inverse e) = dfilter (not_tau (r_tau c)) (c_direct e'))
                P1 P1' NP EK (fun k v w Hv Hw => EQ k v w Hv Hw)) as FP.
  unfold shex in St, Sr. cbn [scfg_of x_remove_empty rwith_inverse r_remove_empty] in St, Sr. rewrite Hre in St, Sr.
  change (scfg_of (rwith_inverse true c) ns) with (with_inverse true (scfg_of c ns)) in St.
  change (scfg_of (rwith_inverse false c) ns) with (with_inverse false (scfg_of c ns)) in Sr.
  destruct (map_err (shex_class fa (with_inverse true (scfg_of c ns)) thr C1) P1) as [st0|] eqn:Mt; [|discriminate St].
  destruct (map_err (shex_class fa (with_inverse false (scfg_of c ns)) thr C1) P1') as [sr0|] eqn:Mr; [|discriminate Sr].
  injection St as <-. injection Sr as <-.
  apply map_err_Forall2 in Mt, Mr.
  clear - Hord FP Mt Mr. revert st0 sr0 Mt Mr.
  induction FP as [|[cls e] [cls' e'] P1 P1' [Ec Ed] _ IH]; intros st0 sr0 Mt Mr.
  - inversion Mt; subst. inversion Mr; subst. constructor.
  - inversion Mt as [|? sh_t ? st1 Ht Mt']; subst. inversion Mr as [|? sh_r ? sr1 Hr Mr']; subst.
    cbn [fst snd] in Ec, Ed. subst cls'. constructor; [|apply IH; assumption].
    apply (class_inverse_is_reverse fa (scfg_of c ns) thr C1 cls e e' sh_t sh_r (Hord _) Ed Ht Hr).
Qed.

(** ** C. C09 (c) without the success hypothesis on the permuted run *)

Lemma forallb_perm {A} (f : A -> bool) l l' : Permutation l l' -> forallb f l = forallb f l'.
Proof. induction 1; cbn; try congruence. destruct (f x), (f y); reflexivity. Qed.

Lemma valid_input_perm c g g' : Permutation g g' -> valid_input c g' = valid_input c g.
Proof.
  intros HP. unfold valid_input, typing_okb.
  rewrite (forallb_perm _ g g' HP), (forallb_perm (sentinel_free (r_tau c)) g g' HP). reflexivity.
Qed.

(** under [valid_input] (Props/C04.v) both runs succeed: no hypothesis on
    either outcome is left *)
Theorem e2e_keys_perm_valid fa c thr g g' :
  (r_cap c <= 0)%Z -> r_remove_empty c = false -> Permutation g g' -> valid_input c g = true ->
  exists ns shapes shapes',
    run_shapes fa c thr g = inl (ns, shapes) /\ run_shapes fa c thr g' = inl (ns, shapes') /\
    (forall cls, In cls (map sh_class shapes) <-> In cls (map sh_class shapes')) /\
    forall sh sh', In sh shapes -> In sh' shapes' -> sh_class sh = sh_class sh' ->
      sh_name sh = sh_name sh' /\ sh_n sh = sh_n sh' /\
      forall key, In key (map (skey (scfg_of c ns)) (sh_stmts sh)) <->
                  In key (map (skey (scfg_of c ns)) (sh_stmts sh')).
Proof.
  intros Hcap Hre HP Hv.
  destruct (run_total fa c thr g Hv) as (ns & shapes & H).
  assert (Hv' : valid_input c g' = true) by (rewrite (valid_input_perm c g g' HP); exact Hv).
  destruct (run_total fa c thr g' Hv') as (ns' & shapes' & H').
  destruct (e2e_keys_perm fa c thr g g' ns shapes ns' shapes' Hcap Hre HP H H') as (-> & A & B).
  exists ns, shapes, shapes'. auto.
Qed.

(** the permuted run succeeds whenever the given run does and the input is valid *)
Theorem e2e_keys_perm_total fa c thr g g' ns shapes :
  (r_cap c <= 0)%Z -> r_remove_empty c = false -> Permutation g g' -> valid_input c g = true ->
  run_shapes fa c thr g = inl (ns, shapes) ->
  exists shapes',
    run_shapes fa c thr g' = inl (ns, shapes') /\
    (forall cls, In cls (map sh_class shapes) <-> In cls (map sh_class shapes')) /\
    forall sh sh', In sh shapes -> In sh' shapes' -> sh_class sh = sh_class sh' ->
      sh_name sh = sh_name sh' /\ sh_n sh = sh_n sh' /\
      forall key, In key (map (skey (scfg_of c ns)) (sh_stmts sh)) <->
                  In key (map (skey (scfg_of c ns)) (sh_stmts sh')).
Proof.
  intros Hcap Hre HP Hv H.
  destruct (e2e_keys_perm_valid fa c thr g g' Hcap Hre HP Hv) as (ns0 & sh0 & shapes' & H0 & H' & A & B).
  assert (E : ns0 = ns /\ sh0 = shapes) by (split; congruence). destruct E as [-> ->].
  exists shapes'. auto.
Qed.

(** ** C (ii). the keys with remove_empty_shapes ON

    What the profile-level cleaning does, declaratively: a class key is kept
    iff it is an "original label" or the class has a feature (a positive
    count); from the type-key dictionaries exactly the removed class keys
    disappear. *)
Definition has_feat (cfg : pcfg) (I : insts) (G : graph) (c : str) : Prop :=
  exists dir p k card, (dir = Inverse -> p_inverse cfg = true) /\ 0 < occ dir (p_tau cfg) I G c p k card.

Lemma has_features_feat cfg (I : insts) G ID P1 C0 c e :
  NoDup (dkeys I) -> annotate_all (p_tau cfg) (p_inverse cfg) G (adapt I) = inl ID ->
  raw_profile cfg I ID = (P1, C0) -> dget P1 c = Some e ->
  (has_features (p_inverse cfg) e = true <-> has_feat cfg I G c).
Proof.
  intros Hn HA HR He. destruct (profile_entries_char cfg I G ID P1 C0 Hn HA HR c e He) as (_ & _ & Hd & Hi).
  unfold has_features, has_feat. destruct (c_direct e) as [|x l] eqn:Ed.
  - assert (ND : ~ exists p k card, 0 < occ Direct (p_tau cfg) I G c p k card).
    { intros H. apply Hd in H. apply H. reflexivity. }
    destruct (p_inverse cfg) eqn:Ei.
    + destruct (Hi eq_refl) as [_ Hi2]. destruct (c_inverse e) as [|y l'] eqn:Ev.
      * split; [discriminate|]. intros (dir & p & k & card & _ & H). exfalso. destruct dir.
        -- apply ND. eauto.
        -- assert (H' : exists p k card, 0 < occ Inverse (p_tau cfg) I G c p k card) by eauto.
           apply Hi2 in H'. apply H'. reflexivity.
      * split; [intros _|reflexivity]. destruct (proj1 Hi2) as (p & k & card & H); [discriminate|].
        exists Inverse, p, k, card. auto.
    + split; [discriminate|]. intros (dir & p & k & card & Hdir & H). exfalso. destruct dir.
      * apply ND. eauto.
      * specialize (Hdir eq_refl). discriminate Hdir.
  - split; [intros _|reflexivity]. destruct (proj1 Hd) as (p & k & card & H); [discriminate|].
    exists Direct, p, k, card. split; [discriminate | exact H].
Qed.

Lemma profile_kept_char cfg (I : insts) G P C ID :
  NoDup (dkeys I) -> profile cfg I G = inl (P, C, ID) ->
  (forall c, In c (dkeys P) <->
             In c (class_keys (targets_of cfg) I) /\
             (p_remove_empty cfg = false \/ In c (orig_labels cfg) \/ has_feat cfg I G c)) /\
  (forall c e, In (c, e) P -> forall p k ck n,
     pd_entry (c_direct e) p k ck n \/ pd_entry (c_inverse e) p k ck n ->
     In k (class_keys (targets_of cfg) I) -> In k (dkeys P)).
Proof.
  intros Hn HP. rewrite profile_result in HP.
  destruct (annotate_all (p_tau cfg) (p_inverse cfg) G (adapt I)) as [ID'|] eqn:HA; [|discriminate HP].
  destruct (raw_profile cfg I ID') as [P1 C0] eqn:HR. injection HP as HP1 _ _.
  destruct (profile_counts_char cfg I G ID' P1 C0 Hn HA HR) as (KP1 & _ & NDP1 & _).
  set (ks := if p_remove_empty cfg then shapes_to_remove (p_inverse cfg) (orig_labels cfg) P1 else []).
  assert (EP : P = remove_iteration ks P1).
  { unfold ks. destruct (p_remove_empty cfg); [symmetry; exact HP1|]. rewrite remove_iteration_nil. symmetry. exact HP1. }
  assert (EK : dkeys P = filter (not_in ks) (class_keys (targets_of cfg) I)).
  { rewrite EP, dkeys_remove_iteration, KP1. reflexivity. }
  split.
  - intros c. rewrite EK, filter_In. split.
    + intros [Hc Hk]. split; [exact Hc|]. unfold ks in Hk. destruct (p_remove_empty cfg) eqn:Ere; [|left; reflexivity].
      right. destruct (mem_str c (orig_labels cfg)) eqn:El; [left; apply mem_str_In; exact El|]. right.
      rewrite <- KP1 in Hc. apply In_dkeys_dget in Hc. destruct Hc as [e [He Hin]].
      apply (has_features_feat cfg I G ID' P1 C0 c e Hn HA HR He).
      destruct (has_features (p_inverse cfg) e) eqn:Ef; [reflexivity|]. exfalso.
      unfold not_in in Hk. apply negb_true_iff, mem_str_false in Hk. apply Hk.
      apply In_shapes_to_remove. exists e. split; [exact Hin|]. split; [apply mem_str_false; exact El | exact Ef].
    + intros [Hc Hwhy]. split; [exact Hc|]. unfold not_in. apply negb_true_iff, mem_str_false. intros Hin.
      unfold ks in Hin. destruct (p_remove_empty cfg) eqn:Ere; [|destruct Hin].
      apply In_shapes_to_remove in Hin. destruct Hin as (e & Hin & Hl & Hf).
      destruct Hwhy as [H|[H|H]]; [discriminate H | contradiction|].
      pose proof (In_dget_NoDup P1 c e NDP1 Hin) as He.
      apply (has_features_feat cfg I G ID' P1 C0 c e Hn HA HR He) in H. congruence.
  - intros c e Hce p k ck n He Hk. rewrite EK. apply filter_In. split; [exact Hk|].
    rewrite EP in Hce. apply In_remove_iteration in Hce. destruct Hce as (e1 & _ & -> & _).
    unfold not_in. apply negb_true_iff, mem_str_false.
    destruct He as [(kd & cd & H1 & H2 & _)|(kd & cd & H1 & H2 & _)]; cbn [clean_entry c_direct c_inverse] in H1;
      destruct (In_remove_keys_pdict _ _ _ _ _ _ H1 H2) as (_ & _ & _ & Hn'); exact Hn'.
Qed.

(** a key passes: as [key_passes_occ], with a type key the cleaning kept *)
Definition key_passes_occ_kept (fa : FreqAlg) (c : rcfg) (thr : F fa) (I : insts) (g : graph)
           (kept : str -> Prop) (cls : str) (inv : bool) (p : str) (vc : vclass) : Prop :=
  (inv = true -> r_inverse c = true) /\
  exists k ck, value_class (r_tau c) p [k] = vc /\
    0 < occ (dir_of inv) (r_tau c) I g cls p k ck /\
    fle fa thr (ratio fa (occ (dir_of inv) (r_tau c) I g cls p k ck) (class_count I cls)) = true /\
    kept k.

(** C02 for the shapes before the shape-level cleaning, whatever
    remove_empty_shapes: soundness AND completeness *)
Theorem run_raw_keys_iff_occ fa c thr g ns shapes :
  run_raw fa c thr g = inl (ns, shapes) ->
  exists I P C ID,
    track (r_tau c) (mode_of c) (r_cap c) g = inl I /\
    profile (pcfg_of c) I g = inl (P, C, ID) /\
    map sh_class shapes = dkeys P /\
    forall sh, In sh shapes ->
      sh_name sh = shape_name (r_shapes_ns c) (sh_class sh) /\
      sh_n sh = class_count I (sh_class sh) /\
      forall inv p vc,
        In (inv, p, vc) (map (skey (scfg_of c ns)) (sh_stmts sh)) <->
        key_passes_occ_kept fa c thr I g
          (fun k => In k (class_keys (targets_of (pcfg_of c)) I) -> In k (dkeys P)) (sh_class sh) inv p vc.
Proof.
  intros H. unfold run_raw in H. destruct (full_ns c) as [ns0|]; [|discriminate H].
  destruct (front c g) as [[P C]|] eqn:Hf; [|discriminate H].
  destruct (map_err (shex_class fa (scfg_of c ns0) thr C) P) as [l|] eqn:Em; [|discriminate H].
  injection H as <- <-. destruct (front_inl c g P C Hf) as (I & ID & HT & HP).
  change (tmode_of c) with (mode_of c) in HT. exists I, P, C, ID. split; [exact HT|]. split; [exact HP|].
  apply map_err_Forall2 in Em.
  pose proof (proj1 (track_insts_ok _ _ _ _ _ HT)) as Hn.
  destruct (profile_kept_char (pcfg_of c) I g P C ID Hn HP) as [_ Hkept].
  split.
  { symmetry. unfold dkeys. apply Forall2_map_eq. eapply Forall2_impl_In; [|exact Em]. cbn. intros ce sh _ _ Hs.
    destruct (shex_class_unfold fa _ thr C ce sh Hs) as (_ & _ & _ & _ & _ & _ & E2 & _). symmetry. exact E2. }
  intros sh Hsh. destruct (ShexBasics.Forall2_In_r _ _ _ _ Em Hsh) as [ce [Hce Hs]].
  destruct (shex_class_unfold fa _ thr C ce sh Hs) as (_ & _ & _ & _ & _ & E1 & E2 & E3).
  pose proof (cnt_of_class_count c g I P C ID HT HP _ (P_keys_sub c g I P C ID HT HP ce Hce)) as Ecc.
  rewrite E2. split; [exact E1|]. split; [rewrite E3; exact Ecc|].
  intros inv p vc. rewrite (shex_class_keys fa _ thr C ce sh Hs inv p vc), Ecc. split.
  - intros (k & ck & n & He & Hv & Hfle).
    destruct (pd_entry_occ c g ns0 I P C ID HT HP ce inv p k ck n Hce He) as (En & Hp & Hi).
    split; [exact Hi|]. exists k, ck. subst n. split; [exact Hv|]. split; [exact Hp|]. split; [exact Hfle|].
    destruct ce as [cls e]. apply (Hkept cls e Hce p k ck (occ (dir_of inv) (r_tau c) I g (fst (cls, e)) p k ck)).
    unfold class_pd in He. cbn [snd] in He.
    destruct inv; [|left; exact He]. destruct (x_inverse (scfg_of c ns0)); [right; exact He|].
    destruct He as (kd & cd & [] & _).
  - intros (Hi & k & ck & Hv & Hp & Hfle & Hk).
    exists k, ck, (occ (dir_of inv) (r_tau c) I g (fst ce) p k ck). split; [|split; [exact Hv | exact Hfle]].
    apply (occ_pd_entry c g ns0 I P C ID HT HP ce inv p k ck Hce Hi Hk Hp).
Qed.

(** hence the keys of the raw shapes are invariant under permutation of the
    statements: any setting of remove_empty_shapes, any threshold *)
Lemma has_feat_perm cfg I I' g g' cls :
  insts_equiv I I' -> Permutation g g' -> has_feat cfg I g cls -> has_feat cfg I' g' cls.
Proof.
  intros He HP (dir & p & k & card & Hd & H). exists dir, p, k, card. split; [exact Hd|].
  rewrite <- (occ_perm_equiv dir (p_tau cfg) I I' g g' cls p k card He HP). exact H.
Qed.

Lemma kept_keys_perm cfg I I' g g' P C ID P' C' ID' :
  insts_equiv I I' -> Permutation g g' ->
  profile cfg I g = inl (P, C, ID) -> profile cfg I' g' = inl (P', C', ID') ->
  forall cls, In cls (dkeys P) -> In cls (dkeys P').
Proof.
  intros He HP H H' cls Hin. pose proof He as (N1 & N2 & _).
  destruct (profile_kept_char cfg I g P C ID N1 H) as [K _]. destruct (profile_kept_char cfg I' g' P' C' ID' N2 H') as [K' _].
  apply K in Hin. destruct Hin as [A B]. apply K'. split; [apply (class_keys_insts_equiv _ I I' cls He); exact A|].
  destruct B as [B|[B|B]]; [left; exact B | right; left; exact B | right; right].
  apply (has_feat_perm cfg I I' g g' cls He HP B).
Qed.

Theorem run_raw_keys_perm fa c thr g g' ns shapes ns' shapes' :
  (r_cap c <= 0)%Z -> Permutation g g' ->
  run_raw fa c thr g = inl (ns, shapes) -> run_raw fa c thr g' = inl (ns', shapes') ->
  ns' = ns /\
  (forall cls, In cls (map sh_class shapes) <-> In cls (map sh_class shapes')) /\
  forall sh sh', In sh shapes -> In sh' shapes' -> sh_class sh = sh_class sh' ->
    sh_name sh = sh_name sh' /\ sh_n sh = sh_n sh' /\
    forall key, In key (map (skey (scfg_of c ns)) (sh_stmts sh)) <->
                In key (map (skey (scfg_of c ns)) (sh_stmts sh')).
Proof.
  intros Hcap HP H H'.
  assert (Ens : ns' = ns).
  { unfold run_raw in H, H'. destruct (full_ns c) as [ns0|]; [|discriminate H].
    destruct (front c g) as [[P C]|]; [|discriminate H]. destruct (front c g') as [[P' C']|]; [|discriminate H'].
    destruct (map_err _ P); [|discriminate H]. destruct (map_err _ P'); [|discriminate H'].
    injection H as <- _. injection H' as <- _. reflexivity. }
  subst ns'. split; [reflexivity|].
  destruct (run_raw_keys_iff_occ fa c thr g ns shapes H) as (I & P & C & ID & HT & HPr & HC & HK).
  destruct (run_raw_keys_iff_occ fa c thr g' ns shapes' H') as (I' & P' & C' & ID' & HT' & HPr' & HC' & HK').
  destruct (track_perm _ _ _ g g' I Hcap HP HT) as (I'' & HT'' & He).
  assert (I'' = I') by congruence. subst I''.
  pose proof (insts_equiv_sym I I' He) as He'. pose proof (Permutation_sym HP) as HP'.
  assert (Hkeys : forall cls, In cls (dkeys P) <-> In cls (dkeys P')).
  { intros cls. split.
    - apply (kept_keys_perm (pcfg_of c) I I' g g' P C ID P' C' ID' He HP HPr HPr').
    - apply (kept_keys_perm (pcfg_of c) I' I g' g P' C' ID' P C ID He' HP' HPr' HPr). }
  split; [intros cls; rewrite HC, HC'; apply Hkeys|].
  intros sh sh' Hsh Hsh' Ecls. destruct (HK sh Hsh) as (Enm & En & Hk). destruct (HK' sh' Hsh') as (Enm' & En' & Hk').
  split; [rewrite Enm, Enm', Ecls; reflexivity|].
  split; [rewrite En, En', Ecls; apply class_count_insts_equiv, He|].
  assert (Hone : forall (I1 I2 : insts) g1 g2 (P1 P2 : cprofile) cls inv p vc,
            insts_equiv I1 I2 -> Permutation g1 g2 -> (forall x, In x (dkeys P1) <-> In x (dkeys P2)) ->
            key_passes_occ_kept fa c thr I1 g1
              (fun k => In k (class_keys (targets_of (pcfg_of c)) I1) -> In k (dkeys P1)) cls inv p vc ->
            key_passes_occ_kept fa c thr I2 g2
              (fun k => In k (class_keys (targets_of (pcfg_of c)) I2) -> In k (dkeys P2)) cls inv p vc).
  { intros I1 I2 g1 g2 P1 P2 cls inv p vc E12 HP12 HK12 (Hi & k & ck & Hv & Hp & Hf & Hkk).
    split; [exact Hi|]. exists k, ck.
    rewrite <- (occ_perm_equiv (dir_of inv) (r_tau c) I1 I2 g1 g2 cls p k ck E12 HP12).
    rewrite <- (class_count_insts_equiv I1 I2 cls E12). split; [exact Hv|]. split; [exact Hp|]. split; [exact Hf|].
    intros Hin. apply HK12, Hkk. apply (class_keys_insts_equiv _ I1 I2 k E12). exact Hin. }
  intros [[inv p] vc]. rewrite Hk, Hk', Ecls. split.
  - apply Hone; assumption.
  - apply Hone; [exact He' | exact HP'|]. intros x. symmetry. apply Hkeys.
Qed.

(** *** C09 (c) for ANY setting of remove_empty_shapes, binary64, thresholds
    <= 1, class IRIs not starting with '%'/"@": the shape-level cleaning is
    the identity in both runs (EndToEnd2's no-empty-shape lemmas) *)
From Shexer Require Import Proofs.Bin64Round Proofs.FreqLaws.

Lemma class_iris_ok_perm c g g' : Permutation g g' -> class_iris_ok c g' = class_iris_ok c g.
Proof. intros HP. unfold class_iris_ok. rewrite (forallb_perm _ g g' HP). reflexivity. Qed.

Lemma run_shapes_is_raw c thr g ns shapes :
  class_iris_ok c g = true -> wf_frac thr -> fle BAlg thr (fone BAlg) = true ->
  N.of_nat (List.length g) < 2 ^ 53 ->
  run_shapes BAlg c thr g = inl (ns, shapes) -> run_raw BAlg c thr g = inl (ns, shapes).
Proof.
  intros Hcls Hw Hle Hg H. destruct (r_remove_empty c) eqn:Hre.
  - apply (run_shapes_raw_nonempty BAlg c thr g ns shapes H). intros ns' l.
    apply (run_raw_nonempty_remove BAlg okN53 wf_frac BAlg_laws c thr g ns' l Hre Hcls Hw Hle (okN53_of_graph g Hg)).
  - rewrite <- (run_raw_keep BAlg c thr g Hre). exact H.
Qed.

Theorem e2e_keys_perm_any c thr g g' ns shapes ns' shapes' :
  (r_cap c <= 0)%Z -> Permutation g g' ->
  class_iris_ok c g = true -> wf_frac thr -> fle BAlg thr (fone BAlg) = true ->
  N.of_nat (List.length g) < 2 ^ 53 ->
  run_shapes BAlg c thr g = inl (ns, shapes) -> run_shapes BAlg c thr g' = inl (ns', shapes') ->
  ns' = ns /\
  (forall cls, In cls (map sh_class shapes) <-> In cls (map sh_class shapes')) /\
  forall sh sh', In sh shapes -> In sh' shapes' -> sh_class sh = sh_class sh' ->
    sh_name sh = sh_name sh' /\ sh_n sh = sh_n sh' /\
    forall key, In key (map (skey (scfg_of c ns)) (sh_stmts sh)) <->
                In key (map (skey (scfg_of c ns)) (sh_stmts sh')).
Proof.
  intros Hcap HP Hcls Hw Hle Hg H H'.
  assert (Hcls' : class_iris_ok c g' = true) by (rewrite (class_iris_ok_perm c g g' HP); exact Hcls).
  assert (Hg' : N.of_nat (List.length g') < 2 ^ 53) by (rewrite <- (Permutation_length HP); exact Hg).
  apply (run_raw_keys_perm BAlg c thr g g' ns shapes ns' shapes' Hcap HP).
  - apply run_shapes_is_raw; assumption.
  - apply run_shapes_is_raw; assumption.
Qed.

(** ... and with no hypothesis on the outcomes: C04's domain without its
    condition (iii) (EndToEnd2 [run_total_valid]) *)
Definition valid_input_le1 (c : rcfg) (g : graph) : bool :=
  typing_okb (r_tau c) g && forallb (sentinel_free (r_tau c)) g && prefix_free c && class_iris_ok c g.

Lemma valid_input_le1_perm c g g' : Permutation g g' -> valid_input_le1 c g' = valid_input_le1 c g.
Proof.
  intros HP. unfold valid_input_le1, typing_okb.
  rewrite (forallb_perm _ g g' HP), (forallb_perm (sentinel_free (r_tau c)) g g' HP), (class_iris_ok_perm c g g' HP).
  reflexivity.
Qed.

Theorem e2e_keys_perm_valid_any c thr g g' :
  (r_cap c <= 0)%Z -> Permutation g g' -> valid_input_le1 c g = true ->
  wf_frac thr -> fle BAlg thr (fone BAlg) = true -> N.of_nat (List.length g) < 2 ^ 53 ->
  exists ns shapes shapes',
    run_shapes BAlg c thr g = inl (ns, shapes) /\ run_shapes BAlg c thr g' = inl (ns, shapes') /\
    (forall cls, In cls (map sh_class shapes) <-> In cls (map sh_class shapes')) /\
    forall sh sh', In sh shapes -> In sh' shapes' -> sh_class sh = sh_class sh' ->
      sh_name sh = sh_name sh' /\ sh_n sh = sh_n sh' /\
      forall key, In key (map (skey (scfg_of c ns)) (sh_stmts sh)) <->
                  In key (map (skey (scfg_of c ns)) (sh_stmts sh')).
Proof.
  intros Hcap HP Hv Hw Hle Hg.
  assert (Hv' : valid_input_le1 c g' = true) by (rewrite (valid_input_le1_perm c g g' HP); exact Hv).
  assert (Hg' : N.of_nat (List.length g') < 2 ^ 53) by (rewrite <- (Permutation_length HP); exact Hg).
  destruct (run_total_valid c thr g Hw Hle Hg Hv) as (ns & shapes & H).
  destruct (run_total_valid c thr g' Hw Hle Hg' Hv') as (ns' & shapes' & H').
  assert (Hcls : class_iris_ok c g = true).
  { unfold valid_input_le1 in Hv. apply andb_true_iff in Hv. apply Hv. }
  destruct (e2e_keys_perm_any c thr g g' ns shapes ns' shapes' Hcap HP Hcls Hw Hle Hg H H') as (-> & A & B).
  exists ns, shapes, shapes'. auto.
Qed.
