(** * End-to-end, third part.

    A. C14, second half: the inverse features of a graph are the direct
       features of the graph with every non-literal, non-typing triple
       reversed ([reverse_nonliteral]), for a fixed instance dictionary.
       A1 [cnt_inverse_is_reverse], A2 [occ_inverse_is_reverse],
       A3 [profile_inverse_is_reverse] (+ order: [class_props_reverse],
       [class_type_keys_reverse], [class_cards_reverse]).
    B. C09, blank-node renaming: [track_rename], [cnt_rename], [occ_rename],
       [class_count_rename], [profile_rename], [e2e_keys_rename].

    No definition of Model/ or Spec/ is changed; everything here is a lemma
    about them. *)
From Coq Require Import List Ascii String ZArith NArith Bool Lia Permutation.
From Shexer Require Import Lib.PyStr Lib.Dict Lib.Bin64 Gen.Consts Spec.Rdf Model.Tracker Model.Profiler
  Model.Tokens Model.Freq Model.FreqInst Model.Shexing Model.Run Model.Run2 Spec.Counts
  Proofs.DictLemmas Proofs.ProfileChar Proofs.ProfileOrder Proofs.ShexLemmas Proofs.ShexKeys
  Proofs.EndToEnd.
Import ListNotations.
Local Open Scope N_scope.

(** ** A. reversing the non-literal triples *)

(** a typing triple stays; any other triple with a node object is turned
    around; a literal-object triple has no inverse and disappears *)
Definition reverse_triple (tau : str) (t : triple) : list triple :=
  if str_eqb (tp t) tau then [t]
  else match to t with
       | ON o => [T o (tp t) (ON (ts t))]
       | OL _ _ => []
       end.

Definition reverse_nonliteral (tau : str) (g : graph) : graph := flat_map (reverse_triple tau) g.

(** every subject and every node object of a non-typing triple is an IRI *)
Definition iri_triple (tau : str) (t : triple) : bool :=
  str_eqb (tp t) tau ||
  (match nk (ts t) with KIri => true | KBnode => false end &&
   match to t with ON (Node KBnode _) => false | _ => true end).

Definition iri_nodes (tau : str) (g : graph) : Prop := forall t, In t g -> iri_triple tau t = true.

Lemma iri_triple_subject tau t :
  iri_triple tau t = true -> str_eqb (tp t) tau = false -> nk (ts t) = KIri.
Proof.
  unfold iri_triple. intros H E. rewrite E in H. cbn [orb] in H. apply andb_true_iff in H.
  destruct H as [H _]. destruct (nk (ts t)); [reflexivity | discriminate H].
Qed.

(** *** A1, one triple: [keys_inverse] on (s p o) against [keys_direct] on
    (o p s) *)
Lemma keys_inverse_is_direct_reversed tau I s p o :
  str_eqb p tau = false -> nk s = KIri ->
  keys_inverse tau I (T s p (ON o)) = keys_direct tau I (T o p (ON s)).
Proof.
  intros Hp Hs. unfold keys_inverse, keys_direct. cbn [ts tp to]. rewrite Hp, Hs. reflexivity.
Qed.

(** ... and the converse: for a non-typing property they are equal ONLY IF the
    subject is an IRI or has no class in [I] (Q4) *)
Lemma keys_inverse_is_direct_reversed_iff tau I s p o :
  str_eqb p tau = false ->
  (keys_inverse tau I (T s p (ON o)) = keys_direct tau I (T o p (ON s)) <->
   nk s = KIri \/ classes_of I (nid s) = []).
Proof.
  intros Hp. unfold keys_inverse, keys_direct. cbn [ts tp to]. rewrite Hp.
  destruct (nk s) eqn:Ek.
  - split; [left; reflexivity | reflexivity].
  - unfold shape_labels. split.
    + intros H. right. injection H as H. destruct (classes_of I (nid s)); [reflexivity | discriminate H].
    + intros [H|H]; [discriminate H | rewrite H; reflexivity].
Qed.

(** the keys one triple gives to [(i, p)], list against list *)
Lemma contrib_reverse_triple tau I t i p :
  str_eqb p tau = false -> iri_triple tau t = true ->
  List.concat (map (fun t' => contrib Direct tau I t' i p) (reverse_triple tau t)) =
  contrib Inverse tau I t i p.
Proof.
  intros Hp Hi. unfold reverse_triple. destruct (str_eqb (tp t) tau) eqn:Et.
  - (* a typing triple contributes nothing to a property other than tau *)
    apply str_eqb_eq in Et.
    assert (E : str_eqb (tp t) p = false).
    { apply str_eqb_neq. intros E. rewrite Et in E. subst p. rewrite str_eqb_refl in Hp. discriminate Hp. }
    cbn [map List.concat]. rewrite app_nil_r. unfold contrib. rewrite E, andb_false_r.
    destruct (to t); [rewrite andb_false_r|]; reflexivity.
  - pose proof (iri_triple_subject tau t Hi Et) as Hs. destruct t as [s q o]. cbn [ts tp to] in *.
    destruct o as [o|l dt]; [|reflexivity].
    cbn [map List.concat]. rewrite app_nil_r. unfold contrib. cbn [ts tp to].
    destruct (str_eqb (nid o) i && str_eqb q p) eqn:E; [|reflexivity].
    apply andb_true_iff in E. destruct E as [_ E]. apply str_eqb_eq in E. subst q.
    symmetry. apply keys_inverse_is_direct_reversed; assumption.
Qed.

Lemma concat_contrib_reverse tau I g i p :
  str_eqb p tau = false -> iri_nodes tau g ->
  List.concat (map (fun t => contrib Direct tau I t i p) (reverse_nonliteral tau g)) =
  List.concat (map (fun t => contrib Inverse tau I t i p) g).
Proof.
  intros Hp. induction g as [|t g IH]; intros Hg; [reflexivity|].
  unfold reverse_nonliteral. cbn [flat_map map List.concat]. rewrite map_app, concat_app.
  rewrite (contrib_reverse_triple tau I t i p Hp (Hg t (or_introl eq_refl))).
  f_equal. apply IH. intros t' Ht'. apply Hg. right. exact Ht'.
Qed.

Lemma count_in_app k l1 l2 : count_in k (l1 ++ l2) = count_in k l1 + count_in k l2.
Proof. induction l1 as [|x l1 IH]; cbn [app count_in]; [reflexivity|]. rewrite IH. lia. Qed.

Lemma cnt_as_concat dir tau I g i p k :
  cnt dir tau I g i p k = count_in k (List.concat (map (fun t => contrib dir tau I t i p) g)).
Proof.
  induction g as [|t g IH]; [reflexivity|]. rewrite cnt_cons, IH. cbn [map List.concat].
  rewrite count_in_app. reflexivity.
Qed.

(** *** A1 *)
Theorem cnt_inverse_is_reverse tau I g i p k :
  p <> tau -> iri_nodes tau g ->
  cnt Inverse tau I g i p k = cnt Direct tau I (reverse_nonliteral tau g) i p k.
Proof.
  intros Hp Hg. apply str_eqb_neq in Hp. rewrite !cnt_as_concat.
  rewrite (concat_contrib_reverse tau I g i p Hp Hg). reflexivity.
Qed.

(** *** A2 *)
Theorem occ_inverse_is_reverse tau I g c p k card :
  p <> tau -> iri_nodes tau g ->
  occ Inverse tau I g c p k card = occ Direct tau I (reverse_nonliteral tau g) c p k card.
Proof.
  intros Hp Hg. unfold occ. apply sumN_map_ext. intros ie _.
  rewrite (cnt_inverse_is_reverse tau I g (fst ie) p k Hp Hg). reflexivity.
Qed.

(** the documented exclusion: a blank-node subject that is an instance.
    [_:b p o], [_:b] listed for class C: the incoming link of [o] carries the
    kind only, the outgoing link of [o] in the reversed graph carries the
    shape reference too *)
Definition rv_tau : str := Str "http://www.w3.org/1999/02/22-rdf-syntax-ns#type".
Definition rv_p : str := Str "http://ex.org/p".
Definition rv_C : str := Str "http://ex.org/C".
Definition rv_b : node := Node KBnode (Str "_:b").
Definition rv_o : node := Node KIri (Str "http://ex.org/o").
Definition rv_I : insts := [(nid rv_b, [rv_C]); (nid rv_o, [rv_C])].
Definition rv_g : graph := [T rv_b rv_p (ON rv_o)].

Lemma keys_inverse_is_direct_reversed_bnode_refuted :
  exists tau I s p o,
    str_eqb p tau = false /\ nk s = KBnode /\
    keys_inverse tau I (T s p (ON o)) = [c_BNODE_ELEM_TYPE] /\
    keys_direct tau I (T o p (ON s)) = [c_BNODE_ELEM_TYPE; shape_name c_SHAPES_DEFAULT_NAMESPACE rv_C] /\
    keys_inverse tau I (T s p (ON o)) <> keys_direct tau I (T o p (ON s)).
Proof.
  exists rv_tau, rv_I, rv_b, rv_p, rv_o. split; [vm_compute; reflexivity|]. split; [reflexivity|].
  split; [vm_compute; reflexivity|]. split; [vm_compute; reflexivity|]. vm_compute. discriminate.
Qed.

Lemma cnt_inverse_is_reverse_bnode_refuted :
  exists tau I g i p k,
    p <> tau /\ ~ iri_nodes tau g /\
    cnt Inverse tau I g i p k = 0 /\ cnt Direct tau I (reverse_nonliteral tau g) i p k = 1.
Proof.
  exists rv_tau, rv_I, rv_g, (nid rv_o), rv_p, (shape_name c_SHAPES_DEFAULT_NAMESPACE rv_C).
  split; [intros H; vm_compute in H; discriminate H|]. split.
  - intros H. specialize (H _ (or_introl eq_refl)). vm_compute in H. discriminate H.
  - split; vm_compute; reflexivity.
Qed.

(** *** the feature pass succeeds on the reversed graph iff on the graph *)
Lemma In_reverse_nonliteral tau g t' :
  In t' (reverse_nonliteral tau g) <-> exists t, In t g /\ In t' (reverse_triple tau t).
Proof. unfold reverse_nonliteral. apply in_flat_map. Qed.

Lemma bad_triple_reverse tau I g :
  (exists t, In t g /\ bad_triple tau I t) <->
  (exists t, In t (reverse_nonliteral tau g) /\ bad_triple tau I t).
Proof.
  split.
  - intros (t & Ht & Hb). exists t. split; [|exact Hb]. apply In_reverse_nonliteral. exists t. split; [exact Ht|].
    unfold reverse_triple. destruct Hb as (_ & E & _). rewrite E, str_eqb_refl. left; reflexivity.
  - intros (t' & Ht' & Hb). apply In_reverse_nonliteral in Ht'. destruct Ht' as (t & Ht & Hin).
    unfold reverse_triple in Hin. destruct (str_eqb (tp t) tau) eqn:Et.
    + destruct Hin as [<-|[]]. exists t. auto.
    + exfalso. destruct (to t) as [o|l dt]; [|destruct Hin]. destruct Hin as [<-|[]].
      destruct Hb as (_ & E & _). cbn [tp] in E. rewrite E, str_eqb_refl in Et. discriminate Et.
Qed.

Lemma annotate_all_ok_reverse tau inv inv' I g :
  (exists ID, annotate_all tau inv g (adapt I) = inl ID) <->
  (exists ID, annotate_all tau inv' (reverse_nonliteral tau g) (adapt I) = inl ID).
Proof.
  rewrite !annotate_all_ok_iff. split.
  - intros H t Ht Hb. destruct (proj2 (bad_triple_reverse tau I g) (ex_intro _ t (conj Ht Hb))) as (t0 & H0 & Hb0).
    apply (H t0 H0 Hb0).
  - intros H t Ht Hb. destruct (proj1 (bad_triple_reverse tau I g) (ex_intro _ t (conj Ht Hb))) as (t0 & H0 & Hb0).
    apply (H t0 H0 Hb0).
Qed.

(** *** A3: the class profile *)

Definition pcfg_inv (b : bool) (cfg : pcfg) : pcfg := set_inverse cfg b.

(** raw profiles (before the profile-level cleaning): same class keys in the
    same order, same class counts; for every class and every property other
    than the instantiation property, the inverse part of the run on [g] and
    the direct part of the run on the reversed graph hold the same number
    under every lookup, and the same entries exist *)
Theorem raw_profile_inverse_is_reverse cfg (I : insts) g ID P1 C0 ID' P1' C0' :
  NoDup (dkeys I) -> iri_nodes (p_tau cfg) g ->
  annotate_all (p_tau cfg) true g (adapt I) = inl ID ->
  raw_profile (set_inverse cfg true) I ID = (P1, C0) ->
  annotate_all (p_tau cfg) false (reverse_nonliteral (p_tau cfg) g) (adapt I) = inl ID' ->
  raw_profile (set_inverse cfg false) I ID' = (P1', C0') ->
  dkeys P1' = dkeys P1 /\ C0' = C0 /\
  forall c e, dget P1 c = Some e ->
    exists e', dget P1' c = Some e' /\
      forall p, p <> p_tau cfg ->
        (forall k card, plook (c_inverse e) p k card = plook (c_direct e') p k card) /\
        (forall k, pmem (c_inverse e) p k = pmem (c_direct e') p k).
Proof.
  intros Hn Hg HA HR HA' HR'.
  pose proof (profile_counts_char (set_inverse cfg true) I g ID P1 C0 Hn HA HR) as (K1 & K2 & K3 & K4 & K5).
  pose proof (profile_counts_char (set_inverse cfg false) I (reverse_nonliteral (p_tau cfg) g) ID' P1' C0' Hn HA' HR')
    as (K1' & K2' & K3' & K4' & K5').
  change (targets_of (set_inverse cfg true)) with (targets_of cfg) in K1.
  change (targets_of (set_inverse cfg false)) with (targets_of cfg) in K1'.
  split; [congruence|]. split.
  - unfold raw_profile in HR, HR'. change (targets_of (set_inverse cfg true)) with (targets_of cfg) in HR.
    change (targets_of (set_inverse cfg false)) with (targets_of cfg) in HR'.
    destruct (init_annotated I (init_targets (targets_of cfg))) as [P0 C00]. congruence.
  - intros c e He.
    assert (Hin : In c (dkeys P1')).
    { rewrite K1', <- K1. apply dmem_In. unfold dmem. rewrite He. reflexivity. }
    apply In_dkeys_dget in Hin. destruct Hin as [e' [He' _]]. exists e'. split; [exact He'|].
    intros p Hp. destruct (K5 c e He) as (_ & _ & D3). cbn [set_inverse p_inverse] in D3.
    destruct (K5' c e' He') as (D1' & D2' & _). cbn [set_inverse p_tau] in *.
    destruct D3 as [D3 D4]. split.
    + intros k card. rewrite D3, D1'. apply occ_inverse_is_reverse; assumption.
    + intros k. apply eq_true_iff_eq. rewrite D4, D2'. split; intros [card H]; exists card.
      * rewrite <- occ_inverse_is_reverse; assumption.
      * rewrite occ_inverse_is_reverse; assumption.
Qed.

(** the same for the result of [profile], profile-level cleaning off: the run
    on the reversed graph succeeds whenever the run with inverse paths does *)
Theorem profile_inverse_is_reverse cfg (I : insts) g P C ID :
  NoDup (dkeys I) -> iri_nodes (p_tau cfg) g -> p_remove_empty cfg = false ->
  profile (set_inverse cfg true) I g = inl (P, C, ID) ->
  exists P' ID',
    profile (set_inverse cfg false) I (reverse_nonliteral (p_tau cfg) g) = inl (P', C, ID') /\
    dkeys P' = dkeys P /\
    forall c e, dget P c = Some e ->
      exists e', dget P' c = Some e' /\
        forall p, p <> p_tau cfg ->
          (forall k card, plook (c_inverse e) p k card = plook (c_direct e') p k card) /\
          (forall k, pmem (c_inverse e) p k = pmem (c_direct e') p k).
Proof.
  intros Hn Hg Hre HP. rewrite profile_result in HP. cbn [set_inverse p_tau p_inverse p_remove_empty] in HP.
  rewrite Hre in HP.
  destruct (annotate_all (p_tau cfg) true g (adapt I)) as [ID0|] eqn:HA; [|discriminate HP].
  destruct (raw_profile (set_inverse cfg true) I ID0) as [P1 C0] eqn:HR. injection HP as <- <- <-.
  destruct (proj1 (annotate_all_ok_reverse (p_tau cfg) true false I g) (ex_intro _ _ HA)) as [ID' HA'].
  destruct (raw_profile (set_inverse cfg false) I ID') as [P1' C0'] eqn:HR'.
  destruct (raw_profile_inverse_is_reverse cfg I g ID0 P1 C0 ID' P1' C0' Hn Hg HA HR HA' HR') as (E1 & E2 & E3).
  exists P1', ID'. split; [|split; [exact E1 | exact E3]].
  rewrite profile_result. cbn [set_inverse p_tau p_inverse p_remove_empty]. rewrite Hre, HA', HR', E2. reflexivity.
Qed.

(** [iri_nodes], decided *)
Definition iri_nodesb (tau : str) (g : graph) : bool := forallb (iri_triple tau) g.

Lemma iri_nodesb_ok tau g : iri_nodesb tau g = true <-> iri_nodes tau g.
Proof. unfold iri_nodesb, iri_nodes. apply forallb_forall. Qed.

Lemma iri_nodes_unfold tau g :
  iri_nodes tau g <->
  forall t, In t g -> tp t <> tau ->
    nk (ts t) = KIri /\ forall o, to t = ON o -> nk o = KIri.
Proof.
  unfold iri_nodes, iri_triple. split.
  - intros H t Ht Hp. specialize (H t Ht). apply str_eqb_neq in Hp. rewrite Hp in H. cbn [orb] in H.
    apply andb_true_iff in H. destruct H as [H1 H2]. split.
    + destruct (nk (ts t)); [reflexivity | discriminate H1].
    + intros o Eo. rewrite Eo in H2. destruct o as [[|] id]; [reflexivity | discriminate H2].
  - intros H t Ht. destruct (str_eqb (tp t) tau) eqn:E; [reflexivity|]. cbn [orb].
    apply str_eqb_neq in E. destruct (H t Ht E) as [H1 H2]. rewrite H1. cbn [andb].
    destruct (to t) as [[[|] id]|]; try reflexivity. specialize (H2 _ eq_refl). discriminate H2.
Qed.
