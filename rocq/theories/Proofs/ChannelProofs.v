(** * Lemmas of property C08 (delivery channels).  Never imported by [Model/]. *)
From Coq Require Import List Ascii String ZArith Bool Lia Arith.
From Shexer Require Import Lib.PyStr Lib.Dict Gen.Consts Spec.Rdf Model.Tracker Model.Profiler
     Model.Channels Spec.ChannelSpec.
Import ListNotations.

(** ** A. streams *)

Definition sapp (a b : list mtriple + cerr) : list mtriple + cerr :=
  match a with
  | inr e => inr e
  | inl x => match b with inr e => inr e | inl y => inl (x ++ y) end
  end.

Lemma rd_stream_app a b : rd_stream (rd_app a b) = sapp (rd_stream a) (rd_stream b).
Proof. destruct a as [x|e], b as [y|e']; reflexivity. Qed.

Lemma sapp_nil_l a : sapp (inl []) a = a.
Proof. destruct a; reflexivity. Qed.

Lemma sapp_nil_r a : sapp a (inl []) = a.
Proof. destruct a as [x|e]; cbn; [rewrite app_nil_r|]; reflexivity. Qed.

Lemma sapp_assoc a b c : sapp (sapp a b) c = sapp a (sapp b c).
Proof. destruct a, b, c; cbn; try reflexivity. rewrite app_assoc. reflexivity. Qed.

Definition sconcat (l : list (list mtriple + cerr)) : list mtriple + cerr := fold_right sapp (inl []) l.

Lemma sconcat_app l1 l2 : sconcat (l1 ++ l2) = sapp (sconcat l1) (sconcat l2).
Proof.
  induction l1 as [|a l1 IH]; [symmetry; apply sapp_nil_l|].
  cbn [app sconcat fold_right]. fold (sconcat (l1 ++ l2)). fold (sconcat l1). rewrite IH, sapp_assoc. reflexivity.
Qed.

Lemma rd_stream_concat l : rd_stream (rd_concat l) = sconcat (map rd_stream l).
Proof.
  induction l as [|a l IH]; [reflexivity|]. cbn [rd_concat fold_right map sconcat].
  rewrite rd_stream_app. fold (rd_concat l). rewrite IH. reflexivity.
Qed.

(** ** B. lines *)

Definition nl (l : str) : str := l ++ [LF].

Lemma render_lines_cons l ls : render_lines (l :: ls) = l ++ LF :: render_lines ls.
Proof. unfold render_lines. cbn. rewrite <- app_assoc. reflexivity. Qed.

Lemma render_lines_app a b : render_lines (a ++ b) = render_lines a ++ render_lines b.
Proof. unfold render_lines. rewrite map_app, List.concat_app. reflexivity. Qed.

Lemma eqb_LF_false c : c <> LF -> Ascii.eqb c LF = false.
Proof. intros H. apply Ascii.eqb_neq. exact H. Qed.

Lemma keepends_aux_line l rest acc :
  ~ In LF l -> keepends_aux (l ++ LF :: rest) acc = (rev acc ++ l ++ [LF]) :: keepends_aux rest [].
Proof.
  revert acc. induction l as [|c l IH]; intros acc H; cbn [app keepends_aux].
  - rewrite Ascii.eqb_refl. reflexivity.
  - rewrite eqb_LF_false by (intros E; apply H; left; auto).
    rewrite IH by (intros E; apply H; right; auto). cbn [rev]. rewrite <- app_assoc. reflexivity.
Qed.

Lemma keepends_render ls : Forall (fun l => ~ In LF l) ls -> keepends (render_lines ls) = map nl ls.
Proof.
  unfold keepends. induction 1 as [|l ls Hl _ IH]; [reflexivity|].
  rewrite render_lines_cons, keepends_aux_line by exact Hl. cbn. rewrite IH. reflexivity.
Qed.

(** splitting on a one-character separator, without fuel *)
Fixpoint split1 (c : ascii) (s acc : str) : list str :=
  match s with
  | [] => [rev acc]
  | x :: s' => if Ascii.eqb c x then rev acc :: split1 c s' [] else split1 c s' (x :: acc)
  end.

Lemma split_fuel_split1 c f s acc : (List.length s < f)%nat -> split_fuel f [c] s acc = split1 c s acc.
Proof.
  revert s acc. induction f as [|f IH]; intros s acc H; [lia|].
  destruct s as [|x s]; [reflexivity|]. cbn in H. cbn.
  destruct (Ascii.eqb c x); cbn.
  - rewrite IH by lia. reflexivity.
  - apply IH. lia.
Qed.

Lemma split_split1 c s : split [c] s = split1 c s [].
Proof. unfold split. apply split_fuel_split1. lia. Qed.

Lemma split1_line c l rest acc :
  ~ In c l -> split1 c (l ++ c :: rest) acc = (rev acc ++ l) :: split1 c rest [].
Proof.
  revert acc. induction l as [|x l IH]; intros acc H; cbn.
  - rewrite Ascii.eqb_refl, app_nil_r. reflexivity.
  - assert (Ascii.eqb c x = false) as -> by (apply Ascii.eqb_neq; intros E; apply H; left; auto).
    rewrite IH by (intros E; apply H; right; auto). cbn. rewrite <- app_assoc. reflexivity.
Qed.

Lemma split1_last c l acc : ~ In c l -> split1 c l acc = [rev acc ++ l].
Proof.
  revert acc. induction l as [|x l IH]; intros acc H; cbn.
  - rewrite app_nil_r. reflexivity.
  - assert (Ascii.eqb c x = false) as -> by (apply Ascii.eqb_neq; intros E; apply H; left; auto).
    rewrite IH by (intros E; apply H; right; auto). cbn. rewrite <- app_assoc. reflexivity.
Qed.

Lemma split_render ls : Forall (fun l => ~ In LF l) ls -> split1 LF (render_lines ls) [] = ls ++ [[]].
Proof.
  induction 1 as [|l ls Hl _ IH]; [reflexivity|].
  rewrite render_lines_cons, split1_line by exact Hl. rewrite IH. reflexivity.
Qed.

Lemma raw_sep_is_LF : c08_raw_line_sep = [LF].
Proof. reflexivity. Qed.

(** [strip] *)
Lemma rstrip_snoc_space s c : is_space c = true -> rstrip (s ++ [c]) = rstrip s.
Proof. intros H. unfold rstrip. rewrite rev_unit. cbn. rewrite H. reflexivity. Qed.

Lemma strip_snoc_space l c : is_space c = true -> strip (l ++ [c]) = strip l.
Proof.
  intros H. unfold strip. induction l as [|x l IH]; cbn.
  - rewrite H. reflexivity.
  - destruct (is_space x); [exact IH|].
    change (x :: l ++ [c]) with ((x :: l) ++ [c]). apply rstrip_snoc_space. exact H.
Qed.

Lemma strip_nl l : strip (nl l) = strip l.
Proof. apply strip_snoc_space. reflexivity. Qed.

Lemma lstrip_head x s : is_space x = false -> lstrip (x :: s) = x :: s.
Proof. intros H. cbn. rewrite H. reflexivity. Qed.

Lemma rstrip_last s b : is_space b = false -> rstrip (s ++ [b]) = s ++ [b].
Proof. intros H. unfold rstrip. rewrite rev_unit, lstrip_head by exact H. rewrite <- rev_unit, rev_involutive. reflexivity. Qed.

Lemma strip_id x m b : is_space x = false -> is_space b = false -> strip (x :: m ++ [b]) = x :: m ++ [b].
Proof.
  intros Hx Hb. unfold strip. rewrite lstrip_head by exact Hx.
  change (x :: m ++ [b]) with ((x :: m) ++ [b]). apply rstrip_last. exact Hb.
Qed.

Lemma nonblank_false l : nonblank l = false -> strip l = [].
Proof. unfold nonblank. intros H. apply negb_false_iff, str_eqb_eq in H. exact H. Qed.

(** UTF-8 *)
Lemma utf8_dec_app a b st ra :
  utf8_dec true a st = Some ra ->
  utf8_dec true (a ++ b) st = match utf8_dec true b UIdle with Some rb => Some (ra ++ rb) | None => None end.
Proof.
  revert st ra. induction a as [|c a IH]; intros st ra H.
  - destruct st; cbn in H; [|discriminate]. inversion H; subst. cbn. destruct (utf8_dec true b UIdle); reflexivity.
  - cbn [app]. cbn [utf8_dec] in *.
    assert (Hidle : forall r,
               match idle_step c with
               | Some (out, st') => match utf8_dec true a st' with Some r0 => Some (out ++ r0) | None => None end
               | None => None
               end = Some r ->
               match idle_step c with
               | Some (out, st') => match utf8_dec true (a ++ b) st' with Some r0 => Some (out ++ r0) | None => None end
               | None => None
               end = match utf8_dec true b UIdle with Some rb => Some (r ++ rb) | None => None end).
    { intros r Hr. destruct (idle_step c) as [[out st']|]; [|discriminate].
      destruct (utf8_dec true a st') as [r0|] eqn:E; [|discriminate]. inversion Hr; subst.
      rewrite (IH _ _ E). destruct (utf8_dec true b UIdle); [rewrite app_assoc|]; reflexivity. }
    destruct st as [|buf k lo hi].
    + apply Hidle. exact H.
    + destruct (Nat.leb lo (nat_of_ascii c) && Nat.leb (nat_of_ascii c) hi); [|discriminate].
      destruct k as [|[|k]].
      * apply IH. exact H.
      * destruct (utf8_dec true a UIdle) as [r0|] eqn:E; [|discriminate]. inversion H; subst.
        rewrite (IH _ _ E). destruct (utf8_dec true b UIdle); [rewrite app_assoc|]; reflexivity.
      * apply IH. exact H.
Qed.

Lemma decode_strict_app a b :
  decode_strict a = Some a -> decode_strict b = Some b -> decode_strict (a ++ b) = Some (a ++ b).
Proof.
  unfold decode_strict. intros Ha Hb. rewrite (utf8_dec_app _ _ _ _ Ha), Hb. reflexivity.
Qed.

Lemma decode_strict_LF : decode_strict [LF] = Some [LF].
Proof. reflexivity. Qed.

Lemma decode_strict_nl l : decode_strict l = Some l -> decode_strict (nl l) = Some (nl l).
Proof. intros H. apply decode_strict_app; [exact H | exact decode_strict_LF]. Qed.

Lemma decode_strict_render ls :
  Forall (fun l => decode_strict l = Some l) ls -> decode_strict (render_lines ls) = Some (render_lines ls).
Proof.
  induction 1 as [|l ls Hl _ IH]; [reflexivity|].
  unfold render_lines. cbn [map List.concat]. apply decode_strict_app; [apply decode_strict_nl; exact Hl | exact IH].
Qed.

Lemma utf8_strict_ignore s st r : utf8_dec true s st = Some r -> utf8_dec false s st = Some r.
Proof.
  revert st r. induction s as [|c s IH]; intros st r H.
  - destruct st; cbn in *; [exact H | discriminate].
  - cbn [utf8_dec] in *.
    assert (Hidle : forall r,
               match idle_step c with
               | Some (out, st') => match utf8_dec true s st' with Some r0 => Some (out ++ r0) | None => None end
               | None => None
               end = Some r ->
               match idle_step c with
               | Some (out, st') => match utf8_dec false s st' with Some r0 => Some (out ++ r0) | None => None end
               | None => utf8_dec false s UIdle
               end = Some r).
    { intros r0 Hr. destruct (idle_step c) as [[out st']|]; [|discriminate].
      destruct (utf8_dec true s st') as [r1|] eqn:E; [|discriminate]. rewrite (IH _ _ E). exact Hr. }
    destruct st as [|buf k lo hi].
    + apply Hidle. exact H.
    + destruct (Nat.leb lo (nat_of_ascii c) && Nat.leb (nat_of_ascii c) hi); [|discriminate].
      destruct k as [|[|k]].
      * apply IH. exact H.
      * destruct (utf8_dec true s UIdle) as [r0|] eqn:E; [|discriminate]. rewrite (IH _ _ E). exact H.
      * apply IH. exact H.
Qed.

Lemma decode_ignore_valid s : decode_strict s = Some s -> decode_ignore s = s.
Proof. unfold decode_strict, decode_ignore. intros H. rewrite (utf8_strict_ignore _ _ _ H). reflexivity. Qed.

Lemma universal_nl_id s : ~ In CR s -> universal_nl s = s.
Proof.
  induction s as [|c s IH]; intros H; [reflexivity|]. cbn [universal_nl].
  assert (Ascii.eqb c CR = false) as -> by (apply Ascii.eqb_neq; intros E; apply H; left; auto).
  rewrite IH by (intros E; apply H; right; auto). reflexivity.
Qed.

Lemma not_in_render c ls : c <> LF -> Forall (fun l => ~ In c l) ls -> ~ In c (render_lines ls).
Proof.
  intros Hc. induction 1 as [|l ls Hl _ IH]; [intros []|].
  rewrite render_lines_cons. intros H. apply in_app_or in H. destruct H as [H|[H|H]]; auto.
Qed.

Lemma decode_lines_valid ls :
  Forall (fun l => decode_strict l = Some l) ls -> decode_lines (map nl ls) = inl (map nl ls).
Proof.
  induction 1 as [|l ls Hl _ IH]; [reflexivity|]. cbn. rewrite (decode_strict_nl _ Hl), IH. reflexivity.
Qed.

(** the three line readers on a document made of complete lines *)
Lemma Forall_line_ok_LF ls : Forall line_ok ls -> Forall (fun l => ~ In LF l) ls.
Proof. apply Forall_impl. intros l (H & _). exact H. Qed.
Lemma Forall_line_ok_CR ls : Forall line_ok ls -> Forall (fun l => ~ In CR l) ls.
Proof. apply Forall_impl. intros l (_ & H & _). exact H. Qed.
Lemma Forall_line_ok_utf8 ls : Forall line_ok ls -> Forall (fun l => decode_strict l = Some l) ls.
Proof. apply Forall_impl. intros l (_ & _ & H). exact H. Qed.

Lemma lines_raw_render ls : Forall line_ok ls -> lines_raw (render_lines ls) = filter nonblank ls.
Proof.
  intros H. unfold lines_raw. rewrite raw_sep_is_LF, split_split1, split_render by (apply Forall_line_ok_LF; exact H).
  rewrite filter_app. cbn. rewrite app_nil_r. reflexivity.
Qed.

Lemma lines_text_render ls : Forall line_ok ls -> lines_text (render_lines ls) = map nl ls.
Proof.
  intros H. unfold lines_text.
  rewrite decode_ignore_valid by (apply decode_strict_render, Forall_line_ok_utf8; exact H).
  rewrite universal_nl_id by (apply not_in_render; [discriminate | apply Forall_line_ok_CR; exact H]).
  apply keepends_render, Forall_line_ok_LF. exact H.
Qed.

Lemma lines_bytes_render ls : Forall line_ok ls -> lines_bytes (render_lines ls) = inl (map nl ls).
Proof.
  intros H. unfold lines_bytes. rewrite keepends_render by (apply Forall_line_ok_LF; exact H).
  apply decode_lines_valid, Forall_line_ok_utf8. exact H.
Qed.

(** ** C. line-compositional readers *)

Section Compositional.
  Variable read : list str -> rd.
  Hypothesis LC : line_compositional read.

  Lemma read_nil : read [] = inl res_nil.
  Proof.
    destruct (lc_blank read LC [] eq_refl) as [n Hn].
    pose proof (lc_app read LC [] (@cons str (@nil ascii) (@nil str))) as H. cbn [app] in H. rewrite Hn in H.
    destruct (read []) as [[t y e]|err]; [|discriminate].
    cbn in H. inversion H as [[Ht Hy He]].
    destruct t; [|discriminate]. replace y with 0 by lia. replace e with 0 by lia. reflexivity.
  Qed.

  Lemma stream_read_cons l ls :
    rd_stream (read (l :: ls)) = sapp (rd_stream (read [l])) (rd_stream (read ls)).
  Proof. change (l :: ls) with ([l] ++ ls). rewrite (lc_app read LC), rd_stream_app. reflexivity. Qed.

  Lemma stream_read_app a b :
    rd_stream (read (a ++ b)) = sapp (rd_stream (read a)) (rd_stream (read b)).
  Proof. rewrite (lc_app read LC), rd_stream_app. reflexivity. Qed.

  (** line terminators and blank lines do not show in the stream *)
  Lemma stream_read_nl_filter ls :
    rd_stream (read (map nl ls)) = rd_stream (read (filter nonblank ls)).
  Proof.
    induction ls as [|l ls IH]; [reflexivity|]. cbn [map filter].
    rewrite (stream_read_cons (nl l) (map nl ls)), IH, (lc_strip read LC (nl l) l (strip_nl l)).
    destruct (nonblank l) eqn:E.
    - rewrite (stream_read_cons l (filter nonblank ls)). reflexivity.
    - destruct (lc_blank read LC l (nonblank_false l E)) as [n Hn]. rewrite Hn. cbn [rd_stream r_triples].
      apply sapp_nil_l.
  Qed.

  Lemma stream_read_concat lss :
    rd_stream (read (List.concat lss)) = sconcat (map (fun ls => rd_stream (read ls)) lss).
  Proof.
    induction lss as [|ls lss IH]; cbn [List.concat map sconcat fold_right].
    - rewrite read_nil. reflexivity.
    - rewrite stream_read_app, IH. reflexivity.
  Qed.

  (** the heart of C08(a): files holding complete lines, read one after the
      other through any of the line readers, deliver the stream of the single
      raw string *)
  Lemma stream_pieces (lss : list (list str)) :
    sconcat (map (fun ls => rd_stream (read (map nl ls))) lss)
    = rd_stream (read (filter nonblank (List.concat lss))).
  Proof.
    rewrite <- concat_filter_map, stream_read_concat, map_map.
    f_equal. apply map_ext. intros ls. apply stream_read_nl_filter.
  Qed.
End Compositional.

(** ** D. the channels of a line-based format *)

Definition cm_plain (cm : option str) : Prop :=
  cm = None \/ cm = Some (Str "gz") \/ cm = Some (Str "xz").

Section Partition.
  Variable pyfloat : str -> option bool.
  Variable read_nt read_ttl : list str -> rd.
  Variable gunzip unxz : str -> option str.
  Variable unzip : str -> option (list (str * str)).
  Variable rdf_parse : str -> str -> option (list rtriple).

  Notation chan := (channel pyfloat read_nt read_ttl gunzip unxz unzip rdf_parse).
  Notation single1 := (single pyfloat read_nt read_ttl gunzip unxz rdf_parse).
  Notation multi_from1 := (multi_from pyfloat read_nt read_ttl gunzip unxz rdf_parse).
  Notation lines_of1 := (lines_of gunzip unxz).

  (** the two formats whose document reader works line by line *)
  Inductive line_family : str -> (list str -> rd) -> Prop :=
  | Fam_nt : line_family (Str "nt") read_nt
  | Fam_tsv : line_family (Str "tsv_spo") (read_tsv pyfloat).

  Lemma lines_of_raw cm doc : cm_plain cm -> lines_of1 true cm doc = inl (lines_raw doc).
  Proof. intros C; destruct C as [-> | [-> | ->]]; reflexivity. Qed.

  Lemma lines_of_text st : lines_of1 false None st = inl (lines_text st).
  Proof. reflexivity. Qed.

  Lemma lines_of_gz st :
    lines_of1 false (Some (Str "gz")) st = match gunzip st with Some b => lines_bytes b | None => inr CECodec end.
  Proof. reflexivity. Qed.

  Lemma lines_of_xz st :
    lines_of1 false (Some (Str "xz")) st = match unxz st with Some b => lines_bytes b | None => inr CECodec end.
  Proof. reflexivity. Qed.

  Lemma lines_of_zip_member content : lines_of1 false (Some c_ZIP) content = lines_bytes content.
  Proof. reflexivity. Qed.

  (** a stored file that holds complete lines delivers those lines, whatever the compression *)
  Lemma lines_of_stored cm ls st :
    Forall line_ok ls -> stored_as gunzip unxz cm (render_lines ls) st ->
    lines_of1 false cm st = inl (map nl ls).
  Proof.
    intros Hok Hst. destruct cm as [c|]; cbn in Hst.
    - destruct Hst as [[-> Hg]|[-> Hx]].
      + rewrite lines_of_gz, Hg. apply lines_bytes_render. exact Hok.
      + rewrite lines_of_xz, Hx. apply lines_bytes_render. exact Hok.
    - subst st. rewrite lines_of_text, lines_text_render by exact Hok. reflexivity.
  Qed.

  Lemma single_line o fmt read raw cm st :
    line_family fmt read -> single1 o fmt (fst (family fmt)) raw cm st = with_lines read (lines_of1 raw cm st).
  Proof. intros []; reflexivity. Qed.

  Lemma dispatch_raw fmt read : line_family fmt read -> dispatch fmt None KRaw = inl (YPlain (fst (family fmt))).
  Proof. intros []; reflexivity. Qed.

  Lemma dispatch_file fmt read cm :
    line_family fmt read -> cm_plain cm -> dispatch fmt cm KFile = inl (YPlain (fst (family fmt))).
  Proof. intros [] [->|[-> | ->]]; reflexivity. Qed.

  Lemma dispatch_files fmt read cm n :
    line_family fmt read -> cm_plain cm -> dispatch fmt cm (KFiles n) = inl (YPlain (snd (family fmt))).
  Proof. intros [] [->|[-> | ->]]; reflexivity. Qed.

  Lemma dispatch_zip_file fmt read :
    line_family fmt read -> dispatch fmt (Some c_ZIP) KFile = inl (YZipOne (snd (family fmt))).
  Proof. intros []; reflexivity. Qed.

  Lemma dispatch_zip_files fmt read n :
    line_family fmt read ->
    dispatch fmt (Some c_ZIP) (KFiles n) =
    inl (if Nat.eqb n 1 then YZipOne (snd (family fmt)) else YZipMany (Str "MultiZipTriplesYielder") (snd (family fmt))).
  Proof.
    intros []; unfold dispatch; cbn -[Z.eqb Z.of_nat Nat.eqb];
      (destruct n as [|[|n]]; [reflexivity | reflexivity |]);
      unfold resolve_target; cbn -[Z.eqb Z.of_nat Nat.eqb];
      replace (Z.eqb (Z.of_nat (S (S n))) c08_zip_single_archives) with false
        by (symmetry; apply Z.eqb_neq; unfold c08_zip_single_archives; lia); reflexivity.
  Qed.

  Lemma chan_raw o fmt read doc :
    line_family fmt read -> chan o fmt None (SRaw doc) = read (lines_raw doc).
  Proof.
    intros F. unfold channel. cbn [kind_of]. rewrite (dispatch_raw _ _ F).
    destruct F; reflexivity.
  Qed.

  Lemma multi_from_stream i orcs fmt read cm files :
    line_family fmt read ->
    rd_stream (multi_from1 i orcs fmt (fst (family fmt)) cm files)
    = sconcat (map (fun st => rd_stream (with_lines read (lines_of1 false cm st))) files).
  Proof.
    intros F. revert i. induction files as [|f fs IH]; intros i; [reflexivity|].
    cbn [multi_from map sconcat fold_right]. rewrite rd_stream_app, (single_line _ _ _ _ _ _ F), IH. reflexivity.
  Qed.

  Lemma chan_files o fmt read cm stored :
    line_family fmt read -> cm_plain cm ->
    chan o fmt cm (SFiles stored) = multi_from1 0 (o 0) fmt (fst (family fmt)) cm stored.
  Proof.
    intros F C. unfold channel. cbn [kind_of]. rewrite (dispatch_files _ _ _ _ F C).
    destruct F; reflexivity.
  Qed.

  Lemma chan_file o fmt read cm st :
    line_family fmt read -> cm_plain cm ->
    chan o fmt cm (SFile st) = with_lines read (lines_of1 false cm st).
  Proof.
    intros F C. unfold channel. cbn [kind_of]. rewrite (dispatch_file _ _ _ F C).
    destruct F; reflexivity.
  Qed.

  (** the streams of the pieces, piece by piece *)
  Lemma pieces_stream fmt read cm lss stored :
    line_family fmt read ->
    Forall (Forall line_ok) lss ->
    Forall2 (stored_as gunzip unxz cm) (map render_lines lss) stored ->
    sconcat (map (fun st => rd_stream (with_lines read (lines_of1 false cm st))) stored)
    = sconcat (map (fun ls => rd_stream (read (map nl ls))) lss).
  Proof.
    intros F Hok. revert stored. induction Hok as [|ls lss Hls _ IH]; intros stored H2; inversion H2; subst.
    - reflexivity.
    - cbn [map sconcat fold_right]. rewrite (lines_of_stored _ _ _ Hls H1). cbn [with_lines].
      f_equal. apply IH. assumption.
  Qed.

  Lemma Forall_concat {A} (P : A -> Prop) l : Forall (Forall P) l -> Forall P (List.concat l).
  Proof. induction 1; cbn; [constructor | apply Forall_app; split; assumption]. Qed.

  Lemma concat_line_ok lss : Forall (Forall line_ok) lss -> Forall line_ok (List.concat lss).
  Proof. apply Forall_concat. Qed.

  (** *** C08(a): any partition of the lines into files, plain or gz / xz compressed *)
  Theorem partition_invisible_files fmt read o o' cm lss stored :
    line_family fmt read -> line_compositional read -> cm_plain cm ->
    Forall (Forall line_ok) lss ->
    Forall2 (stored_as gunzip unxz cm) (map render_lines lss) stored ->
    rd_stream (chan o fmt cm (SFiles stored))
    = rd_stream (chan o' fmt None (SRaw (render_lines (List.concat lss)))).
  Proof.
    intros F LC C Hok Hst.
    rewrite (chan_files _ _ _ _ _ F C), (multi_from_stream _ _ _ _ _ _ F), (pieces_stream _ _ _ _ _ F Hok Hst).
    rewrite (stream_pieces read LC), (chan_raw _ _ _ _ F), lines_raw_render by (apply concat_line_ok; exact Hok).
    reflexivity.
  Qed.

  (** one file *)
  Theorem partition_invisible_file fmt read o o' cm ls st :
    line_family fmt read -> line_compositional read -> cm_plain cm ->
    Forall line_ok ls -> stored_as gunzip unxz cm (render_lines ls) st ->
    rd_stream (chan o fmt cm (SFile st)) = rd_stream (chan o' fmt None (SRaw (render_lines ls))).
  Proof.
    intros F LC C Hok Hst.
    rewrite (chan_file _ _ _ _ _ F C), (lines_of_stored _ _ _ Hok Hst). cbn [with_lines].
    rewrite (stream_read_nl_filter read LC), (chan_raw _ _ _ _ F), lines_raw_render by exact Hok.
    reflexivity.
  Qed.

  (** *** zip: the members of one archive, in [namelist()] order *)
  Definition archive_holds (archive : str) (lss : list (list str)) : Prop :=
    exists members, unzip archive = Some members /\ map snd members = map render_lines lss.

  Lemma zip_one_stream o fmt read archive lss :
    line_family fmt read -> Forall (Forall line_ok) lss -> archive_holds archive lss ->
    rd_stream (zip_one pyfloat read_nt read_ttl gunzip unxz unzip rdf_parse o fmt (snd (family fmt)) archive)
    = sconcat (map (fun ls => rd_stream (read (map nl ls))) lss).
  Proof.
    intros F Hok (members & Hu & Hm). unfold zip_one. rewrite Hu, Hm.
    assert (multi pyfloat read_nt read_ttl gunzip unxz rdf_parse o fmt (snd (family fmt)) (Some c_ZIP) (map render_lines lss)
            = multi_from1 0 o fmt (fst (family fmt)) (Some c_ZIP) (map render_lines lss)) as -> by (destruct F; reflexivity).
    rewrite (multi_from_stream _ _ _ _ _ _ F).
    clear Hu Hm. induction Hok as [|ls lss Hls _ IH]; [reflexivity|].
    cbn [map sconcat fold_right]. rewrite lines_of_zip_member, (lines_bytes_render _ Hls). cbn [with_lines].
    f_equal. exact IH.
  Qed.

  Theorem partition_invisible_zip fmt read o o' archive lss :
    line_family fmt read -> line_compositional read ->
    Forall (Forall line_ok) lss -> archive_holds archive lss ->
    rd_stream (chan o fmt (Some c_ZIP) (SFile archive))
    = rd_stream (chan o' fmt None (SRaw (render_lines (List.concat lss)))).
  Proof.
    intros F LC Hok Ha. unfold channel at 1. cbn [kind_of]. rewrite (dispatch_zip_file _ _ F). cbn [run_yielder].
    rewrite (zip_one_stream _ _ _ _ _ F Hok Ha), (stream_pieces read LC), (chan_raw _ _ _ _ F),
      lines_raw_render by (apply concat_line_ok; exact Hok).
    reflexivity.
  Qed.

  (** *** several archives ([MultiZipTriplesYielder]); a list with exactly one
      archive is the previous case *)
  Lemma rd_concat_last_ok parts tot : rd_concat parts = inl tot -> exists lst, last parts (inl res_nil) = inl lst.
  Proof.
    revert tot. induction parts as [|a parts IH]; intros tot H; [exists res_nil; reflexivity|].
    cbn [rd_concat fold_right] in H. fold (rd_concat parts) in H.
    destruct a as [x|e]; [|discriminate]. destruct (rd_concat parts) as [y|e] eqn:E; [|discriminate].
    destruct parts as [|b parts]; [exists x; reflexivity|].
    destruct (IH _ eq_refl) as [lst Hl]. exists lst. exact Hl.
  Qed.

  Lemma zip_many_stream (o : porc) fmt cls archives :
    rd_stream (zip_many pyfloat read_nt read_ttl gunzip unxz unzip rdf_parse o fmt cls archives)
    = sconcat (map (fun ia => rd_stream (zip_one pyfloat read_nt read_ttl gunzip unxz unzip rdf_parse
                                                 (o (fst ia)) fmt cls (snd ia)))
                   (combine (seq 0 (List.length archives)) archives)).
  Proof.
    unfold zip_many. rewrite <- (map_map _ rd_stream), <- rd_stream_concat.
    destruct (rd_concat _) as [tot|e] eqn:E; [|reflexivity].
    destruct (rd_concat_last_ok _ _ E) as [lst ->]. reflexivity.
  Qed.

  Theorem partition_invisible_zips fmt read o o' archives lsss :
    line_family fmt read -> line_compositional read ->
    Forall (Forall (Forall line_ok)) lsss -> Forall2 archive_holds archives lsss ->
    rd_stream (chan o fmt (Some c_ZIP) (SFiles archives))
    = rd_stream (chan o' fmt None (SRaw (render_lines (List.concat (List.concat lsss))))).
  Proof.
    intros F LC Hok Ha.
    assert (Hgen : forall (k : nat) (oo : nat -> nat -> rorc) archives lsss,
               Forall (Forall (Forall line_ok)) lsss -> Forall2 archive_holds archives lsss ->
               sconcat (map (fun ia => rd_stream (zip_one pyfloat read_nt read_ttl gunzip unxz unzip rdf_parse
                                                          (oo (fst ia)) fmt (snd (family fmt)) (snd ia)))
                            (combine (seq k (List.length archives)) archives))
               = sconcat (map (fun ls => rd_stream (read (map nl ls))) (List.concat lsss))).
    { clear Hok Ha archives lsss. intros k oo archives lsss Hok Ha. revert k.
      induction Ha as [|a lss archives lsss Ha1 _ IH]; intros k; [reflexivity|].
      inversion Hok; subst. cbn [List.length seq combine map sconcat fold_right List.concat fst snd].
      rewrite map_app, sconcat_app, (zip_one_stream _ _ _ _ _ F H1 Ha1). f_equal. apply IH. assumption. }
    assert (Hraw : sconcat (map (fun ls => rd_stream (read (map nl ls))) (List.concat lsss))
                   = rd_stream (chan o' fmt None (SRaw (render_lines (List.concat (List.concat lsss)))))).
    { rewrite (stream_pieces read LC), (chan_raw _ _ _ _ F), lines_raw_render; [reflexivity|].
      apply concat_line_ok, Forall_concat. exact Hok. }
    unfold channel at 1. cbn [kind_of]. rewrite (dispatch_zip_files _ _ _ F).
    destruct (Nat.eqb (List.length archives) 1) eqn:E.
    - apply Nat.eqb_eq in E. destruct archives as [|a [|b l]]; try discriminate.
      inversion Ha as [|? lss ? lsss' Ha1 Hrest]; subst. inversion Hrest; subst.
      cbn [run_yielder]. inversion Hok; subst.
      rewrite (zip_one_stream _ _ _ _ _ F H1 Ha1), <- Hraw. cbn [List.concat]. rewrite app_nil_r. reflexivity.
    - cbn [run_yielder]. rewrite zip_many_stream, (Hgen 0 o _ _ Hok Ha). exact Hraw.
  Qed.
End Partition.

(** ** E. the TSV reader *)

Lemma res_app_nil_l y : res_app res_nil y = y.
Proof. destruct y; reflexivity. Qed.

Lemma res_app_assoc x y z : res_app (res_app x y) z = res_app x (res_app y z).
Proof. unfold res_app. cbn. rewrite app_assoc, !Nat.add_assoc. reflexivity. Qed.

Lemma rd_app_nil_l b : rd_app (inl res_nil) b = b.
Proof. destruct b as [y|e]; cbn; [rewrite res_app_nil_l|]; reflexivity. Qed.

Lemma rd_app_assoc a b c : rd_app (rd_app a b) c = rd_app a (rd_app b c).
Proof. destruct a, b, c; cbn; try reflexivity. rewrite res_app_assoc. reflexivity. Qed.

Lemma tsv_sep_is_TAB : c08_tsv_sep = [TAB].
Proof. reflexivity. Qed.

Theorem read_tsv_compositional pyfloat : line_compositional (read_tsv pyfloat).
Proof.
  constructor.
  - intros a b. induction a as [|l a IH]; cbn [app read_tsv].
    + rewrite rd_app_nil_l. reflexivity.
    + rewrite IH, rd_app_assoc. reflexivity.
  - intros l l' H. cbn [read_tsv]. unfold tsv_line. rewrite H. reflexivity.
  - intros l H. exists 1. cbn [read_tsv]. unfold tsv_line. rewrite H. reflexivity.
Qed.

(** *** strings *)

Lemma no_char_not_in c s : no_char c s = true -> ~ In c s.
Proof.
  unfold no_char. rewrite forallb_forall. intros H Hin. specialize (H _ Hin).
  rewrite Ascii.eqb_refl in H. discriminate.
Qed.

Lemma no_space_not_in c s : is_space c = true -> no_space s = true -> ~ In c s.
Proof.
  unfold no_space. rewrite forallb_forall. intros Hc H Hin. specialize (H _ Hin). rewrite Hc in H. discriminate.
Qed.

Lemma find_nat_char c a b : ~ In c a -> find_nat [c] (a ++ c :: b) = Some (List.length a).
Proof.
  induction a as [|x a IH]; intros H; cbn.
  - rewrite Ascii.eqb_refl. reflexivity.
  - assert (Ascii.eqb c x = false) as -> by (apply Ascii.eqb_neq; intros E; apply H; left; auto).
    cbn. rewrite IH by (intros E; apply H; right; auto). reflexivity.
Qed.

Lemma find_nat_head_absent c r s : ~ In c s -> find_nat (c :: r) s = None.
Proof.
  induction s as [|x s IH]; intros H; [reflexivity|]. cbn.
  assert (Ascii.eqb c x = false) as -> by (apply Ascii.eqb_neq; intros E; apply H; left; auto).
  cbn. rewrite IH by (intros E; apply H; right; auto). reflexivity.
Qed.

Lemma find_nat_head_skip c r a rest :
  ~ In c a -> find_nat (c :: r) (a ++ rest) = match find_nat (c :: r) rest with Some n => Some (List.length a + n) | None => None end.
Proof.
  induction a as [|x a IH]; intros H; cbn [app].
  - destruct (find_nat (c :: r) rest); reflexivity.
  - cbn [find_nat prefixb].
    assert (Ascii.eqb c x = false) as -> by (apply Ascii.eqb_neq; intros E; apply H; left; auto).
    cbn [andb]. rewrite IH by (intros E; apply H; right; auto).
    destruct (find_nat (c :: r) rest); reflexivity.
Qed.

Lemma rfind_aux_absent c b i best : ~ In c b -> rfind_nat_aux [c] b i best = best.
Proof.
  revert i best. induction b as [|x b IH]; intros i best H; [reflexivity|]. cbn.
  assert (Ascii.eqb c x = false) as -> by (apply Ascii.eqb_neq; intros E; apply H; left; auto).
  cbn. apply IH. intros E; apply H; right; auto.
Qed.

Lemma rfind_aux_last c a b i best :
  ~ In c b -> rfind_nat_aux [c] (a ++ c :: b) i best = Some (i + List.length a).
Proof.
  revert i best. induction a as [|x a IH]; intros i best H.
  - cbn. rewrite Ascii.eqb_refl. cbn. rewrite rfind_aux_absent by exact H. f_equal. lia.
  - cbn [app rfind_nat_aux]. rewrite IH by exact H. cbn [List.length]. f_equal. lia.
Qed.

Lemma rfind_last c a b : ~ In c b -> rfind [c] (a ++ c :: b) = Z.of_nat (List.length a).
Proof. intros H. unfold rfind, rfind_nat. rewrite rfind_aux_last by exact H. reflexivity. Qed.

Lemma rfind_absent c s : ~ In c s -> rfind [c] s = (-1)%Z.
Proof. intros H. unfold rfind, rfind_nat. rewrite rfind_aux_absent by exact H. reflexivity. Qed.

Lemma last_occurrence (c : ascii) l : In c l -> exists a b, l = a ++ c :: b /\ ~ In c b.
Proof.
  induction l as [|x l IH]; intros H; [destruct H|].
  destruct (in_dec ascii_dec c l) as [Hin|Hnin].
  - destruct (IH Hin) as (a & b & -> & Hb). exists (x :: a), b. split; [reflexivity | exact Hb].
  - destruct H as [->|H]; [|contradiction]. exists [], l. split; [reflexivity | exact Hnin].
Qed.

(** the language test: the last at-sign against the last double quote *)
Definition AT : ascii := ascii_of_nat 64.

Lemma lang_marker_is_AT : c_lang_marker = [AT].
Proof. reflexivity. Qed.

Lemma arroba_false pre post :
  ~ In Q post -> ~ In AT post -> there_is_arroba_after_last_quotes (pre ++ Q :: post) = false.
Proof.
  intros HQ HA. unfold there_is_arroba_after_last_quotes. rewrite lang_marker_is_AT.
  change (Str """") with [Q]. rewrite (rfind_last Q pre post HQ).
  destruct (in_dec ascii_dec AT pre) as [Hin|Hnin].
  - destruct (last_occurrence AT pre Hin) as (a & b & -> & Hb).
    rewrite <- app_assoc. cbn [app].
    rewrite rfind_last.
    + rewrite Z.gtb_ltb. apply Z.ltb_ge. rewrite app_length. cbn [List.length]. lia.
    + intros H. apply in_app_or in H. destruct H as [H|[H|H]]; [auto | discriminate H | auto].
  - rewrite rfind_absent.
    + rewrite Z.gtb_ltb. apply Z.ltb_ge. lia.
    + intros H. apply in_app_or in H. destruct H as [H|[H|H]]; [auto | discriminate H | auto].
Qed.

Lemma arroba_true pre tag :
  ~ In Q tag -> there_is_arroba_after_last_quotes (pre ++ Q :: AT :: tag) = true.
Proof.
  intros HQ. unfold there_is_arroba_after_last_quotes. rewrite lang_marker_is_AT.
  change (Str """") with [Q].
  rewrite (rfind_last Q pre (AT :: tag)) by (intros [H|H]; [discriminate H | auto]).
  destruct (last_occurrence AT (AT :: tag) (or_introl eq_refl)) as (a & b & E & Hb).
  replace (pre ++ Q :: AT :: tag) with ((pre ++ Q :: a) ++ AT :: b) by (rewrite <- app_assoc; cbn [app]; rewrite <- E; reflexivity).
  rewrite rfind_last by exact Hb. rewrite app_length. cbn [List.length].
  apply Z.gtb_lt. lia.
Qed.

(** the three characters quote-caret-caret *)
Definition HAT : ascii := ascii_of_nat 94.

Lemma QHH_chars : QHH = [Q; HAT; HAT].
Proof. reflexivity. Qed.

Lemma hats_not_prefix lex rest :
  prefixb [HAT; HAT] lex = false -> prefixb [HAT; HAT] (lex ++ Q :: rest) = false.
Proof.
  destruct lex as [|a [|b l]]; intros H; cbn [app prefixb] in *.
  - reflexivity.
  - destruct (Ascii.eqb HAT a); reflexivity.
  - exact H.
Qed.

Lemma find_nat_cons p x s :
  find_nat p (x :: s) = if prefixb p (x :: s) then Some 0
                        else match find_nat p s with Some n => Some (S n) | None => None end.
Proof. reflexivity. Qed.

Lemma prefixb_cons x p y s : prefixb (x :: p) (y :: s) = Ascii.eqb x y && prefixb p s.
Proof. reflexivity. Qed.

Lemma find_QHH_plain lex :
  ~ In Q lex -> prefixb [HAT; HAT] lex = false -> find_nat QHH (Q :: lex ++ [Q]) = None.
Proof.
  intros HQ HH. rewrite QHH_chars, find_nat_cons, prefixb_cons, Ascii.eqb_refl, (hats_not_prefix lex [] HH).
  cbn [andb]. rewrite (find_nat_head_skip Q [HAT; HAT] lex [Q] HQ). reflexivity.
Qed.

Lemma find_QHH_typed lex rest :
  ~ In Q lex -> prefixb [HAT; HAT] lex = false ->
  find_nat QHH (Q :: lex ++ Q :: HAT :: HAT :: rest) = Some (S (List.length lex)).
Proof.
  intros HQ HH. rewrite QHH_chars, find_nat_cons, prefixb_cons, Ascii.eqb_refl, (hats_not_prefix lex _ HH).
  cbn [andb]. rewrite (find_nat_head_skip Q [HAT; HAT] lex _ HQ).
  rewrite find_nat_cons, !prefixb_cons, !Ascii.eqb_refl. cbn [andb prefixb]. f_equal. lia.
Qed.

(** slices *)
Lemma slice_nat s (a b : nat) :
  (a <= b)%nat -> (b <= List.length s)%nat -> slice s (Z.of_nat a) (Z.of_nat b) = firstn (b - a) (skipn a s).
Proof.
  intros H1 H2. unfold slice, norm_idx, len.
  destruct (Z.ltb_spec (Z.of_nat a) 0); [lia|]. destruct (Z.ltb_spec (Z.of_nat b) 0); [lia|].
  replace (Z.to_nat (Z.min (Z.of_nat b) (Z.of_nat (List.length s)) - Z.min (Z.of_nat a) (Z.of_nat (List.length s)))) with (b - a)%nat by lia.
  replace (Z.to_nat (Z.min (Z.of_nat a) (Z.of_nat (List.length s)))) with a by lia. reflexivity.
Qed.

Lemma slice_nat_m1 s (a : nat) :
  (S a <= List.length s)%nat -> slice s (Z.of_nat a) (-1) = firstn (List.length s - 1 - a) (skipn a s).
Proof.
  intros H. unfold slice, norm_idx, len.
  destruct (Z.ltb_spec (Z.of_nat a) 0); [lia|]. destruct (Z.ltb_spec (-1) 0); [|lia].
  replace (Z.to_nat (Z.max 0 (Z.of_nat (List.length s) + -1) - Z.min (Z.of_nat a) (Z.of_nat (List.length s)))) with (List.length s - 1 - a)%nat by lia.
  replace (Z.to_nat (Z.min (Z.of_nat a) (Z.of_nat (List.length s)))) with a by lia. reflexivity.
Qed.

Lemma skipn_app_exact {A} (a b : list A) : skipn (List.length a) (a ++ b) = b.
Proof. induction a; cbn; auto. Qed.

Lemma firstn_app_exact {A} (a b : list A) : firstn (List.length a) (a ++ b) = a.
Proof. induction a; cbn; [destruct b|]; f_equal; auto. Qed.

Lemma slice_middle a m (c : ascii) : slice (a ++ m ++ [c]) (Z.of_nat (List.length a)) (-1) = m.
Proof.
  rewrite slice_nat_m1 by (rewrite !app_length; cbn; lia).
  rewrite skipn_app_exact. rewrite !app_length. cbn [List.length].
  replace (List.length a + (List.length m + 1) - 1 - List.length a)%nat with (List.length m) by lia.
  apply firstn_app_exact.
Qed.

Lemma slice_corners s : slice (Str "<" ++ s ++ Str ">") 1 (-1) = s.
Proof. exact (slice_middle (Str "<") s (ascii_of_nat 62)). Qed.

Lemma slice_content (x : ascii) lex rest :
  slice (x :: lex ++ rest) 1 (Z.of_nat (S (List.length lex))) = lex.
Proof.
  change 1%Z with (Z.of_nat 1). rewrite slice_nat by (cbn; rewrite ?app_length; lia).
  cbn [skipn]. replace (S (List.length lex) - 1)%nat with (List.length lex) by lia. apply firstn_app_exact.
Qed.

Lemma suffixb_snoc (c : ascii) s : suffixb [c] (s ++ [c]) = true.
Proof. unfold suffixb. rewrite rev_unit. cbn. rewrite Ascii.eqb_refl. reflexivity. Qed.

Lemma strip_ends s x y :
  hd_error s = Some x -> hd_error (rev s) = Some y -> is_space x = false -> is_space y = false -> strip s = s.
Proof.
  intros Hx Hy Sx Sy. unfold strip. destruct s as [|x' s]; [discriminate|]. inversion Hx; subst x'.
  rewrite lstrip_head by exact Sx. unfold rstrip.
  destruct (rev (x :: s)) as [|y' r] eqn:E; [discriminate|]. inversion Hy; subst y'.
  rewrite lstrip_head by exact Sy. rewrite <- E. apply rev_involutive.
Qed.

Lemma hd_rev_app (a c : str) : c <> [] -> hd_error (rev (a ++ c)) = hd_error (rev c).
Proof.
  intros H. rewrite rev_app_distr. destruct (rev c) eqn:E; [|reflexivity].
  apply (f_equal (@rev ascii)) in E. rewrite rev_involutive in E. contradiction.
Qed.

Lemma last_nonspace (p l : str) y0 :
  hd_error (rev p) = Some y0 -> is_space y0 = false -> no_space l = true ->
  exists y, hd_error (rev (p ++ l)) = Some y /\ is_space y = false.
Proof.
  intros Hp Sy Hl. rewrite rev_app_distr. destruct (rev l) as [|z r] eqn:E.
  - exists y0. split; assumption.
  - exists z. split; [reflexivity|]. unfold no_space in Hl. rewrite forallb_forall in Hl.
    assert (In z l) as Hin by (apply in_rev; rewrite E; left; reflexivity).
    specialize (Hl _ Hin). apply negb_true_iff in Hl. exact Hl.
Qed.

(** *** tokens *)

Definition mnode (n : anode) : mterm :=
  match n with AIri s => MIri s | ABn l => MBn (Str "_:" ++ l) end.

Definition mobj (o : aobj) : mterm :=
  match o with AN n => mnode n | ALit lex k => MLit lex (dt_of k) end.

Lemma remove_corners_iri s : remove_corners (Str "<" ++ s ++ Str ">") = inl s.
Proof.
  unfold remove_corners.
  assert (suffixb (Str ">") (Str "<" ++ s ++ Str ">") = true) as ->
      by (rewrite app_assoc; apply suffixb_snoc).
  cbn [Str list_ascii_of_string app prefixb]. rewrite Ascii.eqb_refl. cbn [andb].
  rewrite <- (slice_corners s) at 2. reflexivity.
Qed.

Section TokenLemmas.
  Variable pyfloat : str -> option bool.

  Lemma tune_token_node b n : tune_token pyfloat b (r_node n) = inl (mnode n).
  Proof.
    destruct n as [s|l]; unfold tune_token.
    - cbn [r_node]. assert (prefixb (Str "<") (Str "<" ++ s ++ Str ">") = true) as -> by reflexivity.
      rewrite remove_corners_iri. reflexivity.
    - reflexivity.
  Qed.

  Lemma tune_prop_iri p : tune_prop (Str "<" ++ p ++ Str ">") = inl p.
  Proof. apply remove_corners_iri. Qed.

  Lemma not_in_Q_of lex : lex_ok lex = true -> ~ In Q lex.
  Proof. unfold lex_ok. rewrite !andb_true_iff. intros [[[_ _] H] _]. apply no_char_not_in. exact H. Qed.

  Lemma hats_of lex : lex_ok lex = true -> prefixb [HAT; HAT] lex = false.
  Proof. unfold lex_ok. rewrite !andb_true_iff. intros [_ H]. apply negb_true_iff in H. exact H. Qed.

  Lemma content_of lex suf :
    ~ In Q lex -> slice (Q :: lex ++ Q :: suf) 1 (find_from1 (Str """") (Q :: lex ++ Q :: suf)) = lex.
  Proof.
    intros HQ. unfold find_from1. change (Str """") with [Q]. rewrite (find_nat_char Q lex suf HQ).
    apply slice_content.
  Qed.

  Lemma parse_plain lex : lex_ok lex = true -> parse_literal (Q :: lex ++ [Q]) = inl (MLit lex xsd_string).
  Proof.
    intros H. pose proof (not_in_Q_of lex H) as HQ. unfold parse_literal, decide_literal_type.
    change (Q :: lex ++ [Q]) with ((Q :: lex) ++ Q :: []) at 1.
    rewrite arroba_false by (intros []).
    unfold contains. cbn [app]. rewrite (find_QHH_plain lex HQ (hats_of lex H)). cbn [negb].
    rewrite (content_of lex [] HQ). reflexivity.
  Qed.

  Lemma parse_lang lex tag :
    lex_ok lex = true -> no_char Q tag = true ->
    parse_literal (Q :: lex ++ Q :: Str "@" ++ tag) = inl (MLit lex rdf_langString).
  Proof.
    intros H Ht. pose proof (not_in_Q_of lex H) as HQ. unfold parse_literal, decide_literal_type.
    change (Q :: lex ++ Q :: Str "@" ++ tag) with ((Q :: lex) ++ Q :: AT :: tag) at 1.
    rewrite arroba_true by (apply no_char_not_in; exact Ht).
    change (Str "@" ++ tag) with (AT :: tag). rewrite (content_of lex (AT :: tag) HQ). reflexivity.
  Qed.

  Lemma typed_token_shape lex dt :
    Q :: lex ++ Q :: Str "^^<" ++ dt ++ Str ">"
    = (Q :: lex ++ [Q; HAT; HAT; ascii_of_nat 60]) ++ dt ++ [ascii_of_nat 62].
  Proof. cbn [app]. rewrite <- app_assoc. reflexivity. Qed.

  Lemma parse_typed lex dt :
    lex_ok lex = true -> dt_ok lex dt = true ->
    parse_literal (Q :: lex ++ Q :: Str "^^<" ++ dt ++ Str ">") = inl (MLit lex dt).
  Proof.
    intros H Hd. pose proof (not_in_Q_of lex H) as HQ.
    unfold dt_ok in Hd. rewrite !andb_true_iff in Hd.
    destruct Hd as [[[Hsp HdQ] HdA] [[[Hx Hr] Hdt] Hg]].
    cbn [r_obj] in Hx, Hr, Hdt, Hg. apply negb_true_iff in Hx, Hr, Hdt, Hg.
    set (tok := Q :: lex ++ Q :: Str "^^<" ++ dt ++ Str ">") in *.
    assert (Harr : there_is_arroba_after_last_quotes tok = false).
    { unfold tok. change (Q :: lex ++ Q :: Str "^^<" ++ dt ++ Str ">") with ((Q :: lex) ++ Q :: (Str "^^<" ++ dt ++ Str ">")).
      apply arroba_false.
      - intros Hin. cbn [Str list_ascii_of_string app] in Hin.
        destruct Hin as [E|[E|[E|Hin]]]; try discriminate E.
        apply in_app_or in Hin. destruct Hin as [Hin|[E|[]]]; [|discriminate E].
        revert Hin. apply no_char_not_in. exact HdQ.
      - intros Hin. cbn [Str list_ascii_of_string app] in Hin.
        destruct Hin as [E|[E|[E|Hin]]]; try discriminate E.
        apply in_app_or in Hin. destruct Hin as [Hin|[E|[]]]; [|discriminate E].
        revert Hin. apply no_char_not_in. exact HdA. }
    assert (Hfind : find_nat QHH tok = Some (S (List.length lex))).
    { unfold tok. cbn [Str list_ascii_of_string app]. apply find_QHH_typed; [exact HQ | apply hats_of; exact H]. }
    assert (Hslice : slice tok (find QHH tok + 4) (-1) = dt).
    { unfold find. rewrite Hfind. unfold tok. rewrite typed_token_shape.
      replace (Z.of_nat (S (List.length lex)) + 4)%Z with (Z.of_nat (List.length (Q :: lex ++ [Q; HAT; HAT; ascii_of_nat 60])))
        by (cbn [List.length]; rewrite app_length; cbn [List.length]; lia).
      apply slice_middle. }
    assert (Hstrip : suffixb (Str ">") (strip tok) = true).
    { assert (strip tok = tok) as ->.
      { apply (strip_ends tok Q (ascii_of_nat 62)); [reflexivity | | reflexivity | reflexivity].
        unfold tok. rewrite typed_token_shape, app_assoc, rev_unit. reflexivity. }
      unfold tok. rewrite typed_token_shape, app_assoc. apply suffixb_snoc. }
    unfold parse_literal, decide_literal_type. rewrite Harr.
    unfold contains at 1. rewrite Hfind. cbn [negb]. rewrite Hx, Hr, Hdt, Hg, Hslice, Hstrip.
    assert (Hc : slice tok 1 (find_from1 (Str """") tok) = lex) by (unfold tok; apply content_of; exact HQ).
    rewrite Hc.
    destruct (contains c_XSD_NAMESPACE tok || contains c_RDF_SYNTAX_NAMESPACE tok
              || contains c_DT_NAMESPACE tok || contains c_OPENGIS_NAMESPACE tok); reflexivity.
  Qed.

  Lemma tune_token_obj o : obj_ok o = true -> tune_token pyfloat c08_tsv_object_untyped_numbers (r_obj o) = inl (mobj o).
  Proof.
    destruct o as [n|lex k]; intros H.
    - apply tune_token_node.
    - assert (forall suf, tune_token pyfloat c08_tsv_object_untyped_numbers (Q :: suf) = parse_literal (Q :: suf)) as E
          by reflexivity.
      destruct k as [|dt|tag]; cbn [r_obj obj_ok mobj dt_of] in *.
      + rewrite E. apply parse_plain. exact H.
      + apply andb_true_iff in H. destruct H as [H1 H2]. rewrite E. apply parse_typed; assumption.
      + rewrite !andb_true_iff in H. destruct H as [[H1 _] H3]. rewrite E. apply parse_lang; assumption.
  Qed.
End TokenLemmas.

(** *** one TSV line, a TSV document *)

Lemma not_in_cons (c x : ascii) l : c <> x -> ~ In c l -> ~ In c (x :: l).
Proof. intros H1 H2 [E|H]; [apply H1; auto | auto]. Qed.

Lemma not_in_app (c : ascii) a b : ~ In c a -> ~ In c b -> ~ In c (a ++ b).
Proof. intros H1 H2 H. apply in_app_or in H. tauto. Qed.

Lemma TAB_is_space : is_space TAB = true.
Proof. reflexivity. Qed.

Lemma tab_not_in_iri p : iri_ok p = true -> ~ In TAB (Str "<" ++ p ++ Str ">").
Proof.
  intros H. apply not_in_cons; [discriminate|]. apply not_in_app.
  - apply no_space_not_in; [reflexivity | exact H].
  - apply not_in_cons; [discriminate | intros []].
Qed.

Lemma tab_not_in_node n : node_ok n = true -> ~ In TAB (r_node n).
Proof.
  destruct n as [s|l]; cbn [node_ok r_node]; intros H.
  - apply tab_not_in_iri. exact H.
  - apply not_in_cons; [discriminate|]. apply not_in_cons; [discriminate|].
    apply no_space_not_in; [reflexivity | exact H].
Qed.

Lemma tab_not_in_lex lex : lex_ok lex = true -> ~ In TAB lex.
Proof. unfold lex_ok. rewrite !andb_true_iff. intros [[[H _] _] _]. apply no_char_not_in. exact H. Qed.

Lemma tab_not_in_obj o : obj_ok o = true -> ~ In TAB (r_obj o).
Proof.
  destruct o as [n|lex [|dt|tag]]; cbn [obj_ok r_obj]; intros H.
  - apply tab_not_in_node. exact H.
  - apply not_in_cons; [discriminate|]. apply not_in_app; [apply tab_not_in_lex; exact H|].
    apply not_in_cons; [discriminate | intros []].
  - apply andb_true_iff in H. destruct H as [H1 H2]. unfold dt_ok in H2. rewrite !andb_true_iff in H2.
    destruct H2 as [[[Hsp _] _] _].
    apply not_in_cons; [discriminate|]. apply not_in_app; [apply tab_not_in_lex; exact H1|].
    repeat (apply not_in_cons; [discriminate|]). apply not_in_app.
    + apply no_space_not_in; [reflexivity | exact Hsp].
    + apply not_in_cons; [discriminate | intros []].
  - rewrite !andb_true_iff in H. destruct H as [[H1 H2] _].
    apply not_in_cons; [discriminate|]. apply not_in_app; [apply tab_not_in_lex; exact H1|].
    repeat (apply not_in_cons; [discriminate|]). apply no_space_not_in; [reflexivity | exact H2].
Qed.

Lemma hd_rev_last (s : str) c : hd_error (rev (s ++ [c])) = Some c.
Proof. rewrite rev_unit. reflexivity. Qed.

Lemma obj_last pre o :
  obj_ok o = true -> exists y, hd_error (rev (pre ++ r_obj o)) = Some y /\ is_space y = false.
Proof.
  destruct o as [[s|l]|lex [|dt|tag]]; cbn [obj_ok node_ok r_obj r_node]; intros H.
  - exists (ascii_of_nat 62).
    change (Str "<" ++ s ++ Str ">") with ((Str "<" ++ s) ++ [ascii_of_nat 62]).
    rewrite app_assoc, hd_rev_last. split; reflexivity.
  - rewrite app_assoc. apply (last_nonspace _ l (ascii_of_nat 58)); [|reflexivity | exact H].
    change (Str "_:") with ([ascii_of_nat 95] ++ [ascii_of_nat 58]). rewrite app_assoc. apply hd_rev_last.
  - exists Q. change (Q :: lex ++ [Q]) with ((Q :: lex) ++ [Q]). rewrite app_assoc, hd_rev_last. split; reflexivity.
  - exists (ascii_of_nat 62). rewrite typed_token_shape, !app_assoc, hd_rev_last. split; reflexivity.
  - rewrite !andb_true_iff in H. destruct H as [[_ H2] _].
    change (Q :: lex ++ Q :: Str "@" ++ tag) with ((Q :: lex) ++ [Q; AT] ++ tag).
    rewrite !app_assoc.
    apply (last_nonspace _ tag AT); [|reflexivity | exact H2].
    change [Q; AT] with ([Q] ++ [AT]). rewrite !app_assoc. apply hd_rev_last.
Qed.

Section TsvTheorem.
  Variable pyfloat : str -> option bool.

  Definition m_of (t : atriple) : mtriple := MT (mnode (a_s t)) (a_p t) (mobj (a_o t)).

  Lemma triple_ok_parts t :
    triple_ok t = true -> node_ok (a_s t) = true /\ iri_ok (a_p t) = true /\ obj_ok (a_o t) = true.
  Proof. unfold triple_ok. rewrite !andb_true_iff. tauto. Qed.

  Lemma strip_tsv_line t : triple_ok t = true -> strip (tsv_line_of t) = tsv_line_of t.
  Proof.
    intros H. destruct (triple_ok_parts t H) as (Hs & Hp & Ho). unfold tsv_line_of.
    destruct (obj_last (r_node (a_s t) ++ TAB :: (Str "<" ++ a_p t ++ Str ">") ++ [TAB]) (a_o t) Ho) as (y & Hy & Sy).
    assert (E : r_node (a_s t) ++ TAB :: (Str "<" ++ a_p t ++ Str ">") ++ TAB :: r_obj (a_o t)
                = (r_node (a_s t) ++ TAB :: (Str "<" ++ a_p t ++ Str ">") ++ [TAB]) ++ r_obj (a_o t)).
    { rewrite <- !app_assoc. cbn [app]. rewrite <- !app_assoc. reflexivity. }
    rewrite E in *.
    destruct (a_s t) as [s|l].
    - apply (strip_ends _ (ascii_of_nat 60) y); [reflexivity | exact Hy | reflexivity | exact Sy].
    - apply (strip_ends _ (ascii_of_nat 95) y); [reflexivity | exact Hy | reflexivity | exact Sy].
  Qed.

  Lemma split_tsv_line t :
    triple_ok t = true ->
    split c08_tsv_sep (tsv_line_of t) = [r_node (a_s t); Str "<" ++ a_p t ++ Str ">"; r_obj (a_o t)].
  Proof.
    intros H. destruct (triple_ok_parts t H) as (Hs & Hp & Ho).
    rewrite tsv_sep_is_TAB, split_split1. unfold tsv_line_of.
    rewrite (split1_line TAB _ _ [] (tab_not_in_node _ Hs)).
    rewrite (split1_line TAB _ _ [] (tab_not_in_iri _ Hp)).
    rewrite (split1_last TAB _ [] (tab_not_in_obj _ Ho)). reflexivity.
  Qed.

  Lemma tsv_line_ok t : triple_ok t = true -> tsv_line pyfloat (tsv_line_of t) = inl (Some (m_of t)).
  Proof.
    intros H. destruct (triple_ok_parts t H) as (Hs & Hp & Ho).
    unfold tsv_line. rewrite (strip_tsv_line t H), (split_tsv_line t H).
    rewrite tune_token_node, tune_prop_iri, (tune_token_obj pyfloat _ Ho). reflexivity.
  Qed.

  Lemma triple_of_m_of t : triple_of_m (m_of t) = Some (T (knode (a_s t)) (a_p t) (kobj (a_o t))).
  Proof. destruct t as [[s|l] p [[s'|l']|lex k]]; reflexivity. Qed.

  (** *** C08(d): the TSV reader gives the TSV rendering its N-Triples semantics *)
  Theorem tsv_reads_nt_semantics g :
    tsv_dom g = true ->
    read_tsv pyfloat (map tsv_line_of g) = inl (Res (map m_of g) (List.length g) 0)
    /\ graph_of_m (map m_of g) = Some (kinded g).
  Proof.
    unfold tsv_dom. induction g as [|t g IH]; intros H; [split; reflexivity|].
    cbn [forallb] in H. apply andb_true_iff in H. destruct H as [Ht Hg]. destruct (IH Hg) as [IH1 IH2]. split.
    - cbn [map read_tsv]. rewrite (tsv_line_ok t Ht), IH1. reflexivity.
    - cbn [map graph_of_m kinded]. rewrite triple_of_m_of, IH2. reflexivity.
  Qed.

  Lemma tsv_lines_nonblank g : tsv_dom g = true -> filter nonblank (map tsv_line_of g) = map tsv_line_of g.
  Proof.
    unfold tsv_dom. induction g as [|t g IH]; intros H; [reflexivity|].
    cbn [forallb] in H. apply andb_true_iff in H. destruct H as [Ht Hg]. cbn [map filter].
    unfold nonblank at 1. rewrite (strip_tsv_line t Ht).
    assert (str_eqb (tsv_line_of t) [] = false) as ->
        by (unfold tsv_line_of; destruct (a_s t); reflexivity).
    cbn [negb]. rewrite (IH Hg). reflexivity.
  Qed.
End TsvTheorem.
