(** * Lemmas of property C08 (delivery channels).  Never imported by [Model/]. *)
From Coq Require Import List Ascii String ZArith Bool Lia Arith.
From Shexer Require Import Lib.PyStr Lib.Dict Gen.Consts Spec.Rdf Model.Tracker Model.Profiler
     Model.Channels Spec.ChannelSpec.
Import ListNotations.

(** ** A. streams *)

Definition sapp (a b : list mtriple + cerr) : list mtriple + cerr :=
  match a with
  | inr e => inr e
  | inl x => match b with inr e => inr e | inl y => inl (x ++ y) end
  end.

Lemma rd_stream_app a b : rd_stream (rd_app a b) = sapp (rd_stream a) (rd_stream b).
Proof. destruct a as [x|e], b as [y|e']; reflexivity. Qed.

Lemma sapp_nil_l a : sapp (inl []) a = a.
Proof. destruct a; reflexivity. Qed.

Lemma sapp_nil_r a : sapp a (inl []) = a.
Proof. destruct a as [x|e]; cbn; [rewrite app_nil_r|]; reflexivity. Qed.

Lemma sapp_assoc a b c : sapp (sapp a b) c = sapp a (sapp b c).
Proof. destruct a, b, c; cbn; try reflexivity. rewrite app_assoc. reflexivity. Qed.

Definition sconcat (l : list (list mtriple + cerr)) : list mtriple + cerr := fold_right sapp (inl []) l.

Lemma sconcat_app l1 l2 : sconcat (l1 ++ l2) = sapp (sconcat l1) (sconcat l2).
Proof.
  induction l1 as [|a l1 IH]; [symmetry; apply sapp_nil_l|].
  cbn [app sconcat fold_right]. fold (sconcat (l1 ++ l2)). fold (sconcat l1). rewrite IH, sapp_assoc. reflexivity.
Qed.

Lemma rd_stream_concat l : rd_stream (rd_concat l) = sconcat (map rd_stream l).
Proof.
  induction l as [|a l IH]; [reflexivity|]. cbn [rd_concat fold_right map sconcat].
  rewrite rd_stream_app. fold (rd_concat l). rewrite IH. reflexivity.
Qed.

(** ** B. lines *)

Definition nl (l : str) : str := l ++ [LF].

Lemma render_lines_cons l ls : render_lines (l :: ls) = l ++ LF :: render_lines ls.
Proof. unfold render_lines. cbn. rewrite <- app_assoc. reflexivity. Qed.

Lemma render_lines_app a b : render_lines (a ++ b) = render_lines a ++ render_lines b.
Proof. unfold render_lines. rewrite map_app, List.concat_app. reflexivity. Qed.

Lemma eqb_LF_false c : c <> LF -> Ascii.eqb c LF = false.
Proof. intros H. apply Ascii.eqb_neq. exact H. Qed.

Lemma keepends_aux_line l rest acc :
  ~ In LF l -> keepends_aux (l ++ LF :: rest) acc = (rev acc ++ l ++ [LF]) :: keepends_aux rest [].
Proof.
  revert acc. induction l as [|c l IH]; intros acc H; cbn [app keepends_aux].
  - rewrite Ascii.eqb_refl. reflexivity.
  - rewrite eqb_LF_false by (intros E; apply H; left; auto).
    rewrite IH by (intros E; apply H; right; auto). cbn [rev]. rewrite <- app_assoc. reflexivity.
Qed.

Lemma keepends_render ls : Forall (fun l => ~ In LF l) ls -> keepends (render_lines ls) = map nl ls.
Proof.
  unfold keepends. induction 1 as [|l ls Hl _ IH]; [reflexivity|].
  rewrite render_lines_cons, keepends_aux_line by exact Hl. cbn. rewrite IH. reflexivity.
Qed.

(** splitting on a one-character separator, without fuel *)
Fixpoint split1 (c : ascii) (s acc : str) : list str :=
  match s with
  | [] => [rev acc]
  | x :: s' => if Ascii.eqb c x then rev acc :: split1 c s' [] else split1 c s' (x :: acc)
  end.

Lemma split_fuel_split1 c f s acc : (List.length s < f)%nat -> split_fuel f [c] s acc = split1 c s acc.
Proof.
  revert s acc. induction f as [|f IH]; intros s acc H; [lia|].
  destruct s as [|x s]; [reflexivity|]. cbn in H. cbn.
  destruct (Ascii.eqb c x); cbn.
  - rewrite IH by lia. reflexivity.
  - apply IH. lia.
Qed.

Lemma split_split1 c s : split [c] s = split1 c s [].
Proof. unfold split. apply split_fuel_split1. lia. Qed.

Lemma split1_line c l rest acc :
  ~ In c l -> split1 c (l ++ c :: rest) acc = (rev acc ++ l) :: split1 c rest [].
Proof.
  revert acc. induction l as [|x l IH]; intros acc H; cbn.
  - rewrite Ascii.eqb_refl, app_nil_r. reflexivity.
  - assert (Ascii.eqb c x = false) as -> by (apply Ascii.eqb_neq; intros E; apply H; left; auto).
    rewrite IH by (intros E; apply H; right; auto). cbn. rewrite <- app_assoc. reflexivity.
Qed.

Lemma split1_last c l acc : ~ In c l -> split1 c l acc = [rev acc ++ l].
Proof.
  revert acc. induction l as [|x l IH]; intros acc H; cbn.
  - rewrite app_nil_r. reflexivity.
  - assert (Ascii.eqb c x = false) as -> by (apply Ascii.eqb_neq; intros E; apply H; left; auto).
    rewrite IH by (intros E; apply H; right; auto). cbn. rewrite <- app_assoc. reflexivity.
Qed.

Lemma split_render ls : Forall (fun l => ~ In LF l) ls -> split1 LF (render_lines ls) [] = ls ++ [[]].
Proof.
  induction 1 as [|l ls Hl _ IH]; [reflexivity|].
  rewrite render_lines_cons, split1_line by exact Hl. rewrite IH. reflexivity.
Qed.

Lemma raw_sep_is_LF : c08_raw_line_sep = [LF].
Proof. reflexivity. Qed.

(** [strip] *)
Lemma rstrip_snoc_space s c : is_space c = true -> rstrip (s ++ [c]) = rstrip s.
Proof. intros H. unfold rstrip. rewrite rev_unit. cbn. rewrite H. reflexivity. Qed.

Lemma strip_snoc_space l c : is_space c = true -> strip (l ++ [c]) = strip l.
Proof.
  intros H. unfold strip. induction l as [|x l IH]; cbn.
  - rewrite H. reflexivity.
  - destruct (is_space x); [exact IH|].
    change (x :: l ++ [c]) with ((x :: l) ++ [c]). apply rstrip_snoc_space. exact H.
Qed.

Lemma strip_nl l : strip (nl l) = strip l.
Proof. apply strip_snoc_space. reflexivity. Qed.

Lemma lstrip_head x s : is_space x = false -> lstrip (x :: s) = x :: s.
Proof. intros H. cbn. rewrite H. reflexivity. Qed.

Lemma rstrip_last s b : is_space b = false -> rstrip (s ++ [b]) = s ++ [b].
Proof. intros H. unfold rstrip. rewrite rev_unit, lstrip_head by exact H. rewrite <- rev_unit, rev_involutive. reflexivity. Qed.

Lemma strip_id x m b : is_space x = false -> is_space b = false -> strip (x :: m ++ [b]) = x :: m ++ [b].
Proof.
  intros Hx Hb. unfold strip. rewrite lstrip_head by exact Hx.
  change (x :: m ++ [b]) with ((x :: m) ++ [b]). apply rstrip_last. exact Hb.
Qed.

Lemma nonblank_false l : nonblank l = false -> strip l = [].
Proof. unfold nonblank. intros H. apply negb_false_iff, str_eqb_eq in H. exact H. Qed.

(** UTF-8 *)
Lemma utf8_dec_app a b st ra :
  utf8_dec true a st = Some ra ->
  utf8_dec true (a ++ b) st = match utf8_dec true b UIdle with Some rb => Some (ra ++ rb) | None => None end.
Proof.
  revert st ra. induction a as [|c a IH]; intros st ra H.
  - destruct st; cbn in H; [|discriminate]. inversion H; subst. cbn. destruct (utf8_dec true b UIdle); reflexivity.
  - cbn [app]. cbn [utf8_dec] in *.
    assert (Hidle : forall r,
               match idle_step c with
               | Some (out, st') => match utf8_dec true a st' with Some r0 => Some (out ++ r0) | None => None end
               | None => None
               end = Some r ->
               match idle_step c with
               | Some (out, st') => match utf8_dec true (a ++ b) st' with Some r0 => Some (out ++ r0) | None => None end
               | None => None
               end = match utf8_dec true b UIdle with Some rb => Some (r ++ rb) | None => None end).
    { intros r Hr. destruct (idle_step c) as [[out st']|]; [|discriminate].
      destruct (utf8_dec true a st') as [r0|] eqn:E; [|discriminate]. inversion Hr; subst.
      rewrite (IH _ _ E). destruct (utf8_dec true b UIdle); [rewrite app_assoc|]; reflexivity. }
    destruct st as [|buf k lo hi].
    + apply Hidle. exact H.
    + destruct (Nat.leb lo (nat_of_ascii c) && Nat.leb (nat_of_ascii c) hi); [|discriminate].
      destruct k as [|[|k]].
      * apply IH. exact H.
      * destruct (utf8_dec true a UIdle) as [r0|] eqn:E; [|discriminate]. inversion H; subst.
        rewrite (IH _ _ E). destruct (utf8_dec true b UIdle); [rewrite app_assoc|]; reflexivity.
      * apply IH. exact H.
Qed.

Lemma decode_strict_app a b :
  decode_strict a = Some a -> decode_strict b = Some b -> decode_strict (a ++ b) = Some (a ++ b).
Proof.
  unfold decode_strict. intros Ha Hb. rewrite (utf8_dec_app _ _ _ _ Ha), Hb. reflexivity.
Qed.

Lemma decode_strict_LF : decode_strict [LF] = Some [LF].
Proof. reflexivity. Qed.

Lemma decode_strict_nl l : decode_strict l = Some l -> decode_strict (nl l) = Some (nl l).
Proof. intros H. apply decode_strict_app; [exact H | exact decode_strict_LF]. Qed.

Lemma decode_strict_render ls :
  Forall (fun l => decode_strict l = Some l) ls -> decode_strict (render_lines ls) = Some (render_lines ls).
Proof.
  induction 1 as [|l ls Hl _ IH]; [reflexivity|].
  unfold render_lines. cbn [map List.concat]. apply decode_strict_app; [apply decode_strict_nl; exact Hl | exact IH].
Qed.

Lemma utf8_strict_ignore s st r : utf8_dec true s st = Some r -> utf8_dec false s st = Some r.
Proof.
  revert st r. induction s as [|c s IH]; intros st r H.
  - destruct st; cbn in *; [exact H | discriminate].
  - cbn [utf8_dec] in *.
    assert (Hidle : forall r,
               match idle_step c with
               | Some (out, st') => match utf8_dec true s st' with Some r0 => Some (out ++ r0) | None => None end
               | None => None
               end = Some r ->
               match idle_step c with
               | Some (out, st') => match utf8_dec false s st' with Some r0 => Some (out ++ r0) | None => None end
               | None => utf8_dec false s UIdle
               end = Some r).
    { intros r0 Hr. destruct (idle_step c) as [[out st']|]; [|discriminate].
      destruct (utf8_dec true s st') as [r1|] eqn:E; [|discriminate]. rewrite (IH _ _ E). exact Hr. }
    destruct st as [|buf k lo hi].
    + apply Hidle. exact H.
    + destruct (Nat.leb lo (nat_of_ascii c) && Nat.leb (nat_of_ascii c) hi); [|discriminate].
      destruct k as [|[|k]].
      * apply IH. exact H.
      * destruct (utf8_dec true s UIdle) as [r0|] eqn:E; [|discriminate]. rewrite (IH _ _ E). exact H.
      * apply IH. exact H.
Qed.

Lemma decode_ignore_valid s : decode_strict s = Some s -> decode_ignore s = s.
Proof. unfold decode_strict, decode_ignore. intros H. rewrite (utf8_strict_ignore _ _ _ H). reflexivity. Qed.

Lemma universal_nl_id s : ~ In CR s -> universal_nl s = s.
Proof.
  induction s as [|c s IH]; intros H; [reflexivity|]. cbn [universal_nl].
  assert (Ascii.eqb c CR = false) as -> by (apply Ascii.eqb_neq; intros E; apply H; left; auto).
  rewrite IH by (intros E; apply H; right; auto). reflexivity.
Qed.

Lemma not_in_render c ls : c <> LF -> Forall (fun l => ~ In c l) ls -> ~ In c (render_lines ls).
Proof.
  intros Hc. induction 1 as [|l ls Hl _ IH]; [intros []|].
  rewrite render_lines_cons. intros H. apply in_app_or in H. destruct H as [H|[H|H]]; auto.
Qed.

Lemma decode_lines_valid ls :
  Forall (fun l => decode_strict l = Some l) ls -> decode_lines (map nl ls) = inl (map nl ls).
Proof.
  induction 1 as [|l ls Hl _ IH]; [reflexivity|]. cbn. rewrite (decode_strict_nl _ Hl), IH. reflexivity.
Qed.

(** the three line readers on a document made of complete lines *)
Lemma Forall_line_ok_LF ls : Forall line_ok ls -> Forall (fun l => ~ In LF l) ls.
Proof. apply Forall_impl. intros l (H & _). exact H. Qed.
Lemma Forall_line_ok_CR ls : Forall line_ok ls -> Forall (fun l => ~ In CR l) ls.
Proof. apply Forall_impl. intros l (_ & H & _). exact H. Qed.
Lemma Forall_line_ok_utf8 ls : Forall line_ok ls -> Forall (fun l => decode_strict l = Some l) ls.
Proof. apply Forall_impl. intros l (_ & _ & H). exact H. Qed.

Lemma lines_raw_render ls : Forall line_ok ls -> lines_raw (render_lines ls) = filter nonblank ls.
Proof.
  intros H. unfold lines_raw. rewrite raw_sep_is_LF, split_split1, split_render by (apply Forall_line_ok_LF; exact H).
  rewrite filter_app. cbn. rewrite app_nil_r. reflexivity.
Qed.

Lemma lines_text_render ls : Forall line_ok ls -> lines_text (render_lines ls) = map nl ls.
Proof.
  intros H. unfold lines_text.
  rewrite decode_ignore_valid by (apply decode_strict_render, Forall_line_ok_utf8; exact H).
  rewrite universal_nl_id by (apply not_in_render; [discriminate | apply Forall_line_ok_CR; exact H]).
  apply keepends_render, Forall_line_ok_LF. exact H.
Qed.

Lemma lines_bytes_render ls : Forall line_ok ls -> lines_bytes (render_lines ls) = inl (map nl ls).
Proof.
  intros H. unfold lines_bytes. rewrite keepends_render by (apply Forall_line_ok_LF; exact H).
  apply decode_lines_valid, Forall_line_ok_utf8. exact H.
Qed.

(** ** C. line-compositional readers *)

Section Compositional.
  Variable read : list str -> rd.
  Hypothesis LC : line_compositional read.

  Lemma read_nil : read [] = inl res_nil.
  Proof. exact (lc_nil read LC). Qed.

  Lemma stream_read_cons l ls :
    rd_stream (read (l :: ls)) = sapp (rd_stream (read [l])) (rd_stream (read ls)).
  Proof. change (l :: ls) with ([l] ++ ls). rewrite (lc_app read LC), rd_stream_app. reflexivity. Qed.

  Lemma stream_read_app a b :
    rd_stream (read (a ++ b)) = sapp (rd_stream (read a)) (rd_stream (read b)).
  Proof. rewrite (lc_app read LC), rd_stream_app. reflexivity. Qed.

  Lemma blanks_harmless_tail l ls : blanks_harmless read (l :: ls) -> blanks_harmless read ls.
  Proof. intros [H|H]; [left; exact H | right; inversion H; assumption]. Qed.

  Lemma blanks_harmless_app a b : blanks_harmless read (a ++ b) -> blanks_harmless read a /\ blanks_harmless read b.
  Proof.
    intros [H|H]; [split; left; exact H|]. apply Forall_app in H. destruct H. split; right; assumption.
  Qed.

  (** line terminators and blank lines do not show in the stream *)
  Lemma stream_read_nl_filter ls :
    blanks_harmless read ls ->
    rd_stream (read (map nl ls)) = rd_stream (read (filter nonblank ls)).
  Proof.
    induction ls as [|l ls IH]; intros Hb; [reflexivity|]. cbn [map filter].
    rewrite (stream_read_cons (nl l) (map nl ls)), (IH (blanks_harmless_tail l ls Hb)),
      (lc_strip read LC (nl l) l (strip_nl l)).
    destruct (nonblank l) eqn:E.
    - rewrite (stream_read_cons l (filter nonblank ls)). reflexivity.
    - destruct Hb as [Hs|Hf].
      + destruct (Hs l (nonblank_false l E)) as [n Hn]. rewrite Hn. cbn [rd_stream r_triples]. apply sapp_nil_l.
      + inversion Hf; subst. congruence.
  Qed.

  Lemma stream_read_concat lss :
    rd_stream (read (List.concat lss)) = sconcat (map (fun ls => rd_stream (read ls)) lss).
  Proof.
    induction lss as [|ls lss IH]; cbn [List.concat map sconcat fold_right].
    - rewrite read_nil. reflexivity.
    - rewrite stream_read_app, IH. reflexivity.
  Qed.

  (** the heart of C08(a): files holding complete lines, read one after the
      other through any of the line readers, deliver the stream of the single
      raw string *)
  Lemma stream_pieces (lss : list (list str)) :
    blanks_harmless read (List.concat lss) ->
    sconcat (map (fun ls => rd_stream (read (map nl ls))) lss)
    = rd_stream (read (filter nonblank (List.concat lss))).
  Proof.
    intros Hb. rewrite <- concat_filter_map, stream_read_concat, map_map.
    f_equal. induction lss as [|ls lss IH]; [reflexivity|].
    cbn [List.concat] in Hb. destruct (blanks_harmless_app _ _ Hb) as [H1 H2].
    cbn [map]. rewrite (stream_read_nl_filter ls H1), (IH H2). reflexivity.
  Qed.
End Compositional.

(** ** D. the channels of a line-based format *)

Definition cm_plain (cm : option str) : Prop :=
  cm = None \/ cm = Some (Str "gz") \/ cm = Some (Str "xz").

Section Partition.
  Variable pyfloat : str -> option bool.
  Variable read_nt read_ttl : list str -> rd.
  Variable gunzip unxz : str -> option str.
  Variable unzip : str -> option (list (str * str)).
  Variable rdf_parse : str -> str -> option (list rtriple).

  Notation chan := (channel pyfloat read_nt read_ttl gunzip unxz unzip rdf_parse).
  Notation single1 := (single pyfloat read_nt read_ttl gunzip unxz rdf_parse).
  Notation multi_from1 := (multi_from pyfloat read_nt read_ttl gunzip unxz rdf_parse).
  Notation lines_of1 := (lines_of gunzip unxz).

  (** the two formats whose document reader works line by line *)
  Inductive line_family : str -> (list str -> rd) -> Prop :=
  | Fam_nt : line_family (Str "nt") read_nt
  | Fam_tsv : line_family (Str "tsv_spo") (read_tsv pyfloat).

  Lemma lines_of_raw cm doc : cm_plain cm -> lines_of1 true cm doc = inl (lines_raw doc).
  Proof. intros C; destruct C as [-> | [-> | ->]]; reflexivity. Qed.

  Lemma lines_of_text st : lines_of1 false None st = inl (lines_text st).
  Proof. reflexivity. Qed.

  Lemma lines_of_gz st :
    lines_of1 false (Some (Str "gz")) st = match gunzip st with Some b => lines_bytes b | None => inr CECodec end.
  Proof. reflexivity. Qed.

  Lemma lines_of_xz st :
    lines_of1 false (Some (Str "xz")) st = match unxz st with Some b => lines_bytes b | None => inr CECodec end.
  Proof. reflexivity. Qed.

  Lemma lines_of_zip_member content : lines_of1 false (Some c_ZIP) content = lines_bytes content.
  Proof. reflexivity. Qed.

  (** a stored file that holds complete lines delivers those lines, whatever the compression *)
  Lemma lines_of_stored cm ls st :
    Forall line_ok ls -> stored_as gunzip unxz cm (render_lines ls) st ->
    lines_of1 false cm st = inl (map nl ls).
  Proof.
    intros Hok Hst. destruct cm as [c|]; cbn in Hst.
    - destruct Hst as [[-> Hg]|[-> Hx]].
      + rewrite lines_of_gz, Hg. apply lines_bytes_render. exact Hok.
      + rewrite lines_of_xz, Hx. apply lines_bytes_render. exact Hok.
    - subst st. rewrite lines_of_text, lines_text_render by exact Hok. reflexivity.
  Qed.

  Lemma single_line o fmt read raw cm st :
    line_family fmt read -> single1 o fmt (fst (family fmt)) raw cm st = with_lines read (lines_of1 raw cm st).
  Proof. intros []; reflexivity. Qed.

  Lemma dispatch_raw fmt read : line_family fmt read -> dispatch fmt None KRaw = inl (YPlain (fst (family fmt))).
  Proof. intros []; reflexivity. Qed.

  Lemma dispatch_file fmt read cm :
    line_family fmt read -> cm_plain cm -> dispatch fmt cm KFile = inl (YPlain (fst (family fmt))).
  Proof. intros [] [->|[-> | ->]]; reflexivity. Qed.

  Lemma dispatch_files fmt read cm n :
    line_family fmt read -> cm_plain cm -> dispatch fmt cm (KFiles n) = inl (YPlain (snd (family fmt))).
  Proof. intros [] [->|[-> | ->]]; reflexivity. Qed.

  Lemma dispatch_zip_file fmt read :
    line_family fmt read -> dispatch fmt (Some c_ZIP) KFile = inl (YZipOne (snd (family fmt))).
  Proof. intros []; reflexivity. Qed.

  Lemma dispatch_zip_files fmt read n :
    line_family fmt read ->
    dispatch fmt (Some c_ZIP) (KFiles n) =
    inl (if Nat.eqb n 1 then YZipOne (snd (family fmt)) else YZipMany (Str "MultiZipTriplesYielder") (snd (family fmt))).
  Proof.
    intros []; unfold dispatch; cbn -[Z.eqb Z.of_nat Nat.eqb];
      (destruct n as [|[|n]]; [reflexivity | reflexivity |]);
      unfold resolve_target; cbn -[Z.eqb Z.of_nat Nat.eqb];
      replace (Z.eqb (Z.of_nat (S (S n))) c08_zip_single_archives) with false
        by (symmetry; apply Z.eqb_neq; unfold c08_zip_single_archives; lia); reflexivity.
  Qed.

  Lemma chan_raw o fmt read doc :
    line_family fmt read -> chan o fmt None (SRaw doc) = read (lines_raw doc).
  Proof.
    intros F. unfold channel. cbn [kind_of]. rewrite (dispatch_raw _ _ F).
    destruct F; reflexivity.
  Qed.

  Lemma multi_from_stream i orcs fmt read cm files :
    line_family fmt read ->
    rd_stream (multi_from1 i orcs fmt (fst (family fmt)) cm files)
    = sconcat (map (fun st => rd_stream (with_lines read (lines_of1 false cm st))) files).
  Proof.
    intros F. revert i. induction files as [|f fs IH]; intros i; [reflexivity|].
    cbn [multi_from map sconcat fold_right]. rewrite rd_stream_app, (single_line _ _ _ _ _ _ F), IH. reflexivity.
  Qed.

  Lemma chan_files o fmt read cm stored :
    line_family fmt read -> cm_plain cm ->
    chan o fmt cm (SFiles stored) = multi_from1 0 (o 0) fmt (fst (family fmt)) cm stored.
  Proof.
    intros F C. unfold channel. cbn [kind_of]. rewrite (dispatch_files _ _ _ _ F C).
    destruct F; reflexivity.
  Qed.

  Lemma chan_file o fmt read cm st :
    line_family fmt read -> cm_plain cm ->
    chan o fmt cm (SFile st) = with_lines read (lines_of1 false cm st).
  Proof.
    intros F C. unfold channel. cbn [kind_of]. rewrite (dispatch_file _ _ _ F C).
    destruct F; reflexivity.
  Qed.

  (** the streams of the pieces, piece by piece *)
  Lemma pieces_stream fmt read cm lss stored :
    line_family fmt read ->
    Forall (Forall line_ok) lss ->
    Forall2 (stored_as gunzip unxz cm) (map render_lines lss) stored ->
    sconcat (map (fun st => rd_stream (with_lines read (lines_of1 false cm st))) stored)
    = sconcat (map (fun ls => rd_stream (read (map nl ls))) lss).
  Proof.
    intros F Hok. revert stored. induction Hok as [|ls lss Hls _ IH]; intros stored H2; inversion H2; subst.
    - reflexivity.
    - cbn [map sconcat fold_right]. rewrite (lines_of_stored _ _ _ Hls H1). cbn [with_lines].
      f_equal. apply IH. assumption.
  Qed.

  Lemma Forall_concat {A} (P : A -> Prop) l : Forall (Forall P) l -> Forall P (List.concat l).
  Proof. induction 1; cbn; [constructor | apply Forall_app; split; assumption]. Qed.

  Lemma concat_line_ok lss : Forall (Forall line_ok) lss -> Forall line_ok (List.concat lss).
  Proof. apply Forall_concat. Qed.

  (** *** C08(a): any partition of the lines into files, plain or gz / xz compressed *)
  Theorem partition_invisible_files fmt read o o' cm lss stored :
    line_family fmt read -> line_compositional read -> blanks_harmless read (List.concat lss) -> cm_plain cm ->
    Forall (Forall line_ok) lss ->
    Forall2 (stored_as gunzip unxz cm) (map render_lines lss) stored ->
    rd_stream (chan o fmt cm (SFiles stored))
    = rd_stream (chan o' fmt None (SRaw (render_lines (List.concat lss)))).
  Proof.
    intros F LC Hb C Hok Hst.
    rewrite (chan_files _ _ _ _ _ F C), (multi_from_stream _ _ _ _ _ _ F), (pieces_stream _ _ _ _ _ F Hok Hst).
    rewrite (stream_pieces read LC _ Hb), (chan_raw _ _ _ _ F), lines_raw_render by (apply concat_line_ok; exact Hok).
    reflexivity.
  Qed.

  (** one file *)
  Theorem partition_invisible_file fmt read o o' cm ls st :
    line_family fmt read -> line_compositional read -> blanks_harmless read ls -> cm_plain cm ->
    Forall line_ok ls -> stored_as gunzip unxz cm (render_lines ls) st ->
    rd_stream (chan o fmt cm (SFile st)) = rd_stream (chan o' fmt None (SRaw (render_lines ls))).
  Proof.
    intros F LC Hb C Hok Hst.
    rewrite (chan_file _ _ _ _ _ F C), (lines_of_stored _ _ _ Hok Hst). cbn [with_lines].
    rewrite (stream_read_nl_filter read LC _ Hb), (chan_raw _ _ _ _ F), lines_raw_render by exact Hok.
    reflexivity.
  Qed.

  (** *** zip: the members of one archive, in [namelist()] order *)
  Definition archive_holds (archive : str) (lss : list (list str)) : Prop :=
    exists members, unzip archive = Some members /\ map snd members = map render_lines lss.

  Lemma zip_one_stream o fmt read archive lss :
    line_family fmt read -> Forall (Forall line_ok) lss -> archive_holds archive lss ->
    rd_stream (zip_one pyfloat read_nt read_ttl gunzip unxz unzip rdf_parse o fmt (snd (family fmt)) archive)
    = sconcat (map (fun ls => rd_stream (read (map nl ls))) lss).
  Proof.
    intros F Hok (members & Hu & Hm). unfold zip_one. rewrite Hu, Hm.
    assert (multi pyfloat read_nt read_ttl gunzip unxz rdf_parse o fmt (snd (family fmt)) (Some c_ZIP) (map render_lines lss)
            = multi_from1 0 o fmt (fst (family fmt)) (Some c_ZIP) (map render_lines lss)) as -> by (destruct F; reflexivity).
    rewrite (multi_from_stream _ _ _ _ _ _ F).
    clear Hu Hm. induction Hok as [|ls lss Hls _ IH]; [reflexivity|].
    cbn [map sconcat fold_right]. rewrite lines_of_zip_member, (lines_bytes_render _ Hls). cbn [with_lines].
    f_equal. exact IH.
  Qed.

  Theorem partition_invisible_zip fmt read o o' archive lss :
    line_family fmt read -> line_compositional read -> blanks_harmless read (List.concat lss) ->
    Forall (Forall line_ok) lss -> archive_holds archive lss ->
    rd_stream (chan o fmt (Some c_ZIP) (SFile archive))
    = rd_stream (chan o' fmt None (SRaw (render_lines (List.concat lss)))).
  Proof.
    intros F LC Hb Hok Ha. unfold channel at 1. cbn [kind_of]. rewrite (dispatch_zip_file _ _ F). cbn [run_yielder].
    rewrite (zip_one_stream _ _ _ _ _ F Hok Ha), (stream_pieces read LC _ Hb), (chan_raw _ _ _ _ F),
      lines_raw_render by (apply concat_line_ok; exact Hok).
    reflexivity.
  Qed.

  (** *** several archives ([MultiZipTriplesYielder]); a list with exactly one
      archive is the previous case *)
  Lemma rd_concat_last_ok parts tot : rd_concat parts = inl tot -> exists lst, last parts (inl res_nil) = inl lst.
  Proof.
    revert tot. induction parts as [|a parts IH]; intros tot H; [exists res_nil; reflexivity|].
    cbn [rd_concat fold_right] in H. fold (rd_concat parts) in H.
    destruct a as [x|e]; [|discriminate]. destruct (rd_concat parts) as [y|e] eqn:E; [|discriminate].
    destruct parts as [|b parts]; [exists x; reflexivity|].
    destruct (IH _ eq_refl) as [lst Hl]. exists lst. exact Hl.
  Qed.

  Lemma zip_many_stream (o : porc) fmt cls archives :
    rd_stream (zip_many pyfloat read_nt read_ttl gunzip unxz unzip rdf_parse o fmt cls archives)
    = sconcat (map (fun ia => rd_stream (zip_one pyfloat read_nt read_ttl gunzip unxz unzip rdf_parse
                                                 (o (fst ia)) fmt cls (snd ia)))
                   (combine (seq 0 (List.length archives)) archives)).
  Proof.
    unfold zip_many. rewrite <- (map_map _ rd_stream), <- rd_stream_concat.
    destruct (rd_concat _) as [tot|e] eqn:E; [|reflexivity].
    destruct (rd_concat_last_ok _ _ E) as [lst ->]. reflexivity.
  Qed.

  Theorem partition_invisible_zips fmt read o o' archives lsss :
    line_family fmt read -> line_compositional read -> blanks_harmless read (List.concat (List.concat lsss)) ->
    Forall (Forall (Forall line_ok)) lsss -> Forall2 archive_holds archives lsss ->
    rd_stream (chan o fmt (Some c_ZIP) (SFiles archives))
    = rd_stream (chan o' fmt None (SRaw (render_lines (List.concat (List.concat lsss))))).
  Proof.
    intros F LC Hb Hok Ha.
    assert (Hgen : forall (k : nat) (oo : nat -> nat -> rorc) archives lsss,
               Forall (Forall (Forall line_ok)) lsss -> Forall2 archive_holds archives lsss ->
               sconcat (map (fun ia => rd_stream (zip_one pyfloat read_nt read_ttl gunzip unxz unzip rdf_parse
                                                          (oo (fst ia)) fmt (snd (family fmt)) (snd ia)))
                            (combine (seq k (List.length archives)) archives))
               = sconcat (map (fun ls => rd_stream (read (map nl ls))) (List.concat lsss))).
    { clear Hb Hok Ha archives lsss. intros k oo archives lsss Hok Ha. revert k.
      induction Ha as [|a lss archives lsss Ha1 _ IH]; intros k; [reflexivity|].
      inversion Hok; subst. cbn [List.length seq combine map sconcat fold_right List.concat fst snd].
      rewrite map_app, sconcat_app, (zip_one_stream _ _ _ _ _ F H1 Ha1). f_equal. apply IH. assumption. }
    assert (Hraw : sconcat (map (fun ls => rd_stream (read (map nl ls))) (List.concat lsss))
                   = rd_stream (chan o' fmt None (SRaw (render_lines (List.concat (List.concat lsss)))))).
    { rewrite (stream_pieces read LC _ Hb), (chan_raw _ _ _ _ F), lines_raw_render; [reflexivity|].
      apply concat_line_ok, Forall_concat. exact Hok. }
    unfold channel at 1. cbn [kind_of]. rewrite (dispatch_zip_files _ _ _ F).
    destruct (Nat.eqb (List.length archives) 1) eqn:E.
    - apply Nat.eqb_eq in E. destruct archives as [|a [|b l]]; try discriminate.
      inversion Ha as [|? lss ? lsss' Ha1 Hrest]; subst. inversion Hrest; subst.
      cbn [run_yielder]. inversion Hok; subst.
      rewrite (zip_one_stream _ _ _ _ _ F H1 Ha1), <- Hraw. cbn [List.concat]. rewrite app_nil_r. reflexivity.
    - cbn [run_yielder]. rewrite zip_many_stream, (Hgen 0 o _ _ Hok Ha). exact Hraw.
  Qed.
End Partition.

(** ** E. the TSV reader *)

Lemma res_app_nil_l y : res_app res_nil y = y.
Proof. destruct y; reflexivity. Qed.

Lemma res_app_assoc x y z : res_app (res_app x y) z = res_app x (res_app y z).
Proof. unfold res_app. cbn. rewrite app_assoc, !Nat.add_assoc. reflexivity. Qed.

Lemma rd_app_nil_l b : rd_app (inl res_nil) b = b.
Proof. destruct b as [y|e]; cbn; [rewrite res_app_nil_l|]; reflexivity. Qed.

Lemma rd_app_assoc a b c : rd_app (rd_app a b) c = rd_app a (rd_app b c).
Proof. destruct a, b, c; cbn; try reflexivity. rewrite res_app_assoc. reflexivity. Qed.

Lemma tsv_sep_is_TAB : c08_tsv_sep = [TAB].
Proof. reflexivity. Qed.

Theorem read_tsv_compositional pyfloat : line_compositional (read_tsv pyfloat).
Proof.
  constructor.
  - reflexivity.
  - intros a b. induction a as [|l a IH]; cbn [app read_tsv].
    + rewrite rd_app_nil_l. reflexivity.
    + rewrite IH, rd_app_assoc. reflexivity.
  - intros l l' H. cbn [read_tsv]. unfold tsv_line, tsv_skipped. rewrite H. reflexivity.
Qed.

(** a blank line is a discarded line: counted, no triple (this is where the
    repaired [log_msg] call enters: [c08_tsv_discard_log_fits]); once the
    reader skips blank lines and comment lines ([c08_tsv_skips_comment_lines])
    it is not even counted *)
Theorem read_tsv_blank_silent pyfloat : blank_silent (read_tsv pyfloat).
Proof.
  intros l H. exists (if c08_tsv_skips_comment_lines then 0 else 1)%nat. cbn [read_tsv].
  unfold tsv_line, tsv_skipped. rewrite H. destruct c08_tsv_skips_comment_lines; reflexivity.
Qed.

(** rdflib literals: the element type is the N-Triples one, whatever the lexical form *)
Theorem turn_literal_kinded lex k :
  exists content, turn_literal (rlit_of lex k) = inl (MLit content (dt_of k)).
Proof. destruct k; eexists; reflexivity. Qed.

(** *** strings *)

Lemma no_char_not_in c s : no_char c s = true -> ~ In c s.
Proof.
  unfold no_char. rewrite forallb_forall. intros H Hin. specialize (H _ Hin).
  rewrite Ascii.eqb_refl in H. discriminate.
Qed.

Lemma no_space_not_in c s : is_space c = true -> no_space s = true -> ~ In c s.
Proof.
  unfold no_space. rewrite forallb_forall. intros Hc H Hin. specialize (H _ Hin). rewrite Hc in H. discriminate.
Qed.

Lemma find_nat_char c a b : ~ In c a -> find_nat [c] (a ++ c :: b) = Some (List.length a).
Proof.
  induction a as [|x a IH]; intros H; cbn.
  - rewrite Ascii.eqb_refl. reflexivity.
  - assert (Ascii.eqb c x = false) as -> by (apply Ascii.eqb_neq; intros E; apply H; left; auto).
    cbn. rewrite IH by (intros E; apply H; right; auto). reflexivity.
Qed.

Lemma find_nat_head_absent c r s : ~ In c s -> find_nat (c :: r) s = None.
Proof.
  induction s as [|x s IH]; intros H; [reflexivity|]. cbn.
  assert (Ascii.eqb c x = false) as -> by (apply Ascii.eqb_neq; intros E; apply H; left; auto).
  cbn. rewrite IH by (intros E; apply H; right; auto). reflexivity.
Qed.

Lemma find_nat_head_skip c r a rest :
  ~ In c a -> find_nat (c :: r) (a ++ rest) = match find_nat (c :: r) rest with Some n => Some (List.length a + n) | None => None end.
Proof.
  induction a as [|x a IH]; intros H; cbn [app].
  - destruct (find_nat (c :: r) rest); reflexivity.
  - cbn [find_nat prefixb].
    assert (Ascii.eqb c x = false) as -> by (apply Ascii.eqb_neq; intros E; apply H; left; auto).
    cbn [andb]. rewrite IH by (intros E; apply H; right; auto).
    destruct (find_nat (c :: r) rest); reflexivity.
Qed.

Lemma rfind_aux_absent c b i best : ~ In c b -> rfind_nat_aux [c] b i best = best.
Proof.
  revert i best. induction b as [|x b IH]; intros i best H; [reflexivity|]. cbn.
  assert (Ascii.eqb c x = false) as -> by (apply Ascii.eqb_neq; intros E; apply H; left; auto).
  cbn. apply IH. intros E; apply H; right; auto.
Qed.

Lemma rfind_aux_last c a b i best :
  ~ In c b -> rfind_nat_aux [c] (a ++ c :: b) i best = Some (i + List.length a).
Proof.
  revert i best. induction a as [|x a IH]; intros i best H.
  - cbn. rewrite Ascii.eqb_refl. cbn. rewrite rfind_aux_absent by exact H. f_equal. lia.
  - cbn [app rfind_nat_aux]. rewrite IH by exact H. cbn [List.length]. f_equal. lia.
Qed.

Lemma rfind_last c a b : ~ In c b -> rfind [c] (a ++ c :: b) = Z.of_nat (List.length a).
Proof. intros H. unfold rfind, rfind_nat. rewrite rfind_aux_last by exact H. reflexivity. Qed.

Lemma rfind_absent c s : ~ In c s -> rfind [c] s = (-1)%Z.
Proof. intros H. unfold rfind, rfind_nat. rewrite rfind_aux_absent by exact H. reflexivity. Qed.

Lemma last_occurrence (c : ascii) l : In c l -> exists a b, l = a ++ c :: b /\ ~ In c b.
Proof.
  induction l as [|x l IH]; intros H; [destruct H|].
  destruct (in_dec ascii_dec c l) as [Hin|Hnin].
  - destruct (IH Hin) as (a & b & -> & Hb). exists (x :: a), b. split; [reflexivity | exact Hb].
  - destruct H as [->|H]; [|contradiction]. exists [], l. split; [reflexivity | exact Hnin].
Qed.

(** the language test: the last at-sign against the last double quote *)
Definition ATSIGN : ascii := ascii_of_nat 64.

Lemma lang_marker_is_AT : c_lang_marker = [ATSIGN].
Proof. reflexivity. Qed.

Lemma arroba_false pre post :
  ~ In Q post -> ~ In ATSIGN post -> there_is_arroba_after_last_quotes (pre ++ Q :: post) = false.
Proof.
  intros HQ HA. unfold there_is_arroba_after_last_quotes. rewrite lang_marker_is_AT.
  change (Str """") with [Q]. rewrite (rfind_last Q pre post HQ).
  destruct (in_dec ascii_dec ATSIGN pre) as [Hin|Hnin].
  - destruct (last_occurrence ATSIGN pre Hin) as (a & b & -> & Hb).
    rewrite <- app_assoc. cbn [app].
    rewrite rfind_last.
    + rewrite Z.gtb_ltb. apply Z.ltb_ge. rewrite app_length. cbn [List.length]. lia.
    + intros H. apply in_app_or in H. destruct H as [H|[H|H]]; [auto | discriminate H | auto].
  - rewrite rfind_absent.
    + rewrite Z.gtb_ltb. apply Z.ltb_ge. lia.
    + intros H. apply in_app_or in H. destruct H as [H|[H|H]]; [auto | discriminate H | auto].
Qed.

Lemma arroba_true pre tag :
  ~ In Q tag -> there_is_arroba_after_last_quotes (pre ++ Q :: ATSIGN :: tag) = true.
Proof.
  intros HQ. unfold there_is_arroba_after_last_quotes. rewrite lang_marker_is_AT.
  change (Str """") with [Q].
  rewrite (rfind_last Q pre (ATSIGN :: tag)) by (intros [H|H]; [discriminate H | auto]).
  destruct (last_occurrence ATSIGN (ATSIGN :: tag) (or_introl eq_refl)) as (a & b & E & Hb).
  replace (pre ++ Q :: ATSIGN :: tag) with ((pre ++ Q :: a) ++ ATSIGN :: b) by (rewrite <- app_assoc; cbn [app]; rewrite <- E; reflexivity).
  rewrite rfind_last by exact Hb. rewrite app_length. cbn [List.length].
  apply Z.gtb_lt. lia.
Qed.

(** the three characters quote-caret-caret *)
Definition HAT : ascii := ascii_of_nat 94.

Lemma QHH_chars : QHH = [Q; HAT; HAT].
Proof. reflexivity. Qed.

Lemma hats_not_prefix lex rest :
  prefixb [HAT; HAT] lex = false -> prefixb [HAT; HAT] (lex ++ Q :: rest) = false.
Proof.
  destruct lex as [|a [|b l]]; intros H; cbn [app prefixb] in *.
  - reflexivity.
  - destruct (Ascii.eqb HAT a); reflexivity.
  - exact H.
Qed.

Lemma find_nat_cons p x s :
  find_nat p (x :: s) = if prefixb p (x :: s) then Some 0
                        else match find_nat p s with Some n => Some (S n) | None => None end.
Proof. reflexivity. Qed.

Lemma prefixb_cons x p y s : prefixb (x :: p) (y :: s) = Ascii.eqb x y && prefixb p s.
Proof. reflexivity. Qed.

Lemma find_QHH_plain lex :
  ~ In Q lex -> prefixb [HAT; HAT] lex = false -> find_nat QHH (Q :: lex ++ [Q]) = None.
Proof.
  intros HQ HH. rewrite QHH_chars, find_nat_cons, prefixb_cons, Ascii.eqb_refl, (hats_not_prefix lex [] HH).
  cbn [andb]. rewrite (find_nat_head_skip Q [HAT; HAT] lex [Q] HQ). reflexivity.
Qed.

Lemma find_QHH_typed lex rest :
  ~ In Q lex -> prefixb [HAT; HAT] lex = false ->
  find_nat QHH (Q :: lex ++ Q :: HAT :: HAT :: rest) = Some (S (List.length lex)).
Proof.
  intros HQ HH. rewrite QHH_chars, find_nat_cons, prefixb_cons, Ascii.eqb_refl, (hats_not_prefix lex _ HH).
  cbn [andb]. rewrite (find_nat_head_skip Q [HAT; HAT] lex _ HQ).
  rewrite find_nat_cons, !prefixb_cons, !Ascii.eqb_refl. cbn [andb prefixb]. f_equal. lia.
Qed.

(** slices *)
Lemma slice_nat s (a b : nat) :
  (a <= b)%nat -> (b <= List.length s)%nat -> slice s (Z.of_nat a) (Z.of_nat b) = firstn (b - a) (skipn a s).
Proof.
  intros H1 H2. unfold slice, norm_idx, len.
  destruct (Z.ltb_spec (Z.of_nat a) 0); [lia|]. destruct (Z.ltb_spec (Z.of_nat b) 0); [lia|].
  replace (Z.to_nat (Z.min (Z.of_nat b) (Z.of_nat (List.length s)) - Z.min (Z.of_nat a) (Z.of_nat (List.length s)))) with (b - a)%nat by lia.
  replace (Z.to_nat (Z.min (Z.of_nat a) (Z.of_nat (List.length s)))) with a by lia. reflexivity.
Qed.

Lemma slice_nat_m1 s (a : nat) :
  (S a <= List.length s)%nat -> slice s (Z.of_nat a) (-1) = firstn (List.length s - 1 - a) (skipn a s).
Proof.
  intros H. unfold slice, norm_idx, len.
  destruct (Z.ltb_spec (Z.of_nat a) 0); [lia|]. destruct (Z.ltb_spec (-1) 0); [|lia].
  replace (Z.to_nat (Z.max 0 (Z.of_nat (List.length s) + -1) - Z.min (Z.of_nat a) (Z.of_nat (List.length s)))) with (List.length s - 1 - a)%nat by lia.
  replace (Z.to_nat (Z.min (Z.of_nat a) (Z.of_nat (List.length s)))) with a by lia. reflexivity.
Qed.

Lemma skipn_app_exact {A} (a b : list A) : skipn (List.length a) (a ++ b) = b.
Proof. induction a; cbn; auto. Qed.

Lemma firstn_app_exact {A} (a b : list A) : firstn (List.length a) (a ++ b) = a.
Proof. induction a; cbn; [destruct b|]; f_equal; auto. Qed.

Lemma slice_middle a m (c : ascii) : slice (a ++ m ++ [c]) (Z.of_nat (List.length a)) (-1) = m.
Proof.
  rewrite slice_nat_m1 by (rewrite !app_length; cbn; lia).
  rewrite skipn_app_exact. rewrite !app_length. cbn [List.length].
  replace (List.length a + (List.length m + 1) - 1 - List.length a)%nat with (List.length m) by lia.
  apply firstn_app_exact.
Qed.

Lemma slice_corners s : slice (Str "<" ++ s ++ Str ">") 1 (-1) = s.
Proof. exact (slice_middle (Str "<") s (ascii_of_nat 62)). Qed.

Lemma slice_content (x : ascii) lex rest :
  slice (x :: lex ++ rest) 1 (Z.of_nat (S (List.length lex))) = lex.
Proof.
  change 1%Z with (Z.of_nat 1). rewrite slice_nat by (cbn; rewrite ?app_length; lia).
  cbn [skipn]. replace (S (List.length lex) - 1)%nat with (List.length lex) by lia. apply firstn_app_exact.
Qed.

Lemma suffixb_snoc (c : ascii) s : suffixb [c] (s ++ [c]) = true.
Proof. unfold suffixb. rewrite rev_unit. cbn. rewrite Ascii.eqb_refl. reflexivity. Qed.

Lemma strip_ends s x y :
  hd_error s = Some x -> hd_error (rev s) = Some y -> is_space x = false -> is_space y = false -> strip s = s.
Proof.
  intros Hx Hy Sx Sy. unfold strip. destruct s as [|x' s]; [discriminate|]. inversion Hx; subst x'.
  rewrite lstrip_head by exact Sx. unfold rstrip.
  destruct (rev (x :: s)) as [|y' r] eqn:E; [discriminate|]. inversion Hy; subst y'.
  rewrite lstrip_head by exact Sy. rewrite <- E. apply rev_involutive.
Qed.

Lemma hd_rev_app (a c : str) : c <> [] -> hd_error (rev (a ++ c)) = hd_error (rev c).
Proof.
  intros H. rewrite rev_app_distr. destruct (rev c) eqn:E; [|reflexivity].
  apply (f_equal (@rev ascii)) in E. rewrite rev_involutive in E. contradiction.
Qed.

Lemma last_nonspace (p l : str) y0 :
  hd_error (rev p) = Some y0 -> is_space y0 = false -> no_space l = true ->
  exists y, hd_error (rev (p ++ l)) = Some y /\ is_space y = false.
Proof.
  intros Hp Sy Hl. rewrite rev_app_distr. destruct (rev l) as [|z r] eqn:E.
  - exists y0. split; assumption.
  - exists z. split; [reflexivity|]. unfold no_space in Hl. rewrite forallb_forall in Hl.
    assert (In z l) as Hin by (apply in_rev; rewrite E; left; reflexivity).
    specialize (Hl _ Hin). apply negb_true_iff in Hl. exact Hl.
Qed.

(** *** tokens *)

Definition mnode (n : anode) : mterm :=
  match n with AIri s => MIri s | ABn l => MBn (Str "_:" ++ l) end.

Definition mobj (o : aobj) : mterm :=
  match o with AN n => mnode n | ALit lex k => MLit lex (dt_of k) end.

Lemma remove_corners_iri s : remove_corners (Str "<" ++ s ++ Str ">") = inl s.
Proof.
  unfold remove_corners.
  assert (suffixb (Str ">") (Str "<" ++ s ++ Str ">") = true) as ->
      by (rewrite app_assoc; apply suffixb_snoc).
  cbn [Str list_ascii_of_string app prefixb]. rewrite Ascii.eqb_refl. cbn [andb].
  rewrite <- (slice_corners s) at 2. reflexivity.
Qed.

Section TokenLemmas.
  Variable pyfloat : str -> option bool.

  Lemma tune_token_node b n : tune_token pyfloat b (r_node n) = inl (mnode n).
  Proof.
    destruct n as [s|l]; unfold tune_token.
    - cbn [r_node]. assert (prefixb (Str "<") (Str "<" ++ s ++ Str ">") = true) as -> by reflexivity.
      rewrite remove_corners_iri. reflexivity.
    - reflexivity.
  Qed.

  Lemma tune_prop_iri p : tune_prop (Str "<" ++ p ++ Str ">") = inl p.
  Proof. apply remove_corners_iri. Qed.

  Lemma not_in_Q_of lex : lex_ok lex = true -> ~ In Q lex.
  Proof. unfold lex_ok. rewrite !andb_true_iff. intros [[[_ _] H] _]. apply no_char_not_in. exact H. Qed.

  Lemma hats_of lex : lex_ok lex = true -> prefixb [HAT; HAT] lex = false.
  Proof. unfold lex_ok. rewrite !andb_true_iff. intros [_ H]. apply negb_true_iff in H. exact H. Qed.

  Lemma content_of lex suf :
    ~ In Q lex -> slice (Q :: lex ++ Q :: suf) 1 (find_from1 (Str """") (Q :: lex ++ Q :: suf)) = lex.
  Proof.
    intros HQ. unfold find_from1. change (Str """") with [Q]. rewrite (find_nat_char Q lex suf HQ).
    apply slice_content.
  Qed.

  (** both texts of [decide_literal_type] ([Gen.Consts.c08_dlt_from_suffix]) *)
  Lemma dlt_both a ty :
    decide_literal_type_old a = inl ty -> decide_literal_type_new a = inl ty -> decide_literal_type a = inl ty.
  Proof. unfold decide_literal_type. destruct c08_dlt_from_suffix; auto. Qed.

  Lemma parse_of_type lex suf ty :
    ~ In Q lex -> decide_literal_type (Q :: lex ++ Q :: suf) = inl ty ->
    parse_literal (Q :: lex ++ Q :: suf) = inl (MLit lex ty).
  Proof. intros HQ H. unfold parse_literal. rewrite H, (content_of lex suf HQ). reflexivity. Qed.

  (** the repaired text: what follows the last quote *)
  Lemma slice_from_nat (s : str) n : (n <= List.length s)%nat -> slice_from s (Z.of_nat n) = skipn n s.
  Proof.
    intros H. unfold slice_from, norm_idx, len. destruct (Z.ltb_spec (Z.of_nat n) 0); [lia|].
    replace (Z.to_nat (Z.min (Z.of_nat n) (Z.of_nat (List.length s)))) with n by lia. reflexivity.
  Qed.

  Lemma suffix_after_last_quote pre suf :
    ~ In Q suf ->
    (if Z.geb (rfind (Str """") (pre ++ Q :: suf)) 0
     then strip (slice_from (pre ++ Q :: suf) (rfind (Str """") (pre ++ Q :: suf) + 1)) else [])
    = strip suf.
  Proof.
    intros HQ. change (Str """") with [Q]. rewrite (rfind_last Q pre suf HQ).
    assert (Z.geb (Z.of_nat (List.length pre)) 0 = true) as -> by (apply Z.geb_le; lia).
    replace (Z.of_nat (List.length pre) + 1)%Z with (Z.of_nat (List.length (pre ++ [Q])))
      by (rewrite app_length; cbn [List.length]; lia).
    replace (pre ++ Q :: suf) with ((pre ++ [Q]) ++ suf) by (rewrite <- app_assoc; reflexivity).
    rewrite slice_from_nat by (rewrite (app_length (pre ++ [Q])); lia).
    rewrite skipn_app_exact. reflexivity.
  Qed.

  Lemma strip_keeps_head c s : is_space c = false -> exists r, strip (c :: s) = c :: r.
  Proof.
    intros H. unfold strip. rewrite lstrip_head by exact H. unfold rstrip.
    cbn [rev]. destruct (lstrip (rev s ++ [c])) as [|x l] eqn:E.
    - exfalso. assert (In c (lstrip (rev s ++ [c]))) as Hin; [|rewrite E in Hin; exact Hin].
      clear E. induction (rev s) as [|y ys IH]; cbn [app lstrip]; [rewrite H; left; reflexivity|].
      destruct (is_space y); [exact IH | right; apply in_or_app; right; left; reflexivity].
    - assert (Hlast : exists m, x :: l = m ++ [c]).
      { clear H. revert x l E. induction (rev s) as [|y ys IH]; intros x l E; cbn [app lstrip] in E.
        - destruct (is_space c); [discriminate|]. inversion E; subst. exists []. reflexivity.
        - destruct (is_space y); [apply (IH x l E)|]. inversion E; subst. exists (x :: ys). reflexivity. }
      destruct Hlast as [m ->]. rewrite rev_unit. eexists. reflexivity.
  Qed.

  Lemma dlt_plain_old lex : lex_ok lex = true -> decide_literal_type_old (Q :: lex ++ [Q]) = inl xsd_string.
  Proof.
    intros H. pose proof (not_in_Q_of lex H) as HQ. unfold decide_literal_type_old.
    change (Q :: lex ++ [Q]) with ((Q :: lex) ++ Q :: []) at 1.
    rewrite arroba_false by (intros []).
    unfold contains. cbn [app]. rewrite (find_QHH_plain lex HQ (hats_of lex H)). reflexivity.
  Qed.

  Lemma dlt_plain_new lex : lex_ok lex = true -> decide_literal_type_new (Q :: lex ++ [Q]) = inl xsd_string.
  Proof.
    intros H. unfold decide_literal_type_new. cbv zeta.
    change (Q :: lex ++ [Q]) with ((Q :: lex) ++ Q :: []).
    rewrite (suffix_after_last_quote (Q :: lex) [] (fun x => x)).
    rewrite arroba_false by (intros []). reflexivity.
  Qed.

  Lemma parse_plain lex : lex_ok lex = true -> parse_literal (Q :: lex ++ [Q]) = inl (MLit lex xsd_string).
  Proof.
    intros H. apply (parse_of_type lex []); [apply not_in_Q_of; exact H|].
    apply dlt_both; [apply dlt_plain_old | apply dlt_plain_new]; exact H.
  Qed.

  Lemma dlt_lang_old lex tag :
    no_char Q tag = true -> decide_literal_type_old (Q :: lex ++ Q :: Str "@" ++ tag) = inl rdf_langString.
  Proof.
    intros Ht. unfold decide_literal_type_old.
    change (Q :: lex ++ Q :: Str "@" ++ tag) with ((Q :: lex) ++ Q :: ATSIGN :: tag).
    rewrite arroba_true by (apply no_char_not_in; exact Ht). reflexivity.
  Qed.

  Lemma dlt_lang_new lex tag :
    no_char Q tag = true -> decide_literal_type_new (Q :: lex ++ Q :: Str "@" ++ tag) = inl rdf_langString.
  Proof.
    intros Ht. unfold decide_literal_type_new. cbv zeta.
    change (Q :: lex ++ Q :: Str "@" ++ tag) with ((Q :: lex) ++ Q :: ATSIGN :: tag).
    rewrite (suffix_after_last_quote (Q :: lex) (ATSIGN :: tag))
      by (intros [E|Hin]; [discriminate E | revert Hin; apply no_char_not_in; exact Ht]).
    destruct (strip_keeps_head ATSIGN tag eq_refl) as [r ->]. reflexivity.
  Qed.

  Lemma parse_lang lex tag :
    lex_ok lex = true -> no_char Q tag = true ->
    parse_literal (Q :: lex ++ Q :: Str "@" ++ tag) = inl (MLit lex rdf_langString).
  Proof.
    intros H Ht. apply (parse_of_type lex (Str "@" ++ tag)); [apply not_in_Q_of; exact H|].
    apply dlt_both; [apply dlt_lang_old | apply dlt_lang_new]; exact Ht.
  Qed.

  Lemma typed_token_shape lex dt :
    Q :: lex ++ Q :: Str "^^<" ++ dt ++ Str ">"
    = (Q :: lex ++ [Q; HAT; HAT; ascii_of_nat 60]) ++ dt ++ [ascii_of_nat 62].
  Proof. cbn [app]. rewrite <- app_assoc. reflexivity. Qed.

  Lemma typed_suffix_no_Q dt : no_char Q dt = true -> ~ In Q (Str "^^<" ++ dt ++ Str ">").
  Proof.
    intros HdQ Hin. cbn [Str list_ascii_of_string app] in Hin.
    destruct Hin as [E|[E|[E|Hin]]]; try discriminate E.
    apply in_app_or in Hin. destruct Hin as [Hin|[E|[]]]; [|discriminate E].
    revert Hin. apply no_char_not_in. exact HdQ.
  Qed.

  Lemma dlt_typed_old lex dt :
    lex_ok lex = true -> dt_ok lex dt = true ->
    decide_literal_type_old (Q :: lex ++ Q :: Str "^^<" ++ dt ++ Str ">") = inl dt.
  Proof.
    intros H Hd. pose proof (not_in_Q_of lex H) as HQ.
    unfold dt_ok in Hd. rewrite !andb_true_iff in Hd.
    destruct Hd as [[[Hsp HdQ] HdA] [[[Hx Hr] Hdt] Hg]].
    cbn [r_obj] in Hx, Hr, Hdt, Hg. apply negb_true_iff in Hx, Hr, Hdt, Hg.
    set (tok := Q :: lex ++ Q :: Str "^^<" ++ dt ++ Str ">") in *.
    assert (Harr : there_is_arroba_after_last_quotes tok = false).
    { unfold tok. change (Q :: lex ++ Q :: Str "^^<" ++ dt ++ Str ">") with ((Q :: lex) ++ Q :: (Str "^^<" ++ dt ++ Str ">")).
      apply arroba_false; [apply typed_suffix_no_Q; exact HdQ|].
      intros Hin. cbn [Str list_ascii_of_string app] in Hin.
      destruct Hin as [E|[E|[E|Hin]]]; try discriminate E.
      apply in_app_or in Hin. destruct Hin as [Hin|[E|[]]]; [|discriminate E].
      revert Hin. apply no_char_not_in. exact HdA. }
    assert (Hfind : find_nat QHH tok = Some (S (List.length lex))).
    { unfold tok. cbn [Str list_ascii_of_string app]. apply find_QHH_typed; [exact HQ | apply hats_of; exact H]. }
    assert (Hslice : slice tok (find QHH tok + 4) (-1) = dt).
    { unfold find. rewrite Hfind. unfold tok. rewrite typed_token_shape.
      replace (Z.of_nat (S (List.length lex)) + 4)%Z with (Z.of_nat (List.length (Q :: lex ++ [Q; HAT; HAT; ascii_of_nat 60])))
        by (cbn [List.length]; rewrite app_length; cbn [List.length]; lia).
      apply slice_middle. }
    assert (Hstrip : suffixb (Str ">") (strip tok) = true).
    { assert (strip tok = tok) as ->.
      { apply (strip_ends tok Q (ascii_of_nat 62)); [reflexivity | | reflexivity | reflexivity].
        unfold tok. rewrite typed_token_shape, app_assoc, rev_unit. reflexivity. }
      unfold tok. rewrite typed_token_shape, app_assoc. apply suffixb_snoc. }
    unfold decide_literal_type_old. rewrite Harr.
    unfold contains at 1. rewrite Hfind. cbn [negb]. rewrite Hx, Hr, Hdt, Hg, Hslice, Hstrip.
    destruct (contains c_XSD_NAMESPACE tok || contains c_RDF_SYNTAX_NAMESPACE tok
              || contains c_DT_NAMESPACE tok || contains c_OPENGIS_NAMESPACE tok); reflexivity.
  Qed.

  (** the repaired text needs neither the four substring conditions nor "no at-sign in the datatype" *)
  Lemma dlt_typed_new lex dt :
    no_char Q dt = true -> decide_literal_type_new (Q :: lex ++ Q :: Str "^^<" ++ dt ++ Str ">") = inl dt.
  Proof.
    intros HdQ. unfold decide_literal_type_new. cbv zeta.
    change (Q :: lex ++ Q :: Str "^^<" ++ dt ++ Str ">") with ((Q :: lex) ++ Q :: (Str "^^<" ++ dt ++ Str ">")).
    rewrite (suffix_after_last_quote (Q :: lex) _ (typed_suffix_no_Q dt HdQ)).
    assert (strip (Str "^^<" ++ dt ++ Str ">") = Str "^^<" ++ dt ++ Str ">") as ->.
    { apply (strip_ends _ HAT (ascii_of_nat 62)); [reflexivity | | reflexivity | reflexivity].
      change (Str "^^<" ++ dt ++ Str ">") with ((Str "^^<" ++ dt) ++ [ascii_of_nat 62]). rewrite rev_unit. reflexivity. }
    assert (slice_from (Str "^^<" ++ dt ++ Str ">") 2 = Str "<" ++ dt ++ Str ">") as ->.
    { change 2%Z with (Z.of_nat 2). rewrite slice_from_nat by (cbn; lia). reflexivity. }
    assert (suffixb (Str ">") (Str "<" ++ dt ++ Str ">") = true) as -> by (rewrite app_assoc; apply suffixb_snoc).
    rewrite slice_corners. reflexivity.
  Qed.

  Lemma parse_typed lex dt :
    lex_ok lex = true -> dt_ok lex dt = true ->
    parse_literal (Q :: lex ++ Q :: Str "^^<" ++ dt ++ Str ">") = inl (MLit lex dt).
  Proof.
    intros H Hd. apply (parse_of_type lex (Str "^^<" ++ dt ++ Str ">")); [apply not_in_Q_of; exact H|].
    apply dlt_both; [apply dlt_typed_old; assumption|]. apply dlt_typed_new.
    unfold dt_ok in Hd. rewrite !andb_true_iff in Hd. tauto.
  Qed.

  Lemma tune_token_obj o : obj_ok o = true -> tune_token pyfloat c08_tsv_object_untyped_numbers (r_obj o) = inl (mobj o).
  Proof.
    destruct o as [n|lex k]; intros H.
    - apply tune_token_node.
    - assert (forall suf, tune_token pyfloat c08_tsv_object_untyped_numbers (Q :: suf) = parse_literal (Q :: suf)) as E
          by reflexivity.
      destruct k as [|dt|tag]; cbn [r_obj obj_ok mobj dt_of] in *.
      + rewrite E. apply parse_plain. exact H.
      + apply andb_true_iff in H. destruct H as [H1 H2]. rewrite E. apply parse_typed; assumption.
      + rewrite !andb_true_iff in H. destruct H as [[H1 _] H3]. rewrite E. apply parse_lang; assumption.
  Qed.
End TokenLemmas.

(** *** one TSV line, a TSV document *)

Lemma not_in_cons (c x : ascii) l : c <> x -> ~ In c l -> ~ In c (x :: l).
Proof. intros H1 H2 [E|H]; [apply H1; auto | auto]. Qed.

Lemma not_in_app (c : ascii) a b : ~ In c a -> ~ In c b -> ~ In c (a ++ b).
Proof. intros H1 H2 H. apply in_app_or in H. tauto. Qed.

Lemma TAB_is_space : is_space TAB = true.
Proof. reflexivity. Qed.

Lemma tab_not_in_iri p : iri_ok p = true -> ~ In TAB (Str "<" ++ p ++ Str ">").
Proof.
  intros H. apply not_in_cons; [discriminate|]. apply not_in_app.
  - apply no_space_not_in; [reflexivity | exact H].
  - apply not_in_cons; [discriminate | intros []].
Qed.

Lemma tab_not_in_node n : node_ok n = true -> ~ In TAB (r_node n).
Proof.
  destruct n as [s|l]; cbn [node_ok r_node]; intros H.
  - apply tab_not_in_iri. exact H.
  - apply not_in_cons; [discriminate|]. apply not_in_cons; [discriminate|].
    apply no_space_not_in; [reflexivity | exact H].
Qed.

Lemma tab_not_in_lex lex : lex_ok lex = true -> ~ In TAB lex.
Proof. unfold lex_ok. rewrite !andb_true_iff. intros [[[H _] _] _]. apply no_char_not_in. exact H. Qed.

Lemma tab_not_in_obj o : obj_ok o = true -> ~ In TAB (r_obj o).
Proof.
  destruct o as [n|lex [|dt|tag]]; cbn [obj_ok r_obj]; intros H.
  - apply tab_not_in_node. exact H.
  - apply not_in_cons; [discriminate|]. apply not_in_app; [apply tab_not_in_lex; exact H|].
    apply not_in_cons; [discriminate | intros []].
  - apply andb_true_iff in H. destruct H as [H1 H2]. unfold dt_ok in H2. rewrite !andb_true_iff in H2.
    destruct H2 as [[[Hsp _] _] _].
    apply not_in_cons; [discriminate|]. apply not_in_app; [apply tab_not_in_lex; exact H1|].
    repeat (apply not_in_cons; [discriminate|]). apply not_in_app.
    + apply no_space_not_in; [reflexivity | exact Hsp].
    + apply not_in_cons; [discriminate | intros []].
  - rewrite !andb_true_iff in H. destruct H as [[H1 H2] _].
    apply not_in_cons; [discriminate|]. apply not_in_app; [apply tab_not_in_lex; exact H1|].
    repeat (apply not_in_cons; [discriminate|]). apply no_space_not_in; [reflexivity | exact H2].
Qed.

Lemma hd_rev_last (s : str) c : hd_error (rev (s ++ [c])) = Some c.
Proof. rewrite rev_unit. reflexivity. Qed.

Lemma obj_last pre o :
  obj_ok o = true -> exists y, hd_error (rev (pre ++ r_obj o)) = Some y /\ is_space y = false.
Proof.
  destruct o as [[s|l]|lex [|dt|tag]]; cbn [obj_ok node_ok r_obj r_node]; intros H.
  - exists (ascii_of_nat 62).
    change (Str "<" ++ s ++ Str ">") with ((Str "<" ++ s) ++ [ascii_of_nat 62]).
    rewrite app_assoc, hd_rev_last. split; reflexivity.
  - rewrite app_assoc. apply (last_nonspace _ l (ascii_of_nat 58)); [|reflexivity | exact H].
    change (Str "_:") with ([ascii_of_nat 95] ++ [ascii_of_nat 58]). rewrite app_assoc. apply hd_rev_last.
  - exists Q. change (Q :: lex ++ [Q]) with ((Q :: lex) ++ [Q]). rewrite app_assoc, hd_rev_last. split; reflexivity.
  - exists (ascii_of_nat 62). rewrite typed_token_shape, !app_assoc, hd_rev_last. split; reflexivity.
  - rewrite !andb_true_iff in H. destruct H as [[_ H2] _].
    change (Q :: lex ++ Q :: Str "@" ++ tag) with ((Q :: lex) ++ [Q; ATSIGN] ++ tag).
    rewrite !app_assoc.
    apply (last_nonspace _ tag ATSIGN); [|reflexivity | exact H2].
    change [Q; ATSIGN] with ([Q] ++ [ATSIGN]). rewrite !app_assoc. apply hd_rev_last.
Qed.

Section TsvTheorem.
  Variable pyfloat : str -> option bool.

  Definition m_of (t : atriple) : mtriple := MT (mnode (a_s t)) (a_p t) (mobj (a_o t)).

  Lemma triple_ok_parts t :
    triple_ok t = true -> node_ok (a_s t) = true /\ iri_ok (a_p t) = true /\ obj_ok (a_o t) = true.
  Proof. unfold triple_ok. rewrite !andb_true_iff. tauto. Qed.

  Lemma strip_tsv_line t : triple_ok t = true -> strip (tsv_line_of t) = tsv_line_of t.
  Proof.
    intros H. destruct (triple_ok_parts t H) as (Hs & Hp & Ho). unfold tsv_line_of.
    destruct (obj_last (r_node (a_s t) ++ TAB :: (Str "<" ++ a_p t ++ Str ">") ++ [TAB]) (a_o t) Ho) as (y & Hy & Sy).
    assert (E : r_node (a_s t) ++ TAB :: (Str "<" ++ a_p t ++ Str ">") ++ TAB :: r_obj (a_o t)
                = (r_node (a_s t) ++ TAB :: (Str "<" ++ a_p t ++ Str ">") ++ [TAB]) ++ r_obj (a_o t)).
    { rewrite <- !app_assoc. cbn [app]. rewrite <- !app_assoc. reflexivity. }
    rewrite E in *.
    destruct (a_s t) as [s|l].
    - apply (strip_ends _ (ascii_of_nat 60) y); [reflexivity | exact Hy | reflexivity | exact Sy].
    - apply (strip_ends _ (ascii_of_nat 95) y); [reflexivity | exact Hy | reflexivity | exact Sy].
  Qed.

  Lemma split_tsv_line t :
    triple_ok t = true ->
    split c08_tsv_sep (tsv_line_of t) = [r_node (a_s t); Str "<" ++ a_p t ++ Str ">"; r_obj (a_o t)].
  Proof.
    intros H. destruct (triple_ok_parts t H) as (Hs & Hp & Ho).
    rewrite tsv_sep_is_TAB, split_split1. unfold tsv_line_of.
    rewrite (split1_line TAB _ _ [] (tab_not_in_node _ Hs)).
    rewrite (split1_line TAB _ _ [] (tab_not_in_iri _ Hp)).
    rewrite (split1_last TAB _ [] (tab_not_in_obj _ Ho)). reflexivity.
  Qed.

  Lemma tsv_line_ok t : triple_ok t = true -> tsv_line pyfloat (tsv_line_of t) = inl (TYield (m_of t)).
  Proof.
    intros H. destruct (triple_ok_parts t H) as (Hs & Hp & Ho).
    assert (K : tsv_skipped (tsv_line_of t) = false).
    { unfold tsv_skipped. rewrite (strip_tsv_line t H). unfold tsv_line_of. destruct (a_s t); cbn; first [reflexivity | apply andb_false_r]. }
    unfold tsv_line. rewrite K, (strip_tsv_line t H), (split_tsv_line t H).
    rewrite tune_token_node, tune_prop_iri, (tune_token_obj pyfloat _ Ho). reflexivity.
  Qed.

  Lemma triple_of_m_of t : triple_of_m (m_of t) = Some (T (knode (a_s t)) (a_p t) (kobj (a_o t))).
  Proof. destruct t as [[s|l] p [[s'|l']|lex k]]; reflexivity. Qed.

  (** *** C08(d): the TSV reader gives the TSV rendering its N-Triples semantics *)
  Theorem tsv_reads_nt_semantics g :
    tsv_dom g = true ->
    read_tsv pyfloat (map tsv_line_of g) = inl (Res (map m_of g) (List.length g) 0)
    /\ graph_of_m (map m_of g) = Some (kinded g).
  Proof.
    unfold tsv_dom. induction g as [|t g IH]; intros H; [split; reflexivity|].
    cbn [forallb] in H. apply andb_true_iff in H. destruct H as [Ht Hg]. destruct (IH Hg) as [IH1 IH2]. split.
    - cbn [map read_tsv]. rewrite (tsv_line_ok t Ht), IH1. reflexivity.
    - cbn [map graph_of_m kinded]. rewrite triple_of_m_of, IH2. reflexivity.
  Qed.

  Lemma tsv_lines_nonblank g : tsv_dom g = true -> filter nonblank (map tsv_line_of g) = map tsv_line_of g.
  Proof.
    unfold tsv_dom. induction g as [|t g IH]; intros H; [reflexivity|].
    cbn [forallb] in H. apply andb_true_iff in H. destruct H as [Ht Hg]. cbn [map filter].
    unfold nonblank at 1. rewrite (strip_tsv_line t Ht).
    assert (str_eqb (tsv_line_of t) [] = false) as ->
        by (unfold tsv_line_of; destruct (a_s t); reflexivity).
    cbn [negb]. rewrite (IH Hg). reflexivity.
  Qed.
End TsvTheorem.

(** ** F. the dispatch *)

Lemma zeqb_single n : Z.eqb (Z.of_nat n) c08_zip_single_archives = Nat.eqb n 1.
Proof.
  unfold c08_zip_single_archives. destruct (Nat.eqb_spec n 1) as [->|H]; [reflexivity|].
  apply Z.eqb_neq. lia.
Qed.

Ltac dispatch_case :=
  lazymatch goal with
  | |- exists d, dispatch ?f ?c (KFiles (S (S ?n))) = _ /\ _ =>
    unfold dispatch; cbn -[Z.eqb Z.of_nat Nat.eqb]; unfold resolve_target; cbn -[Z.eqb Z.of_nat Nat.eqb];
    try rewrite zeqb_single; cbn -[Z.eqb Z.of_nat];
    eexists; split; reflexivity
  | |- _ => eexists; split; reflexivity
  end.

Theorem dispatch_total fmt cm k :
  accepted fmt cm k -> dispatch_dom fmt cm k = true ->
  exists d, dispatch fmt cm k = inl d /\ class_name d = expected_class fmt cm k.
Proof.
  intros (Hf & Hc & Hu) Hd.
  unfold documented_formats in Hf. unfold documented_compressions in Hc. cbn [In] in Hf, Hc.
  destruct Hc as [<-|[<-|[<-|[<-|[]]]]];
    destruct Hf as [<-|[<-|[<-|[<-|[<-|[<-|[<-|[]]]]]]]];
    destruct k as [|n| | |n|];
    try (cbn in Hd; discriminate Hd);
    try (specialize (Hu eq_refl); cbn in Hu; discriminate Hu);
    try (destruct n as [|[|n]]);
    dispatch_case.
Qed.

(** combinations the Shaper accepts that reach no yielder *)
Lemma accepted_zip_raw : accepted (Str "nt") (Some (Str "zip")) KRaw.
Proof. unfold accepted. cbn. tauto. Qed.

Lemma accepted_url_tsv : accepted (Str "tsv_spo") None KUrl.
Proof. unfold accepted. cbn. repeat split; auto; try (intros H; discriminate H). Qed.

(** ** G. the two passes and blank-node labels *)

Lemma rename_node_iri f n : is_bnode n = false -> rename_node f n = n.
Proof. unfold is_bnode, rename_node. destruct n as [[|] i]; cbn; [reflexivity | discriminate]. Qed.

Lemma rename_triple_typing f tau g t :
  typing_iri tau g -> In t g -> str_eqb (tp t) tau = true -> rename_triple f t = t.
Proof.
  intros Ht Hin E. apply str_eqb_eq in E. destruct (Ht t Hin E) as [Hs Ho].
  destruct t as [s p o]. unfold rename_triple. cbn [ts tp to] in *.
  rewrite (rename_node_iri f s Hs). destruct o as [n|c d]; cbn [rename_obj]; [rewrite (rename_node_iri f n Ho)|]; reflexivity.
Qed.

Lemma typing_iri_tail tau t g : typing_iri tau (t :: g) -> typing_iri tau g.
Proof. intros H x Hx. apply H. right. exact Hx. Qed.

Lemma tp_rename f t : tp (rename_triple f t) = tp t.
Proof. reflexivity. Qed.

Lemma relevant_rename f tau m t :
  (str_eqb (tp t) tau = true -> rename_triple f t = t) ->
  relevant tau m (rename_triple f t) = relevant tau m t.
Proof.
  intros H. unfold relevant. rewrite tp_rename. destruct (str_eqb (tp t) tau) eqn:E; [|reflexivity].
  rewrite (H eq_refl). reflexivity.
Qed.

Lemma track_plain_rename f tau m g d :
  typing_iri tau g -> track_plain tau m (rename f g) d = track_plain tau m g d.
Proof.
  revert d. induction g as [|t g IH]; intros d Ht; [reflexivity|].
  cbn [rename map track_plain]. fold (rename f g).
  assert (Hfix : str_eqb (tp t) tau = true -> rename_triple f t = t)
    by (apply (rename_triple_typing f tau (t :: g)); [exact Ht | left; reflexivity]).
  rewrite (relevant_rename f tau m t Hfix).
  destruct (relevant tau m t) eqn:R.
  - assert (rename_triple f t = t) as ->.
    { apply Hfix. unfold relevant in R. apply andb_true_iff in R. tauto. }
    destruct (annotate d t); [apply IH; apply (typing_iri_tail tau t g Ht) | reflexivity].
  - apply IH. apply (typing_iri_tail tau t g Ht).
Qed.

Lemma cap_allows_rename f tau cap st t :
  (str_eqb (tp t) tau = true -> rename_triple f t = t) ->
  cap_allows tau cap st (rename_triple f t) = cap_allows tau cap st t.
Proof.
  intros H. unfold cap_allows. rewrite tp_rename. destruct (str_eqb (tp t) tau) eqn:E; [|reflexivity].
  rewrite (H eq_refl). reflexivity.
Qed.

Lemma track_cap_rename f tau m cap nt g d st :
  typing_iri tau g -> track_cap tau m cap nt (rename f g) d st = track_cap tau m cap nt g d st.
Proof.
  revert d st. induction g as [|t g IH]; intros d st Ht; [reflexivity|].
  cbn [rename map track_cap]. fold (rename f g).
  assert (Hfix : str_eqb (tp t) tau = true -> rename_triple f t = t)
    by (apply (rename_triple_typing f tau (t :: g)); [exact Ht | left; reflexivity]).
  pose proof (typing_iri_tail tau t g Ht) as Ht'.
  rewrite (cap_allows_rename f tau cap st t Hfix), (relevant_rename f tau m t Hfix).
  destruct (relevant tau m t) eqn:R; [|apply IH; exact Ht'].
  destruct (cap_allows tau cap st t) as [[|]|]; [|apply IH; exact Ht' | reflexivity].
  assert (rename_triple f t = t) as ->.
  { apply Hfix. unfold relevant in R. apply andb_true_iff in R. tauto. }
  destruct (to t); [|reflexivity].
  destruct nt as [k|]; [destruct (Nat.eqb _ k); [reflexivity|]|]; apply IH; exact Ht'.
Qed.

Theorem track_rename f tau m cap g :
  typing_iri tau g -> track tau m cap (rename f g) = track tau m cap g.
Proof.
  intros Ht. unfold track. destruct (cap <=? 0)%Z.
  - apply track_plain_rename. exact Ht.
  - apply track_cap_rename. exact Ht.
Qed.

(** dictionaries *)
Lemma dget_dset {V} (d : dict V) k v k' :
  dget (dset d k v) k' = if str_eqb k' k then Some v else dget d k'.
Proof.
  induction d as [|[k0 v0] d IH]; cbn [dset dget].
  - reflexivity.
  - destruct (str_eqb k k0) eqn:E; cbn [dget].
    + apply str_eqb_eq in E. subst k0. destruct (str_eqb k' k); reflexivity.
    + rewrite IH. destruct (str_eqb k' k0) eqn:E0; [|reflexivity].
      destruct (str_eqb k' k) eqn:E1; [|reflexivity].
      apply str_eqb_eq in E0, E1. subst. rewrite str_eqb_refl in E. discriminate.
Qed.

Lemma dmem_dupd {V} (d : dict V) k dflt g k' : dmem (dupd d k dflt g) k' = str_eqb k' k || dmem d k'.
Proof.
  unfold dupd, dmem. destruct (dget d k); rewrite dget_dset; destruct (str_eqb k' k); reflexivity.
Qed.

Lemma dmem_dupd_tracked {V} (d : dict V) k dflt g k' :
  dmem d k = true -> dmem (dupd d k dflt g) k' = dmem d k'.
Proof.
  intros H. rewrite dmem_dupd. destruct (str_eqb k' k) eqn:E; [|reflexivity].
  apply str_eqb_eq in E. subst. rewrite H. reflexivity.
Qed.

Lemma shapes_of_untracked I k : dmem I k = false -> shapes_of I k = [].
Proof. unfold dmem, shapes_of. destruct (dget I k); [discriminate | reflexivity]. Qed.

Lemma annotate_subject_keys tau I t I' :
  dmem I (nid (ts t)) = true -> annotate_subject tau I t = inl I' -> forall k, dmem I' k = dmem I k.
Proof.
  intros Ht H k. unfold annotate_subject in H. destruct (type_of_obj tau (tp t) (to t)); [|discriminate].
  inversion H; subst. apply dmem_dupd_tracked. exact Ht.
Qed.

Lemma annotate_triple_keys tau inv I t I' :
  annotate_triple tau inv I t = inl I' -> forall k, dmem I' k = dmem I k.
Proof.
  unfold annotate_triple, tracked. intros H k.
  destruct (dmem I (nid (ts t))) eqn:Es.
  - destruct (annotate_subject tau I t) as [I1|e] eqn:E1; [|discriminate].
    pose proof (annotate_subject_keys tau I t I1 Es E1) as K1.
    destruct inv; [|inversion H; subst; apply K1].
    destruct (to t) as [o|c d]; [|inversion H; subst; apply K1].
    destruct (dmem I1 (nid o)) eqn:Eo; inversion H; subst; [|apply K1].
    unfold annotate_object. rewrite dmem_dupd_tracked by exact Eo. apply K1.
  - destruct inv; [|inversion H; subst; reflexivity].
    destruct (to t) as [o|c d]; [|inversion H; subst; reflexivity].
    destruct (dmem I (nid o)) eqn:Eo; inversion H; subst; [|reflexivity].
    unfold annotate_object. apply dmem_dupd_tracked. exact Eo.
Qed.

Lemma elem_type_rename f n : elem_type_node (rename_node f n) = elem_type_node n.
Proof. destruct n as [[|] i]; reflexivity. Qed.

Lemma annotate_object_rename f tau I t o :
  str_eqb (tp t) tau = false -> annotate_object tau I (rename_triple f t) o = annotate_object tau I t o.
Proof.
  intros E. unfold annotate_object, type_of_subj. rewrite tp_rename, E. cbn [negb].
  destruct t as [[[|] sid] p ob]; cbn [rename_triple ts tp rename_node nk nid elem_type_node]; reflexivity.
Qed.

Definition untracked_node (I : idict) (f : str -> str) (n : node) : Prop :=
  is_bnode n = true -> dmem I (nid n) = false /\ dmem I (f (nid n)) = false.

Lemma annotate_subject_rename f tau I t :
  str_eqb (tp t) tau = false -> is_bnode (ts t) = false ->
  (forall n, to t = ON n -> untracked_node I f n) ->
  annotate_subject tau I (rename_triple f t) = annotate_subject tau I t.
Proof.
  intros E Hs Ho. unfold annotate_subject, type_of_obj. rewrite tp_rename, E. cbn [negb].
  destruct t as [s p ob]. cbn [rename_triple ts tp to] in *. rewrite (rename_node_iri f s Hs).
  destruct ob as [[[|] oid]|c d]; cbn [rename_obj rename_node nk nid elem_type_node]; try reflexivity.
  destruct (Ho _ eq_refl eq_refl) as [H1 H2]. cbn [nid] in H1, H2.
  rewrite (shapes_of_untracked I _ H1), (shapes_of_untracked I _ H2). reflexivity.
Qed.

Lemma annotate_triple_rename f tau inv I t :
  (str_eqb (tp t) tau = true -> rename_triple f t = t) ->
  untracked_node I f (ts t) ->
  (forall n, to t = ON n -> untracked_node I f n) ->
  annotate_triple tau inv I (rename_triple f t) = annotate_triple tau inv I t.
Proof.
  intros Hfix Hs Ho. destruct (str_eqb (tp t) tau) eqn:E; [rewrite (Hfix eq_refl); reflexivity|].
  unfold annotate_triple, tracked.
  assert (Hr1 : (if dmem I (nid (ts (rename_triple f t))) then annotate_subject tau I (rename_triple f t) else inl I)
                = (if dmem I (nid (ts t)) then annotate_subject tau I t else inl I)).
  { destruct (is_bnode (ts t)) eqn:B.
    - destruct (Hs B) as [H1 H2]. destruct t as [[[|] sid] p ob]; [discriminate B|].
      cbn [rename_triple ts rename_node nk nid] in *. rewrite H1, H2. reflexivity.
    - rewrite (annotate_subject_rename f tau I t E B Ho).
      destruct t as [s p ob]. cbn [rename_triple ts] in *. rewrite (rename_node_iri f s B). reflexivity. }
  rewrite Hr1. clear Hr1.
  destruct (if dmem I (nid (ts t)) then annotate_subject tau I t else inl I) as [I1|e] eqn:E1; [|reflexivity].
  destruct inv; [|reflexivity].
  assert (K : forall k, dmem I1 k = dmem I k).
  { destruct (dmem I (nid (ts t))) eqn:Es; [apply (annotate_subject_keys tau I t I1 Es E1) | inversion E1; reflexivity]. }
  destruct t as [s p [[[|] oid]|c d]]; cbn [rename_triple to rename_obj rename_node nk nid] in *.
  - rewrite (annotate_object_rename f tau I1 (T s p (ON (Node KIri oid))) (Node KIri oid) E). reflexivity.
  - destruct (Ho _ eq_refl eq_refl) as [H1 H2]. cbn [nid] in H1, H2. rewrite !K, H1, H2. reflexivity.
  - reflexivity.
Qed.

Definition untracked (I : idict) (f : str -> str) (g : graph) : Prop :=
  forall b, In b (bnode_ids g) -> dmem I b = false /\ dmem I (f b) = false.

Lemma untracked_head I f t g : untracked I f (t :: g) ->
  untracked_node I f (ts t) /\ (forall n, to t = ON n -> untracked_node I f n) /\ untracked I f g.
Proof.
  intros H. unfold untracked in H. cbn [bnode_ids flat_map] in H. fold (bnode_ids g) in H. split; [|split].
  - intros B. apply H. rewrite B. cbn [app]. left. reflexivity.
  - intros n En B. apply H. rewrite En, B. apply in_or_app. left. apply in_or_app. right. left. reflexivity.
  - intros b Hb. apply H. apply in_or_app. right. exact Hb.
Qed.

Lemma annotate_all_rename f tau inv g I :
  typing_iri tau g -> untracked I f g ->
  annotate_all tau inv (rename f g) I = annotate_all tau inv g I.
Proof.
  revert I. induction g as [|t g IH]; intros I Ht Hu; [reflexivity|].
  cbn [rename map annotate_all]. fold (rename f g).
  destruct (untracked_head I f t g Hu) as (Hs & Ho & Hg).
  rewrite (annotate_triple_rename f tau inv I t); [| | exact Hs | exact Ho].
  - destruct (annotate_triple tau inv I t) as [I'|e] eqn:E; [|reflexivity].
    apply IH; [apply (typing_iri_tail tau t g Ht)|].
    intros b Hb. rewrite !(annotate_triple_keys tau inv I t I' E). apply Hg. exact Hb.
  - apply (rename_triple_typing f tau (t :: g)); [exact Ht | left; reflexivity].
Qed.

Lemma dmem_adapt I k : dmem (adapt I) k = dmem I k.
Proof.
  unfold dmem. induction I as [|[k0 v0] I IH]; [reflexivity|]. cbn [adapt map dget fst snd].
  destruct (str_eqb k k0); [reflexivity|]. exact IH.
Qed.

Theorem profile_rename f c I g :
  typing_iri (p_tau c) g ->
  (forall b, In b (bnode_ids g) -> dmem I b = false /\ dmem I (f b) = false) ->
  profile c I (rename f g) = profile c I g.
Proof.
  intros Ht Hu. unfold profile. rewrite annotate_all_rename; [reflexivity | exact Ht |].
  intros b Hb. rewrite !dmem_adapt. apply Hu. exact Hb.
Qed.

(** the feature pass never adds or removes an instance: it can only attach
    features to the node ids recorded by the instance pass *)
Lemma annotate_triple_dkeys tau inv I t I' : annotate_triple tau inv I t = inl I' -> dkeys I' = dkeys I.
Proof.
  assert (Hset : forall (d : idict) k v, dmem d k = true -> dkeys (dset d k v) = dkeys d).
  { intros d k v. unfold dmem. induction d as [|[k0 v0] d IHd]; cbn [dget dset]; [discriminate|].
    destruct (str_eqb k k0) eqn:E; [reflexivity|]. intros H. unfold dkeys in *. cbn [map fst]. rewrite IHd by exact H. reflexivity. }
  assert (Hupd : forall (d : idict) k dflt g, dmem d k = true -> dkeys (dupd d k dflt g) = dkeys d).
  { intros d k dflt g H. unfold dupd. destruct (dget d k); apply Hset; exact H. }
  unfold annotate_triple, tracked. intros H.
  destruct (dmem I (nid (ts t))) eqn:Es.
  - destruct (annotate_subject tau I t) as [I1|e] eqn:E1; [|discriminate].
    assert (K1 : dkeys I1 = dkeys I).
    { unfold annotate_subject in E1. destruct (type_of_obj tau (tp t) (to t)); [|discriminate].
      inversion E1; subst. apply Hupd. exact Es. }
    destruct inv; [|inversion H; subst; exact K1].
    destruct (to t) as [o|c d]; [|inversion H; subst; exact K1].
    destruct (dmem I1 (nid o)) eqn:Eo; inversion H; subst; [|exact K1].
    unfold annotate_object. rewrite Hupd by exact Eo. exact K1.
  - destruct inv; [|inversion H; subst; reflexivity].
    destruct (to t) as [o|c d]; [|inversion H; subst; reflexivity].
    destruct (dmem I (nid o)) eqn:Eo; inversion H; subst; [|reflexivity].
    unfold annotate_object. apply Hupd. exact Eo.
Qed.

Lemma annotate_all_dkeys tau inv g I I' : annotate_all tau inv g I = inl I' -> dkeys I' = dkeys I.
Proof.
  revert I. induction g as [|t g IH]; intros I H; cbn [annotate_all] in H; [inversion H; reflexivity|].
  destruct (annotate_triple tau inv I t) as [I1|e] eqn:E; [|discriminate].
  rewrite (IH _ H). apply (annotate_triple_dkeys tau inv I t I1 E).
Qed.

Theorem profile_same_ids c I g P C ID : profile c I g = inl (P, C, ID) -> dkeys ID = dkeys I.
Proof.
  unfold profile. destruct (init_annotated I _) as [P0 C0].
  destruct (annotate_all (p_tau c) (p_inverse c) g (adapt I)) as [ID'|e] eqn:E; [|discriminate].
  assert (K : dkeys ID' = dkeys I).
  { rewrite (annotate_all_dkeys _ _ _ _ _ E). unfold dkeys, adapt. rewrite map_map. reflexivity. }
  destruct (p_remove_empty c).
  - destruct (clean_profile _ _ _ _); [|discriminate]. intros H. inversion H; subst. exact K.
  - intros H. inversion H; subst. exact K.
Qed.

(** ** H. the pipeline over the two passes *)

From Shexer Require Import Model.Freq Model.Run Model.RunCur.

Section Run2Proofs.
  Variable fa : FreqAlg.

  (** when both passes deliver the same list the two-pass pipeline is the one-document
      pipeline with the shexing stage in the order the code has ([RunCur.run_shapes_cur];
      it equals [Run.run_shapes] where Proofs/OrderIrrelevant.v shows the order to be
      irrelevant) *)
  Lemma run_shapes2_same c thr g : run_shapes2 fa c thr g g = run_shapes_cur fa c thr g.
  Proof. reflexivity. Qed.

  Definition tmode_of (c : rcfg) : tmode := match r_targets c with Some l => TClasses l | None => TAll end.

  (** *** C08(b), rdflib channels: when no blank node takes part in a typing
      triple and no blank-node label (before or after renaming) is an instance
      id, the shapes do not depend on the two renamings at all *)
  Theorem renamings_invisible c thr g1 g2 f1 f2 :
    typing_iri (r_tau c) g1 -> typing_iri (r_tau c) g2 ->
    (forall ins b, track (r_tau c) (tmode_of c) (r_cap c) g1 = inl ins ->
                   In b (bnode_ids g2) -> dmem ins b = false /\ dmem ins (f2 b) = false) ->
    run_shapes2 fa c thr (rename f1 g1) (rename f2 g2) = run_shapes2 fa c thr g1 g2.
  Proof.
    intros H1 H2 Hu. unfold run_shapes2. destruct (full_ns c) as [ns|]; [|reflexivity].
    rewrite (track_rename f1 (r_tau c) _ (r_cap c) g1 H1). fold (tmode_of c).
    destruct (track (r_tau c) (tmode_of c) (r_cap c) g1) as [ins|e] eqn:E; [|reflexivity].
    rewrite (profile_rename f2 (pcfg_of c) ins g2 H2 (fun b Hb => Hu ins b eq_refl Hb)). reflexivity.
  Qed.
End Run2Proofs.

(** line-based channels and the rdflib Graph object iterated with the same
    choices: both passes deliver the same stream *)
Lemma passes_same pyfloat read_nt read_ttl gunzip unxz unzip rdf_parse o fmt cm src :
  let p := passes pyfloat read_nt read_ttl gunzip unxz unzip rdf_parse o o fmt cm src in fst p = snd p.
Proof. reflexivity. Qed.

(** a line-based single-document yielder never consults rdflib's oracle *)
Lemma single_line_oracle_free pyfloat read_nt read_ttl gunzip unxz rdf_parse o o' fmt read raw cm st :
  line_family pyfloat read_nt fmt read ->
  single pyfloat read_nt read_ttl gunzip unxz rdf_parse o fmt (fst (family fmt)) raw cm st
  = single pyfloat read_nt read_ttl gunzip unxz rdf_parse o' fmt (fst (family fmt)) raw cm st.
Proof. intros []; reflexivity. Qed.

(** ** I. line-based channels never consult rdflib: whatever rdflib would do
    on the two passes, both passes deliver the same stream *)

Definition line_fmt (fmt : str) : Prop :=
  fmt = Str "nt" \/ fmt = Str "tsv_spo" \/ fmt = Str "turtle_iter".

Definition local_source (s : source) : Prop :=
  match s with SRaw _ | SFile _ | SFiles _ => True | _ => False end.

Definition single_cls (c : str) : Prop :=
  c = Str "NtTriplesYielder" \/ c = Str "TsvNtTriplesYielder" \/ c = Str "BigTtlTriplesYielder".

Definition multi_cls (c : str) : Prop :=
  c = Str "MultiNtTriplesYielder" \/ c = Str "MultiTsvNtTriplesYielder" \/ c = Str "MultiBigTtlTriplesYielder".

Definition line_desc (d : ydesc) : Prop :=
  match d with
  | YPlain c => single_cls c \/ multi_cls c
  | YZipOne c => multi_cls c
  | YZipMany _ c => multi_cls c
  end.

Section OracleFree.
  Variable pyfloat : str -> option bool.
  Variable read_nt read_ttl : list str -> rd.
  Variable gunzip unxz : str -> option str.
  Variable unzip : str -> option (list (str * str)).
  Variable rdf_parse : str -> str -> option (list rtriple).

  Notation single1 := (single pyfloat read_nt read_ttl gunzip unxz rdf_parse).
  Notation multi_from1 := (multi_from pyfloat read_nt read_ttl gunzip unxz rdf_parse).
  Notation multi1 := (multi pyfloat read_nt read_ttl gunzip unxz rdf_parse).
  Notation zip_one1 := (zip_one pyfloat read_nt read_ttl gunzip unxz unzip rdf_parse).
  Notation zip_many1 := (zip_many pyfloat read_nt read_ttl gunzip unxz unzip rdf_parse).
  Notation run_yielder1 := (run_yielder pyfloat read_nt read_ttl gunzip unxz unzip rdf_parse).
  Notation chan := (channel pyfloat read_nt read_ttl gunzip unxz unzip rdf_parse).

  Lemma single_free o o' fmt cls raw cm st : single_cls cls -> single1 o fmt cls raw cm st = single1 o' fmt cls raw cm st.
  Proof. intros [-> | [-> | ->]]; reflexivity. Qed.

  Lemma multi_from_free i orcs orcs' fmt cls cm files :
    single_cls cls -> multi_from1 i orcs fmt cls cm files = multi_from1 i orcs' fmt cls cm files.
  Proof.
    intros H. revert i. induction files as [|f fs IH]; intros i; [reflexivity|].
    cbn [multi_from]. rewrite (single_free (orcs i) (orcs' i) fmt cls false cm f H), IH. reflexivity.
  Qed.

  Lemma multi_free orcs orcs' fmt cls cm files : multi_cls cls -> multi1 orcs fmt cls cm files = multi1 orcs' fmt cls cm files.
  Proof.
    intros [-> | [-> | ->]]; unfold multi; cbn [dict_get]; apply multi_from_free; unfold single_cls; tauto.
  Qed.

  Lemma zip_one_free orcs orcs' fmt cls a : multi_cls cls -> zip_one1 orcs fmt cls a = zip_one1 orcs' fmt cls a.
  Proof. intros H. unfold zip_one. destruct (unzip a); [apply multi_free; exact H | reflexivity]. Qed.

  Lemma zip_many_free (o o' : porc) fmt cls archives : multi_cls cls -> zip_many1 o fmt cls archives = zip_many1 o' fmt cls archives.
  Proof.
    intros H. unfold zip_many.
    assert (map (fun ia : nat * str => zip_one1 (o (fst ia)) fmt cls (snd ia)) (combine (seq 0 (List.length archives)) archives)
            = map (fun ia : nat * str => zip_one1 (o' (fst ia)) fmt cls (snd ia)) (combine (seq 0 (List.length archives)) archives)) as ->
        by (apply map_ext; intros ia; apply zip_one_free; exact H).
    reflexivity.
  Qed.

  Lemma run_yielder_free (o o' : porc) fmt cm src d :
    line_desc d -> local_source src -> run_yielder1 o fmt cm src d = run_yielder1 o' fmt cm src d.
  Proof.
    destruct d as [c|c|w c]; cbn [line_desc]; intros Hd Hs.
    - destruct Hd as [Hc|Hc].
      + destruct Hc as [-> | [-> | ->]]; destruct src; try contradiction; cbn [run_yielder]; cbn [dict_get];
          try reflexivity.
      + pose proof Hc as Hc'. destruct Hc as [-> | [-> | ->]]; destruct src; try contradiction; cbn [run_yielder]; cbn [dict_get];
          try reflexivity; apply multi_free; exact Hc'.
    - destruct src as [| a | [|a [|b l]] | | |]; try contradiction; cbn [run_yielder]; try reflexivity;
        apply zip_one_free; exact Hd.
    - destruct src; try contradiction; cbn [run_yielder]; try reflexivity. apply zip_many_free. exact Hd.
  Qed.

  Ltac line_dispatch_case :=
    lazymatch goal with
    | |- match dispatch ?f ?c (KFiles (S (S ?n))) with _ => _ end =>
      unfold dispatch; cbn -[Z.eqb Z.of_nat Nat.eqb]; unfold resolve_target; cbn -[Z.eqb Z.of_nat Nat.eqb];
      try rewrite zeqb_single; cbn -[Z.eqb Z.of_nat]; unfold single_cls, multi_cls; tauto
    | |- _ => cbn; unfold single_cls, multi_cls; tauto
    end.

  Lemma dispatch_line_shape fmt cm k :
    line_fmt fmt -> In cm documented_compressions ->
    match k with KFile | KFiles _ | KRaw => True | _ => False end ->
    match dispatch fmt cm k with inl d => line_desc d | inr _ => True end.
  Proof.
    intros Hf Hc Hk. unfold documented_compressions in Hc. cbn [In] in Hc.
    destruct Hf as [-> | [-> | ->]]; destruct Hc as [<-|[<-|[<-|[<-|[]]]]];
      destruct k as [|n| | |n|]; try contradiction; try (destruct n as [|[|n]]); line_dispatch_case.
  Qed.

  (** *** C08(b), line-based channels *)
  Theorem line_channels_oracle_free (o1 o2 : porc) fmt cm src :
    line_fmt fmt -> In cm documented_compressions -> local_source src ->
    chan o1 fmt cm src = chan o2 fmt cm src.
  Proof.
    intros Hf Hc Hs. unfold channel.
    pose proof (dispatch_line_shape fmt cm (kind_of src) Hf Hc) as Hd.
    destruct (dispatch fmt cm (kind_of src)) as [d|e]; [|reflexivity].
    apply run_yielder_free; [|exact Hs]. apply Hd. destruct src; try contradiction; exact I.
  Qed.
End OracleFree.

(** ** J. corollaries and decision procedures used by the non-vacuity examples *)

Definition line_okb (l : str) : bool :=
  no_char LF l && no_char CR l &&
  match decode_strict l with Some r => str_eqb r l | None => false end.

Lemma line_okb_ok l : line_okb l = true -> line_ok l.
Proof.
  unfold line_okb, line_ok. rewrite !andb_true_iff. intros [[H1 H2] H3]. repeat split.
  - apply no_char_not_in. exact H1.
  - apply no_char_not_in. exact H2.
  - destruct (decode_strict l) as [r|]; [|discriminate]. apply str_eqb_eq in H3. subst. reflexivity.
Qed.

Lemma lines_okb_ok ls : forallb line_okb ls = true -> Forall line_ok ls.
Proof. rewrite forallb_forall, Forall_forall. intros H l Hl. apply line_okb_ok, H, Hl. Qed.

(** the raw TSV string of a graph in the domain delivers its N-Triples semantics *)
Theorem tsv_channel_kinded pyfloat read_nt read_ttl gunzip unxz unzip rdf_parse o g :
  tsv_dom g = true -> Forall line_ok (map tsv_line_of g) ->
  rd_stream (channel pyfloat read_nt read_ttl gunzip unxz unzip rdf_parse o (Str "tsv_spo") None (SRaw (tsv_doc g)))
  = inl (map m_of g)
  /\ graph_of_m (map m_of g) = Some (kinded g).
Proof.
  intros Hd Hok. destruct (tsv_reads_nt_semantics pyfloat g Hd) as [H1 H2]. split; [|exact H2].
  rewrite (chan_raw pyfloat read_nt read_ttl gunzip unxz unzip rdf_parse o _ _ _ (Fam_tsv pyfloat read_nt)).
  unfold tsv_doc. rewrite lines_raw_render by exact Hok. rewrite (tsv_lines_nonblank g Hd), H1. reflexivity.
Qed.

(** ** K. channel independence at the level of the extracted shapes, line-based channels *)

Section ChannelIndependence.
  Variable pyfloat : str -> option bool.
  Variable read_nt read_ttl : list str -> rd.
  Variable gunzip unxz : str -> option str.
  Variable unzip : str -> option (list (str * str)).
  Variable rdf_parse : str -> str -> option (list rtriple).
  Variable fa : FreqAlg.

  Notation chan := (channel pyfloat read_nt read_ttl gunzip unxz unzip rdf_parse).
  Notation passes1 := (passes pyfloat read_nt read_ttl gunzip unxz unzip rdf_parse).

  (** whatever the raw string delivers ([ms], denoting [G]), every partition of
      its lines into plain / gz / xz files yields, over the two independently
      built yielders, the extraction of the single graph [G] *)
  Theorem channel_independent_files c thr fmt read (o o1 o2 : porc) cm lss stored ms G :
    line_family pyfloat read_nt fmt read -> line_compositional read ->
    blanks_harmless read (List.concat lss) -> cm_plain cm ->
    Forall (Forall line_ok) lss ->
    Forall2 (stored_as gunzip unxz cm) (map render_lines lss) stored ->
    rd_stream (chan o fmt None (SRaw (render_lines (List.concat lss)))) = inl ms ->
    graph_of_m ms = Some G ->
    run_over_passes fa c thr (passes1 o1 o2 fmt cm (SFiles stored)) = Some (run_shapes_cur fa c thr G).
  Proof.
    intros F LC Hb C Hok Hst Hraw HG. unfold run_over_passes, graphs_of_passes, passes. cbn [fst snd].
    rewrite (partition_invisible_files pyfloat read_nt read_ttl gunzip unxz unzip rdf_parse fmt read o1 o cm lss stored F LC Hb C Hok Hst).
    rewrite (partition_invisible_files pyfloat read_nt read_ttl gunzip unxz unzip rdf_parse fmt read o2 o cm lss stored F LC Hb C Hok Hst).
    rewrite Hraw, HG. reflexivity.
  Qed.

  Lemma tsv_lines_all_nonblank g : tsv_dom g = true -> Forall (fun l => nonblank l = true) (map tsv_line_of g).
  Proof.
    unfold tsv_dom. induction g as [|t g IH]; intros H; [constructor|].
    cbn [forallb] in H. apply andb_true_iff in H. destruct H as [Ht Hg]. cbn [map]. constructor; [|exact (IH Hg)].
    unfold nonblank. rewrite (strip_tsv_line t Ht).
    assert (str_eqb (tsv_line_of t) [] = false) as -> by (unfold tsv_line_of; destruct (a_s t); reflexivity).
    reflexivity.
  Qed.

  (** the TSV channel, closed: for every graph of the domain and every
      partition of its TSV lines into files the extraction is that of the
      graph's N-Triples semantics *)
  Theorem tsv_channel_independent c thr (o1 o2 : porc) cm g lss stored :
    tsv_dom g = true -> Forall line_ok (map tsv_line_of g) ->
    List.concat lss = map tsv_line_of g -> cm_plain cm ->
    Forall2 (stored_as gunzip unxz cm) (map render_lines lss) stored ->
    run_over_passes fa c thr (passes1 o1 o2 (Str "tsv_spo") cm (SFiles stored)) = Some (run_shapes_cur fa c thr (kinded g)).
  Proof.
    intros Hd Hok Hc C Hst.
    destruct (tsv_channel_kinded pyfloat read_nt read_ttl gunzip unxz unzip rdf_parse o1 g Hd Hok) as [H1 H2].
    assert (Hoks : Forall (Forall line_ok) lss).
    { clear Hst. rewrite <- Hc in Hok. clear Hc. induction lss as [|ls lss IH]; [constructor|].
      cbn [List.concat] in Hok. apply Forall_app in Hok. destruct Hok. constructor; auto. }
    apply (channel_independent_files c thr (Str "tsv_spo") (read_tsv pyfloat) o1 o1 o2 cm lss stored (map m_of g) (kinded g)
             (Fam_tsv pyfloat read_nt) (read_tsv_compositional pyfloat)); try assumption.
    - left. apply read_tsv_blank_silent.
    - rewrite Hc. exact H1.
  Qed.
End ChannelIndependence.
