(** * Lemmas of property C08 (delivery channels).  Never imported by [Model/]. *)
From Coq Require Import List Ascii String ZArith Bool Lia Arith.
From Shexer Require Import Lib.PyStr Lib.Dict Gen.Consts Spec.Rdf Model.Tracker Model.Profiler
     Model.Channels Spec.ChannelSpec.
Import ListNotations.

(** ** A. streams *)

Definition sapp (a b : list mtriple + cerr) : list mtriple + cerr :=
  match a with
  | inr e => inr e
  | inl x => match b with inr e => inr e | inl y => inl (x ++ y) end
  end.

Lemma rd_stream_app a b : rd_stream (rd_app a b) = sapp (rd_stream a) (rd_stream b).
Proof. destruct a as [x|e], b as [y|e']; reflexivity. Qed.

Lemma sapp_nil_l a : sapp (inl []) a = a.
Proof. destruct a; reflexivity. Qed.

Lemma sapp_nil_r a : sapp a (inl []) = a.
Proof. destruct a as [x|e]; cbn; [rewrite app_nil_r|]; reflexivity. Qed.

Lemma sapp_assoc a b c : sapp (sapp a b) c = sapp a (sapp b c).
Proof. destruct a, b, c; cbn; try reflexivity. rewrite app_assoc. reflexivity. Qed.

Definition sconcat (l : list (list mtriple + cerr)) : list mtriple + cerr := fold_right sapp (inl []) l.

Lemma sconcat_app l1 l2 : sconcat (l1 ++ l2) = sapp (sconcat l1) (sconcat l2).
Proof.
  induction l1 as [|a l1 IH]; [symmetry; apply sapp_nil_l|].
  cbn [app sconcat fold_right]. fold (sconcat (l1 ++ l2)). fold (sconcat l1). rewrite IH, sapp_assoc. reflexivity.
Qed.

Lemma rd_stream_concat l : rd_stream (rd_concat l) = sconcat (map rd_stream l).
Proof.
  induction l as [|a l IH]; [reflexivity|]. cbn [rd_concat fold_right map sconcat].
  rewrite rd_stream_app. fold (rd_concat l). rewrite IH. reflexivity.
Qed.

(** ** B. lines *)

Definition nl (l : str) : str := l ++ [LF].

Lemma render_lines_cons l ls : render_lines (l :: ls) = l ++ LF :: render_lines ls.
Proof. unfold render_lines. cbn. rewrite <- app_assoc. reflexivity. Qed.

Lemma render_lines_app a b : render_lines (a ++ b) = render_lines a ++ render_lines b.
Proof. unfold render_lines. rewrite map_app, List.concat_app. reflexivity. Qed.

Lemma eqb_LF_false c : c <> LF -> Ascii.eqb c LF = false.
Proof. intros H. apply Ascii.eqb_neq. exact H. Qed.

Lemma keepends_aux_line l rest acc :
  ~ In LF l -> keepends_aux (l ++ LF :: rest) acc = (rev acc ++ l ++ [LF]) :: keepends_aux rest [].
Proof.
  revert acc. induction l as [|c l IH]; intros acc H; cbn [app keepends_aux].
  - rewrite Ascii.eqb_refl. reflexivity.
  - rewrite eqb_LF_false by (intros E; apply H; left; auto).
    rewrite IH by (intros E; apply H; right; auto). cbn [rev]. rewrite <- app_assoc. reflexivity.
Qed.

Lemma keepends_render ls : Forall (fun l => ~ In LF l) ls -> keepends (render_lines ls) = map nl ls.
Proof.
  unfold keepends. induction 1 as [|l ls Hl _ IH]; [reflexivity|].
  rewrite render_lines_cons, keepends_aux_line by exact Hl. cbn. rewrite IH. reflexivity.
Qed.

(** splitting on a one-character separator, without fuel *)
Fixpoint split1 (c : ascii) (s acc : str) : list str :=
  match s with
  | [] => [rev acc]
  | x :: s' => if Ascii.eqb c x then rev acc :: split1 c s' [] else split1 c s' (x :: acc)
  end.

Lemma split_fuel_split1 c f s acc : (List.length s < f)%nat -> split_fuel f [c] s acc = split1 c s acc.
Proof.
  revert s acc. induction f as [|f IH]; intros s acc H; [lia|].
  destruct s as [|x s]; [reflexivity|]. cbn in H. cbn.
  destruct (Ascii.eqb c x); cbn.
  - rewrite IH by lia. reflexivity.
  - apply IH. lia.
Qed.

Lemma split_split1 c s : split [c] s = split1 c s [].
Proof. unfold split. apply split_fuel_split1. lia. Qed.

Lemma split1_line c l rest acc :
  ~ In c l -> split1 c (l ++ c :: rest) acc = (rev acc ++ l) :: split1 c rest [].
Proof.
  revert acc. induction l as [|x l IH]; intros acc H; cbn.
  - rewrite Ascii.eqb_refl, app_nil_r. reflexivity.
  - assert (Ascii.eqb c x = false) as -> by (apply Ascii.eqb_neq; intros E; apply H; left; auto).
    rewrite IH by (intros E; apply H; right; auto). cbn. rewrite <- app_assoc. reflexivity.
Qed.

Lemma split1_last c l acc : ~ In c l -> split1 c l acc = [rev acc ++ l].
Proof.
  revert acc. induction l as [|x l IH]; intros acc H; cbn.
  - rewrite app_nil_r. reflexivity.
  - assert (Ascii.eqb c x = false) as -> by (apply Ascii.eqb_neq; intros E; apply H; left; auto).
    rewrite IH by (intros E; apply H; right; auto). cbn. rewrite <- app_assoc. reflexivity.
Qed.

Lemma split_render ls : Forall (fun l => ~ In LF l) ls -> split1 LF (render_lines ls) [] = ls ++ [[]].
Proof.
  induction 1 as [|l ls Hl _ IH]; [reflexivity|].
  rewrite render_lines_cons, split1_line by exact Hl. rewrite IH. reflexivity.
Qed.

Lemma raw_sep_is_LF : c08_raw_line_sep = [LF].
Proof. reflexivity. Qed.

(** [strip] *)
Lemma rstrip_snoc_space s c : is_space c = true -> rstrip (s ++ [c]) = rstrip s.
Proof. intros H. unfold rstrip. rewrite rev_unit. cbn. rewrite H. reflexivity. Qed.

Lemma strip_snoc_space l c : is_space c = true -> strip (l ++ [c]) = strip l.
Proof.
  intros H. unfold strip. induction l as [|x l IH]; cbn.
  - rewrite H. reflexivity.
  - destruct (is_space x); [exact IH|].
    change (x :: l ++ [c]) with ((x :: l) ++ [c]). apply rstrip_snoc_space. exact H.
Qed.

Lemma strip_nl l : strip (nl l) = strip l.
Proof. apply strip_snoc_space. reflexivity. Qed.

Lemma lstrip_head x s : is_space x = false -> lstrip (x :: s) = x :: s.
Proof. intros H. cbn. rewrite H. reflexivity. Qed.

Lemma rstrip_last s b : is_space b = false -> rstrip (s ++ [b]) = s ++ [b].
Proof. intros H. unfold rstrip. rewrite rev_unit, lstrip_head by exact H. rewrite <- rev_unit, rev_involutive. reflexivity. Qed.

Lemma strip_id x m b : is_space x = false -> is_space b = false -> strip (x :: m ++ [b]) = x :: m ++ [b].
Proof.
  intros Hx Hb. unfold strip. rewrite lstrip_head by exact Hx.
  change (x :: m ++ [b]) with ((x :: m) ++ [b]). apply rstrip_last. exact Hb.
Qed.

Lemma nonblank_false l : nonblank l = false -> strip l = [].
Proof. unfold nonblank. intros H. apply negb_false_iff, str_eqb_eq in H. exact H. Qed.

(** UTF-8 *)
Lemma utf8_dec_app a b st ra :
  utf8_dec true a st = Some ra ->
  utf8_dec true (a ++ b) st = match utf8_dec true b UIdle with Some rb => Some (ra ++ rb) | None => None end.
Proof.
  revert st ra. induction a as [|c a IH]; intros st ra H.
  - destruct st; cbn in H; [|discriminate]. inversion H; subst. cbn. destruct (utf8_dec true b UIdle); reflexivity.
  - cbn [app]. cbn [utf8_dec] in *.
    assert (Hidle : forall r,
               match idle_step c with
               | Some (out, st') => match utf8_dec true a st' with Some r0 => Some (out ++ r0) | None => None end
               | None => None
               end = Some r ->
               match idle_step c with
               | Some (out, st') => match utf8_dec true (a ++ b) st' with Some r0 => Some (out ++ r0) | None => None end
               | None => None
               end = match utf8_dec true b UIdle with Some rb => Some (r ++ rb) | None => None end).
    { intros r Hr. destruct (idle_step c) as [[out st']|]; [|discriminate].
      destruct (utf8_dec true a st') as [r0|] eqn:E; [|discriminate]. inversion Hr; subst.
      rewrite (IH _ _ E). destruct (utf8_dec true b UIdle); [rewrite app_assoc|]; reflexivity. }
    destruct st as [|buf k lo hi].
    + apply Hidle. exact H.
    + destruct (Nat.leb lo (nat_of_ascii c) && Nat.leb (nat_of_ascii c) hi); [|discriminate].
      destruct k as [|[|k]].
      * apply IH. exact H.
      * destruct (utf8_dec true a UIdle) as [r0|] eqn:E; [|discriminate]. inversion H; subst.
        rewrite (IH _ _ E). destruct (utf8_dec true b UIdle); [rewrite app_assoc|]; reflexivity.
      * apply IH. exact H.
Qed.

Lemma decode_strict_app a b :
  decode_strict a = Some a -> decode_strict b = Some b -> decode_strict (a ++ b) = Some (a ++ b).
Proof.
  unfold decode_strict. intros Ha Hb. rewrite (utf8_dec_app _ _ _ _ Ha), Hb. reflexivity.
Qed.

Lemma decode_strict_LF : decode_strict [LF] = Some [LF].
Proof. reflexivity. Qed.

Lemma decode_strict_nl l : decode_strict l = Some l -> decode_strict (nl l) = Some (nl l).
Proof. intros H. apply decode_strict_app; [exact H | exact decode_strict_LF]. Qed.

Lemma decode_strict_render ls :
  Forall (fun l => decode_strict l = Some l) ls -> decode_strict (render_lines ls) = Some (render_lines ls).
Proof.
  induction 1 as [|l ls Hl _ IH]; [reflexivity|].
  unfold render_lines. cbn [map List.concat]. apply decode_strict_app; [apply decode_strict_nl; exact Hl | exact IH].
Qed.

Lemma utf8_strict_ignore s st r : utf8_dec true s st = Some r -> utf8_dec false s st = Some r.
Proof.
  revert st r. induction s as [|c s IH]; intros st r H.
  - destruct st; cbn in *; [exact H | discriminate].
  - cbn [utf8_dec] in *.
    assert (Hidle : forall r,
               match idle_step c with
               | Some (out, st') => match utf8_dec true s st' with Some r0 => Some (out ++ r0) | None => None end
               | None => None
               end = Some r ->
               match idle_step c with
               | Some (out, st') => match utf8_dec false s st' with Some r0 => Some (out ++ r0) | None => None end
               | None => utf8_dec false s UIdle
               end = Some r).
    { intros r0 Hr. destruct (idle_step c) as [[out st']|]; [|discriminate].
      destruct (utf8_dec true s st') as [r1|] eqn:E; [|discriminate]. rewrite (IH _ _ E). exact Hr. }
    destruct st as [|buf k lo hi].
    + apply Hidle. exact H.
    + destruct (Nat.leb lo (nat_of_ascii c) && Nat.leb (nat_of_ascii c) hi); [|discriminate].
      destruct k as [|[|k]].
      * apply IH. exact H.
      * destruct (utf8_dec true s UIdle) as [r0|] eqn:E; [|discriminate]. rewrite (IH _ _ E). exact H.
      * apply IH. exact H.
Qed.

Lemma decode_ignore_valid s : decode_strict s = Some s -> decode_ignore s = s.
Proof. unfold decode_strict, decode_ignore. intros H. rewrite (utf8_strict_ignore _ _ _ H). reflexivity. Qed.

Lemma universal_nl_id s : ~ In CR s -> universal_nl s = s.
Proof.
  induction s as [|c s IH]; intros H; [reflexivity|]. cbn [universal_nl].
  assert (Ascii.eqb c CR = false) as -> by (apply Ascii.eqb_neq; intros E; apply H; left; auto).
  rewrite IH by (intros E; apply H; right; auto). reflexivity.
Qed.

Lemma not_in_render c ls : c <> LF -> Forall (fun l => ~ In c l) ls -> ~ In c (render_lines ls).
Proof.
  intros Hc. induction 1 as [|l ls Hl _ IH]; [intros []|].
  rewrite render_lines_cons. intros H. apply in_app_or in H. destruct H as [H|[H|H]]; auto.
Qed.

Lemma decode_lines_valid ls :
  Forall (fun l => decode_strict l = Some l) ls -> decode_lines (map nl ls) = inl (map nl ls).
Proof.
  induction 1 as [|l ls Hl _ IH]; [reflexivity|]. cbn. rewrite (decode_strict_nl _ Hl), IH. reflexivity.
Qed.

(** the three line readers on a document made of complete lines *)
Lemma Forall_line_ok_LF ls : Forall line_ok ls -> Forall (fun l => ~ In LF l) ls.
Proof. apply Forall_impl. intros l (H & _). exact H. Qed.
Lemma Forall_line_ok_CR ls : Forall line_ok ls -> Forall (fun l => ~ In CR l) ls.
Proof. apply Forall_impl. intros l (_ & H & _). exact H. Qed.
Lemma Forall_line_ok_utf8 ls : Forall line_ok ls -> Forall (fun l => decode_strict l = Some l) ls.
Proof. apply Forall_impl. intros l (_ & _ & H). exact H. Qed.

Lemma lines_raw_render ls : Forall line_ok ls -> lines_raw (render_lines ls) = filter nonblank ls.
Proof.
  intros H. unfold lines_raw. rewrite raw_sep_is_LF, split_split1, split_render by (apply Forall_line_ok_LF; exact H).
  rewrite filter_app. cbn. rewrite app_nil_r. reflexivity.
Qed.

Lemma lines_text_render ls : Forall line_ok ls -> lines_text (render_lines ls) = map nl ls.
Proof.
  intros H. unfold lines_text.
  rewrite decode_ignore_valid by (apply decode_strict_render, Forall_line_ok_utf8; exact H).
  rewrite universal_nl_id by (apply not_in_render; [discriminate | apply Forall_line_ok_CR; exact H]).
  apply keepends_render, Forall_line_ok_LF. exact H.
Qed.

Lemma lines_bytes_render ls : Forall line_ok ls -> lines_bytes (render_lines ls) = inl (map nl ls).
Proof.
  intros H. unfold lines_bytes. rewrite keepends_render by (apply Forall_line_ok_LF; exact H).
  apply decode_lines_valid, Forall_line_ok_utf8. exact H.
Qed.

(** ** C. line-compositional readers *)

Section Compositional.
  Variable read : list str -> rd.
  Hypothesis LC : line_compositional read.

  Lemma read_nil : read [] = inl res_nil.
  Proof.
    destruct (lc_blank read LC [] eq_refl) as [n Hn].
    pose proof (lc_app read LC [] (@cons str (@nil ascii) (@nil str))) as H. cbn [app] in H. rewrite Hn in H.
    destruct (read []) as [[t y e]|err]; [|discriminate].
    cbn in H. inversion H as [[Ht Hy He]].
    destruct t; [|discriminate]. replace y with 0 by lia. replace e with 0 by lia. reflexivity.
  Qed.

  Lemma stream_read_cons l ls :
    rd_stream (read (l :: ls)) = sapp (rd_stream (read [l])) (rd_stream (read ls)).
  Proof. change (l :: ls) with ([l] ++ ls). rewrite (lc_app read LC), rd_stream_app. reflexivity. Qed.

  Lemma stream_read_app a b :
    rd_stream (read (a ++ b)) = sapp (rd_stream (read a)) (rd_stream (read b)).
  Proof. rewrite (lc_app read LC), rd_stream_app. reflexivity. Qed.

  (** line terminators and blank lines do not show in the stream *)
  Lemma stream_read_nl_filter ls :
    rd_stream (read (map nl ls)) = rd_stream (read (filter nonblank ls)).
  Proof.
    induction ls as [|l ls IH]; [reflexivity|]. cbn [map filter].
    rewrite (stream_read_cons (nl l) (map nl ls)), IH, (lc_strip read LC (nl l) l (strip_nl l)).
    destruct (nonblank l) eqn:E.
    - rewrite (stream_read_cons l (filter nonblank ls)). reflexivity.
    - destruct (lc_blank read LC l (nonblank_false l E)) as [n Hn]. rewrite Hn. cbn [rd_stream r_triples].
      apply sapp_nil_l.
  Qed.

  Lemma stream_read_concat lss :
    rd_stream (read (List.concat lss)) = sconcat (map (fun ls => rd_stream (read ls)) lss).
  Proof.
    induction lss as [|ls lss IH]; cbn [List.concat map sconcat fold_right].
    - rewrite read_nil. reflexivity.
    - rewrite stream_read_app, IH. reflexivity.
  Qed.

  (** the heart of C08(a): files holding complete lines, read one after the
      other through any of the line readers, deliver the stream of the single
      raw string *)
  Lemma stream_pieces (lss : list (list str)) :
    sconcat (map (fun ls => rd_stream (read (map nl ls))) lss)
    = rd_stream (read (filter nonblank (List.concat lss))).
  Proof.
    rewrite <- concat_filter_map, stream_read_concat, map_map.
    f_equal. apply map_ext. intros ls. apply stream_read_nl_filter.
  Qed.
End Compositional.

(** ** D. the channels of a line-based format *)

Definition cm_plain (cm : option str) : Prop :=
  cm = None \/ cm = Some (Str "gz") \/ cm = Some (Str "xz").

Section Partition.
  Variable pyfloat : str -> option bool.
  Variable read_nt read_ttl : list str -> rd.
  Variable gunzip unxz : str -> option str.
  Variable unzip : str -> option (list (str * str)).
  Variable rdf_parse : str -> str -> option (list rtriple).

  Notation chan := (channel pyfloat read_nt read_ttl gunzip unxz unzip rdf_parse).
  Notation single1 := (single pyfloat read_nt read_ttl gunzip unxz rdf_parse).
  Notation multi_from1 := (multi_from pyfloat read_nt read_ttl gunzip unxz rdf_parse).
  Notation lines_of1 := (lines_of gunzip unxz).

  (** the two formats whose document reader works line by line *)
  Inductive line_family : str -> (list str -> rd) -> Prop :=
  | Fam_nt : line_family (Str "nt") read_nt
  | Fam_tsv : line_family (Str "tsv_spo") (read_tsv pyfloat).

  Lemma lines_of_raw cm doc : cm_plain cm -> lines_of1 true cm doc = inl (lines_raw doc).
  Proof. intros C; destruct C as [-> | [-> | ->]]; reflexivity. Qed.

  Lemma lines_of_text st : lines_of1 false None st = inl (lines_text st).
  Proof. reflexivity. Qed.

  Lemma lines_of_gz st :
    lines_of1 false (Some (Str "gz")) st = match gunzip st with Some b => lines_bytes b | None => inr CECodec end.
  Proof. reflexivity. Qed.

  Lemma lines_of_xz st :
    lines_of1 false (Some (Str "xz")) st = match unxz st with Some b => lines_bytes b | None => inr CECodec end.
  Proof. reflexivity. Qed.

  Lemma lines_of_zip_member content : lines_of1 false (Some c_ZIP) content = lines_bytes content.
  Proof. reflexivity. Qed.

  (** a stored file that holds complete lines delivers those lines, whatever the compression *)
  Lemma lines_of_stored cm ls st :
    Forall line_ok ls -> stored_as gunzip unxz cm (render_lines ls) st ->
    lines_of1 false cm st = inl (map nl ls).
  Proof.
    intros Hok Hst. destruct cm as [c|]; cbn in Hst.
    - destruct Hst as [[-> Hg]|[-> Hx]].
      + rewrite lines_of_gz, Hg. apply lines_bytes_render. exact Hok.
      + rewrite lines_of_xz, Hx. apply lines_bytes_render. exact Hok.
    - subst st. rewrite lines_of_text, lines_text_render by exact Hok. reflexivity.
  Qed.

  Lemma single_line o fmt read raw cm st :
    line_family fmt read -> single1 o fmt (fst (family fmt)) raw cm st = with_lines read (lines_of1 raw cm st).
  Proof. intros []; reflexivity. Qed.

  Lemma dispatch_raw fmt read : line_family fmt read -> dispatch fmt None KRaw = inl (YPlain (fst (family fmt))).
  Proof. intros []; reflexivity. Qed.

  Lemma dispatch_file fmt read cm :
    line_family fmt read -> cm_plain cm -> dispatch fmt cm KFile = inl (YPlain (fst (family fmt))).
  Proof. intros [] [->|[-> | ->]]; reflexivity. Qed.

  Lemma dispatch_files fmt read cm n :
    line_family fmt read -> cm_plain cm -> dispatch fmt cm (KFiles n) = inl (YPlain (snd (family fmt))).
  Proof. intros [] [->|[-> | ->]]; reflexivity. Qed.

  Lemma dispatch_zip_file fmt read :
    line_family fmt read -> dispatch fmt (Some c_ZIP) KFile = inl (YZipOne (snd (family fmt))).
  Proof. intros []; reflexivity. Qed.

  Lemma dispatch_zip_files fmt read n :
    line_family fmt read ->
    dispatch fmt (Some c_ZIP) (KFiles n) =
    inl (if Nat.eqb n 1 then YZipOne (snd (family fmt)) else YZipMany (Str "MultiZipTriplesYielder") (snd (family fmt))).
  Proof.
    intros []; unfold dispatch; cbn -[Z.eqb Z.of_nat Nat.eqb];
      (destruct n as [|[|n]]; [reflexivity | reflexivity |]);
      unfold resolve_target; cbn -[Z.eqb Z.of_nat Nat.eqb];
      replace (Z.eqb (Z.of_nat (S (S n))) c08_zip_single_archives) with false
        by (symmetry; apply Z.eqb_neq; unfold c08_zip_single_archives; lia); reflexivity.
  Qed.

  Lemma chan_raw o fmt read doc :
    line_family fmt read -> chan o fmt None (SRaw doc) = read (lines_raw doc).
  Proof.
    intros F. unfold channel. cbn [kind_of]. rewrite (dispatch_raw _ _ F).
    destruct F; reflexivity.
  Qed.

  Lemma multi_from_stream i orcs fmt read cm files :
    line_family fmt read ->
    rd_stream (multi_from1 i orcs fmt (fst (family fmt)) cm files)
    = sconcat (map (fun st => rd_stream (with_lines read (lines_of1 false cm st))) files).
  Proof.
    intros F. revert i. induction files as [|f fs IH]; intros i; [reflexivity|].
    cbn [multi_from map sconcat fold_right]. rewrite rd_stream_app, (single_line _ _ _ _ _ _ F), IH. reflexivity.
  Qed.

  Lemma chan_files o fmt read cm stored :
    line_family fmt read -> cm_plain cm ->
    chan o fmt cm (SFiles stored) = multi_from1 0 (o 0) fmt (fst (family fmt)) cm stored.
  Proof.
    intros F C. unfold channel. cbn [kind_of]. rewrite (dispatch_files _ _ _ _ F C).
    destruct F; reflexivity.
  Qed.

  Lemma chan_file o fmt read cm st :
    line_family fmt read -> cm_plain cm ->
    chan o fmt cm (SFile st) = with_lines read (lines_of1 false cm st).
  Proof.
    intros F C. unfold channel. cbn [kind_of]. rewrite (dispatch_file _ _ _ F C).
    destruct F; reflexivity.
  Qed.

  (** the streams of the pieces, piece by piece *)
  Lemma pieces_stream fmt read cm lss stored :
    line_family fmt read ->
    Forall (Forall line_ok) lss ->
    Forall2 (stored_as gunzip unxz cm) (map render_lines lss) stored ->
    sconcat (map (fun st => rd_stream (with_lines read (lines_of1 false cm st))) stored)
    = sconcat (map (fun ls => rd_stream (read (map nl ls))) lss).
  Proof.
    intros F Hok. revert stored. induction Hok as [|ls lss Hls _ IH]; intros stored H2; inversion H2; subst.
    - reflexivity.
    - cbn [map sconcat fold_right]. rewrite (lines_of_stored _ _ _ Hls H1). cbn [with_lines].
      f_equal. apply IH. assumption.
  Qed.

  Lemma Forall_concat {A} (P : A -> Prop) l : Forall (Forall P) l -> Forall P (List.concat l).
  Proof. induction 1; cbn; [constructor | apply Forall_app; split; assumption]. Qed.

  Lemma concat_line_ok lss : Forall (Forall line_ok) lss -> Forall line_ok (List.concat lss).
  Proof. apply Forall_concat. Qed.

  (** *** C08(a): any partition of the lines into files, plain or gz / xz compressed *)
  Theorem partition_invisible_files fmt read o o' cm lss stored :
    line_family fmt read -> line_compositional read -> cm_plain cm ->
    Forall (Forall line_ok) lss ->
    Forall2 (stored_as gunzip unxz cm) (map render_lines lss) stored ->
    rd_stream (chan o fmt cm (SFiles stored))
    = rd_stream (chan o' fmt None (SRaw (render_lines (List.concat lss)))).
  Proof.
    intros F LC C Hok Hst.
    rewrite (chan_files _ _ _ _ _ F C), (multi_from_stream _ _ _ _ _ _ F), (pieces_stream _ _ _ _ _ F Hok Hst).
    rewrite (stream_pieces read LC), (chan_raw _ _ _ _ F), lines_raw_render by (apply concat_line_ok; exact Hok).
    reflexivity.
  Qed.

  (** one file *)
  Theorem partition_invisible_file fmt read o o' cm ls st :
    line_family fmt read -> line_compositional read -> cm_plain cm ->
    Forall line_ok ls -> stored_as gunzip unxz cm (render_lines ls) st ->
    rd_stream (chan o fmt cm (SFile st)) = rd_stream (chan o' fmt None (SRaw (render_lines ls))).
  Proof.
    intros F LC C Hok Hst.
    rewrite (chan_file _ _ _ _ _ F C), (lines_of_stored _ _ _ Hok Hst). cbn [with_lines].
    rewrite (stream_read_nl_filter read LC), (chan_raw _ _ _ _ F), lines_raw_render by exact Hok.
    reflexivity.
  Qed.

  (** *** zip: the members of one archive, in [namelist()] order *)
  Definition archive_holds (archive : str) (lss : list (list str)) : Prop :=
    exists members, unzip archive = Some members /\ map snd members = map render_lines lss.

  Lemma zip_one_stream o fmt read archive lss :
    line_family fmt read -> Forall (Forall line_ok) lss -> archive_holds archive lss ->
    rd_stream (zip_one pyfloat read_nt read_ttl gunzip unxz unzip rdf_parse o fmt (snd (family fmt)) archive)
    = sconcat (map (fun ls => rd_stream (read (map nl ls))) lss).
  Proof.
    intros F Hok (members & Hu & Hm). unfold zip_one. rewrite Hu, Hm.
    assert (multi pyfloat read_nt read_ttl gunzip unxz rdf_parse o fmt (snd (family fmt)) (Some c_ZIP) (map render_lines lss)
            = multi_from1 0 o fmt (fst (family fmt)) (Some c_ZIP) (map render_lines lss)) as -> by (destruct F; reflexivity).
    rewrite (multi_from_stream _ _ _ _ _ _ F).
    clear Hu Hm. induction Hok as [|ls lss Hls _ IH]; [reflexivity|].
    cbn [map sconcat fold_right]. rewrite lines_of_zip_member, (lines_bytes_render _ Hls). cbn [with_lines].
    f_equal. exact IH.
  Qed.

  Theorem partition_invisible_zip fmt read o o' archive lss :
    line_family fmt read -> line_compositional read ->
    Forall (Forall line_ok) lss -> archive_holds archive lss ->
    rd_stream (chan o fmt (Some c_ZIP) (SFile archive))
    = rd_stream (chan o' fmt None (SRaw (render_lines (List.concat lss)))).
  Proof.
    intros F LC Hok Ha. unfold channel at 1. cbn [kind_of]. rewrite (dispatch_zip_file _ _ F). cbn [run_yielder].
    rewrite (zip_one_stream _ _ _ _ _ F Hok Ha), (stream_pieces read LC), (chan_raw _ _ _ _ F),
      lines_raw_render by (apply concat_line_ok; exact Hok).
    reflexivity.
  Qed.

  (** *** several archives ([MultiZipTriplesYielder]); a list with exactly one
      archive is the previous case *)
  Lemma rd_concat_last_ok parts tot : rd_concat parts = inl tot -> exists lst, last parts (inl res_nil) = inl lst.
  Proof.
    revert tot. induction parts as [|a parts IH]; intros tot H; [exists res_nil; reflexivity|].
    cbn [rd_concat fold_right] in H. fold (rd_concat parts) in H.
    destruct a as [x|e]; [|discriminate]. destruct (rd_concat parts) as [y|e] eqn:E; [|discriminate].
    destruct parts as [|b parts]; [exists x; reflexivity|].
    destruct (IH _ eq_refl) as [lst Hl]. exists lst. exact Hl.
  Qed.

  Lemma zip_many_stream (o : porc) fmt cls archives :
    rd_stream (zip_many pyfloat read_nt read_ttl gunzip unxz unzip rdf_parse o fmt cls archives)
    = sconcat (map (fun ia => rd_stream (zip_one pyfloat read_nt read_ttl gunzip unxz unzip rdf_parse
                                                 (o (fst ia)) fmt cls (snd ia)))
                   (combine (seq 0 (List.length archives)) archives)).
  Proof.
    unfold zip_many. rewrite <- (map_map _ rd_stream), <- rd_stream_concat.
    destruct (rd_concat _) as [tot|e] eqn:E; [|reflexivity].
    destruct (rd_concat_last_ok _ _ E) as [lst ->]. reflexivity.
  Qed.

  Theorem partition_invisible_zips fmt read o o' archives lsss :
    line_family fmt read -> line_compositional read ->
    Forall (Forall (Forall line_ok)) lsss -> Forall2 archive_holds archives lsss ->
    rd_stream (chan o fmt (Some c_ZIP) (SFiles archives))
    = rd_stream (chan o' fmt None (SRaw (render_lines (List.concat (List.concat lsss))))).
  Proof.
    intros F LC Hok Ha.
    assert (Hgen : forall (k : nat) (oo : nat -> nat -> rorc) archives lsss,
               Forall (Forall (Forall line_ok)) lsss -> Forall2 archive_holds archives lsss ->
               sconcat (map (fun ia => rd_stream (zip_one pyfloat read_nt read_ttl gunzip unxz unzip rdf_parse
                                                          (oo (fst ia)) fmt (snd (family fmt)) (snd ia)))
                            (combine (seq k (List.length archives)) archives))
               = sconcat (map (fun ls => rd_stream (read (map nl ls))) (List.concat lsss))).
    { clear Hok Ha archives lsss. intros k oo archives lsss Hok Ha. revert k.
      induction Ha as [|a lss archives lsss Ha1 _ IH]; intros k; [reflexivity|].
      inversion Hok; subst. cbn [List.length seq combine map sconcat fold_right List.concat fst snd].
      rewrite map_app, sconcat_app, (zip_one_stream _ _ _ _ _ F H1 Ha1). f_equal. apply IH. assumption. }
    assert (Hraw : sconcat (map (fun ls => rd_stream (read (map nl ls))) (List.concat lsss))
                   = rd_stream (chan o' fmt None (SRaw (render_lines (List.concat (List.concat lsss)))))).
    { rewrite (stream_pieces read LC), (chan_raw _ _ _ _ F), lines_raw_render; [reflexivity|].
      apply concat_line_ok, Forall_concat. exact Hok. }
    unfold channel at 1. cbn [kind_of]. rewrite (dispatch_zip_files _ _ _ F).
    destruct (Nat.eqb (List.length archives) 1) eqn:E.
    - apply Nat.eqb_eq in E. destruct archives as [|a [|b l]]; try discriminate.
      inversion Ha as [|? lss ? lsss' Ha1 Hrest]; subst. inversion Hrest; subst.
      cbn [run_yielder]. inversion Hok; subst.
      rewrite (zip_one_stream _ _ _ _ _ F H1 Ha1), <- Hraw. cbn [List.concat]. rewrite app_nil_r. reflexivity.
    - cbn [run_yielder]. rewrite zip_many_stream, (Hgen 0 o _ _ Hok Ha). exact Hraw.
  Qed.
End Partition.
