(** * Composition: whole lines, directive lines, documents (C07) *)
From Coq Require Import List Ascii String ZArith Bool Lia.
From Shexer Require Import Lib.PyStr Lib.Dict Gen.Consts Spec.Rdf Spec.TtlSyntax Spec.TtlDomain Model.TtlReader
  Proofs.TtlProofs Proofs.TtlExpand Proofs.TtlLiteral Proofs.TtlClean Proofs.TtlTokens Proofs.TtlScan Proofs.TtlObjects.
Import ListNotations.
Local Open Scope Z_scope.

(** ** [_clean_line] on a line of words *)

Lemma hspace_quote_free lead : hspace lead = true -> quote_free lead.
Proof.
  unfold hspace. intros H. apply Forall_forall. intros c Hin. rewrite forallb_forall in H. specialize (H c Hin).
  revert H. clear. unfold is_hspace. destruct c as [[|] [|] [|] [|] [|] [|] [|] [|]]; vm_compute; intros; first [reflexivity | discriminate].
Qed.

Lemma render_pairs_Forall (P : ascii -> Prop) (pairs : list (str * str)) :
  Forall (fun wg => Forall P (fst wg) /\ Forall P (snd wg)) pairs -> Forall P (render_pairs pairs).
Proof.
  induction 1 as [|(w, g) pairs (Hw & Hg) _ IH]; [constructor|].
  unfold render_pairs. cbn [map List.concat fst snd]. apply Forall_app_intro; [apply Forall_app_intro; assumption | exact IH].
Qed.

Section WordsLine.
  Variables (lead : str) (pairs : list (str * str)).
  Hypothesis Hlead : hspace lead = true.
  Hypothesis Hwords : forallb (fun wg => word_ok (fst wg)) pairs = true.
  Hypothesis Hgaps : pair_gaps_ok pairs = true.
  Hypothesis Hne : pairs <> [].
  Hypothesis Htr : Forall transparent (map fst pairs).

  Lemma words_ne : map fst pairs <> [].
  Proof. destruct pairs; [contradiction | discriminate]. Qed.

  (** no comment on the line *)
  Lemma clean_words_plain : clean_line (lead ++ render_pairs pairs) = Ok (jwords pairs).
  Proof. apply (clean_joined_plain _ _ words_ne Htr). apply norm_plain; assumption. Qed.

  (** a comment, whatever it contains *)
  Lemma clean_words_comment cmt :
    last_gap_empty pairs = false ->
    clean_line (lead ++ render_pairs pairs ++ Str "#" ++ cmt) = Ok (jwords pairs).
  Proof.
    intros Hlast. destruct (norm_comment lead pairs Hlead Hwords Hgaps Hne cmt Hlast) as (Z & E).
    apply (clean_joined_comment _ _ Z words_ne Htr E).
  Qed.
End WordsLine.

(** a comment-only or blank line is skipped *)
Lemma hspace_norm_nil lead : hspace lead = true -> norm lead = [].
Proof.
  intros H. unfold norm. rewrite (sub_hspace lead H).
  destruct lead as [|c l]; [reflexivity|]. cbn [List.length].
  rewrite <- (app_nil_r (repeat ttl_blank (S (List.length l)))).
  rewrite (collapse_blank_run (List.length l) [] I). reflexivity.
Qed.

Lemma process_skip_line raw s r :
  clean_line raw = Ok r -> (r = [] \/ exists t, r = chr "#" :: t) -> process_line raw s = ([], Ok s).
Proof.
  intros E H. unfold process_line. rewrite E. destruct H as [-> | (t & ->)]; reflexivity.
Qed.

Lemma process_blank_line lead s : hspace lead = true -> process_line lead s = ([], Ok s).
Proof.
  intros H. apply (process_skip_line _ _ []); [|left; reflexivity].
  unfold clean_line. fold (norm lead). rewrite (hspace_norm_nil lead H). reflexivity.
Qed.

Lemma process_comment_line lead cmt s :
  hspace lead = true -> process_line (lead ++ Str "#" ++ cmt) s = ([], Ok s).
Proof.
  intros H. destruct (norm_comment_line lead cmt H) as (Z & E).
  destruct (clean_comment_line _ Z E) as (r & Er).
  apply (process_skip_line _ _ _ Er). right. eauto.
Qed.

(** ** tokens of the abstract syntax *)

Definition atok_wf (t : atok) : bool :=
  match t with ASubj s => subj_wf s | APred p => pred_wf p | AObj o => obj_wf o | _ => true end.

(** well formed, and no tab / double blank inside a lexical form *)
Definition tok_ok_line (t : atok) : bool :=
  atok_wf t &&
  match lex_of t with
  | Some lex => negb (contains [ascii_of_nat 9] lex || contains (Str "  ") lex)
  | None => true
  end.

Definition tok_start (c : ascii) : bool :=
  start_char c || Ascii.eqb c (chr "_") || int_char c || in_str c ",;." || Ascii.eqb c ttl_quote.

Lemma tok_start_facts c : tok_start c = true ->
  Ascii.eqb (chr "@") c = false /\ Ascii.eqb (chr "#") c = false.
Proof. destruct c as [[|] [|] [|] [|] [|] [|] [|] [|]]; vm_compute; intros; split; first [reflexivity | discriminate]. Qed.

Lemma start_char_tok c : start_char c = true -> tok_start c = true.
Proof. unfold tok_start. intros ->. reflexivity. Qed.

Lemma tok_first t : atok_wf t = true -> first_ok tok_start (render_tok t) = true /\ render_tok t <> [].
Proof.
  destruct t as [[r|l]|[|r]|[r|l|lex sfx|d]| | |]; cbn [atok_wf subj_wf pred_wf obj_wf render_tok render_subj render_pred render_obj];
    intros H; try (split; [reflexivity | discriminate]).
  - split; [apply (first_ok_impl start_char _ _ start_char_tok), ref_first, H | apply ref_nonempty].
  - split; [apply (first_ok_impl start_char _ _ start_char_tok), ref_first, H | apply ref_nonempty].
  - split; [apply (first_ok_impl start_char _ _ start_char_tok), ref_first, H | apply ref_nonempty].
  - fold (render_obj (OLit lex sfx)). rewrite render_lit. split; [reflexivity | discriminate].
  - destruct (int_chars d H) as (Hall & c & t & ->). split; [|discriminate].
    cbn [forallb] in Hall. apply andb_true_iff in Hall. destruct Hall as (Hc & _).
    cbn [first_ok]. unfold tok_start. rewrite Hc, !orb_true_r. reflexivity.
Qed.

(** non-literal tokens are solid *)
Lemma nonlit_solid t : atok_wf t = true -> lex_of t = None -> solid_tok (render_tok t).
Proof.
  destruct t as [[r|l]|[|r]|[r|l|lex sfx|d]| | |]; cbn [atok_wf subj_wf pred_wf obj_wf lex_of render_tok render_subj render_pred render_obj];
    intros H Hl; try discriminate Hl.
  - apply ref_solid_tok, H.
  - apply bnode_solid_tok, H.
  - apply a_solid_tok.
  - apply ref_solid_tok, H.
  - apply ref_solid_tok, H.
  - apply bnode_solid_tok, H.
  - apply int_solid_tok, H.
  - apply (punct_solid_tok (chr ",")). reflexivity.
  - apply (punct_solid_tok (chr ";")). reflexivity.
  - apply (punct_solid_tok (chr ".")). reflexivity.
Qed.

Lemma tok_line_facts t : tok_ok_line t = true ->
  word_ok (render_tok t) = true /\ tshape (render_tok t) /\ transparent (render_tok t).
Proof.
  unfold tok_ok_line. intros H. apply andb_true_iff in H. destruct H as (Hwf & Hws).
  destruct (lex_of t) as [lex|] eqn:El.
  - destruct t as [| |[r|l|lex' sfx|d]| | |]; cbn [lex_of] in El; try discriminate El. inversion El; subst lex'.
    apply negb_true_iff, orb_false_iff in Hws. destruct Hws as (Htab & Hbb).
    cbn [atok_wf] in Hwf. destruct (lit_tok_facts lex sfx Hwf Htab Hbb) as (A & B & _).
    cbn [render_tok]. split; [exact A|]. split; [exact B | apply lit_transparent; exact Hwf].
  - pose proof (nonlit_solid t Hwf El) as Hst. destruct Hst as (Hs & Hne & Hf & Hsh).
    split; [apply solid_word_ok; assumption|]. split; [exact Hsh | apply solid3_transparent; assumption].
Qed.

(** ** a statement line *)

Definition pairs_of (toks : list (atok * str)) : list (str * str) :=
  map (fun tg => (render_tok (fst tg), snd tg)) toks.

Lemma render_toks_pairs toks :
  List.concat (map (fun tg : atok * str => render_tok (fst tg) ++ snd tg) toks) = render_pairs (pairs_of toks).
Proof. unfold render_pairs, pairs_of. rewrite map_map. reflexivity. Qed.

Lemma pairs_words toks : map fst (pairs_of toks) = map render_tok (map fst toks).
Proof. unfold pairs_of. rewrite !map_map. reflexivity. Qed.

Lemma pairs_gaps toks : map snd (pairs_of toks) = map snd toks.
Proof. unfold pairs_of. rewrite map_map. reflexivity. Qed.

(** the spec's [gaps_ok] on the gaps, as the conditions the cleaning lemmas use *)
Lemma gaps_ok_pairs : forall (pairs : list (str * str)) cmt,
  gaps_ok (map snd pairs) cmt = true ->
  pair_gaps_ok pairs = true /\ (cmt = true -> pairs <> [] -> last_gap_empty pairs = false).
Proof.
  induction pairs as [|(w, g) pairs IH]; intros cmt H; [split; [reflexivity | intros _ Hne; contradiction]|].
  destruct pairs as [|(w2, g2) pairs'].
  - cbn [map snd gaps_ok] in H. cbn [pair_gaps_ok]. split.
    + destruct cmt; [unfold hspace1 in H; apply andb_true_iff in H; apply H | exact H].
    + intros -> _. unfold last_gap_empty. cbn [rev app]. unfold hspace1 in H. apply andb_true_iff in H. destruct H as (_ & H).
      destruct g; [discriminate H | reflexivity].
  - change (gaps_ok (map snd ((w, g) :: (w2, g2) :: pairs')) cmt) with (hspace1 g && gaps_ok (map snd ((w2, g2) :: pairs')) cmt) in H.
    apply andb_true_iff in H. destruct H as (Hg & Hrest). destruct (IH cmt Hrest) as (A & B).
    split; [cbn [pair_gaps_ok]; rewrite Hg; exact A|].
    intros Hc _. specialize (B Hc ltac:(discriminate)). unfold last_gap_empty in *. cbn [rev] in *.
    destruct (rev pairs' ++ [(w2, g2)]) eqn:E; [destruct (rev pairs'); discriminate|]. exact B.
Qed.

Lemma quote_free_of t : contains (Str """") t = false -> quote_free t.
Proof. apply contains_single_false. Qed.

Lemma gaps_hspace : forall gs cmt, gaps_ok gs cmt = true -> Forall (fun g => hspace g = true) gs.
Proof.
  induction gs as [|g gs IH]; intros cmt H; [constructor|].
  destruct gs as [|g2 gs'].
  - cbn [gaps_ok] in H. constructor; [|constructor]. destruct cmt; [unfold hspace1 in H; apply andb_true_iff in H; apply H | exact H].
  - change (gaps_ok (g :: g2 :: gs') cmt) with (hspace1 g && gaps_ok (g2 :: gs') cmt) in H.
    apply andb_true_iff in H. destruct H as (Hg & Hr). constructor; [unfold hspace1 in Hg; apply andb_true_iff in Hg; apply Hg | apply (IH cmt Hr)].
Qed.

Lemma dispatch_tokens J s c0 r :
  J = c0 :: r -> tok_start c0 = true -> 
  (if prefixb ttl_prefix_kw J then ([], process_prefix_line J s)
   else if prefixb ttl_base_kw J then ([], process_base_line J s)
   else if prefixb ttl_comment_start J then ([], Ok s)
   else process_tokens_line J s) = process_tokens_line J s.
Proof.
  intros -> Hc. destruct (tok_start_facts c0 Hc) as (H1 & H2).
  change ttl_prefix_kw with (chr "@" :: Str "prefix"). change ttl_base_kw with (chr "@" :: Str "base").
  change ttl_comment_start with [chr "#"]. cbn [prefixb]. rewrite H1, H2. reflexivity.
Qed.

Lemma process_token_line lead toks cmt s :
  toks <> [] -> line_wf (LToks lead toks cmt) = true -> forallb tok_ok_line (map fst toks) = true ->
  process_line (render_line (LToks lead toks cmt)) s =
  machine (map (fun t => vtok (base s) (render_tok t)) (map fst toks)) s.
Proof.
  intros Hne Hwf Htok.
  cbn [line_wf] in Hwf. rewrite !andb_true_iff in Hwf. destruct Hwf as ((Hlead & Hgaps) & Hcmt).
  set (pairs := pairs_of toks).
  assert (Hpne : pairs <> []) by (unfold pairs, pairs_of; destruct toks; [contradiction | discriminate]).
  rewrite <- (pairs_gaps toks) in Hgaps. fold pairs in Hgaps.
  destruct (gaps_ok_pairs pairs (is_some cmt) Hgaps) as (Hpg & Hlast).
  assert (Hfacts : Forall (fun t => word_ok (render_tok t) = true /\ tshape (render_tok t) /\ transparent (render_tok t))
                          (map fst toks)).
  { apply Forall_forall. intros t Hin. apply tok_line_facts. rewrite forallb_forall in Htok. auto. }
  assert (Hwords : forallb (fun wg => word_ok (fst wg)) pairs = true).
  { unfold pairs, pairs_of. rewrite forallb_forall. intros wg Hin. apply in_map_iff in Hin. destruct Hin as (tg & <- & Hin).
    cbn [fst]. rewrite Forall_forall in Hfacts. apply (Hfacts (fst tg)). apply in_map. exact Hin. }
  assert (Hshape : Forall tshape (map fst pairs)).
  { unfold pairs; rewrite (pairs_words toks). apply Forall_forall. intros w Hin. apply in_map_iff in Hin. destruct Hin as (t & <- & Hin).
    rewrite Forall_forall in Hfacts. apply (Hfacts t Hin). }
  assert (Htr : Forall transparent (map fst pairs)).
  { unfold pairs; rewrite (pairs_words toks). apply Forall_forall. intros w Hin. apply in_map_iff in Hin. destruct Hin as (t & <- & Hin).
    rewrite Forall_forall in Hfacts. apply (Hfacts t Hin). }
  (* the cleaned line *)
  assert (Hclean : clean_line (render_line (LToks lead toks cmt)) = Ok (jwords pairs)).
  { cbn [render_line]. rewrite render_toks_pairs. fold pairs.
    destruct cmt as [c|]; cbn [render_cmt].
    - apply clean_words_comment; auto.
    - rewrite app_nil_r. apply clean_words_plain; auto. }
  (* dispatch *)
  unfold process_line. rewrite Hclean.
  assert (HJ : exists c0 r, jwords pairs = c0 :: r /\ tok_start c0 = true).
  { unfold jwords. unfold pairs; rewrite (pairs_words toks). destruct toks as [|(t0, g0) toks']; [contradiction|].
    cbn [map fst]. rewrite joined_cons. cbn [forallb map fst] in Htok. apply andb_true_iff in Htok. destruct Htok as (Ht0 & _).
    unfold tok_ok_line in Ht0. apply andb_true_iff in Ht0. destruct Ht0 as (Hw0 & _).
    destruct (tok_first t0 Hw0) as (Hf & Hn). destruct (render_tok t0) as [|c0 r0]; [contradiction|].
    exists c0, (r0 ++ rest_of (map render_tok (map fst toks'))). split; [reflexivity | exact Hf]. }
  destruct HJ as (c0 & r & EJ & Hc0). rewrite EJ at 1. rewrite (dispatch_tokens _ s c0 r EJ Hc0).
  unfold jwords. rewrite (tokens_line_machine _ s Hshape). unfold pairs. rewrite (pairs_words toks), map_map. reflexivity.
Qed.

(** ** directive lines *)

Definition nb_word (w : str) : Prop := Forall (fun c => Ascii.eqb ttl_blank c = false) w.

Lemma split_fuel_word_end : forall w acc fuel,
  nb_word w -> (List.length w < fuel)%nat -> split_fuel fuel [ttl_blank] w acc = [rev acc ++ w].
Proof.
  induction w as [|c w IH]; intros acc fuel Hw Hf; (destruct fuel as [|f]; [cbn in Hf; lia|]); cbn [split_fuel].
  - rewrite app_nil_r. reflexivity.
  - inversion Hw as [|? ? Hc Hw']; subst. cbn [prefixb]. rewrite Hc. cbn [andb].
    rewrite IH; [|exact Hw' | cbn [List.length] in Hf; lia]. cbn [rev]. rewrite <- app_assoc. reflexivity.
Qed.

Lemma split_fuel_words : forall ws w acc fuel,
  nb_word w -> Forall nb_word ws -> (List.length (w ++ rest_of ws) < fuel)%nat ->
  split_fuel fuel [ttl_blank] (w ++ rest_of ws) acc = (rev acc ++ w) :: ws.
Proof.
  induction ws as [|w2 ws IH]; intros w acc fuel Hw Hws Hf.
  - cbn [rest_of] in *. rewrite app_nil_r in *. apply split_fuel_word_end; assumption.
  - inversion Hws as [|? ? Hw2 Hws']; subst.
    revert acc fuel Hf. induction w as [|c w IHw]; intros acc fuel Hf; (destruct fuel as [|f]; [cbn in Hf; lia|]).
    + cbn [app rest_of]. cbn [split_fuel prefixb]. rewrite Ascii.eqb_refl. cbn [andb List.length skipn].
      rewrite app_nil_r. f_equal. rewrite joined_cons.
      rewrite (IH w2 [] f Hw2 Hws'); [reflexivity|].
      cbn [app rest_of List.length] in Hf. rewrite joined_cons in Hf. lia.
    + inversion Hw as [|? ? Hc Hw']; subst. cbn [app]. cbn [split_fuel prefixb]. rewrite Hc. cbn [andb].
      rewrite (IHw Hw' (c :: acc) f); [|cbn [app List.length] in Hf; lia]. cbn [rev]. rewrite <- app_assoc. reflexivity.
Qed.

Lemma split_joined w ws : nb_word w -> Forall nb_word ws -> split s_blank (joined (w :: ws)) = w :: ws.
Proof.
  intros Hw Hws. unfold split. change s_blank with [ttl_blank]. rewrite joined_cons.
  rewrite (split_fuel_words ws w [] _ Hw Hws); [reflexivity | lia].
Qed.

Lemma solid_nb w : all_solid w = true -> nb_word w.
Proof.
  intros H. apply Forall_forall. intros c Hin. unfold all_solid in H. rewrite forallb_forall in H.
  pose proof (solid_not_blank c (H c Hin)) as Hb. unfold chr_eqb in Hb. rewrite Ascii.eqb_sym. exact Hb.
Qed.

Lemma zip_gaps_combine : forall ws gaps, List.length gaps = List.length ws ->
  zip_gaps ws gaps = render_pairs (combine ws gaps).
Proof.
  induction ws as [|w ws IH]; intros gaps H; [reflexivity|].
  destruct gaps as [|g gaps]; [discriminate H|]. cbn [zip_gaps combine]. unfold render_pairs. cbn [map List.concat fst snd].
  fold (render_pairs (combine ws gaps)). rewrite <- app_assoc, IH by (cbn in H; lia). reflexivity.
Qed.

Lemma combine_fst {A B} : forall (a : list A) (b : list B), List.length b = List.length a -> map fst (combine a b) = a.
Proof.
  induction a as [|x a IH]; intros b H; [reflexivity|]. destruct b as [|y b]; [discriminate H|].
  cbn [combine map fst]. rewrite IH by (cbn in H; lia). reflexivity.
Qed.

Lemma combine_snd {A B} : forall (a : list A) (b : list B), List.length b = List.length a -> map snd (combine a b) = b.
Proof.
  induction a as [|x a IH]; intros b H; [destruct b; [reflexivity | discriminate H]|]. destruct b as [|y b]; [discriminate H|].
  cbn [combine map snd]. rewrite IH by (cbn in H; lia). reflexivity.
Qed.

Lemma slice_to_minus1 (a : str) x : slice_to (a ++ [x]) (-1) = a.
Proof.
  unfold slice_to, norm_idx. change (-1 <? 0) with true. cbv iota. rewrite len_app. change (len [x]) with 1.
  pose proof (len_nonneg a). rewrite Z.max_r by lia. replace (len a + 1 + -1) with (len a) by lia.
  unfold len. rewrite Nat2Z.id, firstn_app, firstn_all, Nat.sub_diag. cbn. apply app_nil_r.
Qed.

Definition pfx_char (c : ascii) : bool := name_char c || in_str c "-".

Lemma pfx_char_solid c : pfx_char c = true -> solid c = true.
Proof. char_cases c. Qed.

Lemma dir_words_facts d :
  dir_wf d = true ->
  Forall (fun w => all_solid w = true /\ w <> [] /\ nohash_first w = true) (directive_words d).
Proof.
  destruct d as [p r|r]; cbn [dir_wf directive_words]; rewrite ?andb_true_iff.
  - intros ((Hp & Hr) & _). cbn [ref_wf] in Hp. rewrite !andb_true_iff in Hp. destruct Hp as ((((Hp1 & Hp2) & _) & _) & _).
    destruct (ref_solid_tok r Hr) as (A & B & C & _).
    repeat constructor; try discriminate; try assumption; try reflexivity.
    + apply all_solid_app; [|reflexivity]. apply (forallb_solid _ _ pfx_char_solid Hp1).
    + destruct p; discriminate.
    + destruct p as [|c p']; [reflexivity|]. cbn [first_ok] in Hp2. cbn [app nohash_first first_ok].
      revert Hp2. clear. char_cases c.
  - intros (Hr & _). destruct (ref_solid_tok r Hr) as (A & B & C & _).
    repeat constructor; try discriminate; try assumption; try reflexivity.
Qed.

Lemma env_match_prefix e s p i :
  env_match e s -> colon_free p ->
  env_match (Env ((p, i) :: e_prefixes e) (e_base e))
            (St (dset (prefixes s) p i) (base s) (state s) (tmp_s s) (tmp_p s) (tmp_o s)).
Proof.
  intros (A & B & C) Hp. repeat split; cbn [base prefixes e_base e_prefixes].
  - exact A.
  - intros k. rewrite dget_dset. cbn [lookup]. destruct (str_eqb k p); [reflexivity | apply B].
  - apply Forall_forall. intros k Hin. destruct (dkeys_dset _ _ _ _ Hin) as [-> | Hin']; [exact Hp|].
    rewrite Forall_forall in C. auto.
Qed.

Lemma process_dir_line lead d gaps cmt e s :
  line_wf (LDir lead d gaps cmt) = true -> dir_wf d = true -> rc_dir d = [] -> env_match e s ->
  exists e' s', sem_dir e d = Some e' /\
                process_line (render_line (LDir lead d gaps cmt)) s = ([], Ok s') /\
                env_match e' s' /\ state s' = state s.
Proof.
  intros Hwf Hd Hrc Hm.
  cbn [line_wf] in Hwf. rewrite !andb_true_iff in Hwf. destruct Hwf as (((Hlead & Hlen) & Hgaps) & _).
  apply Nat.eqb_eq in Hlen.
  set (words := directive_words d) in *. set (pairs := combine words gaps).
  pose proof (dir_words_facts d Hd) as Hfacts. fold words in Hfacts.
  assert (Hpw : map fst pairs = words) by (apply combine_fst; exact Hlen).
  assert (Hpg : map snd pairs = gaps) by (apply combine_snd; exact Hlen).
  assert (Hpne : pairs <> []).
  { intros E. assert (H0 : map fst pairs = []) by (rewrite E; reflexivity). rewrite Hpw in H0. unfold words in H0. destruct d; discriminate H0. }
  rewrite <- Hpg in Hgaps. destruct (gaps_ok_pairs pairs (is_some cmt) Hgaps) as (Hpgo & Hlast).
  assert (Hwords : forallb (fun wg => word_ok (fst wg)) pairs = true).
  { rewrite forallb_forall. intros wg Hin. rewrite Forall_forall in Hfacts.
    destruct (Hfacts (fst wg)) as (A & B & _); [rewrite <- Hpw; apply in_map; exact Hin|]. apply solid_word_ok; assumption. }
  assert (Hnh : Forall transparent (map fst pairs)).
  { rewrite Hpw. eapply Forall_impl; [|exact Hfacts]. intros w (A & B & C). apply solid3_transparent; assumption. }
  assert (Hclean : clean_line (render_line (LDir lead d gaps cmt)) = Ok (joined words)).
  { cbn [render_line]. fold words. rewrite (zip_gaps_combine words gaps Hlen). fold pairs. rewrite <- Hpw. fold (jwords pairs).
    destruct cmt as [c|]; cbn [render_cmt].
    - apply clean_words_comment; auto.
    - rewrite app_nil_r. apply clean_words_plain; auto. }
  assert (Hnb : Forall nb_word words).
  { eapply Forall_impl; [|exact Hfacts]. intros w (A & _). apply solid_nb; exact A. }
  unfold process_line. rewrite Hclean. clear Hclean Hwords Hnh Hpgo Hlast Hpne Hpw Hpg Hgaps. subst pairs. subst words.
  destruct d as [p r|r]; cbn [rc_dir] in Hrc; (destruct r as [i|x|p' l]; try discriminate Hrc); cbn [directive_words] in *.
  - (* @prefix *)
    pose proof (Forall_inv Hnb) as H1. pose proof (Forall_inv_tail Hnb) as Hnb'.
    rewrite joined_cons. change (Str "@prefix" ++ ?r) with (chr "@" :: Str "prefix" ++ r).
    change (prefixb ttl_prefix_kw (chr "@" :: Str "prefix" ++ rest_of [p ++ Str ":"; render_ref (IAbs i); Str "."])) with true. cbv iota.
    change (chr "@" :: Str "prefix" ++ ?r) with (Str "@prefix" ++ r). rewrite <- joined_cons.
    unfold process_prefix_line. rewrite (split_joined _ _ H1 Hnb'). cbn [nth_error].
    change ttl_prefix_sep with [chr ":"]. change (Str ":") with [chr ":"]. rewrite (suffixb_snoc p (chr ":")), slice_to_minus1.
    cbn [render_ref]. change (Str "<" ++ i ++ Str ">") with (s_lt ++ i ++ s_gt). rewrite remove_corners_ok. cbn [bind].
    eexists _, _. split; [reflexivity|]. split; [reflexivity|]. split; [|reflexivity].
    apply env_match_prefix; [exact Hm|].
    cbn [dir_wf] in Hd. rewrite !andb_true_iff in Hd. destruct Hd as ((Hp & _) & _).
    cbn [ref_wf] in Hp. rewrite !andb_true_iff in Hp. destruct Hp as ((((Hp1 & _) & _) & _) & _).
    apply (forallb_colon_free _ _ Hp1). reflexivity.
  - (* @base *)
    pose proof (Forall_inv Hnb) as H1. pose proof (Forall_inv_tail Hnb) as Hnb'.
    rewrite joined_cons. change (Str "@base" ++ ?r) with (chr "@" :: chr "b" :: Str "ase" ++ r).
    change (prefixb ttl_prefix_kw (chr "@" :: chr "b" :: Str "ase" ++ rest_of [render_ref (IAbs i); Str "."])) with false. cbv iota.
    change (prefixb ttl_base_kw (chr "@" :: chr "b" :: Str "ase" ++ rest_of [render_ref (IAbs i); Str "."])) with true. cbv iota.
    change (chr "@" :: chr "b" :: Str "ase" ++ ?r) with (Str "@base" ++ r). rewrite <- joined_cons.
    unfold process_base_line. rewrite (split_joined _ _ H1 Hnb'). cbn [nth_error].
    cbn [render_ref]. change (Str "<" ++ i ++ Str ">") with (s_lt ++ i ++ s_gt). rewrite remove_corners_ok. cbn [bind].
    eexists _, _. split; [reflexivity|]. split; [reflexivity|]. split; [|reflexivity].
    destruct Hm as (A & B & C). repeat split; assumption.
Qed.

(** ** a run of statement lines *)

Definition line_toks (l : line) : list atok :=
  match l with LToks _ toks _ => map fst toks | LDir _ _ _ _ => [] end.

Definition is_toks_line (l : line) : bool := match l with LToks _ _ _ => true | LDir _ _ _ _ => false end.

Lemma machine_base : forall toks s ts s', machine toks s = (ts, Ok s') -> base s' = base s.
Proof.
  induction toks as [|t toks IH]; intros s ts s' H; cbn [machine] in H.
  - inversion H; reflexivity.
  - destruct (step s t) as [ts1 [s1|e]] eqn:Es; [|discriminate].
    destruct (machine toks s1) as [ts2 r] eqn:Em. inversion H; subst.
    rewrite (IH s1 ts2 s' Em). apply (step_base _ _ _ _ Es).
Qed.

Definition line_ok (l : line) : bool :=
  line_wf l && forallb tok_ok_line (line_toks l).

Lemma process_toks_line_any lead toks cmt s :
  line_ok (LToks lead toks cmt) = true ->
  process_line (render_line (LToks lead toks cmt)) s =
  machine (map (fun t => vtok (base s) (render_tok t)) (map fst toks)) s.
Proof.
  unfold line_ok. rewrite !andb_true_iff. intros (Hwf & Htok). cbn [line_toks] in Htok.
  destruct toks as [|tg toks'].
  - cbn [map machine render_line List.concat app]. cbn [line_wf] in Hwf. rewrite !andb_true_iff in Hwf.
    destruct Hwf as ((Hlead & _) & _). destruct cmt as [c|]; cbn [render_cmt].
    + apply process_comment_line. exact Hlead.
    + rewrite app_nil_r. apply process_blank_line. exact Hlead.
  - apply process_token_line; [discriminate | assumption | assumption].
Qed.

Lemma process_token_lines b : forall ls s,
  base s = b -> forallb is_toks_line ls = true -> forallb line_ok ls = true ->
  process_lines (map render_line ls) s =
  machine_lines (map (fun l => map (fun t => vtok b (render_tok t)) (line_toks l)) ls) s.
Proof.
  induction ls as [|l ls IH]; intros s Hb Hk Hok; [reflexivity|].
  cbn [forallb] in Hk, Hok. apply andb_true_iff in Hk. destruct Hk as (Hk1 & Hk). apply andb_true_iff in Hok. destruct Hok as (Hok1 & Hok).
  destruct l as [lead toks cmt|]; [|discriminate Hk1].
  cbn [map process_lines machine_lines line_toks].
  rewrite (process_toks_line_any lead toks cmt s Hok1), Hb.
  destruct (machine (map (fun t => vtok b (render_tok t)) (map fst toks)) s) as [ts [s'|e]] eqn:Em; [|reflexivity].
  rewrite (IH s' (eq_trans (machine_base _ _ _ _ Em) Hb) Hk Hok). reflexivity.
Qed.

Lemma tok_str_vtok s0 t : tok_str s0 t = vtok (base s0) (render_tok t).
Proof. destruct t; reflexivity. Qed.

(** ** what the groups of a document contribute *)

Lemma rc_free_nil l : rc_free l = true -> l = [].
Proof. destruct l; [reflexivity | discriminate]. Qed.

Lemma rc_free_app a b : rc_free (a ++ b) = true -> rc_free a = true /\ rc_free b = true.
Proof. destruct a; [auto | discriminate]. Qed.

Lemma rc_free_flat_map {A} (f : A -> list rc) l : rc_free (flat_map f l) = true -> forall x, In x l -> rc_free (f x) = true.
Proof.
  induction l as [|a l IH]; intros H x Hin; [contradiction|]. cbn [flat_map] in H.
  apply rc_free_app in H. destruct H as (H1 & H2). destruct Hin as [<-|Hin]; [exact H1 | apply IH; assumption].
Qed.

Lemma rc_obj_ws e o : rc_free (rc_obj e o) = true ->
  match lex_of (AObj o) with Some lex => negb (contains [ascii_of_nat 9] lex || contains (Str "  ") lex) = true | None => True end.
Proof.
  destruct o as [r|l|lex sfx|d]; cbn [lex_of]; try (intros; exact I).
  cbn [rc_obj]. unfold rc_lit. intros H.
  destruct (contains [ascii_of_nat 9] lex || contains (Str "  ") lex); [cbn in H; discriminate | reflexivity].
Qed.

Lemma in_sep_concat {A} (sep : list A) : forall (l : list (list A)) x,
  In x (sep_concat sep l) -> In x sep \/ exists y, In y l /\ In x y.
Proof.
  induction l as [|a l IH]; intros x H; [contradiction|].
  destruct l as [|b l'].
  - right. exists a. split; [left; reflexivity | exact H].
  - change (sep_concat sep (a :: b :: l')) with (a ++ sep ++ sep_concat sep (b :: l')) in H.
    apply in_app_or in H. destruct H as [H|H]; [right; exists a; split; [left; reflexivity | exact H]|].
    apply in_app_or in H. destruct H as [H|H]; [left; exact H|].
    destruct (IH x H) as [H1 | (y & Hy & Hx)]; [left; exact H1 | right; exists y; split; [right; exact Hy | exact Hx]].
Qed.

Lemma group_facts e g :
  group_wf g = true -> rc_free (rc_group e g) = true ->
  group_dom e g = true /\ Forall (fun t => tok_ok_line t = true) (group_tokens g).
Proof.
  unfold group_wf, rc_group. rewrite !andb_true_iff. intros ((Hs & Hne) & Hpos) Hrc.
  apply rc_free_app in Hrc. destruct Hrc as (Hrs & Hrpos).
  pose proof (rc_free_flat_map _ _ Hrpos) as Hrpo.
  assert (Hpo : forall po, In po (g_pos g) ->
            pred_wf (fst po) = true /\ negb (Nat.eqb (List.length (snd po)) 0) = true /\
            rc_free (rc_pred e (fst po)) = true /\
            forall o, In o (snd po) -> obj_wf o = true /\ rc_free (rc_obj e o) = true).
  { intros po Hin. rewrite forallb_forall in Hpos. specialize (Hpos po Hin). rewrite !andb_true_iff in Hpos.
    destruct Hpos as ((A & B) & C). specialize (Hrpo po Hin). apply rc_free_app in Hrpo. destruct Hrpo as (D & F).
    repeat split; try assumption.
    - rewrite forallb_forall in C. auto.
    - apply (rc_free_flat_map _ _ F). assumption. }
  split.
  - unfold group_dom, group_ok. rewrite !andb_true_iff. repeat split.
    + unfold okS. rewrite Hs. exact Hrs.
    + exact Hne.
    + rewrite forallb_forall. intros po Hin. destruct (Hpo po Hin) as (A & B & C & D). rewrite !andb_true_iff. repeat split.
      * unfold okP. rewrite A. exact C.
      * exact B.
      * rewrite forallb_forall. intros o Ho. destruct (D o Ho) as (F & G). unfold okO. rewrite F. exact G.
  - apply Forall_forall. intros t Hin. unfold group_tokens in Hin.
    destruct Hin as [<-|Hin]; [unfold tok_ok_line; cbn [atok_wf lex_of]; rewrite Hs; reflexivity|].
    apply in_app_or in Hin. destruct Hin as [Hin|[<-|[]]]; [|reflexivity].
    apply in_sep_concat in Hin. destruct Hin as [[<-|[]] | (y & Hy & Hx)]; [reflexivity|].
    apply in_map_iff in Hy. destruct Hy as (po & <- & Hpoin). destruct (Hpo po Hpoin) as (A & B & C & D).
    unfold po_tokens in Hx. destruct Hx as [<-|Hx]; [unfold tok_ok_line; cbn [atok_wf lex_of]; rewrite A; reflexivity|].
    apply in_sep_concat in Hx. destruct Hx as [[<-|[]] | (z & Hz & Hx)]; [reflexivity|].
    apply in_map_iff in Hz. destruct Hz as (o & <- & Hoin). destruct Hx as [<-|[]].
    destruct (D o Hoin) as (F & G). unfold tok_ok_line. cbn [atok_wf]. rewrite F. cbn [andb].
    pose proof (rc_obj_ws e o G) as Hws. destruct (lex_of (AObj o)); [exact Hws | reflexivity].
Qed.

(** ** documents: a prologue of directives, then statement groups *)

Lemma sem_from_groups e gs :
  sem_from e (map IGrp gs) = option_map (@List.concat triple) (seq_opt (map (sem_group e) gs)).
Proof.
  induction gs as [|g gs IH]; [reflexivity|]. cbn [map sem_from seq_opt]. rewrite IH.
  destruct (sem_group e g) as [ts|]; [|reflexivity].
  destruct (seq_opt (map (sem_group e) gs)) as [tss|]; reflexivity.
Qed.

Lemma stream_toks : forall ls, forallb is_toks_line ls = true ->
  flat_map line_stream ls = map inr (List.concat (map line_toks ls)).
Proof.
  induction ls as [|l ls IH]; intros H; [reflexivity|]. cbn [forallb] in H. apply andb_true_iff in H. destruct H as (H1 & H2).
  destruct l as [lead toks cmt|]; [|discriminate H1].
  cbn [flat_map line_stream map line_toks List.concat]. rewrite (IH H2), map_app, map_map. reflexivity.
Qed.

Lemma map_inr_inj {A B} (a b : list B) : map (@inr A B) a = map inr b -> a = b.
Proof.
  revert b. induction a as [|x a IH]; intros [|y b] H; try discriminate; [reflexivity|].
  cbn [map] in H. injection H as -> H. f_equal. apply IH. exact H.
Qed.

Lemma stream_no_dir : forall ls (T : list atok),
  flat_map line_stream ls = map (@inr directive atok) T -> forallb is_toks_line ls = true.
Proof.
  induction ls as [|l ls IH]; intros T H; [reflexivity|].
  destruct l as [lead toks cmt|lead d gaps cmt].
  - cbn [forallb is_toks_line andb]. cbn [flat_map line_stream] in H.
    assert (E : exists T2, flat_map line_stream ls = map inr T2).
    { clear IH. revert T H. induction toks as [|tg toks IHt]; intros T H; [eauto|].
      destruct T as [|t T]; [discriminate H|]. cbn [map app] in H. injection H as _ H. apply (IHt T H). }
    destruct E as (T2 & E). apply (IH T2 E).
  - cbn [flat_map line_stream app] in H. destruct T; discriminate H.
Qed.

Definition line_ok0 (l : line) : bool := line_wf l.

Lemma Forall_concat_lines (P : atok -> bool) : forall ls,
  Forall (fun t => P t = true) (List.concat (map line_toks ls)) ->
  forall l, In l ls -> forallb P (line_toks l) = true.
Proof.
  induction ls as [|l0 ls IH]; intros H l Hin; [contradiction|].
  cbn [map List.concat] in H. apply Forall_app in H. destruct H as (H1 & H2).
  destruct Hin as [<-|Hin]; [|apply IH; assumption].
  rewrite forallb_forall. rewrite Forall_forall in H1. exact H1.
Qed.

Lemma run_groups e s gs ls ts :
  env_match e s -> state s = WS -> forallb line_ok0 ls = true ->
  flat_map line_stream ls = map inr (flat_map group_tokens gs) ->
  forallb group_wf gs = true -> rc_free (flat_map (rc_group e) gs) = true ->
  sem_from e (map IGrp gs) = Some ts ->
  exists s' ts', process_lines (map render_line ls) s = (ts', Ok s') /\
                 map erase_lex ts' = map erase_lex ts /\ env_match e s' /\ state s' = WS.
Proof.
  intros Hm Hst Hok0 Hstream Hgwf Hrc Hsem.
  pose proof (stream_no_dir ls _ Hstream) as Hk.
  rewrite (stream_toks ls Hk) in Hstream. apply map_inr_inj in Hstream.
  rewrite sem_from_groups in Hsem. destruct (seq_opt (map (sem_group e) gs)) as [tss|] eqn:Eseq; [|discriminate].
  cbn [option_map] in Hsem. inversion Hsem; subst ts.
  assert (Hfacts : forall g, In g gs -> group_dom e g = true /\ Forall (fun t => tok_ok_line t = true) (group_tokens g)).
  { intros g Hin. apply group_facts; [rewrite forallb_forall in Hgwf; auto | apply (rc_free_flat_map _ _ Hrc g Hin)]. }
  assert (Hdom : forallb (group_dom e) gs = true) by (rewrite forallb_forall; intros g Hin; apply (Hfacts g Hin)).
  assert (Htoks : Forall (fun t => tok_ok_line t = true) (List.concat (map line_toks ls))).
  { rewrite Hstream. apply Forall_forall. intros t Hin. apply in_flat_map in Hin. destruct Hin as (g & Hg & Ht).
    destruct (Hfacts g Hg) as (_ & HF). rewrite Forall_forall in HF. auto. }
  assert (Hok : forallb line_ok ls = true).
  { rewrite forallb_forall. intros l Hin. unfold line_ok. rewrite forallb_forall in Hok0. specialize (Hok0 l Hin).
    unfold line_ok0 in Hok0. rewrite Hok0. cbn [andb]. apply (Forall_concat_lines tok_ok_line ls Htoks l Hin). }
  rewrite (process_token_lines (base s) ls s eq_refl Hk Hok).
  destruct (groups_any_split e s gs (map line_toks ls) tss s Hm (same_env_refl s) Hst Hdom Eseq Hstream)
    as (s' & ts' & Hrun & Her & Henv & Hs').
  exists s', ts'. split; [|split; [exact Her | split; [apply (env_match_same e s s' Hm Henv) | exact Hs']]].
  rewrite <- Hrun. f_equal. rewrite map_map. apply map_ext. intros l. apply map_ext. intros t. symmetry. apply tok_str_vtok.
Qed.

Lemma group_tokens_nonempty g : group_tokens g <> [].
Proof. discriminate. Qed.

(** ** from the text of the document to its lines *)

Section SplitChar.
  Variable c : ascii.
  Definition nbc (w : str) : Prop := Forall (fun d => Ascii.eqb c d = false) w.
  Definition restc (ws : list str) : str := match ws with [] => [] | _ => c :: sep_concat [c] ws end.

  Lemma sepc_cons w ws : sep_concat [c] (w :: ws) = w ++ restc ws.
  Proof. destruct ws; cbn; [rewrite app_nil_r|]; reflexivity. Qed.

  Lemma split_fuel_word_end_c : forall w acc fuel,
    nbc w -> (List.length w < fuel)%nat -> split_fuel fuel [c] w acc = [rev acc ++ w].
  Proof.
    induction w as [|d w IH]; intros acc fuel Hw Hf; (destruct fuel as [|f]; [cbn in Hf; lia|]); cbn [split_fuel].
    - rewrite app_nil_r. reflexivity.
    - inversion Hw as [|? ? Hc Hw']; subst. cbn [prefixb]. rewrite Hc. cbn [andb].
      rewrite IH; [|exact Hw' | cbn [List.length] in Hf; lia]. cbn [rev]. rewrite <- app_assoc. reflexivity.
  Qed.

  Lemma split_fuel_words_c : forall ws w acc fuel,
    nbc w -> Forall nbc ws -> (List.length (w ++ restc ws) < fuel)%nat ->
    split_fuel fuel [c] (w ++ restc ws) acc = (rev acc ++ w) :: ws.
  Proof.
    induction ws as [|w2 ws IH]; intros w acc fuel Hw Hws Hf.
    - cbn [restc] in *. rewrite app_nil_r in *. apply split_fuel_word_end_c; assumption.
    - inversion Hws as [|? ? Hw2 Hws']; subst.
      revert acc fuel Hf. induction w as [|d w IHw]; intros acc fuel Hf; (destruct fuel as [|f]; [cbn in Hf; lia|]).
      + cbn [app restc]. cbn [split_fuel prefixb]. rewrite Ascii.eqb_refl. cbn [andb List.length skipn].
        rewrite app_nil_r. f_equal. rewrite sepc_cons.
        rewrite (IH w2 [] f Hw2 Hws'); [reflexivity|].
        cbn [app restc List.length] in Hf. rewrite sepc_cons in Hf. lia.
      + inversion Hw as [|? ? Hc Hw']; subst. cbn [app]. cbn [split_fuel prefixb]. rewrite Hc. cbn [andb].
        rewrite (IHw Hw' (d :: acc) f); [|cbn [app List.length] in Hf; lia]. cbn [rev]. rewrite <- app_assoc. reflexivity.
  Qed.

  Lemma split_sepc w ws : nbc w -> Forall nbc ws -> split [c] (sep_concat [c] (w :: ws)) = w :: ws.
  Proof.
    intros Hw Hws. unfold split. rewrite sepc_cons.
    rewrite (split_fuel_words_c ws w [] _ Hw Hws); [reflexivity | lia].
  Qed.
End SplitChar.

Definition lf : ascii := ascii_of_nat 10.

(** lines of white space only are dropped by the line reader and would be skipped anyway *)
Lemma lstrip_nil s : lstrip s = [] -> Forall (fun c => is_space c = true) s.
Proof.
  induction s as [|c s IH]; intros H; [constructor|]. cbn [lstrip] in H.
  destruct (is_space c) eqn:E; [constructor; [exact E | apply IH; exact H] | discriminate H].
Qed.

Lemma strip_nil s : strip s = [] -> Forall (fun c => is_space c = true) s.
Proof.
  intros H. unfold strip in H. destruct (lstrip s) as [|c r] eqn:E; [apply lstrip_nil; exact E|].
  exfalso. assert (Hc : is_space c = false).
  { clear H. revert E. induction s as [|d s IH]; intros E; [discriminate E|]. cbn [lstrip] in E.
    destruct (is_space d) eqn:Ed; [apply IH; exact E | inversion E; subst; exact Ed]. }
  destruct (rstrip_keep [] c r Hc) as (Z & EZ). cbn [app] in EZ. rewrite EZ in H. discriminate H.
Qed.

Lemma all_space_strip s : Forall (fun c => is_space c = true) s -> strip s = [].
Proof.
  intros H. unfold strip. assert (E : lstrip s = []).
  { induction H as [|c s Hc Hs IH]; [reflexivity|]. cbn [lstrip]. rewrite Hc. exact IH. }
  rewrite E. reflexivity.
Qed.

Lemma blank_raw_line raw s : strip raw = [] -> process_line raw s = ([], Ok s).
Proof.
  intros H. apply strip_nil in H.
  assert (Hn : norm raw = []).
  { unfold norm. apply all_space_strip. apply collapse_Forall.
    apply Forall_forall. intros c Hin. unfold sub_other_blanks in Hin. apply in_map_iff in Hin.
    destruct Hin as (d & <- & Hd). rewrite Forall_forall in H. specialize (H d Hd).
    destruct (mem_chr d ttl_other_blanks); [reflexivity | exact H]. }
  apply (process_skip_line _ _ []); [|left; reflexivity].
  unfold clean_line. fold (norm raw). rewrite Hn. reflexivity.
Qed.

Definition keep_line (l : str) : bool := match strip l with [] => false | _ => true end.

Lemma process_lines_filter : forall L s,
  process_lines (filter keep_line L) s = process_lines L s.
Proof.
  induction L as [|l L IH]; intros s; [reflexivity|]. cbn [filter]. unfold keep_line at 1.
  destruct (strip l) eqn:E.
  - cbn [process_lines]. rewrite (blank_raw_line l s E). rewrite IH. destruct (process_lines L s); reflexivity.
  - cbn [process_lines]. destruct (process_line l s) as [ts [s'|e]]; [rewrite IH|]; reflexivity.
Qed.

(** no line feed inside a rendered line *)
Definition no_lf (w : str) : Prop := Forall (fun d => Ascii.eqb lf d = false) w.

Lemma solid_no_lf w : all_solid w = true -> no_lf w.
Proof.
  intros H. apply Forall_forall. intros c Hin. unfold all_solid in H. rewrite forallb_forall in H. specialize (H c Hin).
  revert H. clear. char_cases c.
Qed.

Lemma hspace_no_lf g : hspace g = true -> no_lf g.
Proof.
  unfold hspace. intros H. apply Forall_forall. intros c Hin. rewrite forallb_forall in H. specialize (H c Hin).
  revert H. clear. unfold is_hspace. char_cases c.
Qed.

Lemma no_newline_no_lf t : no_newline t = true -> no_lf t.
Proof.
  unfold no_newline. intros H. apply Forall_forall. intros c Hin. rewrite forallb_forall in H. specialize (H c Hin).
  apply negb_true_iff, orb_false_iff in H. destruct H as (H & _). unfold lf. rewrite Ascii.eqb_sym. exact H.
Qed.

Lemma tok_no_lf t : atok_wf t = true -> no_lf (render_tok t).
Proof.
  intros Hwf. destruct (lex_of t) as [lex|] eqn:El.
  - destruct t as [| |[r|l|lex' sfx|d]| | |]; cbn [lex_of] in El; try discriminate El. inversion El; subst lex'.
    cbn [atok_wf] in Hwf. cbn [render_tok]. rewrite render_lit.
    destruct (sfx_solid lex sfx Hwf) as (Hss & _).
    destruct (lex_wf_facts lex (lex_of_wf lex sfx Hwf)) as (_ & Hlfcr).
    constructor; [reflexivity|]. apply Forall_app_intro.
    + apply Forall_forall. intros c Hin. rewrite forallb_forall in Hlfcr. specialize (Hlfcr c Hin).
      unfold not_lfcr in Hlfcr. apply negb_true_iff, orb_false_iff in Hlfcr. destruct Hlfcr as (H & _).
      unfold lf. rewrite Ascii.eqb_sym. exact H.
    + constructor; [reflexivity | apply solid_no_lf; exact Hss].
  - destruct (nonlit_solid t Hwf El) as (Hs & _). apply solid_no_lf. exact Hs.
Qed.

Lemma render_cmt_no_lf cmt : match cmt with Some t => no_newline t = true | None => True end -> no_lf (render_cmt cmt).
Proof.
  destruct cmt as [t|]; intros H; cbn [render_cmt]; [|constructor].
  constructor; [reflexivity | apply no_newline_no_lf; exact H].
Qed.

Lemma line_no_lf l :
  line_wf l = true -> forallb atok_wf (line_toks l) = true ->
  (match l with LDir _ d _ _ => dir_wf d = true | _ => True end) -> no_lf (render_line l).
Proof.
  intros Hwf Htok Hd. destruct l as [lead toks cmt|lead d gaps cmt]; cbn [line_wf] in Hwf; rewrite !andb_true_iff in Hwf.
  - destruct Hwf as ((Hlead & Hgaps) & Hcmt). cbn [render_line line_toks] in *.
    apply Forall_app_intro; [apply hspace_no_lf; exact Hlead|]. apply Forall_app_intro.
    + pose proof (gaps_hspace _ _ Hgaps) as Hh. clear - Htok Hh. induction toks as [|(t, g) toks IH]; [constructor|].
      cbn [map fst snd forallb List.concat] in *. apply andb_true_iff in Htok. destruct Htok as (Ht & Htok).
      inversion Hh as [|? ? Hg Hh']; subst.
      apply Forall_app_intro; [apply Forall_app_intro; [apply tok_no_lf; exact Ht | apply hspace_no_lf; exact Hg] | apply IH; assumption].
    + apply render_cmt_no_lf. destruct cmt; [exact Hcmt | exact I].
  - destruct Hwf as (((Hlead & Hlen) & Hgaps) & Hcmt). cbn [render_line].
    apply Forall_app_intro; [apply hspace_no_lf; exact Hlead|]. apply Forall_app_intro.
    + apply Nat.eqb_eq in Hlen. rewrite (zip_gaps_combine _ _ Hlen). apply render_pairs_Forall.
      apply Forall_forall. intros (w, g) Hin. split.
      * pose proof (dir_words_facts d Hd) as Hf. rewrite Forall_forall in Hf.
        destruct (Hf w) as (A & _); [apply in_combine_l in Hin; exact Hin|]. apply solid_no_lf. exact A.
      * pose proof (gaps_hspace _ _ Hgaps) as Hh. rewrite Forall_forall in Hh. apply hspace_no_lf. apply Hh.
        apply in_combine_r in Hin. exact Hin.
    + apply render_cmt_no_lf. destruct cmt; [exact Hcmt | exact I].
Qed.

Lemma group_tokens_wf g : group_wf g = true -> Forall (fun t => atok_wf t = true) (group_tokens g).
Proof.
  unfold group_wf. rewrite !andb_true_iff. intros ((Hs & _) & Hpos).
  apply Forall_forall. intros t Hin. unfold group_tokens in Hin.
  destruct Hin as [<-|Hin]; [exact Hs|].
  apply in_app_or in Hin. destruct Hin as [Hin|[<-|[]]]; [|reflexivity].
  apply in_sep_concat in Hin. destruct Hin as [[<-|[]] | (y & Hy & Hx)]; [reflexivity|].
  apply in_map_iff in Hy. destruct Hy as (po & <- & Hpoin).
  rewrite forallb_forall in Hpos. specialize (Hpos po Hpoin). rewrite !andb_true_iff in Hpos. destruct Hpos as ((A & _) & C).
  unfold po_tokens in Hx. destruct Hx as [<-|Hx]; [exact A|].
  apply in_sep_concat in Hx. destruct Hx as [[<-|[]] | (z & Hz & Hx)]; [reflexivity|].
  apply in_map_iff in Hz. destruct Hz as (o & <- & Hoin). destruct Hx as [<-|[]].
  rewrite forallb_forall in C. apply C. exact Hoin.
Qed.

Definition stream_item_wf (x : directive + atok) : Prop :=
  match x with inl d => dir_wf d = true | inr t => atok_wf t = true end.

Lemma doc_stream_wf d :
  forallb (fun i => match i with IGrp g => group_wf g | IDir x => dir_wf x end) d = true ->
  Forall stream_item_wf (flat_map item_stream d).
Proof.
  intros H. apply Forall_forall. intros x Hin. apply in_flat_map in Hin. destruct Hin as (i & Hi & Hx).
  rewrite forallb_forall in H. specialize (H i Hi). destruct i as [dd|g]; cbn [item_stream] in Hx.
  - destruct Hx as [<-|[]]. exact H.
  - apply in_map_iff in Hx. destruct Hx as (t & <- & Ht). pose proof (group_tokens_wf g H) as HF.
    rewrite Forall_forall in HF. apply HF. exact Ht.
Qed.

Lemma lines_no_lf ls d : lays_out ls d -> Forall no_lf (map render_line ls).
Proof.
  intros (Hlwf & Hdwf & Hstream). pose proof (doc_stream_wf d Hdwf) as HF. rewrite <- Hstream in HF.
  apply Forall_forall. intros r Hin. apply in_map_iff in Hin. destruct Hin as (l & <- & Hl).
  rewrite forallb_forall in Hlwf. rewrite Forall_forall in HF.
  assert (Hsub : forall x, In x (line_stream l) -> stream_item_wf x).
  { intros x Hx. apply HF. apply in_flat_map. exists l. split; assumption. }
  apply line_no_lf; [apply Hlwf; exact Hl | |].
  - destruct l as [lead toks cmt|]; [|reflexivity]. cbn [line_toks line_stream] in *.
    rewrite forallb_forall. intros t Ht. apply (Hsub (inr t)). rewrite <- map_map. apply in_map. exact Ht.
  - destruct l as [|lead dd gaps cmt]; [exact I|]. apply (Hsub (inl dd)). left. reflexivity.
Qed.

Lemma doc_lines_render ls d s :
  lays_out ls d -> process_lines (doc_lines (render_doc ls)) s = process_lines (map render_line ls) s.
Proof.
  intros Hl. pose proof (lines_no_lf ls d Hl) as Hno.
  change (doc_lines (render_doc ls)) with (filter keep_line (split s_newline (render_doc ls))).
  rewrite process_lines_filter. unfold render_doc. change newline with [lf]. change s_newline with [lf].
  destruct (map render_line ls) as [|r rs] eqn:E.
  - cbn [sep_concat]. change (split [lf] []) with [@nil ascii]. cbn [process_lines].
    rewrite (blank_raw_line [] s eq_refl). reflexivity.
  - inversion Hno as [|? ? H1 H2]; subst. rewrite (split_sepc lf r rs H1 H2). reflexivity.
Qed.

(** ** documents with directives between the statement groups *)

Lemma process_lines_app : forall a b s,
  process_lines (a ++ b) s =
  match process_lines a s with
  | (ts, Ok s') => let (ts', r) := process_lines b s' in (ts ++ ts', r)
  | (ts, Err e) => (ts, Err e)
  end.
Proof.
  induction a as [|l a IH]; intros b s; cbn [app process_lines].
  - destruct (process_lines b s); reflexivity.
  - destruct (process_line l s) as [ts [s'|e]]; [|reflexivity].
    rewrite IH. destruct (process_lines a s') as [ts1 [s1|e1]]; [|reflexivity].
    destruct (process_lines b s1) as [ts2 r2]. rewrite app_assoc. reflexivity.
Qed.

Lemma sem_from_groups_app e gs rest :
  sem_from e (map IGrp gs ++ rest) =
  match sem_from e (map IGrp gs), sem_from e rest with
  | Some a, Some b => Some (a ++ b)
  | _, _ => None
  end.
Proof.
  induction gs as [|g gs IH]; cbn [map app sem_from].
  - destruct (sem_from e rest); reflexivity.
  - rewrite IH. destruct (sem_group e g) as [t|]; [|reflexivity].
    destruct (sem_from e (map IGrp gs)) as [a|]; [|reflexivity].
    destruct (sem_from e rest) as [b|]; [rewrite app_assoc|]; reflexivity.
Qed.

Lemma rc_doc_groups_app e gs rest :
  rc_doc e (map IGrp gs ++ rest) = flat_map (rc_group e) gs ++ rc_doc e rest.
Proof.
  induction gs as [|g gs IH]; [reflexivity|]. cbn [map app rc_doc flat_map]. rewrite IH, app_assoc. reflexivity.
Qed.

Lemma inr_prefix {A B} : forall (a T0 : list B) (X R : list (A + B)) (x : A),
  map inr a ++ X = map inr T0 ++ inl x :: R ->
  exists T0', T0 = a ++ T0' /\ X = map inr T0' ++ inl x :: R.
Proof.
  induction a as [|y a IH]; intros T0 X R x H; [exists T0; split; [reflexivity | exact H]|].
  destruct T0 as [|t T0]; cbn [map app] in H; [discriminate H|].
  injection H as -> H. destruct (IH T0 X R x H) as (T0' & -> & HX). exists T0'. split; [reflexivity | exact HX].
Qed.

(** the lines up to the first directive carry exactly the tokens before it *)
Lemma split_at_directive : forall ls (T0 : list atok) x R,
  flat_map line_stream ls = map inr T0 ++ inl x :: R ->
  exists ls1 lead gaps cmt ls2,
    ls = ls1 ++ LDir lead x gaps cmt :: ls2 /\
    flat_map line_stream ls1 = map inr T0 /\ flat_map line_stream ls2 = R.
Proof.
  induction ls as [|l ls IH]; intros T0 x R H; [destruct T0; discriminate H|].
  destruct l as [lead toks cmt|lead d gaps cmt]; cbn [flat_map line_stream] in H.
  - rewrite <- map_map in H. destruct (inr_prefix _ _ _ _ _ H) as (T0' & -> & HX).
    destruct (IH T0' x R HX) as (ls1 & lead' & gaps' & cmt' & ls2 & -> & H1 & H2).
    exists (LToks lead toks cmt :: ls1), lead', gaps', cmt', ls2. split; [reflexivity|]. split; [|exact H2].
    cbn [flat_map line_stream]. rewrite H1, map_app, map_map. reflexivity.
  - destruct T0 as [|t T0]; cbn [map app] in H; [|discriminate H]. injection H as -> H.
    exists [], lead, gaps, cmt, ls. repeat split. exact H.
Qed.

Lemma run_doc_gen : forall d gs0 ls e s ts,
  env_match e s -> state s = WS -> forallb line_ok0 ls = true ->
  flat_map line_stream ls = map inr (flat_map group_tokens gs0) ++ flat_map item_stream d ->
  forallb group_wf gs0 = true ->
  forallb (fun i => match i with IGrp g => group_wf g | IDir x => dir_wf x end) d = true ->
  rc_free (rc_doc e (map IGrp gs0 ++ d)) = true ->
  sem_from e (map IGrp gs0 ++ d) = Some ts ->
  exists s' ts', process_lines (map render_line ls) s = (ts', Ok s') /\
                 map erase_lex ts' = map erase_lex ts /\ state s' = WS.
Proof.
  induction d as [|i d IH]; intros gs0 ls e s ts Hm Hst Hok Hstream Hg0 Hdwf Hrc Hsem.
  - cbn [flat_map] in Hstream. rewrite app_nil_r in Hstream, Hrc, Hsem.
    assert (Hrcg : rc_free (flat_map (rc_group e) gs0) = true).
    { rewrite <- (app_nil_r (map IGrp gs0)), rc_doc_groups_app in Hrc. cbn [rc_doc] in Hrc. rewrite app_nil_r in Hrc. exact Hrc. }
    destruct (run_groups e s gs0 ls ts Hm Hst Hok Hstream Hg0 Hrcg Hsem) as (s' & ts' & A & B & _ & C). eauto.
  - cbn [forallb] in Hdwf. apply andb_true_iff in Hdwf. destruct Hdwf as (Hi & Hdwf).
    destruct i as [x|g].
    + (* a directive: the lines before it close the pending groups *)
      cbn [flat_map item_stream app] in Hstream.
      destruct (split_at_directive ls _ x _ Hstream) as (ls1 & lead & gaps & cmt & ls2 & -> & H1 & H2).
      rewrite forallb_app in Hok. apply andb_true_iff in Hok. destruct Hok as (Hok1 & Hok2).
      cbn [forallb] in Hok2. apply andb_true_iff in Hok2. destruct Hok2 as (Hl & Hok2).
      unfold line_ok0 in Hl. pose proof Hl as Hlwf.
      rewrite rc_doc_groups_app in Hrc. apply rc_free_app in Hrc. destruct Hrc as (Hrc0 & Hrc).
      cbn [rc_doc] in Hrc. apply rc_free_app in Hrc. destruct Hrc as (Hrcd & Hrc).
      rewrite sem_from_groups_app in Hsem.
      destruct (sem_from e (map IGrp gs0)) as [ta|] eqn:Ea; [|discriminate Hsem].
      destruct (sem_from e (IDir x :: d)) as [tb|] eqn:Eb; [|discriminate Hsem]. inversion Hsem; subst ts.
      destruct (run_groups e s gs0 ls1 ta Hm Hst Hok1 H1 Hg0 Hrc0 Ea) as (s1 & ts1 & A1 & B1 & Hm1 & C1).
      destruct (process_dir_line lead x gaps cmt e s1 Hlwf Hi (rc_free_nil _ Hrcd) Hm1)
        as (e' & s2 & Hsd & Hpl & Hm2 & Hst2).
      cbn [sem_from] in Eb. rewrite Hsd in Eb, Hrc.
      destruct (IH [] ls2 e' s2 tb Hm2 (eq_trans Hst2 C1) Hok2 H2 eq_refl Hdwf Hrc Eb) as (s3 & ts3 & A3 & B3 & C3).
      exists s3, (ts1 ++ ts3). rewrite map_app, process_lines_app, A1. cbn [map process_lines]. rewrite Hpl, A3.
      split; [reflexivity|]. split; [rewrite !map_app, B1, B3; reflexivity | exact C3].
    + (* one more group joins the pending ones *)
      apply (IH (gs0 ++ [g]) ls e s ts Hm Hst Hok).
      * rewrite flat_map_app, map_app. cbn [flat_map item_stream] in Hstream |- *. rewrite app_nil_r, <- app_assoc. exact Hstream.
      * rewrite forallb_app. cbn [forallb]. rewrite Hg0, Hi. reflexivity.
      * exact Hdwf.
      * rewrite map_app, <- app_assoc. exact Hrc.
      * rewrite map_app, <- app_assoc. exact Hsem.
Qed.

(** C07 on [C07_dom]: every document of the dialect, every layout *)
Theorem reader_correct ls d ts :
  lays_out ls d -> C07_dom ls d = true -> sem d = Some ts ->
  exists s' ts', read_ttl (render_doc ls) = (ts', Ok s') /\
                 map erase_lex ts' = map erase_lex ts /\ state s' = WS.
Proof.
  intros Hl Hdom Hsem. unfold read_ttl. rewrite (doc_lines_render ls d st0 Hl).
  destruct Hl as (Hlwf & Hdwf & Hstream).
  unfold C07_dom, C07_rcs in Hdom.
  assert (Hrc : rc_free (rc_doc env0 d) = true) by (destruct (rc_doc env0 d); [reflexivity | discriminate]).
  destruct (run_doc_gen d [] ls env0 st0 ts env_match0 eq_refl Hlwf Hstream eq_refl Hdwf Hrc Hsem) as (s' & ts' & A & B & C).
  exists s', ts'. rewrite A. unfold end_check. rewrite C. rewrite andb_false_r. auto.
Qed.
