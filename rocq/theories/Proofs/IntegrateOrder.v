(** * Key order of the dictionary merged by MixedInstanceTracker._integrate_dicts (C19)

    [Model/Selectors.v: integrate_dicts] is the list-based model of the merge
    (shape map next to all_classes_mode: the only configuration that builds a
    MixedInstanceTracker).  The instance dictionary it returns is walked by the
    class profiler, so its KEY ORDER decides the order in which the properties
    of a shape are first seen, hence the order of equally frequent constraints
    in ShExC and the instance taken as shape example.  These lemmas say that
    this order is a function of the key orders of the two input dictionaries
    and of nothing else: the keys of the reference dictionary, then the keys
    only the second tracker knows, in the second tracker's order. *)
From Coq Require Import List Ascii String ZArith NArith Bool.
From Shexer Require Import Lib.PyStr Lib.Dict Model.Tracker Model.Selectors Proofs.DictLemmas.
Import ListNotations.

Lemma integrate_entries_key_order orig new : forall (ref : insts) n,
  dkeys (fst (integrate_entries orig new ref n)) = fold_left add_new (dkeys new) (dkeys ref).
Proof.
  induction new as [|[i cs] new IH]; intros ref n; [reflexivity|].
  cbn [integrate_entries]. destruct (integrate_classes orig cs n) as [cs' n'].
  rewrite IH, dkeys_dupd_add_new. reflexivity.
Qed.

Lemma integrate_dicts_key_order (ref new : insts) n :
  dkeys (fst (integrate_dicts ref new n)) = fold_left add_new (dkeys new) (dkeys ref).
Proof. unfold integrate_dicts. apply integrate_entries_key_order. Qed.

(** the values (class lists), the class names already in use and the
    disambiguation counter have no influence on the order *)
Lemma integrate_dicts_key_order_function (ref ref' new new' : insts) n n' :
  dkeys ref = dkeys ref' -> dkeys new = dkeys new' ->
  dkeys (fst (integrate_dicts ref new n)) = dkeys (fst (integrate_dicts ref' new' n')).
Proof. intros H1 H2. rewrite !integrate_dicts_key_order, H1, H2. reflexivity. Qed.

Lemma filter_ext_in_str (f g : str -> bool) l : (forall x, In x l -> f x = g x) -> filter f l = filter g l.
Proof.
  induction l as [|x l IH]; intros H; [reflexivity|]. cbn.
  rewrite (H x (or_introl eq_refl)), IH; [reflexivity|]. intros y Hy. apply H. right. exact Hy.
Qed.

Lemma fold_add_new_filter ks : forall seen, NoDup ks ->
  fold_left add_new ks seen = seen ++ filter (fun k => negb (mem_str k seen)) ks.
Proof.
  induction ks as [|k ks IH]; intros seen ND; cbn [fold_left filter]; [rewrite app_nil_r; reflexivity|].
  inversion ND as [|? ? Hk ND']; subst. unfold add_new at 2. destruct (mem_str k seen) eqn:E; cbn [negb].
  - apply IH. exact ND'.
  - rewrite IH by exact ND'. rewrite <- app_assoc. cbn [app]. f_equal. f_equal.
    apply filter_ext_in_str. intros x Hx. rewrite mem_str_app. cbn [mem_str]. rewrite orb_false_r.
    destruct (str_eqb x k) eqn:Ex; [|rewrite orb_false_r; reflexivity].
    apply str_eqb_eq in Ex. subst. contradiction.
Qed.

(** a Python dict has every key once: reference keys first, then the keys
    only the new dictionary has, in the new dictionary's order *)
Lemma integrate_dicts_key_order_filter (ref new : insts) n :
  NoDup (dkeys new) ->
  dkeys (fst (integrate_dicts ref new n)) =
  dkeys ref ++ filter (fun k => negb (dmem ref k)) (dkeys new).
Proof.
  intros ND. rewrite integrate_dicts_key_order, fold_add_new_filter by exact ND. f_equal.
  apply filter_ext_in_str. intros x _. rewrite dmem_mem_str. reflexivity.
Qed.
