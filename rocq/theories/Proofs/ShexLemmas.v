(** * Structural lemmas on the shexing stage (Model/Shexing.v).

    Everything here is about list functions: no frequency-algebra law is
    needed except for the order lemmas on [sort_desc] (totality and
    transitivity of [fle] on the values that occur), and those are explicit
    premises. *)
From Coq Require Import List Ascii String ZArith NArith Bool Lia Permutation Sorted.
From Shexer Require Import Lib.PyStr Lib.Dict Gen.Consts Model.Profiler Model.Tokens Model.Freq Model.Shexing.
Import ListNotations.

Arguments tune_token : simpl never.
Arguments shape_name : simpl never.

(** ** generic list facts *)

Lemma map_err_Forall2 {A B E} (f : A -> B + E) (l : list A) (out : list B) :
  map_err f l = inl out <-> Forall2 (fun x y => f x = inl y) l out.
Proof.
  revert out; induction l as [|x l IH]; intros out; cbn.
  - split; intros H; [injection H as <-; constructor | inversion H; reflexivity].
  - destruct (f x) as [y|e] eqn:Ef.
    + destruct (map_err f l) as [ys|e] eqn:Em.
      * split; intros H.
        -- injection H as <-. constructor; [exact Ef | apply IH; reflexivity].
        -- inversion H as [|? y' ? ys' Hy Hys]; subst. rewrite Ef in Hy; injection Hy as <-.
           apply IH in Hys. injection Hys as <-. reflexivity.
      * split; intros H; [discriminate|].
        inversion H as [|? y' ? ys' Hy Hys]; subst. apply IH in Hys. discriminate.
    + split; intros H; [discriminate|]. inversion H as [|? y' ? ys' Hy Hys]; subst. congruence.
Qed.

Lemma Forall2_In_l {A B} (R : A -> B -> Prop) l l' x :
  Forall2 R l l' -> In x l -> exists y, In y l' /\ R x y.
Proof.
  induction 1 as [|a b l l' Hab _ IH]; intros Hin; [destruct Hin|].
  destruct Hin as [->|Hin]; [exists b; split; [left; reflexivity | exact Hab]|].
  destruct (IH Hin) as [y [Hy Hr]]. exists y; split; [right; exact Hy | exact Hr].
Qed.

Lemma Forall2_In_r {A B} (R : A -> B -> Prop) l l' y :
  Forall2 R l l' -> In y l' -> exists x, In x l /\ R x y.
Proof.
  induction 1 as [|a b l l' Hab _ IH]; intros Hin; [destruct Hin|].
  destruct Hin as [->|Hin]; [exists a; split; [left; reflexivity | exact Hab]|].
  destruct (IH Hin) as [x [Hx Hr]]. exists x; split; [right; exact Hx | exact Hr].
Qed.

Lemma Forall2_impl_In {A B} (R S : A -> B -> Prop) l l' :
  (forall x y, In x l -> In y l' -> R x y -> S x y) -> Forall2 R l l' -> Forall2 S l l'.
Proof.
  intros H F; induction F as [|a b l l' Hab F IH]; constructor.
  - apply H; [left; reflexivity | left; reflexivity | exact Hab].
  - apply IH. intros x y Hx Hy. apply H; right; assumption.
Qed.

Lemma Forall2_map_eq {A B C} (f : A -> C) (g : B -> C) l l' :
  Forall2 (fun x y => f x = g y) l l' -> map f l = map g l'.
Proof. induction 1 as [|a b l l' Hab _ IH]; cbn; [reflexivity | rewrite Hab, IH; reflexivity]. Qed.

Lemma Forall2_map_l {A B C} (f : A -> C) (R : C -> B -> Prop) l l' :
  Forall2 (fun x y => R (f x) y) l l' -> Forall2 R (map f l) l'.
Proof. induction 1; cbn; constructor; assumption. Qed.

Lemma filter_filter_comm {A} (f g : A -> bool) l : filter f (filter g l) = filter g (filter f l).
Proof.
  induction l as [|x l IH]; cbn; [reflexivity|].
  destruct (g x) eqn:Eg, (f x) eqn:Ef; cbn; rewrite ?Eg, ?Ef, IH; reflexivity.
Qed.

Lemma filter_idem {A} (f : A -> bool) l : filter f (filter f l) = filter f l.
Proof.
  induction l as [|x l IH]; cbn; [reflexivity|].
  destruct (f x) eqn:Ef; cbn; rewrite ?Ef, IH; reflexivity.
Qed.

Lemma filter_ext_In {A} (f g : A -> bool) l : (forall x, In x l -> f x = g x) -> filter f l = filter g l.
Proof.
  induction l as [|x l IH]; intros H; cbn; [reflexivity|].
  rewrite (H x (or_introl eq_refl)), IH; [reflexivity|]. intros y Hy; apply H; right; exact Hy.
Qed.

Lemma filter_length_le {A} (f : A -> bool) l : (List.length (filter f l) <= List.length l)%nat.
Proof. induction l as [|x l IH]; cbn; [lia|]. destruct (f x); cbn; lia. Qed.

Lemma NoDup_map_filter {A B} (g : A -> B) (f : A -> bool) l : NoDup (map g l) -> NoDup (map g (filter f l)).
Proof.
  induction l as [|x l IH]; cbn; intros H; [constructor|].
  inversion H as [|? ? Hn Hd]; subst. destruct (f x); cbn; [|apply IH; exact Hd].
  constructor; [|apply IH; exact Hd].
  intros Hin. apply Hn. apply in_map_iff in Hin. destruct Hin as [y [Hy Hin]].
  apply filter_In in Hin. apply in_map_iff. exists y; tauto.
Qed.

(** ** statements: the part that is not comments *)

Definition core_eq (r s : stmt) : Prop :=
  s_inv r = s_inv s /\ s_prop r = s_prop s /\ s_types r = s_types s /\ s_choice r = s_choice s /\
  s_card r = s_card s /\ s_nocc r = s_nocc s /\ s_prob r = s_prob s.

Lemma core_eq_refl s : core_eq s s.
Proof. repeat split. Qed.

Lemma core_eq_trans a b c : core_eq a b -> core_eq b c -> core_eq a c.
Proof. unfold core_eq; intros H1 H2; intuition congruence. Qed.

Lemma core_eq_type r s : core_eq r s -> s_type r = s_type s.
Proof. intros H; unfold s_type; destruct H as (_ & _ & -> & _); reflexivity. Qed.

(** ** profile entries *)

Definition pd_entry (pd : pdict) (p k : str) (ck : ckey) (n : N) : Prop :=
  exists kd cd, In (p, kd) pd /\ In (k, cd) kd /\ In (ck, n) cd.

Definition base_stmt (inv : bool) (p k : str) (ck : ckey) (n : N) : stmt :=
  {| s_inv := inv; s_prop := p; s_types := [k]; s_choice := false;
     s_card := card_of_key ck; s_nocc := n; s_prob := PRatio n; s_comments := [] |}.

Section Lemmas.
  Variable fa : FreqAlg.
  Variable cfg : scfg.

  (** ** [base_statements] *)
  Theorem base_statements_spec thr cnt inv pd st :
    In st (base_statements fa thr cnt inv pd) <->
    exists p k ck n, pd_entry pd p k ck n /\ fle fa thr (ratio fa n cnt) = true /\
                     st = base_stmt inv p k ck n.
  Proof.
    unfold base_statements, pd_entry. rewrite in_flat_map. split.
    - intros [[p kd] [Hp H]]. apply in_flat_map in H. destruct H as [[k cd] [Hk H]].
      apply in_flat_map in H. destruct H as [[ck n] [Hc H]]. cbn in *.
      destruct (fle fa thr (ratio fa n cnt)) eqn:E; [|destruct H].
      destruct H as [<-|[]]. exists p, k, ck, n. split; [exists kd, cd; auto|]. split; [exact E | reflexivity].
    - intros (p & k & ck & n & (kd & cd & Hp & Hk & Hc) & E & ->).
      exists (p, kd). split; [exact Hp|]. apply in_flat_map. exists (k, cd). split; [exact Hk|].
      apply in_flat_map. exists (ck, n). split; [exact Hc|]. cbn. rewrite E. left; reflexivity.
  Qed.

  (** ** [sort_desc] *)
  Lemma insert_desc_perm cnt x l : Permutation (x :: l) (insert_desc fa cnt x l).
  Proof.
    induction l as [|y l IH]; cbn; [apply Permutation_refl|].
    destruct (fle fa (pv fa cnt x) (pv fa cnt y)); [|apply Permutation_refl].
    eapply perm_trans; [apply perm_swap|]. apply perm_skip. exact IH.
  Qed.

  Lemma fold_insert_perm cnt l acc :
    Permutation (l ++ acc) (fold_left (fun acc x => insert_desc fa cnt x acc) l acc).
  Proof.
    revert acc; induction l as [|x l IH]; intros acc; cbn; [apply Permutation_refl|].
    eapply perm_trans; [|apply IH].
    eapply perm_trans; [apply Permutation_middle|].
    apply Permutation_app_head. apply insert_desc_perm.
  Qed.

  Theorem sort_desc_perm cnt l : Permutation l (sort_desc fa cnt l).
  Proof.
    unfold sort_desc. eapply perm_trans; [|apply fold_insert_perm]. rewrite app_nil_r. apply Permutation_refl.
  Qed.

  Theorem sort_desc_In cnt l x : In x (sort_desc fa cnt l) <-> In x l.
  Proof.
    split; apply Permutation_in; [apply Permutation_sym|]; apply sort_desc_perm.
  Qed.

  Lemma sort_desc_length cnt l : List.length (sort_desc fa cnt l) = List.length l.
  Proof. symmetry. apply Permutation_length, sort_desc_perm. Qed.

  Lemma sort_desc_nil cnt : sort_desc fa cnt [] = [].
  Proof. reflexivity. Qed.

  (** descending order: [a] may stand before [b] *)
  Definition ge_pv (cnt : N) (a b : stmt) : Prop := fle fa (pv fa cnt b) (pv fa cnt a) = true.

  Section Order.
    Variable cnt : N.
    Variable okF : F fa -> Prop.
    Hypothesis fle_trans : forall a b c, okF a -> okF b -> okF c ->
      fle fa a b = true -> fle fa b c = true -> fle fa a c = true.
    Hypothesis fle_total : forall a b, okF a -> okF b -> fle fa a b = true \/ fle fa b a = true.

    Definition okS (s : stmt) : Prop := okF (pv fa cnt s).

    Lemma insert_desc_sorted x l :
      okS x -> Forall okS l -> StronglySorted (ge_pv cnt) l -> StronglySorted (ge_pv cnt) (insert_desc fa cnt x l).
    Proof.
      intros Hx Hl Hs. induction Hs as [|y l Hs IH Hy]; cbn; [constructor; [constructor | constructor]|].
      inversion Hl as [|? ? Hoy Hol]; subst.
      destruct (fle fa (pv fa cnt x) (pv fa cnt y)) eqn:E.
      - constructor; [apply IH; exact Hol|].
        apply Forall_forall. intros z Hz.
        apply (Permutation_in _ (Permutation_sym (insert_desc_perm cnt x l))) in Hz.
        destruct Hz as [<-|Hz]; [exact E|]. rewrite Forall_forall in Hy. apply Hy; exact Hz.
      - constructor; [constructor; assumption|].
        assert (Hyx : ge_pv cnt x y).
        { unfold ge_pv. destruct (fle_total (pv fa cnt x) (pv fa cnt y) Hx Hoy) as [H|H]; [congruence | exact H]. }
        constructor; [exact Hyx|].
        apply Forall_forall. intros z Hz. rewrite Forall_forall in Hy, Hol.
        unfold ge_pv in *. apply (fle_trans _ (pv fa cnt y)); auto. apply Hol; exact Hz.
    Qed.

    Lemma fold_insert_sorted l acc :
      Forall okS l -> Forall okS acc -> StronglySorted (ge_pv cnt) acc ->
      StronglySorted (ge_pv cnt) (fold_left (fun acc x => insert_desc fa cnt x acc) l acc).
    Proof.
      revert acc; induction l as [|x l IH]; intros acc Hl Ha Hs; cbn; [exact Hs|].
      inversion Hl as [|? ? Hx Hl']; subst.
      apply IH; [exact Hl' | | apply insert_desc_sorted; assumption].
      apply Forall_forall. intros z Hz.
      apply (Permutation_in _ (Permutation_sym (insert_desc_perm cnt x acc))) in Hz.
      rewrite Forall_forall in Ha. destruct Hz as [<-|Hz]; auto.
    Qed.

    Theorem sort_desc_sorted l : Forall okS l -> StronglySorted (ge_pv cnt) (sort_desc fa cnt l).
    Proof. intros H. unfold sort_desc. apply fold_insert_sorted; [exact H | constructor | constructor]. Qed.

    (** stability: the statements that are exactly as probable as [v] keep
        their relative order *)
    Definition same_pv (v : F fa) (s : stmt) : bool :=
      fle fa (pv fa cnt s) v && fle fa v (pv fa cnt s).

    Lemma insert_desc_stable v x l :
      okF v -> okS x -> Forall okS l -> StronglySorted (ge_pv cnt) l ->
      filter (same_pv v) (insert_desc fa cnt x l) = filter (same_pv v) l ++ filter (same_pv v) [x].
    Proof.
      intros Hv Hx Hl Hs. induction Hs as [|y l Hs IH Hy]; [cbn; reflexivity|].
      inversion Hl as [|? ? Hoy Hol]; subst. cbn [insert_desc].
      destruct (fle fa (pv fa cnt x) (pv fa cnt y)) eqn:E.
      - cbn [filter]. rewrite (IH Hol). destruct (same_pv v y); reflexivity.
      - destruct (same_pv v x) eqn:Ecx.
        2:{ cbn [filter]. rewrite Ecx. rewrite app_nil_r. reflexivity. }
        assert (Hnone : forall z, In z (y :: l) -> same_pv v z = false).
        { intros z Hz. destruct (same_pv v z) eqn:Ecz; [|reflexivity]. exfalso.
          assert (Hoz : okS z) by (rewrite Forall_forall in Hl; apply Hl; exact Hz).
          assert (Hzy : fle fa (pv fa cnt z) (pv fa cnt y) = true).
          { destruct Hz as [<-|Hz].
            - destruct (fle_total _ _ Hoy Hoy); assumption.
            - rewrite Forall_forall in Hy. apply Hy; exact Hz. }
          unfold same_pv in Ecx, Ecz. apply andb_true_iff in Ecx, Ecz.
          destruct Ecx as [Hxv _]. destruct Ecz as [_ Hvz].
          assert (Hxz : fle fa (pv fa cnt x) (pv fa cnt z) = true) by (apply (fle_trans _ v); assumption).
          rewrite (fle_trans _ _ _ Hx Hoz Hoy Hxz Hzy) in E. discriminate. }
        assert (Hnil : filter (same_pv v) (y :: l) = []).
        { clear -Hnone. induction (y :: l) as [|z l' IH']; [reflexivity|]. cbn.
          rewrite (Hnone z (or_introl eq_refl)). apply IH'. intros w Hw; apply Hnone; right; exact Hw. }
        change (filter (same_pv v) (x :: y :: l)) with
          (if same_pv v x then x :: filter (same_pv v) (y :: l) else filter (same_pv v) (y :: l)).
        rewrite Hnil, Ecx. cbn. rewrite Ecx. reflexivity.
    Qed.

    Lemma fold_insert_stable v l acc :
      okF v -> Forall okS l -> Forall okS acc -> StronglySorted (ge_pv cnt) acc ->
      filter (same_pv v) (fold_left (fun acc x => insert_desc fa cnt x acc) l acc) =
      filter (same_pv v) acc ++ filter (same_pv v) l.
    Proof.
      intros Hv. revert acc; induction l as [|x l IH]; intros acc Hl Ha Hs; cbn [fold_left].
      - cbn. rewrite app_nil_r. reflexivity.
      - inversion Hl as [|? ? Hx Hl']; subst.
        rewrite IH; [| exact Hl' | | apply insert_desc_sorted; assumption].
        + rewrite insert_desc_stable by assumption. rewrite <- app_assoc. f_equal.
          cbn. destruct (same_pv v x); reflexivity.
        + apply Forall_forall. intros z Hz.
          apply (Permutation_in _ (Permutation_sym (insert_desc_perm cnt x acc))) in Hz.
          rewrite Forall_forall in Ha. destruct Hz as [<-|Hz]; auto.
    Qed.

    Theorem sort_desc_stable v l :
      okF v -> Forall okS l -> filter (same_pv v) (sort_desc fa cnt l) = filter (same_pv v) l.
    Proof.
      intros Hv Hl. unfold sort_desc. rewrite fold_insert_stable; [reflexivity | exact Hv | exact Hl | constructor | constructor].
    Qed.
  End Order.

  (** ** the two "already visited" loops, generically

      Both [group_same] and [group_nodes] walk the list, let some statements
      pass, and for any other statement [a] take out of the rest everything
      that is [same a], hand [a] and these to [pick], and go on with what is
      left. *)
  Section Grouping.
    Variable pass : stmt -> bool.
    Variable same : stmt -> stmt -> bool.
    Variable pick : list stmt -> stmt + serr.

    Fixpoint grp_gen (fuel : nat) (l : list stmt) : list stmt + serr :=
      match fuel with
      | O => inl l
      | S f =>
        match l with
        | [] => inl []
        | a :: rest =>
          if pass a then
            match grp_gen f rest with inl rs => inl (a :: rs) | inr e => inr e end
          else
            match (match filter (same a) rest with
                   | [] => inl a
                   | _ => pick (a :: filter (same a) rest)
                   end) with
            | inr e => inr e
            | inl r => match grp_gen f (filter (fun b => negb (same a b)) rest) with
                       | inl rs => inl (r :: rs)
                       | inr e => inr e
                       end
            end
        end
      end.

    (** the statements that open a group (or pass), in order: [a] stays and
        deletes from what follows everything it absorbs *)
    Fixpoint heads (l : list stmt) : list stmt :=
      match l with
      | [] => []
      | a :: r => a :: (if pass a then heads r else filter (fun b => negb (same a b)) (heads r))
      end.

    (** what the loop produces for the head [a] of the input [l] *)
    Definition gpick (l : list stmt) (a r : stmt) : Prop :=
      if pass a then r = a
      else match filter (same a) l with
           | [] => False
           | [x] => r = x
           | g => pick g = inl r
           end.

    Variable K : Type.
    Variable keqb : K -> K -> bool.
    Hypothesis keqb_eq : forall x y, keqb x y = true <-> x = y.
    Variable gkey : stmt -> K.
    Hypothesis same_spec : forall a y, pass a = false -> same a y = negb (pass y) && keqb (gkey a) (gkey y).

    Lemma keqb_refl x : keqb x x = true.
    Proof. apply keqb_eq; reflexivity. Qed.

    Lemma keqb_sym x y : keqb x y = keqb y x.
    Proof.
      destruct (keqb x y) eqn:E1, (keqb y x) eqn:E2; try reflexivity.
      - apply keqb_eq in E1; subst. rewrite keqb_refl in E2; discriminate.
      - apply keqb_eq in E2; subst. rewrite keqb_refl in E1; discriminate.
    Qed.

    Lemma same_self a : pass a = false -> same a a = true.
    Proof. intros H. rewrite same_spec, H, keqb_refl by exact H. reflexivity. Qed.

    Lemma same_true a y : pass a = false -> same a y = true -> pass y = false /\ gkey a = gkey y.
    Proof.
      intros Ha H. rewrite same_spec in H by exact Ha. apply andb_true_iff in H. destruct H as [H1 H2].
      apply negb_true_iff in H1. apply keqb_eq in H2. auto.
    Qed.

    Lemma same_of_key a b y : pass a = false -> pass b = false -> gkey a = gkey b -> same a y = same b y.
    Proof. intros Ha Hb E. rewrite !same_spec, E by assumption. reflexivity. Qed.

    Lemma heads_filter_comm a l :
      pass a = false ->
      heads (filter (fun b => negb (same a b)) l) = filter (fun b => negb (same a b)) (heads l).
    Proof.
      intros Ha. induction l as [|y l IH]; [reflexivity|].
      cbn [heads]. cbn [filter].
      destruct (same a y) eqn:Ey; cbn [negb].
      - destruct (same_true a y Ha Ey) as [Hy Ek]. rewrite Hy.
        rewrite IH.
        rewrite (filter_ext_In (fun b => negb (same y b)) (fun b => negb (same a b))).
        + rewrite filter_idem. reflexivity.
        + intros z _. rewrite (same_of_key a y z Ha Hy Ek). reflexivity.
      - cbn [heads]. f_equal.
        destruct (pass y); [exact IH|]. rewrite IH. apply filter_filter_comm.
    Qed.

    Lemma heads_In a l : In a (heads l) -> In a l.
    Proof.
      revert a; induction l as [|y l IH]; intros a; cbn; [auto|].
      intros [->|H]; [left; reflexivity|]. right. apply IH.
      destruct (pass y); [exact H|]. apply filter_In in H. tauto.
    Qed.

    Lemma heads_pass s l : In s l -> pass s = true -> In s (heads l).
    Proof.
      intros Hin Hs. induction l as [|y l IH]; [destruct Hin|]. cbn.
      destruct Hin as [->|Hin]; [left; reflexivity|]. right.
      destruct (pass y) eqn:Hy; [apply IH; exact Hin|].
      apply filter_In. split; [apply IH; exact Hin|].
      rewrite same_spec, Hs by exact Hy. reflexivity.
    Qed.

    Lemma heads_cover s l :
      In s l -> pass s = false -> exists a, In a (heads l) /\ pass a = false /\ gkey a = gkey s.
    Proof.
      intros Hin Hs. induction l as [|y l IH]; [destruct Hin|]. cbn.
      destruct Hin as [->|Hin]; [exists s; auto|].
      destruct (IH Hin) as [a [Ha [Hpa Hk]]].
      destruct (pass y) eqn:Hy; [exists a; auto|].
      destruct (same y a) eqn:E.
      - destruct (same_true y a Hy E) as [_ Ek]. exists y. split; [left; reflexivity|]. split; [exact Hy | congruence].
      - exists a. split; [|auto]. right. apply filter_In. rewrite E. auto.
    Qed.

    Lemma heads_nodup_key l : NoDup (map gkey (filter (fun a => negb (pass a)) (heads l))).
    Proof.
      induction l as [|y l IH]; cbn; [constructor|].
      destruct (pass y) eqn:Hy; cbn; [exact IH|].
      constructor.
      - intros Hin. apply in_map_iff in Hin. destruct Hin as [z [Ek Hz]].
        apply filter_In in Hz. destruct Hz as [Hz Hpz]. apply filter_In in Hz. destruct Hz as [_ Hs].
        apply negb_true_iff in Hpz, Hs. rewrite same_spec, Hpz, Ek, keqb_refl in Hs by exact Hy. discriminate.
      - rewrite filter_filter_comm. apply NoDup_map_filter. exact IH.
    Qed.

    Lemma NoDup_map_heads {B} (g : stmt -> B) l : NoDup (map g l) -> NoDup (map g (heads l)).
    Proof.
      induction l as [|y l IH]; cbn; intros H; [constructor|].
      inversion H as [|? ? Hn Hd]; subst.
      assert (Hsub : forall z, In z (if pass y then heads l else filter (fun b => negb (same y b)) (heads l)) -> In z l).
      { intros z Hz. apply heads_In. destruct (pass y); [exact Hz | apply filter_In in Hz; tauto]. }
      constructor.
      - intros Hin. apply Hn. apply in_map_iff in Hin. destruct Hin as [z [Ez Hz]].
        apply in_map_iff. exists z. split; [exact Ez | apply Hsub; exact Hz].
      - destruct (pass y); [apply IH; exact Hd | apply NoDup_map_filter, IH; exact Hd].
    Qed.

    Lemma filter_same_others a b rest :
      pass a = false -> pass b = false -> same a b = false ->
      filter (same b) (filter (fun z => negb (same a z)) rest) = filter (same b) rest.
    Proof.
      intros Ha Hb Hab. induction rest as [|z rest IH]; [reflexivity|]. cbn [filter].
      destruct (same a z) eqn:Ez; cbn [negb]; [|cbn [filter]; rewrite IH; reflexivity].
      destruct (same_true a z Ha Ez) as [Hz Ek].
      assert (Hbz : same b z = false).
      { rewrite same_spec, Hz by exact Hb. cbn. rewrite <- Ek.
        rewrite same_spec, Hb in Hab by exact Ha. cbn in Hab. rewrite keqb_sym. exact Hab. }
      rewrite Hbz. exact IH.
    Qed.

    Theorem grp_gen_spec fuel l out :
      (List.length l <= fuel)%nat -> grp_gen fuel l = inl out -> Forall2 (gpick l) (heads l) out.
    Proof.
      revert l out; induction fuel as [|f IH]; intros l out Hlen H.
      - destruct l; [|cbn in Hlen; lia]. cbn in H. injection H as <-. constructor.
      - destruct l as [|a rest]; [cbn in H; injection H as <-; constructor|].
        cbn [grp_gen] in H. cbn [heads]. cbn [List.length] in Hlen.
        destruct (pass a) eqn:Ha.
        + destruct (grp_gen f rest) as [rs|e] eqn:Er; [|discriminate]. injection H as <-.
          constructor; [unfold gpick; rewrite Ha; reflexivity|].
          apply (Forall2_impl_In (gpick rest)); [|apply IH; [lia | exact Er]].
          intros b r Hb _. unfold gpick. destruct (pass b) eqn:Hpb; [auto|].
          cbn [filter]. rewrite same_spec, Ha by exact Hpb. cbn. auto.
        + set (grp := filter (same a) rest) in *. set (others := filter (fun b => negb (same a b)) rest) in *.
          destruct (match grp with [] => inl a | _ :: _ => pick (a :: grp) end) as [r|e] eqn:Ep; [|discriminate].
          destruct (grp_gen f others) as [rs|e] eqn:Er; [|discriminate]. injection H as <-.
          constructor.
          * unfold gpick. rewrite Ha. cbn [filter]. rewrite (same_self a Ha). fold grp.
            destruct grp; [injection Ep as <-; reflexivity | exact Ep].
          * unfold others. rewrite <- (heads_filter_comm a rest Ha). fold others.
            assert (Hlo : (List.length others <= f)%nat).
            { pose proof (filter_length_le (fun b => negb (same a b)) rest). unfold others. lia. }
            apply (Forall2_impl_In (gpick others)); [|apply IH; [exact Hlo | exact Er]].
            intros b r0 Hb _. unfold gpick. destruct (pass b) eqn:Hpb; [auto|].
            apply heads_In in Hb. unfold others in Hb. apply filter_In in Hb. destruct Hb as [_ Hab].
            apply negb_true_iff in Hab.
            assert (Hba : same b a = false).
            { rewrite same_spec, Ha by exact Hpb. cbn.
              rewrite same_spec, Hpb in Hab by exact Ha. cbn in Hab. rewrite keqb_sym. exact Hab. }
            cbn [filter]. rewrite Hba. unfold others. rewrite (filter_same_others a b rest Ha Hpb Hab). auto.
    Qed.

    (** the loop fails only where [pick] does *)
    Lemma grp_gen_total fuel l :
      (forall g, g <> [] -> incl g l -> exists r, pick g = inl r) -> exists out, grp_gen fuel l = inl out.
    Proof.
      revert l; induction fuel as [|f IH]; intros l Hp; [eexists; reflexivity|].
      destruct l as [|a rest]; [eexists; reflexivity|]. cbn [grp_gen].
      destruct (pass a).
      - destruct (IH rest) as [rs ->]; [|eexists; reflexivity].
        intros g Hg Hi. apply Hp; [exact Hg|]. intros x Hx; right; apply Hi; exact Hx.
      - assert (Hr : exists r, (match filter (same a) rest with [] => inl a | _ :: _ => pick (a :: filter (same a) rest) end) = inl r).
        { destruct (filter (same a) rest) eqn:E; [eexists; reflexivity|]. rewrite <- E. apply Hp; [discriminate|].
          intros x [<-|Hx]; [left; reflexivity|]. right. apply filter_In in Hx. tauto. }
        destruct Hr as [r ->].
        destruct (IH (filter (fun b => negb (same a b)) rest)) as [rs ->]; [|eexists; reflexivity].
        intros g Hg Hi. apply Hp; [exact Hg|]. intros x Hx; right. apply Hi in Hx. apply filter_In in Hx. tauto.
    Qed.

    (** the group handed to [pick] for a head is everything of its key *)
    Lemma group_of_head a l :
      pass a = false ->
      filter (same a) l = filter (fun y => negb (pass y) && keqb (gkey a) (gkey y)) l.
    Proof. intros Ha. apply filter_ext_In. intros y _. apply same_spec; exact Ha. Qed.
  End Grouping.

  (** ** comments *)
  Lemma add_comments_of_spec dom l r :
    add_comments_of cfg dom l = inl r ->
    core_eq r dom /\
    exists ks, s_comments r = s_comments dom ++ ks /\ Forall2 (fun x k => comment_of cfg x = inl k) l ks.
  Proof.
    revert dom; induction l as [|x l IH]; intros dom H; cbn in H.
    - injection H as <-. split; [apply core_eq_refl|]. exists []. rewrite app_nil_r. split; [reflexivity | constructor].
    - destruct (comment_of cfg x) as [k|e] eqn:Ek; [|discriminate].
      destruct (IH _ H) as [Hc [ks [Hk F]]]. split.
      + eapply core_eq_trans; [exact Hc|]. repeat split.
      + exists (k :: ks). split; [rewrite Hk; cbn; rewrite <- app_assoc; reflexivity|]. constructor; assumption.
  Qed.

  Lemma add_comments_of_total dom l :
    (forall x, In x l -> exists k, comment_of cfg x = inl k) -> exists r, add_comments_of cfg dom l = inl r.
  Proof.
    revert dom; induction l as [|x l IH]; intros dom H; cbn; [eexists; reflexivity|].
    destruct (H x (or_introl eq_refl)) as [k ->]. apply IH. intros y Hy; apply H; right; exact Hy.
  Qed.

  (** new comments are snapshots of statements of [g] *)
  Definition comments_from (g : list stmt) (ks : list comment) : Prop :=
    Forall (fun k => exists x, In x g /\ comment_of cfg x = inl k) ks.

  Lemma comments_from_F2 g l ks :
    incl l g -> Forall2 (fun x k => comment_of cfg x = inl k) l ks -> comments_from g ks.
  Proof.
    intros Hi F. induction F as [|x k l ks Hk F IH]; [constructor|].
    constructor; [exists x; split; [apply Hi; left; reflexivity | exact Hk]|].
    apply IH. intros y Hy; apply Hi; right; exact Hy.
  Qed.

  (** ** first merge *)
  Definition tok (s : stmt) : str * str := (s_prop s, s_type s).
  Definition tok_eqb (a b : str * str) : bool := str_eqb (fst a) (fst b) && str_eqb (snd a) (snd b).

  Lemma tok_eqb_eq a b : tok_eqb a b = true <-> a = b.
  Proof.
    destruct a as [a1 a2], b as [b1 b2]. unfold tok_eqb; cbn.
    rewrite andb_true_iff, !str_eqb_eq. split; [intros [-> ->]; reflexivity | intros H; inversion H; auto].
  Qed.

  Lemma same_tokens_tok a b : same_tokens a b = tok_eqb (tok a) (tok b).
  Proof. reflexivity. Qed.

  (** the statement chosen for a group: one of the group, comments appended *)
  Definition chosen_from (g : list stmt) (r : stmt) : Prop :=
    exists s, In s g /\ core_eq r s /\
              exists ks, s_comments r = s_comments s ++ ks /\ comments_from g ks.

  Theorem decide_best_spec cnt g r : decide_best fa cfg cnt g = inl r -> chosen_from g r.
  Proof.
    unfold decide_best, first_such.
    destruct (x_discard_useless cfg && useless_plus_group fa cnt g).
    - destruct (List.find (fun s => negb (is_plus (s_card s))) g) as [s|] eqn:Ef; [|discriminate].
      intros H; injection H as <-. apply find_some in Ef. exists s. split; [tauto|].
      split; [apply core_eq_refl|]. exists []. rewrite app_nil_r. split; [reflexivity | constructor].
    - set (gs := sort_desc fa cnt g).
      set (pick := if x_keep_less_specific cfg then List.find (fun s => is_plus (s_card s)) gs
                   else List.find (fun s => negb (is_plus (s_card s))) gs).
      assert (Hpick : forall s, pick = Some s -> In s gs).
      { intros s. unfold pick. destruct (x_keep_less_specific cfg); intros H; apply find_some in H; tauto. }
      destruct (match pick with Some s => Some s | None => hd_error gs end) as [res|] eqn:Er; [|discriminate].
      assert (Hres : In res g).
      { apply (sort_desc_In cnt). fold gs. destruct pick as [s|]; [injection Er as <-; apply Hpick; reflexivity|].
        destruct gs; [discriminate | injection Er as <-; left; reflexivity]. }
      intros H. apply add_comments_of_spec in H. destruct H as [Hc [ks [Hk F]]].
      exists res. split; [exact Hres|]. split; [exact Hc|]. exists ks. split; [exact Hk|].
      eapply comments_from_F2; [|exact F]. intros x Hx. apply filter_In in Hx. apply (sort_desc_In cnt). tauto.
  Qed.

  (** [decide_best] has two error sites ([SEValue]): an empty group, and a
      comment whose token cannot be rendered.  Neither the "useless +" branch
      nor the choice of the survivor can fail on a non-empty group. *)
  Theorem decide_best_total cnt g :
    g <> [] -> (forall x, In x g -> exists k, comment_of cfg x = inl k) ->
    exists r, decide_best fa cfg cnt g = inl r.
  Proof.
    intros Hne Hcom. unfold decide_best, first_such.
    destruct (x_discard_useless cfg && useless_plus_group fa cnt g) eqn:Eu.
    - apply andb_true_iff in Eu. destruct Eu as [_ Eu]. unfold useless_plus_group in Eu.
      destruct g as [|a [|b [|c g]]]; try discriminate.
      apply andb_true_iff in Eu. destruct Eu as [_ Eo]. unfold count_plus in Eo. cbn in Eo. cbn.
      destruct (is_plus (s_card a)); cbn in *; [|eexists; reflexivity].
      destruct (is_plus (s_card b)); cbn in *; [discriminate | eexists; reflexivity].
    - set (gs := sort_desc fa cnt g).
      assert (Hgs : gs <> []).
      { intros E. apply Hne. apply length_zero_iff_nil. rewrite <- (sort_desc_length cnt). fold gs. rewrite E. reflexivity. }
      assert (Hex : forall p : option stmt,
                 exists res, (match p with Some s => Some s | None => hd_error gs end) = Some res).
      { intros [s|]; [eexists; reflexivity|]. destruct gs; [contradiction | eexists; reflexivity]. }
      match goal with |- context [match ?p with Some s => Some s | None => _ end] =>
        destruct (Hex p) as [res Hres] end.
      rewrite Hres.
      apply add_comments_of_total. intros x Hx. apply filter_In in Hx. apply Hcom.
      apply (sort_desc_In cnt). tauto.
  Qed.

  Theorem decide_best_nil cnt : decide_best fa cfg cnt [] = inr SEValue.
  Proof.
    unfold decide_best, useless_plus_group. rewrite andb_false_r. cbn.
    destruct (x_keep_less_specific cfg); reflexivity.
  Qed.

  Lemma group_same_gen fuel cnt l :
    group_same fa cfg fuel cnt l = grp_gen (fun _ => false) same_tokens (decide_best fa cfg cnt) fuel l.
  Proof.
    revert l; induction fuel as [|f IH]; intros l; [reflexivity|].
    destruct l as [|a rest]; [reflexivity|]. cbn [group_same grp_gen]. rewrite IH. reflexivity.
  Qed.

  Lemma same_tokens_spec a y :
    (fun _ : stmt => false) a = false -> same_tokens a y = negb ((fun _ : stmt => false) y) && tok_eqb (tok a) (tok y).
  Proof. intros _. reflexivity. Qed.

  (** first occurrences of a list of keys *)
  Fixpoint dedup (l : list (str * str)) : list (str * str) :=
    match l with
    | [] => []
    | x :: r => x :: filter (fun y => negb (tok_eqb x y)) (dedup r)
    end.

  Lemma heads_dedup l : map tok (heads (fun _ => false) same_tokens l) = dedup (map tok l).
  Proof.
    induction l as [|a l IH]; [reflexivity|]. cbn [heads map dedup]. f_equal. rewrite <- IH.
    generalize (heads (fun _ => false) same_tokens l). intros h.
    induction h as [|b h IHh]; [reflexivity|]. cbn [filter map].
    rewrite same_tokens_tok. destruct (tok_eqb (tok a) (tok b)); cbn [negb map]; rewrite IHh; reflexivity.
  Qed.

  Lemma dedup_In x l : In x (dedup l) <-> In x l.
  Proof.
    revert x; induction l as [|y l IH]; intros x; cbn; [tauto|].
    rewrite filter_In, IH. split; [tauto|]. intros [->|H]; [auto|].
    destruct (tok_eqb y x) eqn:E; [apply tok_eqb_eq in E; auto | right; auto].
  Qed.

  Lemma dedup_NoDup l : NoDup (dedup l).
  Proof.
    induction l as [|y l IH]; cbn; [constructor|]. constructor.
    - intros H. apply filter_In in H. destruct H as [_ H]. apply negb_true_iff in H.
      assert (tok_eqb y y = true) by (apply tok_eqb_eq; reflexivity). congruence.
    - apply NoDup_filter. exact IH.
  Qed.

  (** what [group_same] does with the statements of one (property, type) pair *)
  Definition same_pick (cnt : N) (l : list stmt) (t : str * str) (r : stmt) : Prop :=
    match filter (fun s => tok_eqb t (tok s)) l with
    | [] => False
    | [a] => r = a
    | g => decide_best fa cfg cnt g = inl r
    end.

  Lemma same_pick_chosen cnt l t r :
    same_pick cnt l t r -> chosen_from (filter (fun s => tok_eqb t (tok s)) l) r.
  Proof.
    unfold same_pick. destruct (filter (fun s => tok_eqb t (tok s)) l) as [|a [|b g]] eqn:E; [tauto| |].
    - intros ->. exists a. split; [left; reflexivity|]. split; [apply core_eq_refl|].
      exists []. rewrite app_nil_r. split; [reflexivity | constructor].
    - apply decide_best_spec.
  Qed.

  (** Main statement for the first merge: with enough fuel the result has one
      statement per distinct (property, type) pair of the input, in order of
      first occurrence, and the statement of a pair is the only input statement
      of that pair, or what [decide_best] makes of all of them (in input
      order). *)
  Theorem group_same_spec fuel cnt l out :
    (List.length l <= fuel)%nat -> group_same fa cfg fuel cnt l = inl out ->
    Forall2 (same_pick cnt l) (dedup (map tok l)) out.
  Proof.
    intros Hlen H. rewrite group_same_gen in H.
    pose proof (grp_gen_spec _ _ _ _ tok_eqb tok_eqb_eq tok same_tokens_spec fuel l out Hlen H) as F.
    rewrite <- heads_dedup.
    apply Forall2_map_l.
    eapply Forall2_impl_In; [|exact F]. intros a r _ _ Hp. unfold gpick in Hp. unfold same_pick.
    rewrite (filter_ext_In (fun s => tok_eqb (tok a) (tok s)) (same_tokens a)); [exact Hp | intros; reflexivity].
  Qed.

  Lemma same_pick_tok cnt l t r : same_pick cnt l t r -> tok r = t.
  Proof.
    intros H. apply same_pick_chosen in H. destruct H as [s [Hs [Hc _]]].
    apply filter_In in Hs. destruct Hs as [_ Hs]. apply tok_eqb_eq in Hs. rewrite Hs. unfold tok.
    rewrite (core_eq_type _ _ Hc). destruct Hc as (_ & -> & _). reflexivity.
  Qed.

  Corollary group_same_toks fuel cnt l out :
    (List.length l <= fuel)%nat -> group_same fa cfg fuel cnt l = inl out ->
    map tok out = dedup (map tok l).
  Proof.
    intros Hlen H. pose proof (group_same_spec fuel cnt l out Hlen H) as F. symmetry.
    rewrite <- (map_id (dedup (map tok l))). apply Forall2_map_eq.
    eapply Forall2_impl_In; [|exact F]. intros t r _ _ Hp. symmetry. apply (same_pick_tok _ _ _ _ Hp).
  Qed.

  Corollary group_same_NoDup fuel cnt l out :
    (List.length l <= fuel)%nat -> group_same fa cfg fuel cnt l = inl out -> NoDup (map tok out).
  Proof. intros Hlen H. rewrite (group_same_toks fuel cnt l out Hlen H). apply dedup_NoDup. Qed.

  Corollary group_same_out fuel cnt l out r :
    (List.length l <= fuel)%nat -> group_same fa cfg fuel cnt l = inl out -> In r out ->
    chosen_from (filter (fun s => tok_eqb (tok r) (tok s)) l) r.
  Proof.
    intros Hlen H Hr. destruct (Forall2_In_r _ _ _ _ (group_same_spec fuel cnt l out Hlen H) Hr) as [t [_ Hp]].
    rewrite (same_pick_tok _ _ _ _ Hp). apply same_pick_chosen with (cnt := cnt). exact Hp.
  Qed.

  Corollary group_same_cover fuel cnt l out s :
    (List.length l <= fuel)%nat -> group_same fa cfg fuel cnt l = inl out -> In s l ->
    exists r, In r out /\ tok r = tok s.
  Proof.
    intros Hlen H Hs.
    assert (Ht : In (tok s) (dedup (map tok l))) by (apply dedup_In, in_map; exact Hs).
    destruct (Forall2_In_l _ _ _ _ (group_same_spec fuel cnt l out Hlen H) Ht) as [r [Hr Hp]].
    exists r. split; [exact Hr | apply (same_pick_tok _ _ _ _ Hp)].
  Qed.

  (** [group_same] fails only if a comment token cannot be rendered *)
  Theorem group_same_total fuel cnt l :
    (forall x, In x l -> exists k, comment_of cfg x = inl k) ->
    exists out, group_same fa cfg fuel cnt l = inl out.
  Proof.
    intros Hc. rewrite group_same_gen. apply grp_gen_total. intros g Hg Hi.
    apply decide_best_total; [exact Hg|]. intros x Hx. apply Hc, Hi, Hx.
  Qed.

  (** ** second merge: [merge_group] taken apart *)
  Definition is_bnode (s : stmt) : bool := str_eqb (s_type s) c_BNODE_ELEM_TYPE.
  Definition is_iri (s : stmt) : bool := str_eqb (s_type s) c_IRI_ELEM_TYPE.

  Definition mg_bnode (g : list stmt) : option stmt := last_such is_bnode g.
  Definition mg_iri (g : list stmt) : option stmt := last_such is_iri g.
  Definition mg_shapes (cnt : N) (g : list stmt) : list stmt :=
    sort_desc fa cnt (filter (fun s => negb (is_bnode s) && negb (is_iri s)) g).

  (** the new statement "NONLITERAL" made of a BNode and an IRI statement *)
  Definition nonlit_merge (b i : stmt) : stmt :=
    {| s_inv := s_inv b; s_prop := s_prop b; s_types := [c_NONLITERAL_ELEM_TYPE];
       s_choice := false; s_card := most_general_card (s_card b) (s_card i);
       s_nocc := (s_nocc b + s_nocc i)%N;
       s_prob := match s_prob b, s_prob i with
                 | PRatio x, PRatio y => PSum x y
                 | _, _ => PSum (s_nocc b) (s_nocc i)
                 end;
       s_comments := [] |}.

  Definition mg_dominant (cnt : N) (g : list stmt) : stmt + serr :=
    match mg_bnode g with
    | Some b =>
      match mg_iri g with
      | Some i =>
        match mg_shapes cnt g with
        | [s0] => if N.eqb (s_nocc i + s_nocc b) (s_nocc s0) then inl s0 else inl (nonlit_merge b i)
        | _ => inl (nonlit_merge b i)
        end
      | None =>
        match mg_shapes cnt g with
        | s0 :: _ => if N.eqb (s_nocc s0) (s_nocc b) then inl s0 else inl b
        | [] => inl b
        end
      end
    | None =>
      match mg_shapes cnt g with
      | [] => match mg_iri g with Some i => inl i | None => inr SEValue end
      | s0 :: _ =>
        match mg_iri g with
        | None => inl s0
        | Some i => if N.ltb (s_nocc s0) (s_nocc i) then inl i else inl s0
        end
      end
    end.

  (** the choice ("OR") version of a dominant statement *)
  Definition choice_of (d : stmt) (tys : list str) : stmt :=
    {| s_inv := s_inv d; s_prop := s_prop d; s_types := tys; s_choice := true;
       s_card := s_card d; s_nocc := s_nocc d; s_prob := s_prob d; s_comments := [] |}.

  Definition mg_or_types (d : stmt) (shapes : list stmt) : list str :=
    if x_allow_redundant_or cfg
    then (if existsb (same_obj d) shapes then [] else [s_type d]) ++ map s_type shapes
    else if existsb (same_obj d) shapes then map s_type shapes else [].

  Definition mg_tuned (d : stmt) (shapes : list stmt) : stmt :=
    if x_disable_or cfg then d
    else if Nat.ltb 1 (List.length (mg_or_types d shapes)) then choice_of d (mg_or_types d shapes) else d.

  Definition mg_first (g : list stmt) : list stmt :=
    match mg_bnode g with
    | Some b => b :: match mg_iri g with Some i => [i] | None => [] end
    | None => []
    end.

  Lemma merge_group_unfold cnt g :
    merge_group fa cfg cnt g =
    match mg_dominant cnt g with
    | inr e => inr e
    | inl d =>
      add_comments_of cfg (mg_tuned d (mg_shapes cnt g))
        (mg_first g ++ filter (fun s => negb (same_obj (mg_tuned d (mg_shapes cnt g)) s)) (mg_shapes cnt g))
    end.
  Proof. reflexivity. Qed.

  Lemma last_such_some f g s : last_such f g = Some s -> In s g /\ f s = true.
  Proof. unfold last_such. intros H. apply find_some in H. rewrite <- in_rev in H. exact H. Qed.

  Lemma last_such_none f g : last_such f g = None -> forall s, In s g -> f s = false.
  Proof. unfold last_such. intros H s Hs. apply (find_none _ _ H). rewrite <- in_rev. exact Hs. Qed.

  Lemma mg_shapes_In cnt g s : In s (mg_shapes cnt g) <-> In s g /\ is_bnode s = false /\ is_iri s = false.
  Proof.
    unfold mg_shapes. rewrite sort_desc_In, filter_In, andb_true_iff, !negb_true_iff. tauto.
  Qed.

  (** the dominant statement is one of the group or the NONLITERAL merge of
      its (last) BNode and IRI statements *)
  Inductive dominant_of (g : list stmt) : stmt -> Prop :=
  | Dom_in d : In d g -> dominant_of g d
  | Dom_merge b i : In b g -> In i g -> is_bnode b = true -> is_iri i = true ->
                    dominant_of g (nonlit_merge b i).

  Lemma mg_dominant_spec cnt g d : mg_dominant cnt g = inl d -> dominant_of g d.
  Proof.
    unfold mg_dominant.
    assert (Hsh : forall s0 r, mg_shapes cnt g = s0 :: r -> In s0 g).
    { intros s0 r E. apply (mg_shapes_In cnt g s0). rewrite E. left; reflexivity. }
    destruct (mg_bnode g) as [b|] eqn:Eb.
    - apply last_such_some in Eb. destruct Eb as [Hb Tb].
      destruct (mg_iri g) as [i|] eqn:Ei.
      + apply last_such_some in Ei. destruct Ei as [Hi Ti].
        destruct (mg_shapes cnt g) as [|s0 [|s1 r]] eqn:Es.
        * intros H; injection H as <-. apply Dom_merge; assumption.
        * destruct (N.eqb _ _); intros H; injection H as <-; [apply Dom_in; eapply Hsh; reflexivity | apply Dom_merge; assumption].
        * intros H; injection H as <-. apply Dom_merge; assumption.
      + destruct (mg_shapes cnt g) as [|s0 r] eqn:Es.
        * intros H; injection H as <-. apply Dom_in; exact Hb.
        * destruct (N.eqb _ _); intros H; injection H as <-; apply Dom_in; [eapply Hsh; reflexivity | exact Hb].
    - destruct (mg_shapes cnt g) as [|s0 r] eqn:Es.
      + destruct (mg_iri g) as [i|] eqn:Ei; [|discriminate].
        apply last_such_some in Ei. intros H; injection H as <-. apply Dom_in; tauto.
      + destruct (mg_iri g) as [i|] eqn:Ei.
        * apply last_such_some in Ei.
          destruct (N.ltb _ _); intros H; injection H as <-; apply Dom_in; [tauto | eapply Hsh; reflexivity].
        * intros H; injection H as <-. apply Dom_in. eapply Hsh; reflexivity.
  Qed.

  Lemma mg_dominant_total cnt g : g <> [] -> exists d, mg_dominant cnt g = inl d.
  Proof.
    intros Hne. unfold mg_dominant.
    destruct (mg_bnode g) as [b|] eqn:Eb.
    - destruct (mg_iri g) as [i|]; destruct (mg_shapes cnt g) as [|s0 [|s1 r]];
        try (eexists; reflexivity); destruct (N.eqb _ _); eexists; reflexivity.
    - destruct (mg_shapes cnt g) as [|s0 r] eqn:Es.
      + destruct (mg_iri g) as [i|] eqn:Ei; [eexists; reflexivity|]. exfalso.
        destruct g as [|x g]; [contradiction|].
        pose proof (last_such_none _ _ Eb x (or_introl eq_refl)) as Hb.
        pose proof (last_such_none _ _ Ei x (or_introl eq_refl)) as Hi.
        assert (Hx : In x (mg_shapes cnt (x :: g))) by (apply mg_shapes_In; split; [left; reflexivity | auto]).
        rewrite Es in Hx. destruct Hx.
      + destruct (mg_iri g) as [i|]; [destruct (N.ltb _ _)|]; eexists; reflexivity.
  Qed.

  (** what [_tune_dominant_constraint_wrt_or_config] returns *)
  Inductive or_tuned (g : list stmt) (d : stmt) : stmt -> Prop :=
  | Or_same : or_tuned g d d
  | Or_choice tys : (1 < List.length tys)%nat -> In (s_type d) tys ->
                    (forall t, In t tys -> t = s_type d \/ exists x, In x g /\ is_bnode x = false /\ is_iri x = false /\ t = s_type x) ->
                    or_tuned g d (choice_of d tys).

  Lemma mg_tuned_spec cnt g d : or_tuned g d (mg_tuned d (mg_shapes cnt g)).
  Proof.
    unfold mg_tuned. destruct (x_disable_or cfg); [apply Or_same|].
    destruct (Nat.ltb 1 (List.length (mg_or_types d (mg_shapes cnt g)))) eqn:El; [|apply Or_same].
    apply Nat.ltb_lt in El. apply Or_choice; [exact El| |].
    - unfold mg_or_types in *.
      destruct (existsb (same_obj d) (mg_shapes cnt g)) eqn:Ex.
      + apply existsb_exists in Ex. destruct Ex as [x [Hx Hs]]. unfold same_obj in Hs.
        apply andb_true_iff in Hs. destruct Hs as [_ Hs]. apply str_eqb_eq in Hs.
        assert (In (s_type d) (map s_type (mg_shapes cnt g))) by (rewrite Hs; apply in_map; exact Hx).
        destruct (x_allow_redundant_or cfg); cbn; assumption.
      + destruct (x_allow_redundant_or cfg); [left; reflexivity | cbn in El; lia].
    - intros t Ht. unfold mg_or_types in Ht.
      assert (Hm : In t (map s_type (mg_shapes cnt g)) ->
                   exists x, In x g /\ is_bnode x = false /\ is_iri x = false /\ t = s_type x).
      { intros H. apply in_map_iff in H. destruct H as [x [<- Hx]]. apply mg_shapes_In in Hx. exists x; tauto. }
      destruct (x_allow_redundant_or cfg); destruct (existsb (same_obj d) (mg_shapes cnt g)); cbn in Ht; auto.
      + destruct Ht as [<-|Ht]; auto.
      + destruct Ht.
  Qed.

  Lemma mg_first_incl g : incl (mg_first g) g.
  Proof.
    unfold mg_first. intros x Hx.
    destruct (mg_bnode g) as [b|] eqn:Eb; [|destruct Hx]. apply last_such_some in Eb.
    destruct Hx as [<-|Hx]; [tauto|].
    destruct (mg_iri g) as [i|] eqn:Ei; [|destruct Hx]. apply last_such_some in Ei.
    destruct Hx as [<-|[]]; tauto.
  Qed.

  (** Main statement for [merge_group] *)
  Theorem merge_group_spec cnt g r :
    merge_group fa cfg cnt g = inl r ->
    exists d d1 ks, dominant_of g d /\ or_tuned g d d1 /\ core_eq r d1 /\
                    s_comments r = s_comments d1 ++ ks /\ comments_from g ks.
  Proof.
    rewrite merge_group_unfold. destruct (mg_dominant cnt g) as [d|e] eqn:Ed; [|discriminate].
    intros H. apply add_comments_of_spec in H. destruct H as [Hc [ks [Hk F]]].
    exists d, (mg_tuned d (mg_shapes cnt g)), ks.
    split; [apply (mg_dominant_spec cnt); exact Ed|]. split; [apply mg_tuned_spec|].
    split; [exact Hc|]. split; [exact Hk|].
    eapply comments_from_F2; [|exact F]. intros x Hx. apply in_app_or in Hx.
    destruct Hx as [Hx|Hx]; [apply mg_first_incl; exact Hx|].
    apply filter_In in Hx. destruct Hx as [Hx _]. apply mg_shapes_In in Hx. tauto.
  Qed.

  (** [merge_group] has two error sites: the empty group ([SEValue], from the
      missing dominant) and a comment token that cannot be rendered *)
  Theorem merge_group_total cnt g :
    g <> [] -> (forall x, In x g -> exists k, comment_of cfg x = inl k) ->
    exists r, merge_group fa cfg cnt g = inl r.
  Proof.
    intros Hne Hc. rewrite merge_group_unfold. destruct (mg_dominant_total cnt g Hne) as [d ->].
    apply add_comments_of_total. intros x Hx. apply Hc. apply in_app_or in Hx.
    destruct Hx as [Hx|Hx]; [apply mg_first_incl; exact Hx|].
    apply filter_In in Hx. destruct Hx as [Hx _]. apply mg_shapes_In in Hx. tauto.
  Qed.

  Theorem merge_group_nil cnt : merge_group fa cfg cnt [] = inr SEValue.
  Proof. reflexivity. Qed.

  (** ** second merge: [group_nodes] *)
  Definition node_pass (a : stmt) : bool :=
    str_eqb (s_prop a) (x_tau cfg) || negb (is_nonliteral_type (s_type a)).

  Lemma group_nodes_gen fuel cnt l :
    group_nodes fa cfg fuel cnt l = grp_gen node_pass mergeable_with (merge_group fa cfg cnt) fuel l.
  Proof.
    revert l; induction fuel as [|f IH]; intros l; [reflexivity|].
    destruct l as [|a rest]; [reflexivity|]. cbn [group_nodes grp_gen]. rewrite !IH. reflexivity.
  Qed.

  Lemma mergeable_spec a y :
    node_pass a = false -> mergeable_with a y = negb (node_pass y) && str_eqb (s_prop a) (s_prop y).
  Proof.
    unfold node_pass, mergeable_with. intros Ha. apply orb_false_iff in Ha. destruct Ha as [Ha _].
    destruct (str_eqb (s_prop a) (s_prop y)) eqn:E.
    - apply str_eqb_eq in E. rewrite <- E, Ha. cbn. rewrite negb_involutive, andb_true_r. reflexivity.
    - rewrite !andb_false_r. reflexivity.
  Qed.

  (** the statements that survive as such or open a merge group *)
  Definition node_heads (l : list stmt) : list stmt := heads node_pass mergeable_with l.

  (** the non-literal statements of the property of [a] *)
  Definition node_group (l : list stmt) (a : stmt) : list stmt :=
    filter (fun s => negb (node_pass s) && str_eqb (s_prop a) (s_prop s)) l.

  Definition node_pick (cnt : N) (l : list stmt) (a r : stmt) : Prop :=
    if node_pass a then r = a
    else match node_group l a with
         | [] => False
         | [x] => r = x
         | g => merge_group fa cfg cnt g = inl r
         end.

  (** Main statement for the second merge: with enough fuel, the statements
      whose property is tau or whose type is a literal type pass unchanged;
      the non-literal statements of any other property are replaced, at the
      position of the first of them, by the only one of them or by what
      [merge_group] makes of all of them (in input order). *)
  Theorem group_nodes_spec fuel cnt l out :
    (List.length l <= fuel)%nat -> group_nodes fa cfg fuel cnt l = inl out ->
    Forall2 (node_pick cnt l) (node_heads l) out.
  Proof.
    intros Hlen H. rewrite group_nodes_gen in H.
    pose proof (grp_gen_spec _ _ _ _ str_eqb str_eqb_eq s_prop mergeable_spec fuel l out Hlen H) as F.
    eapply Forall2_impl_In; [|exact F]. intros a r _ _ Hp. unfold gpick in Hp. unfold node_pick, node_group.
    destruct (node_pass a) eqn:Ha; [exact Hp|].
    rewrite (filter_ext_In (fun s => negb (node_pass s) && str_eqb (s_prop a) (s_prop s)) (mergeable_with a));
      [exact Hp | intros y _; symmetry; apply mergeable_spec; exact Ha].
  Qed.

  Theorem group_nodes_total fuel cnt l :
    (forall x, In x l -> exists k, comment_of cfg x = inl k) ->
    exists out, group_nodes fa cfg fuel cnt l = inl out.
  Proof.
    intros Hc. rewrite group_nodes_gen. apply grp_gen_total. intros g Hg Hi.
    apply merge_group_total; [exact Hg|]. intros x Hx. apply Hc, Hi, Hx.
  Qed.

  Lemma node_heads_In a l : In a (node_heads l) -> In a l.
  Proof. exact (heads_In node_pass mergeable_with (fun _ => inr SEValue) a l). Qed.

  Lemma node_heads_pass s l : In s l -> node_pass s = true -> In s (node_heads l).
  Proof. exact (heads_pass _ _ _ str_eqb s_prop mergeable_spec s l). Qed.

  Lemma node_heads_cover s l :
    In s l -> node_pass s = false ->
    exists a, In a (node_heads l) /\ node_pass a = false /\ s_prop a = s_prop s.
  Proof. exact (heads_cover _ _ _ str_eqb str_eqb_eq s_prop mergeable_spec s l). Qed.

  Lemma node_heads_nodup_prop l : NoDup (map s_prop (filter (fun a => negb (node_pass a)) (node_heads l))).
  Proof. exact (heads_nodup_key _ _ _ str_eqb str_eqb_eq s_prop mergeable_spec l). Qed.

  Lemma node_heads_NoDup_map {B} (g : stmt -> B) l : NoDup (map g l) -> NoDup (map g (node_heads l)).
  Proof. exact (NoDup_map_heads node_pass mergeable_with (fun _ => inr SEValue) g l). Qed.

  (** readable consequences *)
  Corollary group_nodes_keeps fuel cnt l out s :
    (List.length l <= fuel)%nat -> group_nodes fa cfg fuel cnt l = inl out ->
    In s l -> node_pass s = true -> In s out.
  Proof.
    intros Hlen H Hs Hp.
    destruct (Forall2_In_l _ _ _ _ (group_nodes_spec fuel cnt l out Hlen H) (node_heads_pass s l Hs Hp)) as [r [Hr Hk]].
    unfold node_pick in Hk. rewrite Hp in Hk. subst r. exact Hr.
  Qed.

  Corollary group_nodes_out fuel cnt l out r :
    (List.length l <= fuel)%nat -> group_nodes fa cfg fuel cnt l = inl out -> In r out ->
    (In r l /\ node_pass r = true) \/
    exists a, In a l /\ node_pass a = false /\
              (node_group l a = [r] \/
               ((2 <= List.length (node_group l a))%nat /\ merge_group fa cfg cnt (node_group l a) = inl r)).
  Proof.
    intros Hlen H Hr.
    destruct (Forall2_In_r _ _ _ _ (group_nodes_spec fuel cnt l out Hlen H) Hr) as [a [Ha Hk]].
    apply node_heads_In in Ha. unfold node_pick in Hk. destruct (node_pass a) eqn:Ep.
    - subst r. left. auto.
    - right. exists a. split; [exact Ha|]. split; [exact Ep|].
      destruct (node_group l a) as [|x [|y g]]; [destruct Hk | subst; left; reflexivity|].
      right. split; [cbn; lia | exact Hk].
  Qed.

  (** every non-literal statement of a property other than tau is represented
      by exactly one group: the heads that open a group have pairwise
      different properties, and every such statement has its head *)
  Corollary group_nodes_one_per_prop l :
    NoDup (map s_prop (filter (fun a => negb (node_pass a)) (node_heads l))) /\
    forall s, In s l -> node_pass s = false ->
              exists a, In a (node_heads l) /\ node_pass a = false /\ s_prop a = s_prop s.
  Proof. split; [apply node_heads_nodup_prop | intros s; apply node_heads_cover]. Qed.

  (** ** [select_valid] *)
  Lemma select_valid_eq cnt l :
    select_valid fa cfg cnt l =
    match group_same fa cfg (List.length l) cnt l with
    | inr e => inr e
    | inl l1 => group_nodes fa cfg (List.length l1) cnt l1
    end.
  Proof. destruct l; reflexivity. Qed.

  Theorem select_valid_total cnt l :
    (forall x, In x l -> exists k, comment_of cfg x = inl k) ->
    (forall x, chosen_from l x -> exists k, comment_of cfg x = inl k) ->
    exists out, select_valid fa cfg cnt l = inl out.
  Proof.
    intros Hc Hc2. rewrite select_valid_eq.
    destruct (group_same_total (List.length l) cnt l Hc) as [l1 E]. rewrite E.
    apply group_nodes_total. intros x Hx.
    pose proof (group_same_out _ _ _ _ x (le_n _) E Hx) as Hch. apply Hc2.
    destruct Hch as [s [Hs [Hcore [ks [Hk Hf]]]]]. exists s. apply filter_In in Hs.
    split; [tauto|]. split; [exact Hcore|]. exists ks. split; [exact Hk|].
    unfold comments_from in *. rewrite Forall_forall in *. intros k Hk0. destruct (Hf k Hk0) as [y [Hy Hy2]].
    exists y. apply filter_In in Hy. tauto.
  Qed.

  (** ** tuning *)
  Definition relaxed (s : stmt) (k : comment) : stmt :=
    {| s_inv := s_inv s; s_prop := s_prop s; s_types := s_types s; s_choice := s_choice s;
       s_card := relax_card cfg (s_card s); s_nocc := s_nocc s; s_prob := POne;
       s_comments := k :: s_comments s |}.

  Definition tune_post (s : stmt) : stmt :=
    let s2 := if x_disable_exact cfg then generalize_exact s else s in
    if x_disable_comments cfg then drop_comments s2 else s2.

  Definition tune_one (cnt : N) (s : stmt) : stmt + serr :=
    match (if x_all_compliant cfg then relax fa cfg cnt s else inl s) with
    | inr e => inr e
    | inl s1 => inl (tune_post s1)
    end.

  Lemma map_err_post {A B C E} (f : A -> B + E) (g : B -> C) l :
    match map_err f l with inr e => inr e | inl l1 => inl (map g l1) end =
    map_err (fun x => match f x with inr e => inr e | inl y => inl (g y) end) l.
  Proof.
    induction l as [|x l IH]; cbn; [reflexivity|].
    destruct (f x) as [y|e]; [|reflexivity]. rewrite <- IH. destruct (map_err f l); reflexivity.
  Qed.

  Lemma map_err_inl {A B E} (g : A -> B) l : map_err (fun x => @inl B E (g x)) l = inl (map g l).
  Proof. induction l as [|x l IH]; cbn; [reflexivity | rewrite IH; reflexivity]. Qed.

  Theorem tune_eq cnt valid : tune fa cfg cnt valid = map_err (tune_one cnt) (sort_desc fa cnt valid).
  Proof.
    destruct valid as [|v valid]; [reflexivity|]. unfold tune. generalize (sort_desc fa cnt (v :: valid)). intros l0.
    assert (Hpost : forall l1, (if x_disable_comments cfg
                                then map drop_comments (if x_disable_exact cfg then map generalize_exact l1 else l1)
                                else (if x_disable_exact cfg then map generalize_exact l1 else l1)) = map tune_post l1).
    { intros l1. unfold tune_post. destruct (x_disable_comments cfg), (x_disable_exact cfg); cbn;
        rewrite ?map_map, ?map_id; reflexivity. }
    unfold tune_one. destruct (x_all_compliant cfg).
    - rewrite <- map_err_post. destruct (map_err (relax fa cfg cnt) l0); [rewrite Hpost|]; reflexivity.
    - rewrite map_err_inl. rewrite Hpost. reflexivity.
  Qed.

  Theorem tune_spec cnt valid out :
    tune fa cfg cnt valid = inl out ->
    Forall2 (fun s t => tune_one cnt s = inl t) (sort_desc fa cnt valid) out.
  Proof. rewrite tune_eq. apply map_err_Forall2. Qed.

  (** what tuning never touches *)
  Definition sig (s : stmt) := (s_inv s, s_prop s, s_types s, s_choice s, s_nocc s).

  Lemma generalize_exact_fields s :
    sig (generalize_exact s) = sig s /\ s_prob (generalize_exact s) = s_prob s /\
    s_comments (generalize_exact s) = s_comments s /\
    s_card (generalize_exact s) = match s_card s with
                                  | CExact k => if N.ltb 1 k then CPlus else CExact k
                                  | c => c
                                  end.
  Proof.
    unfold generalize_exact. destruct (s_card s) as [k| | |] eqn:E; try (rewrite E; auto).
    destruct (N.ltb 1 k); cbn; [auto | rewrite E; auto].
  Qed.

  Lemma tune_post_fields s :
    sig (tune_post s) = sig s /\ s_prob (tune_post s) = s_prob s /\
    s_comments (tune_post s) = (if x_disable_comments cfg then [] else s_comments s) /\
    s_card (tune_post s) = if x_disable_exact cfg
                           then match s_card s with
                                | CExact k => if N.ltb 1 k then CPlus else CExact k
                                | c => c
                                end
                           else s_card s.
  Proof.
    unfold tune_post. destruct (generalize_exact_fields s) as (G1 & G2 & G3 & G4).
    destruct (x_disable_comments cfg), (x_disable_exact cfg); cbn; unfold sig in *; cbn; auto.
  Qed.

  (** the all-compliant rule on one statement *)
  Inductive relax_step (cnt : N) (s : stmt) : stmt -> Prop :=
  | Relax_off : x_all_compliant cfg = false -> relax_step cnt s s
  | Relax_one : x_all_compliant cfg = true -> feqb fa (pv fa cnt s) (fone fa) = true -> relax_step cnt s s
  | Relax_do k : x_all_compliant cfg = true -> feqb fa (pv fa cnt s) (fone fa) = false ->
                 comment_of cfg s = inl k -> relax_step cnt s (relaxed s k).

  Theorem tune_one_spec cnt s t :
    tune_one cnt s = inl t -> exists s1, relax_step cnt s s1 /\ t = tune_post s1.
  Proof.
    unfold tune_one. destruct (x_all_compliant cfg) eqn:Ea.
    - unfold relax. destruct (feqb fa (pv fa cnt s) (fone fa)) eqn:Ef; cbn [negb].
      + intros H; injection H as <-. exists s. split; [apply Relax_one; assumption | reflexivity].
      + destruct (comment_of cfg s) as [k|e] eqn:Ek; [|discriminate].
        intros H; injection H as <-. exists (relaxed s k). split; [apply Relax_do; assumption | reflexivity].
    - intros H; injection H as <-. exists s. split; [apply Relax_off; assumption | reflexivity].
  Qed.

  Lemma relax_step_sig cnt s s1 : relax_step cnt s s1 -> sig s1 = sig s.
  Proof. intros H; destruct H; reflexivity. Qed.

  Lemma tune_one_sig cnt s t : tune_one cnt s = inl t -> sig t = sig s.
  Proof.
    intros H. apply tune_one_spec in H. destruct H as [s1 [Hr ->]].
    destruct (tune_post_fields s1) as [-> _]. apply (relax_step_sig cnt); exact Hr.
  Qed.

  (** tuning keeps the multiset of (direction, property, types, choice, count) *)
  Theorem tune_sig_perm cnt valid out :
    tune fa cfg cnt valid = inl out -> Permutation (map sig valid) (map sig out).
  Proof.
    intros H. apply tune_spec in H.
    eapply perm_trans; [apply Permutation_map, (sort_desc_perm cnt)|].
    rewrite (Forall2_map_eq sig sig (sort_desc fa cnt valid) out); [apply Permutation_refl|].
    eapply Forall2_impl_In; [|exact H]. intros s t _ _ Ht. symmetry. apply (tune_one_sig cnt); exact Ht.
  Qed.

  Theorem tune_total cnt valid :
    (x_all_compliant cfg = true -> forall x, In x valid -> exists k, comment_of cfg x = inl k) ->
    exists out, tune fa cfg cnt valid = inl out.
  Proof.
    intros Hc. rewrite tune_eq.
    assert (H : forall l, (forall x, In x l -> In x valid) -> exists out, map_err (tune_one cnt) l = inl out).
    { induction l as [|x l IH]; intros Hi; [eexists; reflexivity|]. cbn.
      assert (Hx : exists t, tune_one cnt x = inl t).
      { unfold tune_one. destruct (x_all_compliant cfg) eqn:Ea; [|eexists; reflexivity].
        unfold relax. destruct (negb _); [|eexists; reflexivity].
        destruct (Hc eq_refl x (Hi x (or_introl eq_refl))) as [k ->]. eexists; reflexivity. }
      destruct Hx as [t ->]. destruct IH as [ts ->]; [intros y Hy; apply Hi; right; exact Hy|].
      eexists; reflexivity. }
    apply H. intros x Hx. apply (sort_desc_In cnt). exact Hx.
  Qed.

  (** ** when a comment can be made: [tune_token] *)

  (** the only failing case of [tune_token]: a shape reference (leading [%])
      whose remainder is not of the form [<...>] *)
  Theorem tune_token_none_iff ns k :
    tune_token ns k = None <->
    prefixb c_STARTING_CHAR_FOR_SHAPE_NAME k = true /\ remove_corners_strict (slice_from k 1) = None.
  Proof.
    unfold tune_token. destruct (prefixb c_STARTING_CHAR_FOR_SHAPE_NAME k).
    - unfold prefixize_shape_name, prefixize_cornered.
      destruct (remove_corners_strict (slice_from k 1)) as [cand|].
      + destruct (best_ns ns cand) as [[n p]|]; split; try discriminate; intros [_ H]; discriminate.
      + split; auto.
    - destruct (mem_str k _); [split; [discriminate | intros [H _]; discriminate]|].
      destruct (negb _).
      + destruct (contains _ _); split; try discriminate; intros [H _]; discriminate.
      + destruct (prefixize_opt ns k); split; try discriminate; intros [H _]; discriminate.
  Qed.

  Definition cm_ok (x : stmt) : Prop := s_choice x = true \/ tune_token (x_ns cfg) (s_type x) <> None.

  Lemma comment_of_total_iff x : (exists k, comment_of cfg x = inl k) <-> cm_ok x.
  Proof.
    unfold comment_of, cm_ok. destruct (s_choice x).
    - split; [auto | intros _; eexists; reflexivity].
    - destruct (tune_token (x_ns cfg) (s_type x)) as [tk|].
      + split; [intros _; right; discriminate | intros _; eexists; reflexivity].
      + split; [intros [k H]; discriminate | intros [H|H]; [discriminate | contradiction]].
  Qed.

  Lemma cm_ok_core r s : core_eq r s -> cm_ok s -> cm_ok r.
  Proof.
    intros Hc. unfold cm_ok. rewrite (core_eq_type _ _ Hc). destruct Hc as (_ & _ & _ & -> & _). auto.
  Qed.

  Lemma cm_ok_chosen g r : (forall x, In x g -> cm_ok x) -> chosen_from g r -> cm_ok r.
  Proof. intros Hg (s & Hs & Hc & _). apply (cm_ok_core r s Hc), Hg, Hs. Qed.

  Lemma tune_token_NONLITERAL ns : tune_token ns c_NONLITERAL_ELEM_TYPE <> None.
  Proof. intros H. apply tune_token_none_iff in H. destruct H as [H _]. vm_compute in H. discriminate. Qed.

  Lemma cm_ok_merge cnt g r : (forall x, In x g -> cm_ok x) -> merge_group fa cfg cnt g = inl r -> cm_ok r.
  Proof.
    intros Hg H. apply merge_group_spec in H. destruct H as (d0 & d1 & ks & Hd & Ho & Hc & _).
    apply (cm_ok_core r d1 Hc). destruct Ho as [|tys _ _ _]; [|left; reflexivity].
    destruct Hd as [d0 Hin | b i _ _ _ _]; [apply Hg; exact Hin|]. right. apply tune_token_NONLITERAL.
  Qed.

  (** [select_valid] succeeds, and keeps comments possible, as soon as a
      comment can be made of every input statement *)
  Theorem select_valid_total_cm cnt l :
    (forall x, In x l -> cm_ok x) ->
    exists out, select_valid fa cfg cnt l = inl out /\ forall r, In r out -> cm_ok r.
  Proof.
    intros Hl.
    destruct (select_valid_total cnt l) as [out E].
    - intros x Hx. apply comment_of_total_iff, Hl, Hx.
    - intros x Hx. apply comment_of_total_iff. apply (cm_ok_chosen l x Hl Hx).
    - exists out. split; [exact E|]. rewrite select_valid_eq in E.
      destruct (group_same fa cfg (List.length l) cnt l) as [l1|e] eqn:E1; [|discriminate].
      assert (H1 : forall x, In x l1 -> cm_ok x).
      { intros x Hx. pose proof (group_same_out _ _ _ _ x (le_n _) E1 Hx) as Hch.
        apply (cm_ok_chosen _ x) in Hch; [exact Hch|]. intros y Hy. apply filter_In in Hy. apply Hl; tauto. }
      intros r Hr. destruct (Forall2_In_r _ _ _ _ (group_nodes_spec _ cnt l1 out (le_n _) E) Hr) as [a [Ha Hp]].
      apply node_heads_In in Ha. unfold node_pick in Hp. destruct (node_pass a); [subst; auto|].
      assert (Hg : forall x, In x (node_group l1 a) -> cm_ok x).
      { intros x Hx. apply filter_In in Hx. apply H1; tauto. }
      destruct (node_group l1 a) as [|x [|y g]]; [destruct Hp | subst; apply Hg; left; reflexivity|].
      apply (cm_ok_merge cnt _ r Hg Hp).
  Qed.
End Lemmas.
