(** * Structural lemmas on the shexing stage (Model/Shexing.v).

    Everything here is about list functions: no frequency-algebra law is
    needed except for the order lemmas on [sort_desc] (totality and
    transitivity of [fle] on the values that occur), and those are explicit
    premises. *)
From Coq Require Import List Ascii String ZArith NArith Bool Lia Permutation Sorted.
From Shexer Require Import Lib.PyStr Lib.Dict Gen.Consts Model.Profiler Model.Tokens Model.Freq Model.Shexing.
Import ListNotations.

Arguments tune_token : simpl never.
Arguments shape_name : simpl never.

(** ** generic list facts *)

Lemma map_err_Forall2 {A B E} (f : A -> B + E) (l : list A) (out : list B) :
  map_err f l = inl out <-> Forall2 (fun x y => f x = inl y) l out.
Proof.
  revert out; induction l as [|x l IH]; intros out; cbn.
  - split; intros H; [injection H as <-; constructor | inversion H; reflexivity].
  - destruct (f x) as [y|e] eqn:Ef.
    + destruct (map_err f l) as [ys|e] eqn:Em.
      * split; intros H.
        -- injection H as <-. constructor; [exact Ef | apply IH; reflexivity].
        -- inversion H as [|? y' ? ys' Hy Hys]; subst. rewrite Ef in Hy; injection Hy as <-.
           apply IH in Hys. injection Hys as <-. reflexivity.
      * split; intros H; [discriminate|].
        inversion H as [|? y' ? ys' Hy Hys]; subst. apply IH in Hys. discriminate.
    + split; intros H; [discriminate|]. inversion H as [|? y' ? ys' Hy Hys]; subst. congruence.
Qed.

Lemma Forall2_In_l {A B} (R : A -> B -> Prop) l l' x :
  Forall2 R l l' -> In x l -> exists y, In y l' /\ R x y.
Proof.
  induction 1 as [|a b l l' Hab _ IH]; intros Hin; [destruct Hin|].
  destruct Hin as [->|Hin]; [exists b; split; [left; reflexivity | exact Hab]|].
  destruct (IH Hin) as [y [Hy Hr]]. exists y; split; [right; exact Hy | exact Hr].
Qed.

Lemma Forall2_In_r {A B} (R : A -> B -> Prop) l l' y :
  Forall2 R l l' -> In y l' -> exists x, In x l /\ R x y.
Proof.
  induction 1 as [|a b l l' Hab _ IH]; intros Hin; [destruct Hin|].
  destruct Hin as [->|Hin]; [exists a; split; [left; reflexivity | exact Hab]|].
  destruct (IH Hin) as [x [Hx Hr]]. exists x; split; [right; exact Hx | exact Hr].
Qed.

Lemma Forall2_impl_In {A B} (R S : A -> B -> Prop) l l' :
  (forall x y, In x l -> In y l' -> R x y -> S x y) -> Forall2 R l l' -> Forall2 S l l'.
Proof.
  intros H F; induction F as [|a b l l' Hab F IH]; constructor.
  - apply H; [left; reflexivity | left; reflexivity | exact Hab].
  - apply IH. intros x y Hx Hy. apply H; right; assumption.
Qed.

Lemma Forall2_map_eq {A B C} (f : A -> C) (g : B -> C) l l' :
  Forall2 (fun x y => f x = g y) l l' -> map f l = map g l'.
Proof. induction 1 as [|a b l l' Hab _ IH]; cbn; [reflexivity | rewrite Hab, IH; reflexivity]. Qed.

Lemma filter_filter_comm {A} (f g : A -> bool) l : filter f (filter g l) = filter g (filter f l).
Proof.
  induction l as [|x l IH]; cbn; [reflexivity|].
  destruct (g x) eqn:Eg, (f x) eqn:Ef; cbn; rewrite ?Eg, ?Ef, IH; reflexivity.
Qed.

Lemma filter_idem {A} (f : A -> bool) l : filter f (filter f l) = filter f l.
Proof.
  induction l as [|x l IH]; cbn; [reflexivity|].
  destruct (f x) eqn:Ef; cbn; rewrite ?Ef, IH; reflexivity.
Qed.

Lemma filter_ext_In {A} (f g : A -> bool) l : (forall x, In x l -> f x = g x) -> filter f l = filter g l.
Proof.
  induction l as [|x l IH]; intros H; cbn; [reflexivity|].
  rewrite (H x (or_introl eq_refl)), IH; [reflexivity|]. intros y Hy; apply H; right; exact Hy.
Qed.

Lemma filter_length_le {A} (f : A -> bool) l : (List.length (filter f l) <= List.length l)%nat.
Proof. induction l as [|x l IH]; cbn; [lia|]. destruct (f x); cbn; lia. Qed.

Lemma NoDup_map_filter {A B} (g : A -> B) (f : A -> bool) l : NoDup (map g l) -> NoDup (map g (filter f l)).
Proof.
  induction l as [|x l IH]; cbn; intros H; [constructor|].
  inversion H as [|? ? Hn Hd]; subst. destruct (f x); cbn; [|apply IH; exact Hd].
  constructor; [|apply IH; exact Hd].
  intros Hin. apply Hn. apply in_map_iff in Hin. destruct Hin as [y [Hy Hin]].
  apply filter_In in Hin. apply in_map_iff. exists y; tauto.
Qed.

(** ** statements: the part that is not comments *)

Definition core_eq (r s : stmt) : Prop :=
  s_inv r = s_inv s /\ s_prop r = s_prop s /\ s_types r = s_types s /\ s_choice r = s_choice s /\
  s_card r = s_card s /\ s_nocc r = s_nocc s /\ s_prob r = s_prob s.

Lemma core_eq_refl s : core_eq s s.
Proof. repeat split. Qed.

Lemma core_eq_trans a b c : core_eq a b -> core_eq b c -> core_eq a c.
Proof. unfold core_eq; intros H1 H2; intuition congruence. Qed.

Lemma core_eq_type r s : core_eq r s -> s_type r = s_type s.
Proof. intros H; unfold s_type; destruct H as (_ & _ & -> & _); reflexivity. Qed.

(** ** profile entries *)

Definition pd_entry (pd : pdict) (p k : str) (ck : ckey) (n : N) : Prop :=
  exists kd cd, In (p, kd) pd /\ In (k, cd) kd /\ In (ck, n) cd.

Definition base_stmt (inv : bool) (p k : str) (ck : ckey) (n : N) : stmt :=
  {| s_inv := inv; s_prop := p; s_types := [k]; s_choice := false;
     s_card := card_of_key ck; s_nocc := n; s_prob := PRatio n; s_comments := [] |}.

Section Lemmas.
  Variable fa : FreqAlg.
  Variable cfg : scfg.

  (** ** [base_statements] *)
  Theorem base_statements_spec thr cnt inv pd st :
    In st (base_statements fa thr cnt inv pd) <->
    exists p k ck n, pd_entry pd p k ck n /\ fle fa thr (ratio fa n cnt) = true /\
                     st = base_stmt inv p k ck n.
  Proof.
    unfold base_statements, pd_entry. rewrite in_flat_map. split.
    - intros [[p kd] [Hp H]]. apply in_flat_map in H. destruct H as [[k cd] [Hk H]].
      apply in_flat_map in H. destruct H as [[ck n] [Hc H]]. cbn in *.
      destruct (fle fa thr (ratio fa n cnt)) eqn:E; [|destruct H].
      destruct H as [<-|[]]. exists p, k, ck, n. split; [exists kd, cd; auto|]. split; [exact E | reflexivity].
    - intros (p & k & ck & n & (kd & cd & Hp & Hk & Hc) & E & ->).
      exists (p, kd). split; [exact Hp|]. apply in_flat_map. exists (k, cd). split; [exact Hk|].
      apply in_flat_map. exists (ck, n). split; [exact Hc|]. cbn. rewrite E. left; reflexivity.
  Qed.

  (** ** [sort_desc] *)
  Lemma insert_desc_perm cnt x l : Permutation (x :: l) (insert_desc fa cnt x l).
  Proof.
    induction l as [|y l IH]; cbn; [apply Permutation_refl|].
    destruct (fle fa (pv fa cnt x) (pv fa cnt y)); [|apply Permutation_refl].
    eapply perm_trans; [apply perm_swap|]. apply perm_skip. exact IH.
  Qed.

  Lemma fold_insert_perm cnt l acc :
    Permutation (l ++ acc) (fold_left (fun acc x => insert_desc fa cnt x acc) l acc).
  Proof.
    revert acc; induction l as [|x l IH]; intros acc; cbn; [apply Permutation_refl|].
    eapply perm_trans; [|apply IH].
    eapply perm_trans; [apply Permutation_middle|].
    apply Permutation_app_head. apply insert_desc_perm.
  Qed.

  Theorem sort_desc_perm cnt l : Permutation l (sort_desc fa cnt l).
  Proof.
    unfold sort_desc. eapply perm_trans; [|apply fold_insert_perm]. rewrite app_nil_r. apply Permutation_refl.
  Qed.

  Theorem sort_desc_In cnt l x : In x (sort_desc fa cnt l) <-> In x l.
  Proof.
    split; apply Permutation_in; [apply Permutation_sym|]; apply sort_desc_perm.
  Qed.

  Lemma sort_desc_length cnt l : List.length (sort_desc fa cnt l) = List.length l.
  Proof. symmetry. apply Permutation_length, sort_desc_perm. Qed.

  Lemma sort_desc_nil cnt : sort_desc fa cnt [] = [].
  Proof. reflexivity. Qed.

  (** descending order: [a] may stand before [b] *)
  Definition ge_pv (cnt : N) (a b : stmt) : Prop := fle fa (pv fa cnt b) (pv fa cnt a) = true.

  Section Order.
    Variable cnt : N.
    Variable okF : F fa -> Prop.
    Hypothesis fle_trans : forall a b c, okF a -> okF b -> okF c ->
      fle fa a b = true -> fle fa b c = true -> fle fa a c = true.
    Hypothesis fle_total : forall a b, okF a -> okF b -> fle fa a b = true \/ fle fa b a = true.

    Definition okS (s : stmt) : Prop := okF (pv fa cnt s).

    Lemma insert_desc_sorted x l :
      okS x -> Forall okS l -> StronglySorted (ge_pv cnt) l -> StronglySorted (ge_pv cnt) (insert_desc fa cnt x l).
    Proof.
      intros Hx Hl Hs. induction Hs as [|y l Hs IH Hy]; cbn; [constructor; [constructor | constructor]|].
      inversion Hl as [|? ? Hoy Hol]; subst.
      destruct (fle fa (pv fa cnt x) (pv fa cnt y)) eqn:E.
      - constructor; [apply IH; exact Hol|].
        apply Forall_forall. intros z Hz.
        apply (Permutation_in _ (Permutation_sym (insert_desc_perm cnt x l))) in Hz.
        destruct Hz as [<-|Hz]; [exact E|]. rewrite Forall_forall in Hy. apply Hy; exact Hz.
      - constructor; [constructor; assumption|].
        assert (Hyx : ge_pv cnt x y).
        { unfold ge_pv. destruct (fle_total (pv fa cnt x) (pv fa cnt y) Hx Hoy) as [H|H]; [congruence | exact H]. }
        constructor; [exact Hyx|].
        apply Forall_forall. intros z Hz. rewrite Forall_forall in Hy, Hol.
        unfold ge_pv in *. apply (fle_trans _ (pv fa cnt y)); auto. apply Hol; exact Hz.
    Qed.

    Lemma fold_insert_sorted l acc :
      Forall okS l -> Forall okS acc -> StronglySorted (ge_pv cnt) acc ->
      StronglySorted (ge_pv cnt) (fold_left (fun acc x => insert_desc fa cnt x acc) l acc).
    Proof.
      revert acc; induction l as [|x l IH]; intros acc Hl Ha Hs; cbn; [exact Hs|].
      inversion Hl as [|? ? Hx Hl']; subst.
      apply IH; [exact Hl' | | apply insert_desc_sorted; assumption].
      apply Forall_forall. intros z Hz.
      apply (Permutation_in _ (Permutation_sym (insert_desc_perm cnt x acc))) in Hz.
      rewrite Forall_forall in Ha. destruct Hz as [<-|Hz]; auto.
    Qed.

    Theorem sort_desc_sorted l : Forall okS l -> StronglySorted (ge_pv cnt) (sort_desc fa cnt l).
    Proof. intros H. unfold sort_desc. apply fold_insert_sorted; [exact H | constructor | constructor]. Qed.

    (** stability: the statements that are exactly as probable as [v] keep
        their relative order *)
    Definition same_pv (v : F fa) (s : stmt) : bool :=
      fle fa (pv fa cnt s) v && fle fa v (pv fa cnt s).

    Lemma insert_desc_stable v x l :
      okF v -> okS x -> Forall okS l -> StronglySorted (ge_pv cnt) l ->
      filter (same_pv v) (insert_desc fa cnt x l) = filter (same_pv v) l ++ filter (same_pv v) [x].
    Proof.
      intros Hv Hx Hl Hs. induction Hs as [|y l Hs IH Hy]; [cbn; reflexivity|].
      inversion Hl as [|? ? Hoy Hol]; subst. cbn [insert_desc].
      destruct (fle fa (pv fa cnt x) (pv fa cnt y)) eqn:E.
      - cbn [filter]. rewrite (IH Hol). destruct (same_pv v y); reflexivity.
      - destruct (same_pv v x) eqn:Ecx.
        2:{ cbn [filter]. rewrite Ecx. rewrite app_nil_r. reflexivity. }
        assert (Hnone : forall z, In z (y :: l) -> same_pv v z = false).
        { intros z Hz. destruct (same_pv v z) eqn:Ecz; [|reflexivity]. exfalso.
          assert (Hoz : okS z) by (rewrite Forall_forall in Hl; apply Hl; exact Hz).
          assert (Hzy : fle fa (pv fa cnt z) (pv fa cnt y) = true).
          { destruct Hz as [<-|Hz].
            - destruct (fle_total _ _ Hoy Hoy); assumption.
            - rewrite Forall_forall in Hy. apply Hy; exact Hz. }
          unfold same_pv in Ecx, Ecz. apply andb_true_iff in Ecx, Ecz.
          destruct Ecx as [Hxv _]. destruct Ecz as [_ Hvz].
          assert (Hxz : fle fa (pv fa cnt x) (pv fa cnt z) = true) by (apply (fle_trans _ v); assumption).
          rewrite (fle_trans _ _ _ Hx Hoz Hoy Hxz Hzy) in E. discriminate. }
        assert (Hnil : filter (same_pv v) (y :: l) = []).
        { clear -Hnone. induction (y :: l) as [|z l' IH']; [reflexivity|]. cbn.
          rewrite (Hnone z (or_introl eq_refl)). apply IH'. intros w Hw; apply Hnone; right; exact Hw. }
        change (filter (same_pv v) (x :: y :: l)) with
          (if same_pv v x then x :: filter (same_pv v) (y :: l) else filter (same_pv v) (y :: l)).
        rewrite Hnil, Ecx. cbn. rewrite Ecx. reflexivity.
    Qed.

    Lemma fold_insert_stable v l acc :
      okF v -> Forall okS l -> Forall okS acc -> StronglySorted (ge_pv cnt) acc ->
      filter (same_pv v) (fold_left (fun acc x => insert_desc fa cnt x acc) l acc) =
      filter (same_pv v) acc ++ filter (same_pv v) l.
    Proof.
      intros Hv. revert acc; induction l as [|x l IH]; intros acc Hl Ha Hs; cbn [fold_left].
      - cbn. rewrite app_nil_r. reflexivity.
      - inversion Hl as [|? ? Hx Hl']; subst.
        rewrite IH; [| exact Hl' | | apply insert_desc_sorted; assumption].
        + rewrite insert_desc_stable by assumption. rewrite <- app_assoc. f_equal.
          cbn. destruct (same_pv v x); reflexivity.
        + apply Forall_forall. intros z Hz.
          apply (Permutation_in _ (Permutation_sym (insert_desc_perm cnt x acc))) in Hz.
          rewrite Forall_forall in Ha. destruct Hz as [<-|Hz]; auto.
    Qed.

    Theorem sort_desc_stable v l :
      okF v -> Forall okS l -> filter (same_pv v) (sort_desc fa cnt l) = filter (same_pv v) l.
    Proof.
      intros Hv Hl. unfold sort_desc. rewrite fold_insert_stable; [reflexivity | exact Hv | exact Hl | constructor | constructor].
    Qed.
  End Order.
End Lemmas.
