(** * Lemmas about the streaming Turtle reader model (C07). *)
From Coq Require Import List Ascii String ZArith Bool Lia.
From Shexer Require Import Lib.PyStr Lib.Dict Gen.Consts Spec.Rdf Spec.TtlSyntax Spec.TtlDomain Model.TtlReader.
Import ListNotations.
Local Open Scope Z_scope.

(** ** T1 -- the state machine, for any placement of the line breaks *)

(** the machine run over an already tokenised line *)
Fixpoint machine (toks : list str) (s : st) : list triple * res st :=
  match toks with
  | [] => ([], Ok s)
  | t :: toks' =>
    match step s t with
    | (ts, Ok s') => let (ts', r) := machine toks' s' in (ts ++ ts', r)
    | (ts, Err e) => (ts, Err e)
    end
  end.

(** ... and over several lines, the state persisting from one line to the next *)
Fixpoint machine_lines (ls : list (list str)) (s : st) : list triple * res st :=
  match ls with
  | [] => ([], Ok s)
  | l :: ls' =>
    match machine l s with
    | (ts, Ok s') => let (ts', r) := machine_lines ls' s' in (ts ++ ts', r)
    | (ts, Err e) => (ts, Err e)
    end
  end.

Lemma machine_app a b s :
  machine (a ++ b) s =
  match machine a s with
  | (ts, Ok s') => let (ts', r) := machine b s' in (ts ++ ts', r)
  | (ts, Err e) => (ts, Err e)
  end.
Proof.
  revert s; induction a as [|t a IH]; intros s; cbn.
  - destruct (machine b s); reflexivity.
  - destruct (step s t) as [ts [s'|e]]; [|reflexivity].
    rewrite IH. destruct (machine a s') as [ts1 [s1|e1]].
    + destruct (machine b s1) as [ts2 r2]. rewrite app_assoc. reflexivity.
    + reflexivity.
Qed.

(** the line structure is irrelevant: only the token sequence matters *)
Lemma machine_lines_concat ls s : machine_lines ls s = machine (List.concat ls) s.
Proof.
  revert s; induction ls as [|l ls IH]; intros s; cbn; [reflexivity|].
  rewrite machine_app. destruct (machine l s) as [ts [s'|e]]; [|reflexivity].
  rewrite IH. reflexivity.
Qed.

Definition same_env (s s' : st) : Prop := prefixes s = prefixes s' /\ base s = base s'.

Lemma same_env_refl s : same_env s s. Proof. split; reflexivity. Qed.

Definition erase_obj (o : obj) : obj := match o with OL _ dt => OL [] dt | ON n => ON n end.

Lemma erase_lex_T n p o : erase_lex (T n p o) = T n p (erase_obj o).
Proof. destruct o; reflexivity. Qed.

(** what [_next_line_token] hands over for the token text [tok] *)
Definition vtok (b : option str) (tok : str) : str :=
  if prefixb s_lt tok then match parse_cornered b tok with Ok r => r | Err _ => tok end else tok.

Definition closure_tok (t : atok) : bool :=
  match t with AComma | ASemi | ADot => true | _ => false end.

Section StateMachine.
  (** [e]: the environment of the spec; [s0]: any reader state with the
      corresponding prefixes and base.  [okS/okP/okO]: a token-level domain
      on which each token alone is read correctly (T4 provides it). *)
  Variable e : env.
  Variable s0 : st.
  Variables (okS : subj -> bool) (okP : pred -> bool) (okO : object -> bool).

  Definition tokS (x : subj) : str := vtok (base s0) (render_subj x).
  Definition tokP (x : pred) : str := vtok (base s0) (render_pred x).
  Definition tokO (x : object) : str := vtok (base s0) (render_obj x).

  Definition tok_str (t : atok) : str :=
    match t with
    | ASubj x => tokS x | APred x => tokP x | AObj x => tokO x
    | AComma => Str "," | ASemi => Str ";" | ADot => Str "."
    end.

  Hypothesis HS : forall x n s, same_env s s0 -> okS x = true -> sem_subj e x = Some n ->
    closure_state (tokS x) = None /\
    exists raw, parse_elem s (tokS x) = Ok (Some raw) /\ tune_subj (Some raw) = Ok n.
  Hypothesis HP : forall x p s, same_env s s0 -> okP x = true -> sem_pred e x = Some p ->
    closure_state (tokP x) = None /\
    exists raw, parse_elem s (tokP x) = Ok (Some raw) /\ tune_prop (Some raw) = Ok p.
  Hypothesis HO : forall x o s, same_env s s0 -> okO x = true -> sem_obj e x = Some o ->
    closure_state (tokO x) = None /\
    exists raw o', parse_elem s (tokO x) = Ok (Some raw) /\
                   tune_token (Some raw) (base s) ttl_dflt_allow_untyped_numbers = Ok o' /\
                   erase_obj o' = erase_obj o.

  Definition group_ok (g : group) : bool :=
    okS (g_subj g) && negb (Nat.eqb (List.length (g_pos g)) 0) &&
    forallb (fun po => okP (fst po) && negb (Nat.eqb (List.length (snd po)) 0) && forallb okO (snd po)) (g_pos g).

  (** registers loaded with a subject and a predicate that tune to [n], [p] *)
  Definition loaded_sp (s : st) (n : node) (p : str) : Prop :=
    same_env s s0 /\ tune_subj (tmp_s s) = Ok n /\ tune_prop (tmp_p s) = Ok p.

  (** one object followed by a closure token *)
  Lemma obj_then_closure x o c cs s n p :
    loaded_sp s n p -> state s = WO -> okO x = true -> sem_obj e x = Some o ->
    closure_state c = Some cs ->
    exists s' o', machine [tokO x; c] s = ([T n p o'], Ok s') /\ erase_obj o' = erase_obj o /\
                  loaded_sp s' n p /\ state s' = cs.
  Proof.
    intros (Henv & Hn & Hp) Hst Hok Hsem Hc.
    destruct (HO x o s Henv Hok Hsem) as (Hnc & raw & o' & Hpe & Htt & Her).
    exists (St (prefixes s) (base s) cs (tmp_s s) (tmp_p s) (Some raw)), o'.
    cbn [machine]. unfold step at 1. rewrite Hnc. unfold assign. rewrite Hst, Hpe. cbn [bind].
    unfold step. rewrite Hc. unfold tune_triple. cbn [tmp_s tmp_p tmp_o base].
    rewrite Hn, Hp, Htt. cbn [bind]. cbn.
    repeat split; auto; try apply Henv.
  Qed.

  Definition sem_objs (os : list object) : option (list obj) := seq_opt (map (sem_obj e) os).

  Lemma seq_opt_cons {A} (a : option A) l r :
    seq_opt (a :: l) = Some r -> exists x r', a = Some x /\ seq_opt l = Some r' /\ r = x :: r'.
  Proof.
    cbn. destruct a as [x|]; [|discriminate]. destruct (seq_opt l) as [r'|]; cbn; [|discriminate].
    intros H; inversion H; subst. eauto.
  Qed.

  (** an object list [o1 , o2 , ... on] followed by the closure [c] *)
  Lemma objs_then_closure os : forall x ms c cs s n p,
    loaded_sp s n p -> state s = WO ->
    forallb okO (x :: os) = true -> sem_objs (x :: os) = Some ms ->
    closure_state c = Some cs ->
    exists s' ts, machine (map tok_str (sep_concat [AComma] (map (fun o => [AObj o]) (x :: os))) ++ [c]) s = (ts, Ok s') /\
                  map erase_lex ts = map erase_lex (map (T n p) ms) /\
                  loaded_sp s' n p /\ state s' = cs.
  Proof.
    induction os as [|y os IH]; intros x ms c cs s n p Hl Hst Hok Hsem Hc.
    - cbn in Hok. rewrite andb_true_r in Hok.
      apply seq_opt_cons in Hsem. destruct Hsem as (o & r' & Ho & Hr & ->). cbn in Hr. inversion Hr; subst.
      destruct (obj_then_closure x o c cs s n p Hl Hst Hok Ho Hc) as (s' & o' & Hm & He & Hl' & Hs').
      exists s', [T n p o']. cbn [sep_concat map app tok_str]. split; [exact Hm|].
      split; [cbn; rewrite !erase_lex_T, He; reflexivity | auto].
    - cbn [forallb] in Hok. apply andb_true_iff in Hok. destruct Hok as [Hx Hrest].
      apply seq_opt_cons in Hsem. destruct Hsem as (o & r' & Ho & Hr & ->).
      destruct (obj_then_closure x o (Str ",") WO s n p Hl Hst Hx Ho eq_refl) as (s1 & o' & Hm & He & Hl1 & Hs1).
      destruct (IH y r' c cs s1 n p Hl1 Hs1 Hrest Hr Hc) as (s2 & ts & Hm2 & He2 & Hl2 & Hs2).
      exists s2, (T n p o' :: ts).
      change (sep_concat [AComma] (map (fun o0 => [AObj o0]) (x :: y :: os)))
        with ([AObj x] ++ [AComma] ++ sep_concat [AComma] (map (fun o0 => [AObj o0]) (y :: os))).
      rewrite !map_app, <- !app_assoc.
      change (map tok_str [AObj x] ++ map tok_str [AComma] ++ ?r) with ([tokO x; Str ","] ++ r).
      rewrite machine_app, Hm, Hm2. split; [reflexivity|].
      split; [cbn; rewrite !erase_lex_T, He; f_equal; exact He2 | auto].
  Qed.

  Definition loaded_s (s : st) (n : node) : Prop := same_env s s0 /\ tune_subj (tmp_s s) = Ok n.

  (** predicate, object list, closure *)
  Lemma po_then_closure po ms q c cs s n :
    loaded_s s n -> state s = WP ->
    okP (fst po) = true -> negb (Nat.eqb (List.length (snd po)) 0) = true -> forallb okO (snd po) = true ->
    sem_pred e (fst po) = Some q -> sem_objs (snd po) = Some ms ->
    closure_state c = Some cs ->
    exists s' ts, machine (map tok_str (po_tokens po) ++ [c]) s = (ts, Ok s') /\
                  map erase_lex ts = map erase_lex (map (T n q) ms) /\
                  loaded_s s' n /\ state s' = cs.
  Proof.
    destruct po as [x os]. cbn [fst snd]. intros (Henv & Hn) Hst Hx Hne Hos Hq Hms Hc.
    destruct os as [|o os]; [discriminate|].
    destruct (HP x q s Henv Hx Hq) as (Hnc & raw & Hpe & Htp).
    set (s1 := St (prefixes s) (base s) WO (tmp_s s) (Some raw) (tmp_o s)).
    assert (Hl1 : loaded_sp s1 n q) by (repeat split; auto; apply Henv).
    destruct (objs_then_closure os o ms c cs s1 n q) as (s2 & ts & Hm & He & Hl2 & Hs2); auto.
    exists s2, ts. unfold po_tokens. cbn [fst snd].
    change (map tok_str (APred x :: ?l) ++ [c]) with ([tokP x] ++ (map tok_str l ++ [c])). rewrite machine_app.
    cbn [machine]. unfold step at 1. rewrite Hnc. unfold assign. rewrite Hst, Hpe. cbn [bind]. fold s1.
    rewrite Hm. cbn. split; [reflexivity|]. split; [exact He|].
    destruct Hl2 as (A & B & C). repeat split; auto; apply A.
  Qed.

  Definition po_ok (po : pred * list object) : bool :=
    okP (fst po) && negb (Nat.eqb (List.length (snd po)) 0) && forallb okO (snd po).

  Lemma sem_po_inv n po ts :
    sem_po e n po = Some ts ->
    exists q ms, sem_pred e (fst po) = Some q /\ sem_objs (snd po) = Some ms /\ ts = map (T n q) ms.
  Proof.
    unfold sem_po, sem_objs. destruct (sem_pred e (fst po)) as [q|]; [|discriminate].
    destruct (seq_opt (map (sem_obj e) (snd po))) as [ms|]; cbn; [|discriminate].
    intros H; inversion H; eauto.
  Qed.

  (** the predicate-object lists of a group, separated by [;], closed by [.] *)
  Lemma pos_then_dot pos : forall po tss s n,
    loaded_s s n -> state s = WP ->
    forallb po_ok (po :: pos) = true ->
    seq_opt (map (sem_po e n) (po :: pos)) = Some tss ->
    exists s' ts, machine (map tok_str (sep_concat [ASemi] (map po_tokens (po :: pos)) ++ [ADot])) s = (ts, Ok s') /\
                  map erase_lex ts = map erase_lex (List.concat tss) /\
                  same_env s' s0 /\ state s' = WS.
  Proof.
    induction pos as [|po2 pos IH]; intros po tss s n Hl Hst Hok Hsem.
    - cbn in Hok. rewrite andb_true_r in Hok. unfold po_ok in Hok. rewrite !andb_true_iff in Hok.
      destruct Hok as [[Hx Hne] Hos].
      apply seq_opt_cons in Hsem. destruct Hsem as (ts0 & r' & Hpo & Hr & ->). cbn in Hr. inversion Hr; subst.
      apply sem_po_inv in Hpo. destruct Hpo as (q & ms & Hq & Hms & ->).
      destruct (po_then_closure po ms q (Str ".") WS s n Hl Hst Hx Hne Hos Hq Hms eq_refl) as (s' & ts & Hm & He & Hl' & Hs').
      exists s', ts. cbn [sep_concat map]. rewrite map_app. cbn [map tok_str].
      split; [exact Hm|]. split; [cbn; rewrite app_nil_r; exact He|]. split; [apply Hl' | exact Hs'].
    - cbn [forallb] in Hok. apply andb_true_iff in Hok. destruct Hok as [Hpo_ok Hrest].
      unfold po_ok in Hpo_ok. rewrite !andb_true_iff in Hpo_ok. destruct Hpo_ok as [[Hx Hne] Hos].
      apply seq_opt_cons in Hsem. destruct Hsem as (ts0 & r' & Hpo & Hr & ->).
      apply sem_po_inv in Hpo. destruct Hpo as (q & ms & Hq & Hms & ->).
      destruct (po_then_closure po ms q (Str ";") WP s n Hl Hst Hx Hne Hos Hq Hms eq_refl) as (s1 & ts1 & Hm1 & He1 & Hl1 & Hs1).
      destruct (IH po2 r' s1 n Hl1 Hs1 Hrest Hr) as (s2 & ts2 & Hm2 & He2 & Henv2 & Hs2).
      exists s2, (ts1 ++ ts2).
      change (sep_concat [ASemi] (map po_tokens (po :: po2 :: pos)))
        with (po_tokens po ++ [ASemi] ++ sep_concat [ASemi] (map po_tokens (po2 :: pos))).
      rewrite <- !app_assoc, !map_app. rewrite app_assoc.
      change (map tok_str [ASemi]) with [Str ";"].
      rewrite machine_app, Hm1. rewrite <- map_app, Hm2.
      split; [reflexivity|]. split; [|auto].
      cbn [List.concat]. rewrite !map_app, He1, He2. reflexivity.
  Qed.

  Lemma sem_group_inv g ts :
    sem_group e g = Some ts ->
    exists n tss, sem_subj e (g_subj g) = Some n /\ seq_opt (map (sem_po e n) (g_pos g)) = Some tss /\ ts = List.concat tss.
  Proof.
    unfold sem_group. destruct (sem_subj e (g_subj g)) as [n|]; [|discriminate].
    destruct (seq_opt (map (sem_po e n) (g_pos g))) as [tss|] eqn:E; cbn; [|discriminate].
    intros H; inversion H; exists n, tss; auto.
  Qed.

  (** one statement group, from the subject to the final dot *)
  Lemma group_run g ts s :
    same_env s s0 -> state s = WS -> group_ok g = true -> sem_group e g = Some ts ->
    exists s' ts', machine (map tok_str (group_tokens g)) s = (ts', Ok s') /\
                   map erase_lex ts' = map erase_lex ts /\ same_env s' s0 /\ state s' = WS.
  Proof.
    intros Henv Hst Hok Hsem. unfold group_ok in Hok. rewrite !andb_true_iff in Hok.
    destruct Hok as [[Hs Hne] Hpos].
    apply sem_group_inv in Hsem. destruct Hsem as (n & tss & Hn & Htss & ->).
    destruct (g_pos g) as [|po pos] eqn:Epos; [discriminate|].
    destruct (HS (g_subj g) n s Henv Hs Hn) as (Hnc & raw & Hpe & Hts).
    set (s1 := St (prefixes s) (base s) WP (Some raw) (tmp_p s) (tmp_o s)).
    assert (Hl1 : loaded_s s1 n) by (repeat split; auto; apply Henv).
    destruct (pos_then_dot pos po tss s1 n Hl1 eq_refl Hpos Htss) as (s2 & ts2 & Hm & He & Henv2 & Hs2).
    exists s2, ts2. unfold group_tokens. rewrite Epos.
    change (map tok_str (ASubj (g_subj g) :: ?l)) with ([tokS (g_subj g)] ++ map tok_str l). rewrite machine_app.
    cbn [machine]. unfold step at 1. rewrite Hnc. unfold assign. rewrite Hst, Hpe. cbn [bind]. fold s1.
    rewrite Hm. cbn. auto.
  Qed.

  (** T1: any number of groups, their tokens split into lines ANYWHERE *)
  Lemma groups_run gs : forall tss s,
    same_env s s0 -> state s = WS -> forallb group_ok gs = true ->
    seq_opt (map (sem_group e) gs) = Some tss ->
    exists s' ts', machine (map tok_str (flat_map group_tokens gs)) s = (ts', Ok s') /\
                   map erase_lex ts' = map erase_lex (List.concat tss) /\ same_env s' s0 /\ state s' = WS.
  Proof.
    induction gs as [|g gs IH]; intros tss s Henv Hst Hok Hsem.
    - cbn in Hsem. inversion Hsem; subst. exists s, []. cbn. auto.
    - cbn [forallb] in Hok. apply andb_true_iff in Hok. destruct Hok as [Hg Hrest].
      apply seq_opt_cons in Hsem. destruct Hsem as (ts0 & r' & Hg0 & Hr & ->).
      destruct (group_run g ts0 s Henv Hst Hg Hg0) as (s1 & ts1 & Hm1 & He1 & Henv1 & Hs1).
      destruct (IH r' s1 Henv1 Hs1 Hrest Hr) as (s2 & ts2 & Hm2 & He2 & Henv2 & Hs2).
      exists s2, (ts1 ++ ts2). cbn [flat_map]. rewrite map_app, machine_app, Hm1, Hm2.
      split; [reflexivity|]. split; [|auto]. cbn [List.concat]. rewrite !map_app, He1, He2. reflexivity.
  Qed.

  Theorem state_machine_any_split gs (ls : list (list atok)) tss s :
    same_env s s0 -> state s = WS -> forallb group_ok gs = true ->
    seq_opt (map (sem_group e) gs) = Some tss ->
    List.concat ls = flat_map group_tokens gs ->
    exists s' ts', machine_lines (map (map tok_str) ls) s = (ts', Ok s') /\
                   map erase_lex ts' = map erase_lex (List.concat tss) /\ same_env s' s0 /\ state s' = WS.
  Proof.
    intros Henv Hst Hok Hsem Hsplit.
    rewrite machine_lines_concat, <- concat_map, Hsplit.
    apply groups_run; assumption.
  Qed.
End StateMachine.
