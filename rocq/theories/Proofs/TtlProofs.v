(** * Lemmas about the streaming Turtle reader model (C07). *)
From Coq Require Import List Ascii String ZArith Bool Lia.
From Shexer Require Import Lib.PyStr Lib.Dict Gen.Consts Spec.Rdf Spec.TtlSyntax Spec.TtlDomain Model.TtlReader.
Import ListNotations.
Local Open Scope Z_scope.
