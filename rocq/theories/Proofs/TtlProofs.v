(** * Lemmas about the streaming Turtle reader model (C07). *)
From Coq Require Import List Ascii String ZArith Bool Lia.
From Shexer Require Import Lib.PyStr Lib.Dict Gen.Consts Spec.Rdf Spec.TtlSyntax Spec.TtlDomain Model.TtlReader.
Import ListNotations.
Local Open Scope Z_scope.

(** ** T1 -- the state machine, for any placement of the line breaks *)

(** the machine run over an already tokenised line *)
Fixpoint machine (toks : list str) (s : st) : list triple * res st :=
  match toks with
  | [] => ([], Ok s)
  | t :: toks' =>
    match step s t with
    | (ts, Ok s') => let (ts', r) := machine toks' s' in (ts ++ ts', r)
    | (ts, Err e) => (ts, Err e)
    end
  end.

(** ... and over several lines, the state persisting from one line to the next *)
Fixpoint machine_lines (ls : list (list str)) (s : st) : list triple * res st :=
  match ls with
  | [] => ([], Ok s)
  | l :: ls' =>
    match machine l s with
    | (ts, Ok s') => let (ts', r) := machine_lines ls' s' in (ts ++ ts', r)
    | (ts, Err e) => (ts, Err e)
    end
  end.

Lemma machine_app a b s :
  machine (a ++ b) s =
  match machine a s with
  | (ts, Ok s') => let (ts', r) := machine b s' in (ts ++ ts', r)
  | (ts, Err e) => (ts, Err e)
  end.
Proof.
  revert s; induction a as [|t a IH]; intros s; cbn.
  - destruct (machine b s); reflexivity.
  - destruct (step s t) as [ts [s'|e]]; [|reflexivity].
    rewrite IH. destruct (machine a s') as [ts1 [s1|e1]].
    + destruct (machine b s1) as [ts2 r2]. rewrite app_assoc. reflexivity.
    + reflexivity.
Qed.

(** the line structure is irrelevant: only the token sequence matters *)
Lemma machine_lines_concat ls s : machine_lines ls s = machine (List.concat ls) s.
Proof.
  revert s; induction ls as [|l ls IH]; intros s; cbn; [reflexivity|].
  rewrite machine_app. destruct (machine l s) as [ts [s'|e]]; [|reflexivity].
  rewrite IH. reflexivity.
Qed.

Definition same_env (s s' : st) : Prop := prefixes s = prefixes s' /\ base s = base s'.

Lemma same_env_refl s : same_env s s. Proof. split; reflexivity. Qed.

Definition erase_obj (o : obj) : obj := match o with OL _ dt => OL [] dt | ON n => ON n end.

Lemma erase_lex_T n p o : erase_lex (T n p o) = T n p (erase_obj o).
Proof. destruct o; reflexivity. Qed.

(** what [_next_line_token] hands over for the token text [tok] *)
Definition vtok (b : option str) (tok : str) : str :=
  if ttl_base_applied_once then tok
  else if prefixb s_lt tok then match parse_cornered b tok with Ok r => r | Err _ => tok end else tok.

Definition closure_tok (t : atok) : bool :=
  match t with AComma | ASemi | ADot => true | _ => false end.

Section StateMachine.
  (** [e]: the environment of the spec; [s0]: any reader state with the
      corresponding prefixes and base.  [okS/okP/okO]: a token-level domain
      on which each token alone is read correctly (T4 provides it). *)
  Variable e : env.
  Variable s0 : st.
  Variables (okS : subj -> bool) (okP : pred -> bool) (okO : object -> bool).

  Definition tokS (x : subj) : str := vtok (base s0) (render_subj x).
  Definition tokP (x : pred) : str := vtok (base s0) (render_pred x).
  Definition tokO (x : object) : str := vtok (base s0) (render_obj x).

  Definition tok_str (t : atok) : str :=
    match t with
    | ASubj x => tokS x | APred x => tokP x | AObj x => tokO x
    | AComma => Str "," | ASemi => Str ";" | ADot => Str "."
    end.

  Hypothesis HS : forall x n s, same_env s s0 -> okS x = true -> sem_subj e x = Some n ->
    closure_state (tokS x) = None /\
    exists raw, parse_elem s (tokS x) = Ok (Some raw) /\ tune_subj (Some raw) = Ok n.
  Hypothesis HP : forall x p s, same_env s s0 -> okP x = true -> sem_pred e x = Some p ->
    closure_state (tokP x) = None /\
    exists raw, parse_elem s (tokP x) = Ok (Some raw) /\ tune_prop (Some raw) = Ok p.
  Hypothesis HO : forall x o s, same_env s s0 -> okO x = true -> sem_obj e x = Some o ->
    closure_state (tokO x) = None /\
    exists raw o', parse_elem s (tokO x) = Ok (Some raw) /\
                   tune_token (Some raw) (base s) ttl_dflt_allow_untyped_numbers = Ok o' /\
                   erase_obj o' = erase_obj o.

  Definition group_ok (g : group) : bool :=
    okS (g_subj g) && negb (Nat.eqb (List.length (g_pos g)) 0) &&
    forallb (fun po => okP (fst po) && negb (Nat.eqb (List.length (snd po)) 0) && forallb okO (snd po)) (g_pos g).

  (** registers loaded with a subject and a predicate that tune to [n], [p] *)
  Definition loaded_sp (s : st) (n : node) (p : str) : Prop :=
    same_env s s0 /\ tune_subj (tmp_s s) = Ok n /\ tune_prop (tmp_p s) = Ok p.

  (** one object followed by a closure token *)
  Lemma obj_then_closure x o c cs s n p :
    loaded_sp s n p -> state s = WO -> okO x = true -> sem_obj e x = Some o ->
    closure_state c = Some cs ->
    exists s' o', machine [tokO x; c] s = ([T n p o'], Ok s') /\ erase_obj o' = erase_obj o /\
                  loaded_sp s' n p /\ state s' = cs.
  Proof.
    intros (Henv & Hn & Hp) Hst Hok Hsem Hc.
    destruct (HO x o s Henv Hok Hsem) as (Hnc & raw & o' & Hpe & Htt & Her).
    exists (St (prefixes s) (base s) cs (tmp_s s) (tmp_p s) (Some raw)), o'.
    cbn [machine]. unfold step at 1. rewrite Hnc. unfold assign. rewrite Hst, Hpe. cbn [bind].
    unfold step. rewrite Hc. unfold tune_triple. cbn [tmp_s tmp_p tmp_o base].
    rewrite Hn, Hp, Htt. cbn [bind]. cbn.
    repeat split; auto; try apply Henv.
  Qed.

  Definition sem_objs (os : list object) : option (list obj) := seq_opt (map (sem_obj e) os).

  Lemma seq_opt_cons {A} (a : option A) l r :
    seq_opt (a :: l) = Some r -> exists x r', a = Some x /\ seq_opt l = Some r' /\ r = x :: r'.
  Proof.
    cbn. destruct a as [x|]; [|discriminate]. destruct (seq_opt l) as [r'|]; cbn; [|discriminate].
    intros H; inversion H; subst. eauto.
  Qed.

  (** an object list [o1 , o2 , ... on] followed by the closure [c] *)
  Lemma objs_then_closure os : forall x ms c cs s n p,
    loaded_sp s n p -> state s = WO ->
    forallb okO (x :: os) = true -> sem_objs (x :: os) = Some ms ->
    closure_state c = Some cs ->
    exists s' ts, machine (map tok_str (sep_concat [AComma] (map (fun o => [AObj o]) (x :: os))) ++ [c]) s = (ts, Ok s') /\
                  map erase_lex ts = map erase_lex (map (T n p) ms) /\
                  loaded_sp s' n p /\ state s' = cs.
  Proof.
    induction os as [|y os IH]; intros x ms c cs s n p Hl Hst Hok Hsem Hc.
    - cbn in Hok. rewrite andb_true_r in Hok.
      apply seq_opt_cons in Hsem. destruct Hsem as (o & r' & Ho & Hr & ->). cbn in Hr. inversion Hr; subst.
      destruct (obj_then_closure x o c cs s n p Hl Hst Hok Ho Hc) as (s' & o' & Hm & He & Hl' & Hs').
      exists s', [T n p o']. cbn [sep_concat map app tok_str]. split; [exact Hm|].
      split; [cbn; rewrite !erase_lex_T, He; reflexivity | auto].
    - cbn [forallb] in Hok. apply andb_true_iff in Hok. destruct Hok as [Hx Hrest].
      apply seq_opt_cons in Hsem. destruct Hsem as (o & r' & Ho & Hr & ->).
      destruct (obj_then_closure x o (Str ",") WO s n p Hl Hst Hx Ho eq_refl) as (s1 & o' & Hm & He & Hl1 & Hs1).
      destruct (IH y r' c cs s1 n p Hl1 Hs1 Hrest Hr Hc) as (s2 & ts & Hm2 & He2 & Hl2 & Hs2).
      exists s2, (T n p o' :: ts).
      change (sep_concat [AComma] (map (fun o0 => [AObj o0]) (x :: y :: os)))
        with ([AObj x] ++ [AComma] ++ sep_concat [AComma] (map (fun o0 => [AObj o0]) (y :: os))).
      rewrite !map_app, <- !app_assoc.
      change (map tok_str [AObj x] ++ map tok_str [AComma] ++ ?r) with ([tokO x; Str ","] ++ r).
      rewrite machine_app, Hm, Hm2. split; [reflexivity|].
      split; [cbn; rewrite !erase_lex_T, He; f_equal; exact He2 | auto].
  Qed.

  Definition loaded_s (s : st) (n : node) : Prop := same_env s s0 /\ tune_subj (tmp_s s) = Ok n.

  (** predicate, object list, closure *)
  Lemma po_then_closure po ms q c cs s n :
    loaded_s s n -> state s = WP ->
    okP (fst po) = true -> negb (Nat.eqb (List.length (snd po)) 0) = true -> forallb okO (snd po) = true ->
    sem_pred e (fst po) = Some q -> sem_objs (snd po) = Some ms ->
    closure_state c = Some cs ->
    exists s' ts, machine (map tok_str (po_tokens po) ++ [c]) s = (ts, Ok s') /\
                  map erase_lex ts = map erase_lex (map (T n q) ms) /\
                  loaded_s s' n /\ state s' = cs.
  Proof.
    destruct po as [x os]. cbn [fst snd]. intros (Henv & Hn) Hst Hx Hne Hos Hq Hms Hc.
    destruct os as [|o os]; [discriminate|].
    destruct (HP x q s Henv Hx Hq) as (Hnc & raw & Hpe & Htp).
    set (s1 := St (prefixes s) (base s) WO (tmp_s s) (Some raw) (tmp_o s)).
    assert (Hl1 : loaded_sp s1 n q) by (repeat split; auto; apply Henv).
    destruct (objs_then_closure os o ms c cs s1 n q) as (s2 & ts & Hm & He & Hl2 & Hs2); auto.
    exists s2, ts. unfold po_tokens. cbn [fst snd].
    change (map tok_str (APred x :: ?l) ++ [c]) with ([tokP x] ++ (map tok_str l ++ [c])). rewrite machine_app.
    cbn [machine]. unfold step at 1. rewrite Hnc. unfold assign. rewrite Hst, Hpe. cbn [bind]. fold s1.
    rewrite Hm. cbn. split; [reflexivity|]. split; [exact He|].
    destruct Hl2 as (A & B & C). repeat split; auto; apply A.
  Qed.

  Definition po_ok (po : pred * list object) : bool :=
    okP (fst po) && negb (Nat.eqb (List.length (snd po)) 0) && forallb okO (snd po).

  Lemma sem_po_inv n po ts :
    sem_po e n po = Some ts ->
    exists q ms, sem_pred e (fst po) = Some q /\ sem_objs (snd po) = Some ms /\ ts = map (T n q) ms.
  Proof.
    unfold sem_po, sem_objs. destruct (sem_pred e (fst po)) as [q|]; [|discriminate].
    destruct (seq_opt (map (sem_obj e) (snd po))) as [ms|]; cbn; [|discriminate].
    intros H; inversion H; eauto.
  Qed.

  (** the predicate-object lists of a group, separated by [;], closed by [.] *)
  Lemma pos_then_dot pos : forall po tss s n,
    loaded_s s n -> state s = WP ->
    forallb po_ok (po :: pos) = true ->
    seq_opt (map (sem_po e n) (po :: pos)) = Some tss ->
    exists s' ts, machine (map tok_str (sep_concat [ASemi] (map po_tokens (po :: pos)) ++ [ADot])) s = (ts, Ok s') /\
                  map erase_lex ts = map erase_lex (List.concat tss) /\
                  same_env s' s0 /\ state s' = WS.
  Proof.
    induction pos as [|po2 pos IH]; intros po tss s n Hl Hst Hok Hsem.
    - cbn in Hok. rewrite andb_true_r in Hok. unfold po_ok in Hok. rewrite !andb_true_iff in Hok.
      destruct Hok as [[Hx Hne] Hos].
      apply seq_opt_cons in Hsem. destruct Hsem as (ts0 & r' & Hpo & Hr & ->). cbn in Hr. inversion Hr; subst.
      apply sem_po_inv in Hpo. destruct Hpo as (q & ms & Hq & Hms & ->).
      destruct (po_then_closure po ms q (Str ".") WS s n Hl Hst Hx Hne Hos Hq Hms eq_refl) as (s' & ts & Hm & He & Hl' & Hs').
      exists s', ts. cbn [sep_concat map]. rewrite map_app. cbn [map tok_str].
      split; [exact Hm|]. split; [cbn; rewrite app_nil_r; exact He|]. split; [apply Hl' | exact Hs'].
    - cbn [forallb] in Hok. apply andb_true_iff in Hok. destruct Hok as [Hpo_ok Hrest].
      unfold po_ok in Hpo_ok. rewrite !andb_true_iff in Hpo_ok. destruct Hpo_ok as [[Hx Hne] Hos].
      apply seq_opt_cons in Hsem. destruct Hsem as (ts0 & r' & Hpo & Hr & ->).
      apply sem_po_inv in Hpo. destruct Hpo as (q & ms & Hq & Hms & ->).
      destruct (po_then_closure po ms q (Str ";") WP s n Hl Hst Hx Hne Hos Hq Hms eq_refl) as (s1 & ts1 & Hm1 & He1 & Hl1 & Hs1).
      destruct (IH po2 r' s1 n Hl1 Hs1 Hrest Hr) as (s2 & ts2 & Hm2 & He2 & Henv2 & Hs2).
      exists s2, (ts1 ++ ts2).
      change (sep_concat [ASemi] (map po_tokens (po :: po2 :: pos)))
        with (po_tokens po ++ [ASemi] ++ sep_concat [ASemi] (map po_tokens (po2 :: pos))).
      rewrite <- !app_assoc, !map_app. rewrite app_assoc.
      change (map tok_str [ASemi]) with [Str ";"].
      rewrite machine_app, Hm1. rewrite <- map_app, Hm2.
      split; [reflexivity|]. split; [|auto].
      cbn [List.concat]. rewrite !map_app, He1, He2. reflexivity.
  Qed.

  Lemma sem_group_inv g ts :
    sem_group e g = Some ts ->
    exists n tss, sem_subj e (g_subj g) = Some n /\ seq_opt (map (sem_po e n) (g_pos g)) = Some tss /\ ts = List.concat tss.
  Proof.
    unfold sem_group. destruct (sem_subj e (g_subj g)) as [n|]; [|discriminate].
    destruct (seq_opt (map (sem_po e n) (g_pos g))) as [tss|] eqn:E; cbn; [|discriminate].
    intros H; inversion H; exists n, tss; auto.
  Qed.

  (** one statement group, from the subject to the final dot *)
  Lemma group_run g ts s :
    same_env s s0 -> state s = WS -> group_ok g = true -> sem_group e g = Some ts ->
    exists s' ts', machine (map tok_str (group_tokens g)) s = (ts', Ok s') /\
                   map erase_lex ts' = map erase_lex ts /\ same_env s' s0 /\ state s' = WS.
  Proof.
    intros Henv Hst Hok Hsem. unfold group_ok in Hok. rewrite !andb_true_iff in Hok.
    destruct Hok as [[Hs Hne] Hpos].
    apply sem_group_inv in Hsem. destruct Hsem as (n & tss & Hn & Htss & ->).
    destruct (g_pos g) as [|po pos] eqn:Epos; [discriminate|].
    destruct (HS (g_subj g) n s Henv Hs Hn) as (Hnc & raw & Hpe & Hts).
    set (s1 := St (prefixes s) (base s) WP (Some raw) (tmp_p s) (tmp_o s)).
    assert (Hl1 : loaded_s s1 n) by (repeat split; auto; apply Henv).
    destruct (pos_then_dot pos po tss s1 n Hl1 eq_refl Hpos Htss) as (s2 & ts2 & Hm & He & Henv2 & Hs2).
    exists s2, ts2. unfold group_tokens. rewrite Epos.
    change (map tok_str (ASubj (g_subj g) :: ?l)) with ([tokS (g_subj g)] ++ map tok_str l). rewrite machine_app.
    cbn [machine]. unfold step at 1. rewrite Hnc. unfold assign. rewrite Hst, Hpe. cbn [bind]. fold s1.
    rewrite Hm. cbn. auto.
  Qed.

  (** T1: any number of groups, their tokens split into lines ANYWHERE *)
  Lemma groups_run gs : forall tss s,
    same_env s s0 -> state s = WS -> forallb group_ok gs = true ->
    seq_opt (map (sem_group e) gs) = Some tss ->
    exists s' ts', machine (map tok_str (flat_map group_tokens gs)) s = (ts', Ok s') /\
                   map erase_lex ts' = map erase_lex (List.concat tss) /\ same_env s' s0 /\ state s' = WS.
  Proof.
    induction gs as [|g gs IH]; intros tss s Henv Hst Hok Hsem.
    - cbn in Hsem. inversion Hsem; subst. exists s, []. cbn. auto.
    - cbn [forallb] in Hok. apply andb_true_iff in Hok. destruct Hok as [Hg Hrest].
      apply seq_opt_cons in Hsem. destruct Hsem as (ts0 & r' & Hg0 & Hr & ->).
      destruct (group_run g ts0 s Henv Hst Hg Hg0) as (s1 & ts1 & Hm1 & He1 & Henv1 & Hs1).
      destruct (IH r' s1 Henv1 Hs1 Hrest Hr) as (s2 & ts2 & Hm2 & He2 & Henv2 & Hs2).
      exists s2, (ts1 ++ ts2). cbn [flat_map]. rewrite map_app, machine_app, Hm1, Hm2.
      split; [reflexivity|]. split; [|auto]. cbn [List.concat]. rewrite !map_app, He1, He2. reflexivity.
  Qed.

  Theorem state_machine_any_split gs (ls : list (list atok)) tss s :
    same_env s s0 -> state s = WS -> forallb group_ok gs = true ->
    seq_opt (map (sem_group e) gs) = Some tss ->
    List.concat ls = flat_map group_tokens gs ->
    exists s' ts', machine_lines (map (map tok_str) ls) s = (ts', Ok s') /\
                   map erase_lex ts' = map erase_lex (List.concat tss) /\ same_env s' s0 /\ state s' = WS.
  Proof.
    intros Henv Hst Hok Hsem Hsplit.
    rewrite machine_lines_concat, <- concat_map, Hsplit.
    apply groups_run; assumption.
  Qed.
End StateMachine.

(** ** T2 -- the tokenizer on a cleaned line *)

(** *** index lemmas *)

Lemma len_app (a b : str) : len (a ++ b) = len a + len b.
Proof. unfold len. rewrite app_length. lia. Qed.

Lemma len_nonneg (a : str) : 0 <= len a.
Proof. unfold len. lia. Qed.

Lemma len_cons c (a : str) : len (c :: a) = 1 + len a.
Proof. unfold len. cbn [List.length]. lia. Qed.

Lemma skipn_len_app (pre suf : str) : skipn (Z.to_nat (len pre)) (pre ++ suf) = suf.
Proof. unfold len. rewrite Nat2Z.id. rewrite skipn_app, skipn_all, Nat.sub_diag. reflexivity. Qed.

(** a position in a line together with what is left from there on *)
Definition at_pos (line : str) (i : Z) (suf : str) : Prop :=
  exists pre, line = pre ++ suf /\ i = len pre.

Lemma at_pos_skipn line i suf : at_pos line i suf -> skipn (Z.to_nat i) line = suf.
Proof. intros (pre & -> & ->). apply skipn_len_app. Qed.

Lemma at_pos_nonneg line i suf : at_pos line i suf -> 0 <= i.
Proof. intros (pre & _ & ->). apply len_nonneg. Qed.

Lemma at_pos_len line i suf : at_pos line i suf -> len line = i + len suf.
Proof. intros (pre & -> & ->). apply len_app. Qed.

Lemma at_pos_advance line i a b : at_pos line i (a ++ b) -> at_pos line (i + len a) b.
Proof.
  intros (pre & -> & ->). exists (pre ++ a). rewrite <- app_assoc. split; [reflexivity|]. symmetry; apply len_app.
Qed.

Lemma at_idx_at_pos line i c suf : at_pos line i (c :: suf) -> at_idx line i = Some c.
Proof.
  intros (pre & -> & ->). unfold at_idx.
  pose proof (len_nonneg pre). rewrite len_app, len_cons.
  destruct (len pre <? 0) eqn:E1; [apply Z.ltb_lt in E1; lia|].
  destruct ((len pre <? 0) || (len pre + (1 + len suf) <=? len pre)) eqn:E2.
  - apply orb_true_iff in E2. destruct E2 as [E2|E2]; [apply Z.ltb_lt in E2 | apply Z.leb_le in E2]; pose proof (len_nonneg suf); lia.
  - unfold len. rewrite Nat2Z.id. rewrite nth_error_app2 by lia. rewrite Nat.sub_diag. reflexivity.
Qed.

Lemma at_idx_end line i : at_pos line i [] -> at_idx line i = None.
Proof.
  intros (pre & -> & ->). unfold at_idx. rewrite app_nil_r. pose proof (len_nonneg pre).
  destruct (len pre <? 0) eqn:E1; [apply Z.ltb_lt in E1; lia|].
  rewrite Z.leb_refl, orb_true_r. reflexivity.
Qed.

Lemma find_from_at_pos p line i suf :
  at_pos line i suf ->
  find_from p line i = match find_nat p suf with Some k => i + Z.of_nat k | None => -1 end.
Proof.
  intros H. unfold find_from. rewrite (at_pos_skipn _ _ _ H). unfold find.
  destruct (find_nat p suf) as [k|]; cbn.
  - destruct (Z.of_nat k <? 0) eqn:E; [apply Z.ltb_lt in E; lia | lia].
  - reflexivity.
Qed.

Lemma slice_at_pos line i a b : at_pos line i (a ++ b) -> slice line i (i + len a) = a.
Proof.
  intros (pre & -> & ->). unfold slice, norm_idx.
  pose proof (len_nonneg pre). pose proof (len_nonneg a). pose proof (len_nonneg b).
  rewrite !len_app.
  destruct (len pre <? 0) eqn:E1; [apply Z.ltb_lt in E1; lia|].
  destruct (len pre + len a <? 0) eqn:E2; [apply Z.ltb_lt in E2; lia|].
  rewrite (Z.min_l (len pre)) by lia. rewrite (Z.min_l (len pre + len a)) by lia.
  replace (len pre + len a - len pre) with (len a) by lia.
  rewrite skipn_len_app. unfold len. rewrite Nat2Z.id. rewrite firstn_app, firstn_all, Nat.sub_diag. cbn. apply app_nil_r.
Qed.

(** *** blanks *)

Definition blanks (s : str) : Prop := Forall (fun c => c = ttl_blank) s.

Lemma chr_eqb_refl c : chr_eqb c c = true.
Proof. apply Ascii.eqb_refl. Qed.

Lemma lead_blanks_app bl rest :
  blanks bl -> (match rest with c :: _ => chr_eqb c ttl_blank = false | [] => True end) ->
  lead_blanks (bl ++ rest) = len bl.
Proof.
  intros Hb Hr. induction Hb as [|c bl Hc Hb IH]; cbn [app lead_blanks].
  - destruct rest as [|c r]; cbn [lead_blanks]; [reflexivity | rewrite Hr; reflexivity].
  - subst c. rewrite chr_eqb_refl, IH, len_cons. reflexivity.
Qed.

Lemma skip_blanks_at_pos line i bl rest :
  at_pos line i (bl ++ rest) -> blanks bl ->
  (match rest with c :: _ => chr_eqb c ttl_blank = false | [] => True end) ->
  skip_blanks line i = i + len bl.
Proof.
  intros H Hb Hr. unfold skip_blanks. rewrite (at_pos_skipn _ _ _ H), lead_blanks_app; auto.
Qed.

(** *** single characters *)

Lemma find_nat_single_cons q c s :
  find_nat [q] (c :: s) = if chr_eqb q c then Some O else option_map S (find_nat [q] s).
Proof.
  cbn [find_nat prefixb]. unfold chr_eqb. destruct (Ascii.eqb q c); cbn; [reflexivity|].
  destruct (find_nat [q] s); reflexivity.
Qed.

(** first occurrence of [q] in [a ++ q :: b] when [a] is free of [q] *)
Lemma find_nat_single_app q a b :
  Forall (fun c => chr_eqb q c = false) a -> find_nat [q] (a ++ q :: b) = Some (List.length a).
Proof.
  induction 1 as [|c a Hc Ha IH]; cbn [app List.length].
  - rewrite find_nat_single_cons, chr_eqb_refl. reflexivity.
  - rewrite find_nat_single_cons, Hc, IH. reflexivity.
Qed.

Lemma find_nat_single_none q a :
  Forall (fun c => chr_eqb q c = false) a -> find_nat [q] a = None.
Proof.
  induction 1 as [|c a Hc Ha IH]; [reflexivity|].
  rewrite find_nat_single_cons, Hc, IH. reflexivity.
Qed.

(** *** token shapes of a cleaned dialect line *)

Definition not_blank (c : ascii) : Prop := chr_eqb c ttl_blank = false.

(** string bodies, loosely: any character but quote and backslash, or a
    backslash followed by any one character *)
Inductive Lex : str -> Prop :=
| Lex_nil : Lex []
| Lex_plain c s : chr_eqb c ttl_quote = false -> chr_eqb c chr_backslash = false -> Lex s -> Lex (c :: s)
| Lex_esc e s : Lex s -> Lex (chr_backslash :: e :: s).

Definition lit_sfx (sfx : str) : Prop :=
  sfx = [] \/ exists c t, sfx = c :: t /\ mem_str [c] ttl_literal_suffix_chars = true /\ Forall not_blank sfx.

Definition plain_start (c : ascii) : Prop :=
  not_blank c /\ mem_str [c] ttl_CLOSURES = false /\ chr_eqb c ttl_iri_open = false /\ chr_eqb c ttl_lit_open = false.

Inductive tshape : str -> Prop :=
| sh_closure c : mem_str [c] ttl_CLOSURES = true -> tshape [c]
| sh_iri body : Forall (fun c => chr_eqb (chr ">") c = false) body -> tshape (s_lt ++ body ++ s_gt)
| sh_lit lex sfx : Lex lex -> lit_sfx sfx -> tshape (s_quote ++ lex ++ s_quote ++ sfx)
| sh_other c t : plain_start c -> Forall not_blank (c :: t) -> tshape (c :: t).

(** a position, possibly one past the end of the line (what [_next_line_token]
    returns after the last blank-terminated token) *)
Definition pos' (line : str) (i : Z) (suf : str) : Prop :=
  at_pos line i suf \/ (suf = [] /\ len line < i).

Definition rest_ok (rest : str) : Prop := rest = [] \/ exists r, rest = ttl_blank :: r.

(** what is left after a token that does not swallow the blank behind it *)
Definition after_keep (rest : str) : str := rest.
(** ... and after one that does *)
Definition after_skip (rest : str) : str := match rest with [] => [] | _ :: r => r end.

Lemma closure_chars c : mem_str [c] ttl_CLOSURES = true -> c = chr "," \/ c = chr ";" \/ c = chr ".".
Proof.
  intros H. apply mem_str_In in H. cbn in H.
  destruct H as [H|[H|[H|[]]]]; inversion H; auto.
Qed.

Lemma closure_not_blank c : mem_str [c] ttl_CLOSURES = true -> chr_eqb c ttl_blank = false.
Proof. intros H. destruct (closure_chars c H) as [->|[->| ->]]; reflexivity. Qed.

Lemma first_not_blank_rest (tok rest : str) c t :
  tok = c :: t -> chr_eqb c ttl_blank = false ->
  match tok ++ rest with x :: _ => chr_eqb x ttl_blank = false | [] => True end.
Proof. intros -> H. exact H. Qed.

Lemma Zleb_false_lt a b : a < b -> (b <=? a) = false.
Proof. intros. apply Z.leb_gt. lia. Qed.

(** closure token *)
Lemma nlt_closure b line i bl c rest :
  at_pos line i (bl ++ [c] ++ rest) -> blanks bl -> mem_str [c] ttl_CLOSURES = true ->
  next_line_token b line i = Ok (Some ([c], i + len bl + 1)) /\ at_pos line (i + len bl + 1) rest.
Proof.
  intros H Hb Hc. pose proof (closure_not_blank c Hc) as Hnb.
  pose proof (at_pos_advance _ _ _ _ H) as H1.
  pose proof (at_pos_advance _ _ _ _ H1) as H2. change (len [c]) with 1 in H2.
  split; [|exact H2].
  unfold next_line_token. rewrite (skip_blanks_at_pos line i bl ([c] ++ rest) H Hb Hnb).
  rewrite (at_pos_len _ _ _ H1). cbn [app]. rewrite len_cons.
  rewrite Zleb_false_lt by (pose proof (len_nonneg rest); lia).
  rewrite (at_idx_at_pos _ _ c rest H1). rewrite Hc. reflexivity.
Qed.

Lemma vtok_id b tok : vtok b tok = tok.
Proof. reflexivity. Qed.

Lemma vtok_not_lt b tok c t : tok = c :: t -> chr_eqb c ttl_iri_open = false -> vtok b tok = tok.
Proof. intros _ _. reflexivity. Qed.

(** any other blank-terminated token *)
Lemma nlt_other b line i bl c t rest :
  at_pos line i (bl ++ (c :: t) ++ rest) -> blanks bl -> plain_start c -> Forall not_blank (c :: t) -> rest_ok rest ->
  next_line_token b line i = Ok (Some (c :: t, i + len bl + len (c :: t) + 1)) /\
  pos' line (i + len bl + len (c :: t) + 1) (after_skip rest).
Proof.
  intros H Hb (Hnb & Hnc & Hnl & Hnq) Hall Hrest.
  pose proof (at_pos_advance _ _ _ _ H) as H1.
  pose proof (at_pos_advance _ _ _ _ H1) as H2.
  assert (Hff : Forall (fun x => chr_eqb ttl_blank x = false) (c :: t)).
  { eapply Forall_impl; [|exact Hall]. intros x Hx. unfold not_blank, chr_eqb in *. rewrite Ascii.eqb_sym. exact Hx. }
  unfold next_line_token. rewrite (skip_blanks_at_pos line i bl ((c :: t) ++ rest) H Hb Hnb).
  rewrite (at_pos_len _ _ _ H1). rewrite len_app.
  rewrite Zleb_false_lt by (rewrite len_cons; pose proof (len_nonneg t); pose proof (len_nonneg rest); lia).
  cbn [app] in H1. rewrite (at_idx_at_pos _ _ c (t ++ rest) H1). rewrite Hnc, Hnl, Hnq.
  unfold find_next_blank. rewrite (find_from_at_pos s_blank line _ _ H1).
  destruct Hrest as [-> | (r & ->)].
  - rewrite app_nil_r in *. change s_blank with [ttl_blank]. rewrite (find_nat_single_none _ _ Hff).
    rewrite Z.eqb_refl. change ttl_end_of_line_offset with 0. rewrite Z.add_0_r.
    rewrite (at_pos_len _ _ _ H1).
    replace (i + len bl + len (c :: t)) with ((i + len bl) + len (c :: t)) by lia.
    rewrite <- (app_nil_r (c :: t)) in H1 at 1.
    rewrite (slice_at_pos line (i + len bl) (c :: t) [] H1).
    split; [reflexivity|]. right. split; [reflexivity|]. rewrite (at_pos_len _ _ _ H1), len_app. change (len []) with 0. lia.
  - change s_blank with [ttl_blank].
    change ((c :: t) ++ ttl_blank :: r) with ((c :: t) ++ ttl_blank :: r).
    replace (c :: t ++ ttl_blank :: r) with ((c :: t) ++ ttl_blank :: r) by reflexivity.
    rewrite (find_nat_single_app ttl_blank (c :: t) r Hff).
    assert (E : (i + len bl + Z.of_nat (List.length (c :: t)) =? -1) = false).
    { apply Z.eqb_neq. pose proof (at_pos_nonneg _ _ _ H). pose proof (len_nonneg bl). lia. }
    rewrite E. fold (len (c :: t)).
    rewrite (slice_at_pos line (i + len bl) (c :: t) (ttl_blank :: r) H1).
    split; [reflexivity|]. left.
    change (ttl_blank :: r) with ([ttl_blank] ++ r) in H2. apply at_pos_advance in H2.
    change (len [ttl_blank]) with 1 in H2. exact H2.
Qed.

(** IRI token (the base is no longer applied here but by [_parse_elem]) *)
Lemma nlt_iri b line i bl body rest :
  at_pos line i (bl ++ (s_lt ++ body ++ s_gt) ++ rest) -> blanks bl ->
  Forall (fun c => chr_eqb (chr ">") c = false) body ->
  next_line_token b line i = Ok (Some (vtok b (s_lt ++ body ++ s_gt), i + len bl + len (s_lt ++ body ++ s_gt))) /\
  at_pos line (i + len bl + len (s_lt ++ body ++ s_gt)) rest.
Proof.
  intros H Hb Hbody.
  pose proof (at_pos_advance _ _ _ _ H) as H1.
  pose proof (at_pos_advance _ _ _ _ H1) as H2.
  split; [|exact H2].
  unfold next_line_token.
  rewrite (skip_blanks_at_pos line i bl ((s_lt ++ body ++ s_gt) ++ rest) H Hb eq_refl).
  rewrite (at_pos_len _ _ _ H1). rewrite len_app.
  rewrite Zleb_false_lt by (unfold s_lt; cbn [app]; rewrite len_cons;
    pose proof (len_nonneg (body ++ s_gt)); pose proof (len_nonneg rest); lia).
  unfold s_lt in H1 |- *. cbn [app] in H1 |- *.
  rewrite (at_idx_at_pos _ _ ttl_iri_open _ H1).
  change (mem_str [ttl_iri_open] ttl_CLOSURES) with false. rewrite chr_eqb_refl. cbv iota.
  rewrite (find_from_at_pos ttl_iri_close line _ _ H1).
  change ttl_iri_close with [chr ">"]. rewrite find_nat_single_cons.
  change (chr_eqb (chr ">") ttl_iri_open) with false. cbv iota.
  rewrite <- app_assoc. change (s_gt ++ rest) with (chr ">" :: rest).
  rewrite (find_nat_single_app (chr ">") body rest Hbody). cbn [option_map].
  assert (Etok : slice line (i + len bl) (i + len bl + Z.of_nat (S (List.length body)) + 1) = ttl_iri_open :: body ++ s_gt).
  { replace (i + len bl + Z.of_nat (S (List.length body)) + 1) with (i + len bl + len (ttl_iri_open :: body ++ s_gt)).
    - apply (slice_at_pos line (i + len bl) (ttl_iri_open :: body ++ s_gt) rest).
      exact H1.
    - rewrite len_cons, len_app. change (len s_gt) with 1. unfold len. lia. }
  rewrite Etok. change ttl_base_applied_once with true. cbv iota. rewrite vtok_id.
  do 3 f_equal. rewrite len_cons, len_app. change (len s_gt) with 1. unfold len. lia.
Qed.

(** literal token: the closing quote is the first quote preceded by an even
    number of backslashes *)
Definition tbk (p : str) : Z := lead_backslashes (rev p).

Lemma tbk_snoc p c : tbk (p ++ [c]) = if chr_eqb c chr_backslash then 1 + tbk p else 0.
Proof. unfold tbk. rewrite rev_app_distr. reflexivity. Qed.

Lemma lead_backslashes_nonneg s : 0 <= lead_backslashes s.
Proof. induction s as [|c s IH]; cbn [lead_backslashes]; [lia|]. destruct (chr_eqb c chr_backslash); lia. Qed.

Lemma cpb_at line p rest :
  line = p ++ [chr_backslash] ++ rest ->
  count_prior_backslashes line (len p + 1) = 1 + tbk p.
Proof.
  intros ->. unfold count_prior_backslashes, tbk.
  replace (len p + 1 - 1) with (len p) by lia. unfold len. rewrite Nat2Z.id.
  rewrite firstn_app, firstn_all, Nat.sub_diag. cbn [firstn]. rewrite app_nil_r. reflexivity.
Qed.

Lemma find_from_skip q line P c X :
  at_pos line P (c :: X) -> chr_eqb q c = false -> find_from [q] line P = find_from [q] line (P + 1).
Proof.
  intros H Hc.
  assert (H' : at_pos line (P + 1) X).
  { change (c :: X) with ([c] ++ X) in H. apply at_pos_advance in H. exact H. }
  rewrite (find_from_at_pos _ _ _ _ H), (find_from_at_pos _ _ _ _ H').
  rewrite find_nat_single_cons, Hc. destruct (find_nat [q] X) as [k|]; cbn [option_map]; lia.
Qed.

Lemma find_from_here q line P X : at_pos line P (q :: X) -> find_from [q] line P = P.
Proof.
  intros H. rewrite (find_from_at_pos _ _ _ _ H), find_nat_single_cons, chr_eqb_refl. lia.
Qed.

Lemma quote_not_backslash : chr_eqb ttl_quote chr_backslash = false.
Proof. reflexivity. Qed.

Lemma scan_lex line tail todo : Lex todo -> forall pre fuel,
  line = pre ++ todo ++ [ttl_quote] ++ tail -> pre <> [] -> Z.even (tbk pre) = true ->
  (List.length todo < fuel)%nat ->
  next_unescaped fuel line (find_from s_quote line (len pre)) = Ok (len pre + len todo).
Proof.
  change s_quote with [ttl_quote].
  induction 1 as [|c s Hq Hb Hs IH|e s Hs IH]; intros pre fuel Hline Hne Hev Hfuel.
  - (* the closing quote *)
    assert (Hpos : at_pos line (len pre) (ttl_quote :: tail)) by (exists pre; split; [exact Hline | reflexivity]).
    rewrite (find_from_here _ _ _ _ Hpos). change (len []) with 0. rewrite Z.add_0_r.
    destruct fuel as [|f]; [cbn in Hfuel; lia|]. cbn [next_unescaped].
    pose proof (len_nonneg pre).
    destruct (len pre =? -1) eqn:E; [apply Z.eqb_eq in E; lia|].
    destruct (exists_last Hne) as (p & x & ->).
    assert (Hx : at_idx line (len (p ++ [x]) - 1) = Some x).
    { apply (at_idx_at_pos _ _ x ([] ++ ttl_quote :: tail)). exists p. split.
      - rewrite Hline, <- app_assoc. reflexivity.
      - rewrite len_app. change (len [x]) with 1. lia. }
    rewrite Hx. destruct (chr_eqb x chr_backslash) eqn:Ex; cbn [negb]; [|reflexivity].
    apply Ascii.eqb_eq in Ex. subst x.
    rewrite len_app. change (len [chr_backslash]) with 1.
    rewrite (cpb_at line p ([ttl_quote] ++ tail)) by (rewrite Hline, <- app_assoc; reflexivity).
    rewrite tbk_snoc, chr_eqb_refl in Hev. rewrite Hev. reflexivity.
  - (* a plain character *)
    assert (Hpos : at_pos line (len pre) (c :: s ++ [ttl_quote] ++ tail)) by (exists pre; split; [exact Hline | reflexivity]).
    rewrite (find_from_skip ttl_quote line (len pre) c _ Hpos) by (unfold chr_eqb in *; rewrite Ascii.eqb_sym; exact Hq).
    replace (len pre + 1) with (len (pre ++ [c])) by (rewrite len_app; reflexivity).
    rewrite (IH (pre ++ [c]) fuel).
    + rewrite len_app, !len_cons. change (len (@nil ascii)) with 0. f_equal. lia.
    + rewrite Hline, <- app_assoc. reflexivity.
    + destruct pre; discriminate.
    + rewrite tbk_snoc, Hb. reflexivity.
    + cbn [List.length] in Hfuel. lia.
  - (* backslash + one character *)
    assert (Hpos : at_pos line (len pre) (chr_backslash :: e :: s ++ [ttl_quote] ++ tail)) by (exists pre; split; [exact Hline | reflexivity]).
    rewrite (find_from_skip ttl_quote line (len pre) chr_backslash _ Hpos) by reflexivity.
    assert (Hpos1 : at_pos line (len pre + 1) (e :: s ++ [ttl_quote] ++ tail)).
    { change (chr_backslash :: e :: s ++ [ttl_quote] ++ tail) with ([chr_backslash] ++ e :: s ++ [ttl_quote] ++ tail) in Hpos.
      apply at_pos_advance in Hpos. exact Hpos. }
    assert (Hline2 : line = (pre ++ [chr_backslash; e]) ++ s ++ [ttl_quote] ++ tail) by (rewrite Hline, <- app_assoc; reflexivity).
    assert (Hlen2 : len (pre ++ [chr_backslash; e]) = len pre + 2) by (rewrite len_app; reflexivity).
    assert (Hne2 : pre ++ [chr_backslash; e] <> []) by (destruct pre; discriminate).
    destruct (chr_eqb ttl_quote e) eqn:Ee.
    + (* an escaped quote: candidate rejected, the scan goes on *)
      apply Ascii.eqb_eq in Ee. subst e.
      rewrite (find_from_here _ _ _ _ Hpos1).
      destruct fuel as [|f]; [cbn in Hfuel; lia|]. cbn [next_unescaped].
      pose proof (len_nonneg pre).
      destruct (len pre + 1 =? -1) eqn:E; [apply Z.eqb_eq in E; lia|].
      replace (len pre + 1 - 1) with (len pre) by lia.
      rewrite (at_idx_at_pos _ _ chr_backslash _ Hpos). rewrite chr_eqb_refl. cbn [negb].
      rewrite (cpb_at line pre (ttl_quote :: s ++ [ttl_quote] ++ tail) Hline).
      replace (Z.even (1 + tbk pre)) with false
        by (rewrite Z.add_comm, Z.even_add, Hev; reflexivity).
      replace (len pre + 1 + 1) with (len (pre ++ [chr_backslash; ttl_quote])) by lia.
      change s_quote with [ttl_quote]. rewrite (IH (pre ++ [chr_backslash; ttl_quote]) f Hline2 Hne2).
      * rewrite Hlen2, !len_cons. f_equal. lia.
      * change (pre ++ [chr_backslash; ttl_quote]) with (pre ++ [chr_backslash] ++ [ttl_quote]).
        rewrite app_assoc, tbk_snoc. reflexivity.
      * cbn [List.length] in Hfuel. lia.
    + rewrite (find_from_skip ttl_quote line (len pre + 1) e _ Hpos1 Ee).
      replace (len pre + 1 + 1) with (len (pre ++ [chr_backslash; e])) by lia.
      rewrite (IH (pre ++ [chr_backslash; e]) fuel Hline2 Hne2).
      * rewrite Hlen2, !len_cons. f_equal. lia.
      * change (pre ++ [chr_backslash; e]) with (pre ++ [chr_backslash] ++ [e]).
        rewrite app_assoc, tbk_snoc. destruct (chr_eqb e chr_backslash); [|reflexivity].
        rewrite tbk_snoc, chr_eqb_refl. rewrite Z.add_assoc, Z.even_add, Hev. reflexivity.
      * cbn [List.length] in Hfuel. lia.
Qed.

Lemma Forall_not_blank_find sfx :
  Forall not_blank sfx -> Forall (fun x => chr_eqb ttl_blank x = false) sfx.
Proof.
  intros H. eapply Forall_impl; [|exact H]. intros x Hx. unfold not_blank, chr_eqb in *. rewrite Ascii.eqb_sym. exact Hx.
Qed.

(** literal token *)
Lemma nlt_lit b line i bl lex sfx rest :
  at_pos line i (bl ++ (s_quote ++ lex ++ s_quote ++ sfx) ++ rest) -> blanks bl ->
  Lex lex -> lit_sfx sfx -> rest_ok rest ->
  next_line_token b line i =
    Ok (Some (s_quote ++ lex ++ s_quote ++ sfx, i + len bl + len (s_quote ++ lex ++ s_quote ++ sfx))) /\
  at_pos line (i + len bl + len (s_quote ++ lex ++ s_quote ++ sfx)) rest.
Proof.
  intros H Hb Hlex Hsfx Hrest.
  pose proof (at_pos_advance _ _ _ _ H) as H1.
  pose proof (at_pos_advance _ _ _ _ H1) as H2.
  split; [|exact H2].
  set (tok := s_quote ++ lex ++ s_quote ++ sfx) in *.
  set (q0 := i + len bl) in *.
  assert (Hq0 : 0 <= q0) by (apply (at_pos_nonneg _ _ _ H1)).
  destruct H1 as (pre & Hline & Hq0e).
  (* the closing quote *)
  assert (Hscan : find_next_unescaped_quotes line (q0 + 1) = Ok (q0 + 1 + len lex)).
  { unfold find_next_unescaped_quotes.
    replace (q0 + 1) with (len (pre ++ s_quote)) by (rewrite len_app, <- Hq0e; reflexivity).
    apply (scan_lex line (sfx ++ rest) lex Hlex (pre ++ s_quote)).
    - rewrite Hline. unfold tok. rewrite <- !app_assoc. reflexivity.
    - destruct pre; discriminate.
    - unfold s_quote. rewrite tbk_snoc. reflexivity.
    - rewrite Hline. unfold tok. rewrite !app_length. cbn [List.length]. lia. }
  assert (Hlen : len line = q0 + len tok + len rest) by (rewrite Hline, !len_app; lia).
  assert (Htoklen : len tok = 2 + len lex + len sfx).
  { unfold tok. rewrite !len_app. change (len s_quote) with 1. lia. }
  assert (H1 : at_pos line q0 (tok ++ rest)) by (exists pre; auto).
  assert (Hopen : at_pos line q0 (ttl_lit_open :: (lex ++ s_quote ++ sfx) ++ rest)).
  { unfold tok in H1. unfold s_quote at 1 in H1. cbn [app] in H1. exact H1. }
  assert (Hclose : at_pos line (q0 + 1 + len lex) (s_quote ++ sfx ++ rest)).
  { exists (pre ++ s_quote ++ lex). split.
    - rewrite Hline. unfold tok. rewrite <- !app_assoc. reflexivity.
    - rewrite !len_app, <- Hq0e. change (len s_quote) with 1. lia. }
  assert (Hafter : at_pos line (q0 + 1 + len lex + 1) (sfx ++ rest)).
  { apply at_pos_advance in Hclose. exact Hclose. }
  unfold next_line_token.
  rewrite (skip_blanks_at_pos line i bl (tok ++ rest) H Hb eq_refl). fold q0.
  rewrite Zleb_false_lt by (pose proof (len_nonneg lex); pose proof (len_nonneg sfx); pose proof (len_nonneg rest); lia).
  rewrite (at_idx_at_pos _ _ _ _ Hopen).
  change (mem_str [ttl_lit_open] ttl_CLOSURES) with false.
  change (chr_eqb ttl_lit_open ttl_iri_open) with false. rewrite chr_eqb_refl. cbv iota.
  unfold find_literal_ending. rewrite Hscan. cbn [bind].
  destruct Hsfx as [-> | (c & t & -> & Hc & Hnb)].
  - (* no suffix *)
    cbn [app] in Hafter. change (len (@nil ascii)) with 0 in Htoklen.
    assert (E : (len line <=? q0 + 1 + len lex + 1) || is_char_at line (q0 + 1 + len lex + 1) ttl_blank = true).
    { destruct Hrest as [-> | (r & ->)].
      - apply orb_true_iff. left. apply Z.leb_le. change (len []) with 0 in Hlen. lia.
      - apply orb_true_iff. right. unfold is_char_at. rewrite (at_idx_at_pos _ _ _ _ Hafter). apply chr_eqb_refl. }
    rewrite E. cbn [bind].
    replace (q0 + 1 + len lex + 1) with (q0 + len tok) by lia.
    rewrite (slice_at_pos line q0 tok rest H1). reflexivity.
  - (* @lang or ^^datatype *)
    assert (Hcnb : chr_eqb c ttl_blank = false) by (inversion Hnb; assumption).
    cbn [app] in Hafter.
    assert (E : (len line <=? q0 + 1 + len lex + 1) || is_char_at line (q0 + 1 + len lex + 1) ttl_blank = false).
    { apply orb_false_iff. split.
      - apply Z.leb_gt. rewrite len_cons in Htoklen. pose proof (len_nonneg t). pose proof (len_nonneg rest). lia.
      - unfold is_char_at. rewrite (at_idx_at_pos _ _ _ _ Hafter). exact Hcnb. }
    rewrite E. rewrite (at_idx_at_pos _ _ _ _ Hafter), Hc.
    unfold find_next_blank. rewrite (find_from_at_pos s_blank line _ _ Hclose).
    change s_blank with [ttl_blank]. change (s_quote ++ (c :: t) ++ rest) with (ttl_quote :: (c :: t) ++ rest).
    rewrite find_nat_single_cons. change (chr_eqb ttl_blank ttl_quote) with false. cbv iota.
    pose proof (Forall_not_blank_find _ Hnb) as Hff.
    destruct Hrest as [-> | (r & ->)].
    + rewrite app_nil_r, (find_nat_single_none _ _ Hff). cbn [option_map]. rewrite Z.eqb_refl.
      change ttl_end_of_line_offset with 0. change (len (@nil ascii)) with 0 in Hlen. cbn [bind].
      replace (len line + 0 - 1 + 1) with (q0 + len tok) by lia.
      rewrite (slice_at_pos line q0 tok [] H1). reflexivity.
    + rewrite (find_nat_single_app ttl_blank (c :: t) r Hff). cbn [option_map].
      fold (len (c :: t)).
      assert (E2 : (q0 + 1 + len lex + Z.of_nat (S (List.length (c :: t))) =? -1) = false).
      { apply Z.eqb_neq. pose proof (len_nonneg lex). lia. }
      rewrite E2. cbn [bind].
      replace (q0 + 1 + len lex + Z.of_nat (S (List.length (c :: t))) - 1 + 1) with (q0 + len tok)
        by (rewrite Htoklen; unfold len; lia).
      rewrite (slice_at_pos line q0 tok (ttl_blank :: r) H1). reflexivity.
Qed.

(** *** iterating [_next_line_token] *)

Fixpoint tokenize (fuel : nat) (b : option str) (line : str) (idx : Z) : res (list str) :=
  match fuel with
  | O => Err TEHang
  | S f =>
    match next_line_token b line idx with
    | Err e => Err e
    | Ok None => Ok []
    | Ok (Some (t, idx')) => r <- tokenize f b line idx' ;; Ok (t :: r)
    end
  end.

Lemma step_base s t ts s' : step s t = (ts, Ok s') -> base s' = base s.
Proof.
  unfold step. destruct (closure_state t).
  - destruct (tune_triple s); intros H; inversion H; reflexivity.
  - unfold assign. destruct (state s); try discriminate;
      (destruct (parse_elem s t); cbn [bind]; intros H; inversion H; reflexivity).
Qed.

(** the loop of [_process_line_with_potential_triples] is the machine run
    over the tokens that [_next_line_token] delivers *)
Lemma line_loop_tokenize fuel : forall line idx s toks,
  tokenize fuel (base s) line idx = Ok toks -> line_loop fuel line idx s = machine toks s.
Proof.
  induction fuel as [|f IH]; intros line idx s toks; cbn [tokenize line_loop]; [discriminate|].
  destruct (next_line_token (base s) line idx) as [[[t idx']|]|e]; [| |discriminate].
  - destruct (tokenize f (base s) line idx') as [r|e] eqn:E; cbn [bind]; [|discriminate].
    intros H; inversion H; subst. cbn [machine].
    destruct (step s t) as [ts [s'|e]] eqn:Es; [|reflexivity].
    rewrite <- (step_base _ _ _ _ Es) in E. rewrite (IH _ _ _ _ E). reflexivity.
  - intros H; inversion H; subst. reflexivity.
Qed.

Definition joined (toks : list str) : str := sep_concat [ttl_blank] toks.

Definition rest_of (toks : list str) : str :=
  match toks with [] => [] | _ => ttl_blank :: joined toks end.

Lemma joined_cons t toks : joined (t :: toks) = t ++ rest_of toks.
Proof. destruct toks; cbn; [rewrite app_nil_r|]; reflexivity. Qed.

Lemma rest_of_ok toks : rest_ok (rest_of toks).
Proof. destruct toks; [left; reflexivity | right; eexists; reflexivity]. Qed.

Lemma tshape_step b line i bl tok rest :
  at_pos line i (bl ++ tok ++ rest) -> blanks bl -> tshape tok -> rest_ok rest ->
  exists idx' rest', next_line_token b line i = Ok (Some (vtok b tok, idx')) /\ pos' line idx' rest' /\
                     (rest' = rest \/ rest' = after_skip rest).
Proof.
  intros H Hb Hs Hr. destruct Hs as [c Hc|body Hbody|lex sfx Hlex Hsfx|c t Hc Hall].
  - destruct (nlt_closure b line i bl c rest H Hb Hc) as (E & P).
    exists (i + len bl + 1), rest. split; [|split; [left; exact P | left; reflexivity]].
    rewrite E. reflexivity.
  - destruct (nlt_iri b line i bl body rest H Hb Hbody) as (E & P).
    eexists _, rest. split; [exact E|]. split; [left; exact P | left; reflexivity].
  - destruct (nlt_lit b line i bl lex sfx rest H Hb Hlex Hsfx Hr) as (E & P).
    eexists _, rest. split; [|split; [left; exact P | left; reflexivity]].
    rewrite E. reflexivity.
  - destruct (nlt_other b line i bl c t rest H Hb Hc Hall Hr) as (E & P).
    eexists _, (after_skip rest). split; [|split; [exact P | right; reflexivity]].
    rewrite E. reflexivity.
Qed.

Lemma skipn_beyond (line : str) i : len line < i -> skipn (Z.to_nat i) line = [].
Proof. intros H. apply skipn_all2. unfold len in H. lia. Qed.

Lemma tshape_nonempty tok : tshape tok -> tok <> [].
Proof. intros [c _|b _|l s _ _|c t _ _]; discriminate. Qed.

Lemma tokenize_joined b toks : forall bl line idx fuel,
  pos' line idx (bl ++ joined toks) -> blanks bl -> Forall tshape toks -> (List.length toks < fuel)%nat ->
  tokenize fuel b line idx = Ok (map (vtok b) toks).
Proof.
  induction toks as [|tok toks IH]; intros bl line idx fuel Hp Hb Hall Hfuel;
    (destruct fuel as [|f]; [cbn in Hfuel; lia|]); cbn [tokenize map].
  - (* nothing left but blanks *)
    cbn [joined sep_concat] in Hp.
    assert (E : next_line_token b line idx = Ok None).
    { unfold next_line_token. destruct Hp as [Hp | (Hnil & Hlt)].
      - rewrite (skip_blanks_at_pos line idx bl [] Hp Hb I).
        rewrite (at_pos_len _ _ _ Hp), app_nil_r, Z.leb_refl. reflexivity.
      - unfold skip_blanks. rewrite (skipn_beyond line idx Hlt). cbn [lead_blanks]. rewrite Z.add_0_r.
        replace (len line <=? idx) with true by (symmetry; apply Z.leb_le; lia). reflexivity. }
    rewrite E. reflexivity.
  - inversion Hall as [|? ? Hs Hall']; subst.
    rewrite joined_cons in Hp.
    destruct Hp as [Hp | (Hnil & _)].
    2:{ exfalso. apply app_eq_nil in Hnil. destruct Hnil as (_ & Hnil). apply app_eq_nil in Hnil.
        destruct Hnil as (Hnil & _). exact (tshape_nonempty _ Hs Hnil). }
    destruct (tshape_step b line idx bl tok (rest_of toks) Hp Hb Hs (rest_of_ok toks)) as (idx' & rest' & E & Hp' & Hrest').
    rewrite E.
    assert (Hnext : exists bl', rest' = bl' ++ joined toks /\ blanks bl').
    { destruct toks as [|t2 toks].
      - exists []. split; [|constructor]. destruct Hrest' as [-> | ->]; reflexivity.
      - destruct Hrest' as [-> | ->].
        + exists [ttl_blank]. split; [reflexivity | repeat constructor].
        + exists []. split; [reflexivity | constructor]. }
    destruct Hnext as (bl' & -> & Hb').
    rewrite (IH bl' line idx' f Hp' Hb' Hall') by (cbn [List.length] in Hfuel; lia).
    reflexivity.
Qed.

Lemma joined_length toks : (List.length toks <= S (List.length (joined toks)))%nat.
Proof.
  induction toks as [|t toks IH]; [cbn; lia|].
  rewrite joined_cons. destruct toks as [|t2 toks]; [cbn; lia|].
  unfold rest_of. rewrite app_length. cbn [List.length] in *. lia.
Qed.

(** T2: on a cleaned line that is the blank-separated concatenation of
    dialect tokens, iterating [_next_line_token] returns exactly those tokens
    ([<...>] tokens after [_parse_cornered_element]) *)
Theorem tokenizer_correct b toks :
  Forall tshape toks ->
  tokenize (S (S (List.length (joined toks)))) b (joined toks) 0 = Ok (map (vtok b) toks).
Proof.
  intros H. apply (tokenize_joined b toks [] (joined toks) 0).
  - left. exists []. split; reflexivity.
  - constructor.
  - exact H.
  - pose proof (joined_length toks). lia.
Qed.

Corollary tokens_line_machine toks s :
  Forall tshape toks ->
  process_tokens_line (joined toks) s = machine (map (vtok (base s)) toks) s.
Proof.
  intros H. unfold process_tokens_line. apply line_loop_tokenize. apply tokenizer_correct. exact H.
Qed.

(** ** rejection: the syntactic escapes the code tests *)

(** a closing quote followed by anything but a blank, [^], [@] or the end of
    the line raises ValueError *)
Lemma nlt_lit_reject b line i bl lex c rest :
  at_pos line i (bl ++ (s_quote ++ lex ++ s_quote) ++ c :: rest) -> blanks bl -> Lex lex ->
  chr_eqb c ttl_blank = false -> mem_str [c] ttl_literal_suffix_chars = false ->
  next_line_token b line i = Err TEValue.
Proof.
  intros H Hb Hlex Hcb Hcs.
  pose proof (at_pos_advance _ _ _ _ H) as H1.
  set (q0 := i + len bl) in *.
  assert (Hq0 : 0 <= q0) by (apply (at_pos_nonneg _ _ _ H1)).
  destruct H1 as (pre & Hline & Hq0e).
  assert (Hscan : find_next_unescaped_quotes line (q0 + 1) = Ok (q0 + 1 + len lex)).
  { unfold find_next_unescaped_quotes.
    replace (q0 + 1) with (len (pre ++ s_quote)) by (rewrite len_app, <- Hq0e; reflexivity).
    apply (scan_lex line (c :: rest) lex Hlex (pre ++ s_quote)).
    - rewrite Hline. rewrite <- !app_assoc. reflexivity.
    - destruct pre; discriminate.
    - unfold s_quote. rewrite tbk_snoc. reflexivity.
    - rewrite Hline. rewrite !app_length. cbn [List.length]. lia. }
  assert (H1 : at_pos line q0 ((s_quote ++ lex ++ s_quote) ++ c :: rest)) by (exists pre; auto).
  assert (Hopen : at_pos line q0 (ttl_lit_open :: (lex ++ s_quote) ++ c :: rest)) by exact H1.
  assert (Hafter : at_pos line (q0 + 1 + len lex + 1) (c :: rest)).
  { exists (pre ++ s_quote ++ lex ++ s_quote). split.
    - rewrite Hline, <- !app_assoc. reflexivity.
    - rewrite !len_app, <- Hq0e. change (len s_quote) with 1. lia. }
  unfold next_line_token.
  rewrite (skip_blanks_at_pos line i bl _ H Hb eq_refl). fold q0.
  rewrite (at_pos_len _ _ _ Hafter), len_cons.
  rewrite Zleb_false_lt by (pose proof (len_nonneg lex); pose proof (len_nonneg rest); lia).
  rewrite (at_idx_at_pos _ _ _ _ Hopen).
  change (mem_str [ttl_lit_open] ttl_CLOSURES) with false.
  change (chr_eqb ttl_lit_open ttl_iri_open) with false. rewrite chr_eqb_refl. cbv iota.
  unfold find_literal_ending. rewrite Hscan. cbn [bind].
  rewrite (at_pos_len _ _ _ Hafter), len_cons.
  rewrite Zleb_false_lt by (pose proof (len_nonneg rest); lia).
  unfold is_char_at. rewrite (at_idx_at_pos _ _ _ _ Hafter), Hcb, Hcs. reflexivity.
Qed.

(** a token met when the registers are full raises ValueError and nothing is yielded for it *)
Lemma step_not_waiting s tok :
  state s = NW -> closure_state tok = None -> step s tok = ([], Err TEValue).
Proof. intros Hs Hc. unfold step, assign. rewrite Hc, Hs. reflexivity. Qed.

(** an exception ends the run: what was yielded before it is kept, nothing follows *)
Lemma machine_error_stops a tok b s ts s' ts2 e :
  machine a s = (ts, Ok s') -> step s' tok = (ts2, Err e) ->
  machine (a ++ tok :: b) s = (ts ++ ts2, Err e).
Proof. intros Ha Hs. rewrite machine_app, Ha. cbn [machine]. rewrite Hs. reflexivity. Qed.
