(** * Proofs for C03 (conformance in all-compliant mode). *)
From Coq Require Import List Ascii String ZArith NArith Bool Lia.
From Shexer Require Import Lib.PyStr Lib.Dict Gen.Consts Spec.Rdf Spec.ShexSem Model.Tracker Model.Profiler
     Model.Tokens Model.Freq Model.FreqInst Model.Shexing Model.SerialShexc Model.Run Model.SchemaOf Model.C03Dom.
Import ListNotations.

(** ** the statement the property makes about one run *)

(** the schema extracted by the model run, judged by [Spec/ShexSem] on the
    instance typing of the graph; [None] when the run raises *)
Definition conforms_run (fa : FreqAlg) (c : rcfg) (thr : F fa) (g : graph) : option bool :=
  match run_shapes fa c thr g with
  | inl (_, shapes) =>
    Some (valid_typingb (schema_of (r_tau c) shapes) g (instance_typing (r_tau c) (r_shapes_ns c) g))
  | inr _ => None
  end.

(** the default configuration (all-compliant mode, keep_less_specific, no OR) *)
Definition c03_cfg (inverse discard allow_opt disable_exact kls : bool) : rcfg :=
  {| r_tau := c_RDF_TYPE; r_targets := None; r_ns := []; r_shapes_ns := c_SHAPES_DEFAULT_NAMESPACE;
     r_cap := (-1)%Z; r_inverse := inverse; r_remove_empty := true; r_discard_useless := discard;
     r_keep_less_specific := kls; r_all_compliant := true; r_disable_or := true;
     r_allow_redundant_or := false; r_allow_opt := allow_opt; r_disable_exact := disable_exact;
     r_disable_comments := false; r_mode := FMixed |}.

(** small-graph notation for the witnesses *)
Definition ex (s : string) : str := Str "http://ex.org/" ++ Str s.
Definition nI (s : string) : node := Node KIri (ex s).
Definition nB (s : string) : node := Node KBnode (Str "_:" ++ Str s).
Definition ty (s c : string) : triple := T (nI s) c_RDF_TYPE (ON (nI c)).
Definition tr (s p : string) (o : obj) : triple := T (nI s) (ex p) o.
Definition xs_string : str := Str "http://www.w3.org/2001/XMLSchema#string".
Definition lit (s : string) : obj := OL (Str s) xs_string.

(** * Part 1 -- structure of the selection stage *)

(** everything of a statement except its comments *)
Definition same_core (a b : stmt) : Prop :=
  s_inv a = s_inv b /\ s_prop a = s_prop b /\ s_types a = s_types b /\ s_choice a = s_choice b /\
  s_card a = s_card b /\ s_nocc a = s_nocc b /\ s_prob a = s_prob b.

Lemma same_core_refl a : same_core a a.
Proof. repeat split. Qed.

Lemma same_core_sym a b : same_core a b -> same_core b a.
Proof. unfold same_core. intuition congruence. Qed.

Lemma same_core_trans a b c : same_core a b -> same_core b c -> same_core a c.
Proof. unfold same_core. intuition congruence. Qed.

Lemma same_core_type a b : same_core a b -> s_type a = s_type b.
Proof. intros H. unfold s_type. destruct H as (_ & _ & -> & _). reflexivity. Qed.

(** the two statements the node-kind merge builds *)
Definition nl_stmt (b i : stmt) : stmt :=
  {| s_inv := s_inv b; s_prop := s_prop b; s_types := [c_NONLITERAL_ELEM_TYPE];
     s_choice := false; s_card := most_general_card (s_card b) (s_card i);
     s_nocc := (s_nocc b + s_nocc i)%N;
     s_prob := match s_prob b, s_prob i with
               | PRatio x, PRatio y => PSum x y
               | _, _ => PSum (s_nocc b) (s_nocc i)
               end;
     s_comments := [] |}.

Definition ch_stmt (d : stmt) (tys : list str) : stmt :=
  {| s_inv := s_inv d; s_prop := s_prop d; s_types := tys; s_choice := true;
     s_card := s_card d; s_nocc := s_nocc d; s_prob := s_prob d; s_comments := [] |}.

Section Pieces.
  Variable fa : FreqAlg.
  Variable cfg : scfg.

  Definition g_bnode (g : list stmt) := last_such (fun s => str_eqb (s_type s) c_BNODE_ELEM_TYPE) g.
  Definition g_iri (g : list stmt) := last_such (fun s => str_eqb (s_type s) c_IRI_ELEM_TYPE) g.
  Definition g_shapes (cnt : N) (g : list stmt) :=
    sort_desc fa cnt (filter (fun s => negb (str_eqb (s_type s) c_BNODE_ELEM_TYPE) &&
                                       negb (str_eqb (s_type s) c_IRI_ELEM_TYPE)) g).

  Definition g_dominant (bnode iri : option stmt) (shapes : list stmt) : stmt + serr :=
    match bnode with
    | Some b =>
      match iri with
      | Some i =>
        match shapes with
        | [s0] => if N.eqb (s_nocc i + s_nocc b) (s_nocc s0) then inl s0 else inl (nl_stmt b i)
        | _ => inl (nl_stmt b i)
        end
      | None =>
        match shapes with
        | s0 :: _ => if N.eqb (s_nocc s0) (s_nocc b) then inl s0 else inl b
        | [] => inl b
        end
      end
    | None =>
      match shapes with
      | [] => match iri with Some i => inl i | None => inr SEValue end
      | s0 :: _ =>
        match iri with
        | None => inl s0
        | Some i => if N.ltb (s_nocc s0) (s_nocc i) then inl i else inl s0
        end
      end
    end.

  Definition g_or_types (dom0 : stmt) (shapes : list stmt) : list str :=
    let dom_in_shapes := existsb (same_obj dom0) shapes in
    if x_allow_redundant_or cfg
    then (if dom_in_shapes then [] else [s_type dom0]) ++ map s_type shapes
    else if dom_in_shapes then map s_type shapes else [].

  Definition g_dom1 (dom0 : stmt) (shapes : list stmt) : stmt :=
    if x_disable_or cfg then dom0
    else if Nat.ltb 1 (List.length (g_or_types dom0 shapes))
         then ch_stmt dom0 (g_or_types dom0 shapes) else dom0.

  Definition g_first (bnode iri : option stmt) : list stmt :=
    match bnode with
    | Some b => b :: match iri with Some i => [i] | None => [] end
    | None => []
    end.

  Lemma merge_group_eq cnt g :
    merge_group fa cfg cnt g =
    match g_dominant (g_bnode g) (g_iri g) (g_shapes cnt g) with
    | inr e => inr e
    | inl dom0 =>
      add_comments_of cfg (g_dom1 dom0 (g_shapes cnt g))
        (g_first (g_bnode g) (g_iri g) ++
         filter (fun s => negb (same_obj (g_dom1 dom0 (g_shapes cnt g)) s)) (g_shapes cnt g))
    end.
  Proof. reflexivity. Qed.
End Pieces.

Lemma last_such_In f l x : last_such f l = Some x -> In x l /\ f x = true.
Proof.
  unfold last_such. intros H. apply find_some in H. destruct H as [H1 H2].
  split; [apply in_rev; exact H1 | exact H2].
Qed.

Lemma In_sort_desc fa cnt l y : In y (sort_desc fa cnt l) <-> In y l.
Proof.
  unfold sort_desc.
  assert (Hins : forall x l0 z, In z (insert_desc fa cnt x l0) <-> z = x \/ In z l0).
  { intros x l0 z. induction l0 as [|w l0 IH]; cbn.
    - intuition.
    - destruct (fle fa _ _); cbn; rewrite ?IH; intuition. }
  assert (H : forall l0 acc, In y (fold_left (fun acc x => insert_desc fa cnt x acc) l0 acc) <-> In y l0 \/ In y acc).
  { induction l0 as [|x l0 IH]; intros acc; cbn; [intuition|].
    rewrite IH, Hins. intuition. }
  rewrite H. cbn. intuition.
Qed.

Lemma map_err_In {A B E} (f : A -> B + E) l out y :
  map_err f l = inl out -> In y out -> exists x, In x l /\ f x = inl y.
Proof.
  revert out; induction l as [|x l IH]; cbn; intros out H Hy.
  - inversion H; subst. destruct Hy.
  - destruct (f x) as [z|e] eqn:Efx; [|discriminate].
    destruct (map_err f l) as [ys|e]; [|discriminate]. inversion H; subst.
    destruct Hy as [<-|Hy].
    + exists x. split; [left; reflexivity | exact Efx].
    + destruct (IH ys eq_refl Hy) as [x' [H1 H2]]. exists x'. split; [right; exact H1 | exact H2].
Qed.

(** ** an invariant of the selection stage: [Q] is stable under adding a
    comment, under the NONLITERAL statement and under a choice statement *)
Section Inv.
  Variable fa : FreqAlg.
  Variable cfg : scfg.
  Variable Q : stmt -> Prop.
  Hypothesis Hadd : forall s k, Q s -> Q (add_comment s k).
  Hypothesis Hnl : forall b i, Q b -> Q i -> Q (nl_stmt b i).
  Hypothesis Hch : forall d tys, Q d -> Q (ch_stmt d tys).

  Lemma add_comments_of_inv l : forall dom r, Q dom -> add_comments_of cfg dom l = inl r -> Q r.
  Proof.
    induction l as [|x l IH]; cbn; intros dom r Hd H.
    - inversion H; subst; exact Hd.
    - destruct (comment_of cfg x) as [k|e]; [|discriminate].
      eapply IH; [|exact H]. apply Hadd. exact Hd.
  Qed.

  Lemma decide_best_inv cnt g r : Forall Q g -> decide_best fa cfg cnt g = inl r -> Q r.
  Proof.
    intros Hg. rewrite Forall_forall in Hg. unfold decide_best.
    destruct (x_discard_useless cfg && useless_plus_group fa cnt g).
    - unfold first_such. destruct (List.find _ g) as [s|] eqn:E; [|discriminate].
      intros H; inversion H; subst. apply Hg. apply find_some in E. apply E.
    - set (gs := sort_desc fa cnt g).
      assert (Hgs : forall x, In x gs -> Q x).
      { intros x Hx. apply Hg. apply (In_sort_desc fa cnt). exact Hx. }
      match goal with |- match ?p with _ => _ end = _ -> _ => destruct p as [res|] eqn:E end; [|discriminate].
      intros H. eapply add_comments_of_inv; [|exact H]. apply Hgs.
      unfold first_such in E.
      destruct (x_keep_less_specific cfg).
      + destruct (List.find _ gs) as [s|] eqn:E1.
        * inversion E; subst. apply find_some in E1. apply E1.
        * destruct gs; cbn in E; [discriminate|]. inversion E; subst. left; reflexivity.
      + destruct (List.find _ gs) as [s|] eqn:E1.
        * inversion E; subst. apply find_some in E1. apply E1.
        * destruct gs; cbn in E; [discriminate|]. inversion E; subst. left; reflexivity.
  Qed.

  Lemma Forall_filter' (p : stmt -> bool) l : Forall Q l -> Forall Q (filter p l).
  Proof. rewrite !Forall_forall. intros H x Hx. apply filter_In in Hx. apply H, Hx. Qed.

  Lemma group_same_inv cnt fuel : forall l r,
    Forall Q l -> group_same fa cfg fuel cnt l = inl r -> Forall Q r.
  Proof.
    induction fuel as [|f IH]; cbn; intros l r Hl H.
    - inversion H; subst; exact Hl.
    - destruct l as [|a rest]; [inversion H; constructor|].
      inversion Hl as [|? ? Ha Hrest]; subst.
      match type of H with match ?p with _ => _ end = _ => destruct p as [r0|e] eqn:E0 end; [|discriminate].
      destruct (group_same fa cfg f cnt _) as [rs|e] eqn:E1; [|discriminate].
      inversion H; subst. constructor.
      + destruct (filter (same_tokens a) rest) as [|b grp] eqn:Eg.
        * inversion E0; subst; exact Ha.
        * eapply decide_best_inv; [|exact E0]. constructor; [exact Ha|].
          rewrite <- Eg. apply Forall_filter'. exact Hrest.
      + eapply IH; [|exact E1]. apply Forall_filter'. exact Hrest.
  Qed.

  Lemma g_dominant_inv bnode iri shapes r :
    (forall b, bnode = Some b -> Q b) -> (forall i, iri = Some i -> Q i) -> Forall Q shapes ->
    g_dominant bnode iri shapes = inl r -> Q r.
  Proof.
    intros Hb Hi Hs. unfold g_dominant.
    destruct bnode as [b|]; destruct iri as [i|].
    - specialize (Hb b eq_refl). specialize (Hi i eq_refl).
      destruct shapes as [|s0 [|s1 sh]].
      + intros H; inversion H; subst. apply Hnl; assumption.
      + inversion Hs; subst. destruct (N.eqb _ _); intros H; inversion H; subst;
          [assumption | apply Hnl; assumption].
      + intros H; inversion H; subst. apply Hnl; assumption.
    - specialize (Hb b eq_refl). destruct shapes as [|s0 sh].
      + intros H; inversion H; subst; assumption.
      + inversion Hs; subst. destruct (N.eqb _ _); intros H; inversion H; subst; assumption.
    - specialize (Hi i eq_refl). destruct shapes as [|s0 sh].
      + intros H; inversion H; subst; assumption.
      + inversion Hs; subst. destruct (N.ltb _ _); intros H; inversion H; subst; assumption.
    - destruct shapes as [|s0 sh]; [discriminate|].
      inversion Hs; subst. intros H; inversion H; subst; assumption.
  Qed.

  Lemma g_dom1_inv dom0 shapes : Q dom0 -> Q (g_dom1 cfg dom0 shapes).
  Proof.
    intros Hd. unfold g_dom1. destruct (x_disable_or cfg); [exact Hd|].
    destruct (Nat.ltb 1 _); [|exact Hd]. apply Hch. exact Hd.
  Qed.

  Lemma g_shapes_Forall cnt g : Forall Q g -> Forall Q (g_shapes fa cnt g).
  Proof.
    intros H. unfold g_shapes. rewrite Forall_forall in *. intros x Hx.
    apply In_sort_desc in Hx. apply filter_In in Hx. apply H, Hx.
  Qed.

  Lemma merge_group_inv cnt g r : Forall Q g -> merge_group fa cfg cnt g = inl r -> Q r.
  Proof.
    intros Hg. rewrite merge_group_eq.
    destruct (g_dominant _ _ _) as [dom0|e] eqn:E; [|discriminate].
    intros H. eapply add_comments_of_inv; [|exact H].
    assert (Hin : forall f x, last_such f g = Some x -> Q x).
    { intros f x Hx. apply last_such_In in Hx. rewrite Forall_forall in Hg. apply Hg, Hx. }
    apply g_dom1_inv.
    eapply g_dominant_inv; [| |apply g_shapes_Forall; exact Hg|exact E].
    - intros b. apply Hin.
    - intros i. apply Hin.
  Qed.

  Lemma group_nodes_inv cnt fuel : forall l r,
    Forall Q l -> group_nodes fa cfg fuel cnt l = inl r -> Forall Q r.
  Proof.
    induction fuel as [|f IH]; cbn; intros l r Hl H.
    - inversion H; subst; exact Hl.
    - destruct l as [|a rest]; [inversion H; constructor|].
      inversion Hl as [|? ? Ha Hrest]; subst.
      destruct (str_eqb (s_prop a) (x_tau cfg) || negb (is_nonliteral_type (s_type a))).
      + destruct (group_nodes fa cfg f cnt rest) as [rs|e] eqn:E1; [|discriminate].
        inversion H; subst. constructor; [exact Ha|]. eapply IH; [exact Hrest | exact E1].
      + match type of H with match ?p with _ => _ end = _ => destruct p as [r0|e] eqn:E0 end; [|discriminate].
        destruct (group_nodes fa cfg f cnt _) as [rs|e] eqn:E1; [|discriminate].
        inversion H; subst. constructor.
        * destruct (filter (mergeable_with a) rest) as [|b grp] eqn:Eg.
          -- inversion E0; subst; exact Ha.
          -- eapply merge_group_inv; [|exact E0]. constructor; [exact Ha|].
             rewrite <- Eg. apply Forall_filter'. exact Hrest.
        * eapply IH; [|exact E1]. apply Forall_filter'. exact Hrest.
  Qed.

  Lemma select_valid_inv cnt l r : Forall Q l -> select_valid fa cfg cnt l = inl r -> Forall Q r.
  Proof.
    unfold select_valid. intros Hl. destruct l as [|a l]; [intros H; inversion H; constructor|].
    destruct (group_same fa cfg _ cnt (a :: l)) as [l1|e] eqn:E; [|discriminate].
    intros H. eapply group_nodes_inv; [|exact H]. eapply group_same_inv; [exact Hl | exact E].
  Qed.
End Inv.

(** * Part 2 -- base statements, tuning, one class, the whole stage *)

Definition base_card (c : card) : Prop := match c with CExact _ | CPlus => True | _ => False end.

Lemma most_general_card_base a b : base_card a -> base_card (most_general_card a b).
Proof. intros H. unfold most_general_card. destruct (_ || _); [exact I | exact H]. Qed.

Definition mk_base (inv : bool) (p k : str) (c : ckey) (n : N) : stmt :=
  {| s_inv := inv; s_prop := p; s_types := [k]; s_choice := false; s_card := card_of_key c;
     s_nocc := n; s_prob := PRatio n; s_comments := [] |}.

Lemma base_statements_In fa thr cnt inv pd b :
  In b (base_statements fa thr cnt inv pd) <->
  exists p m k cd c n, In (p, m) pd /\ In (k, cd) m /\ In (c, n) cd /\
                       fle fa thr (ratio fa n cnt) = true /\ b = mk_base inv p k c n.
Proof.
  unfold base_statements. split.
  - intros Hs.
    apply in_flat_map in Hs. destruct Hs as ([p m] & Hpm & Hs).
    apply in_flat_map in Hs. destruct Hs as ([k cd] & Hk & Hs).
    apply in_flat_map in Hs. destruct Hs as ([c n] & Hc & Hs). cbn in *.
    destruct (fle fa thr (ratio fa n cnt)) eqn:E; cbn in Hs; [|contradiction].
    destruct Hs as [<-|[]]. exists p, m, k, cd, c, n. repeat split; assumption.
  - intros (p & m & k & cd & c & n & H1 & H2 & H3 & H4 & ->).
    apply in_flat_map. exists (p, m). split; [exact H1|].
    apply in_flat_map. exists (k, cd). split; [exact H2|].
    apply in_flat_map. exists (c, n). split; [exact H3|]. cbn. rewrite H4. left. reflexivity.
Qed.

Lemma base_statements_card fa thr cnt inv pd b :
  In b (base_statements fa thr cnt inv pd) -> base_card (s_card b) /\ s_inv b = inv /\ s_choice b = false.
Proof.
  intros H. apply base_statements_In in H. destruct H as (p & m & k & cd & c & n & _ & _ & _ & _ & ->).
  cbn. split; [destruct c; exact I | split; reflexivity].
Qed.

(** ** tuning *)

Definition gen_card (cfg : scfg) (c : card) : card :=
  if x_disable_exact cfg
  then match c with CExact k => if N.ltb 1 k then CPlus else c | _ => c end
  else c.

Definition post (cfg : scfg) (s : stmt) : stmt :=
  (if x_disable_comments cfg then drop_comments else fun x => x)
    ((if x_disable_exact cfg then generalize_exact else fun x => x) s).

Lemma generalize_exact_fields s :
  s_inv (generalize_exact s) = s_inv s /\ s_prop (generalize_exact s) = s_prop s /\
  s_types (generalize_exact s) = s_types s /\ s_choice (generalize_exact s) = s_choice s /\
  s_nocc (generalize_exact s) = s_nocc s /\ s_prob (generalize_exact s) = s_prob s /\
  s_card (generalize_exact s) = match s_card s with CExact k => if N.ltb 1 k then CPlus else CExact k | c => c end.
Proof.
  unfold generalize_exact. destruct (s_card s) as [k| | |] eqn:E; try (rewrite E; repeat split; reflexivity).
  destruct (N.ltb 1 k); cbn; rewrite ?E; repeat split; reflexivity.
Qed.

Lemma post_fields cfg s :
  s_inv (post cfg s) = s_inv s /\ s_prop (post cfg s) = s_prop s /\ s_types (post cfg s) = s_types s /\
  s_choice (post cfg s) = s_choice s /\ s_nocc (post cfg s) = s_nocc s /\ s_prob (post cfg s) = s_prob s /\
  s_card (post cfg s) = gen_card cfg (s_card s).
Proof.
  unfold post, gen_card. destruct (generalize_exact_fields s) as (G1 & G2 & G3 & G4 & G5 & G6 & G7).
  assert (G7' : s_card (generalize_exact s) =
                match s_card s with CExact k => if N.ltb 1 k then CPlus else s_card s | _ => s_card s end).
  { rewrite G7. destruct (s_card s); reflexivity. }
  destruct (x_disable_comments cfg), (x_disable_exact cfg); cbn; repeat split; assumption.
Qed.

Lemma tune_eq fa cfg cnt valid :
  tune fa cfg cnt valid =
  match valid with
  | [] => inl []
  | _ => match (if x_all_compliant cfg then map_err (relax fa cfg cnt) (sort_desc fa cnt valid)
                else inl (sort_desc fa cnt valid)) with
         | inr e => inr e
         | inl l1 => inl (map (post cfg) l1)
         end
  end.
Proof.
  unfold tune, post. destruct valid; [reflexivity|].
  destruct (if x_all_compliant cfg then _ else _) as [l1|e]; [|reflexivity].
  destruct (x_disable_exact cfg), (x_disable_comments cfg); cbn;
    rewrite ?map_map, ?map_id; reflexivity.
Qed.

Lemma relax_spec fa cfg cnt v s :
  relax fa cfg cnt v = inl s ->
  (feqb fa (pv fa cnt v) (fone fa) = true /\ s = v) \/
  (feqb fa (pv fa cnt v) (fone fa) = false /\ s_inv s = s_inv v /\ s_prop s = s_prop v /\
   s_types s = s_types v /\ s_choice s = s_choice v /\ s_card s = relax_card cfg (s_card v) /\
   s_nocc s = s_nocc v).
Proof.
  unfold relax. destruct (feqb fa _ _); cbn.
  - intros H; inversion H; subst. left. split; reflexivity.
  - destruct (comment_of cfg v); [|discriminate]. intros H; inversion H; subst. cbn. right. repeat split.
Qed.

Lemma gen_card_relax cfg c : gen_card cfg (relax_card cfg c) = relax_card cfg c.
Proof. unfold gen_card, relax_card. destruct (x_disable_exact cfg), (_ && _); reflexivity. Qed.

(** what an output statement of [tune] is, in terms of a selected statement *)
Definition tuned_from (fa : FreqAlg) (cfg : scfg) (cnt : N) (v s : stmt) : Prop :=
  s_inv s = s_inv v /\ s_prop s = s_prop v /\ s_types s = s_types v /\ s_choice s = s_choice v /\
  s_nocc s = s_nocc v /\
  ((x_all_compliant cfg = true /\ feqb fa (pv fa cnt v) (fone fa) = false /\
    s_card s = relax_card cfg (s_card v))
   \/ ((x_all_compliant cfg = false \/ feqb fa (pv fa cnt v) (fone fa) = true) /\
       s_card s = gen_card cfg (s_card v) /\ s_prob s = s_prob v)).

Lemma tune_spec fa cfg cnt valid out :
  tune fa cfg cnt valid = inl out ->
  forall s, In s out -> exists v, In v valid /\ tuned_from fa cfg cnt v s.
Proof.
  rewrite tune_eq. destruct valid as [|a valid]; [intros H; inversion H; intros s []|].
  set (l0 := sort_desc fa cnt (a :: valid)).
  assert (Hl0 : forall v, In v l0 -> In v (a :: valid)) by (intros v; apply In_sort_desc).
  destruct (x_all_compliant cfg) eqn:Eac.
  - destruct (map_err _ l0) as [l1|e] eqn:E; [|discriminate].
    intros H; inversion H; subst. intros s Hs. apply in_map_iff in Hs. destruct Hs as [s1 [<- Hs1]].
    destruct (map_err_In _ _ _ _ E Hs1) as [v [Hv Hr]].
    exists v. split; [apply Hl0; exact Hv|].
    pose proof (post_fields cfg s1) as (P1 & P2 & P3 & P4 & P5 & P6 & P7).
    apply relax_spec in Hr. destruct Hr as [[Hf ->] | (Hf & R1 & R2 & R3 & R4 & R5 & R6)].
    + unfold tuned_from. repeat split; try assumption. right. repeat split; try assumption. right; exact Hf.
    + unfold tuned_from. repeat split; try congruence. left. repeat split; try assumption.
      rewrite P7, R5. apply gen_card_relax.
  - intros H; inversion H; subst. intros s Hs. apply in_map_iff in Hs. destruct Hs as [v [<- Hv]].
    exists v. split; [apply Hl0; exact Hv|].
    pose proof (post_fields cfg v) as (P1 & P2 & P3 & P4 & P5 & P6 & P7).
    unfold tuned_from. repeat split; try assumption. right. repeat split; try assumption. left; exact Eac.
Qed.

(** ** one class *)

Definition class_base (fa : FreqAlg) (cfg : scfg) (thr : F fa) (counts : ccounts) (ce : str * centry) : list stmt :=
  base_statements fa thr (class_cnt counts ce) false (c_direct (snd ce)) ++
  (if x_inverse cfg then base_statements fa thr (class_cnt counts ce) true (c_inverse (snd ce)) else []).

(** the candidates of one direction, in the order the selection sees them *)
Definition class_dir (fa : FreqAlg) (cfg : scfg) (thr : F fa) (counts : ccounts) (ce : str * centry) (inv : bool)
  : list stmt :=
  filter (fun s => Bool.eqb (s_inv s) inv)
         (sort_desc fa (class_cnt counts ce) (class_base fa cfg thr counts ce)).

Definition class_selected (fa : FreqAlg) (cfg : scfg) (thr : F fa) (counts : ccounts) (ce : str * centry)
  : list stmt + serr :=
  match select_valid fa cfg (class_cnt counts ce) (class_dir fa cfg thr counts ce false) with
  | inr e => inr e
  | inl vd =>
    match select_valid fa cfg (class_cnt counts ce) (class_dir fa cfg thr counts ce true) with
    | inr e => inr e
    | inl vi => inl (vd ++ vi)
    end
  end.

Lemma filter_ext_eq {A} (f g : A -> bool) l : (forall x, f x = g x) -> filter f l = filter g l.
Proof. intros H. induction l as [|x l IH]; cbn; [reflexivity|]. rewrite H, IH. reflexivity. Qed.

Lemma shex_class_eq fa cfg thr counts ce :
  shex_class fa cfg thr counts ce =
  match class_selected fa cfg thr counts ce with
  | inr e => inr e
  | inl v =>
    match tune fa cfg (class_cnt counts ce) v with
    | inr e => inr e
    | inl stmts => inl {| sh_name := shape_name (x_shapes_ns cfg) (fst ce); sh_class := fst ce;
                          sh_n := class_cnt counts ce; sh_stmts := stmts |}
    end
  end.
Proof.
  unfold shex_class, class_selected, class_dir, class_base, class_cnt.
  rewrite (filter_ext_eq (fun s => negb (s_inv s)) (fun s => Bool.eqb (s_inv s) false))
    by (intros x; destruct (s_inv x); reflexivity).
  rewrite (filter_ext_eq (fun s => s_inv s) (fun s => Bool.eqb (s_inv s) true))
    by (intros x; destruct (s_inv x); reflexivity).
  destruct (select_valid fa cfg _ (filter (fun s => Bool.eqb (s_inv s) false) _)) as [vd|e]; [|reflexivity].
  destruct (select_valid fa cfg _ (filter (fun s => Bool.eqb (s_inv s) true) _)) as [vi|e]; reflexivity.
Qed.

Lemma class_dir_In fa cfg thr counts ce inv b :
  In b (class_dir fa cfg thr counts ce inv) <-> In b (class_base fa cfg thr counts ce) /\ s_inv b = inv.
Proof.
  unfold class_dir. rewrite filter_In, In_sort_desc, Bool.eqb_true_iff. tauto.
Qed.

(** ** the whole stage: every output shape comes from [shex_class] and keeps a
    sub-list of its statements ([_clean_empty_shapes] only removes) *)

Lemma prune_shape_sub names sh sh' :
  prune_shape names sh = inl sh' ->
  sh_name sh' = sh_name sh /\ sh_class sh' = sh_class sh /\ sh_n sh' = sh_n sh /\
  incl (sh_stmts sh') (sh_stmts sh).
Proof.
  unfold prune_shape. destruct (existsb _ _); [discriminate|]. intros H; inversion H; subst; cbn.
  repeat split. intros x Hx. apply in_app_or in Hx.
  destruct Hx as [Hx|Hx]; apply filter_In in Hx; destruct Hx as [Hx _]; apply filter_In in Hx; apply Hx.
Qed.

Definition shape_sub (sh' sh : shape) : Prop :=
  sh_name sh' = sh_name sh /\ sh_class sh' = sh_class sh /\ sh_n sh' = sh_n sh /\
  incl (sh_stmts sh') (sh_stmts sh).

Lemma clean_shapes_sub fuel : forall l l',
  clean_shapes fuel l = inl l' -> forall sh', In sh' l' -> exists sh, In sh l /\ shape_sub sh' sh.
Proof.
  induction fuel as [|f IH]; cbn; intros l l' H sh' Hin.
  - inversion H; subst. exists sh'. split; [exact Hin|]. repeat split. apply incl_refl.
  - destruct (empty_names l) as [|n names] eqn:En.
    + inversion H; subst. exists sh'. split; [exact Hin|]. repeat split. apply incl_refl.
    + destruct (map_err _ _) as [l1|e] eqn:E; [|discriminate].
      destruct (IH _ _ H sh' Hin) as [sh1 [H1 S1]].
      destruct (map_err_In _ _ _ _ E H1) as [sh [Hsh Hp]].
      apply filter_In in Hsh. exists sh. split; [apply Hsh|].
      apply prune_shape_sub in Hp. destruct S1 as (A1 & A2 & A3 & A4). destruct Hp as (B1 & B2 & B3 & B4).
      repeat split; try congruence. eapply incl_tran; eassumption.
Qed.

Lemma shex_spec fa cfg thr P C shapes :
  shex fa cfg thr P C = inl shapes ->
  forall sh', In sh' shapes ->
  exists ce sh, In ce P /\ shex_class fa cfg thr C ce = inl sh /\ shape_sub sh' sh.
Proof.
  unfold shex. destruct (map_err _ P) as [l|e] eqn:E; [|discriminate].
  intros H sh' Hin.
  assert (Hsub : exists sh, In sh l /\ shape_sub sh' sh).
  { destruct (x_remove_empty cfg).
    - eapply clean_shapes_sub; eassumption.
    - inversion H; subst. exists sh'. split; [exact Hin|]. repeat split. apply incl_refl. }
  destruct Hsub as [sh [Hsh Hs]].
  destruct (map_err_In _ _ _ _ E Hsh) as [ce [Hce Hc]]. exists ce, sh. split; [|split]; assumption.
Qed.

(** * Part 3 -- T1: with the mode off no cardinality is changed *)

Lemma gen_card_base cfg c : base_card c -> base_card (gen_card cfg c).
Proof.
  unfold gen_card. destruct (x_disable_exact cfg); [|tauto].
  destruct c as [k| | |]; cbn; try tauto. destruct (N.ltb 1 k); tauto.
Qed.

Lemma nl_stmt_type b i : s_type (nl_stmt b i) = c_NONLITERAL_ELEM_TYPE.
Proof. reflexivity. Qed.

(** provenance: a selected statement that is neither a disjunction nor the
    NONLITERAL statement is a candidate (up to comments) *)
Definition from_list (L : list stmt) (s : stmt) : Prop :=
  s_choice s = false -> s_type s <> c_NONLITERAL_ELEM_TYPE -> exists b, In b L /\ same_core s b.

Lemma from_list_add L s k : from_list L s -> from_list L (add_comment s k).
Proof. exact (fun H => H). Qed.

Lemma from_list_nl L b i : from_list L (nl_stmt b i).
Proof. intros _ H. exfalso. apply H. reflexivity. Qed.

Lemma from_list_ch L d tys : from_list L (ch_stmt d tys).
Proof. intros H. discriminate H. Qed.

Lemma from_list_self L : Forall (from_list L) L.
Proof. apply Forall_forall. intros x Hx _ _. exists x. split; [exact Hx | apply same_core_refl]. Qed.

Lemma select_valid_from fa cfg cnt L out :
  select_valid fa cfg cnt L = inl out -> Forall (from_list L) out.
Proof.
  intros H. eapply (select_valid_inv fa cfg (from_list L)); [| | |apply from_list_self|exact H].
  - intros s k. apply from_list_add.
  - intros b i _ _. apply from_list_nl.
  - intros d tys _. apply from_list_ch.
Qed.

Lemma select_valid_base_card fa cfg cnt L out :
  Forall (fun s => base_card (s_card s)) L -> select_valid fa cfg cnt L = inl out ->
  Forall (fun s => base_card (s_card s)) out.
Proof.
  intros HL H. eapply (select_valid_inv fa cfg (fun s => base_card (s_card s))); [| | |exact HL|exact H].
  - intros s k Hs. exact Hs.
  - intros b i Hb _. cbn. apply most_general_card_base. exact Hb.
  - intros d tys Hd. exact Hd.
Qed.

Lemma class_base_card fa cfg thr counts ce b :
  In b (class_base fa cfg thr counts ce) -> base_card (s_card b).
Proof.
  unfold class_base. intros H. apply in_app_or in H. destruct H as [H|H].
  - apply base_statements_card in H. apply H.
  - destruct (x_inverse cfg); [|destruct H]. apply base_statements_card in H. apply H.
Qed.

(** what [class_selected] returns: statements with un-relaxed cardinalities,
    each (unless a disjunction / NONLITERAL) a candidate of its direction *)
Lemma class_selected_spec fa cfg thr counts ce sel :
  class_selected fa cfg thr counts ce = inl sel ->
  forall v, In v sel ->
    base_card (s_card v) /\
    exists inv, from_list (class_dir fa cfg thr counts ce inv) v.
Proof.
  unfold class_selected.
  destruct (select_valid fa cfg _ (class_dir fa cfg thr counts ce false)) as [vd|e] eqn:Ed; [|discriminate].
  destruct (select_valid fa cfg _ (class_dir fa cfg thr counts ce true)) as [vi|e] eqn:Ei; [|discriminate].
  intros H v Hv. inversion H; subst. clear H.
  assert (Hb : forall inv, Forall (fun s => base_card (s_card s)) (class_dir fa cfg thr counts ce inv)).
  { intros inv. apply Forall_forall. intros x Hx. apply class_dir_In in Hx. eapply class_base_card. apply Hx. }
  apply in_app_or in Hv. destruct Hv as [Hv|Hv].
  - split.
    + pose proof (select_valid_base_card _ _ _ _ _ (Hb false) Ed) as F. rewrite Forall_forall in F. apply F, Hv.
    + exists false. pose proof (select_valid_from _ _ _ _ _ Ed) as F. rewrite Forall_forall in F. apply F, Hv.
  - split.
    + pose proof (select_valid_base_card _ _ _ _ _ (Hb true) Ei) as F. rewrite Forall_forall in F. apply F, Hv.
    + exists true. pose proof (select_valid_from _ _ _ _ _ Ei) as F. rewrite Forall_forall in F. apply F, Hv.
Qed.

(** every output statement of the stage is tuned from a selected statement of its class *)
Lemma shex_stmt_origin fa cfg thr P C shapes sh s :
  shex fa cfg thr P C = inl shapes -> In sh shapes -> In s (sh_stmts sh) ->
  exists ce sel v, In ce P /\ sh_class sh = fst ce /\ sh_n sh = class_cnt C ce /\
                   sh_name sh = shape_name (x_shapes_ns cfg) (fst ce) /\
                   class_selected fa cfg thr C ce = inl sel /\ In v sel /\
                   tuned_from fa cfg (class_cnt C ce) v s.
Proof.
  intros H Hsh Hs. destruct (shex_spec _ _ _ _ _ _ H sh Hsh) as (ce & sh0 & Hce & Hc & (S1 & S2 & S3 & S4)).
  rewrite shex_class_eq in Hc.
  destruct (class_selected fa cfg thr C ce) as [sel|e] eqn:Esel; [|discriminate].
  destruct (tune fa cfg (class_cnt C ce) sel) as [stmts|e] eqn:Et; [|discriminate].
  inversion Hc; subst sh0; cbn in *.
  destruct (tune_spec _ _ _ _ _ Et s (S4 s Hs)) as [v [Hv Ht]].
  exists ce, sel, v. split; [exact Hce|]. split; [exact S2|]. split; [exact S3|]. split; [exact S1|].
  split; [exact Esel|]. split; [exact Hv | exact Ht].
Qed.

(** T1 *)
Theorem mode_off_keeps_cards fa cfg thr P C shapes :
  x_all_compliant cfg = false -> shex fa cfg thr P C = inl shapes ->
  forall sh s, In sh shapes -> In s (sh_stmts sh) ->
    s_card s <> COpt /\ s_card s <> CStar /\
    exists ce sel v, In ce P /\ sh_class sh = fst ce /\
      class_selected fa cfg thr C ce = inl sel /\ In v sel /\
      s_inv s = s_inv v /\ s_prop s = s_prop v /\ s_types s = s_types v /\ s_choice s = s_choice v /\
      s_nocc s = s_nocc v /\ s_prob s = s_prob v /\
      s_card s = gen_card cfg (s_card v) /\ base_card (s_card v) /\
      (s_choice v = false -> s_type v <> c_NONLITERAL_ELEM_TYPE ->
       exists b, In b (class_base fa cfg thr C ce) /\ same_core v b).
Proof.
  intros Hoff H sh s Hsh Hs.
  destruct (shex_stmt_origin _ _ _ _ _ _ _ _ H Hsh Hs) as (ce & sel & v & Hce & Hcl & _ & _ & Hsel & Hv & Ht).
  destruct (class_selected_spec _ _ _ _ _ _ Hsel v Hv) as [Hbase [inv Hfrom]].
  destruct Ht as (T1 & T2 & T3 & T4 & T5 & [(Hon & _) | (_ & Hc & Hp)]); [congruence|].
  assert (Hbs : base_card (s_card s)) by (rewrite Hc; apply gen_card_base; exact Hbase).
  split; [intros E; rewrite E in Hbs; exact Hbs|]. split; [intros E; rewrite E in Hbs; exact Hbs|].
  exists ce, sel, v. repeat split; try assumption.
  intros Hch Hty. destruct (Hfrom Hch Hty) as [b [Hb Hcore]]. exists b. split; [|exact Hcore].
  apply class_dir_In in Hb. apply Hb.
Qed.

(** * Part 4 -- which candidate the first merge keeps (towards T2 / T3) *)

Lemma same_tokens_eq a b : same_tokens a b = true <-> s_prop a = s_prop b /\ s_type a = s_type b.
Proof. unfold same_tokens. rewrite andb_true_iff, !str_eqb_eq. tauto. Qed.

Lemma same_tokens_refl a : same_tokens a a = true.
Proof. apply same_tokens_eq. split; reflexivity. Qed.

Lemma same_tokens_sym a b : same_tokens a b = same_tokens b a.
Proof.
  destruct (same_tokens a b) eqn:E1, (same_tokens b a) eqn:E2; try reflexivity.
  - apply same_tokens_eq in E1. assert (same_tokens b a = true) by (apply same_tokens_eq; intuition). congruence.
  - apply same_tokens_eq in E2. assert (same_tokens a b = true) by (apply same_tokens_eq; intuition). congruence.
Qed.

Lemma same_tokens_trans a b c : same_tokens a b = true -> same_tokens b c = true -> same_tokens a c = true.
Proof. rewrite !same_tokens_eq. intuition congruence. Qed.

Lemma same_core_tokens a b : same_core a b -> same_tokens a b = true.
Proof. intros H. apply same_tokens_eq. split; [apply H | apply same_core_type; exact H]. Qed.

Lemma filter_filter_sub {A} (f g : A -> bool) l :
  (forall x, f x = true -> g x = true) -> filter f (filter g l) = filter f l.
Proof.
  intros H. induction l as [|x l IH]; cbn; [reflexivity|].
  destruct (g x) eqn:Eg; cbn.
  - rewrite IH. reflexivity.
  - destruct (f x) eqn:Ef; [|exact IH]. rewrite (H x Ef) in Eg. discriminate.
Qed.

Lemma filter_length_le {A} (f : A -> bool) l : List.length (filter f l) <= List.length l.
Proof. induction l as [|x l IH]; cbn; [lia|]. destruct (f x); cbn; lia. Qed.

Section Sharp.
  Variable fa : FreqAlg.
  Variable cfg : scfg.

  (** every result of the first merge is the decision for the whole token
      group of some candidate *)
  Lemma group_same_spec cnt : forall fuel l rs,
    List.length l <= fuel -> group_same fa cfg fuel cnt l = inl rs ->
    forall r, In r rs -> exists a, In a l /\
      ((filter (same_tokens a) l = [a] /\ r = a) \/
       ((exists x y g', filter (same_tokens a) l = x :: y :: g') /\
        decide_best fa cfg cnt (filter (same_tokens a) l) = inl r)).
  Proof.
    induction fuel as [|f IH]; intros l rs Hlen H r Hr.
    - destruct l; [|cbn in Hlen; lia]. cbn in H. inversion H; subst. destruct Hr.
    - destruct l as [|a rest]; cbn in H; [inversion H; subst; destruct Hr|].
      match type of H with match ?p with _ => _ end = _ => destruct p as [r0|e] eqn:E0 end; [|discriminate].
      destruct (group_same fa cfg f cnt _) as [rs'|e] eqn:E1; [|discriminate].
      inversion H; subst. clear H. destruct Hr as [<-|Hr].
      + exists a. split; [left; reflexivity|]. cbn [filter]. rewrite same_tokens_refl.
        destruct (filter (same_tokens a) rest) as [|b grp] eqn:Eg.
        * left. inversion E0; subst. split; reflexivity.
        * right. split; [exists a, b, grp; reflexivity | exact E0].
      + assert (Hlen' : List.length (filter (fun b => negb (same_tokens a b)) rest) <= f).
        { pose proof (filter_length_le (fun b => negb (same_tokens a b)) rest). cbn in Hlen. lia. }
        destruct (IH _ _ Hlen' E1 r Hr) as [a' [Ha' Hspec]].
        apply filter_In in Ha'. destruct Ha' as [Ha'rest Hneq]. apply negb_true_iff in Hneq.
        exists a'. split; [right; exact Ha'rest|].
        assert (Heq : filter (same_tokens a') (a :: rest) =
                      filter (same_tokens a') (filter (fun b => negb (same_tokens a b)) rest)).
        { cbn [filter]. rewrite same_tokens_sym, Hneq. symmetry. apply filter_filter_sub.
          intros x Hx. apply negb_true_iff. destruct (same_tokens a x) eqn:Eax; [|reflexivity].
          rewrite same_tokens_sym in Hx. rewrite (same_tokens_trans _ _ _ Eax Hx) in Hneq. discriminate. }
        rewrite Heq. exact Hspec.
  Qed.

  Lemma add_comments_of_core l dom r : add_comments_of cfg dom l = inl r -> same_core r dom.
  Proof.
    intros H. eapply (add_comments_of_inv cfg (fun s => same_core s dom)); [| |exact H].
    - intros s k Hs. exact Hs.
    - apply same_core_refl.
  Qed.

  Lemma useless_spec cnt g : useless_plus_group fa cnt g = true ->
    exists a b, g = [a; b] /\ feqb fa (pv fa cnt a) (pv fa cnt b) = true /\
                xorb (is_plus (s_card a)) (is_plus (s_card b)) = true.
  Proof.
    unfold useless_plus_group. destruct g as [|a [|b [|c g]]]; try discriminate.
    intros H. apply andb_true_iff in H. destruct H as [H1 H2]. exists a, b. split; [reflexivity|]. split; [exact H1|].
    unfold count_plus in H2. cbn in H2. destruct (is_plus (s_card a)), (is_plus (s_card b)); cbn in *; congruence.
  Qed.

  (** with [keep_less_specific]: the kept candidate is a '+', or the group has
      no '+', or it is the exact one of a "useless positive closure" pair *)
  Lemma decide_best_kls cnt g r :
    x_keep_less_specific cfg = true -> decide_best fa cfg cnt g = inl r ->
    exists res, In res g /\ same_core r res /\
      (is_plus (s_card res) = true
       \/ (forall x, In x g -> is_plus (s_card x) = false)
       \/ (x_discard_useless cfg = true /\ exists o, g = [res; o] \/ g = [o; res]) /\
          exists o, In o g /\ is_plus (s_card o) = true /\ is_plus (s_card res) = false /\
             (feqb fa (pv fa cnt res) (pv fa cnt o) = true \/ feqb fa (pv fa cnt o) (pv fa cnt res) = true)).
  Proof.
    intros Hk. unfold decide_best. destruct (x_discard_useless cfg && useless_plus_group fa cnt g) eqn:Eu.
    - apply andb_true_iff in Eu. destruct Eu as [Ed Eu]. apply useless_spec in Eu.
      destruct Eu as (a & b & -> & Hf & Hx). unfold first_such. cbn.
      destruct (is_plus (s_card a)) eqn:Ea; cbn.
      + destruct (is_plus (s_card b)) eqn:Eb; cbn; [discriminate Hx|].
        intros H; inversion H; subst. exists r. split; [right; left; reflexivity|]. split; [apply same_core_refl|].
        right. right. split; [split; [exact Ed | exists a; right; reflexivity]|].
        exists a. repeat split; try assumption; [left; reflexivity | right; exact Hf].
      + intros H; inversion H; subst. exists r. split; [left; reflexivity|]. split; [apply same_core_refl|].
        right. right. split; [split; [exact Ed | exists b; left; reflexivity]|].
        destruct (is_plus (s_card b)) eqn:Eb; [|discriminate Hx].
        exists b. repeat split; try assumption; [right; left; reflexivity | left; exact Hf].
    - rewrite Hk. set (gs := sort_desc fa cnt g). unfold first_such.
      destruct (List.find (fun s => is_plus (s_card s)) gs) as [s|] eqn:E1.
      + intros H. apply add_comments_of_core in H. apply find_some in E1. destruct E1 as [Hin Hp].
        exists s. split; [apply (In_sort_desc fa cnt); exact Hin|]. split; [exact H|]. left. exact Hp.
      + destruct (hd_error gs) as [h|] eqn:Eh; [|discriminate].
        intros H. apply add_comments_of_core in H.
        assert (Hh : In h gs) by (destruct gs; cbn in Eh; [discriminate | inversion Eh; left; reflexivity]).
        exists h. split; [apply (In_sort_desc fa cnt); exact Hh|]. split; [exact H|]. right. left.
        intros x Hx. apply (In_sort_desc fa cnt) in Hx.
        pose proof (find_none _ _ E1 x Hx) as Hn. exact Hn.
  Qed.
End Sharp.

(** every non-'+' candidate of an ordinary property has a '+' sibling *)
Definition plus_present (tau : str) (L : list stmt) : Prop :=
  forall b, In b L -> s_prop b <> tau -> is_plus (s_card b) = false ->
            exists b', In b' L /\ same_tokens b b' = true /\ is_plus (s_card b') = true.

Section Selected.
  Variable fa : FreqAlg.
  Variable cfg : scfg.

  (** a selected statement that is not a '+' (nor a disjunction / NONLITERAL):
      instantiation property, or the exact half of a useless-'+' pair *)
  Lemma selected_not_plus cnt L out v :
    x_keep_less_specific cfg = true -> plus_present (x_tau cfg) L ->
    select_valid fa cfg cnt L = inl out -> In v out ->
    s_choice v = false -> s_type v <> c_NONLITERAL_ELEM_TYPE -> is_plus (s_card v) = false ->
    s_prop v = x_tau cfg \/
    (x_discard_useless cfg = true /\
     exists a b, In a L /\ In b L /\ same_core v a /\ same_tokens a b = true /\ is_plus (s_card b) = true /\
                 (filter (same_tokens a) L = [a; b] \/ filter (same_tokens a) L = [b; a]) /\
                 (feqb fa (pv fa cnt a) (pv fa cnt b) = true \/ feqb fa (pv fa cnt b) (pv fa cnt a) = true)).
  Proof.
    intros Hk Hpp Hsel Hv Hch Hty Hnp.
    unfold select_valid in Hsel. destruct L as [|a0 L0]; [inversion Hsel; subst; destruct Hv|].
    set (L := a0 :: L0) in *.
    destruct (group_same fa cfg (List.length L) cnt L) as [l1|e] eqn:E1; [|discriminate].
    assert (Hfrom : Forall (from_list l1) out).
    { eapply (group_nodes_inv fa cfg (from_list l1)); [| | |apply from_list_self|exact Hsel].
      - intros s k. apply from_list_add.
      - intros b i _ _. apply from_list_nl.
      - intros d tys _. apply from_list_ch. }
    rewrite Forall_forall in Hfrom. destruct (Hfrom v Hv Hch Hty) as [r [Hr Hcore]].
    destruct (group_same_spec fa cfg cnt _ _ _ (le_n _) E1 r Hr) as [a [Ha Hspec]].
    assert (Hgrp : forall x, In x (filter (same_tokens a) L) -> In x L /\ same_tokens a x = true)
      by (intros x Hx; apply filter_In in Hx; exact Hx).
    assert (Hno : forall res, In res (filter (same_tokens a) L) -> same_core v res ->
                  (forall x, In x (filter (same_tokens a) L) -> is_plus (s_card x) = false) ->
                  s_prop v = x_tau cfg).
    { intros res Hres Hc Hall.
      destruct (str_eq_dec (s_prop v) (x_tau cfg)) as [E|E]; [exact E|exfalso].
      destruct (Hgrp res Hres) as [HresL Hares].
      assert (Hpres : s_prop res <> x_tau cfg) by (destruct Hc as (_ & Hp & _); congruence).
      destruct (Hpp res HresL Hpres (Hall res Hres)) as [b' [Hb' [Htok Hplus]]].
      assert (Hin : In b' (filter (same_tokens a) L)).
      { apply filter_In. split; [exact Hb'|]. eapply same_tokens_trans; eassumption. }
      rewrite (Hall b' Hin) in Hplus. discriminate. }
    destruct Hspec as [[Hsing ->] | [_ Hdec]].
    - left. apply (Hno a).
      + rewrite Hsing. left. reflexivity.
      + exact Hcore.
      + intros x Hx. rewrite Hsing in Hx. destruct Hx as [<-|[]].
        destruct Hcore as (_ & _ & _ & _ & Hc & _). rewrite <- Hc. exact Hnp.
    - destruct (decide_best_kls fa cfg cnt _ _ Hk Hdec) as [res [Hres [Hc [Hp | [Hall | [[Hd Hshape] Hu]]]]]].
      + exfalso. destruct Hcore as (_ & _ & _ & _ & C1 & _). destruct Hc as (_ & _ & _ & _ & C2 & _).
        rewrite C1, C2, Hp in Hnp. discriminate.
      + left. apply (Hno res Hres); [eapply same_core_trans; eassumption | exact Hall].
      + right. split; [exact Hd|]. destruct Hu as [o [Ho [Hop [Hrp Hf]]]].
        destruct (Hgrp res Hres) as [HresL Hares]. destruct (Hgrp o Ho) as [HoL Hao].
        assert (Hro : same_tokens res o = true).
        { eapply same_tokens_trans; [|exact Hao]. rewrite same_tokens_sym. exact Hares. }
        assert (Hfil : filter (same_tokens res) L = filter (same_tokens a) L).
        { apply filter_ext_eq. intros x. destruct (same_tokens a x) eqn:Eax.
          - eapply same_tokens_trans; [|exact Eax]. rewrite same_tokens_sym. exact Hares.
          - destruct (same_tokens res x) eqn:Erx; [|reflexivity].
            rewrite (same_tokens_trans _ _ _ Hares Erx) in Eax. discriminate. }
        exists res, o. split; [exact HresL|]. split; [exact HoL|].
        split; [eapply same_core_trans; eassumption|]. split; [exact Hro|]. split; [exact Hop|].
        split; [|exact Hf]. rewrite Hfil.
        destruct Hshape as [o' [Hs|Hs]]; rewrite Hs in Ho, Hres |- *.
        * left. destruct Ho as [<-|[<-|[]]]; [rewrite Hop in Hrp; discriminate | reflexivity].
        * right. destruct Ho as [<-|[<-|[]]]; [reflexivity | rewrite Hop in Hrp; discriminate].
  Qed.
End Selected.

(** * Part 5 -- T2: where a '?' comes from *)

Lemma card_eqb_eq a b : card_eqb a b = true <-> a = b.
Proof.
  destruct a, b; cbn; try (split; congruence).
  rewrite N.eqb_eq. split; congruence.
Qed.

Lemma is_plus_eq c : is_plus c = true <-> c = CPlus.
Proof. destruct c; cbn; split; congruence. Qed.

Lemma relax_card_opt cfg c : relax_card cfg c = COpt -> x_allow_opt cfg = true /\ c = CExact 1.
Proof.
  unfold relax_card. destruct (x_allow_opt cfg); cbn; [|discriminate].
  destruct (card_eqb c (CExact 1)) eqn:E; [|discriminate]. intros _. split; [reflexivity | apply card_eqb_eq; exact E].
Qed.

Lemma class_base_In fa cfg thr counts ce b :
  In b (class_base fa cfg thr counts ce) <->
  (s_inv b = true -> x_inverse cfg = true) /\
  In b (base_statements fa thr (class_cnt counts ce) (s_inv b) (class_pd ce (s_inv b))).
Proof.
  unfold class_base. rewrite in_app_iff. split.
  - intros [H|H].
    + pose proof (base_statements_card _ _ _ _ _ _ H) as (_ & Hi & _). rewrite Hi. cbn. split; [discriminate | exact H].
    + destruct (x_inverse cfg) eqn:Ei; [|destruct H].
      pose proof (base_statements_card _ _ _ _ _ _ H) as (_ & Hi & _). rewrite Hi. cbn. split; [reflexivity | exact H].
  - intros [Hi H]. destruct (s_inv b); cbn in H.
    + right. rewrite (Hi eq_refl). exact H.
    + left. exact H.
Qed.

Lemma class_selected_dir fa cfg thr counts ce sel v :
  class_selected fa cfg thr counts ce = inl sel -> In v sel ->
  exists inv out, select_valid fa cfg (class_cnt counts ce) (class_dir fa cfg thr counts ce inv) = inl out /\ In v out.
Proof.
  unfold class_selected.
  destruct (select_valid fa cfg _ (class_dir fa cfg thr counts ce false)) as [vd|e] eqn:Ed; [|discriminate].
  destruct (select_valid fa cfg _ (class_dir fa cfg thr counts ce true)) as [vi|e] eqn:Ei; [|discriminate].
  intros H Hv. inversion H; subst. apply in_app_or in Hv. destruct Hv as [Hv|Hv].
  - exists false, vd. split; assumption.
  - exists true, vi. split; assumption.
Qed.

(** T2 (shexing level) *)
Theorem relaxed_card_sound fa cfg thr P C shapes :
  x_keep_less_specific cfg = true -> shex fa cfg thr P C = inl shapes ->
  (forall ce inv, In ce P -> plus_present (x_tau cfg) (class_dir fa cfg thr C ce inv)) ->
  forall sh s, In sh shapes -> In s (sh_stmts sh) ->
    s_card s = COpt -> s_choice s = false -> s_type s <> c_NONLITERAL_ELEM_TYPE ->
    x_all_compliant cfg = true /\ x_allow_opt cfg = true /\
    (s_prop s = x_tau cfg \/
     (x_discard_useless cfg = true /\
      exists ce a b, In ce P /\ sh_class sh = fst ce /\ sh_n sh = class_cnt C ce /\
        In a (class_base fa cfg thr C ce) /\ In b (class_base fa cfg thr C ce) /\
        s_inv a = s_inv s /\ s_inv b = s_inv s /\ s_prop a = s_prop s /\ s_prop b = s_prop s /\
        s_types a = s_types s /\ s_type b = s_type s /\ s_card a = CExact 1 /\ s_card b = CPlus /\
        (feqb fa (pv fa (class_cnt C ce) a) (pv fa (class_cnt C ce) b) = true \/
         feqb fa (pv fa (class_cnt C ce) b) (pv fa (class_cnt C ce) a) = true))).
Proof.
  intros Hk H Hpp sh s Hsh Hs Hopt Hch Hty.
  destruct (shex_stmt_origin _ _ _ _ _ _ _ _ H Hsh Hs) as (ce & sel & v & Hce & Hcl & Hn & _ & Hsel & Hv & Ht).
  destruct (class_selected_spec _ _ _ _ _ _ Hsel v Hv) as [Hbase _].
  destruct Ht as (T1 & T2 & T3 & T4 & T5 & [(Hon & Hf & Hc) | (_ & Hc & _)]).
  2:{ exfalso. rewrite Hopt in Hc. pose proof (gen_card_base cfg _ Hbase) as G. rewrite <- Hc in G. exact G. }
  rewrite Hopt in Hc. symmetry in Hc. apply relax_card_opt in Hc. destruct Hc as [Hao Hone].
  split; [exact Hon|]. split; [exact Hao|].
  destruct (class_selected_dir _ _ _ _ _ _ _ Hsel Hv) as (inv & out & Hout & Hvo).
  assert (Hchv : s_choice v = false) by congruence.
  assert (Htyv : s_type v <> c_NONLITERAL_ELEM_TYPE) by (unfold s_type in *; rewrite <- T3; exact Hty).
  assert (Hnp : is_plus (s_card v) = false) by (rewrite Hone; reflexivity).
  destruct (selected_not_plus fa cfg _ _ _ _ Hk (Hpp ce inv Hce) Hout Hvo Hchv Htyv Hnp)
    as [Htau | [Hd (a & b & Ha & Hb & Hcore & Htok & Hbp & _ & Hfe)]].
  - left. congruence.
  - right. split; [exact Hd|]. exists ce, a, b.
    apply class_dir_In in Ha. apply class_dir_In in Hb. destruct Ha as [Ha Hai]. destruct Hb as [Hb Hbi].
    destruct Hcore as (C1 & C2 & C3 & C4 & C5 & C6 & C7). apply same_tokens_eq in Htok. destruct Htok as [K1 K2].
    assert (Hinv : s_inv s = inv) by congruence.
    repeat split; try assumption; try congruence.
    + unfold s_type in *. rewrite <- K2. unfold s_type. rewrite <- C3, T3. reflexivity.
    + apply is_plus_eq. exact Hbp.
Qed.

(** * Part 6 -- T3: the cardinalities hold for every instance *)
From Shexer Require Import Proofs.FreqLaws.

Lemma filter_all_of_length {A} (f : A -> bool) l :
  List.length (filter f l) = List.length l -> forall x, In x l -> f x = true.
Proof.
  induction l as [|y l IH]; cbn; intros H x Hx; [destruct Hx|].
  destruct (f y) eqn:E; cbn in H.
  - destruct Hx as [<-|Hx]; [exact E | apply IH; [lia | exact Hx]].
  - pose proof (filter_length_le f l). lia.
Qed.

Lemma filter_length_mono {A} (f g : A -> bool) l :
  (forall x, f x = true -> g x = true) -> List.length (filter f l) <= List.length (filter g l).
Proof.
  intros H. induction l as [|y l IH]; cbn; [lia|].
  destruct (f y) eqn:Ef.
  - rewrite (H y Ef). cbn. lia.
  - destruct (g y); cbn; lia.
Qed.

Lemma filter_sub_same_length {A} (f g : A -> bool) l :
  (forall x, f x = true -> g x = true) -> List.length (filter f l) = List.length (filter g l) ->
  forall x, In x l -> g x = true -> f x = true.
Proof.
  intros H. induction l as [|y l IH]; cbn; intros Hlen x Hx Hg; [destruct Hx|].
  pose proof (filter_length_mono f g l H) as Hm.
  destruct (f y) eqn:Ef.
  - rewrite (H y Ef) in Hlen. cbn in Hlen. destruct Hx as [<-|Hx]; [exact Ef | apply IH; [lia | exact Hx | exact Hg]].
  - destruct (g y) eqn:Eg; cbn in Hlen.
    + lia.
    + destruct Hx as [<-|Hx]; [congruence | apply IH; [lia | exact Hx | exact Hg]].
Qed.

Definition card_holds (c : card) (x : N) : Prop :=
  match c with
  | CExact k => x = k
  | CPlus => (1 <= x)%N
  | CStar => True
  | COpt => (x <= 1)%N
  end.

Section Cards.
  Variable fa : FreqAlg.
  Variable okN : N -> Prop.
  Variable okF : F fa -> Prop.
  Hypothesis L : FreqLaws fa okN okF.
  Variable cfg : scfg.

  (** the instances of one class and, per instance, the number of values of
      property [p] (direction [inv]) that carry type key [k] *)
  Variable A : Type.
  Variable insts : list A.
  Variable cntf : A -> bool -> str -> str -> N.

  Local Notation n_inst := (C03Dom.n_inst A insts).

  (** when an instance with [x] values counts for cardinality key [c]
      (as Spec/Counts.v's [card_ok] of the profile characterisation) *)
  Local Notation ck_ok := (C03Dom.ck_ok cfg).

  (** profile well-formedness: every entry holds the number of instances that
      count for it; an exact entry of an ordinary property has a '+' sibling *)
  Definition pd_wf (inv : bool) (pd : pdict) : Prop :=
    (forall p m k cd c n, In (p, m) pd -> In (k, cd) m -> In (c, n) cd ->
       n = n_inst (fun i => ck_ok p c (cntf i inv p k))) /\
    (forall p m k cd j n, In (p, m) pd -> In (k, cd) m -> In (CKn j, n) cd -> p <> x_tau cfg ->
       exists m' cd' n', In (p, m') pd /\ In (k, cd') m' /\ In (CKplus, n') cd').

  Variable thr : F fa.
  Variable counts : ccounts.
  Variable ce : str * centry.
  Hypothesis Hthr : okF thr.
  Hypothesis Hcnt : class_cnt counts ce = N.of_nat (List.length insts).
  Hypothesis HokN : okN (class_cnt counts ce).
  Hypothesis Hwf_d : pd_wf false (c_direct (snd ce)).
  Hypothesis Hwf_i : x_inverse cfg = true -> pd_wf true (c_inverse (snd ce)).
  (** a node is typed with a class at most once (the graph has no duplicate triple) *)
  Hypothesis Htau_once : forall i inv k, In i insts -> (cntf i inv (x_tau cfg) k <= 1)%N.

  Let cnt := class_cnt counts ce.

  Lemma n_inst_le f : (n_inst f <= cnt)%N.
  Proof. unfold n_inst, cnt. rewrite Hcnt. pose proof (filter_length_le f insts). lia. Qed.

  Lemma n_inst_all f : n_inst f = cnt -> forall i, In i insts -> f i = true.
  Proof.
    unfold n_inst, cnt. rewrite Hcnt. intros H. apply filter_all_of_length. lia.
  Qed.

  Lemma class_pd_wf b : In b (class_base fa cfg thr counts ce) -> pd_wf (s_inv b) (class_pd ce (s_inv b)).
  Proof.
    intros H. apply class_base_In in H. destruct H as [Hi _]. unfold class_pd.
    destruct (s_inv b); [apply Hwf_i, Hi; reflexivity | exact Hwf_d].
  Qed.

  (** a candidate, as a profile entry *)
  Lemma class_base_entry b :
    In b (class_base fa cfg thr counts ce) ->
    exists p k c n m cd,
      b = mk_base (s_inv b) p k c n /\ In (p, m) (class_pd ce (s_inv b)) /\ In (k, cd) m /\ In (c, n) cd /\
      fle fa thr (ratio fa n cnt) = true /\
      n = n_inst (fun i => ck_ok p c (cntf i (s_inv b) p k)).
  Proof.
    intros H. pose proof (class_pd_wf b H) as [W1 _].
    apply class_base_In in H. destruct H as [_ H]. apply base_statements_In in H.
    destruct H as (p & m & k & cd & c & n & H1 & H2 & H3 & H4 & H5).
    exists p, k, c, n, m, cd. repeat split; try assumption. eapply W1; eassumption.
  Qed.

  Lemma plus_present_class inv : plus_present (x_tau cfg) (class_dir fa cfg thr counts ce inv).
  Proof.
    intros b Hb Hp Hnp. apply class_dir_In in Hb. destruct Hb as [Hb Hinv].
    pose proof (class_pd_wf b Hb) as [W1 W2].
    destruct (class_base_entry b Hb) as (p & k & c & n & m & cd & Eb & H1 & H2 & H3 & H4 & H5).
    assert (Hpb : s_prop b = p) by (rewrite Eb; reflexivity).
    destruct c as [j|]; [|rewrite Eb in Hnp; discriminate].
    assert (Hp' : p <> x_tau cfg) by congruence.
    destruct (W2 p m k cd j n H1 H2 H3 Hp') as (m' & cd' & n' & H1' & H2' & Hn').
    pose proof (W1 p m' k cd' CKplus n' H1' H2' Hn') as En'.
    set (b' := mk_base (s_inv b) p k CKplus n').
    assert (Hle : (n <= n')%N).
    { rewrite H5, En'. unfold n_inst.
      assert (Hm : List.length (filter (fun i => ck_ok p (CKn j) (cntf i (s_inv b) p k)) insts) <=
                   List.length (filter (fun i => ck_ok p CKplus (cntf i (s_inv b) p k)) insts)).
      { apply filter_length_mono.
        intros i. unfold ck_ok. rewrite !andb_true_iff. intros [Hx _]. split; [exact Hx|].
        apply str_eqb_neq in Hp'. rewrite Hp'. reflexivity. }
      lia. }
    assert (Hpass : fle fa thr (ratio fa n' cnt) = true).
    { apply (fle_trans _ _ _ L) with (y := ratio fa n cnt); try assumption;
        try (apply (ratio_wf _ _ _ L); exact HokN).
      apply (ratio_mono _ _ _ L); assumption. }
    exists b'. split; [|split].
    - apply class_dir_In. split; [|cbn; exact Hinv].
      apply class_base_In. cbn. split.
      + apply class_base_In in Hb. apply Hb.
      + apply base_statements_In. exists p, m', k, cd', CKplus, n'. repeat split; assumption.
    - apply same_tokens_eq. rewrite Eb. cbn. split; reflexivity.
    - reflexivity.
  Qed.

  (** T3 for one class *)
  Theorem class_cardinalities sh :
    x_keep_less_specific cfg = true -> x_all_compliant cfg = true ->
    shex_class fa cfg thr counts ce = inl sh ->
    forall s, In s (sh_stmts sh) -> s_choice s = false -> s_type s <> c_NONLITERAL_ELEM_TYPE ->
    forall i, In i insts -> card_holds (s_card s) (cntf i (s_inv s) (s_prop s) (s_type s)).
  Proof.
    intros Hk Hon Hc s Hs Hch Hty i Hi.
    rewrite shex_class_eq in Hc.
    destruct (class_selected fa cfg thr counts ce) as [sel|e] eqn:Esel; [|discriminate].
    destruct (tune fa cfg (class_cnt counts ce) sel) as [stmts|e] eqn:Et; [|discriminate].
    inversion Hc; subst sh; cbn in Hs. clear Hc.
    destruct (tune_spec _ _ _ _ _ Et s Hs) as [v [Hv Ht]].
    destruct (class_selected_spec _ _ _ _ _ _ Esel v Hv) as [Hbase [inv0 Hfrom]].
    destruct Ht as (T1 & T2 & T3 & T4 & T5 & Hcase).
    assert (Hchv : s_choice v = false) by congruence.
    assert (Htyv : s_type v <> c_NONLITERAL_ELEM_TYPE) by (unfold s_type in *; rewrite <- T3; exact Hty).
    destruct (Hfrom Hchv Htyv) as [b [Hb Hcore]].
    apply class_dir_In in Hb. destruct Hb as [Hb _].
    destruct (class_base_entry b Hb) as (p & k & c & n & m & cd & Eb & H1 & H2 & H3 & H4 & H5).
    destruct Hcore as (C1 & C2 & C3 & C4 & C5 & C6 & C7).
    assert (Einv : s_inv s = s_inv b) by congruence.
    assert (Ep : s_prop s = p) by (rewrite T2, C2, Eb; reflexivity).
    assert (Ek : s_type s = k) by (unfold s_type; rewrite T3, C3, Eb; reflexivity).
    assert (Ecv : s_card v = card_of_key c) by (rewrite C5, Eb; reflexivity).
    rewrite Einv, Ep, Ek.
    destruct Hcase as [(_ & Hf & Hc) | ([Hoff | Hf] & Hc & _)]; [| congruence |].
    - (* relaxed *)
      rewrite Hc. unfold relax_card. destruct (x_allow_opt cfg && card_eqb (s_card v) (CExact 1)) eqn:Er; [|exact I].
      apply andb_true_iff in Er. destruct Er as [_ Er]. apply card_eqb_eq in Er. cbn.
      destruct (str_eq_dec p (x_tau cfg)) as [Etau | Entau]; [rewrite Etau; apply Htau_once; exact Hi|].
      destruct (class_selected_dir _ _ _ _ _ _ _ Esel Hv) as (inv & out & Hout & Hvo).
      assert (Hnp : is_plus (s_card v) = false) by (rewrite Er; reflexivity).
      destruct (selected_not_plus fa cfg _ _ _ _ Hk (plus_present_class inv) Hout Hvo Hchv Htyv Hnp)
        as [Htau | [_ (a' & b' & Ha' & Hb' & Hcore' & Htok & Hbp & _ & Hfe)]]; [congruence|].
      apply class_dir_In in Ha'. apply class_dir_In in Hb'. destruct Ha' as [Ha' Hai]. destruct Hb' as [Hb' Hbi].
      destruct (class_base_entry a' Ha') as (p1 & k1 & c1 & n1 & m1 & cd1 & Ea & _ & _ & _ & _ & N1).
      destruct (class_base_entry b' Hb') as (p2 & k2 & c2 & n2 & m2 & cd2 & Eb' & _ & _ & _ & _ & N2).
      destruct Hcore' as (D1 & D2 & D3 & D4 & D5 & D6 & D7).
      apply same_tokens_eq in Htok. destruct Htok as [K1 K2].
      assert (Ep1 : p1 = p) by (rewrite Ea in D2; cbn in D2; congruence).
      assert (Ek1 : k1 = k) by (rewrite Ea in D3; cbn in D3; rewrite C3, Eb in D3; cbn in D3; congruence).
      assert (Ep2 : p2 = p) by (rewrite Ea, Eb' in K1; cbn in K1; congruence).
      assert (Ek2 : k2 = k) by (rewrite Ea, Eb' in K2; cbn in K2; congruence).
      assert (Ec1 : c1 = CKn 1).
      { rewrite Ea in D5. cbn in D5. rewrite Er in D5. destruct c1; cbn in D5; congruence. }
      assert (Ec2 : c2 = CKplus).
      { rewrite Eb' in Hbp. cbn in Hbp. destruct c2; cbn in Hbp; [discriminate | reflexivity]. }
      assert (Eia : s_inv a' = s_inv b) by congruence.
      assert (Eib : s_inv b' = s_inv b) by congruence.
      subst p1 k1 p2 k2 c1 c2. rewrite Eia in N1. rewrite Eib in N2.
      assert (Pa : pv fa cnt a' = ratio fa n1 cnt) by (rewrite Ea; reflexivity).
      assert (Pb : pv fa cnt b' = ratio fa n2 cnt) by (rewrite Eb'; reflexivity).
      fold cnt in Hfe. rewrite Pa, Pb in Hfe.
      assert (En : n1 = n2).
      { destruct Hfe as [Hfe|Hfe]; apply (ratio_feqb_iff fa okN okF L) in Hfe;
          try exact HokN; try (subst; apply n_inst_le); congruence. }
      rewrite N1, N2 in En. unfold n_inst in En. apply Nat2N.inj in En.
      set (x := cntf i (s_inv b) p k).
      destruct (N.ltb 0 x) eqn:Ex; [|apply N.ltb_ge in Ex; lia].
      assert (Hg : ck_ok p CKplus x = true).
      { unfold ck_ok. rewrite Ex. apply str_eqb_neq in Entau. rewrite Entau. reflexivity. }
      pose proof (filter_sub_same_length
                    (fun i => ck_ok p (CKn 1) (cntf i (s_inv b) p k))
                    (fun i => ck_ok p CKplus (cntf i (s_inv b) p k)) insts) as Hsub.
      assert (Hf1 : ck_ok p (CKn 1) x = true).
      { apply Hsub; try assumption. intros y. unfold ck_ok. rewrite !andb_true_iff. intros [Hy _].
        split; [exact Hy|]. apply str_eqb_neq in Entau. rewrite Entau. reflexivity. }
      unfold ck_ok in Hf1. apply andb_true_iff in Hf1. destruct Hf1 as [_ Hf1].
      apply str_eqb_neq in Entau. rewrite Entau in Hf1. apply N.eqb_eq in Hf1. lia.
    - (* not relaxed: the candidate's count is the class size *)
      assert (Pv : pv fa (class_cnt counts ce) v = ratio fa n cnt).
      { unfold pv. rewrite C7, Eb. reflexivity. }
      rewrite Pv in Hf. apply (ratio_one _ _ _ L) in Hf; [|exact HokN | rewrite H5; apply n_inst_le].
      rewrite H5 in Hf. pose proof (n_inst_all _ Hf i Hi) as Hok. cbn in Hok.
      unfold ck_ok in Hok. apply andb_true_iff in Hok. destruct Hok as [Hpos Hok]. apply N.ltb_lt in Hpos.
      rewrite Hc, Ecv. unfold gen_card.
      destruct (str_eqb p (x_tau cfg)) eqn:Etau.
      + apply str_eqb_eq in Etau. destruct c as [j|]; cbn in Hok; [|discriminate].
        apply N.eqb_eq in Hok. subst j. cbn.
        assert (Hle : (cntf i (s_inv b) p k <= 1)%N) by (rewrite Etau; apply Htau_once; exact Hi).
        destruct (x_disable_exact cfg); cbn; lia.
      + destruct c as [j|]; cbn.
        * apply N.eqb_eq in Hok. subst j. destruct (x_disable_exact cfg); cbn; [|reflexivity].
          destruct (N.ltb 1 _) eqn:E1; cbn; [lia | reflexivity].
        * destruct (x_disable_exact cfg); cbn; lia.
  Qed.
End Cards.

(** T3 for the whole stage: a family of per-class instance lists and counts *)
Theorem stage_cardinalities fa okN okF (L : FreqLaws fa okN okF) cfg (A : Type)
        (insts_of : str -> list A) (cntf : str -> A -> bool -> str -> str -> N) thr P C shapes :
  x_keep_less_specific cfg = true -> x_all_compliant cfg = true -> okF thr ->
  (forall ce, In ce P ->
     class_cnt C ce = N.of_nat (List.length (insts_of (fst ce))) /\ okN (class_cnt C ce) /\
     pd_wf cfg A (insts_of (fst ce)) (cntf (fst ce)) false (c_direct (snd ce)) /\
     (x_inverse cfg = true -> pd_wf cfg A (insts_of (fst ce)) (cntf (fst ce)) true (c_inverse (snd ce))) /\
     (forall i inv k, In i (insts_of (fst ce)) -> (cntf (fst ce) i inv (x_tau cfg) k <= 1)%N)) ->
  shex fa cfg thr P C = inl shapes ->
  forall sh s, In sh shapes -> In s (sh_stmts sh) -> s_choice s = false -> s_type s <> c_NONLITERAL_ELEM_TYPE ->
  forall i, In i (insts_of (sh_class sh)) ->
    card_holds (s_card s) (cntf (sh_class sh) i (s_inv s) (s_prop s) (s_type s)).
Proof.
  intros Hk Hon Hthr Hwf H sh s Hsh Hs Hch Hty i Hi.
  destruct (shex_spec _ _ _ _ _ _ H sh Hsh) as (ce & sh0 & Hce & Hc & (S1 & S2 & S3 & S4)).
  destruct (Hwf ce Hce) as (W1 & W2 & W3 & W4 & W5).
  assert (Ecl : sh_class sh = fst ce).
  { rewrite S2. rewrite shex_class_eq in Hc. destruct (class_selected _ _ _ _ _); [|discriminate].
    destruct (tune _ _ _ _); [|discriminate]. inversion Hc; reflexivity. }
  rewrite Ecl in *.
  eapply (class_cardinalities fa okN okF L cfg A (insts_of (fst ce)) (cntf (fst ce)) thr C ce); eauto.
Qed.

(** corollary (the property's side claim): a '?' means no instance has two matching values *)
Corollary opt_at_most_one fa okN okF (L : FreqLaws fa okN okF) cfg (A : Type)
        (insts_of : str -> list A) (cntf : str -> A -> bool -> str -> str -> N) thr P C shapes :
  x_keep_less_specific cfg = true -> x_all_compliant cfg = true -> okF thr ->
  (forall ce, In ce P ->
     class_cnt C ce = N.of_nat (List.length (insts_of (fst ce))) /\ okN (class_cnt C ce) /\
     pd_wf cfg A (insts_of (fst ce)) (cntf (fst ce)) false (c_direct (snd ce)) /\
     (x_inverse cfg = true -> pd_wf cfg A (insts_of (fst ce)) (cntf (fst ce)) true (c_inverse (snd ce))) /\
     (forall i inv k, In i (insts_of (fst ce)) -> (cntf (fst ce) i inv (x_tau cfg) k <= 1)%N)) ->
  shex fa cfg thr P C = inl shapes ->
  forall sh s, In sh shapes -> In s (sh_stmts sh) -> s_choice s = false -> s_type s <> c_NONLITERAL_ELEM_TYPE ->
  s_card s = COpt ->
  forall i, In i (insts_of (sh_class sh)) -> (cntf (sh_class sh) i (s_inv s) (s_prop s) (s_type s) <= 1)%N.
Proof.
  intros Hk Hon Hthr Hwf H sh s Hsh Hs Hch Hty Hopt i Hi.
  pose proof (stage_cardinalities fa okN okF L cfg A insts_of cntf thr P C shapes Hk Hon Hthr Hwf H
                                  sh s Hsh Hs Hch Hty i Hi) as Hc.
  rewrite Hopt in Hc. exact Hc.
Qed.

(** the two candidates of T2 have EQUAL counts (with the laws of the frequency
    algebra; counts never exceed the class size on a well-formed profile) *)
Lemma class_base_pv fa cfg thr counts ce b :
  In b (class_base fa cfg thr counts ce) -> pv fa (class_cnt counts ce) b = ratio fa (s_nocc b) (class_cnt counts ce).
Proof.
  intros H. apply class_base_In in H. destruct H as [_ H]. apply base_statements_In in H.
  destruct H as (p & m & k & cd & c & n & _ & _ & _ & _ & ->). reflexivity.
Qed.

Corollary useless_pair_equal_counts fa okN okF (L : FreqLaws fa okN okF) cfg thr counts ce a b :
  In a (class_base fa cfg thr counts ce) -> In b (class_base fa cfg thr counts ce) ->
  okN (class_cnt counts ce) -> (s_nocc a <= class_cnt counts ce)%N -> (s_nocc b <= class_cnt counts ce)%N ->
  (feqb fa (pv fa (class_cnt counts ce) a) (pv fa (class_cnt counts ce) b) = true \/
   feqb fa (pv fa (class_cnt counts ce) b) (pv fa (class_cnt counts ce) a) = true) ->
  s_nocc a = s_nocc b.
Proof.
  intros Ha Hb Hok Hla Hlb H. rewrite (class_base_pv _ _ _ _ _ _ Ha), (class_base_pv _ _ _ _ _ _ Hb) in H.
  destruct H as [H|H]; apply (ratio_feqb_iff fa okN okF L) in H; try assumption; congruence.
Qed.
