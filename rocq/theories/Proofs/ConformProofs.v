(** * Proofs for C03 (conformance in all-compliant mode). *)
From Coq Require Import List Ascii String ZArith NArith Bool Lia.
From Shexer Require Import Lib.PyStr Lib.Dict Gen.Consts Spec.Rdf Spec.ShexSem Model.Tracker Model.Profiler
     Model.Tokens Model.Freq Model.FreqInst Model.Shexing Model.SerialShexc Model.Run Model.SchemaOf.
Import ListNotations.

(** ** the statement the property makes about one run *)

(** the schema extracted by the model run, judged by [Spec/ShexSem] on the
    instance typing of the graph; [None] when the run raises *)
Definition conforms_run (fa : FreqAlg) (c : rcfg) (thr : F fa) (g : graph) : option bool :=
  match run_shapes fa c thr g with
  | inl (_, shapes) =>
    Some (valid_typingb (schema_of (r_tau c) shapes) g (instance_typing (r_tau c) (r_shapes_ns c) g))
  | inr _ => None
  end.

(** the default configuration (all-compliant mode, keep_less_specific, no OR) *)
Definition c03_cfg (inverse discard allow_opt disable_exact kls : bool) : rcfg :=
  {| r_tau := c_RDF_TYPE; r_targets := None; r_ns := []; r_shapes_ns := c_SHAPES_DEFAULT_NAMESPACE;
     r_cap := (-1)%Z; r_inverse := inverse; r_remove_empty := true; r_discard_useless := discard;
     r_keep_less_specific := kls; r_all_compliant := true; r_disable_or := true;
     r_allow_redundant_or := false; r_allow_opt := allow_opt; r_disable_exact := disable_exact;
     r_disable_comments := false; r_mode := FMixed |}.

(** small-graph notation for the witnesses *)
Definition ex (s : string) : str := Str "http://ex.org/" ++ Str s.
Definition nI (s : string) : node := Node KIri (ex s).
Definition nB (s : string) : node := Node KBnode (Str "_:" ++ Str s).
Definition ty (s c : string) : triple := T (nI s) c_RDF_TYPE (ON (nI c)).
Definition tr (s p : string) (o : obj) : triple := T (nI s) (ex p) o.
Definition xs_string : str := Str "http://www.w3.org/2001/XMLSchema#string".
Definition lit (s : string) : obj := OL (Str s) xs_string.
