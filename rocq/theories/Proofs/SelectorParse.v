(** * C10: the parsers of the code read a written-down specification back
    ([parse (show x) = compile x] on the domain). *)
From Coq Require Import List Ascii String ZArith NArith Bool Lia.
From Shexer Require Import Lib.PyStr Lib.Dict Gen.Consts Spec.Rdf Spec.Selectors
     Model.Tracker Model.Selectors Model.SelectorsDom Proofs.SelectorStrings.
Import ListNotations.

(** ** dictionaries *)

Lemma dget_dset_same {V} (d : dict V) k v : dget (dset d k v) k = Some v.
Proof.
  induction d as [|[k' v'] d IH]; cbn.
  - rewrite str_eqb_refl. reflexivity.
  - destruct (str_eqb k k') eqn:E; cbn; rewrite E; [reflexivity | assumption].
Qed.

Lemma dget_dset_other {V} (d : dict V) k k' v : k <> k' -> dget (dset d k v) k' = dget d k'.
Proof.
  intros Hne. induction d as [|[k0 v0] d IH]; cbn.
  - destruct (str_eqb k' k) eqn:E; [apply str_eqb_eq in E; congruence | reflexivity].
  - destruct (str_eqb k k0) eqn:E; cbn.
    + apply str_eqb_eq in E. subst k0.
      destruct (str_eqb k' k) eqn:E'; [apply str_eqb_eq in E'; congruence | reflexivity].
    + destruct (str_eqb k' k0); [reflexivity | assumption].
Qed.

Lemma dget_None_notin {V} (d : dict V) k : dget d k = None <-> ~ In k (map fst d).
Proof.
  induction d as [|[k' v'] d IH]; cbn; [tauto|].
  destruct (str_eqb k k') eqn:E.
  - apply str_eqb_eq in E. subst. split; [discriminate | intros H; exfalso; apply H; auto].
  - apply str_eqb_neq in E. rewrite IH. split; [intros H [H1|H1]; [congruence | contradiction] | tauto].
Qed.

Lemma dset_notin {V} (d : dict V) k v : ~ In k (map fst d) -> dset d k v = d ++ [(k, v)].
Proof.
  induction d as [|[k' v'] d IH]; cbn; intros H; [reflexivity|].
  destruct (str_eqb k k') eqn:E; [apply str_eqb_eq in E; subst; exfalso; apply H; auto|].
  rewrite IH by tauto. reflexivity.
Qed.

Lemma dget_In {V} (d : dict V) k v : dget d k = Some v -> In (k, v) d.
Proof.
  induction d as [|[k' v'] d IH]; cbn; [discriminate|].
  destruct (str_eqb k k') eqn:E; [apply str_eqb_eq in E; subst; intros H; inversion H; auto | auto].
Qed.

Lemma In_dget_nodup {V} (d : dict V) k v : NoDup (map fst d) -> In (k, v) d -> dget d k = Some v.
Proof.
  induction d as [|[k' v'] d IH]; cbn; [tauto|]. intros Hnd [H|H].
  - inversion H; subst. rewrite str_eqb_refl. reflexivity.
  - inversion Hnd; subst. destruct (str_eqb k k') eqn:E.
    + apply str_eqb_eq in E. subst. exfalso. apply H2. apply in_map_iff. exists (k', v). auto.
    + auto.
Qed.

(** ** the prefix dictionary *)

Definition swap (e : str * str) : str * str := (snd e, fst e).

Lemma reverse_acc l acc :
  NoDup (map snd l) -> (forall e, In e l -> ~ In (snd e) (map fst acc)) ->
  fold_left (fun d e => dset d (snd e) (fst e)) l acc = acc ++ map swap l.
Proof.
  revert acc; induction l as [|e l IH]; intros acc Hnd Hacc; cbn.
  - rewrite app_nil_r. reflexivity.
  - inversion Hnd; subst. rewrite dset_notin by (apply Hacc; left; reflexivity).
    rewrite IH; [rewrite <- app_assoc; reflexivity | assumption |].
    intros e' He'. rewrite map_app, in_app_iff. cbn. intros [H|[H|[]]].
    + apply (Hacc e'); [right; assumption | assumption].
    + apply H1. rewrite H. apply in_map. assumption.
Qed.

Lemma reverse_nodup l : NoDup (map snd l) -> reverse_keys_and_values l = map swap l.
Proof. intros H. unfold reverse_keys_and_values. rewrite reverse_acc; [reflexivity | assumption | intros ? ? []]. Qed.

Fixpoint nodupb (l : list str) : bool :=
  match l with [] => true | x :: l' => negb (mem_str x l') && nodupb l' end.

Lemma nodupb_NoDup l : nodupb l = true -> NoDup l.
Proof.
  induction l as [|x l IH]; cbn; [constructor|]. intros H. apply andb_true_iff in H. destruct H as [H1 H2].
  constructor; [|auto]. intros Hin. apply mem_str_In in Hin. rewrite Hin in H1. discriminate.
Qed.

Record wf_ns_facts (ns : nsdict) (p0 : str) : Prop := {
  wn_prefix_ok : forall n p, In (n, p) ns -> ok_prefix p = true;
  wn_nodup_p : NoDup (map snd ns);
  wn_nodup_n : NoDup (map fst ns);
  wn_shapes : ~ In dflt_shapes_namespace (map fst ns);
  wn_p0 : find_adequate_prefix ns = Some p0;
  wn_p0_fresh : ~ In p0 (map snd ns);
  wn_p0_prio : In p0 c_PRIORITY_PREFIXES_FOR_SHAPES
}.

Lemma wf_ns_facts_of ns : wf_ns ns = true -> exists p0, wf_ns_facts ns p0.
Proof.
  unfold wf_ns. intros H. repeat (apply andb_true_iff in H; destruct H as [H ?]).
  destruct (find_adequate_prefix ns) as [p0|] eqn:E; [|discriminate]. exists p0.
  unfold find_adequate_prefix in E. pose proof (find_some _ _ E) as [Hin Hfresh].
  constructor; auto.
  - intros n p Hnp. rewrite forallb_forall in H. apply (H (n, p)). assumption.
  - apply nodupb_NoDup. assumption.
  - apply nodupb_NoDup. assumption.
  - intros Hin'. apply mem_str_In in Hin'. rewrite Hin' in H1. discriminate.
  - intros Hin'. apply mem_str_In in Hin'. rewrite Hin' in Hfresh. discriminate.
Qed.

Lemma NoDup_snoc {A} (l : list A) x : NoDup l -> ~ In x l -> NoDup (l ++ [x]).
Proof.
  induction l as [|y l IH]; cbn; intros Hnd Hx.
  - constructor; [tauto | constructor].
  - inversion Hnd; subst. constructor.
    + rewrite in_app_iff. cbn. intros [H|[H|[]]]; [contradiction | subst; tauto].
    + apply IH; tauto.
Qed.

Lemma pd_of_eq ns p0 : wf_ns_facts ns p0 -> pd_of ns = map swap ns ++ [(p0, dflt_shapes_namespace)].
Proof.
  intros W. unfold pd_of. rewrite (wn_p0 _ _ W).
  rewrite dset_notin by (apply (wn_shapes _ _ W)).
  rewrite reverse_nodup.
  - rewrite map_app. reflexivity.
  - rewrite map_app. cbn. apply NoDup_snoc; [apply (wn_nodup_p _ _ W) | apply (wn_p0_fresh _ _ W)].
Qed.

Record good_pd (pd : pdict) : Prop := {
  gp_nocolon : forall q n, In (q, n) pd -> nochar ":"%char q = true;
  gp_noangle : forall q n, In (q, n) pd -> first_char_is "<"%char q = false;
  gp_nodup : NoDup (map fst pd)
}.

Lemma ok_prefix_nocolon p : ok_prefix p = true -> nochar ":"%char p = true.
Proof. unfold ok_prefix. intros H. repeat (apply andb_true_iff in H; destruct H as [H ?]). assumption. Qed.

Lemma ok_prefix_noangle p : ok_prefix p = true -> first_char_is "<"%char p = false.
Proof.
  unfold ok_prefix. intros H. repeat (apply andb_true_iff in H; destruct H as [H ?]).
  apply negb_true_iff. assumption.
Qed.

Lemma priority_prefixes_plain :
  forallb (fun p => nochar ":"%char p && negb (first_char_is "<"%char p)) c_PRIORITY_PREFIXES_FOR_SHAPES = true.
Proof. reflexivity. Qed.

Lemma map_fst_swap l : map fst (map swap l) = map snd l.
Proof. rewrite map_map. reflexivity. Qed.

Lemma good_pd_swap ns p0 : wf_ns_facts ns p0 -> good_pd (map swap ns).
Proof.
  intros W. constructor.
  - intros q n H. apply in_map_iff in H. destruct H as [[n' q'] [E H]]. inversion E; subst.
    apply ok_prefix_nocolon. apply (wn_prefix_ok _ _ W _ _ H).
  - intros q n H. apply in_map_iff in H. destruct H as [[n' q'] [E H]]. inversion E; subst.
    apply ok_prefix_noangle. apply (wn_prefix_ok _ _ W _ _ H).
  - rewrite map_fst_swap. apply (wn_nodup_p _ _ W).
Qed.

Lemma good_pd_of ns p0 : wf_ns_facts ns p0 -> good_pd (pd_of ns).
Proof.
  intros W. rewrite (pd_of_eq _ _ W). pose proof (good_pd_swap _ _ W) as G.
  pose proof priority_prefixes_plain as PP. rewrite forallb_forall in PP.
  specialize (PP _ (wn_p0_prio _ _ W)). apply andb_true_iff in PP. destruct PP as [PP1 PP2].
  constructor.
  - intros q n H. apply in_app_iff in H. destruct H as [H|[H|[]]]; [apply (gp_nocolon _ G _ _ H)|].
    inversion H; subst. assumption.
  - intros q n H. apply in_app_iff in H. destruct H as [H|[H|[]]]; [apply (gp_noangle _ G _ _ H)|].
    inversion H; subst. apply negb_true_iff. assumption.
  - rewrite map_app, map_fst_swap. cbn. apply NoDup_snoc; [apply (wn_nodup_p _ _ W) | apply (wn_p0_fresh _ _ W)].
Qed.

Lemma ns_of_In ns p n : ns_of ns p = Some n -> In (n, p) ns.
Proof.
  unfold ns_of. destruct (List.find _ ns) as [[n' p']|] eqn:E; [|discriminate].
  apply find_some in E. destruct E as [Hin Hp]. cbn in Hp. apply str_eqb_eq in Hp. subst.
  cbn. intros H. inversion H; subst. assumption.
Qed.

Lemma pd_of_In ns p0 n p : wf_ns_facts ns p0 -> In (n, p) ns -> In (p, n) (pd_of ns).
Proof.
  intros W H. rewrite (pd_of_eq _ _ W). apply in_app_iff. left.
  apply in_map_iff. exists (n, p). split; [reflexivity | assumption].
Qed.

Lemma first_prefix_hit pd p n l :
  good_pd pd -> In (p, n) pd -> first_prefix pd (p ++ Str ":" ++ l) = Some (p, n).
Proof.
  intros G. pose proof (gp_nodup _ G) as Hnd. pose proof (gp_nocolon _ G) as Hc.
  assert (Hp : forall n', In (p, n') pd -> nochar ":"%char p = true) by (intros; eapply Hc; eauto).
  clear G. induction pd as [|[q n'] pd IH]; cbn [first_prefix In]; [tauto|]. intros Hin.
  destruct (prefixb (q ++ Str ":") (p ++ Str ":" ++ l)) eqn:E.
  - assert (q = p).
    { apply (first_colon_inj q p l); [eapply Hc; left; reflexivity | eapply Hp; eassumption | assumption]. }
    subst q. destruct Hin as [Hin|Hin]; [inversion Hin; reflexivity|].
    inversion Hnd; subst. exfalso. apply H1. apply in_map_iff. exists (p, n). auto.
  - destruct Hin as [Hin|Hin].
    + inversion Hin; subst. rewrite (app_assoc p), prefixb_app in E. discriminate.
    + inversion Hnd; subst. apply IH; auto.
      * intros q0 n0 H0. eapply Hc. right. eassumption.
      * intros n0 H0. eapply Hp. right. eassumption.
Qed.

Lemma first_prefix_angle pd x : good_pd pd -> first_prefix pd (Str "<" ++ x) = None.
Proof.
  intros G. pose proof (gp_noangle _ G) as Ha. pose proof (gp_nocolon _ G) as Hc. clear G.
  induction pd as [|[q n] pd IH]; cbn [first_prefix]; [reflexivity|].
  assert (E : prefixb (q ++ Str ":") ("<"%char :: x) = false).
  { destruct q as [|c q]; [reflexivity|]. cbn.
    specialize (Ha (c :: q) n (or_introl eq_refl)). cbn in Ha. rewrite Ha. reflexivity. }
  change (Str "<" ++ x) with ("<"%char :: x). rewrite E. apply IH.
  - intros q0 n0 H0. eapply Ha. right. eassumption.
  - intros q0 n0 H0. eapply Hc. right. eassumption.
Qed.

(** ** references *)

Definition cref (ns : nsdict) (r : iriref) : str :=
  match resolve ns r with Some i => i | None => [] end.

Lemma ok_ref_cases ns pd fo once r :
  ok_ref ns pd fo once r = true ->
  (exists i, r = Full i /\ fo = true /\ ok_iri i = true /\ prefixb (Str "<") i = false /\ first_prefix pd i = None) \/
  (exists i, r = Angle i /\ ok_iri i = true) \/
  (exists p l n, r = Pref p l /\ ns_of ns p = Some n /\ ok_local once p l = true /\ ok_iri (n ++ l) = true).
Proof.
  destruct r as [i|i|p l]; cbn [ok_ref]; intros H.
  - left. exists i. repeat (apply andb_true_iff in H; destruct H as [H ?]).
    destruct (first_prefix pd i); [discriminate|]. apply negb_true_iff in H1. auto.
  - right; left. exists i. auto.
  - right; right. destruct (ns_of ns p) as [n|] eqn:E; [|discriminate].
    apply andb_true_iff in H. destruct H. exists p, l, n. auto.
Qed.

Record iri_facts (i : str) : Prop := {
  if_nospace : nospace i = true;
  if_nonempty : i <> [];
  if_nolt : prefixb (Str "<") i = false;
  if_nobn : prefixb (Str "_:") i = false
}.

Lemma if_nocorners i : iri_facts i -> has_corners i = false.
Proof. intros F. unfold has_corners. rewrite (if_nolt _ F). reflexivity. Qed.

Lemma ok_iri_facts i : ok_iri i = true -> iri_facts i.
Proof.
  unfold ok_iri. intros H.
  apply andb_true_iff in H; destruct H as [H H3]. apply andb_true_iff in H; destruct H as [H H2].
  apply andb_true_iff in H; destruct H as [H H1].
  constructor; auto; try (apply negb_true_iff; assumption).
  apply negb_true_iff in H1. apply str_eqb_neq in H1. assumption.
Qed.

Lemma noraise_id i : has_corners i = false -> remove_corners_noraise i = i.
Proof. unfold remove_corners_noraise. intros ->. reflexivity. Qed.

Lemma has_corners_angle i : has_corners (Str "<" ++ i ++ Str ">") = true.
Proof.
  unfold has_corners. cbn [Str list_ascii_of_string app prefixb]. rewrite Ascii.eqb_refl. cbn [andb].
  change ("<"%char :: i ++ [">"%char]) with (("<"%char :: i) ++ [">"%char]). apply suffixb_snoc.
Qed.

Lemma slice_angle i : slice (Str "<" ++ i ++ Str ">") 1 (-1) = i.
Proof. apply (slice_inner "<"%char ">"%char i). Qed.

Lemma remove_corners_angle b i : remove_corners b (Str "<" ++ i ++ Str ">") = Ok i.
Proof. unfold remove_corners. rewrite has_corners_angle, slice_angle. reflexivity. Qed.

Lemma noraise_angle i : remove_corners_noraise (Str "<" ++ i ++ Str ">") = i.
Proof. unfold remove_corners_noraise. rewrite has_corners_angle, slice_angle. reflexivity. Qed.

Lemma ok_local_facts once p l :
  ok_local once p l = true ->
  nospace l = true /\ True /\ (once = true \/ contains (p ++ Str ":") l = false) /\
  suffixb (Str ">") (Str ":" ++ l) = false.
Proof.
  unfold ok_local. intros H.
  apply andb_true_iff in H; destruct H as [H H2]. apply andb_true_iff in H; destruct H as [H H1].
  repeat split; auto; [|apply negb_true_iff; assumption].
  apply orb_true_iff in H1. destruct H1 as [H1|H1]; [left; assumption | right; apply negb_true_iff; assumption].
Qed.

(** [s.replace(a, b, 1)] on a string that starts with [a]: whatever follows is kept *)
Lemma replace_once_prefix a b l : replace_once a b (a ++ l) = b ++ l.
Proof.
  unfold replace_once.
  assert (E : find_nat a (a ++ l) = Some O).
  { destruct (a ++ l) eqn:Ea; cbn [find_nat]; rewrite <- Ea, prefixb_app; reflexivity. }
  rewrite E. cbn [firstn app Nat.add]. rewrite skipn_app_length. reflexivity.
Qed.

(** both texts of the expansion of a prefixed name: the one that replaces every
    occurrence is right when the local part does not hold [prefix:] again *)
Lemma unprefix_with_hit once p n l :
  once = true \/ contains (p ++ Str ":") l = false -> unprefix_with once p n (p ++ Str ":" ++ l) = n ++ l.
Proof.
  intros H. unfold unprefix_with. rewrite (app_assoc p). destruct once.
  - apply replace_once_prefix.
  - destruct H as [H|H]; [discriminate|]. apply replace_all_prefix; [|assumption].
    destruct p; discriminate.
Qed.

Lemma unprefix_hit p n l :
  c_unprefix_ifp_once = true \/ contains (p ++ Str ":") l = false -> unprefix p n (p ++ Str ":" ++ l) = n ++ l.
Proof. apply unprefix_with_hit. Qed.

Lemma unprefix_sel_hit p n l :
  c_unprefix_sel_once = true \/ contains (p ++ Str ":") l = false -> unprefix_sel p n (p ++ Str ":" ++ l) = n ++ l.
Proof. apply unprefix_with_hit. Qed.

Lemma prefixed_not_angle p l : first_char_is "<"%char p = false -> prefixb (Str "<") (p ++ Str ":" ++ l) = false.
Proof.
  destruct p as [|c p]; [reflexivity|]. cbn [first_char_is]. intros H.
  change (prefixb (Str "<") ((c :: p) ++ Str ":" ++ l)) with (Ascii.eqb "<"%char c && true).
  rewrite Ascii.eqb_sym, H. reflexivity.
Qed.

Lemma prefixed_not_brace p l : first_char_is "{"%char p = false -> prefixb (Str "{") (p ++ Str ":" ++ l) = false.
Proof.
  destruct p as [|c p]; [reflexivity|]. cbn [first_char_is]. intros H.
  change (prefixb (Str "{") ((c :: p) ++ Str ":" ++ l)) with (Ascii.eqb "{"%char c && true).
  rewrite Ascii.eqb_sym, H. reflexivity.
Qed.

Lemma ok_prefix_facts p :
  ok_prefix p = true ->
  nospace p = true /\ nochar "@"%char p = true /\ nochar ":"%char p = true /\
  first_char_is "<"%char p = false /\ first_char_is "{"%char p = false /\
  first_char_is "#"%char p = false /\ prefixb c_sel_sparql_kw p = false.
Proof.
  unfold ok_prefix, word. intros H. repeat (apply andb_true_iff in H; destruct H as [H ?]).
  repeat split; auto; apply negb_true_iff; assumption.
Qed.

(** a class name, as [tune_target_classes_if_needed] + [create_IRIs_from_string_list] read it *)
Lemma tune_one_ok ns p0 r :
  wf_ns_facts ns p0 -> ok_ref ns (pd_of ns) true c_unprefix_ifp_once r = true ->
  tune_one_class (pd_of ns) (show_ref r) = Ok (cref ns r) /\
  resolve ns r = Some (cref ns r) /\ ok_iri (cref ns r) = true.
Proof.
  intros W H. pose proof (good_pd_of _ _ W) as G.
  destruct (ok_ref_cases _ _ _ _ _ H) as [[i [-> [_ [Hi [Hlt Hfp]]]]] | [[i [-> Hi]] | [p [l [n [-> [Hn [Hl Hi]]]]]]]].
  - unfold tune_one_class, cref. cbn [show_ref resolve]. rewrite Hlt.
    unfold unprefixize_uri_if_possible. rewrite Hfp. auto.
  - unfold tune_one_class, cref. cbn [show_ref resolve].
    replace (prefixb (Str "<") (Str "<" ++ i ++ Str ">")) with true by reflexivity.
    rewrite remove_corners_angle. auto.
  - unfold tune_one_class, cref. cbn [show_ref resolve]. rewrite Hn. cbn [option_map].
    pose proof (ns_of_In _ _ _ Hn) as Hin.
    destruct (ok_prefix_facts _ (wn_prefix_ok _ _ W _ _ Hin)) as [_ [_ [_ [Hlt _]]]].
    rewrite (prefixed_not_angle _ _ Hlt).
    unfold unprefixize_uri_if_possible.
    rewrite (first_prefix_hit _ _ _ _ G (pd_of_In _ _ _ _ W Hin)).
    destruct (ok_local_facts _ _ _ Hl) as [_ [_ [Hc _]]]. rewrite (unprefix_hit _ _ _ Hc). auto.
Qed.

(** the instantiation property, as Shaper.__init__ + _decide_instantiation_property read it *)
Lemma tau_ok ns p0 r :
  wf_ns_facts ns p0 -> ok_ref ns (reverse_keys_and_values ns) true c_unprefix_ifp_once r = true ->
  remove_corners_noraise (unprefixize_uri_if_possible (show_ref r) (reverse_keys_and_values ns) false) = cref ns r /\
  resolve ns r = Some (cref ns r) /\ ok_iri (cref ns r) = true.
Proof.
  intros W H. pose proof (good_pd_swap _ _ W) as G.
  rewrite (reverse_nodup _ (wn_nodup_p _ _ W)) in *.
  destruct (ok_ref_cases _ _ _ _ _ H) as [[i [-> [_ [Hi [Hlt Hfp]]]]] | [[i [-> Hi]] | [p [l [n [-> [Hn [Hl Hi]]]]]]]].
  - unfold unprefixize_uri_if_possible, cref. cbn [show_ref resolve]. rewrite Hfp.
    rewrite noraise_id by (apply (if_nocorners _ (ok_iri_facts _ Hi))). auto.
  - unfold unprefixize_uri_if_possible, cref. cbn [show_ref resolve].
    rewrite (first_prefix_angle _ _ G). rewrite noraise_angle. auto.
  - unfold unprefixize_uri_if_possible, cref. cbn [show_ref resolve]. rewrite Hn. cbn [option_map].
    pose proof (ns_of_In _ _ _ Hn) as Hin.
    assert (Hin' : In (p, n) (map swap ns)) by (apply in_map_iff; exists (n, p); auto).
    rewrite (first_prefix_hit _ _ _ _ G Hin').
    destruct (ok_local_facts _ _ _ Hl) as [_ [_ [Hc _]]]. rewrite (unprefix_hit _ _ _ Hc).
    rewrite noraise_id by (apply (if_nocorners _ (ok_iri_facts _ Hi))). auto.
Qed.

(** ** labels *)

Lemma parse_label_angle pd l : parse_label pd (Str "<" ++ l ++ Str ">") = Ok (Str "<" ++ l ++ Str ">").
Proof. unfold parse_label. rewrite has_corners_angle, orb_true_r. reflexivity. Qed.

(** ** single-node selectors *)

Lemma dispatch_consts : c_sel_dispatch = [Str "<"; Str "{"; c_sel_sparql_kw].
Proof. reflexivity. Qed.

Lemma angle_edges i : strip (Str "<" ++ i ++ Str ">") = Str "<" ++ i ++ Str ">".
Proof. apply (strip_id_snoc "<"%char i ">"%char); reflexivity. Qed.

Lemma nospace_prefixed p l : nospace p = true -> nospace l = true -> nospace (p ++ Str ":" ++ l) = true.
Proof. intros Hp Hl. rewrite !nospace_app, Hp, Hl. reflexivity. Qed.

Lemma prefixed_not_kw p l : prefixb c_sel_sparql_kw p = false -> prefixb c_sel_sparql_kw (p ++ Str ":" ++ l) = false.
Proof. apply prefixb_kw_colon. reflexivity. Qed.

(** selector text of a reference that is not written in full *)
Lemma parse_node_ref ns p0 wf r :
  wf_ns_facts ns p0 -> ok_ref ns (pd_of ns) false c_unprefix_sel_once r = true ->
  parse_node_selector wf (pd_of ns) (show_ref r) = Ok (PSNode (cref ns r)) /\
  resolve ns r = Some (cref ns r) /\ ok_iri (cref ns r) = true.
Proof.
  intros W H. pose proof (good_pd_of _ _ W) as G.
  destruct (ok_ref_cases _ _ _ _ _ H) as [[i [-> [F _]]] | [[i [-> Hi]] | [p [l [n [-> [Hn [Hl Hi]]]]]]]];
    [discriminate | |].
  - unfold parse_node_selector, cref. cbn [show_ref resolve]. rewrite angle_edges, dispatch_consts.
    cbn [nth]. replace (prefixb (Str "<") (Str "<" ++ i ++ Str ">")) with true by reflexivity.
    rewrite remove_corners_angle. auto.
  - unfold parse_node_selector, cref. cbn [show_ref resolve]. rewrite Hn. cbn [option_map].
    pose proof (ns_of_In _ _ _ Hn) as Hin.
    destruct (ok_prefix_facts _ (wn_prefix_ok _ _ W _ _ Hin)) as [Hs [_ [_ [Hlt [Hbr [_ Hkw]]]]]].
    destruct (ok_local_facts _ _ _ Hl) as [Hls [_ [Hc _]]].
    rewrite (strip_nospace _ (nospace_prefixed _ _ Hs Hls)), dispatch_consts. cbn [nth].
    rewrite (prefixed_not_angle _ _ Hlt), (prefixed_not_brace _ _ Hbr), (prefixed_not_kw _ _ Hkw).
    rewrite (first_prefix_hit _ _ _ _ G (pd_of_In _ _ _ _ W Hin)), (unprefix_sel_hit _ _ _ Hc). auto.
Qed.

(** ** FOCUS patterns *)

Definition ctok (ns : nsdict) (f : fterm) : str :=
  match f with
  | FWild => c_sel_WILDCARD_VARIABLE
  | FA => add_corners c_uri_RDF_TYPE
  | FIri r => add_corners (cref ns r)
  end.

Lemma edge_ok_rev_app x w : nospace w = true -> w <> [] -> edge_ok (rev (x ++ w)).
Proof.
  intros Hs Hne. rewrite rev_app_distr. pose proof (nospace_edge (rev w)) as H.
  rewrite nospace_rev in H. specialize (H Hs).
  destruct (rev w) as [|c r] eqn:E.
  - exfalso. apply Hne. rewrite <- (rev_involutive w), E. reflexivity.
  - exact H.
Qed.

(** what [_parse_focus_expression] does with three blank-free words *)
Lemma parse_focus_words pd w1 w2 w3 :
  nospace w1 = true -> nospace w2 = true -> nospace w3 = true -> w1 <> [] -> w2 <> [] -> w3 <> [] ->
  parse_focus pd (Str "{" ++ w1 ++ Str " " ++ w2 ++ Str " " ++ w3 ++ Str "}") =
  bind (parse_subj_obj_focus pd w1 0) (fun '(s, c1) =>
  bind (parse_uri_focus pd w2) (fun p =>
  bind (parse_subj_obj_focus pd w3 c1) (fun '(o, c2) =>
  if Nat.eqb c2 1 then Ok (PSFocus s p o) else Err ExValue))).
Proof.
  intros S1 S2 S3 N1 N2 N3. unfold parse_focus.
  set (body := w1 ++ Str " " ++ w2 ++ Str " " ++ w3).
  replace (Str "{" ++ w1 ++ Str " " ++ w2 ++ Str " " ++ w3 ++ Str "}") with ("{"%char :: body ++ ["}"%char]).
  2:{ unfold body. cbn [Str list_ascii_of_string app]. f_equal.
      repeat (rewrite <- app_assoc; cbn [app]). reflexivity. }
  cbn [first_char_is]. rewrite Ascii.eqb_refl. cbn [negb orb].
  unfold last_char_is. change ("{"%char :: body ++ ["}"%char]) with (("{"%char :: body) ++ ["}"%char]) at 1.
  rewrite at_idx_last, Ascii.eqb_refl. cbn [negb].
  rewrite slice_inner.
  assert (Hstrip : strip body = body).
  { apply strip_id.
    - unfold body. destruct w1 as [|c w1]; [contradiction|]. cbn. rewrite nospace_cons in S1.
      apply andb_true_iff in S1. destruct S1 as [S1 _]. apply negb_true_iff in S1. exact S1.
    - unfold body. rewrite !app_assoc. apply edge_ok_rev_app; assumption. }
  rewrite Hstrip. unfold body.
  rewrite collapse_three by (auto using nospace_noblank).
  change (Str " ") with [" "%char].
  change (w1 ++ [" "%char] ++ w2 ++ [" "%char] ++ w3) with (join [" "%char] [w1; w2; w3]).
  rewrite split_join; [reflexivity | discriminate |].
  repeat constructor; auto using nospace_noblank.
Qed.

Lemma colon_in_prefixed p l : In ":"%char (p ++ Str ":" ++ l).
Proof. apply in_app_iff. right. left. reflexivity. Qed.

Lemma not_colon_a : ~ In ":"%char c_sel_a_token.
Proof. intros [H|[]]; discriminate. Qed.
Lemma not_colon_wild : ~ In ":"%char c_sel_WILDCARD.
Proof. intros [H|[]]; discriminate. Qed.
Lemma not_colon_focus : ~ In ":"%char c_sel_FOCUS_LOWER.
Proof. cbn. intuition discriminate. Qed.

Lemma parse_uri_focus_ok ns p0 f :
  wf_ns_facts ns p0 -> ok_fterm ns (pd_of ns) f = true -> is_wild f = false ->
  parse_uri_focus (pd_of ns) (show_fterm f) = Ok (ctok ns f).
Proof.
  intros W H Hw. pose proof (good_pd_of _ _ W) as G.
  destruct f as [| |r]; [discriminate | reflexivity |].
  cbn [ok_fterm] in H. cbn [show_fterm ctok].
  destruct (ok_ref_cases _ _ _ _ _ H) as [[i [-> [F _]]] | [[i [-> Hi]] | [p [l [n [-> [Hn [Hl Hi]]]]]]]];
    [discriminate | |].
  - unfold parse_uri_focus, cref. cbn [show_ref resolve].
    replace (str_eqb (Str "<" ++ i ++ Str ">") c_sel_a_token) with false by reflexivity.
    change (suffixb (Str ">") (Str "<" ++ i ++ Str ">")) with (suffixb [">"%char] (("<"%char :: i) ++ [">"%char])).
    rewrite suffixb_snoc. reflexivity.
  - unfold parse_uri_focus, cref. cbn [show_ref resolve]. rewrite Hn. cbn [option_map].
    rewrite (str_eqb_false_In ":"%char) by (apply colon_in_prefixed || apply not_colon_a).
    destruct (ok_local_facts _ _ _ Hl) as [_ [_ [Hc Hsuf]]].
    change (Str ">") with [">"%char] in *. rewrite suffixb_one_app by discriminate. rewrite Hsuf.
    pose proof (ns_of_In _ _ _ Hn) as Hin.
    rewrite (first_prefix_hit _ _ _ _ G (pd_of_In _ _ _ _ W Hin)), (unprefix_sel_hit _ _ _ Hc). reflexivity.
Qed.

Lemma parse_subj_obj_ok ns p0 f c :
  wf_ns_facts ns p0 -> ok_fterm ns (pd_of ns) f = true ->
  parse_subj_obj_focus (pd_of ns) (show_fterm f) c = Ok (ctok ns f, c).
Proof.
  intros W H. destruct f as [| |r]; [reflexivity | reflexivity |].
  unfold parse_subj_obj_focus.
  rewrite (parse_uri_focus_ok _ _ (FIri r) W H eq_refl). cbn [bind].
  cbn [ok_fterm] in H. cbn [show_fterm].
  destruct (ok_ref_cases _ _ _ _ _ H) as [[i [-> [F _]]] | [[i [-> Hi]] | [p [l [n [-> [Hn [Hl Hi]]]]]]]];
    [discriminate | |].
  - cbn [show_ref].
    replace (str_eqb (lower (Str "<" ++ i ++ Str ">")) c_sel_FOCUS_LOWER) with false by reflexivity.
    replace (str_eqb (Str "<" ++ i ++ Str ">") c_sel_WILDCARD) with false by reflexivity.
    reflexivity.
  - cbn [show_ref].
    rewrite (str_eqb_false_In ":"%char (lower _)) by
        (apply lower_keeps_colon, colon_in_prefixed || apply not_colon_focus).
    rewrite (str_eqb_false_In ":"%char) by (apply colon_in_prefixed || apply not_colon_wild).
    reflexivity.
Qed.

Lemma parse_focus_kw pd c : parse_subj_obj_focus pd (Str "FOCUS") c = Ok (c_sel_FOCUS_VARIABLE, S c).
Proof. reflexivity. Qed.

(** ** selectors *)

Definition csel (ns : nsdict) (sel : selector) : psel :=
  match sel with
  | SelNode r => PSNode (cref ns r)
  | SelFocusSubj p o => PSFocus c_sel_FOCUS_VARIABLE (ctok ns p) (ctok ns o)
  | SelFocusObj s p => PSFocus (ctok ns s) (ctok ns p) c_sel_FOCUS_VARIABLE
  | SelSparql q => PSSparql q
  end.

Lemma fterm_word ns p0 f :
  wf_ns_facts ns p0 -> ok_fterm ns (pd_of ns) f = true ->
  nospace (show_fterm f) = true /\ show_fterm f <> [].
Proof.
  intros W H. destruct f as [| |r]; [split; [reflexivity | discriminate] | split; [reflexivity | discriminate] |].
  cbn [ok_fterm] in H. cbn [show_fterm].
  destruct (ok_ref_cases _ _ _ _ _ H) as [[i [-> [F _]]] | [[i [-> Hi]] | [p [l [n [-> [Hn [Hl Hi]]]]]]]];
    [discriminate | |]; cbn [show_ref].
  - split; [|discriminate]. rewrite !nospace_app, (if_nospace _ (ok_iri_facts _ Hi)). reflexivity.
  - pose proof (ns_of_In _ _ _ Hn) as Hin.
    destruct (ok_prefix_facts _ (wn_prefix_ok _ _ W _ _ Hin)) as [Hs _].
    destruct (ok_local_facts _ _ _ Hl) as [Hls _].
    split; [apply nospace_prefixed; assumption | destruct p; discriminate].
Qed.

Lemma strip_braces w : strip (Str "{" ++ w ++ Str "}") = Str "{" ++ w ++ Str "}".
Proof. apply (strip_id_snoc "{"%char w "}"%char); reflexivity. Qed.

Lemma focus_text w1 w2 w3 :
  Str "{" ++ w1 ++ Str " " ++ w2 ++ Str " " ++ w3 ++ Str "}" =
  Str "{" ++ (w1 ++ Str " " ++ w2 ++ Str " " ++ w3) ++ Str "}".
Proof. f_equal. repeat (rewrite <- app_assoc; cbn [app Str list_ascii_of_string]). reflexivity. Qed.

Lemma parse_focus_selector pd wf w1 w2 w3 :
  parse_node_selector wf pd (Str "{" ++ w1 ++ Str " " ++ w2 ++ Str " " ++ w3 ++ Str "}") =
  parse_focus pd (Str "{" ++ w1 ++ Str " " ++ w2 ++ Str " " ++ w3 ++ Str "}").
Proof.
  unfold parse_node_selector. rewrite focus_text, strip_braces, dispatch_consts. reflexivity.
Qed.

Lemma sparql_kw_plain :
  nochar " "%char c_sel_sparql_kw = true /\ nochar "'"%char c_sel_sparql_kw = true /\ c_sel_sparql_kw <> [].
Proof. repeat split; try reflexivity. discriminate. Qed.

Lemma c_sel_sparql_strip_eq : c_sel_sparql_strip_once = true \/ c_sel_sparql_strip_once = false.
Proof. destruct c_sel_sparql_strip_once; auto. Qed.

Lemma parse_sparql_selector pd wf q :
  ok_query wf q = true ->
  parse_node_selector wf pd (Str "SPARQL '" ++ q ++ Str "'") = Ok (PSSparql q).
Proof.
  intros H. unfold ok_query in H.
  apply andb_true_iff in H; destruct H as [H H0]. apply andb_true_iff in H; destruct H as [H H1].
  apply andb_true_iff in H; destruct H as [H3 H2].
  unfold parse_node_selector.
  assert (Hstrip : strip (Str "SPARQL '" ++ q ++ Str "'") = Str "SPARQL '" ++ q ++ Str "'").
  { apply (strip_id_snoc "S"%char (Str "PARQL '" ++ q) "'"%char); reflexivity. }
  rewrite Hstrip, dispatch_consts. cbn [nth].
  replace (prefixb (Str "<") (Str "SPARQL '" ++ q ++ Str "'")) with false by reflexivity.
  replace (prefixb (Str "{") (Str "SPARQL '" ++ q ++ Str "'")) with false by reflexivity.
  replace (prefixb c_sel_sparql_kw (Str "SPARQL '" ++ q ++ Str "'")) with true by reflexivity.
  unfold parse_sparql.
  destruct sparql_kw_plain as [K1 [K2 K3]].
  change (Str "SPARQL '" ++ q ++ Str "'") with (c_sel_sparql_kw ++ " "%char :: "'"%char :: q ++ ["'"%char]).
  assert (Hkw : strip_sparql_kw (c_sel_sparql_kw ++ " "%char :: "'"%char :: q ++ ["'"%char]) =
                [] ++ " "%char :: "'"%char :: q ++ ["'"%char]).
  { unfold strip_sparql_kw. destruct c_sel_sparql_strip_eq as [E|E]; rewrite E in *.
    - apply replace_once_prefix.
    - cbn [orb] in H2. apply negb_true_iff in H2.
      apply replace_all_prefix; [assumption|].
      rewrite contains_cons_nochar by assumption. rewrite contains_cons_nochar by assumption.
      rewrite contains_snoc_nochar by assumption. assumption. }
  rewrite Hkw.
  cbn [app]. rewrite strip_blank_cons.
  rewrite (strip_id_snoc "'"%char q "'"%char) by reflexivity.
  change (at_idx ("'"%char :: q ++ ["'"%char]) (-1)) with (at_idx (("'"%char :: q) ++ ["'"%char]) (-1)).
  rewrite at_idx_last.
  replace (is_quote "'"%char) with true by reflexivity. cbn [andb].
  rewrite slice_inner. rewrite H1. cbn [negb].
  apply andb_true_iff in H0. destruct H0 as [Hsel Hcnt].
  rewrite Hsel, Hcnt. reflexivity.
Qed.

Lemma parse_selector_ok ns p0 wf sel :
  wf_ns_facts ns p0 -> ok_selector ns (pd_of ns) wf sel = true ->
  parse_node_selector wf (pd_of ns) (show_selector sel) = Ok (csel ns sel).
Proof.
  intros W H. destruct sel as [r | p o | s p | q]; cbn [ok_selector] in H; cbn [show_selector csel].
  - apply (parse_node_ref _ _ wf r W H).
  - apply andb_true_iff in H. destruct H as [H Ho]. apply andb_true_iff in H. destruct H as [Hw Hp].
    apply negb_true_iff in Hw.
    destruct (fterm_word _ _ _ W Hp) as [Sp Np]. destruct (fterm_word _ _ _ W Ho) as [So No].
    change (Str "{FOCUS " ++ show_fterm p ++ Str " " ++ show_fterm o ++ Str "}")
      with (Str "{" ++ Str "FOCUS" ++ Str " " ++ show_fterm p ++ Str " " ++ show_fterm o ++ Str "}").
    rewrite parse_focus_selector, parse_focus_words by (auto; discriminate).
    rewrite parse_focus_kw. cbn [bind].
    rewrite (parse_uri_focus_ok _ _ _ W Hp Hw). cbn [bind].
    rewrite (parse_subj_obj_ok _ _ _ _ W Ho). reflexivity.
  - apply andb_true_iff in H. destruct H as [H Hs]. apply andb_true_iff in H. destruct H as [Hw Hp].
    apply negb_true_iff in Hw.
    destruct (fterm_word _ _ _ W Hp) as [Sp Np]. destruct (fterm_word _ _ _ W Hs) as [Ss Ns].
    replace (Str "{" ++ show_fterm s ++ Str " " ++ show_fterm p ++ Str " FOCUS}")
      with (Str "{" ++ show_fterm s ++ Str " " ++ show_fterm p ++ Str " " ++ Str "FOCUS" ++ Str "}") by reflexivity.
    rewrite parse_focus_selector, parse_focus_words by (auto; discriminate).
    rewrite (parse_subj_obj_ok _ _ _ _ W Hs). cbn [bind].
    rewrite (parse_uri_focus_ok _ _ _ W Hp Hw). cbn [bind].
    rewrite parse_focus_kw. reflexivity.
  - apply parse_sparql_selector. assumption.
Qed.

(** ** shape-map items *)

(** the shapes of the code Props/C10.v is proved for (see tools/gen_consts.py) *)
Lemma flag_label : c_sm_label_bracketed = true. Proof. reflexivity. Qed.
Lemma flag_rsplit : c_sm_item_rsplit = true. Proof. reflexivity. Qed.
Lemma flag_dedup : c_sm_dedup_labels = true. Proof. reflexivity. Qed.

Definition clabel (ns : nsdict) (r : iriref) : str := add_corners (cref ns r).

Definition citem (ns : nsdict) (it : item) : pitem :=
  {| pi_sel := csel ns (it_sel it); pi_label := clabel ns (it_label it) |}.

(** the syntactic half of [ok_item] *)
Definition ok_item_syn (ns : nsdict) (wf : str -> bool) (it : item) : bool :=
  ok_label ns (pd_of ns) (it_label it) && ok_selector ns (pd_of ns) wf (it_sel it).

Lemma mapM_ok {A B} (f : A -> res B) (g : A -> B) l :
  (forall x, In x l -> f x = Ok (g x)) -> mapM f l = Ok (map g l).
Proof.
  induction l as [|x l IH]; intros H; [reflexivity|]. cbn [mapM map].
  rewrite (H x (or_introl eq_refl)). cbn [bind]. rewrite IH by (intros; apply H; right; assumption).
  reflexivity.
Qed.

Lemma ok_label_split ns pd r :
  ok_label ns pd r = true ->
  ok_ref ns pd false true r = true /\ nochar "@"%char (show_ref r) = true /\
  (len (show_ref r) <? 2)%Z = false /\ suffixb (Str ",") (show_ref r) = false.
Proof.
  unfold ok_label. intros H.
  apply andb_true_iff in H; destruct H as [H H3]. apply andb_true_iff in H; destruct H as [H H2].
  apply andb_true_iff in H; destruct H as [H0 H1].
  repeat split; auto; apply negb_true_iff; assumption.
Qed.

(** a bracketed or prefixed label is stored as [<iri>] *)
Lemma parse_label_ok ns p0 r :
  wf_ns_facts ns p0 -> ok_label ns (pd_of ns) r = true ->
  parse_label (pd_of ns) (show_ref r) = Ok (clabel ns r) /\ resolve ns r = Some (cref ns r).
Proof.
  intros W H. pose proof (good_pd_of _ _ W) as G.
  destruct (ok_label_split _ _ _ H) as [Hr [_ [Hlen _]]].
  destruct (ok_ref_cases _ _ _ _ _ Hr) as [[i [-> [F _]]] | [[i [-> Hi]] | [p [l [n [-> [Hn [Hl Hi]]]]]]]];
    [discriminate | |].
  - cbn [show_ref]. rewrite parse_label_angle. unfold clabel, cref. cbn [resolve]. auto.
  - cbn [show_ref] in *. unfold clabel, cref. cbn [resolve]. rewrite Hn. cbn [option_map].
    split; [|reflexivity].
    pose proof (ns_of_In _ _ _ Hn) as Hin.
    destruct (ok_prefix_facts _ (wn_prefix_ok _ _ W _ _ Hin)) as [_ [_ [Hnc [Hlt _]]]].
    unfold parse_label. rewrite Hlen. cbn [orb].
    unfold has_corners. rewrite (prefixed_not_angle _ _ Hlt). cbn [andb].
    change (Str ":") with [":"%char]. cbn [app].
    rewrite (find_first ":"%char p l Hnc).
    pose proof (len_nonneg p).
    destruct (len p =? -1)%Z eqn:E; [apply Z.eqb_eq in E; lia|].
    rewrite slice_to_app.
    rewrite (In_dget_nodup _ _ _ (gp_nodup _ G) (pd_of_In _ _ _ _ W Hin)).
    replace (p ++ ":"%char :: l) with ((p ++ [":"%char]) ++ l) by (rewrite <- app_assoc; reflexivity).
    replace (len p + 1)%Z with (len (p ++ [":"%char])) by (rewrite len_app; reflexivity).
    rewrite slice_from_app, flag_label. reflexivity.
Qed.

Lemma parse_json_item_ok ns p0 wf it :
  wf_ns_facts ns p0 -> ok_item_syn ns wf it = true ->
  parse_json_item wf (pd_of ns) (show_selector (it_sel it), show_ref (it_label it)) = Ok (citem ns it).
Proof.
  intros W H. unfold ok_item_syn in H. apply andb_true_iff in H. destruct H as [Hlab Hsel].
  unfold parse_json_item. cbn [fst snd]. rewrite (parse_selector_ok _ _ _ _ W Hsel). cbn [bind].
  destruct (parse_label_ok _ _ _ W Hlab) as [Hp _]. rewrite Hp. reflexivity.
Qed.

Lemma parse_json_ok ns p0 wf its :
  wf_ns_facts ns p0 -> (forall it, In it its -> ok_item_syn ns wf it = true) ->
  parse_json wf (pd_of ns) (show_json its) = Ok (map (citem ns) its).
Proof.
  intros W H. unfold parse_json, show_json.
  induction its as [|it its IH]; [reflexivity|]. cbn [map mapM].
  rewrite (parse_json_item_ok _ _ _ _ W (H it (or_introl eq_refl))). cbn [bind].
  rewrite IH by (intros; apply H; right; assumption). reflexivity.
Qed.

(** *** fixed syntax: characters of an item *)

(** no line break inside *)
Definition safe (s : str) : bool := nochar (ascii_of_nat 10) s.

Lemma safe_app a b : safe (a ++ b) = safe a && safe b.
Proof. unfold safe. apply nochar_app. Qed.

Lemma safe_word s : nospace s = true -> safe s = true.
Proof. apply nospace_nonl. Qed.

Lemma ref_safe ns p0 fo once r :
  wf_ns_facts ns p0 -> ok_ref ns (pd_of ns) fo once r = true -> fo = false ->
  safe (show_ref r) = true /\ nospace (show_ref r) = true /\ show_ref r <> [] /\
  first_char_is "#"%char (show_ref r) = false.
Proof.
  intros W H Hfo. subst fo.
  destruct (ok_ref_cases _ _ _ _ _ H) as [[i [-> [F _]]] | [[i [-> Hi]] | [p [l [n [-> [Hn [Hl Hi]]]]]]]];
    [discriminate | |]; cbn [show_ref].
  - pose proof (ok_iri_facts _ Hi) as Fi.
    assert (Hs : nospace (Str "<" ++ i ++ Str ">") = true) by (rewrite !nospace_app, (if_nospace _ Fi); reflexivity).
    repeat split; [|assumption|discriminate].
    apply safe_word; assumption.
  - pose proof (ns_of_In _ _ _ Hn) as Hin.
    destruct (ok_prefix_facts _ (wn_prefix_ok _ _ W _ _ Hin)) as [Hs [Hat [_ [_ [_ [Hhash _]]]]]].
    destruct (ok_local_facts _ _ _ Hl) as [Hls _].
    assert (Hsp : nospace (p ++ Str ":" ++ l) = true) by (apply nospace_prefixed; assumption).
    repeat split; [|assumption| destruct p; discriminate |].
    + apply safe_word; assumption.
    + destruct p as [|c p]; [reflexivity | exact Hhash].
Qed.

Lemma fterm_safe ns p0 f :
  wf_ns_facts ns p0 -> ok_fterm ns (pd_of ns) f = true -> safe (show_fterm f) = true.
Proof.
  intros W H. destruct f as [| |r]; [reflexivity | reflexivity |].
  cbn [ok_fterm] in H. cbn [show_fterm]. apply (ref_safe _ _ _ _ _ W H eq_refl).
Qed.

Record text_facts (s : str) : Prop := {
  tf_safe : safe s = true;
  tf_edge_l : edge_ok s;
  tf_edge_r : edge_ok (rev s);
  tf_nonempty : s <> [];
  tf_nothash : first_char_is "#"%char s = false
}.

Lemma tf_strip s : text_facts s -> strip s = s.
Proof. intros F. apply strip_id; [apply (tf_edge_l _ F) | apply (tf_edge_r _ F)]. Qed.

Lemma edge_r_snoc s c : is_space c = false -> edge_ok (rev (s ++ [c])).
Proof. intros H. rewrite rev_app_distr. exact H. Qed.

Lemma selector_text ns p0 wf sel :
  wf_ns_facts ns p0 -> ok_selector ns (pd_of ns) wf sel = true -> text_facts (show_selector sel).
Proof.
  intros W H. destruct sel as [r | p o | s p | q]; cbn [ok_selector] in H; cbn [show_selector].
  - destruct (ref_safe _ _ _ _ _ W H eq_refl) as [H1 [H2 [H3 H4]]].
    constructor; auto using nospace_edge. apply nospace_edge. rewrite nospace_rev. assumption.
  - apply andb_true_iff in H. destruct H as [H Ho]. apply andb_true_iff in H. destruct H as [_ Hp].
    constructor.
    + rewrite !safe_app, (fterm_safe _ _ _ W Hp), (fterm_safe _ _ _ W Ho). reflexivity.
    + reflexivity.
    + replace (Str "{FOCUS " ++ show_fterm p ++ Str " " ++ show_fterm o ++ Str "}")
        with ((Str "{FOCUS " ++ show_fterm p ++ Str " " ++ show_fterm o) ++ ["}"%char])
        by (repeat (rewrite <- app_assoc; cbn [app Str list_ascii_of_string]); reflexivity).
      apply edge_r_snoc. reflexivity.
    + discriminate.
    + reflexivity.
  - apply andb_true_iff in H. destruct H as [H Hs]. apply andb_true_iff in H. destruct H as [_ Hp].
    constructor.
    + rewrite !safe_app, (fterm_safe _ _ _ W Hp), (fterm_safe _ _ _ W Hs). reflexivity.
    + reflexivity.
    + replace (Str "{" ++ show_fterm s ++ Str " " ++ show_fterm p ++ Str " FOCUS}")
        with ((Str "{" ++ show_fterm s ++ Str " " ++ show_fterm p ++ Str " FOCUS") ++ ["}"%char])
        by (repeat (rewrite <- app_assoc; cbn [app Str list_ascii_of_string]); reflexivity).
      apply edge_r_snoc. reflexivity.
    + discriminate.
    + reflexivity.
  - unfold ok_query in H.
    apply andb_true_iff in H; destruct H as [H H0]. apply andb_true_iff in H; destruct H as [H H1].
    apply andb_true_iff in H; destruct H as [H3 H2].
    constructor.
    + rewrite !safe_app. unfold safe at 2. rewrite H3. reflexivity.
    + reflexivity.
    + change (Str "SPARQL '" ++ q ++ Str "'") with ((Str "SPARQL '" ++ q) ++ ["'"%char]).
      apply edge_r_snoc. reflexivity.
    + discriminate.
    + reflexivity.
Qed.

(** *** fixed syntax: lines *)

Fixpoint with_commas (l : list str) : list str :=
  match l with
  | [] => []
  | [x] => [x]
  | x :: l' => (x ++ Str ",") :: with_commas l'
  end.

Lemma with_commas_cons2 x y l : with_commas (x :: y :: l) = (x ++ Str ",") :: with_commas (y :: l).
Proof. reflexivity. Qed.

Lemma with_commas_nonempty x l : with_commas (x :: l) <> [].
Proof. destruct l; discriminate. Qed.

Lemma join_comma_nl l : join (Str "," ++ nl) l = join nl (with_commas l).
Proof.
  induction l as [|x l IH]; [reflexivity|]. destruct l as [|y l]; [reflexivity|].
  rewrite join_cons_cons, with_commas_cons2, IH.
  destruct (with_commas (y :: l)) as [|z zs] eqn:E; [exfalso; revert E; apply with_commas_nonempty|].
  rewrite join_cons_cons. rewrite <- !app_assoc. reflexivity.
Qed.

Lemma filter_all {A} (f : A -> bool) l : (forall x, In x l -> f x = true) -> filter f l = l.
Proof.
  induction l as [|x l IH]; intros H; [reflexivity|]. cbn. rewrite (H x (or_introl eq_refl)).
  f_equal. apply IH. intros; apply H; right; assumption.
Qed.

Lemma map_id_on {A} (f : A -> A) l : (forall x, In x l -> f x = x) -> map f l = l.
Proof.
  induction l as [|x l IH]; intros H; [reflexivity|]. cbn. rewrite (H x (or_introl eq_refl)).
  f_equal. apply IH. intros; apply H; right; assumption.
Qed.

Record line_facts (s : str) : Prop := {
  lf_nonl : nochar (ascii_of_nat 10) s = true;
  lf_strip : strip s = s;
  lf_nonempty : s <> [];
  lf_nothash : first_char_is "#"%char s = false
}.

Lemma In_with_commas x l : In x (with_commas l) -> exists y, In y l /\ (x = y \/ x = y ++ Str ",").
Proof.
  induction l as [|a l IH]; [intros []|]. destruct l as [|b l].
  - intros [H|[]]. exists a. split; [left; reflexivity | left; symmetry; assumption].
  - rewrite with_commas_cons2. intros [H|H].
    + exists a. split; [left; reflexivity | right; symmetry; assumption].
    + destruct (IH H) as [y [Hy Hx]]. exists y. split; [right; assumption | assumption].
Qed.

Lemma fixed_item_lines_ok lines :
  lines <> [] -> (forall x, In x lines -> line_facts x) ->
  fixed_item_lines (join nl lines) = lines.
Proof.
  intros Hne H. unfold fixed_item_lines.
  change (nth 0%nat c_sm_comment_char " "%char) with "#"%char.
  unfold nl at 1. rewrite split_join.
  - rewrite (filter_all (fun l => negb (str_eqb (strip l) []))).
    + rewrite map_id_on by (intros x Hx; apply (lf_strip _ (H x Hx))).
      apply filter_all. intros x Hx. rewrite (lf_nothash _ (H x Hx)). reflexivity.
    + intros x Hx. rewrite (lf_strip _ (H x Hx)). apply negb_true_iff. apply str_eqb_neq.
      apply (lf_nonempty _ (H x Hx)).
  - assumption.
  - apply Forall_forall. intros x Hx. apply (lf_nonl _ (H x Hx)).
Qed.

Lemma first_char_app c a b : a <> [] -> first_char_is c (a ++ b) = first_char_is c a.
Proof. destruct a; [contradiction | reflexivity]. Qed.

Lemma edge_l_app a b : a <> [] -> edge_ok a -> edge_ok (a ++ b).
Proof. destruct a; [contradiction | auto]. Qed.

(** an item of the domain, written down *)
Record item_facts (ns : nsdict) (wf : str -> bool) (it : item) : Prop := {
  itf_lab_noat : nochar "@"%char (show_ref (it_label it)) = true;
  itf_lab_safe : safe (show_ref (it_label it)) = true;
  itf_lab_nospace : nospace (show_ref (it_label it)) = true;
  itf_lab_nonempty : show_ref (it_label it) <> [];
  itf_lab_nocomma : suffixb (Str ",") (show_ref (it_label it)) = false;
  itf_lab_parse : parse_label (pd_of ns) (show_ref (it_label it)) = Ok (clabel ns (it_label it));
  itf_sel : text_facts (show_selector (it_sel it));
  itf_parse : parse_node_selector wf (pd_of ns) (show_selector (it_sel it)) = Ok (csel ns (it_sel it))
}.

Lemma item_facts_of ns p0 wf it :
  wf_ns_facts ns p0 -> ok_item_syn ns wf it = true -> item_facts ns wf it.
Proof.
  intros W H. unfold ok_item_syn in H. apply andb_true_iff in H. destruct H as [Hlab Hsel].
  destruct (ok_label_split _ _ _ Hlab) as [Hr [Hat [_ Hcomma]]].
  destruct (ref_safe _ _ _ _ _ W Hr eq_refl) as [L1 [L2 [L3 _]]].
  destruct (parse_label_ok _ _ _ W Hlab) as [Hp _].
  constructor; auto.
  - apply (selector_text _ _ _ _ W Hsel).
  - apply (parse_selector_ok _ _ _ _ W Hsel).
Qed.

Lemma last_char_snoc c s d : last_char_is c (s ++ [d]) = Ascii.eqb d c.
Proof. unfold last_char_is. rewrite at_idx_last. reflexivity. Qed.

Lemma last_char_suffixb c s : last_char_is c s = suffixb [c] s.
Proof.
  destruct s as [|x s] using rev_ind; [reflexivity|].
  rewrite last_char_snoc. unfold suffixb. rewrite rev_app_distr. cbn. rewrite andb_true_r. apply Ascii.eqb_sym.
Qed.

Lemma last_char_app c a b : b <> [] -> last_char_is c (a ++ b) = last_char_is c b.
Proof. intros H. rewrite !last_char_suffixb. apply suffixb_one_app. assumption. Qed.

Lemma show_item_line ns wf it tail :
  item_facts ns wf it -> (tail = [] \/ tail = Str ",") -> line_facts (show_item it ++ tail).
Proof.
  intros F Ht. pose proof (itf_sel _ _ _ F) as TS. unfold show_item.
  set (sel := show_selector (it_sel it)) in *. set (L := show_ref (it_label it)).
  pose proof (itf_lab_safe _ _ _ F) as SL. pose proof (tf_safe _ TS) as Ss. unfold safe in *. fold L in SL.
  constructor.
  - rewrite !nochar_app, Ss, SL. destruct Ht as [-> | ->]; reflexivity.
  - apply strip_id.
    + rewrite <- !app_assoc. apply edge_l_app; [apply (tf_nonempty _ TS) | apply (tf_edge_l _ TS)].
    + destruct Ht as [-> | ->].
      * rewrite app_nil_r. rewrite app_assoc. apply edge_ok_rev_app;
          [apply (itf_lab_nospace _ _ _ F) | apply (itf_lab_nonempty _ _ _ F)].
      * apply edge_r_snoc. reflexivity.
  - intros E. apply app_eq_nil in E. destruct E as [E _]. apply app_eq_nil in E. destruct E as [E _].
    apply (tf_nonempty _ TS E).
  - rewrite <- !app_assoc. rewrite first_char_app by (apply (tf_nonempty _ TS)). apply (tf_nothash _ TS).
Qed.

Lemma split_item_last a b :
  nochar "@"%char b = true -> split_item (a ++ Str "@" ++ b) = [a; b].
Proof.
  intros H. unfold split_item. rewrite flag_rsplit. change c_sm_item_sep with ["@"%char].
  change (Str "@") with ["@"%char]. cbn [app]. rewrite (rfind_last "@"%char a b H).
  pose proof (len_nonneg a). destruct (len a =? -1)%Z eqn:E; [apply Z.eqb_eq in E; lia|].
  rewrite slice_to_app.
  replace (a ++ "@"%char :: b) with ((a ++ ["@"%char]) ++ b) by (rewrite <- app_assoc; reflexivity).
  replace (len a + len ["@"%char])%Z with (len (a ++ ["@"%char])) by (rewrite len_app; reflexivity).
  rewrite slice_from_app. reflexivity.
Qed.

Lemma parse_fixed_item_ok ns wf it tail :
  item_facts ns wf it -> (tail = [] \/ tail = Str ",") ->
  parse_fixed_item wf (pd_of ns) (show_item it ++ tail) = Ok (citem ns it).
Proof.
  intros F Ht. pose proof (itf_sel _ _ _ F) as TS.
  unfold parse_fixed_item.
  assert (Hrt : remove_trailing_comma (show_item it ++ tail) = show_item it).
  { unfold remove_trailing_comma. change (nth 0%nat c_sm_trailing_char " "%char) with ","%char.
    destruct Ht as [-> | ->].
    - rewrite app_nil_r. unfold show_item. rewrite app_assoc.
      rewrite last_char_app by (apply (itf_lab_nonempty _ _ _ F)).
      rewrite last_char_suffixb. change [","%char] with (Str ","). rewrite (itf_lab_nocomma _ _ _ F). reflexivity.
    - change (Str ",") with [","%char]. rewrite last_char_snoc, slice_to_snoc. reflexivity. }
  rewrite Hrt. unfold show_item.
  rewrite (split_item_last _ _ (itf_lab_noat _ _ _ F)).
  rewrite (strip_nospace _ (itf_lab_nospace _ _ _ F)), (itf_lab_parse _ _ _ F). cbn [bind].
  rewrite (tf_strip _ TS), (itf_parse _ _ _ F). reflexivity.
Qed.

Lemma parse_fixed_lines ns wf its :
  (forall it, In it its -> item_facts ns wf it) ->
  mapM (parse_fixed_item wf (pd_of ns)) (with_commas (map show_item its)) = Ok (map (citem ns) its).
Proof.
  induction its as [|it its IH]; intros H; [reflexivity|].
  destruct its as [|it2 its].
  - cbn [map with_commas mapM].
    rewrite <- (app_nil_r (show_item it)).
    rewrite (parse_fixed_item_ok _ _ _ [] (H it (or_introl eq_refl)) (or_introl eq_refl)). reflexivity.
  - cbn [map]. rewrite with_commas_cons2. cbn [mapM].
    rewrite (parse_fixed_item_ok _ _ _ (Str ",") (H it (or_introl eq_refl)) (or_intror eq_refl)). cbn [bind].
    cbn [map] in IH. rewrite IH by (intros; apply H; right; assumption). reflexivity.
Qed.

Lemma parse_fixed_ok ns p0 wf its :
  wf_ns_facts ns p0 -> (forall it, In it its -> ok_item_syn ns wf it = true) ->
  parse_fixed wf (pd_of ns) (show_fixed its) = Ok (map (citem ns) its).
Proof.
  intros W H. unfold parse_fixed, show_fixed.
  assert (HF : forall it, In it its -> item_facts ns wf it) by (intros; eapply item_facts_of; eauto).
  destruct its as [|it its]; [reflexivity|].
  change [ascii_of_nat 10] with nl. rewrite join_comma_nl.
  rewrite fixed_item_lines_ok.
  - apply parse_fixed_lines. assumption.
  - apply with_commas_nonempty.
  - intros x Hx. apply In_with_commas in Hx. destruct Hx as [y [Hy Hx]].
    apply in_map_iff in Hy. destruct Hy as [it' [<- Hit']].
    destruct Hx as [-> | ->].
    + rewrite <- (app_nil_r (show_item it')). apply (show_item_line ns wf); auto.
    + apply (show_item_line ns wf); auto.
Qed.
