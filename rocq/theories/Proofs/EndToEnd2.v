(** * End-to-end (run-level) lemmas about [Run.run_shapes] / [Run.run_shexc]:
    composition of the per-stage results (P1 for tracker + profiler, the
    shexing-stage libraries, the serialiser) for C04, C12, C13 and C14.

    Index
    - A  [front], [run_shapes_front]: the run as "prefix, front (tracker +
         profiler), shexing"
    - B  tokens: [tune_token_no_sentinel], [shape_name_form],
         [shape_name_tune], [shape_name_prefixize]
    - C  renderability invariant of the shexing stage ([rstmt], [shex_rstmt])
         and totality of [render] ([render_total])
    - D  totality of the shexing stage from an entry-wise token hypothesis
         ([shex_total_entries]); [run_total_tokens], [run_shexc_total_tokens]
    - E  C12 at run level ([run_keys_monotone])
    - F  C13 at run level ([run_shapes_post] and the [rwith_*] updates)
    - G  C14 at run level ([run_direct_unchanged_keep], [..._remove])
    - H  C04: the input predicate [valid_input] discharges D's hypothesis
         ([run_total], [run_shexc_total]); tracker facts ([track_total],
         [track_classes], [track_err]); errors characterised
    - I  the typing constraint survives: no empty shape before the shape-level
         cleaning in all_classes mode for thresholds <= 1 ([run_raw_nonempty]);
         corollaries [run_direct_unchanged_all_classes] (C14),
         [run_total_all_classes] / [run_shexc_total_all_classes] (C04),
         [run_keys_monotone_all_classes] (C12)
    - J  the same with target classes and remove_empty_shapes, for class IRIs
         not starting with '%'/"@" ([class_iris_ok], [run_raw_nonempty_remove]):
         [run_direct_unchanged_valid], [run_total_valid], [run_shexc_total_valid],
         [run_keys_monotone_valid]. *)
From Coq Require Import List Ascii String ZArith NArith Bool Lia Permutation.
From Shexer Require Import Lib.PyStr Lib.Dict Lib.Bin64 Gen.Consts Spec.Rdf Model.Tracker Model.Profiler
  Model.Tokens Model.Freq Model.FreqInst Model.Shexing Model.SerialShexc Model.Run Spec.Counts.
From Shexer Require Import Proofs.DictLemmas Proofs.ProfileChar Proofs.ShexBasics Proofs.ShexLemmas
  Proofs.ShexKeys Proofs.TotalShex Proofs.OptionLemmas Proofs.InverseLemmas Proofs.FreqOrder
  Proofs.Bin64Round Proofs.FreqLaws.
Import ListNotations.

(** ** A. the run in three parts *)

Definition tmode_of (c : rcfg) : tmode :=
  match r_targets c with Some l => TClasses l | None => TAll end.

(** tracker + profiler: everything before the shexing stage *)
Definition front (c : rcfg) (g : graph) : (cprofile * ccounts) + rerr :=
  match track (r_tau c) (tmode_of c) (r_cap c) g with
  | inr _ => inr REAttr
  | inl ins =>
    match profile (pcfg_of c) ins g with
    | inr PEAttr => inr REAttr
    | inr PEType => inr REType
    | inl (P, C, _) => inl (P, C)
    end
  end.

Lemma run_shapes_front fa c thr g :
  run_shapes fa c thr g =
  match full_ns c with
  | None => inr RERandom
  | Some ns =>
    match front c g with
    | inr e => inr e
    | inl (P, C) =>
      match shex fa (scfg_of c ns) thr P C with
      | inr e => inr (rerr_of_s e)
      | inl s => inl (ns, s)
      end
    end
  end.
Proof.
  unfold run_shapes, front, tmode_of. destruct (full_ns c) as [ns|]; [|reflexivity].
  destruct (track _ _ _ g) as [ins|e]; [|reflexivity].
  destruct (profile (pcfg_of c) ins g) as [[[P C] ID]|[|]]; reflexivity.
Qed.

Lemma front_inl c g P C :
  front c g = inl (P, C) ->
  exists ins ID, track (r_tau c) (tmode_of c) (r_cap c) g = inl ins /\
                 profile (pcfg_of c) ins g = inl (P, C, ID).
Proof.
  unfold front. destruct (track _ _ _ g) as [ins|e]; [|discriminate].
  destruct (profile (pcfg_of c) ins g) as [[[P' C'] ID]|[|]] eqn:E; try discriminate.
  intros H; injection H as <- <-. eauto.
Qed.

(** ** B. tokens *)

Definition no_sentinel (s : str) : bool := negb (prefixb c_STARTING_CHAR_FOR_SHAPE_NAME s).

Lemma tune_token_no_sentinel ns k : no_sentinel k = true -> tune_token ns k <> None.
Proof.
  unfold no_sentinel. intros H E. apply tune_token_none_iff in E. destruct E as [E _].
  rewrite E in H. discriminate.
Qed.

Lemma slice_from_1 c s : slice_from (c :: s) 1 = s.
Proof.
  unfold slice_from, norm_idx. replace (1 <? 0)%Z with false by reflexivity.
  assert (H : (1 <= len (c :: s))%Z) by (unfold len; cbn [List.length]; lia).
  rewrite Z.min_l by exact H. reflexivity.
Qed.

Lemma suffixb_spec p s : suffixb p s = true <-> exists r, s = r ++ p.
Proof.
  unfold suffixb. rewrite prefixb_spec. split.
  - intros [r H]. exists (rev r). apply (f_equal (@rev ascii)) in H.
    rewrite rev_involutive, rev_app_distr, rev_involutive in H. exact H.
  - intros [r ->]. exists (rev r). apply rev_app_distr.
Qed.

(** the three forms of a shape label *)
Lemma shape_name_form sns cls :
  (prefixb (Str "@") cls = true /\ shape_name sns cls = cls) \/
  (prefixb (Str "<") cls && suffixb (Str ">") cls = true /\
   shape_name sns cls = c_STARTING_CHAR_FOR_SHAPE_NAME ++ cls) \/
  (exists body, shape_name sns cls = c_STARTING_CHAR_FOR_SHAPE_NAME ++ Str "<" ++ body ++ Str ">").
Proof.
  unfold shape_name. destruct (prefixb (Str "@") cls); [left; auto|]. right.
  destruct (prefixb (Str "<") cls && suffixb (Str ">") cls); [left; auto|]. right.
  cbv zeta.
  match goal with |- exists b, _ ++ _ ++ ?s ++ ?l ++ _ = _ => exists (s ++ l) end.
  rewrite <- app_assoc. reflexivity.
Qed.

Lemma corners_ok body : remove_corners_strict (Str "<" ++ body ++ Str ">") <> None.
Proof.
  unfold remove_corners_strict.
  assert (H1 : prefixb (Str "<") (Str "<" ++ body ++ Str ">") = true)
    by (apply prefixb_spec; eexists; reflexivity).
  assert (H2 : suffixb (Str ">") (Str "<" ++ body ++ Str ">") = true)
    by (apply suffixb_spec; exists (Str "<" ++ body); rewrite <- app_assoc; reflexivity).
  rewrite H1, H2. discriminate.
Qed.

Lemma sentinel_cons s : c_STARTING_CHAR_FOR_SHAPE_NAME ++ s = "%"%char :: s.
Proof. reflexivity. Qed.

(** a shape label is always a renderable token *)
Lemma shape_name_tune ns sns cls : tune_token ns (shape_name sns cls) <> None.
Proof.
  intros E. apply tune_token_none_iff in E. destruct E as [E1 E2].
  destruct (shape_name_form sns cls) as [[Ha Hs]|[[Hb Hs]|[body Hs]]]; rewrite Hs in *.
  - apply prefixb_spec in Ha. destruct Ha as [r ->]. cbn in E1. discriminate.
  - rewrite sentinel_cons, slice_from_1 in E2. unfold remove_corners_strict in E2.
    rewrite Hb in E2. discriminate.
  - rewrite sentinel_cons, slice_from_1 in E2. exact (corners_ok body E2).
Qed.

(** ... and is printable as the header of its shape unless the class IRI
    starts with "@" (then the label is the class IRI itself and
    [remove_corners] raises) *)
Lemma prefixize_cornered_some ns t : remove_corners_strict t <> None -> prefixize_cornered ns t <> None.
Proof.
  unfold prefixize_cornered. destruct (remove_corners_strict t) as [cand|]; [|congruence].
  intros _. destruct (best_ns ns cand) as [[n p]|]; discriminate.
Qed.

Lemma shape_name_prefixize ns sns cls :
  prefixb (Str "@") cls = false -> prefixize_shape_name ns (shape_name sns cls) <> None.
Proof.
  intros Hat. unfold prefixize_shape_name. apply prefixize_cornered_some.
  destruct (shape_name_form sns cls) as [[Ha Hs]|[[Hb Hs]|[body Hs]]]; rewrite Hs.
  - congruence.
  - rewrite sentinel_cons, slice_from_1. unfold remove_corners_strict. rewrite Hb. discriminate.
  - rewrite sentinel_cons, slice_from_1. apply corners_ok.
Qed.

Lemma tune_token_empty ns : tune_token ns [] <> None.
Proof. apply tune_token_no_sentinel. reflexivity. Qed.

(** ** C. what the serialiser needs of the shapes, and that the shexing stage
    provides it *)

Section Renderable.
  Variable ns : nsdict.

  Definition tk (k : str) : Prop := tune_token ns k <> None.

  Definition rstmt (s : stmt) : Prop := tk (s_prop s) /\ Forall tk (s_types s).

  Definition rshape (sh : shape) : Prop :=
    prefixize_shape_name ns (sh_name sh) <> None /\ Forall rstmt (sh_stmts sh).

  Lemma rstmt_type s : rstmt s -> tk (s_type s).
  Proof.
    intros [_ H]. unfold s_type. destruct (s_types s) as [|k l]; cbn.
    - apply tune_token_empty.
    - inversion H; assumption.
  Qed.

  Lemma rstmt_sig a b : ShexLemmas.sig a = ShexLemmas.sig b -> rstmt a -> rstmt b.
  Proof. unfold ShexLemmas.sig, rstmt. intros H. injection H as _ -> -> _ _. auto. Qed.

  (** *** the serialiser is total on such shapes *)
  Variable z : sercfg.
  Hypothesis Hz : z_ns z = ns.

  Lemma target_element_some p k : tk k -> exists t, target_element z p k = Some t.
  Proof.
    unfold tk, target_element. rewrite Hz. destruct (tune_token ns k) as [t|]; [|congruence].
    intros _. eexists; reflexivity.
  Qed.

  Lemma all_some_total {A} (l : list (option A)) :
    Forall (fun o => o <> None) l -> exists r, all_some l = Some r.
  Proof.
    induction 1 as [|o l Ho _ [r IH]]; cbn; [eexists; reflexivity|].
    destruct o as [x|]; [|congruence]. rewrite IH. eexists; reflexivity.
  Qed.

  Lemma statement_lines_total cnt s b : rstmt s -> exists r, statement_lines z cnt s b = Some r.
  Proof.
    intros Hs. pose proof (rstmt_type s Hs) as Hty. destruct Hs as [Hp Hts].
    unfold statement_lines. rewrite Hz. unfold tk in Hp.
    destruct (tune_token ns (s_prop s)) as [prop|]; [|congruence].
    destruct (s_choice s).
    - destruct (all_some_total (map (target_element z (s_prop s)) (s_types s))) as [r Hr].
      { apply Forall_forall. intros o Ho. apply in_map_iff in Ho. destruct Ho as [k [<- Hk]].
        rewrite Forall_forall in Hts. destruct (target_element_some (s_prop s) k (Hts k Hk)) as [t ->].
        discriminate. }
      rewrite Hr. eexists; reflexivity.
    - destruct (target_element_some (s_prop s) (s_type s) Hty) as [t ->]. eexists; reflexivity.
  Qed.

  Lemma statements_lines_total cnt l : Forall rstmt l -> exists r, statements_lines z cnt l = Some r.
  Proof.
    induction 1 as [|s l Hs Hl [r IH]]; [eexists; reflexivity|].
    cbn [statements_lines]. destruct l as [|s' l'].
    - apply statement_lines_total; exact Hs.
    - destruct (statement_lines_total cnt s false Hs) as [a ->]. rewrite IH. eexists; reflexivity.
  Qed.

  Lemma shape_lines_total sh a b : rshape sh -> exists r, shape_lines z sh a b = Some r.
  Proof.
    intros [Hn Hs]. unfold shape_lines. rewrite Hz.
    destruct (prefixize_shape_name ns (sh_name sh)) as [name|]; [|congruence].
    destruct (statements_lines_total (sh_n sh) _ Hs) as [body ->]. eexists; reflexivity.
  Qed.

  Theorem render_total l : Forall rshape l -> exists t, render z l = Some t.
  Proof.
    intros H. unfold render, render_lines.
    assert (exists r, shapes_lines z l = Some r) as [r ->]; [|eexists; reflexivity].
    induction H as [|sh l Hsh _ [r IH]]; cbn [shapes_lines]; [eexists; reflexivity|].
    destruct (shape_lines_total sh [] [] Hsh) as [a ->]. rewrite IH. eexists; reflexivity.
  Qed.
End Renderable.

Section RenderableShex.
  Variable fa : FreqAlg.
  Variable cfg : scfg.

  (** every (property, type key) of an entry the class contributes is renderable *)
  Definition entries_ok (ce : str * centry) : Prop :=
    forall d p k ck n, pd_entry (class_pd cfg ce d) p k ck n -> tk (x_ns cfg) p /\ tk (x_ns cfg) k.

  Let Q := rstmt (x_ns cfg).

  Lemma Q_add s k : Q s -> Q (add_comment s k).
  Proof. intros H; exact H. Qed.

  Lemma Q_nonlit b i : Q b -> Q i -> Q (mg_nonlit b i).
  Proof.
    intros [Hb _] _. split; [exact Hb|]. constructor; [|constructor].
    apply tune_token_no_sentinel. reflexivity.
  Qed.

  Lemma Q_choice d tys g : Q d -> Forall Q g -> incl tys (s_type d :: map s_type g) -> Q (mg_choice d tys).
  Proof.
    intros Hd Hg Hi. split; [exact (proj1 Hd)|]. cbn. apply Forall_forall. intros k Hk.
    apply Hi in Hk. destruct Hk as [<-|Hk]; [apply rstmt_type; exact Hd|].
    apply in_map_iff in Hk. destruct Hk as [s [<- Hs]]. apply rstmt_type.
    rewrite Forall_forall in Hg. apply Hg; exact Hs.
  Qed.

  Lemma shex_class_rstmt thr C ce sh :
    entries_ok ce -> shex_class fa cfg thr C ce = inl sh -> Forall Q (sh_stmts sh).
  Proof.
    intros Hok H. destruct (shex_class_unfold fa cfg thr C ce sh H) as (vd & vi & Hd & Hi & Ht & _).
    assert (Hb : forall d, Forall Q (dirl d (ShexKeys.class_sorted fa cfg thr (cnt_of C (fst ce)) ce))).
    { intros d. apply Forall_forall. intros s Hs. apply dirl_In in Hs.
      destruct Hs as (p & k & ck & n & He & _ & ->). destruct (Hok d p k ck n He) as [Hp Hk].
      split; [exact Hp|]. constructor; [exact Hk | constructor]. }
    assert (Hv : Forall Q (vd ++ vi)).
    { apply Forall_app. split.
      - eapply (ShexBasics.select_valid_inv fa cfg Q Q_add Q_nonlit Q_choice); [apply (Hb false) | exact Hd].
      - eapply (ShexBasics.select_valid_inv fa cfg Q Q_add Q_nonlit Q_choice); [apply (Hb true) | exact Hi]. }
    apply tune_sig_perm in Ht. apply Forall_forall. intros t Hin.
    assert (Hs : In (ShexLemmas.sig t) (map ShexLemmas.sig (vd ++ vi))).
    { eapply Permutation_in; [apply Permutation_sym; exact Ht|]. apply in_map; exact Hin. }
    apply in_map_iff in Hs. destruct Hs as [s [Es Hs]]. rewrite Forall_forall in Hv.
    exact (rstmt_sig (x_ns cfg) s t Es (Hv s Hs)).
  Qed.

  Theorem shex_rstmt thr P C shapes :
    (forall ce, In ce P -> entries_ok ce) ->
    shex fa cfg thr P C = inl shapes ->
    forall sh, In sh shapes ->
      Forall Q (sh_stmts sh) /\ exists ce, In ce P /\ sh_name sh = shape_name (x_shapes_ns cfg) (fst ce).
  Proof.
    intros Hok H sh Hsh. split.
    - destruct (shex_unfold fa cfg thr P C shapes H) as [shapes0 [F Hc]].
      assert (G : forall sh0, In sh0 shapes0 -> Forall Q (sh_stmts sh0)).
      { intros sh0 H0. destruct (ShexLemmas.Forall2_In_r _ _ _ _ F H0) as [ce [Hce Hs]].
        exact (shex_class_rstmt thr C ce sh0 (Hok ce Hce) Hs). }
      destruct (x_remove_empty cfg).
      + destruct (clean_shapes_sub _ _ _ Hc sh Hsh) as [sh0 [H0 (_ & _ & _ & Hincl)]].
        specialize (G sh0 H0). rewrite Forall_forall in *. intros t Ht. apply G, Hincl, Ht.
      + subst shapes0. apply G; exact Hsh.
    - destruct (K3 fa cfg thr P C shapes H sh Hsh) as (ce & Hce & Hn & _). eauto.
  Qed.
End RenderableShex.

(** ** D. totality from an entry-wise hypothesis on the tokens *)

Section TotalEntries.
  Variable fa : FreqAlg.
  Variable cfg : scfg.
  Hypothesis Hor : x_disable_or cfg = true.

  Lemma tok_ok_of_ne k : tune_token (x_ns cfg) k <> None -> tok_ok cfg k.
  Proof. unfold tok_ok. destruct (tune_token (x_ns cfg) k) as [t|]; [eauto | congruence]. Qed.

  Lemma shex_class_good_entries thr C ce :
    tokens_ok cfg ce -> exists sh, shex_class fa cfg thr C ce = inl sh /\ shape_good cfg sh.
  Proof.
    intros Hok. unfold shex_class.
    set (cnt := match dget C (fst ce) with Some n => n | None => 0%N end).
    set (direct := base_statements fa thr cnt false (c_direct (snd ce))).
    set (inverse := if x_inverse cfg then base_statements fa thr cnt true (c_inverse (snd ce)) else []).
    assert (Hs : Forall (good cfg) (sort_desc fa cnt (direct ++ inverse))).
    { apply TotalShex.Forall_sort_desc, Forall_app. split.
      - apply base_statements_Forall. intros p m k cd c n H1 H2 H3. split; [reflexivity|]. cbn.
        apply tok_ok_of_ne. apply (Hok false p k c n). exists m, cd. auto.
      - unfold inverse. destruct (x_inverse cfg) eqn:Ei; [|constructor].
        apply base_statements_Forall. intros p m k cd c n H1 H2 H3. split; [reflexivity|]. cbn.
        apply tok_ok_of_ne. apply (Hok true p k c n). unfold class_pd. rewrite Ei. exists m, cd. auto. }
    destruct (select_valid_good fa cfg Hor cnt _ (TotalShex.Forall_filter (good cfg) (fun s => negb (s_inv s)) _ Hs))
      as [vd [Evd Hvd]]. rewrite Evd.
    destruct (select_valid_good fa cfg Hor cnt _ (TotalShex.Forall_filter (good cfg) (fun s => s_inv s) _ Hs))
      as [vi [Evi Hvi]]. rewrite Evi.
    destruct (tune_good fa cfg cnt (vd ++ vi)) as [st [Est Hst]]; [apply Forall_app; split; assumption|].
    rewrite Est. eexists; split; [reflexivity | exact Hst].
  Qed.

  Theorem shex_total_entries thr P C :
    (forall ce, In ce P -> tokens_ok cfg ce) -> exists shapes, shex fa cfg thr P C = inl shapes.
  Proof.
    intros HP. unfold shex.
    destruct (TotalShex.map_err_total (tokens_ok cfg) (shape_good cfg) (shex_class fa cfg thr C) P)
      as [shapes [Es Hs]].
    - intros ce Hce. apply shex_class_good_entries; exact Hce.
    - apply Forall_forall; exact HP.
    - rewrite Es. destruct (x_remove_empty cfg); [|eauto].
      destruct (clean_shapes_good cfg (S (List.length shapes)) shapes Hs) as [r [Er _]]. eauto.
  Qed.
End TotalEntries.

(** the two cases of (iii) together *)
Lemma shex_total_either fa cfg thr P C :
  x_disable_or cfg = true \/ x_remove_empty cfg = false ->
  (forall ce, In ce P -> tokens_ok cfg ce) -> exists shapes, shex fa cfg thr P C = inl shapes.
Proof.
  intros [H|H] Hok; [exact (shex_total_entries fa cfg H thr P C Hok) | exact (ShexKeys.shex_total fa cfg thr P C H Hok)].
Qed.

Lemma entries_ok_tokens_ok cfg ce : entries_ok cfg ce -> tokens_ok cfg ce.
Proof. intros H d p k ck n He. exact (proj2 (H d p k ck n He)). Qed.

(** totality of the run, the tracker/profiler having succeeded with a
    profile all of whose type keys are renderable *)
Theorem run_total_tokens fa c thr g ns ins P C ID :
  r_disable_or c = true \/ r_remove_empty c = false ->
  full_ns c = Some ns ->
  track (r_tau c) (tmode_of c) (r_cap c) g = inl ins ->
  profile (pcfg_of c) ins g = inl (P, C, ID) ->
  (forall ce, In ce P -> tokens_ok (scfg_of c ns) ce) ->
  exists shapes, run_shapes fa c thr g = inl (ns, shapes).
Proof.
  intros Hopt Hns Ht Hp Hok. unfold run_shapes. rewrite Hns. fold (tmode_of c). rewrite Ht, Hp.
  destruct (shex_total_either fa (scfg_of c ns) thr P C Hopt Hok) as [shapes ->]. eauto.
Qed.

Definition zcfg_of (c : rcfg) (ns : nsdict) : sercfg :=
  {| z_ns := ns; z_tau := r_tau c; z_disable_comments := r_disable_comments c; z_mode := r_mode c |}.

(** the text: also the properties must be renderable, and no class key may
    start with "@" *)
Theorem run_shexc_total_tokens fa c thr g ns ins P C ID :
  r_disable_or c = true \/ r_remove_empty c = false ->
  full_ns c = Some ns ->
  track (r_tau c) (tmode_of c) (r_cap c) g = inl ins ->
  profile (pcfg_of c) ins g = inl (P, C, ID) ->
  (forall ce, In ce P -> entries_ok (scfg_of c ns) ce /\ prefixb (Str "@") (fst ce) = false) ->
  exists text, run_shexc fa c thr g = inl text.
Proof.
  intros Hopt Hns Ht Hp Hok.
  destruct (run_total_tokens fa c thr g ns ins P C ID Hopt Hns Ht Hp) as [shapes Hr].
  { intros ce Hce. apply entries_ok_tokens_ok. apply Hok; exact Hce. }
  unfold run_shexc. rewrite Hr.
  assert (Hs : shex fa (scfg_of c ns) thr P C = inl shapes).
  { unfold run_shapes in Hr. rewrite Hns in Hr. fold (tmode_of c) in Hr. rewrite Ht, Hp in Hr.
    destruct (shex fa (scfg_of c ns) thr P C) as [s|e]; [|discriminate]. injection Hr as <-. reflexivity. }
  destruct (render_total ns (zcfg_of c ns) eq_refl shapes) as [t Ht'].
  - apply Forall_forall. intros sh Hsh.
    destruct (shex_rstmt fa (scfg_of c ns) thr P C shapes (fun ce H => proj1 (Hok ce H)) Hs sh Hsh)
      as [Hq (ce & Hce & Hn)].
    split; [|exact Hq]. rewrite Hn. apply shape_name_prefixize. apply Hok; exact Hce.
  - unfold zcfg_of in Ht'. rewrite Ht'. eauto.
Qed.

(** ** E. C12 at run level: the class sizes are in the range of the binary64
    laws as soon as the graph has fewer than 2^53 triples *)

(** total number of class listings of an instance dictionary *)
Definition listings (d : insts) : nat := List.length (List.concat (map snd d)).

Lemma listings_cons k v (d : insts) : listings ((k, v) :: d) = (List.length v + listings d)%nat.
Proof. unfold listings. cbn [map snd List.concat]. apply app_length. Qed.

Lemma listings_dset (d : insts) k v :
  (listings (dset d k v) + match dget d k with Some v0 => List.length v0 | None => 0 end =
   listings d + List.length v)%nat.
Proof.
  induction d as [|[k' v'] d IH]; cbn [dset dget].
  - rewrite listings_cons. unfold listings; cbn. lia.
  - destruct (str_eqb k k'); rewrite !listings_cons; lia.
Qed.

Lemma listings_annot (d : insts) k x : listings (dupd d k [] (fun cs => cs ++ [x])) = S (listings d).
Proof.
  unfold dupd. pose proof (listings_dset d k) as H. destruct (dget d k) as [v0|].
  - specialize (H (v0 ++ [x])). rewrite app_length in H. cbn in H. lia.
  - specialize (H ([] ++ [x])). cbn in H. cbn. lia.
Qed.

Lemma track_plain_listings tau m g : forall d d',
  track_plain tau m g d = inl d' -> (listings d' <= listings d + List.length g)%nat.
Proof.
  induction g as [|t g IH]; intros d d' H; cbn [track_plain] in H.
  - injection H as <-. lia.
  - cbn [List.length]. destruct (relevant tau m t).
    + unfold annotate in H. destruct (to t) as [o|? ?]; [|discriminate].
      apply IH in H. rewrite listings_annot in H. lia.
    + apply IH in H. lia.
Qed.

Lemma track_cap_listings tau m cap nt g : forall d st d',
  track_cap tau m cap nt g d st = inl d' -> (listings d' <= listings d + List.length g)%nat.
Proof.
  induction g as [|t g IH]; intros d st d' H; cbn [track_cap] in H.
  - injection H as <-. lia.
  - cbn [List.length]. destruct (relevant tau m t); [|apply IH in H; lia].
    destruct (cap_allows tau cap st t) as [[|]|]; [| |discriminate].
    + destruct (to t) as [o|? ?]; [|discriminate].
      destruct nt as [n|].
      * match type of H with (if ?b then _ else _) = _ => destruct b end.
        -- injection H as <-. rewrite listings_annot. lia.
        -- apply IH in H. rewrite listings_annot in H. lia.
      * apply IH in H. rewrite listings_annot in H. lia.
    + apply IH in H. lia.
Qed.

Lemma track_listings tau m cap g ins :
  track tau m cap g = inl ins -> (listings ins <= List.length g)%nat.
Proof.
  unfold track. destruct (cap <=? 0)%Z; intros H.
  - apply track_plain_listings in H. exact H.
  - apply track_cap_listings in H. exact H.
Qed.

Lemma count_str_le_length k l : (count_str k l <= N.of_nat (List.length l))%N.
Proof.
  induction l as [|x l IH]; cbn [count_str List.length]; [lia|].
  destruct (str_eqb k x); lia.
Qed.

Lemma class_count_le_graph tau m cap g ins c :
  track tau m cap g = inl ins -> (class_count ins c <= N.of_nat (List.length g))%N.
Proof.
  intros H. apply track_listings in H. rewrite class_count_concat.
  pose proof (count_str_le_length c (List.concat (map snd ins))) as H1. unfold listings in H. lia.
Qed.

(** what the profile holds for the classes that have an entry *)
Lemma front_entry_count c g ns P C :
  front c g = inl (P, C) ->
  forall ce inv p k ck n, In ce P -> pd_entry (class_pd (scfg_of c ns) ce inv) p k ck n ->
  (0 < cnt_of C (fst ce) <= N.of_nat (List.length g))%N /\ (n <= cnt_of C (fst ce))%N.
Proof.
  intros Hf ce inv p k ck n Hce He.
  destruct (front_inl c g P C Hf) as (ins & ID & Ht & Hp).
  destruct (track_insts_ok _ _ _ _ _ Ht) as [ND _].
  destruct (profile_final_char (pcfg_of c) ins g P C ID ND Hp)
    as (_ & _ & (ks & Hks & _) & _ & HC & Hent).
  destruct ce as [cl e]. destruct (Hent cl e Hce) as (Hget & Hdir & Hinv & _). cbn [fst] in *.
  assert (Hcl : In cl (class_keys (targets_of (pcfg_of c)) ins)).
  { assert (In cl (dkeys P)) as H by (apply in_map_iff; exists (cl, e); auto).
    rewrite Hks in H. apply filter_In in H. apply H. }
  unfold cnt_of. rewrite (HC cl Hcl).
  assert (Hn : exists dir, n = occ dir (r_tau c) ins g cl p k ck /\ (0 < n)%N).
  { destruct He as (kd & cd & H1 & H2 & H3). unfold class_pd in H1. cbn [x_inverse scfg_of snd] in H1.
    destruct inv.
    - destruct (r_inverse c) eqn:Ei; [|destruct H1].
      exists Inverse. exact (Hinv Ei p kd k cd ck n H1 H2 H3).
    - exists Direct. exact (Hdir p kd k cd ck n H1 H2 H3). }
  destruct Hn as [dir [En Hpos]].
  pose proof (occ_le_class_count dir (r_tau c) ins g cl p k ck) as Hle. rewrite <- En in Hle.
  pose proof (class_count_le_graph _ _ _ _ _ cl Ht) as Hg. lia.
Qed.

Lemma front_counts_ok c g ns P C :
  front c g = inl (P, C) -> (N.of_nat (List.length g) < 2 ^ 53)%N ->
  counts_ok (scfg_of c ns) okN53 P C.
Proof.
  intros Hf Hg ce inv p k ck n Hce He.
  destruct (front_entry_count c g ns P C Hf ce inv p k ck n Hce He) as [H _]. unfold okN53. lia.
Qed.

Definition keys_shrink (cfg : scfg) (sh1 sh2 : shape) : Prop :=
  sh_name sh1 = sh_name sh2 /\ sh_class sh1 = sh_class sh2 /\ sh_n sh1 = sh_n sh2 /\
  incl (map (skey cfg) (sh_stmts sh2)) (map (skey cfg) (sh_stmts sh1)).

Theorem run_keys_monotone c thr1 thr2 g ns1 s1 ns2 s2 :
  r_remove_empty c = false -> wf_frac thr1 -> wf_frac thr2 -> fle BAlg thr1 thr2 = true ->
  (N.of_nat (List.length g) < 2 ^ 53)%N ->
  run_shapes BAlg c thr1 g = inl (ns1, s1) -> run_shapes BAlg c thr2 g = inl (ns2, s2) ->
  ns1 = ns2 /\ Forall2 (keys_shrink (scfg_of c ns1)) s1 s2.
Proof.
  intros Hre W1 W2 Hle Hg R1 R2. rewrite run_shapes_front in R1, R2.
  destruct (full_ns c) as [ns|]; [|discriminate].
  destruct (front c g) as [[P C]|e] eqn:Hf; [|discriminate].
  destruct (shex BAlg (scfg_of c ns) thr1 P C) as [l1|e1] eqn:E1; [|discriminate].
  destruct (shex BAlg (scfg_of c ns) thr2 P C) as [l2|e2] eqn:E2; [|discriminate].
  injection R1 as <- <-. injection R2 as <- <-. split; [reflexivity|].
  exact (K2_keep BAlg (scfg_of c ns) wf_frac okN53
           (fun n d H => ratio_wf _ _ _ BAlg_laws n d H) (fle_trans _ _ _ BAlg_laws)
           thr1 thr2 P C l1 l2 Hre W1 W2 (front_counts_ok c g ns P C Hf Hg) Hle E1 E2).
Qed.

(** the same for the exact algebra (no bound on the graph) *)
Theorem run_keys_monotone_exact c thr1 thr2 g ns1 s1 ns2 s2 :
  r_remove_empty c = false -> wf_frac thr1 -> wf_frac thr2 -> fle QAlg thr1 thr2 = true ->
  run_shapes QAlg c thr1 g = inl (ns1, s1) -> run_shapes QAlg c thr2 g = inl (ns2, s2) ->
  ns1 = ns2 /\ Forall2 (keys_shrink (scfg_of c ns1)) s1 s2.
Proof.
  intros Hre W1 W2 Hle R1 R2. rewrite run_shapes_front in R1, R2.
  destruct (full_ns c) as [ns|]; [|discriminate].
  destruct (front c g) as [[P C]|e] eqn:Hf; [|discriminate].
  destruct (shex QAlg (scfg_of c ns) thr1 P C) as [l1|e1] eqn:E1; [|discriminate].
  destruct (shex QAlg (scfg_of c ns) thr2 P C) as [l2|e2] eqn:E2; [|discriminate].
  injection R1 as <- <-. injection R2 as <- <-. split; [reflexivity|].
  refine (K2_keep QAlg (scfg_of c ns) wf_frac (fun d => 0 < d)%N
           (fun n d H => ratio_wf _ _ _ QAlg_laws n d H) (fle_trans _ _ _ QAlg_laws)
           thr1 thr2 P C l1 l2 Hre W1 W2 _ Hle E1 E2).
  intros ce inv p k ck n Hce He.
  destruct (front_entry_count c g ns P C Hf ce inv p k ck n Hce He) as [H _]. lia.
Qed.

(** ** F. C13 at run level: the options of the shexing stage are read by
    [shex] only (through [scfg_of]); prefix choice, tracker and profiler
    ignore them *)

(** two configurations that agree on everything read before the shexing stage *)
Definition front_agree (c1 c2 : rcfg) : Prop :=
  r_tau c1 = r_tau c2 /\ r_targets c1 = r_targets c2 /\ r_ns c1 = r_ns c2 /\
  r_shapes_ns c1 = r_shapes_ns c2 /\ r_cap c1 = r_cap c2 /\ r_inverse c1 = r_inverse c2 /\
  r_remove_empty c1 = r_remove_empty c2.

Lemma front_agree_eq c1 c2 g : front_agree c1 c2 -> full_ns c1 = full_ns c2 /\ front c1 g = front c2 g.
Proof.
  destruct c1, c2. unfold front_agree, full_ns, front, tmode_of, pcfg_of. cbn.
  intros (-> & -> & -> & -> & -> & -> & ->). split; reflexivity.
Qed.

(** generic: a relation between the two shexing stages lifts to the runs *)
Lemma run_shapes_rel fa c1 c2 thr g (R : list shape -> list shape -> Prop) :
  front_agree c1 c2 ->
  (forall ns P C, res_rel R (shex fa (scfg_of c1 ns) thr P C) (shex fa (scfg_of c2 ns) thr P C)) ->
  res_rel (fun x y => fst x = fst y /\ R (snd x) (snd y)) (run_shapes fa c1 thr g) (run_shapes fa c2 thr g).
Proof.
  intros Ha Hs. destruct (front_agree_eq c1 c2 g Ha) as [E1 E2].
  rewrite !run_shapes_front, E1, E2.
  destruct (full_ns c2) as [ns|]; [|reflexivity].
  destruct (front c2 g) as [[P C]|e]; [|reflexivity].
  specialize (Hs ns P C).
  destruct (shex fa (scfg_of c1 ns) thr P C), (shex fa (scfg_of c2 ns) thr P C); cbn in *;
    [auto | contradiction | contradiction | congruence].
Qed.

(** generic: an equation [shex1 = map_res f shex2] lifts to the runs *)
Definition on_shapes (f : list shape -> list shape) (x : nsdict * list shape) : nsdict * list shape :=
  let '(ns, l) := x in (ns, f l).

Lemma run_shapes_post fa c1 c2 thr g (f : list shape -> list shape) :
  front_agree c1 c2 ->
  (forall ns P C, shex fa (scfg_of c1 ns) thr P C = map_res f (shex fa (scfg_of c2 ns) thr P C)) ->
  run_shapes fa c1 thr g = map_res (on_shapes f) (run_shapes fa c2 thr g).
Proof.
  intros Ha Hs. destruct (front_agree_eq c1 c2 g Ha) as [E1 E2].
  rewrite !run_shapes_front, E1, E2.
  destruct (full_ns c2) as [ns|]; [|reflexivity].
  destruct (front c2 g) as [[P C]|e]; [|reflexivity].
  rewrite (Hs ns P C). destruct (shex fa (scfg_of c2 ns) thr P C); reflexivity.
Qed.

(** one-field updates of the run configuration *)
Definition rwith_disable_comments (b : bool) (c : rcfg) : rcfg :=
  {| r_tau := r_tau c; r_targets := r_targets c; r_ns := r_ns c; r_shapes_ns := r_shapes_ns c;
     r_cap := r_cap c; r_inverse := r_inverse c; r_remove_empty := r_remove_empty c;
     r_discard_useless := r_discard_useless c; r_keep_less_specific := r_keep_less_specific c;
     r_all_compliant := r_all_compliant c; r_disable_or := r_disable_or c;
     r_allow_redundant_or := r_allow_redundant_or c; r_allow_opt := r_allow_opt c;
     r_disable_exact := r_disable_exact c; r_disable_comments := b; r_mode := r_mode c |}.

Definition rwith_allow_opt (b : bool) (c : rcfg) : rcfg :=
  {| r_tau := r_tau c; r_targets := r_targets c; r_ns := r_ns c; r_shapes_ns := r_shapes_ns c;
     r_cap := r_cap c; r_inverse := r_inverse c; r_remove_empty := r_remove_empty c;
     r_discard_useless := r_discard_useless c; r_keep_less_specific := r_keep_less_specific c;
     r_all_compliant := r_all_compliant c; r_disable_or := r_disable_or c;
     r_allow_redundant_or := r_allow_redundant_or c; r_allow_opt := b;
     r_disable_exact := r_disable_exact c; r_disable_comments := r_disable_comments c; r_mode := r_mode c |}.

Definition rwith_disable_exact (b : bool) (c : rcfg) : rcfg :=
  {| r_tau := r_tau c; r_targets := r_targets c; r_ns := r_ns c; r_shapes_ns := r_shapes_ns c;
     r_cap := r_cap c; r_inverse := r_inverse c; r_remove_empty := r_remove_empty c;
     r_discard_useless := r_discard_useless c; r_keep_less_specific := r_keep_less_specific c;
     r_all_compliant := r_all_compliant c; r_disable_or := r_disable_or c;
     r_allow_redundant_or := r_allow_redundant_or c; r_allow_opt := r_allow_opt c;
     r_disable_exact := b; r_disable_comments := r_disable_comments c; r_mode := r_mode c |}.

Definition rwith_all_compliant (b : bool) (c : rcfg) : rcfg :=
  {| r_tau := r_tau c; r_targets := r_targets c; r_ns := r_ns c; r_shapes_ns := r_shapes_ns c;
     r_cap := r_cap c; r_inverse := r_inverse c; r_remove_empty := r_remove_empty c;
     r_discard_useless := r_discard_useless c; r_keep_less_specific := r_keep_less_specific c;
     r_all_compliant := b; r_disable_or := r_disable_or c;
     r_allow_redundant_or := r_allow_redundant_or c; r_allow_opt := r_allow_opt c;
     r_disable_exact := r_disable_exact c; r_disable_comments := r_disable_comments c; r_mode := r_mode c |}.

Definition rwith_disable_or (b : bool) (c : rcfg) : rcfg :=
  {| r_tau := r_tau c; r_targets := r_targets c; r_ns := r_ns c; r_shapes_ns := r_shapes_ns c;
     r_cap := r_cap c; r_inverse := r_inverse c; r_remove_empty := r_remove_empty c;
     r_discard_useless := r_discard_useless c; r_keep_less_specific := r_keep_less_specific c;
     r_all_compliant := r_all_compliant c; r_disable_or := b;
     r_allow_redundant_or := r_allow_redundant_or c; r_allow_opt := r_allow_opt c;
     r_disable_exact := r_disable_exact c; r_disable_comments := r_disable_comments c; r_mode := r_mode c |}.

Definition rwith_inverse (b : bool) (c : rcfg) : rcfg :=
  {| r_tau := r_tau c; r_targets := r_targets c; r_ns := r_ns c; r_shapes_ns := r_shapes_ns c;
     r_cap := r_cap c; r_inverse := b; r_remove_empty := r_remove_empty c;
     r_discard_useless := r_discard_useless c; r_keep_less_specific := r_keep_less_specific c;
     r_all_compliant := r_all_compliant c; r_disable_or := r_disable_or c;
     r_allow_redundant_or := r_allow_redundant_or c; r_allow_opt := r_allow_opt c;
     r_disable_exact := r_disable_exact c; r_disable_comments := r_disable_comments c; r_mode := r_mode c |}.

Ltac fagree := unfold front_agree; cbn; repeat split; reflexivity.

(** O1 *)
Theorem run_disable_comments fa c thr g :
  run_shapes fa (rwith_disable_comments true c) thr g =
  map_res (on_shapes (map_shapes drop_comments)) (run_shapes fa (rwith_disable_comments false c) thr g).
Proof.
  apply run_shapes_post; [fagree|]. intros ns P C.
  exact (O1_disable_comments fa (scfg_of c ns) thr P C).
Qed.

(** O2 *)
Theorem run_allow_opt fa c thr g :
  run_shapes fa (rwith_allow_opt false c) thr g =
  map_res (on_shapes (map_shapes opt_to_star)) (run_shapes fa (rwith_allow_opt true c) thr g).
Proof.
  apply run_shapes_post; [fagree|]. intros ns P C.
  exact (O2_allow_opt fa (scfg_of c ns) thr P C).
Qed.

(** O3 *)
Theorem run_disable_exact fa c thr g :
  run_shapes fa (rwith_disable_exact true c) thr g =
  map_res (on_shapes (map_shapes generalize_exact)) (run_shapes fa (rwith_disable_exact false c) thr g).
Proof.
  apply run_shapes_post; [fagree|]. intros ns P C.
  exact (O3_disable_exact fa (scfg_of c ns) thr P C).
Qed.

(** O4, on its domain *)
Definition rO4_dom (c : rcfg) : Prop := r_disable_exact c = false \/ r_disable_comments c = true.

Theorem run_all_compliant fa c thr g ns L1 :
  rO4_dom c ->
  run_shapes fa (rwith_all_compliant true c) thr g = inl (ns, L1) ->
  exists L0, run_shapes fa (rwith_all_compliant false c) thr g = inl (ns, L0) /\
             map_err (relax_shape fa (scfg_of c ns)) L0 = inl L1.
Proof.
  intros Hd H. rewrite run_shapes_front in *.
  change (full_ns (rwith_all_compliant true c)) with (full_ns c) in H.
  change (full_ns (rwith_all_compliant false c)) with (full_ns c).
  change (front (rwith_all_compliant true c) g) with (front c g) in H.
  change (front (rwith_all_compliant false c) g) with (front c g).
  destruct (full_ns c) as [ns0|]; [|discriminate].
  destruct (front c g) as [[P C]|e]; [|discriminate].
  change (scfg_of (rwith_all_compliant true c) ns0) with (with_all_compliant true (scfg_of c ns0)) in H.
  change (scfg_of (rwith_all_compliant false c) ns0) with (with_all_compliant false (scfg_of c ns0)).
  destruct (shex fa (with_all_compliant true (scfg_of c ns0)) thr P C) as [l|e] eqn:E; [|discriminate].
  injection H as <- <-.
  destruct (O4_all_compliant fa (scfg_of c ns0) thr P C l Hd E) as [L0 [E0 Hm]].
  exists L0. rewrite E0. auto.
Qed.

Theorem run_all_compliant_failure_mono fa c thr g e :
  rO4_dom c ->
  run_shapes fa (rwith_all_compliant false c) thr g = inr e ->
  exists e', run_shapes fa (rwith_all_compliant true c) thr g = inr e'.
Proof.
  intros Hd H. rewrite run_shapes_front in *.
  change (full_ns (rwith_all_compliant false c)) with (full_ns c) in H.
  change (full_ns (rwith_all_compliant true c)) with (full_ns c).
  change (front (rwith_all_compliant false c) g) with (front c g) in H.
  change (front (rwith_all_compliant true c) g) with (front c g).
  destruct (full_ns c) as [ns0|]; [|eauto].
  destruct (front c g) as [[P C]|e0]; [|eauto].
  change (scfg_of (rwith_all_compliant false c) ns0) with (with_all_compliant false (scfg_of c ns0)) in H.
  change (scfg_of (rwith_all_compliant true c) ns0) with (with_all_compliant true (scfg_of c ns0)).
  destruct (shex fa (with_all_compliant false (scfg_of c ns0)) thr P C) as [l|e1] eqn:E; [discriminate|].
  destruct (O4_failure_mono fa (scfg_of c ns0) thr P C e1 Hd E) as [e' ->]. eauto.
Qed.

(** O5: when both runs succeed *)
Theorem run_disable_or fa c thr g ns_t L_t ns_f L_f :
  run_shapes fa (rwith_disable_or true c) thr g = inl (ns_t, L_t) ->
  run_shapes fa (rwith_disable_or false c) thr g = inl (ns_f, L_f) ->
  ns_t = ns_f /\ Forall2 (shape_rel (fun _ => or_rel)) L_t L_f.
Proof.
  intros H1 H2. rewrite run_shapes_front in *.
  change (full_ns (rwith_disable_or true c)) with (full_ns c) in H1.
  change (full_ns (rwith_disable_or false c)) with (full_ns c) in H2.
  change (front (rwith_disable_or true c) g) with (front c g) in H1.
  change (front (rwith_disable_or false c) g) with (front c g) in H2.
  destruct (full_ns c) as [ns0|]; [|discriminate].
  destruct (front c g) as [[P C]|e]; [|discriminate].
  change (scfg_of (rwith_disable_or true c) ns0) with (with_disable_or true (scfg_of c ns0)) in H1.
  change (scfg_of (rwith_disable_or false c) ns0) with (with_disable_or false (scfg_of c ns0)) in H2.
  destruct (shex fa (with_disable_or true (scfg_of c ns0)) thr P C) as [lt|] eqn:E1; [|discriminate].
  destruct (shex fa (with_disable_or false (scfg_of c ns0)) thr P C) as [lf|] eqn:E2; [|discriminate].
  injection H1 as <- <-. injection H2 as <- <-. split; [reflexivity|].
  exact (O5_disable_or fa (scfg_of c ns0) thr P C lt lf E1 E2).
Qed.

(** ** G. C14 at run level: switching inverse paths on leaves the direct part
    of every shape untouched *)

(** the front without inverse paths is the stripped front with them (P1, for
    the tracker's own instance dictionary: no side condition, cleaning included) *)
Lemma front_inverse_flag c g :
  front (rwith_inverse false c) g =
  match front (rwith_inverse true c) g with
  | inl (P, C) => inl (dmapv strip_c P, C)
  | inr e => inr e
  end.
Proof.
  unfold front.
  change (track (r_tau (rwith_inverse false c)) (tmode_of (rwith_inverse false c)) (r_cap (rwith_inverse false c)) g)
    with (track (r_tau c) (tmode_of c) (r_cap c) g).
  change (track (r_tau (rwith_inverse true c)) (tmode_of (rwith_inverse true c)) (r_cap (rwith_inverse true c)) g)
    with (track (r_tau c) (tmode_of c) (r_cap c) g).
  destruct (track (r_tau c) (tmode_of c) (r_cap c) g) as [ins|e] eqn:Ht; [|reflexivity].
  change (pcfg_of (rwith_inverse false c)) with (set_inverse (pcfg_of c) false).
  change (pcfg_of (rwith_inverse true c)) with (set_inverse (pcfg_of c) true).
  rewrite (profile_inverse_flag_tracked (pcfg_of c) (tmode_of c) (r_cap c) g ins Ht).
  destruct (profile (set_inverse (pcfg_of c) true) ins g) as [[[P C] ID]|[|]]; reflexivity.
Qed.

(** without inverse paths the inverse component of a class entry is not read *)
Lemma shex_class_strip fa cfg thr C ce :
  x_inverse cfg = false ->
  shex_class fa cfg thr C (fst ce, strip_c (snd ce)) = shex_class fa cfg thr C ce.
Proof. intros H. unfold shex_class. cbn [fst snd strip_c c_direct]. rewrite H. reflexivity. Qed.

Lemma map_err_shex_class_strip fa cfg thr C P :
  x_inverse cfg = false ->
  map_err (shex_class fa cfg thr C) (dmapv strip_c P) = map_err (shex_class fa cfg thr C) P.
Proof.
  intros H. unfold dmapv. rewrite map_err_map. apply map_err_ext. intros ce _.
  apply shex_class_strip; exact H.
Qed.

Lemma shex_strip fa cfg thr C P :
  x_inverse cfg = false -> shex fa cfg thr (dmapv strip_c P) C = shex fa cfg thr P C.
Proof. intros H. unfold shex. rewrite map_err_shex_class_strip by exact H. reflexivity. Qed.

(** the relation between a shape of the run with inverse paths and the shape
    of the run without *)
Definition direct_part (sh_t sh_f : shape) : Prop :=
  sh_name sh_t = sh_name sh_f /\ sh_class sh_t = sh_class sh_f /\ sh_n sh_t = sh_n sh_f /\
  filter is_direct (sh_stmts sh_t) = sh_stmts sh_f.

Lemma classes_direct_part fa cfg thr C P Lt :
  (forall ce, In ce P -> order_at fa (class_cnt C ce)) ->
  map_err (shex_class fa (with_inverse true cfg) thr C) P = inl Lt ->
  exists Lf, map_err (shex_class fa (with_inverse false cfg) thr C) P = inl Lf /\
             Forall2 direct_part Lt Lf.
Proof.
  revert Lt. induction P as [|ce P IH]; intros Lt Hord H; cbn [map_err] in *.
  - injection H as <-. exists []. split; [reflexivity | constructor].
  - destruct (shex_class fa (with_inverse true cfg) thr C ce) as [sh_t|e] eqn:Ec; [|discriminate].
    destruct (map_err (shex_class fa (with_inverse true cfg) thr C) P) as [Lt'|e] eqn:Em; [|discriminate].
    injection H as <-.
    destruct (I1_direct_untouched fa cfg thr C ce (Hord ce (or_introl eq_refl)) sh_t Ec)
      as (sh_f & Ef & H1 & H2 & H3 & H4).
    destruct (IH Lt' (fun ce' H' => Hord ce' (or_intror H')) eq_refl) as (Lf' & Ef' & HF).
    rewrite Ef, Ef'. eexists. split; [reflexivity|]. constructor; [|exact HF].
    unfold direct_part. auto.
Qed.

Lemma empty_names_nil l : Forall (fun sh => sh_stmts sh <> []) l -> empty_names l = [].
Proof.
  intros H. unfold empty_names.
  rewrite (InverseLemmas.filter_all_false _ l); [reflexivity|].
  eapply Forall_impl; [|exact H]. intros sh Hs. cbn beta. destruct (sh_stmts sh) eqn:E; [congruence | reflexivity].
Qed.

Lemma clean_shapes_id fuel l : Forall (fun sh => sh_stmts sh <> []) l -> clean_shapes fuel l = inl l.
Proof. intros H. destruct fuel; cbn [clean_shapes]; [reflexivity|]. rewrite (empty_names_nil l H). reflexivity. Qed.

Lemma direct_part_nonempty Lt Lf :
  Forall2 direct_part Lt Lf -> Forall (fun sh => sh_stmts sh <> []) Lf -> Forall (fun sh => sh_stmts sh <> []) Lt.
Proof.
  induction 1 as [|a b Lt Lf (_ & _ & _ & Hab) _ IH]; intros H; [constructor|].
  inversion H as [|? ? Hb Hl]; subst. constructor; [|apply IH; exact Hl].
  intros E. rewrite E in Hab. cbn in Hab. congruence.
Qed.

(** the shapes before [_clean_empty_shapes] *)
Definition run_raw (fa : FreqAlg) (c : rcfg) (thr : F fa) (g : graph) : (nsdict * list shape) + rerr :=
  match full_ns c with
  | None => inr RERandom
  | Some ns =>
    match front c g with
    | inr e => inr e
    | inl (P, C) =>
      match map_err (shex_class fa (scfg_of c ns) thr C) P with
      | inr e => inr (rerr_of_s e)
      | inl s => inl (ns, s)
      end
    end
  end.

Lemma run_raw_keep fa c thr g : r_remove_empty c = false -> run_shapes fa c thr g = run_raw fa c thr g.
Proof.
  intros H. rewrite run_shapes_front. unfold run_raw, shex.
  destruct (full_ns c) as [ns|]; [|reflexivity]. destruct (front c g) as [[P C]|e]; [|reflexivity].
  cbn [x_remove_empty scfg_of]. rewrite H.
  destruct (map_err (shex_class fa (scfg_of c ns) thr C) P); reflexivity.
Qed.

(** before the shape-level cleaning, for every frequency algebra on whose
    class sizes [fle] is a total preorder: all of C14's I1 at run level *)
Theorem run_raw_direct_unchanged fa c thr g ns Lt :
  (forall n, order_at fa n) ->
  run_raw fa (rwith_inverse true c) thr g = inl (ns, Lt) ->
  exists Lf, run_raw fa (rwith_inverse false c) thr g = inl (ns, Lf) /\ Forall2 direct_part Lt Lf.
Proof.
  intros Hord H. unfold run_raw in *. rewrite front_inverse_flag.
  change (full_ns (rwith_inverse false c)) with (full_ns c).
  change (full_ns (rwith_inverse true c)) with (full_ns c) in H.
  destruct (full_ns c) as [ns0|]; [|discriminate].
  destruct (front (rwith_inverse true c) g) as [[P C]|e]; [|discriminate].
  change (scfg_of (rwith_inverse true c) ns0) with (with_inverse true (scfg_of c ns0)) in H.
  change (scfg_of (rwith_inverse false c) ns0) with (with_inverse false (scfg_of c ns0)).
  destruct (map_err (shex_class fa (with_inverse true (scfg_of c ns0)) thr C) P) as [l|e] eqn:E; [|discriminate].
  injection H as <- <-.
  destruct (classes_direct_part fa (scfg_of c ns0) thr C P l (fun ce _ => Hord _) E) as (Lf & Ef & HF).
  rewrite map_err_shex_class_strip by reflexivity. rewrite Ef. eauto.
Qed.

(** remove_empty_shapes off: unconditional *)
Theorem run_direct_unchanged_keep fa c thr g ns st :
  (forall n, order_at fa n) ->
  r_remove_empty c = false ->
  run_shapes fa (rwith_inverse true c) thr g = inl (ns, st) ->
  exists sf, run_shapes fa (rwith_inverse false c) thr g = inl (ns, sf) /\ Forall2 direct_part st sf.
Proof.
  intros Hord Hre H. rewrite run_raw_keep in * by exact Hre.
  exact (run_raw_direct_unchanged fa c thr g ns st Hord H).
Qed.

(** any setting of remove_empty_shapes, when no shape of the run without
    inverse paths is empty before the shape-level cleaning (then that cleaning
    is the identity in both runs; the profile-level cleaning is covered by P1
    with no side condition) *)
Theorem run_direct_unchanged_nonempty fa c thr g ns st :
  (forall n, order_at fa n) ->
  (forall ns' L, run_raw fa (rwith_inverse false c) thr g = inl (ns', L) ->
                 Forall (fun sh => sh_stmts sh <> []) L) ->
  run_shapes fa (rwith_inverse true c) thr g = inl (ns, st) ->
  exists sf, run_shapes fa (rwith_inverse false c) thr g = inl (ns, sf) /\ Forall2 direct_part st sf.
Proof.
  intros Hord Hne H. rewrite run_shapes_front in *. rewrite front_inverse_flag.
  unfold run_raw in Hne. rewrite front_inverse_flag in Hne.
  change (full_ns (rwith_inverse false c)) with (full_ns c) in *.
  change (full_ns (rwith_inverse true c)) with (full_ns c) in H.
  destruct (full_ns c) as [ns0|]; [|discriminate].
  destruct (front (rwith_inverse true c) g) as [[P C]|e]; [|discriminate].
  change (scfg_of (rwith_inverse true c) ns0) with (with_inverse true (scfg_of c ns0)) in H.
  change (scfg_of (rwith_inverse false c) ns0) with (with_inverse false (scfg_of c ns0)) in *.
  rewrite shex_strip by reflexivity. rewrite map_err_shex_class_strip in Hne by reflexivity.
  unfold shex in *.
  destruct (map_err (shex_class fa (with_inverse true (scfg_of c ns0)) thr C) P) as [Lt|e] eqn:E; [|discriminate].
  destruct (classes_direct_part fa (scfg_of c ns0) thr C P Lt (fun ce _ => Hord _) E) as (Lf & Ef & HF).
  rewrite Ef in *. specialize (Hne ns0 Lf eq_refl).
  pose proof (direct_part_nonempty Lt Lf HF Hne) as Hnt.
  change (x_remove_empty (with_inverse true (scfg_of c ns0))) with (r_remove_empty c) in H.
  change (x_remove_empty (with_inverse false (scfg_of c ns0))) with (r_remove_empty c).
  destruct (r_remove_empty c).
  - rewrite clean_shapes_id in H by exact Hnt. rewrite clean_shapes_id by exact Hne.
    injection H as <- <-. eauto.
  - injection H as <- <-. eauto.
Qed.

(** ** H. C04: the hypotheses of D from a predicate on the input *)

(** *** the tracker: where the listed classes come from, and when it succeeds *)
Section TrackerClasses.
  Variables (tau : str) (m : tmode) (Gall : graph).

  (** every listing (instance, class) stems from a typing triple of the graph *)
  Definition listing_ok (ie : str * list str) : Prop :=
    forall c, In c (snd ie) ->
      exists t o, In t Gall /\ nid (ts t) = fst ie /\ tp t = tau /\ to t = ON o /\ nid o = c.

  Lemma listing_ok_add (d : insts) t o :
    Forall listing_ok d -> In t Gall -> tp t = tau -> to t = ON o ->
    Forall listing_ok (dupd d (nid (ts t)) [] (fun cs => cs ++ [nid o])).
  Proof.
    intros Hd Ht Hp Ho.
    assert (Hnew : listing_ok (nid (ts t), [nid o])).
    { intros c [<-|[]]. exists t, o. auto. }
    apply Forall_dupd; [exact Hd | |].
    - intros v _ Hv c Hc. cbn [snd fst] in *. apply in_app_or in Hc. destruct Hc as [Hc|Hc].
      + exact (Hv c Hc).
      + exact (Hnew c Hc).
    - intros _. exact Hnew.
  Qed.

  Lemma track_plain_classes g : forall d I,
    (forall t, In t g -> In t Gall) -> Forall listing_ok d ->
    track_plain tau m g d = inl I -> Forall listing_ok I.
  Proof.
    induction g as [|t g IH]; intros d I Hg Hd; cbn [track_plain].
    - intros E. injection E as <-. assumption.
    - assert (Hg' : forall t', In t' g -> In t' Gall) by (intros t' Ht'; apply Hg; right; assumption).
      destruct (relevant tau m t) eqn:Hr; [|apply IH; assumption].
      unfold annotate. destruct (to t) as [o|c dt] eqn:Eo; [|discriminate].
      apply IH; [assumption|].
      apply listing_ok_add; [assumption | apply Hg; left; reflexivity | exact (relevant_tau tau m t Hr) | exact Eo].
  Qed.

  Lemma track_cap_classes cap nt g : forall d st I,
    (forall t, In t g -> In t Gall) -> Forall listing_ok d ->
    track_cap tau m cap nt g d st = inl I -> Forall listing_ok I.
  Proof.
    induction g as [|t g IH]; intros d st I Hg Hd; cbn [track_cap].
    - intros E. injection E as <-. assumption.
    - assert (Hg' : forall t', In t' g -> In t' Gall) by (intros t' Ht'; apply Hg; right; assumption).
      destruct (relevant tau m t) eqn:Hr; [|apply IH; assumption].
      destruct (cap_allows tau cap st t) as [[|]|]; [| apply IH; assumption | discriminate].
      destruct (to t) as [o|c dt] eqn:Eo; [|discriminate].
      assert (Hd' : Forall listing_ok (dupd d (nid (ts t)) [] (fun cs => cs ++ [nid o]))).
      { apply listing_ok_add; [assumption | apply Hg; left; reflexivity | exact (relevant_tau tau m t Hr) | exact Eo]. }
      destruct nt as [n|].
      + destruct (Nat.eqb _ n).
        * intros E. injection E as <-. assumption.
        * apply IH; assumption.
      + apply IH; assumption.
  Qed.
End TrackerClasses.

Theorem track_classes tau m cap g ins :
  track tau m cap g = inl ins -> Forall (listing_ok tau g) ins.
Proof.
  unfold track. destruct (cap <=? 0)%Z.
  - apply (track_plain_classes tau m g g); [auto | constructor].
  - apply (track_cap_classes tau m g); [auto | constructor].
Qed.

(** typing triples have node objects *)
Definition typing_ok (tau : str) (g : graph) : Prop :=
  forall t, In t g -> tp t = tau -> is_node (to t) = true.

Lemma relevant_tp tau m t : str_eqb (tp t) tau = false -> relevant tau m t = false.
Proof. unfold relevant. intros ->. reflexivity. Qed.

Lemma track_plain_total tau m g : forall d,
  typing_ok tau g -> exists I, track_plain tau m g d = inl I.
Proof.
  induction g as [|t g IH]; intros d Hg; cbn [track_plain]; [eauto|].
  assert (Hg' : typing_ok tau g) by (intros t' Ht'; apply Hg; right; assumption).
  destruct (relevant tau m t) eqn:Hr; [|apply IH; assumption].
  pose proof (Hg t (or_introl eq_refl) (relevant_tau tau m t Hr)) as Hn.
  unfold annotate. destruct (to t) as [o|? ?]; [|discriminate]. apply IH; assumption.
Qed.

Lemma track_cap_total tau m cap nt g : forall d st,
  typing_ok tau g -> exists I, track_cap tau m cap nt g d st = inl I.
Proof.
  induction g as [|t g IH]; intros d st Hg; cbn [track_cap]; [eauto|].
  assert (Hg' : typing_ok tau g) by (intros t' Ht'; apply Hg; right; assumption).
  destruct (relevant tau m t) eqn:Hr; [|apply IH; assumption].
  pose proof (relevant_tau tau m t Hr) as Ep. pose proof (Hg t (or_introl eq_refl) Ep) as Hn.
  unfold cap_allows. rewrite (proj2 (str_eqb_eq _ _) Ep). cbn [negb].
  destruct (to t) as [o|? ?]; [|discriminate].
  destruct (dget (cc st) (nid o)) as [n|]; [destruct (Nat.ltb n cap)|]; cbv beta iota;
    try (apply IH; assumption);
    (destruct nt as [nt0|]; [|apply IH; assumption];
     match goal with |- context [if ?b then inl _ else _] => destruct b end; [eauto | apply IH; assumption]).
Qed.

Theorem track_total tau m cap g : typing_ok tau g -> exists I, track tau m cap g = inl I.
Proof.
  intros H. unfold track. destruct (cap <=? 0)%Z; [apply track_plain_total | apply track_cap_total]; exact H.
Qed.

(** ... and conversely the tracker fails only on a typing triple with a literal object *)
Lemma track_plain_err tau m g : forall d e,
  track_plain tau m g d = inr e -> exists t, In t g /\ tp t = tau /\ is_node (to t) = false.
Proof.
  induction g as [|t g IH]; intros d e; cbn [track_plain]; [discriminate|].
  destruct (relevant tau m t) eqn:Hr.
  - unfold annotate. destruct (to t) as [o|? ?] eqn:Eo.
    + intros H. destruct (IH _ _ H) as [t' [H1 H2]]. exists t'. split; [right; exact H1 | exact H2].
    + intros _. exists t. split; [left; reflexivity|]. split; [exact (relevant_tau tau m t Hr) | rewrite Eo; reflexivity].
  - intros H. destruct (IH _ _ H) as [t' [H1 H2]]. exists t'. split; [right; exact H1 | exact H2].
Qed.

Lemma track_err tau m cap g e :
  track tau m cap g = inr e -> exists t, In t g /\ tp t = tau /\ is_node (to t) = false.
Proof.
  intros H. destruct (List.find (fun t => str_eqb (tp t) tau && negb (is_node (to t))) g) as [t|] eqn:Ef.
  - apply find_some in Ef. destruct Ef as [Hin Hb]. apply andb_true_iff in Hb. destruct Hb as [H1 H2].
    exists t. split; [exact Hin|]. split; [apply str_eqb_eq; exact H1 | apply negb_true_iff; exact H2].
  - exfalso. destruct (track_total tau m cap g) as [I HI]; [|congruence].
    intros t Hin Hp. pose proof (find_none _ _ Ef t Hin) as Hn. cbn beta in Hn.
    rewrite Hp, str_eqb_refl in Hn. cbn in Hn. apply negb_false_iff in Hn. exact Hn.
Qed.

(** *** the keys a triple can contribute *)

Definition sentinel_free (tau : str) (t : triple) : bool :=
  no_sentinel (tp t) &&
  match to t with
  | OL _ dt => no_sentinel dt
  | ON o => if str_eqb (tp t) tau then no_sentinel (nid o) && no_sentinel (nid (ts t)) else true
  end.

Lemma tk_shape_labels ns I id k : In k (shape_labels I id) -> tk ns k.
Proof.
  unfold shape_labels. intros H. apply in_map_iff in H. destruct H as [c [<- _]]. apply shape_name_tune.
Qed.

Lemma tk_const ns k : no_sentinel k = true -> tk ns k.
Proof. apply tune_token_no_sentinel. Qed.

Lemma contrib_tk ns dir tau I t i p k :
  sentinel_free tau t = true -> In k (contrib dir tau I t i p) -> tk ns p /\ tk ns k.
Proof.
  unfold sentinel_free. intros Hs Hk. apply andb_true_iff in Hs. destruct Hs as [Hp Ho].
  destruct dir; cbn [contrib] in Hk.
  - destruct (str_eqb (nid (ts t)) i && str_eqb (tp t) p) eqn:E; [|destruct Hk].
    apply andb_true_iff in E. destruct E as [_ E]. apply str_eqb_eq in E. subst p.
    split; [apply tk_const; exact Hp|].
    unfold keys_direct in Hk. destruct (to t) as [o|ct dt].
    + destruct (str_eqb (tp t) tau).
      * apply andb_true_iff in Ho. destruct Ho as [Ho _].
        destruct Hk as [<-|Hk]; [apply tk_const; exact Ho|].
        destruct (_ || _); [exact (tk_shape_labels ns I _ k Hk) | destruct Hk].
      * destruct Hk as [<-|Hk]; [|exact (tk_shape_labels ns I _ k Hk)].
        unfold elem_type. destruct (nk o); apply tk_const; reflexivity.
    + destruct (str_eqb (tp t) tau); [destruct Hk|]. destruct Hk as [<-|[]]. apply tk_const; exact Ho.
  - destruct (to t) as [o|ct dt]; [|destruct Hk].
    destruct (str_eqb (nid o) i && str_eqb (tp t) p) eqn:E; [|destruct Hk].
    apply andb_true_iff in E. destruct E as [_ E]. apply str_eqb_eq in E. subst p.
    split; [apply tk_const; exact Hp|].
    unfold keys_inverse in Hk. destruct (str_eqb (tp t) tau).
    + apply andb_true_iff in Ho. destruct Ho as [_ Ho].
      destruct Hk as [<-|Hk]; [apply tk_const; exact Ho|].
      destruct (str_eqb _ _); [exact (tk_shape_labels ns I _ k Hk) | destruct Hk].
    + destruct Hk as [<-|Hk].
      * unfold elem_type. destruct (nk (ts t)); apply tk_const; reflexivity.
      * destruct (nk (ts t)); [exact (tk_shape_labels ns I _ k Hk) | destruct Hk].
Qed.

Lemma occ_pos_tk ns dir tau I G c p k card :
  forallb (sentinel_free tau) G = true -> (0 < occ dir tau I G c p k card)%N -> tk ns p /\ tk ns k.
Proof.
  intros Hg Hpos.
  destruct (proj1 (occ_pos_iff dir tau I G c p k) (ex_intro _ card Hpos)) as (i & cs & _ & _ & Hc).
  unfold cnt in Hc. apply sumN_pos_ex in Hc. destruct Hc as [x [Hx Hx0]].
  apply in_map_iff in Hx. destruct Hx as [t [<- Ht]].
  rewrite count_in_count_str in Hx0. apply count_str_pos in Hx0.
  rewrite forallb_forall in Hg. exact (contrib_tk ns dir tau I t i p k (Hg t Ht) Hx0).
Qed.

(** *** the front succeeds and its profile is renderable *)

Definition typing_okb (tau : str) (g : graph) : bool :=
  forallb (fun t => negb (str_eqb (tp t) tau) || is_node (to t)) g.

Lemma typing_okb_ok tau g : typing_okb tau g = true <-> typing_ok tau g.
Proof.
  unfold typing_okb, typing_ok. rewrite forallb_forall. split.
  - intros H t Hin Hp. specialize (H t Hin). rewrite Hp, str_eqb_refl in H. exact H.
  - intros H t Hin. destruct (str_eqb (tp t) tau) eqn:E; [|reflexivity].
    apply str_eqb_eq in E. cbn. exact (H t Hin E).
Qed.

Theorem front_total c g :
  typing_ok (r_tau c) g ->
  exists ins P C ID, track (r_tau c) (tmode_of c) (r_cap c) g = inl ins /\
                     profile (pcfg_of c) ins g = inl (P, C, ID).
Proof.
  intros Hty. destruct (track_total (r_tau c) (tmode_of c) (r_cap c) g Hty) as [ins Ht].
  exists ins. destruct (profile (pcfg_of c) ins g) as [[[P C] ID]|e] eqn:Hp; [eauto|].
  exfalso. apply profile_err in Hp. apply annotate_all_err in Hp. destruct Hp as [_ [t [Hin (_ & Hp & Hn)]]].
  cbn [p_tau pcfg_of] in Hp. rewrite (Hty t Hin Hp) in Hn. discriminate.
Qed.

Theorem profile_entries_renderable c g ns ins P C ID :
  forallb (sentinel_free (r_tau c)) g = true ->
  track (r_tau c) (tmode_of c) (r_cap c) g = inl ins ->
  profile (pcfg_of c) ins g = inl (P, C, ID) ->
  forall ce, In ce P -> entries_ok (scfg_of c ns) ce.
Proof.
  intros Hfree Ht Hp ce Hce d p k ck n He.
  destruct (track_insts_ok _ _ _ _ _ Ht) as [ND _].
  destruct (profile_final_char (pcfg_of c) ins g P C ID ND Hp) as (_ & _ & _ & _ & _ & Hent).
  destruct ce as [cl e]. destruct (Hent cl e Hce) as (_ & Hdir & Hinv & _).
  destruct He as (kd & cd & H1 & H2 & H3). unfold class_pd in H1. cbn [x_inverse scfg_of snd x_ns] in *.
  destruct d.
  - destruct (r_inverse c) eqn:Ei; [|destruct H1].
    destruct (Hinv Ei p kd k cd ck n H1 H2 H3) as [En Hpos]. rewrite En in Hpos.
    exact (occ_pos_tk ns Inverse _ ins g cl p k ck Hfree Hpos).
  - destruct (Hdir p kd k cd ck n H1 H2 H3) as [En Hpos]. rewrite En in Hpos.
    exact (occ_pos_tk ns Direct _ ins g cl p k ck Hfree Hpos).
Qed.

(** class keys of the profile: requested targets or objects of typing triples *)
Theorem profile_class_keys c g ins P C ID :
  track (r_tau c) (tmode_of c) (r_cap c) g = inl ins ->
  profile (pcfg_of c) ins g = inl (P, C, ID) ->
  forall ce, In ce P ->
    In (fst ce) (match r_targets c with Some l => l | None => [] end) \/
    exists t o, In t g /\ tp t = r_tau c /\ to t = ON o /\ nid o = fst ce.
Proof.
  intros Ht Hp ce Hce.
  destruct (track_insts_ok _ _ _ _ _ Ht) as [ND _].
  destruct (profile_final_char (pcfg_of c) ins g P C ID ND Hp) as (_ & _ & (ks & Hks & _) & _).
  assert (H : In (fst ce) (dkeys P)) by (apply in_map; exact Hce).
  rewrite Hks in H. apply filter_In in H. destruct H as [H _].
  unfold class_keys in H. rewrite uniq_first_first_occ in H. apply (proj1 (In_first_occ _ _)) in H.
  unfold targets_of in H. cbn [p_targets pcfg_of] in H.
  apply in_app_or in H. destruct H as [H|H]; [left; exact H|]. right.
  apply in_concat in H. destruct H as [cs [Hcs Hc]]. apply in_map_iff in Hcs. destruct Hcs as [[i cs'] [<- Hie]].
  pose proof (track_classes _ _ _ _ _ Ht) as Hall. rewrite Forall_forall in Hall.
  destruct (Hall (i, cs') Hie (fst ce) Hc) as (t & o & H1 & _ & H3 & H4 & H5). eauto 7.
Qed.

(** *** the input predicate *)

Definition options_ok (c : rcfg) : bool := r_disable_or c || negb (r_remove_empty c).

Definition prefix_free (c : rcfg) : bool :=
  match shapes_prefix (r_ns c) with Some _ => true | None => false end.

(** (i) typing triples have node objects, (ii) no sentinel where a token is
    taken from, (iii) disjunctions disabled or empty shapes kept, (iv) a
    priority prefix is free *)
Definition valid_input (c : rcfg) (g : graph) : bool :=
  typing_okb (r_tau c) g && forallb (sentinel_free (r_tau c)) g && options_ok c && prefix_free c.

Definition no_at (s : str) : bool := negb (prefixb (Str "@") s).

(** for the text also: no class IRI (object of a typing triple, requested
    target class) starts with "@" *)
Definition class_iri_ok (tau : str) (t : triple) : bool :=
  negb (str_eqb (tp t) tau) || match to t with ON o => no_at (nid o) | OL _ _ => true end.

Definition valid_input_text (c : rcfg) (g : graph) : bool :=
  valid_input c g && forallb (class_iri_ok (r_tau c)) g &&
  forallb no_at (match r_targets c with Some l => l | None => [] end).

Lemma options_ok_spec c : options_ok c = true -> r_disable_or c = true \/ r_remove_empty c = false.
Proof.
  unfold options_ok. intros H. apply orb_true_iff in H. destruct H as [H|H]; [left; exact H|].
  right. apply negb_true_iff. exact H.
Qed.

Lemma prefix_free_spec c : prefix_free c = true -> exists ns, full_ns c = Some ns.
Proof.
  unfold prefix_free, full_ns. destruct (shapes_prefix (r_ns c)); [eauto | discriminate].
Qed.

Theorem run_total fa c thr g :
  valid_input c g = true -> exists ns shapes, run_shapes fa c thr g = inl (ns, shapes).
Proof.
  unfold valid_input. intros H.
  apply andb_true_iff in H. destruct H as [H H4]. apply andb_true_iff in H. destruct H as [H H3].
  apply andb_true_iff in H. destruct H as [H1 H2].
  apply typing_okb_ok in H1. destruct (prefix_free_spec c H4) as [ns Hns].
  destruct (front_total c g H1) as (ins & P & C & ID & Ht & Hp).
  exists ns. apply (run_total_tokens fa c thr g ns ins P C ID (options_ok_spec c H3) Hns Ht Hp).
  intros ce Hce. apply entries_ok_tokens_ok.
  exact (profile_entries_renderable c g ns ins P C ID H2 Ht Hp ce Hce).
Qed.

Theorem run_shexc_total fa c thr g :
  valid_input_text c g = true -> exists text, run_shexc fa c thr g = inl text.
Proof.
  unfold valid_input_text, valid_input. intros H.
  apply andb_true_iff in H. destruct H as [H H6]. apply andb_true_iff in H. destruct H as [H H5].
  apply andb_true_iff in H. destruct H as [H H4]. apply andb_true_iff in H. destruct H as [H H3].
  apply andb_true_iff in H. destruct H as [H1 H2].
  apply typing_okb_ok in H1. destruct (prefix_free_spec c H4) as [ns Hns].
  destruct (front_total c g H1) as (ins & P & C & ID & Ht & Hp).
  apply (run_shexc_total_tokens fa c thr g ns ins P C ID (options_ok_spec c H3) Hns Ht Hp).
  intros ce Hce. split; [exact (profile_entries_renderable c g ns ins P C ID H2 Ht Hp ce Hce)|].
  destruct (profile_class_keys c g ins P C ID Ht Hp ce Hce) as [Hin|(t & o & Hin & Htp & Hto & Hid)].
  - rewrite forallb_forall in H6. specialize (H6 _ Hin). apply negb_true_iff in H6. exact H6.
  - rewrite forallb_forall in H5. specialize (H5 t Hin). unfold class_iri_ok in H5.
    rewrite Htp, str_eqb_refl, Hto, Hid in H5. cbn in H5. apply negb_true_iff in H5. exact H5.
Qed.

(** *** errors characterised: each error outcome of the run implies that one
    of the four conditions fails *)

Lemma front_err c g e :
  front c g = inr e -> e = REAttr /\ exists t, In t g /\ tp t = r_tau c /\ is_node (to t) = false.
Proof.
  unfold front. destruct (track _ _ _ g) as [ins|te] eqn:Ht.
  - destruct (profile (pcfg_of c) ins g) as [[[P C] ID]|pe] eqn:Hp; [discriminate|].
    apply profile_err in Hp. apply annotate_all_err in Hp.
    destruct Hp as [-> [t [Hin (_ & Hp & Hn)]]]. intros H; injection H as <-.
    split; [reflexivity|]. exists t. auto.
  - intros H; injection H as <-. split; [reflexivity|]. exact (track_err _ _ _ _ _ Ht).
Qed.

Theorem run_errors_characterised fa c thr g e :
  run_shapes fa c thr g = inr e ->
  (e = RERandom /\ shapes_prefix (r_ns c) = None) \/
  (e = REAttr /\ exists t, In t g /\ tp t = r_tau c /\ is_node (to t) = false) \/
  ((exists se, e = rerr_of_s se) /\
   (options_ok c = false \/ forallb (sentinel_free (r_tau c)) g = false)).
Proof.
  intros H. rewrite run_shapes_front in H.
  destruct (full_ns c) as [ns|] eqn:Hns.
  - right. destruct (front c g) as [[P C]|fe] eqn:Hf.
    + right. destruct (front_inl c g P C Hf) as (ins & ID & Ht & Hp).
      destruct (shex fa (scfg_of c ns) thr P C) as [s|se] eqn:Hs; [discriminate|]. injection H as <-.
      split; [eauto|].
      destruct (options_ok c) eqn:Eo; [|left; reflexivity]. right.
      destruct (forallb (sentinel_free (r_tau c)) g) eqn:Es; [|reflexivity]. exfalso.
      destruct (shex_total_either fa (scfg_of c ns) thr P C (options_ok_spec c Eo)) as [s' Hs'];
        [|congruence].
      intros ce Hce. apply entries_ok_tokens_ok.
      exact (profile_entries_renderable c g ns ins P C ID Es Ht Hp ce Hce).
    + left. injection H as <-. exact (front_err c g fe Hf).
  - left. injection H as <-. split; [reflexivity|]. unfold full_ns in Hns.
    destruct (shapes_prefix (r_ns c)); [discriminate | reflexivity].
Qed.

(** the serialiser adds one more: a token it cannot print (ValueError) *)
Theorem run_shexc_errors_characterised fa c thr g e :
  run_shexc fa c thr g = inr e ->
  run_shapes fa c thr g = inr e \/
  (e = REValue /\ exists ns shapes, run_shapes fa c thr g = inl (ns, shapes) /\
                                     render (zcfg_of c ns) shapes = None).
Proof.
  unfold run_shexc. destruct (run_shapes fa c thr g) as [[ns shapes]|e0]; [|intros H; injection H as <-; left; reflexivity].
  fold (zcfg_of c ns). destruct (render (zcfg_of c ns) shapes) eqn:Er; [discriminate|].
  intros H; injection H as <-. right. split; [reflexivity|]. eauto.
Qed.

(** ** I. every class with an instance keeps its typing constraint at any
    threshold <= 1: no shape is empty before the shape-level cleaning *)

(** all instances listed for a class have the class among the values of the
    instantiation property: the count of the typing entry is the class size *)
Lemma occ_typing tau g (ins : insts) cl :
  Forall (listing_ok tau g) ins ->
  occ Direct tau ins g cl tau cl (CKn 1) = class_count ins cl.
Proof.
  intros Hall. unfold occ, class_count. apply sumN_map_ext. intros [i cs] Hin. cbn [fst snd].
  destruct (card_ok tau tau (CKn 1) (cnt Direct tau ins g i tau cl)) eqn:Ec; [reflexivity|].
  rewrite count_in_count_str. symmetry. apply count_str_zero. intros Hcl.
  rewrite Forall_forall in Hall. destruct (Hall (i, cs) Hin cl Hcl) as (t & o & Ht & Hs & Hp & Ho & Hid).
  cbn [fst] in Hs.
  assert (Hpos : (0 < cnt Direct tau ins g i tau cl)%N).
  { apply (cnt_pos_of_In Direct tau ins g i tau cl t Ht). cbn [contrib].
    rewrite Hs, Hp, !str_eqb_refl. cbn [andb]. unfold keys_direct. rewrite Ho, Hp, str_eqb_refl, Hid.
    cbn [count_in]. rewrite str_eqb_refl. lia. }
  unfold card_ok in Ec. rewrite str_eqb_refl in Ec. apply N.ltb_lt in Hpos. rewrite Hpos in Ec.
  cbn in Ec. discriminate.
Qed.

Section TypingConstraint.
  Variable fa : FreqAlg.
  Variables (okN : N -> Prop) (okF : F fa -> Prop).
  Hypothesis L : FreqLaws fa okN okF.

  Lemma fle_ratio_self thr n : okF thr -> okN n -> fle fa thr (fone fa) = true -> fle fa thr (ratio fa n n) = true.
  Proof.
    intros Ht Hn Hle.
    assert (Hr : okF (ratio fa n n)) by (apply (ratio_wf _ _ _ L); exact Hn).
    apply (fle_trans _ _ _ L thr (fone fa) (ratio fa n n)); [exact Ht | apply (fone_ok _ _ _ L) | exact Hr | exact Hle|].
    assert (E : feqb fa (ratio fa n n) (fone fa) = true) by (apply (ratio_one _ _ _ L); [exact Hn | lia | reflexivity]).
    apply (feqb_fle _ _ _ L) in E; [apply E | exact Hr | apply (fone_ok _ _ _ L)].
  Qed.

  (** a class of the profile that has an instance yields a non-empty shape *)
  Lemma shex_class_nonempty c g ns ins P C ID thr cl e sh :
    track (r_tau c) (tmode_of c) (r_cap c) g = inl ins ->
    profile (pcfg_of c) ins g = inl (P, C, ID) ->
    In (cl, e) P -> (0 < class_count ins cl)%N -> okN (class_count ins cl) ->
    okF thr -> fle fa thr (fone fa) = true ->
    shex_class fa (scfg_of c ns) thr C (cl, e) = inl sh -> sh_stmts sh <> [].
  Proof.
    intros Ht Hp Hce Hpos HokN HokF Hle Hs.
    destruct (track_insts_ok _ _ _ _ _ Ht) as [ND _].
    pose proof (track_classes _ _ _ _ _ Ht) as Hall.
    destruct (profile_final_char (pcfg_of c) ins g P C ID ND Hp) as (_ & _ & (ks & Hks & _) & _ & HC & _).
    assert (Hk : In cl (dkeys P)) by (apply in_map_iff; exists (cl, e); auto).
    assert (Hcl : In cl (class_keys (targets_of (pcfg_of c)) ins)).
    { rewrite Hks in Hk. apply filter_In in Hk. apply Hk. }
    destruct (profile_final_complete (pcfg_of c) ins g P C ID ND Hp cl e Hce (r_tau c) cl (fun _ => Hk)) as [Hcomp _].
    cbn [p_tau pcfg_of] in Hcomp. specialize (Hcomp (CKn 1)).
    rewrite (occ_typing (r_tau c) g ins cl Hall) in Hcomp.
    destruct (Hcomp Hpos) as (m & cd & H1 & H2 & H3).
    assert (Hpass : key_passes fa (scfg_of c ns) thr (cnt_of C (fst (cl, e))) (class_pd (scfg_of c ns) (cl, e) false)
                               (r_tau c) (VClass cl)).
    { exists cl, (CKn 1), (class_count ins cl). split; [exists m, cd; auto|]. split.
      - unfold value_class. cbn [x_tau scfg_of]. rewrite str_eqb_refl. reflexivity.
      - cbn [fst]. unfold cnt_of. rewrite (HC cl Hcl). apply fle_ratio_self; assumption. }
    apply (shex_class_keys fa (scfg_of c ns) thr C (cl, e) sh Hs) in Hpass.
    intros E. rewrite E in Hpass. destruct Hpass.
  Qed.
End TypingConstraint.

(** all_classes mode: every class key of the profile has an instance *)
Lemma all_classes_have_instances c g ins P C ID :
  r_targets c = None ->
  track (r_tau c) (tmode_of c) (r_cap c) g = inl ins ->
  profile (pcfg_of c) ins g = inl (P, C, ID) ->
  forall ce, In ce P -> (0 < class_count ins (fst ce))%N.
Proof.
  intros Hnone Ht Hp ce Hce.
  destruct (track_insts_ok _ _ _ _ _ Ht) as [ND _].
  destruct (profile_final_char (pcfg_of c) ins g P C ID ND Hp) as (_ & _ & (ks & Hks & _) & _).
  assert (H : In (fst ce) (dkeys P)) by (apply in_map; exact Hce).
  rewrite Hks in H. apply filter_In in H. destruct H as [H _].
  unfold class_keys in H. rewrite uniq_first_first_occ in H. apply (proj1 (In_first_occ _ _)) in H.
  unfold targets_of in H. cbn [p_targets pcfg_of] in H. rewrite Hnone in H. cbn [app] in H.
  rewrite class_count_concat. apply count_str_pos. exact H.
Qed.

Section NoEmptyShape.
  Variable fa : FreqAlg.
  Variables (okN : N -> Prop) (okF : F fa -> Prop).
  Hypothesis L : FreqLaws fa okN okF.

  Theorem run_raw_nonempty c thr g ns l :
    r_targets c = None -> okF thr -> fle fa thr (fone fa) = true ->
    (forall n, (0 < n <= N.of_nat (List.length g))%N -> okN n) ->
    run_raw fa c thr g = inl (ns, l) -> Forall (fun sh => sh_stmts sh <> []) l.
  Proof.
    intros Hnone HokF Hle HokN H. unfold run_raw in H.
    destruct (full_ns c) as [ns0|]; [|discriminate].
    destruct (front c g) as [[P C]|e] eqn:Hf; [|discriminate].
    destruct (map_err (shex_class fa (scfg_of c ns0) thr C) P) as [l0|e] eqn:Em; [|discriminate].
    injection H as <- <-. apply map_err_Forall2 in Em.
    destruct (front_inl c g P C Hf) as (ins & ID & Ht & Hp).
    apply Forall_forall. intros sh Hsh.
    destruct (ShexBasics.Forall2_In_r _ _ _ _ Em Hsh) as [[cl e] [Hce Hs]].
    pose proof (all_classes_have_instances c g ins P C ID Hnone Ht Hp (cl, e) Hce) as Hpos. cbn [fst] in Hpos.
    apply (shex_class_nonempty fa okN okF L c g ns0 ins P C ID thr cl e sh Ht Hp Hce Hpos); try assumption.
    apply HokN. split; [exact Hpos|]. exact (class_count_le_graph _ _ _ _ _ cl Ht).
  Qed.
End NoEmptyShape.

Lemma okN53_of_graph (g : graph) :
  (N.of_nat (List.length g) < 2 ^ 53)%N -> forall n, (0 < n <= N.of_nat (List.length g))%N -> okN53 n.
Proof. intros Hg n Hn. unfold okN53. lia. Qed.

(** C14 in all_classes mode, thresholds <= 1: no condition on remove_empty_shapes *)
Theorem run_direct_unchanged_all_classes c thr g ns st :
  r_targets c = None -> wf_frac thr -> fle BAlg thr (fone BAlg) = true ->
  (N.of_nat (List.length g) < 2 ^ 53)%N ->
  run_shapes BAlg (rwith_inverse true c) thr g = inl (ns, st) ->
  exists sf, run_shapes BAlg (rwith_inverse false c) thr g = inl (ns, sf) /\ Forall2 direct_part st sf.
Proof.
  intros Hnone Hw Hle Hg. apply (run_direct_unchanged_nonempty BAlg c thr g ns st order_at_BAlg).
  intros ns' l Hr.
  exact (run_raw_nonempty BAlg okN53 wf_frac BAlg_laws (rwith_inverse false c) thr g ns' l Hnone Hw Hle
                          (okN53_of_graph g Hg) Hr).
Qed.

(** C04 in all_classes mode, thresholds <= 1: condition (iii) on the options is
    not needed (the shape-level cleaning finds no empty shape, so the only
    statement it could fail on is never reached) *)
Theorem run_total_all_classes c thr g :
  r_targets c = None -> wf_frac thr -> fle BAlg thr (fone BAlg) = true ->
  (N.of_nat (List.length g) < 2 ^ 53)%N ->
  typing_okb (r_tau c) g && forallb (sentinel_free (r_tau c)) g && prefix_free c = true ->
  exists ns shapes, run_shapes BAlg c thr g = inl (ns, shapes).
Proof.
  intros Hnone Hw Hle Hg H.
  apply andb_true_iff in H. destruct H as [H H4]. apply andb_true_iff in H. destruct H as [H1 H2].
  apply typing_okb_ok in H1. destruct (prefix_free_spec c H4) as [ns Hns].
  destruct (front_total c g H1) as (ins & P & C & ID & Ht & Hp).
  assert (Hf : front c g = inl (P, C)) by (unfold front; rewrite Ht, Hp; reflexivity).
  assert (Hok : forall ce, In ce P -> tokens_ok (scfg_of c ns) ce).
  { intros ce Hce. apply entries_ok_tokens_ok.
    exact (profile_entries_renderable c g ns ins P C ID H2 Ht Hp ce Hce). }
  destruct (ShexKeys.map_err_total (shex_class BAlg (scfg_of c ns) thr C) P) as [l Hl].
  { intros ce Hce. apply shex_class_total. apply Hok; exact Hce. }
  assert (Hraw : run_raw BAlg c thr g = inl (ns, l)) by (unfold run_raw; rewrite Hns, Hf, Hl; reflexivity).
  pose proof (run_raw_nonempty BAlg okN53 wf_frac BAlg_laws c thr g ns l Hnone Hw Hle (okN53_of_graph g Hg) Hraw) as Hne.
  exists ns, l. rewrite run_shapes_front, Hns, Hf. unfold shex. rewrite Hl.
  destruct (x_remove_empty (scfg_of c ns)); [|reflexivity].
  rewrite clean_shapes_id by exact Hne. reflexivity.
Qed.

(** the text from any successful run whose profile is renderable *)
Lemma run_shexc_from_shapes fa c thr g ns ins P C ID shapes :
  full_ns c = Some ns ->
  track (r_tau c) (tmode_of c) (r_cap c) g = inl ins ->
  profile (pcfg_of c) ins g = inl (P, C, ID) ->
  (forall ce, In ce P -> entries_ok (scfg_of c ns) ce /\ prefixb (Str "@") (fst ce) = false) ->
  run_shapes fa c thr g = inl (ns, shapes) ->
  exists text, run_shexc fa c thr g = inl text.
Proof.
  intros Hns Ht Hp Hok Hr. unfold run_shexc. rewrite Hr.
  assert (Hs : shex fa (scfg_of c ns) thr P C = inl shapes).
  { unfold run_shapes in Hr. rewrite Hns in Hr. fold (tmode_of c) in Hr. rewrite Ht, Hp in Hr.
    destruct (shex fa (scfg_of c ns) thr P C) as [s|e]; [|discriminate]. injection Hr as <-. reflexivity. }
  destruct (render_total ns (zcfg_of c ns) eq_refl shapes) as [t Ht'].
  - apply Forall_forall. intros sh Hsh.
    destruct (shex_rstmt fa (scfg_of c ns) thr P C shapes (fun ce H => proj1 (Hok ce H)) Hs sh Hsh)
      as [Hq (ce & Hce & Hn)].
    split; [|exact Hq]. rewrite Hn. apply shape_name_prefixize. apply Hok; exact Hce.
  - unfold zcfg_of in Ht'. rewrite Ht'. eauto.
Qed.

Theorem run_shexc_total_all_classes c thr g :
  r_targets c = None -> wf_frac thr -> fle BAlg thr (fone BAlg) = true ->
  (N.of_nat (List.length g) < 2 ^ 53)%N ->
  typing_okb (r_tau c) g && forallb (sentinel_free (r_tau c)) g && prefix_free c &&
  forallb (class_iri_ok (r_tau c)) g = true ->
  exists text, run_shexc BAlg c thr g = inl text.
Proof.
  intros Hnone Hw Hle Hg H. apply andb_true_iff in H. destruct H as [H H5].
  destruct (run_total_all_classes c thr g Hnone Hw Hle Hg H) as (ns & shapes & Hr).
  apply andb_true_iff in H. destruct H as [H H4]. apply andb_true_iff in H. destruct H as [H1 H2].
  apply typing_okb_ok in H1.
  destruct (front_total c g H1) as (ins & P & C & ID & Ht & Hp).
  assert (Hns : full_ns c = Some ns).
  { rewrite run_shapes_front in Hr. destruct (full_ns c) as [ns0|]; [|discriminate].
    destruct (front c g) as [[P0 C0]|]; [|discriminate].
    destruct (shex BAlg (scfg_of c ns0) thr P0 C0); [|discriminate]. injection Hr as <- _. reflexivity. }
  apply (run_shexc_from_shapes BAlg c thr g ns ins P C ID shapes Hns Ht Hp); [|exact Hr].
  intros ce Hce. split; [exact (profile_entries_renderable c g ns ins P C ID H2 Ht Hp ce Hce)|].
  destruct (profile_class_keys c g ins P C ID Ht Hp ce Hce) as [Hin|(t & o & Hin & Htp & Hto & Hid)].
  - rewrite Hnone in Hin. destruct Hin.
  - rewrite forallb_forall in H5. specialize (H5 t Hin). unfold class_iri_ok in H5.
    rewrite Htp, str_eqb_refl, Hto, Hid in H5. cbn in H5. apply negb_true_iff in H5. exact H5.
Qed.

(** C12 in all_classes mode with both thresholds <= 1: remove_empty_shapes may
    be on (nothing is removed at the shape level), the shapes correspond one
    to one *)
Lemma run_shapes_raw_nonempty fa c thr g ns s :
  run_shapes fa c thr g = inl (ns, s) ->
  (forall ns' l, run_raw fa c thr g = inl (ns', l) -> Forall (fun sh => sh_stmts sh <> []) l) ->
  run_raw fa c thr g = inl (ns, s).
Proof.
  intros H Hne. rewrite run_shapes_front in H. unfold run_raw in *.
  destruct (full_ns c) as [ns0|]; [|discriminate].
  destruct (front c g) as [[P C]|e]; [|discriminate].
  unfold shex in H.
  destruct (map_err (shex_class fa (scfg_of c ns0) thr C) P) as [l|e]; [|discriminate].
  specialize (Hne ns0 l eq_refl).
  destruct (x_remove_empty (scfg_of c ns0)); [|exact H].
  rewrite clean_shapes_id in H by exact Hne. exact H.
Qed.

Theorem run_keys_monotone_all_classes c thr1 thr2 g ns1 s1 ns2 s2 :
  r_targets c = None -> wf_frac thr1 -> wf_frac thr2 ->
  fle BAlg thr1 thr2 = true -> fle BAlg thr2 (fone BAlg) = true ->
  (N.of_nat (List.length g) < 2 ^ 53)%N ->
  run_shapes BAlg c thr1 g = inl (ns1, s1) -> run_shapes BAlg c thr2 g = inl (ns2, s2) ->
  ns1 = ns2 /\ Forall2 (keys_shrink (scfg_of c ns1)) s1 s2.
Proof.
  intros Hnone W1 W2 Hle Hle2 Hg R1 R2.
  assert (Hle1 : fle BAlg thr1 (fone BAlg) = true).
  { apply (fle_trans _ _ _ BAlg_laws thr1 thr2 (fone BAlg)); auto. apply (fone_ok _ _ _ BAlg_laws). }
  apply run_shapes_raw_nonempty in R1;
    [|intros ns' l; apply (run_raw_nonempty BAlg okN53 wf_frac BAlg_laws c thr1 g ns' l Hnone W1 Hle1 (okN53_of_graph g Hg))].
  apply run_shapes_raw_nonempty in R2;
    [|intros ns' l; apply (run_raw_nonempty BAlg okN53 wf_frac BAlg_laws c thr2 g ns' l Hnone W2 Hle2 (okN53_of_graph g Hg))].
  unfold run_raw in R1, R2.
  destruct (full_ns c) as [ns|]; [|discriminate].
  destruct (front c g) as [[P C]|e] eqn:Hf; [|discriminate].
  destruct (map_err (shex_class BAlg (scfg_of c ns) thr1 C) P) as [l1|e1] eqn:E1; [|discriminate].
  destruct (map_err (shex_class BAlg (scfg_of c ns) thr2 C) P) as [l2|e2] eqn:E2; [|discriminate].
  injection R1 as <- <-. injection R2 as <- <-. split; [reflexivity|].
  apply map_err_Forall2 in E1. apply map_err_Forall2 in E2.
  exact (pre_mono BAlg (scfg_of c ns) wf_frac okN53
           (fun n d H => ratio_wf _ _ _ BAlg_laws n d H) (fle_trans _ _ _ BAlg_laws)
           thr1 thr2 P C l1 l2 W1 W2 (front_counts_ok c g ns P C Hf Hg) Hle E1 E2).
Qed.

(** ** J. the same with target classes, remove_empty_shapes on: a class kept
    by the profile-level cleaning has features (hence an instance) unless it is
    one of the "original labels" -- and a class key is never a label when no
    class IRI starts with '%' or "@" *)

Lemma kept_class_has_instance c g ins P C ID :
  r_remove_empty c = true ->
  track (r_tau c) (tmode_of c) (r_cap c) g = inl ins ->
  profile (pcfg_of c) ins g = inl (P, C, ID) ->
  forall cl e, In (cl, e) P -> ~ In cl (orig_labels (pcfg_of c)) -> (0 < class_count ins cl)%N.
Proof.
  intros Hre Ht Hp cl e Hce Hlab.
  destruct (track_insts_ok _ _ _ _ _ Ht) as [ND _].
  rewrite profile_result in Hp.
  destruct (annotate_all (p_tau (pcfg_of c)) (p_inverse (pcfg_of c)) g (adapt ins)) as [ID'|err] eqn:HA; [|discriminate].
  destruct (raw_profile (pcfg_of c) ins ID') as [P1 C0] eqn:HR.
  cbn [p_remove_empty pcfg_of] in Hp. rewrite Hre in Hp. injection Hp as HP _ _. subst P.
  apply In_remove_iteration in Hce. destruct Hce as (e1 & He1 & _ & Hnot).
  destruct (profile_counts_char (pcfg_of c) ins g ID' P1 C0 ND HA HR) as (_ & _ & NDP & _).
  pose proof (In_dget_NoDup P1 cl e1 NDP He1) as Hget.
  destruct (profile_entries_char (pcfg_of c) ins g ID' P1 C0 ND HA HR cl e1 Hget) as (_ & _ & Hd & Hi).
  assert (Hf : has_features (p_inverse (pcfg_of c)) e1 = true).
  { destruct (has_features (p_inverse (pcfg_of c)) e1) eqn:E; [reflexivity|]. exfalso. apply Hnot.
    apply In_shapes_to_remove. exists e1. auto. }
  assert (Hocc : exists dir p k card, (0 < occ dir (r_tau c) ins g cl p k card)%N).
  { unfold has_features in Hf. destruct (c_direct e1) as [|x l] eqn:Ed.
    - destruct (p_inverse (pcfg_of c)) eqn:Ei; [|discriminate].
      destruct (c_inverse e1) as [|y l'] eqn:Ev; [discriminate|].
      destruct (Hi eq_refl) as [_ Hi2]. destruct (proj1 Hi2) as (p & k & card & H); [discriminate|].
      exists Inverse, p, k, card. exact H.
    - destruct (proj1 Hd) as (p & k & card & H); [discriminate|]. exists Direct, p, k, card. exact H. }
  destruct Hocc as (dir & p & k & card & Hpos).
  pose proof (occ_le_class_count dir (r_tau c) ins g cl p k card). lia.
Qed.

Definition class_key_ok (tau : str) (t : triple) : bool :=
  negb (str_eqb (tp t) tau) ||
  match to t with ON o => no_at (nid o) && no_sentinel (nid o) | OL _ _ => true end.

(** no class IRI (object of an instantiation triple, requested target class)
    starts with "@" or '%' *)
Definition class_iris_ok (c : rcfg) (g : graph) : bool :=
  forallb (class_key_ok (r_tau c)) g &&
  forallb (fun t => no_at t && no_sentinel t) (match r_targets c with Some l => l | None => [] end).

Lemma class_key_not_label c g ins P C ID :
  class_iris_ok c g = true ->
  track (r_tau c) (tmode_of c) (r_cap c) g = inl ins ->
  profile (pcfg_of c) ins g = inl (P, C, ID) ->
  forall ce, In ce P -> ~ In (fst ce) (orig_labels (pcfg_of c)).
Proof.
  intros Hok Ht Hp ce Hce Hlab. unfold class_iris_ok in Hok. apply andb_true_iff in Hok. destruct Hok as [Hg Htg].
  assert (Hcl : no_at (fst ce) && no_sentinel (fst ce) = true).
  { destruct (profile_class_keys c g ins P C ID Ht Hp ce Hce) as [Hin|(t & o & Hin & Htp & Hto & Hid)].
    - rewrite forallb_forall in Htg. exact (Htg _ Hin).
    - rewrite forallb_forall in Hg. specialize (Hg t Hin). unfold class_key_ok in Hg.
      rewrite Htp, str_eqb_refl, Hto, Hid in Hg. exact Hg. }
  apply andb_true_iff in Hcl. destruct Hcl as [Hat Hse].
  unfold orig_labels in Hlab. cbn [p_targets p_map_labels pcfg_of] in Hlab. rewrite app_nil_r in Hlab.
  destruct (r_targets c) as [l|]; [|destruct Hlab].
  apply in_map_iff in Hlab. destruct Hlab as [t [Et _]].
  destruct (shape_name_form c_SHAPES_DEFAULT_NAMESPACE t) as [[Ha Hs]|[[Hb Hs]|[body Hs]]]; rewrite Hs in Et.
  - subst t. unfold no_at in Hat. rewrite Ha in Hat. discriminate.
  - rewrite <- Et in Hse. unfold no_sentinel in Hse. rewrite sentinel_cons in Hse. cbn in Hse. discriminate.
  - rewrite <- Et in Hse. unfold no_sentinel in Hse. rewrite sentinel_cons in Hse. cbn in Hse. discriminate.
Qed.

Section NoEmptyShapeTargets.
  Variable fa : FreqAlg.
  Variables (okN : N -> Prop) (okF : F fa -> Prop).
  Hypothesis L : FreqLaws fa okN okF.

  Theorem run_raw_nonempty_remove c thr g ns l :
    r_remove_empty c = true -> class_iris_ok c g = true ->
    okF thr -> fle fa thr (fone fa) = true ->
    (forall n, (0 < n <= N.of_nat (List.length g))%N -> okN n) ->
    run_raw fa c thr g = inl (ns, l) -> Forall (fun sh => sh_stmts sh <> []) l.
  Proof.
    intros Hre Hcls HokF Hle HokN H. unfold run_raw in H.
    destruct (full_ns c) as [ns0|]; [|discriminate].
    destruct (front c g) as [[P C]|e] eqn:Hf; [|discriminate].
    destruct (map_err (shex_class fa (scfg_of c ns0) thr C) P) as [l0|e] eqn:Em; [|discriminate].
    injection H as <- <-. apply map_err_Forall2 in Em.
    destruct (front_inl c g P C Hf) as (ins & ID & Ht & Hp).
    apply Forall_forall. intros sh Hsh.
    destruct (ShexBasics.Forall2_In_r _ _ _ _ Em Hsh) as [[cl e] [Hce Hs]].
    pose proof (kept_class_has_instance c g ins P C ID Hre Ht Hp cl e Hce
                  (class_key_not_label c g ins P C ID Hcls Ht Hp (cl, e) Hce)) as Hpos.
    apply (shex_class_nonempty fa okN okF L c g ns0 ins P C ID thr cl e sh Ht Hp Hce Hpos); try assumption.
    apply HokN. split; [exact Hpos|]. exact (class_count_le_graph _ _ _ _ _ cl Ht).
  Qed.
End NoEmptyShapeTargets.

(** C14, final form for binary64: any mode, any setting of remove_empty_shapes *)
Theorem run_direct_unchanged_valid c thr g ns st :
  class_iris_ok c g = true -> wf_frac thr -> fle BAlg thr (fone BAlg) = true ->
  (N.of_nat (List.length g) < 2 ^ 53)%N ->
  run_shapes BAlg (rwith_inverse true c) thr g = inl (ns, st) ->
  exists sf, run_shapes BAlg (rwith_inverse false c) thr g = inl (ns, sf) /\ Forall2 direct_part st sf.
Proof.
  intros Hcls Hw Hle Hg. destruct (r_remove_empty c) eqn:Hre.
  - apply (run_direct_unchanged_nonempty BAlg c thr g ns st order_at_BAlg). intros ns' l Hr.
    exact (run_raw_nonempty_remove BAlg okN53 wf_frac BAlg_laws (rwith_inverse false c) thr g ns' l Hre Hcls Hw Hle
                                   (okN53_of_graph g Hg) Hr).
  - exact (run_direct_unchanged_keep BAlg c thr g ns st order_at_BAlg Hre).
Qed.

(** C04 without (iii): thresholds <= 1, class IRIs not starting with '%'/"@" *)
Theorem run_total_valid c thr g :
  wf_frac thr -> fle BAlg thr (fone BAlg) = true -> (N.of_nat (List.length g) < 2 ^ 53)%N ->
  typing_okb (r_tau c) g && forallb (sentinel_free (r_tau c)) g && prefix_free c && class_iris_ok c g = true ->
  exists ns shapes, run_shapes BAlg c thr g = inl (ns, shapes).
Proof.
  intros Hw Hle Hg H. apply andb_true_iff in H. destruct H as [H Hcls].
  destruct (r_remove_empty c) eqn:Hre.
  - apply andb_true_iff in H. destruct H as [H H4]. apply andb_true_iff in H. destruct H as [H1 H2].
    apply typing_okb_ok in H1. destruct (prefix_free_spec c H4) as [ns Hns].
    destruct (front_total c g H1) as (ins & P & C & ID & Ht & Hp).
    assert (Hf : front c g = inl (P, C)) by (unfold front; rewrite Ht, Hp; reflexivity).
    destruct (ShexKeys.map_err_total (shex_class BAlg (scfg_of c ns) thr C) P) as [l Hl].
    { intros ce Hce. apply shex_class_total. apply entries_ok_tokens_ok.
      exact (profile_entries_renderable c g ns ins P C ID H2 Ht Hp ce Hce). }
    assert (Hraw : run_raw BAlg c thr g = inl (ns, l)) by (unfold run_raw; rewrite Hns, Hf, Hl; reflexivity).
    pose proof (run_raw_nonempty_remove BAlg okN53 wf_frac BAlg_laws c thr g ns l Hre Hcls Hw Hle
                                        (okN53_of_graph g Hg) Hraw) as Hne.
    exists ns, l. rewrite run_shapes_front, Hns, Hf. unfold shex. rewrite Hl.
    destruct (x_remove_empty (scfg_of c ns)); [|reflexivity].
    rewrite clean_shapes_id by exact Hne. reflexivity.
  - apply run_total. unfold valid_input, options_ok. rewrite Hre.
    apply andb_true_iff in H. destruct H as [H H4]. rewrite H, H4. rewrite orb_true_r. reflexivity.
Qed.

(** C12 with remove_empty_shapes on or off, any mode *)
Theorem run_keys_monotone_valid c thr1 thr2 g ns1 s1 ns2 s2 :
  class_iris_ok c g = true -> wf_frac thr1 -> wf_frac thr2 ->
  fle BAlg thr1 thr2 = true -> fle BAlg thr2 (fone BAlg) = true ->
  (N.of_nat (List.length g) < 2 ^ 53)%N ->
  run_shapes BAlg c thr1 g = inl (ns1, s1) -> run_shapes BAlg c thr2 g = inl (ns2, s2) ->
  ns1 = ns2 /\ Forall2 (keys_shrink (scfg_of c ns1)) s1 s2.
Proof.
  intros Hcls W1 W2 Hle Hle2 Hg R1 R2. destruct (r_remove_empty c) eqn:Hre;
    [|exact (run_keys_monotone c thr1 thr2 g ns1 s1 ns2 s2 Hre W1 W2 Hle Hg R1 R2)].
  assert (Hle1 : fle BAlg thr1 (fone BAlg) = true).
  { apply (fle_trans _ _ _ BAlg_laws thr1 thr2 (fone BAlg)); auto. apply (fone_ok _ _ _ BAlg_laws). }
  apply run_shapes_raw_nonempty in R1;
    [|intros ns' l; apply (run_raw_nonempty_remove BAlg okN53 wf_frac BAlg_laws c thr1 g ns' l Hre Hcls W1 Hle1 (okN53_of_graph g Hg))].
  apply run_shapes_raw_nonempty in R2;
    [|intros ns' l; apply (run_raw_nonempty_remove BAlg okN53 wf_frac BAlg_laws c thr2 g ns' l Hre Hcls W2 Hle2 (okN53_of_graph g Hg))].
  unfold run_raw in R1, R2.
  destruct (full_ns c) as [ns|]; [|discriminate].
  destruct (front c g) as [[P C]|e] eqn:Hf; [|discriminate].
  destruct (map_err (shex_class BAlg (scfg_of c ns) thr1 C) P) as [l1|e1] eqn:E1; [|discriminate].
  destruct (map_err (shex_class BAlg (scfg_of c ns) thr2 C) P) as [l2|e2] eqn:E2; [|discriminate].
  injection R1 as <- <-. injection R2 as <- <-. split; [reflexivity|].
  apply map_err_Forall2 in E1. apply map_err_Forall2 in E2.
  exact (pre_mono BAlg (scfg_of c ns) wf_frac okN53
           (fun n d H => ratio_wf _ _ _ BAlg_laws n d H) (fle_trans _ _ _ BAlg_laws)
           thr1 thr2 P C l1 l2 W1 W2 (front_counts_ok c g ns P C Hf Hg) Hle E1 E2).
Qed.

Theorem run_shexc_total_valid c thr g :
  wf_frac thr -> fle BAlg thr (fone BAlg) = true -> (N.of_nat (List.length g) < 2 ^ 53)%N ->
  typing_okb (r_tau c) g && forallb (sentinel_free (r_tau c)) g && prefix_free c && class_iris_ok c g = true ->
  exists text, run_shexc BAlg c thr g = inl text.
Proof.
  intros Hw Hle Hg H. destruct (run_total_valid c thr g Hw Hle Hg H) as (ns & shapes & Hr).
  apply andb_true_iff in H. destruct H as [H Hcls].
  apply andb_true_iff in H. destruct H as [H H4]. apply andb_true_iff in H. destruct H as [H1 H2].
  apply typing_okb_ok in H1.
  destruct (front_total c g H1) as (ins & P & C & ID & Ht & Hp).
  assert (Hns : full_ns c = Some ns).
  { rewrite run_shapes_front in Hr. destruct (full_ns c) as [ns0|]; [|discriminate].
    destruct (front c g) as [[P0 C0]|]; [|discriminate].
    destruct (shex BAlg (scfg_of c ns0) thr P0 C0); [|discriminate]. injection Hr as <- _. reflexivity. }
  apply (run_shexc_from_shapes BAlg c thr g ns ins P C ID shapes Hns Ht Hp); [|exact Hr].
  intros ce Hce. split; [exact (profile_entries_renderable c g ns ins P C ID H2 Ht Hp ce Hce)|].
  unfold class_iris_ok in Hcls. apply andb_true_iff in Hcls. destruct Hcls as [Hcg Hct].
  destruct (profile_class_keys c g ins P C ID Ht Hp ce Hce) as [Hin|(t & o & Hin & Htp & Hto & Hid)].
  - rewrite forallb_forall in Hct. specialize (Hct _ Hin). apply andb_true_iff in Hct. destruct Hct as [Ha _].
    apply negb_true_iff in Ha. exact Ha.
  - rewrite forallb_forall in Hcg. specialize (Hcg t Hin). unfold class_key_ok in Hcg.
    rewrite Htp, str_eqb_refl, Hto, Hid in Hcg. cbn [negb orb] in Hcg.
    apply andb_true_iff in Hcg. destruct Hcg as [Ha _]. apply negb_true_iff in Ha. exact Ha.
Qed.
