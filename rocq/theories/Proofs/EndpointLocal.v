(** * C15 (d): what the endpoint delivers vs what the local feature pass reads.

    The feature pass of the local extraction ([Profiler.annotate_all], the
    fold of [_annotate_target_subject/_object] over the triple stream) ignores
    every statement whose subject is not an instance and (with inverse paths)
    whose object is not one: it computes the same from the restriction of the
    graph to the statements touching an instance.  The endpoint delivers a
    permutation of exactly that restriction, plus -- with inverse paths -- a
    second copy of every statement linking two instances. *)
From Coq Require Import List Ascii String ZArith Bool Lia Permutation.
From Shexer Require Import Lib.PyStr Lib.Dict Gen.Consts Spec.Rdf Spec.EndpointSpec
     Model.Tracker Model.Profiler Model.Endpoint Proofs.EndpointProofs.
Import ListNotations.

(** ** dictionaries *)
Lemma dget_dset {V} (d : dict V) k v k' :
  dget (dset d k v) k' = if str_eqb k' k then Some v else dget d k'.
Proof.
  induction d as [|[k0 v0] d IH]; cbn.
  - reflexivity.
  - destruct (str_eqb k k0) eqn:E; cbn.
    + apply str_eqb_eq in E. subst k0. destruct (str_eqb k' k); reflexivity.
    + destruct (str_eqb k' k0) eqn:E'.
      * apply str_eqb_eq in E'. subst k0.
        rewrite (EndpointProofs.str_eqb_sym k' k), E. reflexivity.
      * exact IH.
Qed.

Lemma dmem_dupd {V} (d : dict V) k dflt f k' :
  dmem (dupd d k dflt f) k' = dmem d k' || str_eqb k' k.
Proof.
  unfold dmem, dupd. destruct (dget d k) eqn:E; rewrite dget_dset; destruct (str_eqb k' k) eqn:E'.
  - rewrite orb_true_r. reflexivity.
  - rewrite orb_false_r. reflexivity.
  - rewrite orb_true_r. reflexivity.
  - rewrite orb_false_r. reflexivity.
Qed.

Lemma dmem_dupd_present {V} (d : dict V) k dflt f k' :
  dmem d k = true -> dmem (dupd d k dflt f) k' = dmem d k'.
Proof.
  intros H. rewrite dmem_dupd. destruct (str_eqb k' k) eqn:E; [|apply orb_false_r].
  apply str_eqb_eq in E. subst. rewrite H. reflexivity.
Qed.

(** ** the feature pass keeps the set of instances and skips irrelevant statements *)
Definition rel (inverse : bool) (I : idict) (t : triple) : bool :=
  Profiler.tracked I (nid (ts t)) ||
  (inverse && match to t with ON o => Profiler.tracked I (nid o) | OL _ _ => false end).

Lemma annotate_triple_keys tau inverse I t I' :
  annotate_triple tau inverse I t = inl I' -> forall id, Profiler.tracked I' id = Profiler.tracked I id.
Proof.
  unfold annotate_triple. intros H id.
  assert (S1 : forall I1, (if Profiler.tracked I (nid (ts t)) then annotate_subject tau I t else inl I) = inl I1 ->
                          Profiler.tracked I1 id = Profiler.tracked I id).
  { intros I1 E. destruct (Profiler.tracked I (nid (ts t))) eqn:Et; [|inversion E; reflexivity].
    unfold annotate_subject in E. destruct (type_of_obj tau (tp t) (to t)); [|discriminate].
    inversion E; subst. unfold Profiler.tracked. apply dmem_dupd_present. exact Et. }
  destruct (if Profiler.tracked I (nid (ts t)) then annotate_subject tau I t else inl I) as [I1|e] eqn:E1; [|discriminate].
  specialize (S1 I1 eq_refl).
  destruct inverse; [|inversion H; subst; exact S1].
  destruct (to t) as [o|]; [|inversion H; subst; exact S1].
  destruct (Profiler.tracked I1 (nid o)) eqn:Eo; [|inversion H; subst; exact S1].
  inversion H; subst. unfold annotate_object, Profiler.tracked. rewrite dmem_dupd_present; auto.
Qed.

Lemma annotate_triple_irrelevant tau inverse I t : rel inverse I t = false -> annotate_triple tau inverse I t = inl I.
Proof.
  unfold rel, annotate_triple. intros H. apply orb_false_iff in H. destruct H as [H1 H2].
  rewrite H1. destruct inverse; [|reflexivity]. cbn in H2. destruct (to t); [rewrite H2|]; reflexivity.
Qed.

Lemma annotate_all_restrict tau inverse g I :
  annotate_all tau inverse g I = annotate_all tau inverse (filter (rel inverse I) g) I.
Proof.
  revert I. induction g as [|t g IH]; intros I; cbn; [reflexivity|].
  destruct (rel inverse I t) eqn:R; cbn.
  - destruct (annotate_triple tau inverse I t) as [I'|e] eqn:E; [|reflexivity].
    rewrite IH. f_equal. apply filter_ext. intros x. unfold rel.
    rewrite !(annotate_triple_keys _ _ _ _ _ E). destruct (to x); [rewrite (annotate_triple_keys _ _ _ _ _ E)|]; reflexivity.
  - rewrite (annotate_triple_irrelevant _ _ _ _ R). apply IH.
Qed.

(** ** the restriction, on served graphs *)
Lemma filter_map_commute {A B} (f : B -> bool) (g : A -> B) (l : list A) :
  filter f (map g l) = map g (filter (fun x => f (g x)) l).
Proof. induction l as [|x l IH]; cbn; auto. destruct (f (g x)); cbn; rewrite IH; reflexivity. Qed.

Lemma filter_or_and {A} (f g : A -> bool) (l : list A) :
  Permutation (filter f l ++ filter g l) (filter (fun x => f x || g x) l ++ filter (fun x => f x && g x) l).
Proof.
  induction l as [|x l IH]; cbn; [constructor|].
  destruct (f x), (g x); cbn.
  - constructor. eapply perm_trans; [apply Permutation_sym, Permutation_middle|].
    eapply perm_trans; [constructor; exact IH|]. apply Permutation_middle.
  - constructor. exact IH.
  - eapply perm_trans; [apply Permutation_sym, Permutation_middle|]. constructor. exact IH.
  - exact IH.
Qed.

Lemma rel_local c G I T t :
  dom c G -> In t G -> (forall id, Profiler.tracked I id = mem_str id T) ->
  rel (c_inverse c) I (local_of t) = subj_in T t || (c_inverse c && obj_in T t).
Proof.
  intros [Hd _] Ht HI. destruct (dom_facts _ _ G Hd t Ht) as [s F].
  unfold rel, subj_in, obj_in. cbn. rewrite (sf_subj _ _ _ F). cbn. rewrite HI. f_equal. f_equal.
  destruct (so t) as [[o|b]|] eqn:Eo; cbn; auto.
  exfalso. destruct (dom_in _ _ G Hd t Ht) as [Hs _]. eapply stmt_ok_no_bnode_obj; eauto.
Qed.

Lemma delivered_vs_relevant c G I T :
  dom c G -> (forall id, Profiler.tracked I id = mem_str id T) ->
  Permutation (local_graph (neighbourhood (c_inverse c) T G))
              (filter (rel (c_inverse c) I) (local_graph G) ++
               local_graph (filter (fun t => subj_in T t && obj_in T t) (if c_inverse c then G else []))).
Proof.
  intros Hd HI. unfold local_graph. rewrite filter_map_commute.
  rewrite (filter_ext_in _ (fun t => subj_in T t || (c_inverse c && obj_in T t)))
    by (intros t Ht; eapply rel_local; eauto).
  rewrite <- map_app. apply Permutation_map. unfold neighbourhood, out_of, into.
  destruct (c_inverse c); cbn [andb].
  - apply filter_or_and.
  - cbn. rewrite !app_nil_r. apply Permutation_refl'. apply filter_ext. intros t. rewrite orb_false_r. reflexivity.
Qed.

(** (d) for the class modes *)
Lemma equals_local_class c G O all_mode classes I :
  ord_ok O -> dom c G -> (forall pass, pcls G c O pass all_mode classes <> []) ->
  let r := run_class G c all_mode classes O in
  let T2 := ptargets G c O 2 all_mode classes in
  (forall id, Profiler.tracked I id = mem_str id T2) ->
  Permutation (yields (r_p2 r))
              (filter (rel (c_inverse c) I) (local_graph G) ++
               local_graph (filter (fun t => subj_in T2 t && obj_in T2 t) (if c_inverse c then G else []))) /\
  annotate_all (c_tau c) (c_inverse c) (local_graph G) I =
  annotate_all (c_tau c) (c_inverse c) (filter (rel (c_inverse c) I) (local_graph G)) I.
Proof.
  intros Ho Hd Hne r T2 HI. split; [|apply annotate_all_restrict].
  destruct (triples_class c G O all_mode classes Ho Hd Hne) as [_ [A _]]. fold r T2 in A.
  eapply perm_trans; [exact A|]. apply delivered_vs_relevant; auto.
Qed.

Lemma equals_local_map c G O items I :
  ord_ok O -> dom c G -> forallb sel_plain items = true ->
  let r := run c (MShapeMap items) G O in
  let T := collect G O 1 2 (c_tau c) (-1) items in
  (forall id, Profiler.tracked I id = mem_str id T) ->
  Permutation (yields (r_p2 r))
              (filter (rel (c_inverse c) I) (local_graph G) ++
               local_graph (filter (fun t => subj_in T t && obj_in T t) (if c_inverse c then G else []))) /\
  annotate_all (c_tau c) (c_inverse c) (local_graph G) I =
  annotate_all (c_tau c) (c_inverse c) (filter (rel (c_inverse c) I) (local_graph G)) I.
Proof.
  intros Ho Hd Hit r T HI. split; [|apply annotate_all_restrict].
  destruct (triples_map c G O items Ho Hd Hit) as [_ [_ [A _]]]. fold r T in A.
  eapply perm_trans; [exact A|]. apply delivered_vs_relevant; auto.
Qed.

(** ** the model's reading position of pass 1 is the frozen tracker's:
    where [consumption] says the tracker stops after [n] triples, the tracker
    model ([Tracker.track]) computes the same dictionary from the first [n]
    triples as from the whole stream; where it says the tracker dies, the
    tracker model fails. *)
Lemma consume_cap_stop tau m cap nt g d st k n :
  consume_cap tau m cap nt g st k = CStop n ->
  k < n /\ track_cap tau m cap nt g d st = track_cap tau m cap nt (firstn (n - k) g) d st.
Proof.
  revert d st k. induction g as [|t g IH]; intros d st k H; cbn [consume_cap] in H; [discriminate|].
  assert (Hstep : forall k', k < k' -> S (k' - S k) = k' - k) by (intros; lia).
  destruct (relevant tau m t) eqn:Er.
  - destruct (cap_allows tau cap st t) as [[|]|] eqn:Ea; try discriminate.
    + destruct (to t) as [o|] eqn:Eo; [|discriminate].
      destruct nt as [nt'|].
      * match type of H with (if ?b then _ else _) = _ => destruct b eqn:Eb end.
        -- inversion H; subst n. split; [lia|]. replace (S k - k) with 1 by lia.
           cbn [firstn track_cap]. rewrite Er, Ea, Eo, Eb. reflexivity.
        -- pose proof (fun d' => IH d' _ _ H) as IH'. split; [destruct (IH' d); lia|].
           rewrite <- (Hstep n) by (destruct (IH' d); lia). cbn [firstn track_cap]. rewrite Er, Ea, Eo, Eb.
           apply (proj2 (IH' _)).
      * pose proof (fun d' => IH d' _ _ H) as IH'. split; [destruct (IH' d); lia|].
        rewrite <- (Hstep n) by (destruct (IH' d); lia). cbn [firstn track_cap]. rewrite Er, Ea, Eo.
        apply (proj2 (IH' _)).
    + destruct (IH d _ _ H) as [Hk E]. split; [lia|].
      rewrite <- (Hstep n) by lia. cbn [firstn track_cap]. rewrite Er, Ea. apply E.
  - destruct (IH d _ _ H) as [Hk E]. split; [lia|].
    rewrite <- (Hstep n) by lia. cbn [firstn track_cap]. rewrite Er. apply E.
Qed.

Lemma consumption_stop_track tau m cap g n :
  consumption tau m cap g = CStop n -> track tau m cap g = track tau m cap (firstn n g).
Proof.
  unfold consumption, track. destruct (cap <=? 0)%Z.
  - intros H. exfalso. revert H. generalize 0 at 1. induction g as [|t g IH]; intros k; cbn; [discriminate|].
    destruct (relevant tau m t); [|apply IH]. destruct (to t); [apply IH | discriminate].
  - intros H. destruct (consume_cap_stop _ _ _ _ _ [] _ _ _ H) as [_ E]. rewrite Nat.sub_0_r in E. exact E.
Qed.

Lemma consume_plain_err tau m g d k n : consume_plain tau m g k = CErr n -> track_plain tau m g d = inr TEAttr.
Proof.
  revert d k. induction g as [|t g IH]; intros d k H; cbn in *; [discriminate|].
  destruct (relevant tau m t).
  - unfold annotate. destruct (to t); [eapply IH; eauto | reflexivity].
  - eapply IH; eauto.
Qed.
