(** * Key orders of the profile (complement to [ProfileChar.v]).

    Every dictionary of the profile lists its keys in first-occurrence order:
    [annotate_all_order_char] for the instance features,
    [profile_order_char] for the class profile before cleaning (cleaning keeps
    the order: [dkeys_remove_iteration], [dkeys_remove_keys_pdict],
    [dkeys_dget_remove_keys_pdict] in [ProfileChar.v]). *)
From Coq Require Import List Ascii String ZArith NArith Bool Lia Permutation.
From Shexer Require Import Lib.PyStr Lib.Dict Gen.Consts Spec.Rdf Model.Tracker Model.Profiler
     Spec.Counts Proofs.DictLemmas Proofs.ProfileChar.
Import ListNotations.
Local Open Scope N_scope.

(** ** lists *)

Lemma first_occ_app l l' : first_occ (l ++ l') = fold_left add_new l' (first_occ l).
Proof. rewrite <- !first_occ_fold. apply fold_left_app. Qed.

Lemma first_occ_snoc l x : first_occ (l ++ [x]) = add_new (first_occ l) x.
Proof. rewrite first_occ_app. reflexivity. Qed.

Lemma fold_add_new_drop_seen x L : forall acc,
  In x acc ->
  fold_left add_new (filter (fun y => negb (str_eqb y x)) L) acc = fold_left add_new L acc.
Proof.
  induction L as [|y L IH]; intros acc Hx; cbn [filter fold_left]; [reflexivity|].
  destruct (str_eqb y x) eqn:E; cbn [negb fold_left].
  - apply str_eqb_eq in E. subst y. rewrite add_new_mem by (apply mem_str_In; assumption).
    apply IH. assumption.
  - apply IH. apply In_add_new. left. assumption.
Qed.

Lemma fold_add_new_first_occ_arg l : forall acc,
  fold_left add_new (first_occ l) acc = fold_left add_new l acc.
Proof.
  induction l as [|x l IH]; intros acc; cbn [first_occ fold_left]; [reflexivity|].
  rewrite fold_add_new_drop_seen by (apply In_add_new; right; reflexivity).
  apply IH.
Qed.

(** first occurrences of a concatenation of first-occurrence lists *)
Lemma first_occ_app_first_occ l l' : first_occ (l ++ first_occ l') = first_occ (l ++ l').
Proof. rewrite !first_occ_app. apply fold_add_new_first_occ_arg. Qed.

(** ** instance features *)

Definition fsub (f : feat) (p : str) : dict N :=
  match dget f p with Some m => m | None => [] end.

Lemma dkeys_incr_feat f p k : dkeys (incr_feat f p k) = add_new (dkeys f) p.
Proof. rewrite incr_feat_incrN. apply dkeys_dupd_add_new. Qed.

Lemma fsub_incr_feat f p k p' :
  fsub (incr_feat f p k) p' = if str_eqb p p' then incrN (fsub f p) k else fsub f p'.
Proof.
  unfold fsub. rewrite incr_feat_incrN, dget_dupd. unfold dupd_val.
  destruct (str_eqb p p') eqn:E; [|reflexivity].
  destruct (dget f p); reflexivity.
Qed.

Lemma dkeys_annotate_keys ks : forall f p,
  ks <> [] -> dkeys (annotate_keys f p ks) = add_new (dkeys f) p.
Proof.
  unfold annotate_keys. induction ks as [|k ks IH]; intros f p H; [congruence|].
  cbn [fold_left]. destruct ks as [|k' ks].
  - cbn [fold_left]. apply dkeys_incr_feat.
  - rewrite IH by discriminate. rewrite dkeys_incr_feat. apply add_new_idem.
Qed.

Lemma fsub_annotate_keys ks : forall f p p',
  fsub (annotate_keys f p ks) p' =
  if str_eqb p p' then fold_left incrN ks (fsub f p) else fsub f p'.
Proof.
  unfold annotate_keys. induction ks as [|k ks IH]; intros f p p'; cbn [fold_left].
  - destruct (str_eqb p p') eqn:E; [|reflexivity]. apply str_eqb_eq in E. subst. reflexivity.
  - rewrite IH. destruct (str_eqb p p') eqn:E.
    + rewrite fsub_incr_feat, str_eqb_refl. reflexivity.
    + rewrite fsub_incr_feat, E. reflexivity.
Qed.

Lemma dkeys_fsub_annotate_keys ks f p p' :
  dkeys (fsub (annotate_keys f p ks) p') =
  fold_left add_new (if str_eqb p p' then ks else []) (dkeys (fsub f p')).
Proof.
  rewrite fsub_annotate_keys. destruct (str_eqb p p') eqn:E; [|reflexivity].
  apply str_eqb_eq in E. subst. apply dkeys_fold_incrN.
Qed.

Section Order.
  Variables (tau : str) (inverse : bool) (I : insts).

  (** the sequences of the spec, unfolded *)
  Definition pseq (dir : direction) (g : graph) (i : str) : list str :=
    map tp (filter (fun t => touches dir t i) g).

  Definition kseq (dir : direction) (g : graph) (i p : str) : list str :=
    List.concat (map (fun t => contrib dir tau I t i p) g).

  Lemma pseq_cons dir t g i :
    pseq dir (t :: g) i = (if touches dir t i then [tp t] else []) ++ pseq dir g i.
  Proof. unfold pseq. cbn [filter]. destruct (touches dir t i); reflexivity. Qed.

  Lemma kseq_cons dir t g i p : kseq dir (t :: g) i p = contrib dir tau I t i p ++ kseq dir g i p.
  Proof. reflexivity. Qed.

  Definition InvO (J : idict) (sP sPi : str -> list str) (sK sKi : str -> str -> list str) : Prop :=
    dmapv i_classes J = I /\
    forall i e, dget J i = Some e ->
      dkeys (i_direct e) = first_occ (sP i) /\
      (forall p, dkeys (fsub (i_direct e) p) = first_occ (sK i p)) /\
      (inverse = true ->
       dkeys (i_inverse e) = first_occ (sPi i) /\
       (forall p, dkeys (fsub (i_inverse e) p) = first_occ (sKi i p))).

  Lemma InvO_ext J sP sPi sK sKi sP' sPi' sK' sKi' :
    (forall i, sP i = sP' i) -> (forall i, sPi i = sPi' i) ->
    (forall i p, sK i p = sK' i p) -> (forall i p, sKi i p = sKi' i p) ->
    InvO J sP sPi sK sKi -> InvO J sP' sPi' sK' sKi'.
  Proof.
    intros H1 H2 H3 H4 [HC H]. split; [assumption|]. intros i e Hi.
    destruct (H i e Hi) as [A [B C]]. split; [rewrite <- H1; assumption|].
    split; [intros p; rewrite <- H3; apply B|].
    intros Hinv. destruct (C Hinv) as [C1 C2]. split; [rewrite <- H2; assumption|].
    intros p. rewrite <- H4. apply C2.
  Qed.

  Lemma InvO_adapt : InvO (adapt I) (fun _ => []) (fun _ => []) (fun _ _ => []) (fun _ _ => []).
  Proof.
    split; [apply dmapv_classes_adapt|]. intros i e Hi.
    rewrite adapt_dmapv, dget_dmapv in Hi. destruct (dget I i) as [cs|]; [|discriminate].
    cbn in Hi. inversion Hi. subst e. cbn [mk_entry i_direct i_inverse].
    split; [reflexivity|]. split; [intros p; reflexivity|]. intros _. split; [reflexivity | intros p; reflexivity].
  Qed.

  Lemma subject_order J sP sPi sK sKi t ty :
    InvO J sP sPi sK sKi -> tracked J (nid (ts t)) = true ->
    type_of_obj tau (tp t) (to t) = Some ty ->
    InvO (dupd J (nid (ts t)) {| i_classes := []; i_direct := []; i_inverse := [] |}
            (fun e => {| i_classes := i_classes e;
                         i_direct := annotate_keys (i_direct e) (tp t)
                                       (ty :: (if is_node_type ty
                                               then match to t with ON n => shapes_of J (nid n) | OL _ _ => [] end
                                               else []));
                         i_inverse := i_inverse e |}))
         (fun i => sP i ++ (if touches Direct t i then [tp t] else [])) sPi
         (fun i p => sK i p ++ contrib Direct tau I t i p) sKi.
  Proof.
    intros [HC H] Htr Ety.
    pose proof (keys_direct_model tau I J t ty HC Ety) as HK.
    remember (ty :: _) as ks eqn:Eks in *.
    assert (NE : ks <> []) by (rewrite Eks; discriminate).
    clear Eks. split.
    - etransitivity; [|exact HC]. apply dmapv_dupd_absorb; [reflexivity | exact Htr].
    - intros i e' Hi. rewrite dget_dupd in Hi. unfold dupd_val in Hi. cbn [touches contrib].
      destruct (str_eqb (nid (ts t)) i) eqn:Es.
      + apply str_eqb_eq in Es. subst i.
        unfold tracked in Htr. apply dmem_dget in Htr. destruct Htr as [e He].
        rewrite He in Hi. inversion Hi. subst e'. cbn [i_classes i_direct i_inverse].
        destruct (H _ e He) as [A [B C]]. split; [|split].
        * rewrite dkeys_annotate_keys by assumption. rewrite A. symmetry. apply first_occ_snoc.
        * intros p. rewrite dkeys_fsub_annotate_keys, B. cbn [andb].
          rewrite first_occ_app. destruct (str_eqb (tp t) p); [rewrite HK; reflexivity | reflexivity].
        * assumption.
      + destruct (H i e' Hi) as [A [B C]]. split; [|split].
        * rewrite app_nil_r. assumption.
        * intros p. cbn [andb]. rewrite app_nil_r. apply B.
        * assumption.
  Qed.

  Lemma object_order J sP sPi sK sKi t o :
    to t = ON o ->
    InvO J sP sPi sK sKi -> tracked J (nid o) = true ->
    InvO (annotate_object tau J t o) sP
         (fun i => sPi i ++ (if touches Inverse t i then [tp t] else [])) sK
         (fun i p => sKi i p ++ contrib Inverse tau I t i p).
  Proof.
    intros Ho [HC H] Htr. unfold annotate_object.
    pose proof (keys_inverse_model tau I J t HC) as HK. cbn zeta in HK.
    remember (type_of_subj tau (tp t) (ts t) :: _) as ks eqn:Eks in *.
    assert (NE : ks <> []) by (rewrite Eks; discriminate).
    clear Eks. split.
    - etransitivity; [|exact HC]. apply dmapv_dupd_absorb; [reflexivity | exact Htr].
    - intros i e' Hi. rewrite dget_dupd in Hi. unfold dupd_val in Hi. cbn [touches contrib]. rewrite Ho.
      destruct (str_eqb (nid o) i) eqn:Es.
      + apply str_eqb_eq in Es. subst i.
        unfold tracked in Htr. apply dmem_dget in Htr. destruct Htr as [e He].
        rewrite He in Hi. inversion Hi. subst e'. cbn [i_classes i_direct i_inverse].
        destruct (H _ e He) as [A [B C]]. split; [assumption|]. split; [assumption|].
        intros Hinv. destruct (C Hinv) as [C1 C2]. split.
        * rewrite dkeys_annotate_keys by assumption. rewrite C1. symmetry. apply first_occ_snoc.
        * intros p. rewrite dkeys_fsub_annotate_keys, C2. cbn [andb].
          rewrite first_occ_app. destruct (str_eqb (tp t) p); [rewrite HK; reflexivity | reflexivity].
      + destruct (H i e' Hi) as [A [B C]]. split; [assumption|]. split; [assumption|].
        intros Hinv. destruct (C Hinv) as [C1 C2]. split.
        * rewrite app_nil_r. assumption.
        * intros p. cbn [andb]. rewrite app_nil_r. apply C2.
  Qed.

  Lemma touches_untracked_direct J t i e :
    tracked J (nid (ts t)) = false -> dget J i = Some e -> touches Direct t i = false.
  Proof.
    intros Htr Hi. cbn. apply str_eqb_neq. intros E. subst i.
    unfold tracked, dmem in Htr. rewrite Hi in Htr. discriminate.
  Qed.

  Lemma triple_order J sP sPi sK sKi t J' :
    InvO J sP sPi sK sKi ->
    annotate_triple tau inverse J t = inl J' ->
    InvO J' (fun i => sP i ++ (if touches Direct t i then [tp t] else []))
            (fun i => sPi i ++ (if touches Inverse t i then [tp t] else []))
            (fun i p => sK i p ++ contrib Direct tau I t i p)
            (fun i p => sKi i p ++ contrib Inverse tau I t i p).
  Proof.
    intros HInv. unfold annotate_triple.
    assert (S1 : forall J1,
      (if tracked J (nid (ts t)) then annotate_subject tau J t else inl J) = inl J1 ->
      InvO J1 (fun i => sP i ++ (if touches Direct t i then [tp t] else [])) sPi
              (fun i p => sK i p ++ contrib Direct tau I t i p) sKi).
    { intros J1. destruct (tracked J (nid (ts t))) eqn:Htr.
      - unfold annotate_subject. destruct (type_of_obj tau (tp t) (to t)) as [ty|] eqn:Ety; [|discriminate].
        intros E. injection E as <-. apply subject_order; assumption.
      - intros E. injection E as <-. destruct HInv as [HC H]. split; [assumption|].
        intros i e Hi. destruct (H i e Hi) as [A [B C]].
        pose proof (touches_untracked_direct J t i e Htr Hi) as Ht.
        split; [rewrite Ht, app_nil_r; assumption|]. split; [|assumption].
        intros p. cbn [contrib]. cbn [touches] in Ht. rewrite Ht. cbn [andb]. rewrite app_nil_r. apply B. }
    destruct (if tracked J (nid (ts t)) then annotate_subject tau J t else inl J) as [J1|e]; [|discriminate].
    specialize (S1 J1 eq_refl).
    assert (Keep : forall sPi' sKi',
      (inverse = true -> forall i e, dget J1 i = Some e ->
         sPi' i = sPi i /\ forall p, sKi' i p = sKi i p) ->
      InvO J1 (fun i => sP i ++ (if touches Direct t i then [tp t] else [])) sPi'
              (fun i p => sK i p ++ contrib Direct tau I t i p) sKi').
    { intros sPi' sKi' Hc. destruct S1 as [HC H]. split; [assumption|]. intros i e Hi.
      destruct (H i e Hi) as [A [B C]]. split; [assumption|]. split; [assumption|].
      intros Hinv. destruct (C Hinv) as [C1 C2]. destruct (Hc Hinv i e Hi) as [E1 E2].
      split; [rewrite E1; assumption|]. intros p. rewrite E2. apply C2. }
    destruct inverse eqn:Einv.
    - destruct (to t) as [o|c dt] eqn:Eo.
      + destruct (tracked J1 (nid o)) eqn:Htr; intros E; injection E as <-.
        * apply object_order; assumption.
        * apply Keep. intros _ i e Hi.
          assert (Es : str_eqb (nid o) i = false).
          { apply str_eqb_neq. intros E. subst i. unfold tracked, dmem in Htr. rewrite Hi in Htr. discriminate. }
          cbn [touches contrib]. rewrite Eo, Es. cbn [andb]. split; [apply app_nil_r | intros p; apply app_nil_r].
      + intros E. injection E as <-. apply Keep. intros _ i e Hi.
        cbn [touches contrib]. rewrite Eo. split; [apply app_nil_r | intros p; apply app_nil_r].
    - intros E. injection E as <-. apply Keep. intros Hf. discriminate.
  Qed.

  Lemma all_order g : forall J sP sPi sK sKi ID,
    InvO J sP sPi sK sKi ->
    annotate_all tau inverse g J = inl ID ->
    InvO ID (fun i => sP i ++ pseq Direct g i) (fun i => sPi i ++ pseq Inverse g i)
            (fun i p => sK i p ++ kseq Direct g i p) (fun i p => sKi i p ++ kseq Inverse g i p).
  Proof.
    induction g as [|t g IH]; intros J sP sPi sK sKi ID HInv; cbn [annotate_all].
    - intros E. injection E as <-.
      eapply InvO_ext; [| | | |exact HInv]; intros; cbn; rewrite app_nil_r; reflexivity.
    - destruct (annotate_triple tau inverse J t) as [J'|e] eqn:ET; [|discriminate].
      intros EA. pose proof (triple_order _ _ _ _ _ _ _ HInv ET) as Inv'.
      pose proof (IH _ _ _ _ _ _ Inv' EA) as InvID.
      eapply InvO_ext; [| | | |exact InvID]; intros; cbn beta;
        rewrite ?pseq_cons, ?kseq_cons, <- ?app_assoc; reflexivity.
  Qed.

  (** *** order of the instance features after the pass *)
  Theorem annotate_all_order_char G ID :
    annotate_all tau inverse G (adapt I) = inl ID ->
    forall i e, dget ID i = Some e ->
      dkeys (i_direct e) = inst_props Direct G i /\
      (forall p m, dget (i_direct e) p = Some m -> dkeys m = inst_keys Direct tau I G i p) /\
      (inverse = true ->
       dkeys (i_inverse e) = inst_props Inverse G i /\
       (forall p m, dget (i_inverse e) p = Some m -> dkeys m = inst_keys Inverse tau I G i p)).
  Proof.
    intros HA i e Hi. destruct (all_order G _ _ _ _ _ _ InvO_adapt HA) as [_ H].
    destruct (H i e Hi) as [A [B C]]. cbn [app] in *.
    unfold inst_props, inst_keys. rewrite !uniq_first_first_occ.
    split; [exact A|]. split.
    - intros p m Hm. specialize (B p). unfold fsub in B. rewrite Hm in B. rewrite uniq_first_first_occ. exact B.
    - intros Hinv. destruct (C Hinv) as [C1 C2]. rewrite uniq_first_first_occ. split; [exact C1|].
      intros p m Hm. specialize (C2 p). unfold fsub in C2. rewrite Hm in C2. rewrite uniq_first_first_occ. exact C2.
  Qed.
End Order.
