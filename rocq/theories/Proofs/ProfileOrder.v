(** * Key orders of the profile (complement to [ProfileChar.v]).

    Every dictionary of the profile lists its keys in first-occurrence order:
    [annotate_all_order_char] for the instance features,
    [profile_order_char] for the class profile before cleaning (cleaning keeps
    the order: [dkeys_remove_iteration], [dkeys_remove_keys_pdict],
    [dkeys_dget_remove_keys_pdict] in [ProfileChar.v]). *)
From Coq Require Import List Ascii String ZArith NArith Bool Lia Permutation.
From Shexer Require Import Lib.PyStr Lib.Dict Gen.Consts Spec.Rdf Model.Tracker Model.Profiler
     Spec.Counts Proofs.DictLemmas Proofs.ProfileChar.
Import ListNotations.
Local Open Scope N_scope.

(** ** lists *)

Lemma first_occ_app l l' : first_occ (l ++ l') = fold_left add_new l' (first_occ l).
Proof. rewrite <- !first_occ_fold. apply fold_left_app. Qed.

Lemma first_occ_snoc l x : first_occ (l ++ [x]) = add_new (first_occ l) x.
Proof. rewrite first_occ_app. reflexivity. Qed.

Lemma fold_add_new_drop_seen x L : forall acc,
  In x acc ->
  fold_left add_new (filter (fun y => negb (str_eqb y x)) L) acc = fold_left add_new L acc.
Proof.
  induction L as [|y L IH]; intros acc Hx; cbn [filter fold_left]; [reflexivity|].
  destruct (str_eqb y x) eqn:E; cbn [negb fold_left].
  - apply str_eqb_eq in E. subst y. rewrite add_new_mem by (apply mem_str_In; assumption).
    apply IH. assumption.
  - apply IH. apply In_add_new. left. assumption.
Qed.

Lemma fold_add_new_first_occ_arg l : forall acc,
  fold_left add_new (first_occ l) acc = fold_left add_new l acc.
Proof.
  induction l as [|x l IH]; intros acc; cbn [first_occ fold_left]; [reflexivity|].
  rewrite fold_add_new_drop_seen by (apply In_add_new; right; reflexivity).
  apply IH.
Qed.

(** first occurrences of a concatenation of first-occurrence lists *)
Lemma first_occ_app_first_occ l l' : first_occ (l ++ first_occ l') = first_occ (l ++ l').
Proof. rewrite !first_occ_app. apply fold_add_new_first_occ_arg. Qed.

(** ** instance features *)

Definition fsub (f : feat) (p : str) : dict N :=
  match dget f p with Some m => m | None => [] end.

Lemma dkeys_incr_feat f p k : dkeys (incr_feat f p k) = add_new (dkeys f) p.
Proof. rewrite incr_feat_incrN. apply dkeys_dupd_add_new. Qed.

Lemma fsub_incr_feat f p k p' :
  fsub (incr_feat f p k) p' = if str_eqb p p' then incrN (fsub f p) k else fsub f p'.
Proof.
  unfold fsub. rewrite incr_feat_incrN, dget_dupd. unfold dupd_val.
  destruct (str_eqb p p') eqn:E; [|reflexivity].
  destruct (dget f p); reflexivity.
Qed.

Lemma dkeys_annotate_keys ks : forall f p,
  ks <> [] -> dkeys (annotate_keys f p ks) = add_new (dkeys f) p.
Proof.
  unfold annotate_keys. induction ks as [|k ks IH]; intros f p H; [congruence|].
  cbn [fold_left]. destruct ks as [|k' ks].
  - cbn [fold_left]. apply dkeys_incr_feat.
  - rewrite IH by discriminate. rewrite dkeys_incr_feat. apply add_new_idem.
Qed.

Lemma fsub_annotate_keys ks : forall f p p',
  fsub (annotate_keys f p ks) p' =
  if str_eqb p p' then fold_left incrN ks (fsub f p) else fsub f p'.
Proof.
  unfold annotate_keys. induction ks as [|k ks IH]; intros f p p'; cbn [fold_left].
  - destruct (str_eqb p p') eqn:E; [|reflexivity]. apply str_eqb_eq in E. subst. reflexivity.
  - rewrite IH. destruct (str_eqb p p') eqn:E.
    + rewrite fsub_incr_feat, str_eqb_refl. reflexivity.
    + rewrite fsub_incr_feat, E. reflexivity.
Qed.

Lemma dkeys_fsub_annotate_keys ks f p p' :
  dkeys (fsub (annotate_keys f p ks) p') =
  fold_left add_new (if str_eqb p p' then ks else []) (dkeys (fsub f p')).
Proof.
  rewrite fsub_annotate_keys. destruct (str_eqb p p') eqn:E; [|reflexivity].
  apply str_eqb_eq in E. subst. apply dkeys_fold_incrN.
Qed.

Section Order.
  Variables (tau : str) (inverse : bool) (I : insts).

  (** the sequences of the spec, unfolded *)
  Definition pseq (dir : direction) (g : graph) (i : str) : list str :=
    map tp (filter (fun t => touches dir t i) g).

  Definition kseq (dir : direction) (g : graph) (i p : str) : list str :=
    List.concat (map (fun t => contrib dir tau I t i p) g).

  Lemma pseq_cons dir t g i :
    pseq dir (t :: g) i = (if touches dir t i then [tp t] else []) ++ pseq dir g i.
  Proof. unfold pseq. cbn [filter]. destruct (touches dir t i); reflexivity. Qed.

  Lemma kseq_cons dir t g i p : kseq dir (t :: g) i p = contrib dir tau I t i p ++ kseq dir g i p.
  Proof. reflexivity. Qed.

  Definition InvO (J : idict) (sP sPi : str -> list str) (sK sKi : str -> str -> list str) : Prop :=
    dmapv i_classes J = I /\
    forall i e, dget J i = Some e ->
      dkeys (i_direct e) = first_occ (sP i) /\
      (forall p, dkeys (fsub (i_direct e) p) = first_occ (sK i p)) /\
      (inverse = true ->
       dkeys (i_inverse e) = first_occ (sPi i) /\
       (forall p, dkeys (fsub (i_inverse e) p) = first_occ (sKi i p))).

  Lemma InvO_ext J sP sPi sK sKi sP' sPi' sK' sKi' :
    (forall i, sP i = sP' i) -> (forall i, sPi i = sPi' i) ->
    (forall i p, sK i p = sK' i p) -> (forall i p, sKi i p = sKi' i p) ->
    InvO J sP sPi sK sKi -> InvO J sP' sPi' sK' sKi'.
  Proof.
    intros H1 H2 H3 H4 [HC H]. split; [assumption|]. intros i e Hi.
    destruct (H i e Hi) as [A [B C]]. split; [rewrite <- H1; assumption|].
    split; [intros p; rewrite <- H3; apply B|].
    intros Hinv. destruct (C Hinv) as [C1 C2]. split; [rewrite <- H2; assumption|].
    intros p. rewrite <- H4. apply C2.
  Qed.

  Lemma InvO_adapt : InvO (adapt I) (fun _ => []) (fun _ => []) (fun _ _ => []) (fun _ _ => []).
  Proof.
    split; [apply dmapv_classes_adapt|]. intros i e Hi.
    rewrite adapt_dmapv, dget_dmapv in Hi. destruct (dget I i) as [cs|]; [|discriminate].
    cbn in Hi. inversion Hi. subst e. cbn [mk_entry i_direct i_inverse].
    split; [reflexivity|]. split; [intros p; reflexivity|]. intros _. split; [reflexivity | intros p; reflexivity].
  Qed.

  Lemma subject_order J sP sPi sK sKi t ty :
    InvO J sP sPi sK sKi -> tracked J (nid (ts t)) = true ->
    type_of_obj tau (tp t) (to t) = Some ty ->
    InvO (dupd J (nid (ts t)) {| i_classes := []; i_direct := []; i_inverse := [] |}
            (fun e => {| i_classes := i_classes e;
                         i_direct := annotate_keys (i_direct e) (tp t)
                                       (ty :: (if is_node_type ty
                                               then match to t with ON n => shapes_of J (nid n) | OL _ _ => [] end
                                               else []));
                         i_inverse := i_inverse e |}))
         (fun i => sP i ++ (if touches Direct t i then [tp t] else [])) sPi
         (fun i p => sK i p ++ contrib Direct tau I t i p) sKi.
  Proof.
    intros [HC H] Htr Ety.
    pose proof (keys_direct_model tau I J t ty HC Ety) as HK.
    remember (ty :: _) as ks eqn:Eks in *.
    assert (NE : ks <> []) by (rewrite Eks; discriminate).
    clear Eks. split.
    - etransitivity; [|exact HC]. apply dmapv_dupd_absorb; [reflexivity | exact Htr].
    - intros i e' Hi. rewrite dget_dupd in Hi. unfold dupd_val in Hi. cbn [touches contrib].
      destruct (str_eqb (nid (ts t)) i) eqn:Es.
      + apply str_eqb_eq in Es. subst i.
        unfold tracked in Htr. apply dmem_dget in Htr. destruct Htr as [e He].
        rewrite He in Hi. inversion Hi. subst e'. cbn [i_classes i_direct i_inverse].
        destruct (H _ e He) as [A [B C]]. split; [|split].
        * rewrite dkeys_annotate_keys by assumption. rewrite A. symmetry. apply first_occ_snoc.
        * intros p. rewrite dkeys_fsub_annotate_keys, B. cbn [andb].
          rewrite first_occ_app. destruct (str_eqb (tp t) p); [rewrite HK; reflexivity | reflexivity].
        * assumption.
      + destruct (H i e' Hi) as [A [B C]]. split; [|split].
        * rewrite app_nil_r. assumption.
        * intros p. cbn [andb]. rewrite app_nil_r. apply B.
        * assumption.
  Qed.

  Lemma object_order J sP sPi sK sKi t o :
    to t = ON o ->
    InvO J sP sPi sK sKi -> tracked J (nid o) = true ->
    InvO (annotate_object tau J t o) sP
         (fun i => sPi i ++ (if touches Inverse t i then [tp t] else [])) sK
         (fun i p => sKi i p ++ contrib Inverse tau I t i p).
  Proof.
    intros Ho [HC H] Htr. unfold annotate_object.
    pose proof (keys_inverse_model tau I J t HC) as HK. cbn zeta in HK.
    remember (type_of_subj tau (tp t) (ts t) :: _) as ks eqn:Eks in *.
    assert (NE : ks <> []) by (rewrite Eks; discriminate).
    clear Eks. split.
    - etransitivity; [|exact HC]. apply dmapv_dupd_absorb; [reflexivity | exact Htr].
    - intros i e' Hi. rewrite dget_dupd in Hi. unfold dupd_val in Hi. cbn [touches contrib]. rewrite Ho.
      destruct (str_eqb (nid o) i) eqn:Es.
      + apply str_eqb_eq in Es. subst i.
        unfold tracked in Htr. apply dmem_dget in Htr. destruct Htr as [e He].
        rewrite He in Hi. inversion Hi. subst e'. cbn [i_classes i_direct i_inverse].
        destruct (H _ e He) as [A [B C]]. split; [assumption|]. split; [assumption|].
        intros Hinv. destruct (C Hinv) as [C1 C2]. split.
        * rewrite dkeys_annotate_keys by assumption. rewrite C1. symmetry. apply first_occ_snoc.
        * intros p. rewrite dkeys_fsub_annotate_keys, C2. cbn [andb].
          rewrite first_occ_app. destruct (str_eqb (tp t) p); [rewrite HK; reflexivity | reflexivity].
      + destruct (H i e' Hi) as [A [B C]]. split; [assumption|]. split; [assumption|].
        intros Hinv. destruct (C Hinv) as [C1 C2]. split.
        * rewrite app_nil_r. assumption.
        * intros p. cbn [andb]. rewrite app_nil_r. apply C2.
  Qed.

  Lemma touches_untracked_direct J t i e :
    tracked J (nid (ts t)) = false -> dget J i = Some e -> touches Direct t i = false.
  Proof.
    intros Htr Hi. cbn. apply str_eqb_neq. intros E. subst i.
    unfold tracked, dmem in Htr. rewrite Hi in Htr. discriminate.
  Qed.

  Lemma triple_order J sP sPi sK sKi t J' :
    InvO J sP sPi sK sKi ->
    annotate_triple tau inverse J t = inl J' ->
    InvO J' (fun i => sP i ++ (if touches Direct t i then [tp t] else []))
            (fun i => sPi i ++ (if touches Inverse t i then [tp t] else []))
            (fun i p => sK i p ++ contrib Direct tau I t i p)
            (fun i p => sKi i p ++ contrib Inverse tau I t i p).
  Proof.
    intros HInv. unfold annotate_triple.
    assert (S1 : forall J1,
      (if tracked J (nid (ts t)) then annotate_subject tau J t else inl J) = inl J1 ->
      InvO J1 (fun i => sP i ++ (if touches Direct t i then [tp t] else [])) sPi
              (fun i p => sK i p ++ contrib Direct tau I t i p) sKi).
    { intros J1. destruct (tracked J (nid (ts t))) eqn:Htr.
      - unfold annotate_subject. destruct (type_of_obj tau (tp t) (to t)) as [ty|] eqn:Ety; [|discriminate].
        intros E. injection E as <-. apply subject_order; assumption.
      - intros E. injection E as <-. destruct HInv as [HC H]. split; [assumption|].
        intros i e Hi. destruct (H i e Hi) as [A [B C]].
        pose proof (touches_untracked_direct J t i e Htr Hi) as Ht.
        split; [rewrite Ht, app_nil_r; assumption|]. split; [|assumption].
        intros p. cbn [contrib]. cbn [touches] in Ht. rewrite Ht. cbn [andb]. rewrite app_nil_r. apply B. }
    destruct (if tracked J (nid (ts t)) then annotate_subject tau J t else inl J) as [J1|e]; [|discriminate].
    specialize (S1 J1 eq_refl).
    assert (Keep : forall sPi' sKi',
      (inverse = true -> forall i e, dget J1 i = Some e ->
         sPi' i = sPi i /\ forall p, sKi' i p = sKi i p) ->
      InvO J1 (fun i => sP i ++ (if touches Direct t i then [tp t] else [])) sPi'
              (fun i p => sK i p ++ contrib Direct tau I t i p) sKi').
    { intros sPi' sKi' Hc. destruct S1 as [HC H]. split; [assumption|]. intros i e Hi.
      destruct (H i e Hi) as [A [B C]]. split; [assumption|]. split; [assumption|].
      intros Hinv. destruct (C Hinv) as [C1 C2]. destruct (Hc Hinv i e Hi) as [E1 E2].
      split; [rewrite E1; assumption|]. intros p. rewrite E2. apply C2. }
    destruct inverse eqn:Einv.
    - destruct (to t) as [o|c dt] eqn:Eo.
      + destruct (tracked J1 (nid o)) eqn:Htr; intros E; injection E as <-.
        * apply object_order; assumption.
        * apply Keep. intros _ i e Hi.
          assert (Es : str_eqb (nid o) i = false).
          { apply str_eqb_neq. intros E. subst i. unfold tracked, dmem in Htr. rewrite Hi in Htr. discriminate. }
          cbn [touches contrib]. rewrite Eo, Es. cbn [andb]. split; [apply app_nil_r | intros p; apply app_nil_r].
      + intros E. injection E as <-. apply Keep. intros _ i e Hi.
        cbn [touches contrib]. rewrite Eo. split; [apply app_nil_r | intros p; apply app_nil_r].
    - intros E. injection E as <-. apply Keep. intros Hf. discriminate.
  Qed.

  Lemma all_order g : forall J sP sPi sK sKi ID,
    InvO J sP sPi sK sKi ->
    annotate_all tau inverse g J = inl ID ->
    InvO ID (fun i => sP i ++ pseq Direct g i) (fun i => sPi i ++ pseq Inverse g i)
            (fun i p => sK i p ++ kseq Direct g i p) (fun i p => sKi i p ++ kseq Inverse g i p).
  Proof.
    induction g as [|t g IH]; intros J sP sPi sK sKi ID HInv; cbn [annotate_all].
    - intros E. injection E as <-.
      eapply InvO_ext; [| | | |exact HInv]; intros; cbn; rewrite app_nil_r; reflexivity.
    - destruct (annotate_triple tau inverse J t) as [J'|e] eqn:ET; [|discriminate].
      intros EA. pose proof (triple_order _ _ _ _ _ _ _ HInv ET) as Inv'.
      pose proof (IH _ _ _ _ _ _ Inv' EA) as InvID.
      eapply InvO_ext; [| | | |exact InvID]; intros; cbn beta;
        rewrite ?pseq_cons, ?kseq_cons, <- ?app_assoc; reflexivity.
  Qed.

  (** *** order of the instance features after the pass *)
  Theorem annotate_all_order_char G ID :
    annotate_all tau inverse G (adapt I) = inl ID ->
    forall i e, dget ID i = Some e ->
      dkeys (i_direct e) = inst_props Direct G i /\
      (forall p, dkeys (fsub (i_direct e) p) = inst_keys Direct tau I G i p) /\
      (forall p m, dget (i_direct e) p = Some m -> dkeys m = inst_keys Direct tau I G i p) /\
      (inverse = true ->
       dkeys (i_inverse e) = inst_props Inverse G i /\
       (forall p, dkeys (fsub (i_inverse e) p) = inst_keys Inverse tau I G i p) /\
       (forall p m, dget (i_inverse e) p = Some m -> dkeys m = inst_keys Inverse tau I G i p)).
  Proof.
    intros HA i e Hi. destruct (all_order G _ _ _ _ _ _ InvO_adapt HA) as [_ H].
    destruct (H i e Hi) as [A [B C]]. cbn [app] in *.
    unfold inst_props, inst_keys. rewrite !uniq_first_first_occ.
    split; [exact A|]. split; [|split].
    - intros p. rewrite uniq_first_first_occ. apply B.
    - intros p m Hm. specialize (B p). unfold fsub in B. rewrite Hm in B. rewrite uniq_first_first_occ. exact B.
    - intros Hinv. destruct (C Hinv) as [C1 C2]. rewrite uniq_first_first_occ. split; [exact C1|]. split.
      + intros p. rewrite uniq_first_first_occ. apply C2.
      + intros p m Hm. specialize (C2 p). unfold fsub in C2. rewrite Hm in C2. rewrite uniq_first_first_occ. exact C2.
  Qed.
End Order.

(** ** no property of an instance has an empty key dictionary *)

Definition feat_ne (f : feat) : Prop := Forall (fun pm : str * dict N => snd pm <> []) f.

Lemma feat_ne_incr_feat f p k : feat_ne f -> feat_ne (incr_feat f p k).
Proof.
  intros H. rewrite incr_feat_incrN. apply Forall_dupd; [assumption | |].
  - intros m _ _. cbn [snd]. unfold incrN. apply dupd_not_nil.
  - intros _. cbn [snd]. unfold incrN. apply dupd_not_nil.
Qed.

Lemma feat_ne_annotate_keys ks : forall f p, feat_ne f -> feat_ne (annotate_keys f p ks).
Proof.
  unfold annotate_keys. induction ks as [|k ks IH]; intros f p H; cbn [fold_left]; [assumption|].
  apply IH. apply feat_ne_incr_feat. assumption.
Qed.

Definition idict_ne (J : idict) : Prop :=
  Forall (fun ie : str * ientry => feat_ne (i_direct (snd ie)) /\ feat_ne (i_inverse (snd ie))) J.

Lemma idict_ne_triple tau inverse J t J' :
  idict_ne J -> annotate_triple tau inverse J t = inl J' -> idict_ne J'.
Proof.
  intros H. unfold annotate_triple.
  assert (S1 : forall J1, (if tracked J (nid (ts t)) then annotate_subject tau J t else inl J) = inl J1 -> idict_ne J1).
  { intros J1. destruct (tracked J (nid (ts t))); [|intros E; injection E as <-; assumption].
    unfold annotate_subject. destruct (type_of_obj tau (tp t) (to t)); [|discriminate].
    intros E. injection E as <-. apply Forall_dupd; [assumption | |].
    - intros e _ [N1 N2]. split; [|exact N2].
      apply feat_ne_annotate_keys; try apply feat_ne_incr_feat; exact N1.
    - intros _. split; [|constructor].
      apply feat_ne_annotate_keys; try apply feat_ne_incr_feat; constructor. }
  destruct (if tracked J (nid (ts t)) then annotate_subject tau J t else inl J) as [J1|e]; [|discriminate].
  specialize (S1 J1 eq_refl).
  assert (S2 : forall o, idict_ne (annotate_object tau J1 t o)).
  { intros o. unfold annotate_object. apply Forall_dupd; [assumption | |].
    - intros e _ [N1 N2]. split; [exact N1|].
      apply feat_ne_annotate_keys; try apply feat_ne_incr_feat; exact N2.
    - intros _. split; [constructor|].
      apply feat_ne_annotate_keys; try apply feat_ne_incr_feat; constructor. }
  destruct inverse; [|intros E; injection E as <-; assumption].
  destruct (to t) as [o|c dt]; [|intros E; injection E as <-; assumption].
  destruct (tracked J1 (nid o)); intros E; injection E as <-; [apply S2 | assumption].
Qed.

Lemma idict_ne_all tau inverse g : forall J ID,
  idict_ne J -> annotate_all tau inverse g J = inl ID -> idict_ne ID.
Proof.
  induction g as [|t g IH]; intros J ID H; cbn [annotate_all].
  - intros E. injection E as <-. assumption.
  - destruct (annotate_triple tau inverse J t) as [J'|e] eqn:ET; [|discriminate].
    apply IH. apply (idict_ne_triple tau inverse J t J' H ET).
Qed.

Lemma idict_ne_adapt I : idict_ne (adapt I).
Proof.
  unfold idict_ne, adapt. apply Forall_forall. intros ie H. apply in_map_iff in H.
  destruct H as [x [<- _]]. cbn. split; constructor.
Qed.

(** ** "append if new" folds, generically *)

Section GenAdd.
  Context {A : Type} (eqb : A -> A -> bool).
  Hypothesis eqb_eq : forall a b, eqb a b = true <-> a = b.

  Definition gadd (acc : list A) (x : A) : list A :=
    if existsb (eqb x) acc then acc else acc ++ [x].

  Lemma existsb_eqb_In x l : existsb (eqb x) l = true <-> In x l.
  Proof.
    rewrite existsb_exists. split.
    - intros [y [Hy E]]. apply eqb_eq in E. subst. assumption.
    - intros H. exists x. split; [assumption | apply eqb_eq; reflexivity].
  Qed.

  Lemma In_gadd acc x y : In y (gadd acc x) <-> In y acc \/ y = x.
  Proof.
    unfold gadd. destruct (existsb (eqb x) acc) eqn:E.
    - apply existsb_eqb_In in E. split; [auto|]. intros [H|H]; [assumption | subst; assumption].
    - rewrite in_app_iff. cbn. split; intros [H|H]; auto. destruct H as [H|[]]. auto.
  Qed.

  Lemma In_fold_gadd l : forall acc y, In y (fold_left gadd l acc) <-> In y acc \/ In y l.
  Proof.
    induction l as [|x l IH]; intros acc y; cbn [fold_left]; [cbn; tauto|].
    rewrite IH, In_gadd. cbn. split; intros H; intuition.
  Qed.

  Lemma fold_gadd_absorbed l : forall acc,
    (forall x, In x l -> In x acc) -> fold_left gadd l acc = acc.
  Proof.
    induction l as [|x l IH]; intros acc H; cbn [fold_left]; [reflexivity|].
    assert (E : gadd acc x = acc).
    { unfold gadd. assert (Hx : existsb (eqb x) acc = true) by (apply existsb_eqb_In, H; left; reflexivity).
      rewrite Hx. reflexivity. }
    rewrite E. apply IH. intros y Hy. apply H. right. assumption.
  Qed.

  Lemma fold_gadd_idem l acc :
    fold_left gadd l (fold_left gadd l acc) = fold_left gadd l acc.
  Proof. apply fold_gadd_absorbed. intros x Hx. apply In_fold_gadd. right. assumption. Qed.

  (** a run of equal elements adds at most one *)
  Lemma fold_gadd_const l x acc :
    (forall y, In y l -> y = x) -> l <> [] -> fold_left gadd l acc = gadd acc x.
  Proof.
    intros H NE. destruct l as [|y l]; [congruence|]. cbn [fold_left].
    assert (y = x) by (apply H; left; reflexivity). subst y.
    apply fold_gadd_absorbed. intros z Hz. apply In_gadd. right. apply H. right. assumption.
  Qed.
End GenAdd.

Lemma mem_str_existsb x l : mem_str x l = existsb (str_eqb x) l.
Proof. induction l as [|y l IH]; cbn; [reflexivity|]. rewrite IH. reflexivity. Qed.

Lemma add_new_gadd acc x : add_new acc x = gadd str_eqb acc x.
Proof. unfold add_new, gadd. rewrite mem_str_existsb. reflexivity. Qed.

Lemma fold_add_new_gadd l : forall acc, fold_left add_new l acc = fold_left (gadd str_eqb) l acc.
Proof.
  induction l as [|x l IH]; intros acc; cbn [fold_left]; [reflexivity|].
  rewrite add_new_gadd. apply IH.
Qed.

Lemma fold_add_new_idem l acc : fold_left add_new l (fold_left add_new l acc) = fold_left add_new l acc.
Proof. rewrite !fold_add_new_gadd. apply (fold_gadd_idem str_eqb str_eqb_eq). Qed.

Lemma fold_add_new_const l x acc :
  (forall y, In y l -> y = x) -> l <> [] -> fold_left add_new l acc = add_new acc x.
Proof. intros H NE. rewrite fold_add_new_gadd, add_new_gadd. apply (fold_gadd_const str_eqb str_eqb_eq); assumption. Qed.

Lemma add_new_ckey_gadd acc c : add_new_ckey acc c = gadd ckey_eqb acc c.
Proof. reflexivity. Qed.

Lemma fold_add_new_ckey_idem l acc :
  fold_left add_new_ckey l (fold_left add_new_ckey l acc) = fold_left add_new_ckey l acc.
Proof. apply (fold_gadd_idem ckey_eqb ckey_eqb_eq). Qed.

Lemma fold_left_concat_map {A B C : Type} (g : A -> B -> A) (h : C -> list B) (l : list C) : forall a,
  fold_left (fun a x => fold_left g (h x) a) l a = fold_left g (List.concat (map h l)) a.
Proof.
  induction l as [|x l IH]; intros a; cbn [fold_left map List.concat]; [reflexivity|].
  rewrite fold_left_app. apply IH.
Qed.

(** ** order inside a class entry *)

Definition psub (d : pdict) (p : str) : dict cdict :=
  match dget d p with Some m => m | None => [] end.

Definition csub (m : dict cdict) (k : str) : cdict :=
  match dget m k with Some cd => cd | None => [] end.

Definition tp1 (x : str * str * ckey) : str := fst (fst x).
Definition tp2 (x : str * str * ckey) : str := snd (fst x).
Definition tp3 (x : str * str * ckey) : ckey := snd x.

Lemma ckeys_cincr_add cd c : ckeys (cincr cd c) = add_new_ckey (ckeys cd) c.
Proof. rewrite ckeys_cincr. reflexivity. Qed.

Lemma dkeys_pincr d x : dkeys (pincr d x) = add_new (dkeys d) (tp1 x).
Proof. destruct x as [[p k] c]. unfold pincr. apply dkeys_dupd_add_new. Qed.

Lemma psub_pincr d x p' :
  psub (pincr d x) p' =
  if str_eqb (tp1 x) p' then dupd (psub d (tp1 x)) (tp2 x) [] (fun cd => cincr cd (tp3 x)) else psub d p'.
Proof.
  destruct x as [[p k] c]. unfold psub, pincr, tp1, tp2, tp3. cbn [fst snd].
  rewrite dget_dupd. unfold dupd_val.
  destruct (str_eqb p p') eqn:E; [|reflexivity]. destruct (dget d p); reflexivity.
Qed.

Lemma csub_dupd_cincr m k c k' :
  csub (dupd m k [] (fun cd => cincr cd c)) k' = if str_eqb k k' then cincr (csub m k) c else csub m k'.
Proof.
  unfold csub. rewrite dget_dupd. unfold dupd_val.
  destruct (str_eqb k k') eqn:E; [|reflexivity]. unfold cdict in *. destruct (dget m k); reflexivity.
Qed.

Lemma order_fold_pincr l : forall d,
  dkeys (fold_left pincr l d) = fold_left add_new (map tp1 l) (dkeys d) /\
  (forall p, dkeys (psub (fold_left pincr l d) p) =
             fold_left add_new (map tp2 (filter (fun x => str_eqb (tp1 x) p) l)) (dkeys (psub d p))) /\
  (forall p k, ckeys (csub (psub (fold_left pincr l d) p) k) =
               fold_left add_new_ckey
                 (map tp3 (filter (fun x => str_eqb (tp1 x) p && str_eqb (tp2 x) k) l))
                 (ckeys (csub (psub d p) k))).
Proof.
  induction l as [|x l IH]; intros d; cbn [fold_left map filter].
  - split; [reflexivity|]. split; intros; reflexivity.
  - destruct (IH (pincr d x)) as [H1 [H2 H3]]. split; [|split].
    + rewrite H1, dkeys_pincr. reflexivity.
    + intros p. rewrite H2, psub_pincr. destruct (str_eqb (tp1 x) p) eqn:E; [|reflexivity].
      apply str_eqb_eq in E. subst p. cbn [map fold_left]. rewrite dkeys_dupd_add_new. reflexivity.
    + intros p k. rewrite H3, psub_pincr. destruct (str_eqb (tp1 x) p) eqn:E; cbn [andb]; [|reflexivity].
      apply str_eqb_eq in E. subst p. rewrite csub_dupd_cincr.
      destruct (str_eqb (tp2 x) k) eqn:E2; [|reflexivity].
      apply str_eqb_eq in E2. subst k. cbn [map fold_left]. rewrite ckeys_cincr_add. reflexivity.
Qed.

(** ** the tuple list of an instance, seen through the three projections *)

Lemma tp1_tuples_prop tau p m x : In x (tuples_prop tau p m) -> tp1 x = p.
Proof.
  induction m as [|[k n] m IH]; [intros []|].
  rewrite tuples_prop_cons, in_app_iff. intros [H|H]; [|apply IH; assumption].
  destruct (str_eqb p tau); cbn in H; intuition (subst; reflexivity).
Qed.

Lemma tuples_prop_not_nil tau p m : m <> [] -> tuples_prop tau p m <> [].
Proof.
  destruct m as [|[k n] m]; [congruence|]. intros _. rewrite tuples_prop_cons.
  destruct (str_eqb p tau); discriminate.
Qed.

(** T1: property keys *)
Lemma tuples_of_tp1 tau f : forall acc,
  feat_ne f ->
  fold_left add_new (map tp1 (tuples_of tau f)) acc = fold_left add_new (dkeys f) acc.
Proof.
  induction f as [|[p m] f IH]; intros acc NE; [reflexivity|].
  inversion NE as [|? ? NEm NE']. subst. cbn [snd] in NEm.
  rewrite tuples_of_cons, map_app, fold_left_app.
  rewrite (fold_add_new_const (map tp1 (tuples_prop tau p m)) p acc).
  - change (dkeys ((p, m) :: f)) with (p :: dkeys f). cbn [fold_left]. apply IH. assumption.
  - intros y Hy. apply in_map_iff in Hy. destruct Hy as [x [<- Hx]]. apply (tp1_tuples_prop tau p m x Hx).
  - intros E. apply map_eq_nil in E. apply (tuples_prop_not_nil tau p m NEm E).
Qed.

Lemma filter_tp1_tuples_prop_same tau p m :
  filter (fun x => str_eqb (tp1 x) p) (tuples_prop tau p m) = tuples_prop tau p m.
Proof.
  apply filter_all_true. intros x Hx. rewrite (tp1_tuples_prop tau p m x Hx). apply str_eqb_refl.
Qed.

Lemma filter_tp1_tuples_prop_other tau p0 m p :
  str_eqb p0 p = false -> filter (fun x => str_eqb (tp1 x) p) (tuples_prop tau p0 m) = [].
Proof.
  intros E. apply filter_all_false. intros x Hx. rewrite (tp1_tuples_prop tau p0 m x Hx). assumption.
Qed.

Lemma filter_tp1_tuples_of_notin tau f p :
  ~ In p (dkeys f) -> filter (fun x => str_eqb (tp1 x) p) (tuples_of tau f) = [].
Proof.
  induction f as [|[p0 m] f IH]; intros Hn; [reflexivity|].
  rewrite tuples_of_cons, filter_app, IH by (intros H; apply Hn; right; assumption).
  rewrite filter_tp1_tuples_prop_other; [reflexivity|].
  apply str_eqb_neq. intros ->. apply Hn. left. reflexivity.
Qed.

Lemma tuples_prop_tp2 tau p m : forall acc,
  fold_left add_new (map tp2 (tuples_prop tau p m)) acc = fold_left add_new (dkeys m) acc.
Proof.
  induction m as [|[k n] m IH]; intros acc; [reflexivity|].
  rewrite tuples_prop_cons, map_app, fold_left_app.
  change (dkeys ((k, n) :: m)) with (k :: dkeys m). cbn [fold_left].
  destruct (str_eqb p tau); cbn [map fold_left tp2 fst snd]; rewrite ?add_new_idem; apply IH.
Qed.

(** T2: type keys of property [p] *)
Lemma tuples_of_tp2 tau f p : forall acc,
  NoDup (dkeys f) ->
  fold_left add_new (map tp2 (filter (fun x => str_eqb (tp1 x) p) (tuples_of tau f))) acc =
  fold_left add_new (dkeys (fsub f p)) acc.
Proof.
  induction f as [|[p0 m] f IH]; intros acc ND; [reflexivity|].
  cbn [dkeys map fst] in ND. inversion ND as [|? ? Hp0 ND']. subst.
  rewrite tuples_of_cons, filter_app. unfold fsub. cbn [dget].
  destruct (str_eqb p p0) eqn:E.
  - apply str_eqb_eq in E. subst p0.
    rewrite filter_tp1_tuples_prop_same, (filter_tp1_tuples_of_notin tau f p Hp0), app_nil_r.
    apply tuples_prop_tp2.
  - rewrite filter_tp1_tuples_prop_other by (rewrite str_eqb_sym; assumption). cbn [app].
    apply (IH acc ND').
Qed.

Lemma tuples_prop_tp3_notin tau p m k :
  ~ In k (dkeys m) ->
  filter (fun x => str_eqb (tp1 x) p && str_eqb (tp2 x) k) (tuples_prop tau p m) = [].
Proof.
  induction m as [|[k0 n] m IH]; intros Hn; [reflexivity|].
  rewrite tuples_prop_cons, filter_app, IH by (intros H; apply Hn; right; assumption).
  assert (E : str_eqb k0 k = false) by (apply str_eqb_neq; intros ->; apply Hn; left; reflexivity).
  destruct (str_eqb p tau); cbn [filter tp1 tp2 fst snd]; rewrite E, andb_false_r; reflexivity.
Qed.

Lemma tuples_prop_tp3 tau p m k :
  NoDup (dkeys m) -> posN m ->
  map tp3 (filter (fun x => str_eqb (tp1 x) p && str_eqb (tp2 x) k) (tuples_prop tau p m)) =
  cards_of tau p (getN m k).
Proof.
  induction m as [|[k0 n] m IH]; intros ND PM; [reflexivity|].
  cbn [dkeys map fst] in ND. inversion ND as [|? ? Hk0 ND']. subst.
  inversion PM as [|? ? Hn PM']. subst. cbn [snd] in Hn.
  rewrite tuples_prop_cons, filter_app. unfold getN. cbn [dget].
  destruct (str_eqb k k0) eqn:E.
  - apply str_eqb_eq in E. subst k0.
    rewrite (tuples_prop_tp3_notin tau p m k Hk0), app_nil_r.
    unfold cards_of. assert (Hpos : (0 <? n) = true) by (apply N.ltb_lt; assumption). rewrite Hpos.
    destruct (str_eqb p tau); cbn [filter tp1 tp2 fst snd]; rewrite !str_eqb_refl; reflexivity.
  - assert (E' : str_eqb k0 k = false) by (rewrite str_eqb_sym; assumption).
    replace (filter (fun x => str_eqb (tp1 x) p && str_eqb (tp2 x) k)
               (if str_eqb p tau then [(p, k0, CKn 1)] else [(p, k0, CKn n); (p, k0, CKplus)])) with (@nil (str * str * ckey)).
    + cbn [app]. apply (IH ND' PM').
    + destruct (str_eqb p tau); cbn [filter tp1 tp2 fst snd]; rewrite E', andb_false_r; reflexivity.
Qed.

Lemma filter_tp12_tuples_prop_other tau p0 m p k :
  str_eqb p0 p = false ->
  filter (fun x => str_eqb (tp1 x) p && str_eqb (tp2 x) k) (tuples_prop tau p0 m) = [].
Proof.
  intros E. apply filter_all_false. intros x Hx. rewrite (tp1_tuples_prop tau p0 m x Hx), E. reflexivity.
Qed.

Lemma filter_tp12_tuples_of_notin tau f p k :
  ~ In p (dkeys f) ->
  filter (fun x => str_eqb (tp1 x) p && str_eqb (tp2 x) k) (tuples_of tau f) = [].
Proof.
  induction f as [|[p0 m] f IH]; intros Hn; [reflexivity|].
  rewrite tuples_of_cons, filter_app, IH by (intros H; apply Hn; right; assumption).
  rewrite filter_tp12_tuples_prop_other; [reflexivity|].
  apply str_eqb_neq. intros ->. apply Hn. left. reflexivity.
Qed.

(** T3: cardinalities of (p, k) *)
Lemma tuples_of_tp3 tau f p k :
  feat_wf f ->
  map tp3 (filter (fun x => str_eqb (tp1 x) p && str_eqb (tp2 x) k) (tuples_of tau f)) =
  cards_of tau p (fget f p k).
Proof.
  induction f as [|[p0 m] f IH]; intros [ND FA]; [reflexivity|].
  cbn [dkeys map fst] in ND. inversion ND as [|? ? Hp0 ND']. subst.
  inversion FA as [|? ? [NDm PM] FA']. subst. cbn [snd] in NDm, PM.
  rewrite tuples_of_cons, filter_app, map_app. unfold fget. cbn [dget].
  destruct (str_eqb p p0) eqn:E.
  - apply str_eqb_eq in E. subst p0.
    rewrite (filter_tp12_tuples_of_notin tau f p k Hp0). cbn [map]. rewrite app_nil_r.
    apply tuples_prop_tp3; assumption.
  - rewrite filter_tp12_tuples_prop_other by (rewrite str_eqb_sym; assumption). cbn [map app].
    apply IH. split; assumption.
Qed.

(** ** through the class folds: an observation [obs] of a type-key dictionary
    that a tuple list changes by an idempotent map [A] *)

Lemma obs_fold_for_class {X : Type} (obs : pdict -> X) (A : X -> X) d :
  (forall x, obs (fold_left pincr d x) = A (obs x)) -> (forall y, A (A y) = A y) ->
  forall cs P c,
    obs (cdirect (fold_left (annotate_instance_for_class d) cs P) c) =
    if mem_str c cs then A (obs (cdirect P c)) else obs (cdirect P c).
Proof.
  intros HA Hid. induction cs as [|c0 cs IH]; intros P c; cbn [fold_left mem_str]; [reflexivity|].
  rewrite IH, cdirect_for_class, (str_eqb_sym c0 c). destruct (str_eqb c c0); cbn [orb].
  - rewrite HA. destruct (mem_str c cs); [apply Hid | reflexivity].
  - reflexivity.
Qed.

Lemma obs_fold_inv_for_class {X : Type} (obs : pdict -> X) (A : X -> X) d :
  (forall x, obs (fold_left pincr d x) = A (obs x)) -> (forall y, A (A y) = A y) ->
  forall cs P c,
    obs (cinverse (fold_left (annotate_instance_inv_for_class d) cs P) c) =
    if mem_str c cs then A (obs (cinverse P c)) else obs (cinverse P c).
Proof.
  intros HA Hid. induction cs as [|c0 cs IH]; intros P c; cbn [fold_left mem_str]; [reflexivity|].
  rewrite IH, cinverse_inv_for_class, (str_eqb_sym c0 c). destruct (str_eqb c c0); cbn [orb].
  - rewrite HA. destruct (mem_str c cs); [apply Hid | reflexivity].
  - reflexivity.
Qed.

Section ObsBuild.
  Context {Y : Type} (g : list Y -> Y -> list Y) (obs : pdict -> list Y).
  Hypothesis g_idem : forall l acc, fold_left g l (fold_left g l acc) = fold_left g l acc.
  Variables (tau : str).

  Lemma obs_build_direct inv (L : ientry -> list Y) ID : forall P c,
    (forall ie, In ie ID ->
       forall x, obs (fold_left pincr (tuples_of tau (i_direct (snd ie))) x) = fold_left g (L (snd ie)) (obs x)) ->
    obs (cdirect (build_profile tau inv ID P) c) =
    fold_left g (List.concat (map (fun ie : str * ientry =>
                                     if mem_str c (i_classes (snd ie)) then L (snd ie) else []) ID))
              (obs (cdirect P c)).
  Proof.
    unfold build_profile. induction ID as [|ie ID IH]; intros P c H; cbn [fold_left map List.concat]; [reflexivity|].
    rewrite IH by (intros ie' Hie'; apply H; right; assumption).
    rewrite fold_left_app. f_equal.
    unfold annotate_instance.
    assert (E : obs (cdirect (fold_left (annotate_instance_for_class (tuples_of tau (i_direct (snd ie))))
                                        (i_classes (snd ie)) P) c) =
                if mem_str c (i_classes (snd ie))
                then fold_left g (L (snd ie)) (obs (cdirect P c)) else obs (cdirect P c)).
    { apply (obs_fold_for_class obs (fun acc => fold_left g (L (snd ie)) acc)).
      - apply H. left. reflexivity.
      - intros y. apply g_idem. }
    destruct inv; [rewrite cdirect_fold_inv_for_class|]; rewrite E;
      destruct (mem_str c (i_classes (snd ie))); reflexivity.
  Qed.

  Lemma obs_build_inverse (L : ientry -> list Y) ID : forall P c,
    (forall ie, In ie ID ->
       forall x, obs (fold_left pincr (tuples_of tau (i_inverse (snd ie))) x) = fold_left g (L (snd ie)) (obs x)) ->
    obs (cinverse (build_profile tau true ID P) c) =
    fold_left g (List.concat (map (fun ie : str * ientry =>
                                     if mem_str c (i_classes (snd ie)) then L (snd ie) else []) ID))
              (obs (cinverse P c)).
  Proof.
    unfold build_profile. induction ID as [|ie ID IH]; intros P c H; cbn [fold_left map List.concat]; [reflexivity|].
    rewrite IH by (intros ie' Hie'; apply H; right; assumption).
    rewrite fold_left_app. f_equal.
    unfold annotate_instance.
    rewrite (obs_fold_inv_for_class obs (fun acc => fold_left g (L (snd ie)) acc)).
    - rewrite cinverse_fold_for_class. destruct (mem_str c (i_classes (snd ie))); reflexivity.
    - apply H. left. reflexivity.
    - intros y. apply g_idem.
  Qed.
End ObsBuild.

Lemma concat_map_ID {Y : Type} (ID : idict) (I : insts)
      (hI : str * list str -> list Y) (hID : str * ientry -> list Y) :
  dmapv i_classes ID = I ->
  (forall ie, In ie ID -> hID ie = hI (fst ie, i_classes (snd ie))) ->
  List.concat (map hID ID) = List.concat (map hI I).
Proof.
  intros <- H. unfold dmapv. rewrite map_map. f_equal. apply map_ext_in. exact H.
Qed.

Section ProfileOrder.
  Variables (cfg : pcfg) (I : insts) (G : graph).
  Let tau := p_tau cfg.
  Let inv := p_inverse cfg.

  (** *** order of every dictionary of the raw class profile *)
  Theorem profile_order_char ID P1 C0 :
    NoDup (dkeys I) ->
    annotate_all tau inv G (adapt I) = inl ID ->
    raw_profile cfg I ID = (P1, C0) ->
    forall c e, dget P1 c = Some e ->
      dkeys (c_direct e) = class_props Direct I G c /\
      (forall p, dkeys (psub (c_direct e) p) = class_type_keys Direct tau I G c p) /\
      (forall p k, ckeys (csub (psub (c_direct e) p) k) = class_cards Direct tau I G c p k) /\
      (inv = true ->
       dkeys (c_inverse e) = class_props Inverse I G c /\
       (forall p, dkeys (psub (c_inverse e) p) = class_type_keys Inverse tau I G c p) /\
       (forall p k, ckeys (csub (psub (c_inverse e) p) k) = class_cards Inverse tau I G c p k)).
  Proof.
    intros NDI HA HR c e He. unfold raw_profile in HR.
    destruct (init_annotated I (init_targets (targets_of cfg))) as [P0 C0'] eqn:HI.
    injection HR as HP1 _. fold tau inv in HP1. subst P1.
    destruct (init_char _ _ _ _ HI) as [_ [_ [EP _]]].
    destruct (annotate_all_char tau inv I G ID HA) as [HC [HK HE]].
    pose proof (annotate_all_order_char tau inv I G ID HA) as HO.
    pose proof (idict_ne_all tau inv G _ ID (idict_ne_adapt I) HA) as HN.
    assert (NDID : NoDup (dkeys ID)) by (rewrite HK; assumption).
    assert (HIn : forall ie, In ie ID -> dget ID (fst ie) = Some (snd ie)).
    { intros [i e0] Hie. apply In_dget_NoDup; assumption. }
    destruct (cdirect_empty P0 c EP) as [D0 I0].
    assert (Ed : c_direct e = cdirect (build_profile tau inv ID P0) c) by (unfold cdirect; rewrite He; reflexivity).
    assert (Ei : c_inverse e = cinverse (build_profile tau inv ID P0) c) by (unfold cinverse; rewrite He; reflexivity).
    unfold idict_ne in HN. rewrite Forall_forall in HN.
    split; [|split; [|split]].
    - (* properties *)
      rewrite Ed, (obs_build_direct add_new (@dkeys (dict cdict)) fold_add_new_idem tau inv
                     (fun e0 => dkeys (i_direct e0))).
      + rewrite D0. cbn [dkeys map]. rewrite first_occ_fold. unfold class_props.
        apply (f_equal first_occ). apply (concat_map_ID ID I
          (fun ie : str * list str => if mem_str c (snd ie) then inst_props Direct G (fst ie) else [])); [exact HC|].
        intros ie Hie. cbn [fst snd]. destruct (HO _ _ (HIn ie Hie)) as [A _]. rewrite A. reflexivity.
      + intros ie Hie x. destruct (order_fold_pincr (tuples_of tau (i_direct (snd ie))) x) as [H1 _].
        rewrite H1. apply tuples_of_tp1. apply (HN ie Hie).
    - (* type keys *)
      intros p.
      rewrite Ed, (obs_build_direct add_new (fun d => dkeys (psub d p)) fold_add_new_idem tau inv
                     (fun e0 => dkeys (fsub (i_direct e0) p))).
      + rewrite D0. cbn [psub dget dkeys map]. rewrite first_occ_fold. unfold class_type_keys.
        apply (f_equal first_occ). apply (concat_map_ID ID I
          (fun ie : str * list str => if mem_str c (snd ie) then inst_keys Direct tau I G (fst ie) p else [])); [exact HC|].
        intros ie Hie. cbn [fst snd]. destruct (HO _ _ (HIn ie Hie)) as [_ [B _]]. rewrite B. reflexivity.
      + intros ie Hie x. destruct (order_fold_pincr (tuples_of tau (i_direct (snd ie))) x) as [_ [H2 _]].
        rewrite H2. apply tuples_of_tp2. destruct (HE _ _ (HIn ie Hie)) as [_ [[ND _] _]]. exact ND.
    - (* cardinalities *)
      intros p k.
      rewrite Ed, (obs_build_direct add_new_ckey (fun d => ckeys (csub (psub d p) k)) fold_add_new_ckey_idem tau inv
                     (fun e0 => cards_of tau p (fget (i_direct e0) p k))).
      + rewrite D0. cbn [psub csub dget ckeys map]. unfold class_cards, uniq_ckeys.
        f_equal. apply (concat_map_ID ID I
          (fun ie : str * list str => if mem_str c (snd ie)
                                      then cards_of tau p (cnt Direct tau I G (fst ie) p k) else [])); [exact HC|].
        intros ie Hie. cbn [fst snd]. destruct (HE _ _ (HIn ie Hie)) as [_ [_ [_ [F _]]]]. rewrite F. reflexivity.
      + intros ie Hie x. destruct (order_fold_pincr (tuples_of tau (i_direct (snd ie))) x) as [_ [_ H3]].
        rewrite H3. f_equal. apply tuples_of_tp3. destruct (HE _ _ (HIn ie Hie)) as [_ [W _]]. exact W.
    - intros Einv. rewrite Einv in *. split; [|split].
      + rewrite Ei, (obs_build_inverse add_new (@dkeys (dict cdict)) fold_add_new_idem tau
                       (fun e0 => dkeys (i_inverse e0))).
        * rewrite I0. cbn [dkeys map]. rewrite first_occ_fold. unfold class_props.
          apply (f_equal first_occ). apply (concat_map_ID ID I
            (fun ie : str * list str => if mem_str c (snd ie) then inst_props Inverse G (fst ie) else [])); [exact HC|].
          intros ie Hie. cbn [fst snd]. destruct (HO _ _ (HIn ie Hie)) as [_ [_ [_ C]]].
          destruct (C eq_refl) as [A _]. rewrite A. reflexivity.
        * intros ie Hie x. destruct (order_fold_pincr (tuples_of tau (i_inverse (snd ie))) x) as [H1 _].
          rewrite H1. apply tuples_of_tp1. apply (HN ie Hie).
      + intros p.
        rewrite Ei, (obs_build_inverse add_new (fun d => dkeys (psub d p)) fold_add_new_idem tau
                       (fun e0 => dkeys (fsub (i_inverse e0) p))).
        * rewrite I0. cbn [psub dget dkeys map]. rewrite first_occ_fold. unfold class_type_keys.
          apply (f_equal first_occ). apply (concat_map_ID ID I
            (fun ie : str * list str => if mem_str c (snd ie) then inst_keys Inverse tau I G (fst ie) p else [])); [exact HC|].
          intros ie Hie. cbn [fst snd]. destruct (HO _ _ (HIn ie Hie)) as [_ [_ [_ C]]].
          destruct (C eq_refl) as [_ [B _]]. rewrite B. reflexivity.
        * intros ie Hie x. destruct (order_fold_pincr (tuples_of tau (i_inverse (snd ie))) x) as [_ [H2 _]].
          rewrite H2. apply tuples_of_tp2. destruct (HE _ _ (HIn ie Hie)) as [_ [_ [[ND _] _]]]. exact ND.
      + intros p k.
        rewrite Ei, (obs_build_inverse add_new_ckey (fun d => ckeys (csub (psub d p) k)) fold_add_new_ckey_idem tau
                       (fun e0 => cards_of tau p (fget (i_inverse e0) p k))).
        * rewrite I0. cbn [psub csub dget ckeys map]. unfold class_cards, uniq_ckeys.
          f_equal. apply (concat_map_ID ID I
            (fun ie : str * list str => if mem_str c (snd ie)
                                        then cards_of tau p (cnt Inverse tau I G (fst ie) p k) else [])); [exact HC|].
          intros ie Hie. cbn [fst snd]. destruct (HE _ _ (HIn ie Hie)) as [_ [_ [_ [_ [_ F]]]]].
          destruct F as [F _]. rewrite F. reflexivity.
        * intros ie Hie x. destruct (order_fold_pincr (tuples_of tau (i_inverse (snd ie))) x) as [_ [_ H3]].
          rewrite H3. f_equal. apply tuples_of_tp3. destruct (HE _ _ (HIn ie Hie)) as [_ [_ [W _]]]. exact W.
  Qed.

  (** the same through [dget] *)
  Corollary profile_order_dget ID P1 C0 :
    NoDup (dkeys I) ->
    annotate_all tau inv G (adapt I) = inl ID ->
    raw_profile cfg I ID = (P1, C0) ->
    forall c e, dget P1 c = Some e ->
      (forall p m, dget (c_direct e) p = Some m ->
         dkeys m = class_type_keys Direct tau I G c p /\
         forall k cd, dget m k = Some cd -> ckeys cd = class_cards Direct tau I G c p k) /\
      (inv = true ->
       forall p m, dget (c_inverse e) p = Some m ->
         dkeys m = class_type_keys Inverse tau I G c p /\
         forall k cd, dget m k = Some cd -> ckeys cd = class_cards Inverse tau I G c p k).
  Proof.
    intros NDI HA HR c e He.
    destruct (profile_order_char ID P1 C0 NDI HA HR c e He) as [_ [K [Cd Inv]]].
    split.
    - intros p m Hm. split.
      + specialize (K p). unfold psub in K. rewrite Hm in K. exact K.
      + intros k cd Hk. specialize (Cd p k). unfold psub, csub in Cd. rewrite Hm, Hk in Cd. exact Cd.
    - intros Einv p m Hm. destruct (Inv Einv) as [_ [K' Cd']]. split.
      + specialize (K' p). unfold psub in K'. rewrite Hm in K'. exact K'.
      + intros k cd Hk. specialize (Cd' p k). unfold psub, csub in Cd'. rewrite Hm, Hk in Cd'. exact Cd'.
  Qed.
End ProfileOrder.
