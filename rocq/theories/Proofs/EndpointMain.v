(** * C15: the statements of [Props/C15.v], in their final form. *)
From Coq Require Import List Ascii String ZArith Bool Lia Permutation.
From Shexer Require Import Lib.PyStr Lib.Dict Gen.Consts Gen.ConstsC15 Spec.Rdf Spec.EndpointSpec
     Model.Tracker Model.Profiler Model.Endpoint Proofs.EndpointProofs Proofs.EndpointLocal.
Import ListNotations.

(** the targets of pass [pass] in the class modes ([all = true]: all_classes_mode) *)
Definition targets (c : cfg) (G : sgraph) (O : oracles) (pass : nat) (m : tmode15) : list str :=
  match m with
  | MClasses cl => ptargets G c O pass false cl
  | MAll => ptargets G c O pass true []
  | MShapeMap items => collect G O 1 2 (c_tau c) (-1) items
  end.

(** the mode is one the theorems cover: some target class / some class at the
    endpoint / selectors that denote subjects *)
Definition mode_ok (c : cfg) (G : sgraph) (m : tmode15) : Prop :=
  match m with
  | MClasses cl => cl <> []
  | MAll => plain (c_tau c) = true /\ exists t, In t G /\ sp t = c_tau c
  | MShapeMap items => forallb sel_plain items = true
  end.

(** pass 1 reads the whole stream (no early stop of the instance tracker) *)
Definition reads_all (c : cfg) (m : tmode15) : Prop :=
  match m with
  | MClasses _ => (c_cap c <= 0)%Z
  | _ => True
  end.

Lemma all_classes_nonempty G O pass tau :
  ord_ok O -> plain tau = true -> (exists t, In t G /\ sp t = tau) -> all_classes G O pass tau <> [].
Proof.
  intros [Ho _] Hp [t [Ht Es]]. unfold all_classes. rewrite (rc_false_plain _ Hp).
  assert (Hin : In t (o_ord O pass (classes_query tau) (tau_match G tau))).
  { apply (Permutation_in _ (Permutation_sym (Ho _ _ _))). unfold tau_match. apply filter_In.
    split; auto. rewrite Es. apply str_eqb_refl. }
  destruct (o_ord O pass (classes_query tau) (tau_match G tau)) as [|x l]; [destruct Hin|].
  cbn. discriminate.
Qed.

Lemma mode_pcls c G O m : ord_ok O -> mode_ok c G m ->
  match m with
  | MClasses cl => forall pass, pcls G c O pass false cl <> []
  | MAll => forall pass, pcls G c O pass true [] <> []
  | MShapeMap _ => True
  end.
Proof.
  intros Ho Hm. destruct m; cbn in *; auto.
  destruct Hm as [Hp Ht]. intros pass. apply all_classes_nonempty; auto.
Qed.

(** (a) *)
Lemma C15a c G O m :
  ord_ok O -> dom c G -> mode_ok c G m ->
  let r := run c m G O in
  r_ok r = true /\
  Permutation (yields (r_p2 r)) (local_graph (neighbourhood (c_inverse c) (targets c G O 2 m) G)) /\
  match m with
  | MShapeMap _ => yields (r_p1 r) = []
  | _ => exists full1,
      Permutation full1 (local_graph (neighbourhood (c_inverse c) (targets c G O 1 m) G)) /\
      (yields (r_p1 r) = full1 \/
       ((0 < c_cap c)%Z /\ ~ reads_all c m /\ exists n, yields (r_p1 r) = firstn n full1))
  end.
Proof.
  intros Ho Hd Hm. pose proof (mode_pcls c G O m Ho Hm) as Hp. destruct m as [cl| |items]; cbn [targets reads_all].
  - destruct (triples_class c G O false cl Ho Hd Hp) as [A [B [f [C D]]]]. split; [exact A|]. split; [exact B|].
    exists f. split; [exact C|]. destruct D as [D|[D1 [_ D3]]]; [left; exact D | right].
    split; [exact D1|]. split; [lia | exact D3].
  - destruct (triples_class c G O true [] Ho Hd Hp) as [A [B [f [C D]]]]. split; [exact A|]. split; [exact B|].
    exists f. split; [exact C|]. destruct D as [D|[_ [D2 _]]]; [left; exact D | discriminate].
  - destruct (triples_map c G O items Ho Hd Hm) as [A [B [C _]]]. auto.
Qed.

(** without a LIMIT the targets of the class modes are the instances of the classes *)
Lemma C15_targets c G O pass cl x :
  ord_ok O -> dom c G -> (eff_limit c < 0)%Z ->
  (In x (targets c G O pass (MClasses cl)) <-> exists k, In k cl /\ In x (instances_of (c_tau c) k G)).
Proof.
  intros Ho [Hd _] Hl. cbn [targets]. unfold ptargets, pcls.
  apply (class_targets_exact _ _ G Hd O pass (eff_limit c) cl x Ho). exact Hl.
Qed.

(** (b) *)
Lemma C15b c G O m :
  ord_ok O -> dom c G -> mode_ok c G m ->
  let rc := run (with_cache true c) m G O in
  let rn := run (with_cache false c) m G O in
  Permutation (yields (r_p2 rc)) (yields (r_p2 rn)) /\
  (reads_all c m -> Permutation (yields (r_p1 rc)) (yields (r_p1 rn))).
Proof.
  intros Ho Hd Hm. pose proof (mode_pcls c G O m Ho Hm) as Hp. destruct m as [cl| |items]; cbn [reads_all].
  - destruct (cache_same_class c G O false cl Ho Hd Hp) as [A B]. split; [exact A|]. intros H. apply B. auto.
  - destruct (cache_same_class c G O true [] Ho Hd Hp) as [A B]. split; [exact A|]. intros H. apply B. auto.
  - destruct (cache_log_map c G O items Ho Hd Hm) as [_ A]. split; [exact A|]. intros _.
    destruct (triples_map (with_cache true c) G O items Ho Hd Hm) as [_ [E1 _]].
    destruct (triples_map (with_cache false c) G O items Ho Hd Hm) as [_ [E2 _]].
    cbn zeta in E1, E2. rewrite E1, E2. constructor.
Qed.

(** (c) *)
Lemma C15c c G O m :
  ord_ok O -> dom c G -> mode_ok c G m -> reads_all c m ->
  let rc := run (with_cache true c) m G O in
  let rn := run (with_cache false c) m G O in
  subseq (log_of rc) (log_of rn) /\
  List.length (log_of rc) <= List.length (log_of rn) /\
  NoDup (filter is_fetch (log_of rc)).
Proof.
  intros Ho Hd Hm Hr. pose proof (mode_pcls c G O m Ho Hm) as Hp. destruct m as [cl| |items]; cbn [reads_all] in Hr.
  - apply (cache_log_class c G O false cl Ho Hd Hp). left. exact Hr.
  - apply (cache_log_class c G O true [] Ho Hd Hp). right. reflexivity.
  - destruct (cache_log_map c G O items Ho Hd Hm) as [E _]. cbn zeta. rewrite E.
    split; [apply subseq_refl|]. split; [lia|].
    destruct (triples_map (with_cache false c) G O items Ho Hd Hm) as [_ [_ [_ Q]]].
    unfold log_of. rewrite Q. cbn [run r_p1]. rewrite filter_app, queries_sel_nofetch. cbn [app].
    assert (HT : NoDup (collect G O 1 2 (c_tau (with_cache false c)) (-1) items)) by (apply collect_NoDup; exact Ho).
    rewrite filter_all.
    + apply NoDup_app_intro.
      * apply NoDup_map_of_inj; auto. intros; congruence.
      * destruct (c_inverse (with_cache false c)); [|constructor]. apply NoDup_map_of_inj; auto. intros; congruence.
      * intros q H1 H2. destruct (c_inverse (with_cache false c)); [|destruct H2].
        apply in_map_iff in H1, H2. destruct H1 as [a [<- _]], H2 as [b [E2 _]]. discriminate.
    + intros q Hq. apply in_app_iff in Hq. destruct Hq as [Hq|Hq].
      * apply in_map_iff in Hq. destruct Hq as [a [<- _]]. reflexivity.
      * destruct (c_inverse (with_cache false c)); [|destruct Hq].
        apply in_map_iff in Hq. destruct Hq as [a [<- _]]. reflexivity.
Qed.

(** (d) *)
Lemma C15d c G O m I :
  ord_ok O -> dom c G -> mode_ok c G m ->
  let r := run c m G O in
  let T := targets c G O 2 m in
  (forall id, Profiler.tracked I id = mem_str id T) ->
  Permutation (yields (r_p2 r))
              (filter (rel (c_inverse c) I) (local_graph G) ++
               local_graph (filter (fun t => subj_in T t && obj_in T t) (if c_inverse c then G else []))) /\
  annotate_all (c_tau c) (c_inverse c) (local_graph G) I =
  annotate_all (c_tau c) (c_inverse c) (filter (rel (c_inverse c) I) (local_graph G)) I.
Proof.
  intros Ho Hd Hm. pose proof (mode_pcls c G O m Ho Hm) as Hp. destruct m as [cl| |items]; cbn [targets].
  - apply (equals_local_class c G O false cl I Ho Hd Hp).
  - apply (equals_local_class c G O true [] I Ho Hd Hp).
  - apply (equals_local_map c G O items I Ho Hd Hm).
Qed.

(** the executable set oracle is a permutation on duplicate-free lists *)
Lemma order_by_rank_perm rank l : NoDup l -> Permutation (order_by_rank rank l) l.
Proof.
  intros Hl. unfold order_by_rank.
  apply NoDup_Permutation.
  - apply NoDup_app_intro.
    + apply NoDup_filter. apply str_dedup_NoDup.
    + apply NoDup_filter. exact Hl.
    + intros x H1 H2. apply filter_In in H1, H2. destruct H1 as [H1 _], H2 as [_ H2].
      apply (proj1 (dedup_In str_eqb str_eqb_eq _ _)) in H1. apply negb_true_iff in H2.
      apply mem_str_In in H1. congruence.
  - exact Hl.
  - intros x. rewrite in_app_iff, !filter_In. split.
    + intros [[_ H]|[H _]]; auto. apply mem_str_In. exact H.
    + intros H. destruct (mem_str x rank) eqn:E.
      * left. split; [apply (proj2 (dedup_In str_eqb str_eqb_eq _ _)); apply mem_str_In; exact E | apply mem_str_In; exact H].
      * right. split; auto.
Qed.

(** membership of concrete triples by computation (used by the witnesses) *)
Lemma in_triple_b x l : existsb (triple_eqb x) l = true -> In x l.
Proof.
  intros H. apply existsb_exists in H. destruct H as [y [Hy E]]. apply triple_eqb_eq in E. subst. exact Hy.
Qed.

Lemma notin_triple_b x l : existsb (triple_eqb x) l = false -> ~ In x l.
Proof.
  intros H Hin. assert (existsb (triple_eqb x) l = true); [|congruence].
  apply existsb_exists. exists x. split; auto. apply triple_eqb_eq. reflexivity.
Qed.

Fixpoint nodup_b (l : list triple) : bool :=
  match l with
  | [] => true
  | x :: r => negb (existsb (triple_eqb x) r) && nodup_b r
  end.

Lemma nodup_b_ok l : nodup_b l = true -> NoDup l.
Proof.
  induction l as [|x l IH]; cbn; intros H; constructor; apply andb_true_iff in H; destruct H as [H1 H2]; auto.
  apply notin_triple_b. apply negb_true_iff. exact H1.
Qed.

Lemma nodup_b_false l : nodup_b l = false -> ~ NoDup l.
Proof.
  induction l as [|x l IH]; cbn; intros H Hn; [discriminate|]. inversion Hn; subst.
  apply andb_false_iff in H. destruct H as [H|H]; [|apply IH; auto].
  apply negb_false_iff in H. apply H2. apply in_triple_b. exact H.
Qed.
