(** * C15: the statements of [Props/C15.v], in their final form. *)
From Coq Require Import List Ascii String ZArith Bool Lia Permutation.
From Shexer Require Import Lib.PyStr Lib.Dict Gen.Consts Gen.ConstsC15 Spec.Rdf Spec.EndpointSpec
     Model.Tracker Model.Profiler Model.Endpoint Proofs.EndpointProofs Proofs.EndpointLocal.
Import ListNotations.

(** the targets of pass [pass] in the class modes ([all = true]: all_classes_mode) *)
Definition targets (c : cfg) (G : sgraph) (O : oracles) (pass : nat) (m : tmode15) : list str :=
  match m with
  | MClasses cl => ptargets G c O pass false cl
  | MAll => ptargets G c O pass true []
  | MShapeMap items => collect G O 1 2 (c_tau c) (-1) items
  end.

(** the mode is one the theorems cover: any class mode; shape maps whose
    selectors denote subjects *)
Definition mode_ok (m : tmode15) : Prop :=
  match m with
  | MShapeMap items => forallb sel_plain items = true
  | _ => True
  end.

(** pass 1 reads the whole stream (no early stop of the instance tracker) *)
Definition reads_all (c : cfg) (m : tmode15) : Prop :=
  match m with
  | MClasses _ => (c_cap c <= 0)%Z
  | _ => True
  end.

(** the names of the class modes are read as written ([C15_names_dom]: the
    keyword removal of the selector parser changes neither the instantiation
    property nor a class name; all_classes_mode lists the classes of the
    instantiation property) *)
Definition names_ok (c : cfg) (m : tmode15) (G : sgraph) : Prop := C15_names_dom c m G = true.

Lemma names_with_cache b c m G : names_ok c m G -> names_ok (with_cache b c) m G.
Proof. intros H; exact H. Qed.

Lemma map_unchanged l : forallb kw_unchanged l = true -> map kw_strip l = l.
Proof.
  induction l as [|x l IH]; cbn [map forallb]; intros H; [reflexivity|]. apply andb_true_iff in H. destruct H as [H1 H2].
  apply str_eqb_eq in H1. rewrite (IH H2). exact (f_equal (fun y => y :: l) H1).
Qed.

Lemma class_pass_names c G O pass st all_mode classes reader :
  kw_strip (c_tau c) = c_tau c ->
  (all_mode = true -> tau_all c = c_tau c) ->
  map kw_strip (if all_mode then all_classes G O pass (c_tau c) else classes) =
  (if all_mode then all_classes G O pass (c_tau c) else classes) ->
  class_pass c G O pass st all_mode classes reader = class_pass0 c G O pass st all_mode classes reader.
Proof.
  intros H1 H2 H3. unfold class_pass, class_pass0. cbv zeta.
  destruct all_mode; [rewrite (H2 eq_refl)|]; rewrite H1, H3; reflexivity.
Qed.

Lemma all_classes_unchanged c G O pass :
  ord_ok O ->
  forallb (fun t => negb (str_eqb (sp t) (rc_false (c_tau c))) || kw_unchanged (value_of_term (so t))) G = true ->
  map kw_strip (all_classes G O pass (c_tau c)) = all_classes G O pass (c_tau c).
Proof.
  intros [Ho _] H. apply map_unchanged. apply forallb_forall. intros x Hx.
  unfold all_classes in Hx. apply in_map_iff in Hx. destruct Hx as [o [<- Ho']].
  apply (proj1 (dedup_In sterm_eqb sterm_eqb_eq _ _)) in Ho'.
  apply in_map_iff in Ho'. destruct Ho' as [t [<- Ht]].
  apply (Permutation_in _ (Ho _ _ _)) in Ht. unfold tau_match in Ht. apply filter_In in Ht. destruct Ht as [Ht E].
  rewrite forallb_forall in H. specialize (H t Ht). rewrite E in H. exact H.
Qed.

Lemma run_names c G O m :
  ord_ok O -> names_ok c m G ->
  run c m G O = match m with
                | MClasses cl => run_class G c false cl O
                | MAll => run_class G c true [] O
                | MShapeMap _ => run c m G O
                end.
Proof.
  intros Ho Hn. unfold names_ok, C15_names_dom in Hn. destruct m as [cl| |items]; [| |reflexivity].
  - apply andb_true_iff in Hn. destruct Hn as [Ht Hc]. apply str_eqb_eq in Ht.
    assert (E : forall pass st reader, class_pass c G O pass st false cl reader = class_pass0 c G O pass st false cl reader).
    { intros. apply class_pass_names; [exact Ht | discriminate | apply map_unchanged; exact Hc]. }
    unfold run, run_class. rewrite !E. reflexivity.
  - apply andb_true_iff in Hn. destruct Hn as [Hn Hg]. apply andb_true_iff in Hn. destruct Hn as [Ht Ha].
    apply str_eqb_eq in Ht, Ha.
    assert (E : forall pass st reader, class_pass c G O pass st true [] reader = class_pass0 c G O pass st true [] reader).
    { intros. apply class_pass_names; [exact Ht | intros _; exact Ha | apply all_classes_unchanged; assumption]. }
    unfold run, run_class. rewrite !E. reflexivity.
Qed.

(** (a) *)
Lemma C15a c G O m :
  ord_ok O -> dom c G -> mode_ok m -> names_ok c m G ->
  let r := run c m G O in
  r_ok r = true /\
  Permutation (yields (r_p2 r)) (local_graph (touching (c_inverse c) (targets c G O 2 m) G)) /\
  match m with
  | MShapeMap _ => yields (r_p1 r) = []
  | _ => exists full1,
      Permutation full1 (local_graph (touching (c_inverse c) (targets c G O 1 m) G)) /\
      (yields (r_p1 r) = full1 \/
       ((0 < c_cap c)%Z /\ ~ reads_all c m /\ exists n, yields (r_p1 r) = firstn n full1))
  end.
Proof.
  intros Ho Hd Hm Hn. cbv zeta. rewrite (run_names c G O m Ho Hn). destruct m as [cl| |items]; cbn [targets reads_all].
  - destruct (triples_class c G O false cl Ho Hd) as [A [B [f [C D]]]]. split; [exact A|]. split; [exact B|].
    exists f. split; [exact C|]. destruct D as [D|[D1 [_ D3]]]; [left; exact D | right].
    split; [exact D1|]. split; [lia | exact D3].
  - destruct (triples_class c G O true [] Ho Hd) as [A [B [f [C D]]]]. split; [exact A|]. split; [exact B|].
    exists f. split; [exact C|]. destruct D as [D|[_ [D2 _]]]; [left; exact D | discriminate].
  - destruct (triples_map c G O items Ho Hd Hm) as [A [B [C _]]]. auto.
Qed.

Lemma NoDup_map_filter {A B} (g : A -> B) (f : A -> bool) (l : list A) :
  NoDup (map g l) -> NoDup (map g (filter f l)).
Proof.
  induction l as [|x l IH]; cbn; intros H; [constructor|]. inversion H; subst.
  destruct (f x); cbn; auto. constructor; auto.
  intros Hin. apply H2. apply in_map_iff in Hin. destruct Hin as [y [E Hy]].
  apply filter_In in Hy. rewrite <- E. apply in_map. tauto.
Qed.

(** each statement is delivered once *)
Lemma C15a_nodup c G O m :
  ord_ok O -> dom c G -> mode_ok m -> names_ok c m G -> NoDup (yields (r_p2 (run c m G O))).
Proof.
  intros Ho Hd Hm Hnm. destruct (C15a c G O m Ho Hd Hm Hnm) as [_ [P _]].
  eapply Permutation_NoDup; [apply Permutation_sym; exact P|].
  destruct Hd as [_ Hn]. unfold local_graph, touching in *. apply NoDup_map_filter. exact Hn.
Qed.

(** without a LIMIT the targets of the class modes are the instances of the classes *)
Lemma C15_targets c G O pass cl x :
  ord_ok O -> dom c G -> (eff_limit c < 0)%Z ->
  (In x (targets c G O pass (MClasses cl)) <-> exists k, In k cl /\ In x (instances_of (c_tau c) k G)).
Proof.
  intros Ho [Hd _] Hl. cbn [targets]. unfold ptargets, pcls.
  apply (class_targets_exact _ _ G Hd O pass (eff_limit c) cl x Ho). exact Hl.
Qed.

(** (b) *)
Lemma C15b c G O m :
  ord_ok O -> dom c G -> mode_ok m -> names_ok c m G ->
  let rc := run (with_cache true c) m G O in
  let rn := run (with_cache false c) m G O in
  Permutation (yields (r_p2 rc)) (yields (r_p2 rn)) /\
  (reads_all c m -> Permutation (yields (r_p1 rc)) (yields (r_p1 rn))).
Proof.
  intros Ho Hd Hm Hn. cbv zeta.
  rewrite (run_names _ G O m Ho (names_with_cache true c m G Hn)), (run_names _ G O m Ho (names_with_cache false c m G Hn)).
  destruct m as [cl| |items]; cbn [reads_all].
  - destruct (cache_same_class c G O false cl Ho Hd) as [A B]. split; [exact A|]. intros H. apply B. auto.
  - destruct (cache_same_class c G O true [] Ho Hd) as [A B]. split; [exact A|]. intros H. apply B. auto.
  - destruct (cache_log_map c G O items Ho Hd Hm) as [_ A]. split; [exact A|]. intros _.
    destruct (triples_map (with_cache true c) G O items Ho Hd Hm) as [_ [E1 _]].
    destruct (triples_map (with_cache false c) G O items Ho Hd Hm) as [_ [E2 _]].
    cbn zeta in E1, E2. rewrite E1, E2. constructor.
Qed.

(** (c) *)
Lemma C15c c G O m :
  ord_ok O -> dom c G -> mode_ok m -> names_ok c m G -> reads_all c m ->
  let rc := run (with_cache true c) m G O in
  let rn := run (with_cache false c) m G O in
  subseq (log_of rc) (log_of rn) /\
  List.length (log_of rc) <= List.length (log_of rn) /\
  NoDup (filter is_fetch (log_of rc)).
Proof.
  intros Ho Hd Hm Hn Hr. cbv zeta.
  rewrite (run_names _ G O m Ho (names_with_cache true c m G Hn)), (run_names _ G O m Ho (names_with_cache false c m G Hn)).
  destruct m as [cl| |items]; cbn [reads_all] in Hr.
  - apply (cache_log_class c G O false cl Ho Hd). left. exact Hr.
  - apply (cache_log_class c G O true [] Ho Hd). right. reflexivity.
  - destruct (cache_log_map c G O items Ho Hd Hm) as [E _]. cbn zeta. rewrite E.
    split; [apply subseq_refl|]. split; [lia|].
    destruct (triples_map (with_cache false c) G O items Ho Hd Hm) as [_ [_ [_ Q]]].
    unfold log_of. rewrite Q. cbn [run r_p1]. rewrite filter_app, queries_sel_nofetch. cbn [app].
    assert (HT : NoDup (collect G O 1 2 (c_tau (with_cache false c)) (-1) items)) by (apply collect_NoDup; exact Ho).
    rewrite filter_all.
    + apply NoDup_app_intro.
      * apply NoDup_map_of_inj; auto. intros; congruence.
      * destruct (c_inverse (with_cache false c)); [|constructor]. apply NoDup_map_of_inj; auto. intros; congruence.
      * intros q H1 H2. destruct (c_inverse (with_cache false c)); [|destruct H2].
        apply in_map_iff in H1, H2. destruct H1 as [a [<- _]], H2 as [b [E2 _]]. discriminate.
    + intros q Hq. apply in_app_iff in Hq. destruct Hq as [Hq|Hq].
      * apply in_map_iff in Hq. destruct Hq as [a [<- _]]. reflexivity.
      * destruct (c_inverse (with_cache false c)); [|destruct Hq].
        apply in_map_iff in Hq. destruct Hq as [a [<- _]]. reflexivity.
Qed.

(** (d) *)
Lemma C15d c G O m I :
  ord_ok O -> dom c G -> mode_ok m -> names_ok c m G ->
  let r := run c m G O in
  let T := targets c G O 2 m in
  (forall id, Profiler.tracked I id = mem_str id T) ->
  Permutation (yields (r_p2 r)) (filter (rel (c_inverse c) I) (local_graph G)) /\
  annotate_all (c_tau c) (c_inverse c) (local_graph G) I =
  annotate_all (c_tau c) (c_inverse c) (filter (rel (c_inverse c) I) (local_graph G)) I.
Proof.
  intros Ho Hd Hm Hn. cbv zeta. rewrite (run_names c G O m Ho Hn). destruct m as [cl| |items]; cbn [targets].
  - apply (equals_local_class c G O false cl I Ho Hd).
  - apply (equals_local_class c G O true [] I Ho Hd).
  - apply (equals_local_map c G O items I Ho Hd Hm).
Qed.

(** the executable set oracle is a permutation on duplicate-free lists *)
Lemma order_by_rank_perm rank l : NoDup l -> Permutation (order_by_rank rank l) l.
Proof.
  intros Hl. unfold order_by_rank.
  apply NoDup_Permutation.
  - apply NoDup_app_intro.
    + apply NoDup_filter. apply str_dedup_NoDup.
    + apply NoDup_filter. exact Hl.
    + intros x H1 H2. apply filter_In in H1, H2. destruct H1 as [H1 _], H2 as [_ H2].
      apply (proj1 (dedup_In str_eqb str_eqb_eq _ _)) in H1. apply negb_true_iff in H2.
      apply mem_str_In in H1. congruence.
  - exact Hl.
  - intros x. rewrite in_app_iff, !filter_In. split.
    + intros [[_ H]|[H _]]; auto. apply mem_str_In. exact H.
    + intros H. destruct (mem_str x rank) eqn:E.
      * left. split; [apply (proj2 (dedup_In str_eqb str_eqb_eq _ _)); apply mem_str_In; exact E | apply mem_str_In; exact H].
      * right. split; auto.
Qed.

(** membership of concrete triples by computation (used by the witnesses) *)
Lemma in_triple_b x l : existsb (triple_eqb x) l = true -> In x l.
Proof.
  intros H. apply existsb_exists in H. destruct H as [y [Hy E]]. apply triple_eqb_eq in E. subst. exact Hy.
Qed.

Lemma notin_triple_b x l : existsb (triple_eqb x) l = false -> ~ In x l.
Proof.
  intros H Hin. assert (existsb (triple_eqb x) l = true); [|congruence].
  apply existsb_exists. exists x. split; auto. apply triple_eqb_eq. reflexivity.
Qed.

Fixpoint nodup_b (l : list triple) : bool :=
  match l with
  | [] => true
  | x :: r => negb (existsb (triple_eqb x) r) && nodup_b r
  end.

Lemma nodup_b_ok l : nodup_b l = true -> NoDup l.
Proof.
  induction l as [|x l IH]; cbn; intros H; constructor; apply andb_true_iff in H; destruct H as [H1 H2]; auto.
  apply notin_triple_b. apply negb_true_iff. exact H1.
Qed.

Lemma nodup_b_false l : nodup_b l = false -> ~ NoDup l.
Proof.
  induction l as [|x l IH]; cbn; intros H Hn; [discriminate|]. inversion Hn; subst.
  apply andb_false_iff in H. destruct H as [H|H]; [|apply IH; auto].
  apply negb_false_iff in H. apply H2. apply in_triple_b. exact H.
Qed.

(** since fix c9a1e70 (targets collected in an insertion-ordered dict) the
    fetch order is the order of first occurrence of the nodes in the selector
    answers: no set oracle is left *)
Lemma targets_first_occurrence c G O pass m :
  targets c G O pass m =
  dedup str_eqb (flat_map (sel_answers G O (match m with MShapeMap _ => 1 | _ => pass end) (c_tau c)
                                       (match m with MShapeMap _ => (-1)%Z | _ => eff_limit c end))
                          (match m with
                           | MClasses cl => class_items cl
                           | MAll => class_items (all_classes G O pass (c_tau c))
                           | MShapeMap items => items
                           end)).
Proof. destruct m; reflexivity. Qed.

Lemma fetch_order_map c G O items :
  ord_ok O -> dom c G -> forallb sel_plain items = true ->
  let T := dedup str_eqb (flat_map (sel_answers G O 1 (c_tau c) (-1)) items) in
  queries (r_p2 (run c (MShapeMap items) G O)) =
  map (fun a => (QPO, a)) T ++ (if c_inverse c then map (fun a => (QSP, a)) T else []).
Proof.
  intros Ho Hd Hit. destruct (triples_map c G O items Ho Hd Hit) as [_ [_ [_ Q]]]. exact Q.
Qed.
