(** * Concrete runs of the pipeline model used as witnesses ([..._refuted]
    lemmas and non-vacuity examples) by the Props files.  The graphs are the
    pinned reproducers of known_findings.json. *)
From Coq Require Import List Ascii String ZArith NArith Bool.
From Shexer Require Import Lib.PyStr Lib.Dict Lib.Bin64 Gen.Consts Spec.Rdf Model.Tracker Model.Profiler
  Model.Tokens Model.Freq Model.FreqInst Model.Shexing Model.SerialShexc Model.Run.
Import ListNotations.

Definition ex (s : string) : str := Str "http://ex.org/" ++ Str s.
Definition iri (s : string) : node := Node KIri (ex s).
Definition bn (s : string) : node := Node KBnode (Str "_:" ++ Str s).
Definition tau := c_RDF_TYPE.
Definition ty (s c : string) : triple := T (iri s) tau (ON (iri c)).
Definition lnk (s p : string) (o : node) : triple := T (iri s) (ex p) (ON o).
Definition lit (s p v : string) : triple := T (iri s) (ex p) (OL (Str v) c_STRING_TYPE).

Definition base_rcfg : rcfg :=
  {| r_tau := tau; r_targets := None; r_ns := []; r_shapes_ns := c_SHAPES_DEFAULT_NAMESPACE; r_cap := (-1)%Z;
     r_inverse := false; r_remove_empty := true; r_discard_useless := true; r_keep_less_specific := true;
     r_all_compliant := true; r_disable_or := true; r_allow_redundant_or := false; r_allow_opt := true;
     r_disable_exact := false; r_disable_comments := false; r_mode := FMixed |}.

Definition with_kls (b : bool) (c : rcfg) : rcfg :=
  {| r_tau := r_tau c; r_targets := r_targets c; r_ns := r_ns c; r_shapes_ns := r_shapes_ns c; r_cap := r_cap c;
     r_inverse := r_inverse c; r_remove_empty := r_remove_empty c; r_discard_useless := r_discard_useless c;
     r_keep_less_specific := b; r_all_compliant := r_all_compliant c; r_disable_or := r_disable_or c;
     r_allow_redundant_or := r_allow_redundant_or c; r_allow_opt := r_allow_opt c;
     r_disable_exact := r_disable_exact c; r_disable_comments := r_disable_comments c; r_mode := r_mode c |}.

Definition with_discard (b : bool) (c : rcfg) : rcfg :=
  {| r_tau := r_tau c; r_targets := r_targets c; r_ns := r_ns c; r_shapes_ns := r_shapes_ns c; r_cap := r_cap c;
     r_inverse := r_inverse c; r_remove_empty := r_remove_empty c; r_discard_useless := b;
     r_keep_less_specific := r_keep_less_specific c; r_all_compliant := r_all_compliant c; r_disable_or := r_disable_or c;
     r_allow_redundant_or := r_allow_redundant_or c; r_allow_opt := r_allow_opt c;
     r_disable_exact := r_disable_exact c; r_disable_comments := r_disable_comments c; r_mode := r_mode c |}.

Definition thr0 : F BAlg := b_ratio 0 1.

(** the statements of the shape of class [c] in a run, [None] if the run fails
    or the class has no shape *)
Definition stmts_of (c : rcfg) (thr : F BAlg) (g : graph) (cls : str) : option (list stmt) :=
  match run_shapes BAlg c thr g with
  | inl (_, shapes) =>
    match List.find (fun sh => str_eqb (sh_class sh) cls) shapes with
    | Some sh => Some (sh_stmts sh)
    | None => None
    end
  | inr _ => None
  end.

(** all figures (constraint lines and KStmt comments) of a statement list as
    (property, kind token / type, cardinality, count) *)
Definition figures (l : list stmt) : list (str * str * card * N) :=
  flat_map (fun s =>
    (s_prop s, s_type s, s_card s, s_nocc s) ::
    flat_map (fun k => match k with
                       | KStmt false _ n tok c => [(s_prop s, tok, c, n)]
                       | _ => []
                       end) (s_comments s)) l.

Definition n_instances (c : rcfg) (thr : F BAlg) (g : graph) (cls : str) : option N :=
  match run_shapes BAlg c thr g with
  | inl (_, shapes) =>
    match List.find (fun sh => str_eqb (sh_class sh) cls) shapes with
    | Some sh => Some (sh_n sh)
    | None => None
    end
  | inr _ => None
  end.

(** ** C01-F1: an instance with an IRI and a blank-node value is counted twice *)
Definition g_overlap : graph := [ty "a" "C"; lnk "a" "p" (iri "u"); lnk "a" "p" (bn "x")].

(** ** C01-F3 / C12-F1: sum of the per-kind cardinality variants *)
Definition g_mixed : graph :=
  [ty "a" "C"; ty "b" "C"; ty "c" "C"; lnk "a" "p" (iri "u1"); lnk "a" "p" (iri "u2");
   lnk "b" "p" (iri "u1"); lnk "c" "p" (bn "x")].

(** ** C01-F2: two classes sharing a local name *)
Definition g_shared : graph :=
  [ty "s" "C0"; ty "o" "C1"; T (iri "o") tau (ON (Node KIri (Str "http://other.org/ns#C1"))); lnk "s" "p" (iri "o")].

(** ** C02-F1: IRI values on one half of the instances, blank nodes on the other *)
Definition g_split : graph := [ty "a" "C"; ty "b" "C"; lnk "a" "p" (iri "u"); lnk "b" "p" (bn "x")].

(** ** C09-F1: two references tied in count; the two orders of the typing triples *)
Definition g_reftie_1 : graph := [ty "s" "C"; ty "o" "C1"; ty "o" "C2"; lnk "s" "p" (iri "o")].
Definition g_reftie_2 : graph := [ty "s" "C"; ty "o" "C2"; ty "o" "C1"; lnk "s" "p" (iri "o")].

(** ** C09-F2: exact cardinalities tied, keep_less_specific = false *)
Definition g_cardtie_1 : graph := [ty "s" "C"; ty "t" "C"; lit "s" "p" "x"; lit "t" "p" "x"; lit "t" "p" "y"].
Definition g_cardtie_2 : graph := [ty "t" "C"; ty "s" "C"; lit "t" "p" "x"; lit "t" "p" "y"; lit "s" "p" "x"].
