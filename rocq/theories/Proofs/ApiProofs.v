(** * Proofs for property C18 (Model/ShaperApi.v against Spec/ApiSpec.v). *)
From Coq Require Import List Ascii String ZArith Bool Arith Lia.
From Shexer Require Import Lib.PyStr Lib.Dict Gen.Consts Model.Config Model.Determinism Model.ShaperApi Spec.ApiSpec.
Import ListNotations.

(** ** (a) the sink: file content = returned string = concatenation of the lines *)

Definition out_of (k : sink_kind) (s : ser_state) : str :=
  match k with SString => sres s | SFile => file s end.

Lemma fold_append_concat (l : list str) (f : str) :
  fold_left (fun f l => f ++ l) l f = f ++ List.concat l.
Proof.
  revert f; induction l as [|x l IH]; intros f; cbn.
  - now rewrite app_nil_r.
  - rewrite IH. now rewrite app_assoc.
Qed.

Lemma out_write_lines_buffer k s :
  out_of k (write_lines_buffer k s) = out_of k s ++ List.concat (buf s).
Proof. destruct k; cbn; [reflexivity | apply fold_append_concat]. Qed.

Lemma write_line_inv fs k s line :
  out_of k (write_line fs k s line) ++ List.concat (buf (write_line fs k s line))
  = (out_of k s ++ List.concat (buf s)) ++ line.
Proof.
  unfold write_line. cbn [buf sres file].
  destruct (fs <=? Z.of_nat (List.length (buf s ++ [line])))%Z.
  - cbn [buf]. rewrite app_nil_r.
    change (mkSer [] (sres (write_lines_buffer k (mkSer (buf s ++ [line]) (sres s) (file s))))
                  (file (write_lines_buffer k (mkSer (buf s ++ [line]) (sres s) (file s)))))
      with (mkSer [] (sres (write_lines_buffer k (mkSer (buf s ++ [line]) (sres s) (file s))))
                  (file (write_lines_buffer k (mkSer (buf s ++ [line]) (sres s) (file s))))).
    destruct k; cbn.
    + rewrite concat_app. cbn. rewrite app_nil_r. now rewrite !app_assoc.
    + rewrite fold_append_concat, concat_app. cbn. rewrite app_nil_r. now rewrite !app_assoc.
  - destruct k; cbn; rewrite concat_app; cbn; rewrite app_nil_r; now rewrite !app_assoc.
Qed.

Lemma fold_write_line_inv fs k lines s :
  let s' := fold_left (write_line fs k) lines s in
  out_of k s' ++ List.concat (buf s') = (out_of k s ++ List.concat (buf s)) ++ List.concat lines.
Proof.
  revert s; induction lines as [|l lines IH]; intros s; cbn.
  - now rewrite app_nil_r.
  - cbn in IH. rewrite IH, write_line_inv. now rewrite !app_assoc.
Qed.

Lemma serialize_out fs k old lines :
  out_of k (serialize fs k old lines) =
  (match k with SString => [] | SFile => [] end) ++ List.concat lines.
Proof.
  unfold serialize. rewrite out_write_lines_buffer.
  pose proof (fold_write_line_inv fs k lines (mkSer [] [] (reset_target_file k old))) as H.
  cbn in H. rewrite H. destruct k; cbn; reflexivity.
Qed.

Lemma string_result_concat fs lines : string_result fs lines = List.concat lines.
Proof. unfold string_result. apply (serialize_out fs SString [] lines). Qed.

Lemma file_content_concat fs old lines : file_content fs old lines = List.concat lines.
Proof. unfold file_content. apply (serialize_out fs SFile old lines). Qed.

Lemma file_eq_string fs old lines : file_content fs old lines = string_result fs lines.
Proof. now rewrite file_content_concat, string_result_concat. Qed.

(** ** list helpers *)

Lemma set_nth_length {A} n (x : A) l : List.length (set_nth n x l) = List.length l.
Proof. revert n; induction l as [|y l IH]; intros [|n]; cbn; auto. Qed.

Lemma nth_error_set_nth_same {A} n (x : A) l : n < List.length l -> nth_error (set_nth n x l) n = Some x.
Proof.
  revert n; induction l as [|y l IH]; intros [|n] H; cbn in *; try lia; auto.
  apply IH; lia.
Qed.

Lemma nth_error_set_nth_other {A} n m (x : A) l : n <> m -> nth_error (set_nth n x l) m = nth_error l m.
Proof.
  revert n m; induction l as [|y l IH]; intros [|n] [|m] H; cbn; auto; try congruence.
Qed.

Lemma set_nth_app_last {A} (x y : A) l : set_nth (List.length l) x (l ++ [y]) = l ++ [x].
Proof. induction l as [|z l IH]; cbn; [reflexivity | now rewrite IH]. Qed.

Lemma nth_error_app_last {A} (x : A) l : nth_error (l ++ [x]) (List.length l) = Some x.
Proof. induction l; cbn; auto. Qed.

Lemma nth_error_Some_lt {A} (l : list A) n x : nth_error l n = Some x -> n < List.length l.
Proof. intros H. apply nth_error_Some. congruence. Qed.

(** ** the SHACL namespace stays once written *)

Lemma dmem_dset {V} (d : dict V) k v : dmem (dset d k v) k = true.
Proof.
  unfold dmem. induction d as [|[k' v'] d IH]; cbn.
  - now rewrite str_eqb_refl.
  - destruct (str_eqb k k') eqn:E; cbn; rewrite E; auto.
Qed.

Lemma add_shacl_idem d : add_shacl (add_shacl d) = add_shacl d.
Proof.
  unfold add_shacl at 2 3. destruct (dmem d c18_SHACL_NAMESPACE) eqn:E.
  - unfold add_shacl. now rewrite E.
  - unfold add_shacl. now rewrite dmem_dset.
Qed.

(** ** (b) histories inside [C18_dom] *)

Section ApiProofs.
  Variables args tcd prof shapes thr : Type.
  Variable a_shapes_ns : args -> str.
  Variable a_examples : args -> option str.
  Variable st_track : args -> nsd -> tcd.
  Variable st_reader_ns : args -> nsd -> nsd.
  Variable st_profile : args -> nsd -> tcd -> prof.
  Variable st_shex : args -> nsd -> prof -> thr -> shapes.
  Variable st_add_examples : args -> nsd -> shapes -> shapes.
  Variable st_shexc_lines : args -> nsd -> shapes -> list str.
  Variable st_shacl_text : args -> nsd -> shapes -> str.
  Variable st_profile_text : prof -> str.
  Variable rand : nat -> str.
  Variable fuel : nat.
  Variable thr_eqb : thr -> thr -> bool.
  Hypothesis thr_eqb_eq : forall a b, thr_eqb a b = true -> a = b.
  (** the SHACL serialiser does not look at statement comments (shacl_serializer.py never
      reads [statement.comments]); monitored by the harness on every SHACL-after-ShExC call *)
  Hypothesis shacl_ignores_examples :
    forall a d d' s, st_shacl_text a d (st_add_examples a d' s) = st_shacl_text a d s.

  Notation shaperT := (shaper args tcd prof shapes).
  Notation stateT := (state args tcd prof shapes).
  Notation opT := (op args thr).
  Notation stepM := (step args tcd prof shapes thr a_shapes_ns a_examples st_track st_reader_ns st_profile st_shex
                          st_add_examples st_shexc_lines st_shacl_text st_profile_text rand fuel).
  Notation run_fromM := (run_from args tcd prof shapes thr a_shapes_ns a_examples st_track st_reader_ns st_profile
                                  st_shex st_add_examples st_shexc_lines st_shacl_text st_profile_text rand fuel).
  Notation runM := (run args tcd prof shapes thr a_shapes_ns a_examples st_track st_reader_ns st_profile
                        st_shex st_add_examples st_shexc_lines st_shacl_text st_profile_text rand fuel).
  Notation spec_fromM := (spec_from args tcd prof shapes thr a_shapes_ns a_examples st_track st_reader_ns st_profile
                                    st_shex st_add_examples st_shexc_lines st_shacl_text st_profile_text rand fuel).
  Notation specM := (spec args tcd prof shapes thr a_shapes_ns a_examples st_track st_reader_ns st_profile
                          st_shex st_add_examples st_shexc_lines st_shacl_text st_profile_text rand fuel).
  Notation pure_shexM := (pure_shex args tcd prof shapes thr a_shapes_ns a_examples st_track st_reader_ns st_profile
                                    st_shex st_add_examples st_shexc_lines st_shacl_text rand fuel).
  Notation pure_profileM := (pure_profile args tcd prof a_shapes_ns st_track st_reader_ns st_profile
                                          st_profile_text rand fuel).
  Notation dom_fromM := (dom_from args thr a_examples thr_eqb).
  Notation mutatingM := (mutating args a_examples).
  Notation trackT := (track thr).

  (** what the slots of a Shaper built from [(a, d0)] hold, and what its (unshared)
      dictionary holds, as a function of the constructor arguments and of the
      first call's threshold only *)
  Definition shaper_ok (a : args) (d0 : nsd) (tr : trackT) (s : shaperT) (d : nsd) : Prop :=
    sh_args s = a /\ tr_mut tr = mutatingM a /\
    exists d1, ctor_dict args a_shapes_ns rand fuel a d0 = Some d1 /\
    let tc := st_track a d1 in
    let d2 := st_reader_ns a d1 in
    let pr := st_profile a d2 tc in
    let d3 := st_reader_ns a d2 in
    match sh_tcd s, sh_prof s, sh_shapes s with
    | None, None, None => d = d1 /\ tr_thr tr = None /\ tr_shacl tr = false /\ tr_shexc tr = 0
    | Some tc', None, None => tc' = tc /\ d = d2 /\ tr_thr tr = None /\ tr_shacl tr = false /\ tr_shexc tr = 0
    | Some tc', Some pr', None =>
      tc' = tc /\ pr' = pr /\ d = d3 /\ tr_thr tr = None /\ tr_shacl tr = false /\ tr_shexc tr = 0
    | Some tc', Some pr', Some sp =>
      tc' = tc /\ pr' = pr /\
      exists t0, tr_thr tr = Some t0 /\
                 d = (if tr_shacl tr then add_shacl d3 else d3) /\
                 sp = (if tr_mut tr && negb (Nat.eqb (tr_shexc tr) 0)
                       then st_add_examples a d3 (st_shex a d3 pr t0) else st_shex a d3 pr t0) /\
                 (tr_mut tr = true -> tr_shexc tr <= 1)
    | _, _, _ => False
    end.

  Definition inv (ctors : list (args * nsd)) (trs : list trackT) (st : stateT) : Prop :=
    dead st = false /\
    List.length (shapers st) = List.length ctors /\
    List.length trs = List.length ctors /\
    List.length (store st) = List.length ctors /\
    forall i a d0, nth_error ctors i = Some (a, d0) ->
      exists tr s d, nth_error trs i = Some tr /\ nth_error (shapers st) i = Some s /\
                     nth_error (store st) i = Some d /\ sh_ns s = i /\ shaper_ok a d0 tr s d.

  Lemma prio_free_find d : prio_free d = true -> exists p, find_prefix rand fuel d = Some p.
  Proof.
    unfold prio_free, find_prefix. destruct (first_free _ _) as [p|]; [eauto | discriminate].
  Qed.

  Lemma inv_lookup ctors trs st i tr :
    inv ctors trs st -> nth_error trs i = Some tr ->
    exists a d0 s d, nth_error ctors i = Some (a, d0) /\ nth_error (shapers st) i = Some s /\
                     nth_error (store st) i = Some d /\ sh_ns s = i /\ shaper_ok a d0 tr s d.
  Proof.
    intros (Hd & Hl1 & Hl2 & Hl3 & Hall) Htr.
    pose proof (nth_error_Some_lt _ _ _ Htr) as Hlt. rewrite Hl2 in Hlt.
    destruct (nth_error ctors i) as [[a d0]|] eqn:Ec; [|apply nth_error_None in Ec; lia].
    destruct (Hall i a d0 Ec) as (tr' & s & d & H1 & H2 & H3 & H4 & H5).
    rewrite Htr in H1. inversion H1; subst tr'. exists a, d0, s, d. auto.
  Qed.

  (** updating Shaper [i] (slots, dictionary, tracking record) preserves the invariant *)
  Lemma inv_update ctors trs st i a d0 tr' s' d' :
    inv ctors trs st -> nth_error ctors i = Some (a, d0) -> sh_ns s' = i -> shaper_ok a d0 tr' s' d' ->
    inv ctors (set_nth i tr' trs) (mkState (set_nth i d' (store st)) (set_nth i s' (shapers st)) false).
  Proof.
    intros (Hd & Hl1 & Hl2 & Hl3 & Hall) Hc Hns Hok.
    pose proof (nth_error_Some_lt _ _ _ Hc) as Hlt.
    split; [reflexivity|]. cbn [shapers store]. rewrite !set_nth_length.
    repeat split; auto.
    intros j a' d0' Hj. destruct (Nat.eq_dec i j) as [->|Hne].
    - rewrite Hc in Hj. inversion Hj; subst a' d0'.
      exists tr', s', d'. rewrite !nth_error_set_nth_same by lia. auto.
    - destruct (Hall j a' d0' Hj) as (tr & s & d & H1 & H2 & H3 & H4 & H5).
      exists tr, s, d. rewrite !nth_error_set_nth_other by auto. auto.
  Qed.

  Lemma emit_lines_concat k lines :
    emit_lines k lines = on_channel k (Some (List.concat lines)).
  Proof.
    destruct k; unfold emit_lines, on_channel; [now rewrite string_result_concat | now rewrite file_content_concat].
  Qed.

  Lemma emit_text_channel k t : emit_text k t = on_channel k (Some t).
  Proof. destruct k; reflexivity. Qed.

  (** one [shex_graph] call on a Shaper satisfying the invariant *)
  Lemma shex_on_ok a d0 tr s d f k t :
    shaper_ok a d0 tr s d -> call_ok thr thr_eqb tr f t = true ->
    let '(s', d', o) := shex_on args tcd prof shapes thr a_examples st_track st_reader_ns st_profile st_shex
                                st_add_examples st_shexc_lines st_shacl_text s d f k t in
    sh_ns s' = sh_ns s /\ shaper_ok a d0 (track_call thr tr f t) s' d' /\ o = on_channel k (pure_shexM a d0 t f).
  Proof.
    intros (Ha & Hm & d1 & Hd1 & Hph) Hcall.
    unfold pure_shex, pure_stages. rewrite Hd1.
    unfold call_ok in Hcall. apply andb_true_iff in Hcall as [Hthr Hfmt].
    unfold shex_on, ensure_tcd, ensure_prof, ensure_shapes.
    destruct s as [sa sn stc spr ssh]. cbn [sh_args sh_ns sh_tcd sh_prof sh_shapes] in *. subst sa.
    cbn zeta in Hph.
    destruct tr as [tthr tshacl tshexc tmut]. cbn [tr_thr tr_shacl tr_shexc tr_mut] in *.
    unfold mutating in Hm. subst tmut.
    unfold track_call, shaper_ok, mutating. cbn [tr_thr tr_shacl tr_shexc tr_mut].
    destruct stc as [tc'|], spr as [pr'|], ssh as [sp|]; try contradiction;
      cbn [sh_shapes sh_args sh_ns sh_tcd sh_prof].
    - (* all slots filled *)
      destruct Hph as (-> & -> & t0 & Ht0 & Hd & Hsp & Hle). subst tthr.
      apply thr_eqb_eq in Hthr. subst t0.
      destruct f; cbn [sh_shapes sh_args sh_ns sh_tcd sh_prof].
      + (* ShExC *)
        apply andb_true_iff in Hfmt as [Hns Hex]. apply negb_true_iff in Hns. subst tshacl. subst d.
        assert (Hsp' : sp = st_shex a (st_reader_ns a (st_reader_ns a d1))
                                 (st_profile a (st_reader_ns a d1) (st_track a d1)) t).
        { destruct (mem_opt_str (a_examples a) c18_examples_modes_mutating); cbn in Hex, Hsp.
          - apply Nat.eqb_eq in Hex. subst tshexc. exact Hsp.
          - exact Hsp. }
        clear Hsp. subst sp.
        split; [reflexivity|]. split.
        * split; [reflexivity|]. split; [reflexivity|].
          exists d1. split; [exact Hd1|]. cbn zeta. split; [reflexivity|]. split; [reflexivity|].
          exists t. split; [reflexivity|]. split; [reflexivity|].
          destruct (mem_opt_str (a_examples a) c18_examples_modes_mutating); cbn.
          -- cbn in Hex. apply Nat.eqb_eq in Hex. subst tshexc. split; [reflexivity | intros _; lia].
          -- split; [reflexivity | discriminate].
        * rewrite emit_lines_concat. reflexivity.
      + (* SHACL *)
        split; [reflexivity|]. split.
        * split; [reflexivity|]. split; [reflexivity|].
          exists d1. split; [exact Hd1|]. cbn zeta. split; [reflexivity|]. split; [reflexivity|].
          exists t. split; [reflexivity|]. split.
          -- subst d. destruct tshacl; [apply add_shacl_idem | reflexivity].
          -- split; [exact Hsp | exact Hle].
        * rewrite emit_text_channel. f_equal. f_equal.
          assert (Hdd : add_shacl d = add_shacl (st_reader_ns a (st_reader_ns a d1))).
          { subst d. destruct tshacl; [apply add_shacl_idem | reflexivity]. }
          rewrite Hdd. subst sp.
          destruct (mem_opt_str (a_examples a) c18_examples_modes_mutating && negb (tshexc =? 0));
            [apply shacl_ignores_examples | reflexivity].
    - (* tracker and profiler done, no shapes yet *)
      destruct Hph as (-> & -> & -> & -> & -> & ->).
      destruct f; cbn [sh_shapes sh_args sh_ns sh_tcd sh_prof].
      + split; [reflexivity|]. split; [|rewrite emit_lines_concat; reflexivity].
        split; [reflexivity|]. split; [reflexivity|].
        exists d1. split; [exact Hd1|]. cbn zeta. split; [reflexivity|]. split; [reflexivity|].
        exists t. split; [reflexivity|]. split; [reflexivity|]. cbn. rewrite andb_true_r.
        split; [reflexivity | intros _; lia].
      + split; [reflexivity|]. split; [|rewrite emit_text_channel; reflexivity].
        split; [reflexivity|]. split; [reflexivity|].
        exists d1. split; [exact Hd1|]. cbn zeta. split; [reflexivity|]. split; [reflexivity|].
        exists t. split; [reflexivity|]. split; [reflexivity|]. cbn. rewrite andb_false_r.
        split; [reflexivity | intros _; lia].
    - (* tracker done only *)
      destruct Hph as (-> & -> & -> & -> & ->).
      destruct f; cbn [sh_shapes sh_args sh_ns sh_tcd sh_prof].
      + split; [reflexivity|]. split; [|rewrite emit_lines_concat; reflexivity].
        split; [reflexivity|]. split; [reflexivity|].
        exists d1. split; [exact Hd1|]. cbn zeta. split; [reflexivity|]. split; [reflexivity|].
        exists t. split; [reflexivity|]. split; [reflexivity|]. cbn. rewrite andb_true_r.
        split; [reflexivity | intros _; lia].
      + split; [reflexivity|]. split; [|rewrite emit_text_channel; reflexivity].
        split; [reflexivity|]. split; [reflexivity|].
        exists d1. split; [exact Hd1|]. cbn zeta. split; [reflexivity|]. split; [reflexivity|].
        exists t. split; [reflexivity|]. split; [reflexivity|]. cbn. rewrite andb_false_r.
        split; [reflexivity | intros _; lia].
    - (* fresh *)
      destruct Hph as (-> & -> & -> & ->).
      destruct f; cbn [sh_shapes sh_args sh_ns sh_tcd sh_prof].
      + split; [reflexivity|]. split; [|rewrite emit_lines_concat; reflexivity].
        split; [reflexivity|]. split; [reflexivity|].
        exists d1. split; [exact Hd1|]. cbn zeta. split; [reflexivity|]. split; [reflexivity|].
        exists t. split; [reflexivity|]. split; [reflexivity|]. cbn. rewrite andb_true_r.
        split; [reflexivity | intros _; lia].
      + split; [reflexivity|]. split; [|rewrite emit_text_channel; reflexivity].
        split; [reflexivity|]. split; [reflexivity|].
        exists d1. split; [exact Hd1|]. cbn zeta. split; [reflexivity|]. split; [reflexivity|].
        exists t. split; [reflexivity|]. split; [reflexivity|]. cbn. rewrite andb_false_r.
        split; [reflexivity | intros _; lia].
  Qed.

  (** one [profile_graph] call *)
  Lemma profile_on_ok a d0 tr s d k :
    shaper_ok a d0 tr s d ->
    let '(s', d', o) := profile_on args tcd prof shapes st_track st_reader_ns st_profile st_profile_text s d k in
    sh_ns s' = sh_ns s /\ shaper_ok a d0 tr s' d' /\ o = on_channel k (pure_profileM a d0).
  Proof.
    intros (Ha & Hm & d1 & Hd1 & Hph).
    unfold pure_profile, pure_stages. rewrite Hd1.
    unfold profile_on, ensure_tcd, ensure_prof.
    destruct s as [sa sn stc spr ssh]. cbn [sh_args sh_ns sh_tcd sh_prof sh_shapes] in *. subst sa.
    cbn zeta in Hph.
    destruct stc as [tc'|], spr as [pr'|], ssh as [sp|]; try contradiction;
      cbn [sh_shapes sh_args sh_ns sh_tcd sh_prof].
    - destruct Hph as (-> & -> & Hrest).
      split; [reflexivity|]. split; [|now rewrite emit_text_channel].
      unfold shaper_ok. cbn [sh_args sh_tcd sh_prof sh_shapes]. repeat split; auto.
      exists d1. split; [exact Hd1|]. cbn zeta. auto.
    - destruct Hph as (-> & -> & Hrest).
      split; [reflexivity|]. split; [|now rewrite emit_text_channel].
      unfold shaper_ok. cbn [sh_args sh_tcd sh_prof sh_shapes]. repeat split; auto.
      exists d1. split; [exact Hd1|]. cbn zeta. auto.
    - destruct Hph as (-> & -> & Hrest).
      split; [reflexivity|]. split; [|now rewrite emit_text_channel].
      unfold shaper_ok. cbn [sh_args sh_tcd sh_prof sh_shapes]. repeat split; auto.
      exists d1. split; [exact Hd1|]. cbn zeta. auto.
    - destruct Hph as (-> & Hrest).
      split; [reflexivity|]. split; [|now rewrite emit_text_channel].
      unfold shaper_ok. cbn [sh_args sh_tcd sh_prof sh_shapes]. repeat split; auto.
      exists d1. split; [exact Hd1|]. cbn zeta. auto.
  Qed.

  (** constructing a Shaper on a dictionary object nobody else holds *)
  Lemma do_new_fresh ctors trs st a da d :
    inv ctors trs st -> dict_arg_ok da = true -> dict_value [] da = Some d ->
    exists st', do_new args tcd prof shapes a_shapes_ns rand fuel st a da = (st', ONew) /\
                inv (ctors ++ [(a, d)]) (trs ++ [mkTrack None false 0 (mutatingM a)]) st'.
  Proof.
    intros (Hdead & Hl1 & Hl2 & Hl3 & Hall) Hok Hval.
    assert (Hpf : prio_free d = true).
    { destruct da; cbn in Hok, Hval; try discriminate; inversion Hval; subst; exact Hok. }
    destruct (prio_free_find d Hpf) as (p & Hp).
    assert (Hdo : do_new args tcd prof shapes a_shapes_ns rand fuel st a da =
                  (mkState (store st ++ [dset d (a_shapes_ns a) p])
                           (shapers st ++ [mkShaper a (List.length (store st)) None None None]) false, ONew)).
    { unfold do_new, ctor_dict.
      destruct da as [|dd|j]; cbn in Hok, Hval; try discriminate; inversion Hval; subst d;
        rewrite nth_error_app_last, Hp, set_nth_app_last; reflexivity. }
    eexists. split; [exact Hdo|].
    split; [reflexivity|]. cbn [shapers store]. rewrite !app_length. cbn [List.length].
    repeat split; try lia.
    intros i a' d0' Hi.
    destruct (Nat.lt_ge_cases i (List.length ctors)) as [Hlt|Hge].
    - rewrite nth_error_app1 in Hi by lia.
      destruct (Hall i a' d0' Hi) as (tr & s & dd & H1 & H2 & H3 & H4 & H5).
      exists tr, s, dd. rewrite !nth_error_app1 by lia. auto.
    - assert (i = List.length ctors).
      { apply nth_error_Some_lt in Hi. rewrite app_length in Hi. cbn in Hi. lia. }
      subst i. rewrite nth_error_app2 in Hi by lia. rewrite Nat.sub_diag in Hi. cbn in Hi.
      inversion Hi; subst a' d0'.
      exists (mkTrack None false 0 (mutatingM a)), (mkShaper a (List.length (store st)) None None None),
             (dset d (a_shapes_ns a) p).
      rewrite <- Hl2 at 1. rewrite <- Hl1 at 1. rewrite <- Hl3 at 1. rewrite !nth_error_app_last.
      repeat split; auto.
      exists (dset d (a_shapes_ns a) p). unfold ctor_dict. rewrite Hp. cbn. auto.
  Qed.

  Lemma dict_value_origs origs da : dict_arg_ok da = true -> dict_value origs da = dict_value [] da.
  Proof. destruct da; cbn; [reflexivity | reflexivity | discriminate]. Qed.

  Lemma run_from_spec h : forall origs ctors trs st,
    inv ctors trs st -> dom_fromM trs h = true ->
    fst (run_fromM st h) = spec_fromM origs ctors h.
  Proof.
    induction h as [|o h IH]; intros origs ctors trs st Hinv Hdom; [reflexivity|].
    cbn [run_from]. unfold step.
    pose proof Hinv as (Hdead & _). rewrite Hdead.
    destruct o as [a da | i f k t | i k]; cbn [dom_from] in Hdom.
    - (* New *)
      apply andb_true_iff in Hdom as [Hda Hdom].
      cbn [spec_from]. rewrite (dict_value_origs origs da Hda).
      destruct (dict_value [] da) as [d|] eqn:Hval; [|destruct da; discriminate].
      destruct (do_new_fresh ctors trs st a da d Hinv Hda Hval) as (st' & Hdo & Hinv').
      rewrite Hdo.
      specialize (IH (match da with DShared _ => origs | _ => origs ++ [d] end) _ _ _ Hinv' Hdom).
      destruct (run_fromM st' h) as [outs stf]. cbn in IH |- *. now rewrite IH.
    - (* Shex *)
      destruct (nth_error trs i) as [tr|] eqn:Htr; [|discriminate].
      apply andb_true_iff in Hdom as [Hcall Hdom].
      destruct (inv_lookup _ _ _ _ _ Hinv Htr) as (a & d0 & s & d & Hc & Hs & Hd & Hns & Hok).
      cbn [spec_from]. rewrite Hc.
      unfold on_shaper. rewrite Hs, Hns, Hd.
      pose proof (shex_on_ok a d0 tr s d f k t Hok Hcall) as Hstep.
      destruct (shex_on _ _ _ _ _ _ _ _ _ _ _ _ _ s d f k t) as [[s' d'] o].
      destruct Hstep as (Hns' & Hok' & Ho). rewrite Hns in Hns'.
      pose proof (inv_update ctors trs st i a d0 _ s' d' Hinv Hc Hns' Hok') as Hinv'.
      specialize (IH origs _ _ _ Hinv' Hdom).
      destruct (run_fromM _ h) as [outs stf]. cbn in IH |- *. now rewrite IH, Ho.
    - (* Profile *)
      destruct (nth_error trs i) as [tr|] eqn:Htr; [|discriminate].
      destruct (inv_lookup _ _ _ _ _ Hinv Htr) as (a & d0 & s & d & Hc & Hs & Hd & Hns & Hok).
      cbn [spec_from]. rewrite Hc.
      unfold on_shaper. rewrite Hs, Hns, Hd.
      pose proof (profile_on_ok a d0 tr s d k Hok) as Hstep.
      destruct (profile_on _ _ _ _ _ _ _ _ s d k) as [[s' d'] o].
      destruct Hstep as (Hns' & Hok' & Ho). rewrite Hns in Hns'.
      pose proof (inv_update ctors trs st i a d0 tr s' d' Hinv Hc Hns' Hok') as Hinv'.
      assert (Htrs : set_nth i tr trs = trs).
      { clear -Htr. revert i Htr; induction trs as [|x l IHl]; intros [|i] H; cbn in *; try discriminate.
        - now inversion H.
        - f_equal. now apply IHl. }
      rewrite Htrs in Hinv'.
      specialize (IH origs _ _ _ Hinv' Hdom).
      destruct (run_fromM _ h) as [outs stf]. cbn in IH |- *. now rewrite IH, Ho.
  Qed.

  Lemma inv_init : inv [] [] (init args tcd prof shapes).
  Proof.
    split; [reflexivity|]. cbn. repeat split; auto. intros i a d0 H. destruct i; discriminate.
  Qed.

  (** every call of a history in [C18_dom] answers [pure] of its own arguments, on
      either channel; histories of any length *)
  Theorem history_partial h :
    C18_dom args thr a_examples thr_eqb h = true -> runM h = specM h.
  Proof. intros H. unfold run, spec. apply (run_from_spec h [] [] [] _ inv_init H). Qed.
End ApiProofs.
