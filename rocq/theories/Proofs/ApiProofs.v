(** * Proofs for property C18 (Model/ShaperApi.v against Spec/ApiSpec.v). *)
From Coq Require Import List Ascii String ZArith Bool Arith Lia.
From Shexer Require Import Lib.PyStr Lib.Dict Gen.Consts Model.Config Model.Determinism Model.ShaperApi Spec.ApiSpec.
Import ListNotations.

(** ** (a) the sink: file content = returned string = concatenation of the lines *)

Definition out_of (k : sink_kind) (s : ser_state) : str :=
  match k with SString => sres s | SFile => file s end.

Lemma fold_append_concat (l : list str) (f : str) :
  fold_left (fun f l => f ++ l) l f = f ++ List.concat l.
Proof.
  revert f; induction l as [|x l IH]; intros f; cbn.
  - now rewrite app_nil_r.
  - rewrite IH. now rewrite app_assoc.
Qed.

Lemma out_write_lines_buffer k s :
  out_of k (write_lines_buffer k s) = out_of k s ++ List.concat (buf s).
Proof. destruct k; cbn; [reflexivity | apply fold_append_concat]. Qed.

Lemma write_line_inv fs k s line :
  out_of k (write_line fs k s line) ++ List.concat (buf (write_line fs k s line))
  = (out_of k s ++ List.concat (buf s)) ++ line.
Proof.
  unfold write_line. cbn [buf sres file].
  destruct (fs <=? Z.of_nat (List.length (buf s ++ [line])))%Z.
  - cbn [buf]. rewrite app_nil_r.
    change (mkSer [] (sres (write_lines_buffer k (mkSer (buf s ++ [line]) (sres s) (file s))))
                  (file (write_lines_buffer k (mkSer (buf s ++ [line]) (sres s) (file s)))))
      with (mkSer [] (sres (write_lines_buffer k (mkSer (buf s ++ [line]) (sres s) (file s))))
                  (file (write_lines_buffer k (mkSer (buf s ++ [line]) (sres s) (file s))))).
    destruct k; cbn.
    + rewrite concat_app. cbn. rewrite app_nil_r. now rewrite !app_assoc.
    + rewrite fold_append_concat, concat_app. cbn. rewrite app_nil_r. now rewrite !app_assoc.
  - destruct k; cbn; rewrite concat_app; cbn; rewrite app_nil_r; now rewrite !app_assoc.
Qed.

Lemma fold_write_line_inv fs k lines s :
  let s' := fold_left (write_line fs k) lines s in
  out_of k s' ++ List.concat (buf s') = (out_of k s ++ List.concat (buf s)) ++ List.concat lines.
Proof.
  revert s; induction lines as [|l lines IH]; intros s; cbn.
  - now rewrite app_nil_r.
  - cbn in IH. rewrite IH, write_line_inv. now rewrite !app_assoc.
Qed.

Lemma serialize_out fs k old lines :
  out_of k (serialize fs k old lines) =
  (match k with SString => [] | SFile => [] end) ++ List.concat lines.
Proof.
  unfold serialize. rewrite out_write_lines_buffer.
  pose proof (fold_write_line_inv fs k lines (mkSer [] [] (reset_target_file k old))) as H.
  cbn in H. rewrite H. destruct k; cbn; reflexivity.
Qed.

Lemma string_result_concat fs lines : string_result fs lines = List.concat lines.
Proof. unfold string_result. apply (serialize_out fs SString [] lines). Qed.

Lemma file_content_concat fs old lines : file_content fs old lines = List.concat lines.
Proof. unfold file_content. apply (serialize_out fs SFile old lines). Qed.

Lemma file_eq_string fs old lines : file_content fs old lines = string_result fs lines.
Proof. now rewrite file_content_concat, string_result_concat. Qed.

(** ** list helpers *)

Lemma set_nth_length {A} n (x : A) l : List.length (set_nth n x l) = List.length l.
Proof. revert n; induction l as [|y l IH]; intros [|n]; cbn; auto. Qed.

Lemma nth_error_set_nth_same {A} n (x : A) l : n < List.length l -> nth_error (set_nth n x l) n = Some x.
Proof.
  revert n; induction l as [|y l IH]; intros [|n] H; cbn in *; try lia; auto.
  apply IH; lia.
Qed.

Lemma nth_error_set_nth_other {A} n m (x : A) l : n <> m -> nth_error (set_nth n x l) m = nth_error l m.
Proof.
  revert n m; induction l as [|y l IH]; intros [|n] [|m] H; cbn; auto; try congruence.
Qed.

Lemma set_nth_app_last {A} (x y : A) l : set_nth (List.length l) x (l ++ [y]) = l ++ [x].
Proof. induction l as [|z l IH]; cbn; [reflexivity | now rewrite IH]. Qed.

Lemma nth_error_app_last {A} (x : A) l : nth_error (l ++ [x]) (List.length l) = Some x.
Proof. induction l; cbn; auto. Qed.

Lemma nth_error_Some_lt {A} (l : list A) n x : nth_error l n = Some x -> n < List.length l.
Proof. intros H. apply nth_error_Some. congruence. Qed.

(** ** the SHACL namespace stays once written *)

Lemma dmem_dset {V} (d : dict V) k v : dmem (dset d k v) k = true.
Proof.
  unfold dmem. induction d as [|[k' v'] d IH]; cbn.
  - now rewrite str_eqb_refl.
  - destruct (str_eqb k k') eqn:E; cbn; rewrite E; auto.
Qed.

Lemma add_shacl_idem d : add_shacl (add_shacl d) = add_shacl d.
Proof.
  unfold add_shacl at 2 3. destruct (dmem d c18_SHACL_NAMESPACE) eqn:E.
  - unfold add_shacl. now rewrite E.
  - unfold add_shacl. now rewrite dmem_dset.
Qed.

(** ** (b) every well-formed history (the code after the four repairs) *)

Section ApiProofs.
  Variables args tcd prof shapes thr : Type.
  Variable a_shapes_ns : args -> str.
  Variable a_examples : args -> option str.
  Variable st_track : args -> nsd -> tcd.
  Variable st_reader_ns : args -> nsd -> nsd.
  Variable st_profile : args -> nsd -> tcd -> prof.
  Variable st_shex : args -> nsd -> prof -> thr -> shapes.
  Variable st_add_examples : args -> nsd -> shapes -> shapes.
  Variable st_shexc_lines : args -> nsd -> shapes -> list str.
  Variable st_shacl_text : args -> nsd -> shapes -> str.
  Variable st_profile_text : prof -> str.
  Variable rand : nat -> str.
  Variable fuel : nat.
  Variable thr_eqb : thr -> thr -> bool.
  Hypothesis thr_eqb_eq : forall a b, thr_eqb a b = true -> a = b.
  (** the SHACL serialiser does not look at statement comments (shacl_serializer.py never
      reads [statement.comments]); monitored by the harness on every SHACL-after-ShExC call *)
  Hypothesis shacl_ignores_examples :
    forall a d d' s, st_shacl_text a d (st_add_examples a d' s) = st_shacl_text a d s.

  Notation shaperT := (shaper args tcd prof shapes thr).
  Notation stateT := (state args tcd prof shapes thr).
  Notation opT := (op args thr).
  Notation run_fromM := (run_from args tcd prof shapes thr a_shapes_ns a_examples st_track st_reader_ns st_profile
                                  st_shex st_add_examples st_shexc_lines st_shacl_text st_profile_text rand fuel thr_eqb).
  Notation runM := (run args tcd prof shapes thr a_shapes_ns a_examples st_track st_reader_ns st_profile
                        st_shex st_add_examples st_shexc_lines st_shacl_text st_profile_text rand fuel thr_eqb).
  Notation spec_fromM := (spec_from args tcd prof shapes thr a_shapes_ns a_examples st_track st_reader_ns st_profile
                                    st_shex st_add_examples st_shexc_lines st_shacl_text st_profile_text rand fuel).
  Notation specM := (spec args tcd prof shapes thr a_shapes_ns a_examples st_track st_reader_ns st_profile
                          st_shex st_add_examples st_shexc_lines st_shacl_text st_profile_text rand fuel).
  Notation pure_shexM := (pure_shex args tcd prof shapes thr a_shapes_ns a_examples st_track st_reader_ns st_profile
                                    st_shex st_add_examples st_shexc_lines st_shacl_text rand fuel).
  Notation pure_profileM := (pure_profile args tcd prof a_shapes_ns st_track st_reader_ns st_profile
                                          st_profile_text rand fuel).
  Notation mutatingM := (mutating args a_examples).
  Notation ensure_tcdM := (ensure_tcd args tcd prof shapes thr st_track st_reader_ns).
  Notation ensure_profM := (ensure_prof args tcd prof shapes thr st_reader_ns st_profile).
  Notation ensure_shapesM := (ensure_shapes args tcd prof shapes thr st_shex thr_eqb).

  (** what the slots and the private dictionary of a Shaper built from [(a, d0)] hold: a
      function of the constructor arguments and of the memoised threshold only *)
  Definition shaper_ok (a : args) (d0 : nsd) (s : shaperT) : Prop :=
    sh_args s = a /\
    exists d1, ctor_dict args a_shapes_ns rand fuel a d0 = Some d1 /\
    let tc := st_track a d1 in
    let d2 := st_reader_ns a d1 in
    let pr := st_profile a d2 tc in
    let d3 := st_reader_ns a d2 in
    match sh_tcd s, sh_prof s, sh_shapes s with
    | None, None, None => sh_dict s = d1
    | Some tc', None, None => tc' = tc /\ sh_dict s = d2
    | Some tc', Some pr', None => tc' = tc /\ pr' = pr /\ sh_dict s = d3
    | Some tc', Some pr', Some m =>
      tc' = tc /\ pr' = pr /\ sh_dict s = d3 /\
      m_shapes m = (if m_annotated m then st_add_examples a d3 (st_shex a d3 pr (m_thr m))
                    else st_shex a d3 pr (m_thr m)) /\
      (m_annotated m = true -> mutatingM a = true)
    | _, _, _ => False
    end.

  Definition inv (origs : list nsd) (ctors : list (args * nsd)) (st : stateT) : Prop :=
    dead st = false /\ cdicts st = origs /\
    List.length (shapers st) = List.length ctors /\
    forall i a d0, nth_error ctors i = Some (a, d0) ->
      exists s, nth_error (shapers st) i = Some s /\ shaper_ok a d0 s.

  Lemma prio_free_find d : prio_free d = true -> exists p, find_prefix rand fuel d = Some p.
  Proof.
    unfold prio_free, find_prefix. destruct (first_free _ _) as [p|]; [eauto | discriminate].
  Qed.

  Lemma emit_lines_concat k lines :
    emit_lines k lines = on_channel k (Some (List.concat lines)).
  Proof.
    destruct k; unfold emit_lines, on_channel; [now rewrite string_result_concat | now rewrite file_content_concat].
  Qed.

  Lemma emit_text_channel k t : emit_text k t = on_channel k (Some t).
  Proof. destruct k; reflexivity. Qed.

  (** after the three [if ... is None] steps of [shex_graph] all slots are filled, the memoised
      threshold is the call's, and the invariant still holds *)
  Lemma stages_ok a d0 s t :
    shaper_ok a d0 s ->
    let s3 := ensure_shapesM (ensure_profM (ensure_tcdM s)) t in
    shaper_ok a d0 s3 /\ sh_args s3 = a /\
    exists d1 m, ctor_dict args a_shapes_ns rand fuel a d0 = Some d1 /\
                 sh_shapes s3 = Some m /\ m_thr m = t /\
                 sh_dict s3 = st_reader_ns a (st_reader_ns a d1) /\
                 m_shapes m = (let d3 := st_reader_ns a (st_reader_ns a d1) in
                               let pr := st_profile a (st_reader_ns a d1) (st_track a d1) in
                               if m_annotated m then st_add_examples a d3 (st_shex a d3 pr t) else st_shex a d3 pr t) /\
                 (m_annotated m = true -> mutatingM a = true).
  Proof.
    intros (Ha & d1 & Hd1 & Hph).
    destruct s as [sa sd stc spr ssh]. cbn [sh_args sh_dict sh_tcd sh_prof sh_shapes] in *. subst sa.
    cbn zeta in Hph.
    unfold ensure_shapes, ensure_prof, ensure_tcd.
    destruct stc as [tc'|], spr as [pr'|], ssh as [m|]; try contradiction;
      cbn [sh_args sh_dict sh_tcd sh_prof sh_shapes].
    - destruct Hph as (-> & -> & -> & Hm & Hann).
      destruct (thr_eqb (m_thr m) t) eqn:E.
      + apply thr_eqb_eq in E. cbn [sh_args sh_dict sh_tcd sh_prof sh_shapes].
        split; [|split; [reflexivity|]].
        * split; [reflexivity|]. exists d1. split; [exact Hd1|]. cbn zeta.
          cbn [sh_args sh_dict sh_tcd sh_prof sh_shapes]. repeat split; auto.
        * exists d1, m. rewrite <- E. repeat split; auto.
      + cbn [sh_args sh_dict sh_tcd sh_prof sh_shapes].
        split; [|split; [reflexivity|]].
        * split; [reflexivity|]. exists d1. split; [exact Hd1|]. cbn zeta.
          cbn [sh_args sh_dict sh_tcd sh_prof sh_shapes m_thr m_shapes m_annotated].
          repeat split; auto. discriminate.
        * eexists d1, _. split; [exact Hd1|]. split; [reflexivity|].
          cbn [m_thr m_shapes m_annotated]. repeat split; auto. discriminate.
    - destruct Hph as (-> & -> & ->).
      cbn [sh_args sh_dict sh_tcd sh_prof sh_shapes].
      split; [|split; [reflexivity|]].
      + split; [reflexivity|]. exists d1. split; [exact Hd1|]. cbn zeta.
        cbn [sh_args sh_dict sh_tcd sh_prof sh_shapes m_thr m_shapes m_annotated].
        repeat split; auto. discriminate.
      + eexists d1, _. split; [exact Hd1|]. split; [reflexivity|].
        cbn [m_thr m_shapes m_annotated]. repeat split; auto. discriminate.
    - destruct Hph as (-> & ->).
      cbn [sh_args sh_dict sh_tcd sh_prof sh_shapes].
      split; [|split; [reflexivity|]].
      + split; [reflexivity|]. exists d1. split; [exact Hd1|]. cbn zeta.
        cbn [sh_args sh_dict sh_tcd sh_prof sh_shapes m_thr m_shapes m_annotated].
        repeat split; auto. discriminate.
      + eexists d1, _. split; [exact Hd1|]. split; [reflexivity|].
        cbn [m_thr m_shapes m_annotated]. repeat split; auto. discriminate.
    - subst sd.
      cbn [sh_args sh_dict sh_tcd sh_prof sh_shapes].
      split; [|split; [reflexivity|]].
      + split; [reflexivity|]. exists d1. split; [exact Hd1|]. cbn zeta.
        cbn [sh_args sh_dict sh_tcd sh_prof sh_shapes m_thr m_shapes m_annotated].
        repeat split; auto. discriminate.
      + eexists d1, _. split; [exact Hd1|]. split; [reflexivity|].
        cbn [m_thr m_shapes m_annotated]. repeat split; auto. discriminate.
  Qed.

  (** one [shex_graph] call *)
  Lemma shex_on_ok a d0 s f k t :
    shaper_ok a d0 s ->
    let '(s', o) := shex_on args tcd prof shapes thr a_examples st_track st_reader_ns st_profile st_shex
                            st_add_examples st_shexc_lines st_shacl_text thr_eqb s f k t in
    shaper_ok a d0 s' /\ o = on_channel k (pure_shexM a d0 t f).
  Proof.
    intros Hok. pose proof Hok as (Ha & _).
    pose proof (stages_ok a d0 s t Hok) as Hst. cbn zeta in Hst.
    unfold shex_on.
    destruct Hst as (Hok3 & Ha3 & d1 & m & Hd1 & Hm & Hthr & Hd3 & Hshp & Hann).
    set (s3 := ensure_shapesM (ensure_profM (ensure_tcdM s)) t) in *.
    rewrite Hm. unfold pure_shex, pure_stages. rewrite Hd1. cbn zeta in Hshp.
    rewrite Ha.
    destruct f.
    - (* ShExC *)
      fold (mutatingM a).
      destruct (mutatingM a) eqn:Emut; cbn [andb].
      + destruct (m_annotated m) eqn:Eann; cbn [negb].
        * split.
          -- destruct Hok3 as (H1 & dd & H2 & H3). destruct s3 as [xa xd xt xp xs].
             cbn [sh_args sh_dict sh_tcd sh_prof sh_shapes] in *. subst xs. exact (conj H1 (ex_intro _ dd (conj H2 H3))).
          -- rewrite emit_lines_concat, Hd3, Hshp. reflexivity.
        * split.
          -- destruct Hok3 as (H1 & dd & H2 & H3). rewrite Hd1 in H2. inversion H2; subst dd.
             destruct s3 as [xa xd xt xp xs]. cbn [sh_args sh_dict sh_tcd sh_prof sh_shapes] in *. subst xs.
             cbn zeta in H3. destruct xt as [tc'|], xp as [pr'|]; try contradiction.
             destruct H3 as (-> & -> & Hxd & _ & _).
             split; [exact H1|]. exists d1. split; [exact Hd1|]. cbn zeta.
             cbn [sh_args sh_dict sh_tcd sh_prof sh_shapes m_thr m_shapes m_annotated].
             repeat split; auto. rewrite Hshp, Hthr, Hd3. reflexivity.
          -- rewrite emit_lines_concat. cbn [m_shapes]. rewrite Hd3, Hshp. reflexivity.
      + assert (Eann : m_annotated m = false).
        { destruct (m_annotated m); [specialize (Hann eq_refl); congruence | reflexivity]. }
        rewrite Eann in Hshp. split.
        * destruct Hok3 as (H1 & dd & H2 & H3). destruct s3 as [xa xd xt xp xs].
          cbn [sh_args sh_dict sh_tcd sh_prof sh_shapes] in *. subst xs. exact (conj H1 (ex_intro _ dd (conj H2 H3))).
        * rewrite emit_lines_concat, Hd3, Hshp. reflexivity.
    - (* SHACL *)
      split; [exact Hok3|].
      rewrite emit_text_channel, Hd3, Hshp. f_equal. f_equal.
      destruct (m_annotated m); [apply shacl_ignores_examples | reflexivity].
  Qed.

  (** one [profile_graph] call *)
  Lemma profile_on_ok a d0 s k :
    shaper_ok a d0 s ->
    let '(s', o) := profile_on args tcd prof shapes thr st_track st_reader_ns st_profile st_profile_text s k in
    shaper_ok a d0 s' /\ o = on_channel k (pure_profileM a d0).
  Proof.
    intros (Ha & d1 & Hd1 & Hph).
    unfold pure_profile, pure_stages. rewrite Hd1.
    unfold profile_on, ensure_tcd, ensure_prof.
    destruct s as [sa sd stc spr ssh]. cbn [sh_args sh_dict sh_tcd sh_prof sh_shapes] in *. subst sa.
    cbn zeta in Hph.
    destruct stc as [tc'|], spr as [pr'|], ssh as [m|]; try contradiction;
      cbn [sh_args sh_dict sh_tcd sh_prof sh_shapes].
    - destruct Hph as (-> & -> & Hrest).
      split; [|now rewrite emit_text_channel].
      split; [reflexivity|]. exists d1. split; [exact Hd1|]. cbn zeta.
      cbn [sh_args sh_dict sh_tcd sh_prof sh_shapes]. auto.
    - destruct Hph as (-> & -> & ->).
      split; [|now rewrite emit_text_channel].
      split; [reflexivity|]. exists d1. split; [exact Hd1|]. cbn zeta.
      cbn [sh_args sh_dict sh_tcd sh_prof sh_shapes]. auto.
    - destruct Hph as (-> & ->).
      split; [|now rewrite emit_text_channel].
      split; [reflexivity|]. exists d1. split; [exact Hd1|]. cbn zeta.
      cbn [sh_args sh_dict sh_tcd sh_prof sh_shapes]. auto.
    - subst sd.
      split; [|now rewrite emit_text_channel].
      split; [reflexivity|]. exists d1. split; [exact Hd1|]. cbn zeta.
      cbn [sh_args sh_dict sh_tcd sh_prof sh_shapes]. auto.
  Qed.

  Lemma inv_update origs ctors st i a d0 s' :
    inv origs ctors st -> nth_error ctors i = Some (a, d0) -> shaper_ok a d0 s' ->
    inv origs ctors (mkState (cdicts st) (set_nth i s' (shapers st)) false).
  Proof.
    intros (Hd & Hc & Hl & Hall) Hi Hok.
    pose proof (nth_error_Some_lt _ _ _ Hi) as Hlt.
    split; [reflexivity|]. cbn [cdicts shapers]. rewrite set_nth_length.
    repeat split; auto.
    intros j a' d0' Hj. destruct (Nat.eq_dec i j) as [->|Hne].
    - rewrite Hi in Hj. inversion Hj; subst a' d0'.
      exists s'. rewrite nth_error_set_nth_same by lia. auto.
    - destruct (Hall j a' d0' Hj) as (s & H1 & H2).
      exists s. rewrite nth_error_set_nth_other by auto. auto.
  Qed.

  Lemma inv_new origs ctors st a d d1 :
    inv origs ctors st -> ctor_dict args a_shapes_ns rand fuel a d = Some d1 ->
    forall origs', inv origs' (ctors ++ [(a, d)])
                       (mkState origs' (shapers st ++ [mkShaper a d1 None None None]) false).
  Proof.
    intros (Hd & Hc & Hl & Hall) Hd1 origs'.
    split; [reflexivity|]. cbn [cdicts shapers]. rewrite !app_length. cbn [List.length].
    repeat split; try lia.
    intros i a' d0' Hi.
    destruct (Nat.lt_ge_cases i (List.length ctors)) as [Hlt|Hge].
    - rewrite nth_error_app1 in Hi by lia.
      destruct (Hall i a' d0' Hi) as (s & H1 & H2).
      exists s. rewrite nth_error_app1 by lia. auto.
    - assert (i = List.length ctors).
      { apply nth_error_Some_lt in Hi. rewrite app_length in Hi. cbn in Hi. lia. }
      subst i. rewrite nth_error_app2 in Hi by lia. rewrite Nat.sub_diag in Hi. cbn in Hi.
      inversion Hi; subst a' d0'.
      exists (mkShaper a d1 None None None). rewrite <- Hl. rewrite nth_error_app_last.
      split; [reflexivity|]. split; [reflexivity|]. exists d1. split; [exact Hd1|]. reflexivity.
  Qed.

  Lemma run_from_spec h : forall origs ctors st,
    inv origs ctors st -> wf_from args thr origs (List.length ctors) h = true ->
    fst (run_fromM st h) = spec_fromM origs ctors h.
  Proof.
    induction h as [|o h IH]; intros origs ctors st Hinv Hwf; [reflexivity|].
    cbn [run_from]. unfold step.
    pose proof Hinv as (Hdead & Hcd & Hlen & Hall). rewrite Hdead.
    destruct o as [a da | i f k t | i k]; cbn [wf_from] in Hwf.
    - (* New *)
      cbn [spec_from]. unfold do_new, dict_value.
      destruct da as [|d|j].
      + apply andb_true_iff in Hwf as [Hpf Hwf].
        destruct (prio_free_find [] Hpf) as (p & Hp).
        unfold ctor_dict at 1. rewrite Hp.
        assert (Hd1 : ctor_dict args a_shapes_ns rand fuel a [] = Some (dset [] (a_shapes_ns a) p))
          by (unfold ctor_dict; now rewrite Hp).
        pose proof (inv_new origs ctors st a [] _ Hinv Hd1 (origs ++ [[]])) as Hinv'.
        rewrite Hcd.
        assert (Hl' : List.length (ctors ++ [(a, @nil (str * str))]) = S (List.length ctors))
          by (rewrite app_length; cbn; lia).
        rewrite <- Hl' in Hwf.
        specialize (IH _ _ _ Hinv' Hwf).
        destruct (run_fromM _ h) as [outs stf]. cbn in IH |- *. now rewrite IH.
      + apply andb_true_iff in Hwf as [Hpf Hwf].
        destruct (prio_free_find d Hpf) as (p & Hp).
        unfold ctor_dict at 1. rewrite Hp.
        assert (Hd1 : ctor_dict args a_shapes_ns rand fuel a d = Some (dset d (a_shapes_ns a) p))
          by (unfold ctor_dict; now rewrite Hp).
        pose proof (inv_new origs ctors st a d _ Hinv Hd1 (origs ++ [d])) as Hinv'.
        rewrite Hcd.
        assert (Hl' : List.length (ctors ++ [(a, d)]) = S (List.length ctors))
          by (rewrite app_length; cbn; lia).
        rewrite <- Hl' in Hwf.
        specialize (IH _ _ _ Hinv' Hwf).
        destruct (run_fromM _ h) as [outs stf]. cbn in IH |- *. now rewrite IH.
      + rewrite Hcd.
        destruct (nth_error origs j) as [d|] eqn:Hj; [|discriminate].
        apply andb_true_iff in Hwf as [Hpf Hwf].
        destruct (prio_free_find d Hpf) as (p & Hp).
        unfold ctor_dict at 1. rewrite Hp.
        assert (Hd1 : ctor_dict args a_shapes_ns rand fuel a d = Some (dset d (a_shapes_ns a) p))
          by (unfold ctor_dict; now rewrite Hp).
        pose proof (inv_new origs ctors st a d _ Hinv Hd1 origs) as Hinv'.
        assert (Hl' : List.length (ctors ++ [(a, d)]) = S (List.length ctors))
          by (rewrite app_length; cbn; lia).
        rewrite <- Hl' in Hwf.
        specialize (IH _ _ _ Hinv' Hwf).
        destruct (run_fromM _ h) as [outs stf]. cbn in IH |- *. now rewrite IH.
    - (* Shex *)
      apply andb_true_iff in Hwf as [Hi Hwf]. apply Nat.ltb_lt in Hi.
      destruct (nth_error ctors i) as [[a d0]|] eqn:Hc; [|apply nth_error_None in Hc; lia].
      destruct (Hall i a d0 Hc) as (s & Hs & Hok).
      cbn [spec_from]. rewrite Hc. unfold on_shaper. rewrite Hs.
      pose proof (shex_on_ok a d0 s f k t Hok) as Hstep.
      destruct (shex_on _ _ _ _ _ _ _ _ _ _ _ _ _ _ s f k t) as [s' o].
      destruct Hstep as (Hok' & Ho).
      pose proof (inv_update origs ctors st i a d0 s' Hinv Hc Hok') as Hinv'.
      specialize (IH origs _ _ Hinv' Hwf).
      destruct (run_fromM _ h) as [outs stf]. cbn in IH |- *. now rewrite IH, Ho.
    - (* Profile *)
      apply andb_true_iff in Hwf as [Hi Hwf]. apply Nat.ltb_lt in Hi.
      destruct (nth_error ctors i) as [[a d0]|] eqn:Hc; [|apply nth_error_None in Hc; lia].
      destruct (Hall i a d0 Hc) as (s & Hs & Hok).
      cbn [spec_from]. rewrite Hc. unfold on_shaper. rewrite Hs.
      pose proof (profile_on_ok a d0 s k Hok) as Hstep.
      destruct (profile_on _ _ _ _ _ _ _ _ _ s k) as [s' o].
      destruct Hstep as (Hok' & Ho).
      pose proof (inv_update origs ctors st i a d0 s' Hinv Hc Hok') as Hinv'.
      specialize (IH origs _ _ Hinv' Hwf).
      destruct (run_fromM _ h) as [outs stf]. cbn in IH |- *. now rewrite IH, Ho.
  Qed.

  Lemma inv_init : inv [] [] (init args tcd prof shapes thr).
  Proof.
    split; [reflexivity|]. cbn. repeat split; auto. intros i a d0 H. destruct i; discriminate.
  Qed.

  (** every call of every well-formed history answers [pure] of its own arguments, on either
      channel; histories of any length, any number of Shapers, shared dictionaries included *)
  Theorem history_pure h :
    C18_dom args thr h = true -> runM h = specM h.
  Proof. intros H. unfold run, spec. apply (run_from_spec h [] [] _ inv_init H). Qed.
End ApiProofs.
