(** * The repaired N-Triples tokeniser terminates on EVERY line.

    With the switch [el] ([Gen.Consts.nt_uri_unclosed_to_eol]: a '<' without a closing
    corner reaches the end of the line) every iteration of [_look_for_tokens] moves
    [current_first_index] forward, whatever the line holds -- valid N-Triples or not,
    any bytes.  So the loop makes at most [len + 1] iterations, the fuel of the model
    is never exhausted, and no reader built on it answers [Hang]; the two inner loops
    (closing quote, language tag) advance by construction.  The switch [hs] plays no
    part.  Without [el] the statement is false: see [hang_without_el]. *)
From Coq Require Import List Ascii String ZArith Bool Lia Arith.
From Shexer Require Import Lib.PyStr Gen.Consts Model.NtReader Proofs.NtStrLemmas.
Import ListNotations.
Local Open Scope Z_scope.

(** ** an index the loop looks at splits the line *)
Lemma at_idx_split t i c : 0 <= i -> at_idx t i = Some c ->
  exists pre post, t = pre ++ c :: post /\ i = len pre.
Proof.
  intros Hi. unfold at_idx. assert ((i <? 0) = false) as -> by (apply Z.ltb_ge; lia).
  destruct ((i <? 0) || (len t <=? i)); [discriminate|]. intros H.
  destruct (nth_error_split _ _ H) as (pre & post & E & L). exists pre, post. split; [exact E|].
  unfold len. rewrite L. lia.
Qed.

Lemma find_ge_m1 p s : -1 <= find p s.
Proof. unfold find. destruct (find_nat p s); lia. Qed.

(** ** [_index_of_token_end] *)
Lemma index_of_token_end_g_ge_m1 hs s : -1 <= index_of_token_end_g hs s.
Proof.
  unfold index_of_token_end_g. pose proof (len_nonneg s). destruct (first_stop hs s) as [n|].
  - destruct (0 <? Z.of_nat n) eqn:P; cbn [andb].
    + apply Z.ltb_lt in P. destruct (at_idx s (Z.of_nat n - 1)) as [c|]; [destruct (Ascii.eqb c (ch nt_statement_end))|]; lia.
    + lia.
  - destruct (suffixb nt_statement_end s); lia.
Qed.

(** a token that begins with a character which is neither a stop nor the dot has at least one character *)
Lemma index_of_token_end_g_pos hs c s : is_stop hs c = false -> c <> "."%char ->
  1 <= index_of_token_end_g hs (c :: s).
Proof.
  intros Hc Hd. unfold index_of_token_end_g. cbn [first_stop]. rewrite Hc.
  assert (Ed : Ascii.eqb c "."%char = false) by (apply Ascii.eqb_neq; exact Hd).
  destruct (first_stop hs s) as [n|].
  - destruct n as [|n].
    + change (Z.of_nat 1 - 1) with (len []). change (c :: s) with ([] ++ c :: s). rewrite at_idx_app.
      change (ch nt_statement_end) with "."%char. rewrite Ed, andb_false_r. lia.
    + destruct ((0 <? Z.of_nat (S (S n))) &&
                match at_idx (c :: s) (Z.of_nat (S (S n)) - 1) with
                | Some c0 => Ascii.eqb c0 (ch nt_statement_end) | None => false end); lia.
  - destruct (suffixb nt_statement_end (c :: s)) eqn:E.
    + destruct s as [|d s].
      * change nt_statement_end with ["."%char] in E. unfold suffixb in E. cbn [rev app prefixb] in E.
        rewrite Ascii.eqb_sym, Ed in E. discriminate.
      * rewrite !len_cons. pose proof (len_nonneg s). lia.
    + rewrite len_cons. pose proof (len_nonneg s). lia.
Qed.

(** ** the two inner loops *)
Lemma scan_quote_total : forall fuel t q, Z.max 0 (len t - q) < Z.of_nat fuel ->
  scan_quote fuel t q <> Hang /\ (forall r, scan_quote fuel t q = Ok r -> q <= r).
Proof.
  induction fuel as [|f IH]; intros t q Hf; [lia|]. cbn [scan_quote].
  destruct (len t <=? q) eqn:L.
  - split; [discriminate | intros r [= <-]; lia].
  - apply Z.leb_gt in L. destruct (at_idx t q) as [c|]; [|split; [discriminate | discriminate]].
    destruct (Ascii.eqb c ch_lit); [split; [discriminate | intros r [= <-]; lia]|].
    destruct (Ascii.eqb c (ch ntf_escape_char)).
    + destruct (IH t (q + 1 + Z.of_nat (cp_advance (slice_from t (q + 1)) 1)) ltac:(lia)) as [A B].
      split; [exact A | intros r E; specialize (B r E); lia].
    + destruct (IH t (q + 1) ltac:(lia)) as [A B].
      split; [exact A | intros r E; specialize (B r E); lia].
Qed.

Lemma tag_loop_total : forall fuel rest k, Z.max 0 (len rest - k) < Z.of_nat fuel ->
  tag_loop fuel rest k <> Hang /\ (forall r, tag_loop fuel rest k = Ok r -> k <= r).
Proof.
  induction fuel as [|f IH]; intros rest k Hf; [lia|]. cbn [tag_loop].
  destruct (len rest <=? k) eqn:L.
  - split; [discriminate | intros r [= <-]; lia].
  - apply Z.leb_gt in L. destruct (at_idx rest k) as [c|]; [|split; discriminate].
    destruct (is_alnum_py c || Ascii.eqb c (ch ntf_tag_extra_char)).
    + destruct (IH rest (k + 1) ltac:(lia)) as [A B].
      split; [exact A | intros r E; specialize (B r E); lia].
    + split; [discriminate | intros r [= <-]; lia].
Qed.

(** ** the four [_look_for_last_index_of_*]: the token ends at or after its first character *)
Lemma last_index_literal_g_total hs t i : 0 <= i ->
  last_index_literal_g hs t i <> Hang /\ (forall last, last_index_literal_g hs t i = Ok last -> i < len t -> i <= last).
Proof.
  intros Hi. unfold last_index_literal_g.
  destruct (scan_quote_total (List.length t + 2) t (i + 1)) as [A B].
  { unfold len. lia. }
  destruct (scan_quote (List.length t + 2) t (i + 1)) as [q| |]; [|split; discriminate | congruence].
  specialize (B q eq_refl). cbn [bind].
  destruct (len t <=? q); [split; [discriminate | intros last [= <-] L; lia]|].
  set (rest := slice_from t (q + 1)).
  destruct (prefixb ntf_type_open rest && contains ntf_type_close rest).
  { split; [discriminate|]. intros last [= <-] L. pose proof (find_ge_m1 ntf_type_close rest). lia. }
  destruct (prefixb ntf_lang_char rest).
  { destruct (tag_loop_total (List.length rest + 2) rest 1) as [C D].
    { unfold len. lia. }
    destruct (tag_loop (List.length rest + 2) rest 1) as [k| |]; [|split; discriminate | congruence].
    specialize (D k eq_refl). cbn [bind]. split; [discriminate|]. intros last [= <-] L. lia. }
  destruct (prefixb ntf_type_marker rest).
  { split; [discriminate|]. intros last [= <-] L. pose proof (index_of_token_end_g_ge_m1 hs rest). lia. }
  split; [discriminate|]. intros last [= <-] L. lia.
Qed.

Lemma last_index_uri_g_progress pre c post : len pre <= last_index_uri_g true (pre ++ c :: post) (len pre).
Proof.
  unfold last_index_uri_g. rewrite slice_from_app. cbn [andb].
  pose proof (find_ge_m1 s_gt (c :: post)). pose proof (len_nonneg post).
  destruct (find s_gt (c :: post) <? 0) eqn:F.
  - rewrite len_app, len_cons. lia.
  - apply Z.ltb_ge in F. rewrite len_app. lia.
Qed.

Lemma last_index_bnode_g_progress hs pre c post : is_stop hs c = false -> c <> "."%char ->
  len pre <= last_index_bnode_g hs (pre ++ c :: post) (len pre).
Proof.
  intros H1 H2. unfold last_index_bnode_g. rewrite slice_from_app.
  pose proof (index_of_token_end_g_pos hs c post H1 H2). rewrite len_app. lia.
Qed.

Lemma last_index_number_g_progress hs pre c post : is_stop hs c = false -> c <> "."%char ->
  len pre <= last_index_number_g hs (pre ++ c :: post) (len pre).
Proof. exact (last_index_bnode_g_progress hs pre c post). Qed.

Lemma bnode_char_not_stop hs c : Ascii.eqb c ch_bnode = true -> is_stop hs c = false /\ c <> "."%char.
Proof. intros H. apply Ascii.eqb_eq in H. subst c. split; [destruct hs; reflexivity | discriminate]. Qed.

Lemma digit_not_stop hs c : is_ascii_digit c = true -> is_stop hs c = false /\ c <> "."%char.
Proof.
  destruct hs; destruct c as [[] [] [] [] [] [] [] []]; cbn; intros H; try discriminate; split; (reflexivity || discriminate).
Qed.

(** ** [_look_for_tokens]: the loop never exhausts its fuel *)
Lemma look_loop_g_total hs : forall fuel line i acc, 0 <= i -> Z.max 0 (len line + 1 - i) < Z.of_nat fuel ->
  look_loop_g hs true fuel line i acc <> Hang.
Proof.
  induction fuel as [|f IH]; intros line i acc Hi Hf; [lia|]. cbn [look_loop_g].
  destruct (i =? len line); [discriminate|].
  destruct (at_idx line i) as [c|] eqn:A; [|discriminate].
  destruct (at_idx_split _ _ _ Hi A) as (pre & post & E & I). subst line i.
  assert (L : len (pre ++ c :: post) = len pre + 1 + len post) by (rewrite len_app, len_cons; lia).
  pose proof (len_nonneg post) as Np.
  destruct (Ascii.eqb c ch_uri).
  { pose proof (last_index_uri_g_progress pre c post). apply IH; lia. }
  destruct (Ascii.eqb c ch_lit).
  { destruct (last_index_literal_g_total hs (pre ++ c :: post) (len pre) Hi) as [N P].
    destruct (last_index_literal_g hs (pre ++ c :: post) (len pre)) as [last| |]; [|discriminate | congruence].
    specialize (P last eq_refl ltac:(lia)). apply IH; lia. }
  destruct (Ascii.eqb c ch_bnode) eqn:B.
  { destruct (bnode_char_not_stop hs c B) as [S1 S2].
    pose proof (last_index_bnode_g_progress hs pre c post S1 S2). apply IH; lia. }
  destruct (Ascii.eqb c ch_dot); [discriminate|].
  destruct (is_ascii_digit c) eqn:D.
  { destruct (digit_not_stop hs c D) as [S1 S2].
    pose proof (last_index_number_g_progress hs pre c post S1 S2). apply IH; lia. }
  apply IH; lia.
Qed.

Theorem look_for_tokens_g_total hs line : look_for_tokens_g hs true line <> Hang.
Proof.
  unfold look_for_tokens_g. apply look_loop_g_total; [lia|]. unfold line_fuel, len. lia.
Qed.

(** ** nothing after the tokeniser loops *)
Lemma remove_corners_no_hang a : remove_corners a <> Hang.
Proof. unfold remove_corners. destruct (prefixb (Str "<") a && suffixb (Str ">") a); discriminate. Qed.

Lemma decide_literal_type_no_hang a : decide_literal_type a <> Hang.
Proof.
  unfold decide_literal_type. destruct (arroba_after_last_quotes a); [discriminate|].
  destruct (negb (contains dlt_typed_marker a)); [discriminate|].
  destruct (first_prefix dlt_prefix_table a) as [[[p k] ns]|]; [discriminate|].
  destruct (existsb (fun ns => contains ns a) dlt_namespaces); [discriminate|].
  destruct (suffixb dlt_closing (strip a)); discriminate.
Qed.

Lemma decide_literal_type_fx_no_hang a : decide_literal_type_fx a <> Hang.
Proof.
  unfold decide_literal_type_fx.
  destruct (prefixb ntf_lang_char _); [discriminate|].
  destruct (negb (prefixb ntf_type_marker _)); [destruct (arroba_after_last_quotes a); discriminate|].
  destruct (first_dlt_prefix ntf_dlt_prefix_table _) as [[[p k] ns]|]; [discriminate|].
  destruct (prefixb ntf_dlt_iri_open _ && suffixb ntf_dlt_iri_close _); discriminate.
Qed.

Lemma bind_ok_no_hang {A B} (r : res A) (f : A -> B) : r <> Hang -> bind r (fun x => Ok (f x)) <> Hang.
Proof. destruct r; cbn; congruence. Qed.

Lemma tune_token_no_hang allow tok : tune_token allow tok <> Hang.
Proof.
  unfold tune_token, parse_literal.
  destruct (prefixb (Str "<") tok); [apply bind_ok_no_hang, remove_corners_no_hang|].
  destruct (prefixb (Str """") tok); [apply (bind_ok_no_hang _ (fun dt => TLit _ dt)), decide_literal_type_no_hang|].
  destruct (prefixb (Str "_:") tok); [discriminate|].
  destruct (str_eqb (strip tok) (Str "[]")); [discriminate|].
  destruct (if allow then simple_number (strip tok) else None) as [[|]|]; try discriminate.
  apply (bind_ok_no_hang _ (fun dt => TLit tok dt)), decide_literal_type_no_hang.
Qed.

Lemma tune_token_fx_no_hang allow tok : tune_token_fx allow tok <> Hang.
Proof.
  unfold tune_token_fx, parse_literal_fx.
  destruct (prefixb (Str "<") tok); [apply bind_ok_no_hang, remove_corners_no_hang|].
  destruct (prefixb (Str """") tok); [apply (bind_ok_no_hang _ (fun dt => TLit _ dt)), decide_literal_type_fx_no_hang|].
  destruct (prefixb (Str "_:") tok); [discriminate|].
  destruct (str_eqb (strip tok) (Str "[]")); [discriminate|].
  destruct (if allow then simple_number (strip tok) else None) as [[|]|]; try discriminate.
  apply (bind_ok_no_hang _ (fun dt => TLit tok dt)), decide_literal_type_fx_no_hang.
Qed.

Lemma tokens_result_no_hang allow r : r <> Hang -> tokens_result allow r <> LHang.
Proof.
  intros H. unfold tokens_result. destruct r as [toks| |]; [|discriminate | congruence].
  destruct toks as [|a [|b [|c [|d toks]]]]; try discriminate.
  pose proof (tune_token_no_hang false a). destruct (tune_token false a); [|discriminate | congruence].
  pose proof (remove_corners_no_hang b). unfold tune_prop. destruct (remove_corners b); [|discriminate | congruence].
  pose proof (tune_token_no_hang allow c). destruct (tune_token allow c); [discriminate | discriminate | congruence].
Qed.

Lemma tokens_result_fx_no_hang allow r : r <> Hang -> tokens_result_fx allow r <> LHang.
Proof.
  intros H. unfold tokens_result_fx. destruct r as [toks| |]; [|discriminate | congruence].
  destruct toks as [|a [|b [|c [|d toks]]]]; try discriminate.
  pose proof (tune_token_fx_no_hang false a). destruct (tune_token_fx false a); [|discriminate | congruence].
  pose proof (remove_corners_no_hang b). unfold tune_prop. destruct (remove_corners b); [|discriminate | congruence].
  pose proof (tune_token_fx_no_hang allow c). destruct (tune_token_fx allow c); [discriminate | discriminate | congruence].
Qed.

(** ** lines and documents, for ARBITRARY text *)
Theorem process_line_g_total hs allow line : process_line_g hs true allow line <> LHang.
Proof. apply tokens_result_no_hang, look_for_tokens_g_total. Qed.

Theorem process_line_g2_total hs allow line : process_line_g2 hs true allow line <> LHang.
Proof. apply tokens_result_fx_no_hang, look_for_tokens_g_total. Qed.

Lemma run_lines_g_total pl : (forall l, pl l <> LHang) ->
  forall lines acc errs ys e, run_lines_g pl lines acc errs <> DocHang ys e.
Proof.
  intros P. induction lines as [|l lines IH]; intros acc errs ys e; cbn [run_lines_g]; [discriminate|].
  specialize (P l). destruct (pl l); [apply IH | apply IH | discriminate | congruence].
Qed.

Theorem read_raw_string_g2_total hs allow doc ys e : read_raw_string_g2 hs true allow doc <> DocHang ys e.
Proof. apply run_lines_g_total. apply process_line_g2_total. Qed.

Theorem read_file_g2_total hs allow doc ys e : read_file_g2 hs true allow doc <> DocHang ys e.
Proof. apply run_lines_g_total. apply process_line_g2_total. Qed.

Theorem read_raw_string_g_total hs allow doc ys e : read_raw_string_g hs true allow doc <> DocHang ys e.
Proof. apply run_lines_g_total. apply process_line_g_total. Qed.

(** ** without [el] the loop does not advance on a '<' that is never closed *)
Lemma hang_without_el hs allow : process_line_g2 hs false allow (Str "<x") = LHang.
Proof. destruct hs; vm_compute; reflexivity. Qed.
